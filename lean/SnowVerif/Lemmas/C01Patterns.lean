/-
  Helper lemmas for `Theorems/C01Patterns.lean`:
    * snow's `apply_psk_modifier` (model) equals the specification's placement, for all
      instances and all modifier lists, and both equal the closed form `Spec.placed`;
    * inserting `psk` tokens by `Spec.placed` preserves the validity rules.
-/
import SnowVerif.Model.Builder
import SnowVerif.Spec.Validity

namespace SnowVerif.Lemmas.C01Patterns
open SnowVerif SnowVerif.Spec
set_option linter.unusedVariables false
set_option linter.unusedSimpArgs false

/-! ## `appendAt` / `applyPsk` -/

theorem appendAt_eq_modify (t : Tok) : ∀ (ms : List (List Tok)) (k : Nat),
    appendAt ms k t = if k < ms.length then some (ms.modify k (· ++ [t])) else none
  | [], k => by simp [appendAt]
  | m :: ms, 0 => by simp [appendAt]
  | m :: ms, k + 1 => by
    simp only [appendAt, appendAt_eq_modify t ms k, List.length_cons, Nat.add_lt_add_iff_right,
      List.modify_succ_cons]
    split <;> simp

theorem appendAt_length {t : Tok} : ∀ {ms : List (List Tok)} {k : Nat} {ms' : List (List Tok)},
    appendAt ms k t = some ms' → ms'.length = ms.length := by
  intro ms k ms' h
  rw [appendAt_eq_modify] at h
  split at h
  · simp only [Option.some.injEq] at h; subst h; simp
  · cases h

theorem appendAt_isSome (t : Tok) (ms : List (List Tok)) (k : Nat) :
    (appendAt ms k t).isSome = decide (k < ms.length) := by
  rw [appendAt_eq_modify]; split <;> simp [*]

/-- The model of `apply_psk_modifier` is the specification's placement of one `pskN`. -/
theorem applyPsk_model_eq (i : Inst) (n : Nat) :
    Model.applyPsk i n =
      match Spec.applyPsk i n with
      | some i' => .ok i'
      | none => .err (.pattern .invalidPsk) := by
  cases n with
  | zero =>
    cases i with
    | mk preI preR msgs =>
      cases msgs with
      | nil => simp [Model.applyPsk, Spec.applyPsk]
      | cons m ms => simp [Model.applyPsk, Spec.applyPsk]
  | succ n =>
    simp only [Model.applyPsk, Spec.applyPsk, appendAt_eq_modify, Nat.add_sub_cancel]
    split <;> simp [*]

theorem applyPsk_length {i i' : Inst} {n : Nat} (h : Spec.applyPsk i n = some i') :
    i'.msgs.length = i.msgs.length := by
  cases n with
  | zero =>
    simp only [Spec.applyPsk] at h
    split at h
    · cases h
    · rename_i m ms hm
      simp only [Option.some.injEq] at h; subst h; simp [hm]
  | succ n =>
    simp only [Spec.applyPsk, Option.map_eq_some_iff] at h
    obtain ⟨ms', h1, rfl⟩ := h
    exact appendAt_length h1

theorem applyPsk_isSome (i : Inst) (n : Nat) :
    (Spec.applyPsk i n).isSome = fits i.msgs.length n := by
  cases n with
  | zero =>
    simp only [Spec.applyPsk, fits]
    split <;> simp [*]
  | succ n =>
    simp only [Spec.applyPsk, Option.isSome_map, appendAt_isSome, fits]
    by_cases h : n < i.msgs.length
    · have h1 : 1 ≤ i.msgs.length := by omega
      have h2 : n + 1 ≤ i.msgs.length := by omega
      simp [h, h1, h2]
    · have h2 : ¬ (n + 1 ≤ i.msgs.length) := by omega
      simp [h, h2]

/-! ## The closed form -/

theorem length_placeFrom (mods : List Modifier) : ∀ (k : Nat) (ms : List (List Tok)),
    (placeFrom mods k ms).length = ms.length
  | _, [] => rfl
  | k, m :: ms => by simp [placeFrom, length_placeFrom mods (k + 1) ms]

theorem placeFrom_nil : ∀ (k : Nat) (ms : List (List Tok)), placeFrom [] k ms = ms
  | _, [] => rfl
  | k, m :: ms => by simp [placeFrom, placeMsg, placeFrom_nil (k + 1) ms]

/-- A `pskN` modifier does not touch the messages after message `N`. -/
theorem placeFrom_cons_of_le (rest : List Modifier) (n : Nat) :
    ∀ (ms : List (List Tok)) (j : Nat), 1 ≤ j → n ≤ j →
      placeFrom (.psk n :: rest) j ms = placeFrom rest j ms
  | [], _, _, _ => rfl
  | m :: ms, j, h1, h2 => by
    have hj : j ≠ 0 := by omega
    have hn : ¬ (n = j + 1) := by omega
    simp only [placeFrom, placeMsg, hj, ↓reduceIte, List.nil_append, List.count_cons,
      Modifier.psk.injEq, beq_iff_eq, hn, Nat.add_zero,
      placeFrom_cons_of_le rest n ms (j + 1) (by omega) (by omega)]

theorem placeFrom_appendAt (rest : List Modifier) :
    ∀ (ms : List (List Tok)) (j k : Nat) (ms' : List (List Tok)),
      appendAt ms k (.psk (j + k + 1)) = some ms' →
      placeFrom rest j ms' = placeFrom (.psk (j + k + 1) :: rest) j ms
  | [], j, k, ms', h => by simp [appendAt] at h
  | m :: ms, j, 0, ms', h => by
    simp only [appendAt, Option.some.injEq] at h
    subst h
    simp only [Nat.add_zero, placeFrom, placeFrom_cons_of_le rest (j + 1) ms (j + 1) (by omega) (by omega)]
    congr 1
    simp only [placeMsg, List.count_cons_self, List.replicate_succ, List.append_assoc,
      List.singleton_append]
    have : List.count (Modifier.psk 0) (Modifier.psk (j + 1) :: rest) = List.count (Modifier.psk 0) rest := by
      rw [List.count_cons_of_ne]; simp
    rw [this]
  | m :: ms, j, k + 1, ms', h => by
    simp only [appendAt, Option.map_eq_some_iff] at h
    obtain ⟨ms'', h1, rfl⟩ := h
    have e : j + (k + 1) + 1 = (j + 1) + k + 1 := by omega
    rw [e] at h1 ⊢
    simp only [placeFrom, placeFrom_appendAt rest ms (j + 1) k ms'' h1]
    congr 1
    simp only [placeMsg]
    have h0 : List.count (Modifier.psk 0) (Modifier.psk (j + 1 + k + 1) :: rest) = List.count (Modifier.psk 0) rest := by
      rw [List.count_cons_of_ne]; simp
    have h1 : List.count (Modifier.psk (j + 1)) (Modifier.psk (j + 1 + k + 1) :: rest) =
        List.count (Modifier.psk (j + 1)) rest := by
      rw [List.count_cons_of_ne]; simp; omega
    rw [h0, h1]

/-- Applying one `pskN` and then placing the rest = placing all. -/
theorem placed_applyPsk {i i' : Inst} {n : Nat} (rest : List Modifier)
    (h : Spec.applyPsk i n = some i') : placed i' rest = placed i (.psk n :: rest) := by
  cases n with
  | zero =>
    simp only [Spec.applyPsk] at h
    split at h
    · cases h
    · rename_i m ms hm
      simp only [Option.some.injEq] at h; subst h
      simp only [placed, hm, placeFrom, placeFrom_cons_of_le rest 0 ms 1 (by omega) (by omega)]
      congr 2
      simp only [placeMsg, ↓reduceIte, List.count_cons_self, List.replicate_succ', List.append_assoc,
        List.singleton_append, Nat.zero_add]
      have : List.count (Modifier.psk 1) (Modifier.psk 0 :: rest) = List.count (Modifier.psk 1) rest := by
        rw [List.count_cons_of_ne]; simp
      rw [this]
  | succ n =>
    simp only [Spec.applyPsk, Option.map_eq_some_iff] at h
    obtain ⟨ms', h1, rfl⟩ := h
    have := placeFrom_appendAt rest i.msgs 0 n ms' (by simpa using h1)
    simp only [placed]
    rw [this]
    simp

/-- The specification's sequential placement equals the closed form, and is defined exactly when
    every modifier is a `pskN` that has a place. -/
theorem spec_applyModifiers_eq : ∀ (mods : List Modifier) (i : Inst),
    Spec.applyModifiers i mods =
      if allFit i.msgs.length mods then some (placed i mods) else none
  | [], i => by simp [Spec.applyModifiers, allFit, placed, placeFrom_nil]
  | .fallback :: rest, i => by simp [Spec.applyModifiers, allFit]
  | .psk n :: rest, i => by
    simp only [Spec.applyModifiers, allFit, List.all_cons]
    cases h : Spec.applyPsk i n with
    | none =>
      have := applyPsk_isSome i n
      rw [h] at this
      simp [← this]
    | some i' =>
      have hf := applyPsk_isSome i n
      rw [h] at hf
      have hl := applyPsk_length h
      simp only [Option.bind_some, spec_applyModifiers_eq rest i', hl, ← hf, Option.isSome_some,
        Bool.true_and, allFit, placed_applyPsk rest h]

/-- The pattern error snow reports: that of the first modifier that has no place. -/
def modProblem (len : Nat) : List Modifier → PatternProblem
  | [] => .invalidPsk
  | .psk n :: rest => if fits len n then modProblem len rest else .invalidPsk
  | .fallback :: _ => .unsupportedModifier

/-- snow's modifier loop equals the specification's sequential placement; where the latter is
    undefined snow reports the pattern error of the first offending modifier. -/
theorem model_applyModifiers_eq : ∀ (mods : List Modifier) (i : Inst),
    Model.applyModifiers i mods =
      match Spec.applyModifiers i mods with
      | some i' => .ok i'
      | none => .err (.pattern (modProblem i.msgs.length mods))
  | [], i => by simp [Model.applyModifiers, Spec.applyModifiers]
  | .fallback :: rest, i => by simp [Model.applyModifiers, Spec.applyModifiers, modProblem]
  | .psk n :: rest, i => by
    simp only [Model.applyModifiers, Spec.applyModifiers, applyPsk_model_eq, modProblem]
    have hf := applyPsk_isSome i n
    cases h : Spec.applyPsk i n with
    | none =>
      rw [h] at hf
      simp [← hf]
    | some i' =>
      rw [h] at hf
      simp only [Option.bind_some, model_applyModifiers_eq rest i', applyPsk_length h, ← hf,
        Option.isSome_some, ↓reduceIte]

/-! ## Validity is preserved -/

/-- Remove the `psk` tokens. -/
def strip (m : List Tok) : List Tok := m.filter fun t => !isPsk t

theorem runToks_strip (ini : Bool) : ∀ (m : List Tok) (k : Keys),
    Keys.runToks ini k (strip m) = Keys.runToks ini k m
  | [], k => rfl
  | t :: ts, k => by
    have ih := runToks_strip ini ts
    have hs : strip (t :: ts) = if isPsk t then strip ts else t :: strip ts := by
      simp only [strip, List.filter_cons]; cases isPsk t <;> simp
    cases t <;> simp [hs, isPsk, Keys.runToks, Keys.step, ih]

theorem runMsgs_strip : ∀ (ms : List (List Tok)) (ini : Bool) (k : Keys),
    Keys.runMsgs ini k (ms.map strip) = Keys.runMsgs ini k ms
  | [], _, _ => rfl
  | m :: ms, ini, k => by
    simp only [List.map_cons, Keys.runMsgs, Keys.runMsg, runToks_strip]
    congr 1
    funext k'
    exact runMsgs_strip ms (!ini) k'

theorem strip_placeMsg (mods : List Modifier) (k : Nat) (m : List Tok) :
    strip (placeMsg mods k m) = strip m := by
  simp only [strip, placeMsg, List.filter_append, List.filter_replicate, isPsk]
  split <;> simp

theorem map_strip_placeFrom (mods : List Modifier) : ∀ (ms : List (List Tok)) (k : Nat),
    (placeFrom mods k ms).map strip = ms.map strip
  | [], _ => rfl
  | m :: ms, k => by
    simp [placeFrom, strip_placeMsg, map_strip_placeFrom mods ms (k + 1)]

/-- Rules 1 to 4 of section 7.3 do not see `psk` tokens. -/
theorem dhRules_placed (i : Inst) (mods : List Modifier) : dhRules (placed i mods) = dhRules i := by
  simp only [dhRules, placed, length_placeFrom]
  have : ∀ k, Keys.runMsgs true k (placeFrom mods 0 i.msgs) = Keys.runMsgs true k i.msgs :=
    fun k => by rw [← runMsgs_strip, map_strip_placeFrom, runMsgs_strip]
  simp only [this]

/-- Has this party sent its `e`? -/
def sent (ini : Bool) (st : PskSt) : Bool := if ini then st.eI else st.eR

/-- Once a party has sent `e`, any further message of that party passes the psk rule and does
    not change who has sent `e`. -/
theorem pskRunMsg_sent (ini : Bool) : ∀ (m : List Tok) (st : PskSt), sent ini st = true →
    ∃ st', PskSt.runMsg ini st m = some st' ∧ st'.eI = st.eI ∧ st'.eR = st.eR
  | [], st, h => by
    refine ⟨st, ?_, rfl, rfl⟩
    cases ini <;> simp_all [PskSt.runMsg, PskSt.mayEncrypt, sent]
  | t :: ts, st, h => by
    cases t with
    | e =>
      have hs : st.sentE ini = st := by
        cases ini <;> cases st <;> simp_all [PskSt.sentE, sent]
      simp only [PskSt.runMsg, hs]
      exact pskRunMsg_sent ini ts st h
    | s =>
      have hm : st.mayEncrypt ini = true := by
        cases ini <;> simp_all [PskSt.mayEncrypt, sent]
      simp only [PskSt.runMsg, hm, ↓reduceIte]
      exact pskRunMsg_sent ini ts st h
    | psk n =>
      simp only [PskSt.runMsg]
      obtain ⟨st', h1, h2, h3⟩ := pskRunMsg_sent ini ts { st with psk := true } (by simpa [sent] using h)
      exact ⟨st', h1, h2, h3⟩
    | ee => simp only [PskSt.runMsg]; exact pskRunMsg_sent ini ts st h
    | es => simp only [PskSt.runMsg]; exact pskRunMsg_sent ini ts st h
    | se => simp only [PskSt.runMsg]; exact pskRunMsg_sent ini ts st h
    | ss => simp only [PskSt.runMsg]; exact pskRunMsg_sent ini ts st h

/-- A message that starts with `psk0` tokens followed by `e` passes the psk rule; afterwards
    its sender has sent `e`. -/
theorem pskRunMsg_psk_e (ini : Bool) (r : List Tok) : ∀ (c : Nat) (st : PskSt),
    ∃ st', PskSt.runMsg ini st (List.replicate c (Tok.psk 0) ++ Tok.e :: r) = some st' ∧
      sent ini st' = true ∧ sent (!ini) st' = sent (!ini) st
  | 0, st => by
    simp only [List.replicate_zero, List.nil_append, PskSt.runMsg]
    have hs : sent ini (st.sentE ini) = true := by cases ini <;> simp [PskSt.sentE, sent]
    obtain ⟨st', h1, h2, h3⟩ := pskRunMsg_sent ini r (st.sentE ini) hs
    refine ⟨st', h1, ?_, ?_⟩
    · cases ini <;> simp_all [sent, PskSt.sentE]
    · cases ini <;> simp_all [sent, PskSt.sentE]
  | c + 1, st => by
    simp only [List.replicate_succ, List.cons_append, PskSt.runMsg]
    obtain ⟨st', h1, h2, h3⟩ := pskRunMsg_psk_e ini r c { st with psk := true }
    exact ⟨st', h1, h2, by simpa [sent] using h3⟩

/-- Once both parties have sent `e`, everything passes. -/
theorem pskRunMsgs_sent : ∀ (ms : List (List Tok)) (ini : Bool) (st : PskSt),
    st.eI = true → st.eR = true →
    ∃ st', PskSt.runMsgs ini st ms = some st' ∧ st'.eI = true ∧ st'.eR = true
  | [], _, st, h1, h2 => ⟨st, rfl, h1, h2⟩
  | m :: ms, ini, st, h1, h2 => by
    obtain ⟨st1, g1, g2, g3⟩ := pskRunMsg_sent ini m st (by cases ini <;> simp [sent, h1, h2])
    simp only [PskSt.runMsgs, g1, Option.bind_some]
    exact pskRunMsgs_sent ms (!ini) st1 (g2 ▸ h1) (g3 ▸ h2)

/-- If message 1 is `psk0 .. psk0, e, ..` and message 2 (if any) is `e, ..`, the psk rule of
    section 9.3 holds whatever else the messages contain. -/
theorem pskRule_of_shape (preI preR : List Tok) (c : Nat) (r0 : List Tok) (rest : List (List Tok))
    (h : rest = [] ∨ ∃ r1 rest', rest = (Tok.e :: r1) :: rest') :
    pskRule { preI := preI, preR := preR,
              msgs := (List.replicate c (Tok.psk 0) ++ Tok.e :: r0) :: rest } = true := by
  obtain ⟨st1, a1, a2, a3⟩ := pskRunMsg_psk_e true r0 c {}
  simp only [sent, Bool.not_true, ↓reduceIte, Bool.false_eq_true] at a2 a3
  rcases h with rfl | ⟨r1, rest', rfl⟩
  · simp [pskRule, PskSt.runMsgs, a1, PskSt.mayEncrypt, a2]
  · obtain ⟨st2, b1, b2, b3⟩ := pskRunMsg_psk_e false r1 0 st1
    simp only [List.replicate_zero, List.nil_append, sent, Bool.not_false, ↓reduceIte,
      Bool.false_eq_true] at b1 b2 b3
    obtain ⟨st3, c1, c2, c3⟩ := pskRunMsgs_sent rest' true st2 (b3.trans a2) b2
    simp [pskRule, PskSt.runMsgs, a1, b1, c1, PskSt.mayEncrypt, c2, c3]

/-- Shape of the first two messages after placement, for a base pattern whose first two
    messages start with `e`. -/
theorem placed_shape (i : Inst) (mods : List Modifier) (h1 : 1 ≤ i.msgs.length)
    (hE : startsWithE i = true) :
    ∃ r0 rest, (placed i mods).msgs =
        (List.replicate (mods.count (.psk 0)) (Tok.psk 0) ++ Tok.e :: r0) :: rest ∧
      (rest = [] ∨ ∃ r1 rest', rest = (Tok.e :: r1) :: rest') := by
  cases i with
  | mk preI preR msgs =>
    cases msgs with
    | nil => simp at h1
    | cons m0 rest =>
      cases m0 with
      | nil => simp [startsWithE] at hE
      | cons t0 r0 =>
        cases rest with
        | nil =>
          simp only [startsWithE, List.take, List.all_cons, List.head?_cons, List.all_nil,
            Bool.and_true, beq_iff_eq, Option.some.injEq] at hE
          subst hE
          exact ⟨r0 ++ List.replicate (mods.count (.psk 1)) (Tok.psk 1), [],
            by simp [placed, placeFrom, placeMsg], Or.inl rfl⟩
        | cons m1 rest' =>
          cases m1 with
          | nil => simp [startsWithE] at hE
          | cons t1 r1 =>
            simp only [startsWithE, List.take, List.all_cons, List.head?_cons, List.all_nil,
              Bool.and_true, beq_iff_eq, Option.some.injEq, Bool.and_eq_true] at hE
            obtain ⟨rfl, rfl⟩ := hE
            exact ⟨r0 ++ List.replicate (mods.count (.psk 1)) (Tok.psk 1),
              (Tok.e :: (r1 ++ List.replicate (mods.count (.psk 2)) (Tok.psk 2))) ::
                placeFrom mods 2 rest',
              by simp [placed, placeFrom, placeMsg], Or.inr ⟨_, _, rfl⟩⟩

/-- Validity (sections 7.3 and 9.3) is preserved by placing any `psk` tokens the `pskN` way, for
    a valid base pattern whose first two messages start with `e`. -/
theorem valid_placed (i : Inst) (mods : List Modifier) (hv : valid i = true)
    (hE : startsWithE i = true) : valid (placed i mods) = true := by
  simp only [valid, Bool.and_eq_true, decide_eq_true_eq] at hv
  obtain ⟨⟨⟨h1, h4⟩, hd⟩, _⟩ := hv
  obtain ⟨r0, rest, hs, hr⟩ := placed_shape i mods h1 hE
  have hp : pskRule (placed i mods) = true := by
    have := pskRule_of_shape (placed i mods).preI (placed i mods).preR
      (mods.count (.psk 0)) r0 rest hr
    rw [← hs] at this
    exact this
  have hl : (placed i mods).msgs.length = i.msgs.length := by simp [placed, length_placeFrom]
  simp [valid, hl, h1, h4, dhRules_placed, hd, hp]

end SnowVerif.Lemmas.C01Patterns
