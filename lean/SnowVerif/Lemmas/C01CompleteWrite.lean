/-
  C01, converse direction: `_write_message`. Whenever the specification's `WriteMessage` is
  defined on the abstract state (with `GENERATE_KEYPAIR()` returning the key pair snow is about to
  draw, or has fixed), the token loop of the model, then the payload encryption, then
  `_write_message` succeed, provided snow's own checks (turn, 65535, buffer, nonce guard,
  `Dh::generate` accepting the drawn key) pass.
-/
import SnowVerif.Lemmas.C01CompleteRead

namespace SnowVerif.C01
open SnowVerif SnowVerif.Model SnowVerif.Model.HS SnowVerif.Bytes SnowVerif.Framing
set_option linter.unusedVariables false
set_option linter.unusedSimpArgs false

/-! ### The ephemeral key pair of a write -/

/-- The key pair the `Token::E` arm of `_write_message` uses in state `hs`: the fixed testing
    ephemeral if set, otherwise the next `priv_len` bytes of the random source and their public
    key. This is what the specification's `GENERATE_KEYPAIR()` is instantiated with. -/
def ephOf (S : Suite) (hs : HS) : Spec.KeyPair :=
  if hs.fixedE then absKP hs.e.val
  else { priv := (rngDraw hs.rng S.privLen).1, pub := S.pubOf (rngDraw hs.rng S.privLen).1 }

/-- `Dh::generate` accepts the private key it is about to draw (always true for 25519; the
    negation is `GenFail` of C10, the one panic site of `write_message`). -/
def GenOk (S : Suite) (hs : HS) : Prop :=
  hs.fixedE = true ∨ S.validPriv (rngDraw hs.rng S.privLen).1 = true

/-- `GenOk` is the negation of C10's `GenFail`. -/
theorem genOk_iff_not_genFail (S : Suite) (hs : HS) : GenOk S hs ↔ ¬ Lemmas.C10.GenFail S hs := by
  unfold GenOk Lemmas.C10.GenFail
  cases hs.fixedE <;> cases S.validPriv (rngDraw hs.rng S.privLen).1 <;> simp

/-- A successful `e` token installed exactly `ephOf`, and `Dh::generate` accepted the draw. -/
theorem writeTok_e_val (S : Suite) (cap : Nat) (w : WS) (h : (writeTok S cap w .e).1 = .ok ()) :
    absKP (writeTok S cap w .e).2.hs.e.val = ephOf S w.hs ∧ GenOk S w.hs := by
  rw [writeTok_e_eq] at h ⊢
  by_cases hcap : w.acc.length + S.pubLen > cap
  · simp [hcap] at h
  · simp only [hcap, ↓reduceIte] at h ⊢
    cases hf : w.hs.fixedE with
    | true =>
      simp only [↓reduceIte, eStep, ephOf, hf]
      exact ⟨trivial, Or.inl hf⟩
    | false =>
      simp only [hf, Bool.false_eq_true, ↓reduceIte] at h ⊢
      cases hv : S.validPriv (rngDraw w.hs.rng S.privLen).1 with
      | false => simp [hv] at h
      | true =>
        simp only [↓reduceIte, eStep, ephOf, hf, Bool.false_eq_true, absKP]
        exact ⟨trivial, Or.inr hv⟩

/-- The `psk` arm does not touch the random source. -/
theorem pskStep_rng (S : Suite) (hs : HS) (n : Nat) : (pskStep S hs n).2.rng = hs.rng :=
  (pskStep_rframe S hs n).rng

/-- The DH arm does not touch the random source. -/
theorem dhStep_rng (S : Suite) (hs : HS) (t : Tok) : (dhStep S hs t).2.rng = hs.rng :=
  (dhStep_rframe S hs t).rng

/-- Tokens other than `e` never touch the random source. -/
theorem writeTok_rng_same (S : Suite) (cap : Nat) (w : WS) (t : Tok) (ht : t ≠ .e) :
    (writeTok S cap w t).2.hs.rng = w.hs.rng := by
  cases t with
  | e => exact absurd rfl ht
  | s => rw [writeTok_s_eq]; repeat' split
         all_goals rfl
  | psk n => rw [writeTok_psk_eq]; exact pskStep_rng S w.hs n
  | ee => rw [writeTok_dh_eq S cap w _ (by simp)]; exact dhStep_rng S w.hs _
  | es => rw [writeTok_dh_eq S cap w _ (by simp)]; exact dhStep_rng S w.hs _
  | se => rw [writeTok_dh_eq S cap w _ (by simp)]; exact dhStep_rng S w.hs _
  | ss => rw [writeTok_dh_eq S cap w _ (by simp)]; exact dhStep_rng S w.hs _

/-- `ephOf` / `GenOk` depend on `fixedE`, `e` and `rng` only. -/
theorem ephOf_congr (S : Suite) (a b : HS) (h1 : b.fixedE = a.fixedE) (h2 : b.e = a.e) (h3 : b.rng = a.rng) :
    ephOf S b = ephOf S a ∧ (GenOk S b ↔ GenOk S a) := by
  unfold ephOf GenOk
  rw [h1, h2, h3]
  exact ⟨rfl, Iff.rfl⟩

/-- Tokens other than `e` leave `ephOf` and `GenOk` unchanged. -/
theorem ephOf_writeTok (S : Suite) (cap : Nat) (w : WS) (t : Tok) (ht : t ≠ .e) :
    ephOf S (writeTok S cap w t).2.hs = ephOf S w.hs ∧ (GenOk S (writeTok S cap w t).2.hs ↔ GenOk S w.hs) :=
  ephOf_congr S _ _ (writeTok_frame S cap w t).fixedE (writeTok_e_same S cap w t ht) (writeTok_rng_same S cap w t ht)

/-- At most one `e` in `e :: ts` means no `e` in `ts`. -/
theorem not_mem_of_count_cons_self {ts : List Tok} (h : (Tok.e :: ts).count .e ≤ 1) : Tok.e ∉ ts := by
  intro hm
  have := List.count_pos_iff.mpr hm
  simp only [List.count_cons_self] at h
  omega

/-- At most one `e` in a list means at most one in its tail. -/
theorem count_tail_le {t : Tok} {ts : List Tok} (h : (t :: ts).count .e ≤ 1) : ts.count .e ≤ 1 := by
  have := List.count_le_count_cons (a := Tok.e) (b := t) (l := ts)
  omega

/-- After a successful token loop containing (exactly) one `e`, the local ephemeral is the one
    `ephOf` names in the state before the loop, and `Dh::generate` accepted the draw. -/
theorem writeToks_eph (S : Suite) (cap : Nat) (ts : List Tok) (w : WS) (h : (writeToks S cap ts w).1 = .ok ())
    (hmem : Tok.e ∈ ts) (h1e : ts.count .e ≤ 1) :
    absKP (writeToks S cap ts w).2.hs.e.val = ephOf S w.hs ∧ GenOk S w.hs := by
  induction ts generalizing w with
  | nil => cases hmem
  | cons t ts ih =>
    cases hr : (writeTok S cap w t).1 with
    | ok u =>
      rw [Lemmas.C10.writeToks_cons_ok S cap t ts w hr] at h ⊢
      by_cases hte : t = .e
      · subst hte
        rw [writeToks_e_same S cap ts _ (not_mem_of_count_cons_self h1e)]
        exact writeTok_e_val S cap w hr
      · have hm' : Tok.e ∈ ts := by
          rcases List.mem_cons.mp hmem with x | x
          · exact absurd x.symm hte
          · exact x
        obtain ⟨a, b⟩ := ih _ h hm' (count_tail_le h1e)
        obtain ⟨c, d⟩ := ephOf_writeTok S cap w t hte
        exact ⟨a.trans c, d.mp b⟩
    | err e =>
      rw [Lemmas.C10.writeToks_cons_stop S cap t ts w (by rw [hr]; simp)] at h
      simp [hr] at h
    | panic q =>
      rw [Lemmas.C10.writeToks_cons_stop S cap t ts w (by rw [hr]; simp)] at h
      simp [hr] at h

/-- The specification's token loop does not look at `GENERATE_KEYPAIR()`'s result unless the
    message pattern contains an `e`. -/
theorem spec_writeToks_noE (S : Suite) (e1 e2 : Spec.KeyPair) (ts : List Tok) (sp : Spec.HandshakeState)
    (h : Tok.e ∉ ts) : Spec.HandshakeState.writeToks S e1 ts sp = Spec.HandshakeState.writeToks S e2 ts sp := by
  induction ts generalizing sp with
  | nil => rfl
  | cons t ts ih =>
    have h1 : t ≠ .e := fun x => h (by simp [x])
    have h2 : Tok.e ∉ ts := fun x => h (by simp [x])
    have ht : Spec.HandshakeState.writeTok S e1 sp t = Spec.HandshakeState.writeTok S e2 sp t := by
      cases t with
      | e => exact absurd rfl h1
      | _ => rfl
    unfold Spec.HandshakeState.writeToks
    rw [ht]
    cases Spec.HandshakeState.writeTok S e2 sp t with
    | none => rfl
    | some x =>
      simp only
      rw [ih _ h2]

/-- Along a successful token loop of the model, the specification may equally be given the
    ephemeral the model ends with or the one `ephOf` names beforehand. -/
theorem spec_writeToks_eph (S : Suite) (cap : Nat) (ts : List Tok) (w : WS) (h : (writeToks S cap ts w).1 = .ok ())
    (h1e : ts.count .e ≤ 1) (sp : Spec.HandshakeState) :
    Spec.HandshakeState.writeToks S (absKP (writeToks S cap ts w).2.hs.e.val) ts sp =
      Spec.HandshakeState.writeToks S (ephOf S w.hs) ts sp := by
  by_cases hm : Tok.e ∈ ts
  · rw [(writeToks_eph S cap ts w h hm h1e).1]
  · exact spec_writeToks_noE S _ _ ts sp hm

/-! ### The nonce along the tokens of a write -/

/-- What a successful `encrypt_and_mix_hash` does to the nonce, and that the guard did not fire. -/
theorem encrypt_ok_nonce (S : Suite) (sym : Sym) (pt : Bytes) (cap : Nat) (c : Bytes)
    (h : (sym.encryptAndMixHash S pt cap).1 = .ok c) :
    (sym.encryptAndMixHash S pt cap).2.1.cs.n = (if sym.hasKey then sym.cs.n + 1 else sym.cs.n) ∧
    (sym.hasKey = true → sym.cs.n ≠ CipherState.nonceMax) := by
  unfold Sym.encryptAndMixHash at h ⊢
  cases hk : sym.hasKey with
  | true =>
    simp only [hk, ↓reduceIte] at h ⊢
    cases hr : sym.cs.encryptAd S sym.h pt cap with
    | mk r rest =>
      obtain ⟨cs', ev⟩ := rest
      rw [hr] at h
      simp only at h
      subst h
      obtain ⟨_, hn, _, _, rfl, _⟩ := CipherState.encryptAd_ok hr
      exact ⟨rfl, fun _ => hn⟩
  | false =>
    simp only [hk, Bool.false_eq_true, ↓reduceIte] at h ⊢
    refine ⟨?_, fun hc => by cases hc⟩
    split <;> rfl

/-- The nonce after one successful token of `_write_message` is the one `nonceStep` predicts, and an `s` token met keyed found the nonce usable. -/
theorem writeTok_nonce (S : Suite) (cap : Nat) (w : WS) (t : Tok) (h : (writeTok S cap w t).1 = .ok ()) :
    (writeTok S cap w t).2.hs.sym.cs.n = nonceStep w.hs.isPsk t w.hs.sym.hasKey w.hs.sym.cs.n ∧
    (t = .s → w.hs.sym.hasKey = true → w.hs.sym.cs.n ≠ CipherState.nonceMax) := by
  cases t with
  | e =>
    rw [writeTok_e_eq] at h ⊢
    refine ⟨?_, fun x => by cases x⟩
    by_cases hcap : w.acc.length + S.pubLen > cap
    · simp [hcap] at h
    · simp only [hcap, ↓reduceIte] at h ⊢
      cases hf : w.hs.fixedE with
      | true =>
        simp only [↓reduceIte, eStep, nonceStep]
        cases w.hs.isPsk <;> rfl
      | false =>
        simp only [hf, Bool.false_eq_true, ↓reduceIte] at h ⊢
        cases hv : S.validPriv (rngDraw w.hs.rng S.privLen).1 with
        | false => simp [hv] at h
        | true =>
          simp only [↓reduceIte, eStep, nonceStep]
          cases w.hs.isPsk <;> rfl
  | s =>
    rw [writeTok_s_eq] at h ⊢
    by_cases hon : (!w.hs.s.on) = true
    · simp [hon] at h
    · by_cases hcap : w.acc.length + S.pubLen + (if w.hs.sym.hasKey then 16 else 0) > cap
      · simp [hon, hcap] at h
      · simp only [hon, hcap, ↓reduceIte, Bool.false_eq_true] at h ⊢
        cases hr : (w.hs.sym.encryptAndMixHash S w.hs.s.val.pub (cap - w.acc.length)).1 with
        | ok c =>
          obtain ⟨a, b⟩ := encrypt_ok_nonce S _ _ _ c hr
          exact ⟨a, fun _ => b⟩
        | err e => simp [hr, Res.toUnit] at h
        | panic q => simp [hr, Res.toUnit] at h
  | psk n =>
    rw [writeTok_psk_eq] at h ⊢
    exact ⟨pskStep_nonce S w.hs n h, fun x => by cases x⟩
  | ee => rw [writeTok_dh_eq S cap w _ (by simp)] at h ⊢; exact ⟨dhStep_nonce S w.hs _ h, fun x => by cases x⟩
  | es => rw [writeTok_dh_eq S cap w _ (by simp)] at h ⊢; exact ⟨dhStep_nonce S w.hs _ h, fun x => by cases x⟩
  | se => rw [writeTok_dh_eq S cap w _ (by simp)] at h ⊢; exact ⟨dhStep_nonce S w.hs _ h, fun x => by cases x⟩
  | ss => rw [writeTok_dh_eq S cap w _ (by simp)] at h ⊢; exact ⟨dhStep_nonce S w.hs _ h, fun x => by cases x⟩

/-- A successful token loop whose payload finds the nonce usable satisfies `NonceOk`. -/
theorem writeToks_nonceOk (S : Suite) (cap : Nat) (ts : List Tok) (w : WS) (h : (writeToks S cap ts w).1 = .ok ())
    (hfin : (writeToks S cap ts w).2.hs.sym.hasKey = true →
      (writeToks S cap ts w).2.hs.sym.cs.n ≠ CipherState.nonceMax) :
    NonceOk w.hs.isPsk ts w.hs.sym.hasKey w.hs.sym.cs.n = true := by
  induction ts generalizing w with
  | nil =>
    simp only [writeToks] at hfin
    simp only [NonceOk, Bool.or_eq_true, Bool.not_eq_true', bne_iff_ne, ne_eq]
    cases hk : w.hs.sym.hasKey with
    | false => exact Or.inl rfl
    | true => exact Or.inr (hfin hk)
  | cons t ts ih =>
    cases hr : (writeTok S cap w t).1 with
    | ok u =>
      rw [Lemmas.C10.writeToks_cons_ok S cap t ts w hr] at h hfin
      have := ih (writeTok S cap w t).2 h hfin
      rw [(writeTok_frame S cap w t).isPsk, writeTok_keyed S cap w t hr, (writeTok_nonce S cap w t hr).1] at this
      simp only [NonceOk, Bool.and_eq_true, this, and_true]
      cases t with
      | s =>
        simp only [Bool.or_eq_true, Bool.not_eq_true', bne_iff_ne, ne_eq]
        cases hk : w.hs.sym.hasKey with
        | false => exact Or.inl rfl
        | true => exact Or.inr ((writeTok_nonce S cap w .s hr).2 rfl hk)
      | _ => rfl
    | err e =>
      rw [Lemmas.C10.writeToks_cons_stop S cap t ts w (by rw [hr]; simp)] at h
      simp [hr] at h
    | panic q =>
      rw [Lemmas.C10.writeToks_cons_stop S cap t ts w (by rw [hr]; simp)] at h
      simp [hr] at h

/-! ### One token -/

/-- **One token of a write, converse direction.** If the specification's token step is defined
    on the abstract state, the model's token step succeeds, provided the field fits the buffer,
    the nonce guard does not fire on an encrypted `s`, and `Dh::generate` accepts its draw. -/
theorem writeTok_complete (S : Suite) (cap : Nat) (w : WS) (t : Tok) (ts : List Tok) (g : Bool)
    (eph : Spec.KeyPair) (hg : Transient g w.hs (t :: ts)) (hinv : SymInv w.hs.sym)
    (hpsk : w.hs.psks.length ≤ 10)
    (hn : t = .s → w.hs.sym.hasKey = true → w.hs.sym.cs.n ≠ CipherState.nonceMax)
    (hsl : w.hs.s.val.pub.length = S.pubLen) (hgen : t = .e → GenOk S w.hs)
    (hcap : w.acc.length + tokLen S t w.hs.sym.hasKey ≤ cap)
    (b : Bytes) (sp1 : Spec.HandshakeState)
    (hsp : Spec.HandshakeState.writeTok S eph (absHSG g w.hs) t = some (b, sp1)) :
    (writeTok S cap w t).1 = .ok () := by
  cases t with
  | e =>
    rw [writeTok_e_eq]
    simp only [tokLen] at hcap
    have hc : ¬ w.acc.length + S.pubLen > cap := by omega
    simp only [hc, ↓reduceIte]
    rcases hgen rfl with hf | hv
    · simp only [hf, ↓reduceIte]
    · cases hf : w.hs.fixedE with
      | true => simp only [↓reduceIte]
      | false => simp only [Bool.false_eq_true, ↓reduceIte, hv]
  | s =>
    have g0 : g = false := transient_off hg rfl
    subst g0
    rw [writeTok_s_eq]
    simp only [tokLen] at hcap
    unfold Spec.HandshakeState.writeTok at hsp
    have e1 : (absHSG false w.hs).s = absTK w.hs.s := rfl
    rw [e1] at hsp
    unfold absTK at hsp
    cases hon : w.hs.s.on with
    | false => simp [hon] at hsp
    | true =>
      have hc : ¬ w.acc.length + S.pubLen + (if w.hs.sym.hasKey then 16 else 0) > cap := by omega
      simp only [Bool.not_true, Bool.false_eq_true, ↓reduceIte, hc]
      rw [encrypt_complete S w.hs.sym w.hs.s.val.pub (cap - w.acc.length) hinv (hn rfl) (by rw [hsl]; omega)]
      rfl
  | psk n =>
    rw [writeTok_psk_eq]
    unfold Spec.HandshakeState.writeTok at hsp
    cases hp : Spec.HandshakeState.pskTok S (absHSG g w.hs) n with
    | none => simp [hp] at hsp
    | some x => exact pskStep_complete S g w.hs n x hpsk hp
  | ee =>
    rw [writeTok_dh_eq S cap w _ (by simp)]
    unfold Spec.HandshakeState.writeTok at hsp
    cases hp : Spec.HandshakeState.dhTok S (absHSG g w.hs) .ee with
    | none => simp [hp] at hsp
    | some x => exact dhStep_complete S g w.hs _ x hp
  | es =>
    rw [writeTok_dh_eq S cap w _ (by simp)]
    unfold Spec.HandshakeState.writeTok at hsp
    cases hp : Spec.HandshakeState.dhTok S (absHSG g w.hs) .es with
    | none => simp [hp] at hsp
    | some x => exact dhStep_complete S g w.hs _ x hp
  | se =>
    rw [writeTok_dh_eq S cap w _ (by simp)]
    unfold Spec.HandshakeState.writeTok at hsp
    cases hp : Spec.HandshakeState.dhTok S (absHSG g w.hs) .se with
    | none => simp [hp] at hsp
    | some x => exact dhStep_complete S g w.hs _ x hp
  | ss =>
    rw [writeTok_dh_eq S cap w _ (by simp)]
    unfold Spec.HandshakeState.writeTok at hsp
    cases hp : Spec.HandshakeState.dhTok S (absHSG g w.hs) .ss with
    | none => simp [hp] at hsp
    | some x => exact dhStep_complete S g w.hs _ x hp

/-! ### The token loop -/

/-- **The token loop of a write, converse direction.** -/
theorem writeToks_complete (S : Suite) (hL : S.HashLen) (hS : S.Sizes) (hE : S.EncLen) (hP : S.PubLen)
    (cap : Nat) (ts : List Tok) (w : WS) (g : Bool) (eph : Spec.KeyPair)
    (hck : CkLen S w.hs.sym) (hg : Transient g w.hs ts)
    (hok : PskOk w.hs.isPsk ts w.hs.sym.hasKey = true) (h1e : ts.count .e ≤ 1)
    (hinv : SymInv w.hs.sym) (hpsk : w.hs.psks.length ≤ 10)
    (hn : NonceOk w.hs.isPsk ts w.hs.sym.hasKey w.hs.sym.cs.n = true)
    (hw : KeysWf S w.hs) (heph : Tok.e ∈ ts → eph = ephOf S w.hs ∧ GenOk S w.hs)
    (hcap : w.acc.length + (fieldsLen S w.hs.isPsk ts w.hs.sym.hasKey).1 ≤ cap)
    (bs : Bytes) (sp1 : Spec.HandshakeState)
    (hsp : Spec.HandshakeState.writeToks S eph ts (absHSG g w.hs) = some (bs, sp1)) :
    (writeToks S cap ts w).1 = .ok () ∧
    ((writeToks S cap ts w).2.hs.sym.hasKey = true →
      (writeToks S cap ts w).2.hs.sym.cs.n ≠ CipherState.nonceMax) := by
  induction ts generalizing w g bs sp1 with
  | nil =>
    refine ⟨rfl, ?_⟩
    intro hk
    simp only [writeToks] at hk ⊢
    simp only [NonceOk, hk, Bool.not_true, Bool.false_or, bne_iff_ne, ne_eq] at hn
    exact hn
  | cons t ts ih =>
    simp only [NonceOk, Bool.and_eq_true] at hn
    obtain ⟨hn1, hn2⟩ := hn
    unfold Spec.HandshakeState.writeToks at hsp
    cases hst : Spec.HandshakeState.writeTok S eph (absHSG g w.hs) t with
    | none => simp [hst] at hsp
    | some x =>
      obtain ⟨b, hs1⟩ := x
      simp only [hst] at hsp
      cases hsr : Spec.HandshakeState.writeToks S eph ts hs1 with
      | none => simp [hsr] at hsp
      | some y =>
        obtain ⟨bs', hs2⟩ := y
        have hn1' : t = .s → w.hs.sym.hasKey = true → w.hs.sym.cs.n ≠ CipherState.nonceMax := by
          intro ht hk
          subst ht
          simpa [hk] using hn1
        have hgen : t = .e → GenOk S w.hs := fun ht => (heph (by simp [ht])).2
        simp only [fieldsLen] at hcap
        have hr := writeTok_complete S cap w t ts g eph hg hinv hpsk hn1' hw.1 hgen (by omega) b hs1 hst
        have heph' : t = .e → eph = absKP (writeTok S cap w t).2.hs.e.val := by
          intro ht
          subst ht
          rw [(writeTok_e_val S cap w hr).1]
          exact (heph (by simp)).1
        obtain ⟨g', b', s1, s2, s3, s4⟩ := writeTok_refines S hL hS cap w t ts g eph hck hg hok heph' hr
        rw [hst] at s1
        simp only [Option.some.injEq, Prod.mk.injEq] at s1
        obtain ⟨rfl, rfl⟩ := s1
        have hfr := writeTok_frame S cap w t
        have hlen := writeTok_len S hE hP cap w t hw hr
        have hok' : PskOk (writeTok S cap w t).2.hs.isPsk ts (writeTok S cap w t).2.hs.sym.hasKey = true := by
          rw [hfr.isPsk, hlen.2]
          simp only [PskOk, Bool.and_eq_true] at hok
          exact hok.2
        have hn' : NonceOk (writeTok S cap w t).2.hs.isPsk ts (writeTok S cap w t).2.hs.sym.hasKey
            (writeTok S cap w t).2.hs.sym.cs.n = true := by
          rw [hfr.isPsk, hlen.2, (writeTok_nonce S cap w t hr).1]
          exact hn2
        have hpsk' : (writeTok S cap w t).2.hs.psks.length ≤ 10 := by rw [hfr.psks]; exact hpsk
        have heph2 : Tok.e ∈ ts → eph = ephOf S (writeTok S cap w t).2.hs ∧ GenOk S (writeTok S cap w t).2.hs := by
          intro hm
          have hte : t ≠ .e := by
            intro ht
            subst ht
            exact not_mem_of_count_cons_self h1e hm
          obtain ⟨c, d⟩ := ephOf_writeTok S cap w t hte
          obtain ⟨a1, a2⟩ := heph (by simp [hm])
          exact ⟨a1.trans c.symm, d.mpr a2⟩
        have hcap' : (writeTok S cap w t).2.acc.length +
            (fieldsLen S (writeTok S cap w t).2.hs.isPsk ts (writeTok S cap w t).2.hs.sym.hasKey).1 ≤ cap := by
          rw [hfr.isPsk, hlen.2, hlen.1]
          omega
        have := ih (writeTok S cap w t).2 g' s4 s3 hok' (count_tail_le h1e) (writeTok_inv S cap w t hinv) hpsk' hn'
          (writeTok_wf S cap w t hw) heph2 hcap' bs' hs2 hsr
        rw [Lemmas.C10.writeToks_cons_ok S cap t ts w hr]
        exact this

/-! ### `_write_message` -/

/-- The specification's `WriteMessage`, unfolded on an abstract state. -/
theorem spec_write_shape (S : Suite) (hs : HS) (p : Bytes) (eph : Spec.KeyPair) (buf : Bytes)
    (sp' : Spec.HandshakeState) (spl : Option (Spec.CipherState × Spec.CipherState))
    (h : Spec.HandshakeState.writeMessage S (absHS hs) p eph = some (buf, sp', spl)) :
    hs.pos < hs.msgs.length ∧
    ∃ bs hs1, Spec.HandshakeState.writeToks S eph (hs.msgs.getD hs.pos []) (absHS hs) = some (bs, hs1) ∧
      buf = bs ++ (hs1.ss.encryptAndHash S p).1 := by
  have hp : hs.pos < hs.msgs.length := by
    apply Classical.byContradiction
    intro hge
    have : (absHS hs).msgs = [] := by
      show hs.msgs.drop hs.pos = []
      rw [List.drop_eq_nil_iff]; omega
    unfold Spec.HandshakeState.writeMessage at h
    rw [this] at h
    cases h
  refine ⟨hp, ?_⟩
  have hm : (absHS hs).msgs = hs.msgs.getD hs.pos [] :: hs.msgs.drop (hs.pos + 1) := drop_pos _ _ hp
  unfold Spec.HandshakeState.writeMessage at h
  rw [hm] at h
  simp only at h
  cases ht : Spec.HandshakeState.writeToks S eph (hs.msgs.getD hs.pos []) (absHS hs) with
  | none => rw [ht] at h; simp at h
  | some x =>
    obtain ⟨bs, hs1⟩ := x
    rw [ht] at h
    simp only [Option.some.injEq, Prod.mk.injEq] at h
    exact ⟨bs, hs1, rfl, h.1.symm⟩

/-- The length of what the specification's `EncryptAndHash` returns (`EncLen`). -/
theorem spec_encrypt_len (S : Suite) (hE : S.EncLen) (sym : Sym) (pt : Bytes) :
    ((absSym sym).encryptAndHash S pt).1.length = pt.length + (if sym.hasKey then 16 else 0) := by
  unfold Spec.SymmetricState.encryptAndHash absSym
  cases hk : sym.hasKey with
  | true => simp only [↓reduceIte]; exact hE _ _ _ _
  | false => simp only [Bool.false_eq_true, ↓reduceIte, Nat.add_zero]

/-- **`_write_message`, converse direction.** The 65535 limit is stated on the specification's
    message `buf`; its length is `Framing.msgLen` of C14. -/
theorem writeInner_complete (S : Suite) (hL : S.HashLen) (hS : S.Sizes) (hE : S.EncLen) (hP : S.PubLen)
    (hs : HS) (p : Bytes) (cap : Nat) (buf : Bytes) (sp' : Spec.HandshakeState)
    (spl : Option (Spec.CipherState × Spec.CipherState))
    (hck : CkLen S hs.sym) (hok : PskOk hs.isPsk (hs.msgs.getD hs.pos []) hs.sym.hasKey = true)
    (h1e : (hs.msgs.getD hs.pos []).count .e ≤ 1)
    (hinv : SymInv hs.sym) (hpsk : hs.psks.length ≤ 10) (hw : KeysWf S hs)
    (hturn : hs.myTurn = true) (hgen : Tok.e ∈ hs.msgs.getD hs.pos [] → GenOk S hs)
    (h65 : buf.length ≤ 65535)
    (hcap : (fieldsLen S hs.isPsk (hs.msgs.getD hs.pos []) hs.sym.hasKey).1 + p.length + 16 ≤ cap)
    (hn : NonceOk hs.isPsk (hs.msgs.getD hs.pos []) hs.sym.hasKey hs.sym.cs.n = true)
    (hsp : Spec.HandshakeState.writeMessage S (absHS hs) p (ephOf S hs) = some (buf, sp', spl)) :
    (writeInner S hs p cap).1 = .ok buf.length ∧ (writeInner S hs p cap).2.acc = buf ∧
    buf.length = msgLen S hs.isPsk (hs.msgs.getD hs.pos []) hs.sym.hasKey p.length := by
  obtain ⟨hp, bs, hs1, ht, hbuf⟩ := spec_write_shape S hs p _ buf sp' spl hsp
  have hp' : ¬ hs.pos ≥ hs.msgs.length := by omega
  have w0 : ({ hs := hs, acc := [], ev := [] } : WS).hs = hs := rfl
  obtain ⟨hW, hfin⟩ := writeToks_complete S hL hS hE hP cap (hs.msgs.getD hs.pos []) { hs := hs, acc := [], ev := [] }
    false (ephOf S hs) hck (transient_false _ _) hok h1e hinv hpsk hn hw (fun hm => ⟨rfl, hgen hm⟩)
    (by simp only [List.length_nil, Nat.zero_add]; omega) bs hs1 ht
  obtain ⟨b, r1, r2, r3⟩ := writeToks_refines S hL hS cap (hs.msgs.getD hs.pos []) { hs := hs, acc := [], ev := [] }
    false hck (transient_false _ _) hok h1e hW
  rw [spec_writeToks_eph S cap _ _ hW h1e] at r1
  have hinv' := writeToks_inv S cap (hs.msgs.getD hs.pos []) { hs := hs, acc := [], ev := [] } hinv
  have hl := writeToks_len S hE hP cap (hs.msgs.getD hs.pos []) { hs := hs, acc := [], ev := [] } hw hW
  simp only [absHSG_false, w0] at r1 ht
  rw [ht] at r1
  simp only [Option.some.injEq, Prod.mk.injEq] at r1
  obtain ⟨rfl, rfl⟩ := r1
  simp only [List.nil_append, List.length_nil, Nat.zero_add] at r2 hl
  unfold writeInner
  simp only [hturn, hp', Bool.not_true, Bool.false_eq_true, ↓reduceIte]
  generalize writeToks S cap (hs.msgs.getD hs.pos []) { hs := hs, acc := [], ev := [] } = W at *
  obtain ⟨rW, w⟩ := W
  simp only at hW hfin hinv' hl r2 hbuf
  subst hW
  subst r2
  simp only
  have e1 : (absHS w.hs).ss = absSym w.hs.sym := rfl
  rw [e1] at hbuf
  have hcl := spec_encrypt_len S hE w.hs.sym p
  subst hbuf
  simp only [List.length_append] at h65 ⊢
  rw [← hl.1] at hcap
  have g1 : ¬ w.acc.length + p.length + 16 > cap := by omega
  have g2 : ¬ w.acc.length + p.length + (if w.hs.sym.hasKey then 16 else 0) > 65535 := by omega
  simp only [g1, g2, ↓reduceIte]
  have hen := encrypt_complete S w.hs.sym p (cap - w.acc.length) hinv' hfin (by split <;> omega)
  simp only [hen, true_and]
  unfold msgLen
  rw [← hl.1, ← hl.2]
  omega

end SnowVerif.C01
