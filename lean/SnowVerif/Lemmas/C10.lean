/-
  Lemmas for C10 (total API): where the model's `panic` outcomes can and cannot occur in
  symmetricstate.rs / handshakestate.rs, and the state invariant that excludes them.
-/
import SnowVerif.Lemmas.Handshake

open SnowVerif SnowVerif.Model SnowVerif.Model.HS
set_option autoImplicit false
set_option linter.unusedVariables false
set_option linter.unusedSimpArgs false

namespace SnowVerif.Lemmas.C10

/-! ### symmetricstate.rs / cipherstate.rs -/

namespace CipherState

/-- `encrypt_ad` panics exactly when a key is installed, the nonce is usable and the output
    buffer is shorter than plaintext + tag (the slice in `Cipher::encrypt`). -/
theorem encryptAd_isPanic_iff (S : Suite) (cs : CipherState) (ad pt : Bytes) (cap : Nat) :
    (cs.encryptAd S ad pt cap).1.isPanic = true ↔
      (cs.hasKey = true ∧ cs.n ≠ CipherState.nonceMax ∧ cap < pt.length + 16) := by
  unfold CipherState.encryptAd
  repeat' split
  all_goals simp_all [Res.isPanic]

theorem decryptAd_isPanic (S : Suite) (cs : CipherState) (ad ct : Bytes) (cap : Nat) :
    (cs.decryptAd S ad ct cap).1.isPanic = false := by
  unfold CipherState.decryptAd
  repeat' split
  all_goals simp_all [Res.isPanic]

end CipherState

namespace Sym

/-- `encrypt_and_mix_hash` panics exactly in two situations: keyed and the buffer cannot hold
    plaintext + tag (with a usable cipher), or unkeyed and the buffer cannot hold the plaintext. -/
theorem encryptAndMixHash_isPanic_iff (S : Suite) (st : Sym) (pt : Bytes) (cap : Nat) :
    (st.encryptAndMixHash S pt cap).1.isPanic = true ↔
      ((st.hasKey = true ∧ st.cs.hasKey = true ∧ st.cs.n ≠ CipherState.nonceMax ∧ cap < pt.length + 16) ∨
       (st.hasKey = false ∧ cap < pt.length)) := by
  unfold Sym.encryptAndMixHash
  split
  · rename_i hk
    simp only [CipherState.encryptAd_isPanic_iff, hk, true_and, reduceCtorEq, false_and, or_false]
  · rename_i hk
    have hk' : st.hasKey = false := by simpa using hk
    split
    · rename_i hc
      simp [Res.isPanic, hk', hc]
    · rename_i hc
      simp [Res.isPanic, hk', hc]

/-- The guard snow evaluates before each `encrypt_and_mix_hash` is sufficient. -/
theorem encryptAndMixHash_not_panic (S : Suite) (st : Sym) (pt : Bytes) (cap : Nat)
    (h : pt.length + (if st.hasKey then 16 else 0) ≤ cap) :
    (st.encryptAndMixHash S pt cap).1.isPanic = false := by
  cases hp : (st.encryptAndMixHash S pt cap).1.isPanic with
  | false => rfl
  | true =>
    rw [encryptAndMixHash_isPanic_iff] at hp
    rcases hp with ⟨hk, _, _, hc⟩ | ⟨hk, hc⟩
    · simp only [hk, ↓reduceIte] at h; omega
    · simp only [hk, Bool.false_eq_true, ↓reduceIte] at h; omega

theorem decryptAndMixHash_not_panic (S : Suite) (st : Sym) (d : Bytes) (cap : Nat) :
    (st.decryptAndMixHash S d cap).1.isPanic = false := by
  unfold Sym.decryptAndMixHash
  split
  · exact CipherState.decryptAd_isPanic S st.cs st.h d cap
  · split <;> rfl

end Sym

/-! ### handshakestate.rs: the token loops -/

/-- `self.psks[usize::from(n)]` is in range iff `n < 10`. -/
theorem pskStep_isPanic_iff (S : Suite) (hs : HS) (n : Nat) :
    (pskStep S hs n).1.isPanic = true ↔ 10 ≤ n := by
  unfold pskStep
  repeat' split
  all_goals simp_all [Res.isPanic]
  all_goals omega

/-- `HandshakeState::dh` is only ever called on a DH token (the type `DhToken` in Rust). -/
theorem dh_isPanic (S : Suite) (hs : HS) (t : Tok) (ht : t = .ee ∨ t = .es ∨ t = .se ∨ t = .ss) :
    (hs.dh S t).isPanic = false := by
  unfold dh
  rcases ht with rfl | rfl | rfl | rfl <;> cases hs.initiator <;> simp only <;>
    repeat' split
  all_goals simp_all [Res.isPanic]

theorem dhStep_isPanic (S : Suite) (hs : HS) (t : Tok) (ht : t = .ee ∨ t = .es ∨ t = .se ∨ t = .ss) :
    (dhStep S hs t).1.isPanic = false := by
  have h := dh_isPanic S hs t ht
  unfold dhStep
  split
  · rfl
  · rfl
  · rename_i p hp; rw [hp] at h; simp [Res.isPanic] at h

/-- The one panic site of `write_message` that no guard in snow excludes: `Dh::generate` drawing
    a private key the DH implementation rejects (`derive_pubkey().unwrap()` for P-256). -/
def GenFail (S : Suite) (hs : HS) : Prop :=
  hs.fixedE = false ∧ S.validPriv (rngDraw hs.rng S.privLen).1 = false

/-- What a token needs for its arm not to index out of range: a psk token has a slot. -/
def TokOk : Tok → Prop
  | .psk n => n < 10
  | _ => True

theorem toUnit_isPanic {α} (r : Res α) : r.toUnit.isPanic = r.isPanic := by
  cases r <;> rfl

/-- The outcome of the `Token::S` arm of `_write_message`. -/
theorem writeTok_s_fst (S : Suite) (cap : Nat) (w : WS) :
    (writeTok S cap w .s).1 =
      if !w.hs.s.on then .err (.state .missingKeyMaterial)
      else if w.acc.length + S.pubLen + (if w.hs.sym.hasKey then 16 else 0) > cap then .err .input
      else (w.hs.sym.encryptAndMixHash S w.hs.s.val.pub (cap - w.acc.length)).1.toUnit := by
  unfold writeTok
  simp only
  by_cases hon : (!w.hs.s.on) = true
  · simp only [hon, ↓reduceIte]
  · by_cases hg : w.acc.length + S.pubLen + (if w.hs.sym.hasKey then 16 else 0) > cap
    · simp only [hon, hg, ↓reduceIte, Bool.false_eq_true]
    · simp only [hon, hg, ↓reduceIte, Bool.false_eq_true]

/-- One token of `_write_message`: with the static public key of the advertised length, the only
    possible panic is `Dh::generate` on an invalid drawn key; the session is then unchanged. -/
theorem writeTok_isPanic (S : Suite) (cap : Nat) (w : WS) (t : Tok)
    (ht : TokOk t) (hsl : w.hs.s.val.pub.length = S.pubLen)
    (hp : (writeTok S cap w t).1.isPanic = true) : GenFail S (writeTok S cap w t).2.hs := by
  cases t with
  | e =>
    unfold writeTok at hp ⊢
    simp only at hp ⊢
    split at hp
    · simp [Res.isPanic] at hp
    · cases hf : w.hs.fixedE with
      | true => simp [hf, Res.isPanic] at hp
      | false =>
        cases hv : S.validPriv (rngDraw w.hs.rng S.privLen).1 with
        | true => simp [hf, hv, Res.isPanic] at hp
        | false =>
          rename_i hg
          simp only [hg, hf, hv, Bool.false_eq_true, ↓reduceIte]
          exact ⟨hf, hv⟩
  | s =>
    exfalso
    rw [writeTok_s_fst] at hp
    by_cases hon : (!w.hs.s.on) = true
    · simp [hon, Res.isPanic] at hp
    · by_cases hg : w.acc.length + S.pubLen + (if w.hs.sym.hasKey then 16 else 0) > cap
      · simp [hon, hg, Res.isPanic] at hp
      · simp only [hon, hg, ↓reduceIte, Bool.false_eq_true] at hp
        -- the guard `byte_index + pub_len + tag_len <= message.len()` makes the slice
        -- `message[byte_index..]` long enough for the (possibly encrypted) static key
        rw [toUnit_isPanic, Sym.encryptAndMixHash_not_panic] at hp
        · exact Bool.noConfusion hp
        · rw [hsl]; omega
  | psk n =>
    exfalso
    have : (writeTok S cap w (.psk n)).1 = (pskStep S w.hs n).1 := by unfold writeTok; rfl
    rw [this, pskStep_isPanic_iff] at hp
    simp only [TokOk] at ht; omega
  | ee => exfalso; have := dhStep_isPanic S w.hs .ee (by simp); unfold writeTok at hp; simp_all
  | es => exfalso; have := dhStep_isPanic S w.hs .es (by simp); unfold writeTok at hp; simp_all
  | se => exfalso; have := dhStep_isPanic S w.hs .se (by simp); unfold writeTok at hp; simp_all
  | ss => exfalso; have := dhStep_isPanic S w.hs .ss (by simp); unfold writeTok at hp; simp_all

theorem writeToks_cons_ok (S : Suite) (cap : Nat) (t : Tok) (ts : List Tok) (w : WS)
    (h : (writeTok S cap w t).1 = .ok ()) :
    writeToks S cap (t :: ts) w = writeToks S cap ts (writeTok S cap w t).2 := by
  rw [writeToks]; simp only [h]

theorem writeToks_cons_stop (S : Suite) (cap : Nat) (t : Tok) (ts : List Tok) (w : WS)
    (h : (writeTok S cap w t).1 ≠ .ok ()) :
    writeToks S cap (t :: ts) w = ((writeTok S cap w t).1, (writeTok S cap w t).2) := by
  rw [writeToks]
  split
  · rename_i h'; exact absurd h' h
  · rfl

theorem readToks_cons_ok (S : Suite) (t : Tok) (ts : List Tok) (r : RS)
    (h : (readTok S r t).1 = .ok ()) :
    readToks S (t :: ts) r = readToks S ts (readTok S r t).2 := by
  rw [readToks]; simp only [h]

theorem readToks_cons_stop (S : Suite) (t : Tok) (ts : List Tok) (r : RS)
    (h : (readTok S r t).1 ≠ .ok ()) :
    readToks S (t :: ts) r = ((readTok S r t).1, (readTok S r t).2) := by
  rw [readToks]
  split
  · rename_i h'; exact absurd h' h
  · rfl

/-- The token loop of `_write_message`. -/
theorem writeToks_isPanic (S : Suite) (cap : Nat) (ts : List Tok) (w : WS)
    (ht : ∀ t ∈ ts, TokOk t) (hsl : w.hs.s.val.pub.length = S.pubLen)
    (hp : (writeToks S cap ts w).1.isPanic = true) : GenFail S (writeToks S cap ts w).2.hs := by
  induction ts generalizing w with
  | nil => simp [writeToks, Res.isPanic] at hp
  | cons t ts ih =>
    by_cases h : (writeTok S cap w t).1 = .ok ()
    · rw [writeToks_cons_ok S cap t ts w h] at hp ⊢
      refine ih _ (fun t' ht' => ht t' (List.mem_cons_of_mem _ ht')) ?_ hp
      rw [(writeTok_frame S cap w t).s]; exact hsl
    · rw [writeToks_cons_stop S cap t ts w h] at hp ⊢
      exact writeTok_isPanic S cap w t (ht t List.mem_cons_self) hsl hp

/-! ### The state invariant -/

/-- What every `HandshakeState` that `Builder::build` returns satisfies and every operation
    preserves: the fixed-size psk array has its 10 slots, every `psk` token of the pattern names
    one of them, both local key pairs carry public keys of the advertised length `pub_len`, and
    the symmetric state's tracked key is the one installed in the cipher. -/
structure Inv (S : Suite) (hs : HS) : Prop where
  psks : hs.psks.length = 10
  toks : ∀ m ∈ hs.msgs, ∀ n, Tok.psk n ∈ m → n < 10
  sPub : hs.s.val.pub.length = S.pubLen
  ePub : hs.e.val.pub.length = S.pubLen
  sym  : SymInv hs.sym

theorem getD_mem_or_nil {α} (l : List (List α)) (i : Nat) : l.getD i [] ∈ l ∨ l.getD i [] = [] := by
  rw [List.getD_eq_getElem?_getD]
  by_cases h : i < l.length
  · left
    rw [List.getElem?_eq_getElem h]; exact List.getElem_mem h
  · right
    rw [List.getElem?_eq_none (by omega)]; rfl

/-- The tokens of the current message are all in range. -/
theorem Inv.cur_ok {S : Suite} {hs : HS} (hi : Inv S hs) : ∀ t ∈ hs.msgs.getD hs.pos [], TokOk t := by
  intro t ht
  rcases getD_mem_or_nil hs.msgs hs.pos with hm | hn
  · cases t with
    | psk n => exact hi.toks _ hm n ht
    | _ => trivial
  · rw [hn] at ht; cases ht

/-- `_write_message`: under the invariant the only possible panic is `Dh::generate`. In
    particular the final `encrypt_and_mix_hash(payload, &mut message[byte_index..])` cannot
    panic, because of the guard `byte_index + payload.len() + TAGLEN <= message.len()`. -/
theorem writeInner_isPanic (S : Suite) (hs : HS) (p : Bytes) (cap : Nat) (hi : Inv S hs) :
    (writeInner S hs p cap).1.isPanic = true → GenFail S (writeInner S hs p cap).2.hs := by
  have hk := writeToks_isPanic S cap (hs.msgs.getD hs.pos []) { hs := hs, acc := [], ev := [] }
    hi.cur_ok hi.sPub
  unfold writeInner
  simp only
  repeat' split
  all_goals intro hp
  all_goals first
    | (exfalso; revert hp; simp [Res.isPanic]; done)
    | (rename_i heq; rw [heq] at hk; exact hk hp)
    | skip
  -- left: the payload encryption; its guard `byte_index + payload.len() + TAGLEN <= message.len()`
  all_goals
    exfalso
    rename_i heq
    have hnp := Sym.encryptAndMixHash_not_panic S
      (writeToks S cap (hs.msgs.getD hs.pos []) { hs := hs, acc := [], ev := [] }).2.hs.sym p
      (cap - (writeToks S cap (hs.msgs.getD hs.pos []) { hs := hs, acc := [], ev := [] }).2.acc.length)
      (by split <;> omega)
    rw [heq] at hnp
    exact Bool.noConfusion hnp

/-! ### The ephemeral public key keeps the advertised length -/

theorem pskStep_e (S : Suite) (hs : HS) (n : Nat) : (pskStep S hs n).2.e = hs.e := by
  unfold pskStep; repeat' split
  all_goals rfl

theorem dhStep_e (S : Suite) (hs : HS) (t : Tok) : (dhStep S hs t).2.e = hs.e := by
  unfold dhStep; repeat' split
  all_goals rfl

theorem writeTok_ePub (S : Suite) (cap : Nat) (w : WS) (t : Tok) (hpl : S.PubLen)
    (h : w.hs.e.val.pub.length = S.pubLen) : (writeTok S cap w t).2.hs.e.val.pub.length = S.pubLen := by
  cases t with
  | e =>
    have key : ∀ kp rng' ev,
        (if w.hs.fixedE = true then some (w.hs.e.val, w.hs.rng, ([] : List Event))
         else if S.validPriv (rngDraw w.hs.rng S.privLen).1 = true then
           some (({ priv := (rngDraw w.hs.rng S.privLen).1, pub := S.pubOf (rngDraw w.hs.rng S.privLen).1 } : KeyPair),
                 (rngDraw w.hs.rng S.privLen).2, [Event.rng (rngDraw w.hs.rng S.privLen).1])
         else none) = some (kp, rng', ev) → kp.pub.length = S.pubLen := by
      intro kp rng' ev heq
      split at heq
      · simp only [Option.some.injEq, Prod.mk.injEq] at heq; obtain ⟨rfl, _, _⟩ := heq; exact h
      · split at heq
        · simp only [Option.some.injEq, Prod.mk.injEq] at heq; obtain ⟨rfl, _, _⟩ := heq; exact hpl _
        · cases heq
    unfold writeTok
    simp only
    repeat' split
    all_goals first
      | exact h
      | (rename_i heq _; exact key _ _ _ heq)
  | s =>
    unfold writeTok
    simp only
    repeat' split
    all_goals exact h
  | psk n => show (pskStep S w.hs n).2.e.val.pub.length = _; rw [pskStep_e]; exact h
  | ee => show (dhStep S w.hs _).2.e.val.pub.length = _; rw [dhStep_e]; exact h
  | es => show (dhStep S w.hs _).2.e.val.pub.length = _; rw [dhStep_e]; exact h
  | se => show (dhStep S w.hs _).2.e.val.pub.length = _; rw [dhStep_e]; exact h
  | ss => show (dhStep S w.hs _).2.e.val.pub.length = _; rw [dhStep_e]; exact h

theorem writeToks_ePub (S : Suite) (cap : Nat) (ts : List Tok) (w : WS) (hpl : S.PubLen)
    (h : w.hs.e.val.pub.length = S.pubLen) : (writeToks S cap ts w).2.hs.e.val.pub.length = S.pubLen := by
  induction ts generalizing w with
  | nil => exact h
  | cons t ts ih =>
    have h1 := writeTok_ePub S cap w t hpl h
    by_cases hr : (writeTok S cap w t).1 = .ok ()
    · rw [writeToks_cons_ok S cap t ts w hr]; exact ih _ h1
    · rw [writeToks_cons_stop S cap t ts w hr]; exact h1

theorem writeInner_ePub (S : Suite) (hs : HS) (p : Bytes) (cap : Nat) (hpl : S.PubLen)
    (h : hs.e.val.pub.length = S.pubLen) : (writeInner S hs p cap).2.hs.e.val.pub.length = S.pubLen := by
  have hk := writeToks_ePub S cap (hs.msgs.getD hs.pos []) { hs := hs, acc := [], ev := [] } hpl h
  unfold writeInner
  simp only
  repeat' split
  all_goals first | exact h | exact hk

/-! ### `write_message` -/

theorem writeMessage_isPanic_eq (S : Suite) (hs : HS) (p : Bytes) (cap : Nat) :
    (hs.writeMessage S p cap).1.isPanic = (writeInner S hs p cap).1.isPanic := by
  unfold writeMessage
  simp only
  split <;> (rename_i heq; rw [heq])

theorem writeMessage_panic_state (S : Suite) (hs : HS) (p : Bytes) (cap : Nat)
    (h : (writeInner S hs p cap).1.isPanic = true) :
    (hs.writeMessage S p cap).2.1 = (writeInner S hs p cap).2.hs := by
  unfold writeMessage
  simp only
  split
  · rename_i heq; rw [heq] at h; cases h
  · rename_i heq; rw [heq] at h; cases h
  · rfl

/-- `write_message` under the invariant: the only possible panic is `Dh::generate` rejecting the
    drawn private key; the state it leaves has the ephemeral not fixed and the next draw from its
    random stream is the rejected key. -/
theorem writeMessage_isPanic (S : Suite) (hs : HS) (p : Bytes) (cap : Nat) (hi : Inv S hs)
    (hp : (hs.writeMessage S p cap).1.isPanic = true) : GenFail S (hs.writeMessage S p cap).2.1 := by
  rw [writeMessage_isPanic_eq] at hp
  rw [writeMessage_panic_state S hs p cap hp]
  exact writeInner_isPanic S hs p cap hi hp

/-- The invariant is preserved by `write_message` on every outcome (ok, every error, and the
    `Dh::generate` panic). -/
theorem inv_write (S : Suite) (hs : HS) (p : Bytes) (cap : Nat) (hpl : S.PubLen) (hi : Inv S hs) :
    Inv S (hs.writeMessage S p cap).2.1 := by
  have hf := writeInner_frame S hs p cap
  have he := writeInner_ePub S hs p cap hpl hi.ePub
  have hsy := writeInner_inv S hs p cap hi.sym
  simp only at hf
  obtain ⟨_, _, _, hpsks, _, hmsgs, _, _, hs_, _, _⟩ := hf
  unfold writeMessage
  simp only
  split
  · exact ⟨by simp only [hpsks]; exact hi.psks, by simp only [hmsgs]; exact hi.toks,
      by simp only [hs_]; exact hi.sPub, he, hsy⟩
  · split
    · exact ⟨by simp only [hpsks]; exact hi.psks, by simp only [hmsgs]; exact hi.toks,
        by simp only [hs_]; exact hi.sPub, he, Sym.inv_restore _ _ hi.sym⟩
    · exact ⟨by simp only [hpsks]; exact hi.psks, by simp only [hmsgs]; exact hi.toks,
        by simp only [hs_]; exact hi.sPub, he, Sym.inv_restore _ _ hi.sym⟩
  · exact ⟨by simp only [hpsks]; exact hi.psks, by simp only [hmsgs]; exact hi.toks,
      by simp only [hs_]; exact hi.sPub, he, hsy⟩

/-! ### `read_message` -/

/-- One token of `_read_message` never panics: every slice of the message is taken after a length
    check, `decrypt_and_mix_hash` never panics, and a psk token names an existing slot. -/
theorem readTok_isPanic (S : Suite) (r : RS) (t : Tok) (ht : TokOk t) :
    (readTok S r t).1.isPanic = false := by
  cases t with
  | e =>
    unfold readTok
    simp only
    split <;> rfl
  | s =>
    unfold readTok
    simp only
    by_cases hg : r.ptr.length < S.pubLen + (if r.hs.sym.hasKey then 16 else 0)
    · simp only [hg, ↓reduceIte]; rfl
    · simp only [hg, ↓reduceIte]
      rw [toUnit_isPanic]; exact Sym.decryptAndMixHash_not_panic S _ _ _
  | psk n =>
    have : (readTok S r (.psk n)).1 = (pskStep S r.hs n).1 := by unfold readTok; rfl
    rw [this]
    cases hp : (pskStep S r.hs n).1.isPanic with
    | false => rfl
    | true => rw [pskStep_isPanic_iff] at hp; simp only [TokOk] at ht; omega
  | ee => exact dhStep_isPanic S r.hs .ee (by simp)
  | es => exact dhStep_isPanic S r.hs .es (by simp)
  | se => exact dhStep_isPanic S r.hs .se (by simp)
  | ss => exact dhStep_isPanic S r.hs .ss (by simp)

theorem readToks_isPanic (S : Suite) (ts : List Tok) (r : RS) (ht : ∀ t ∈ ts, TokOk t) :
    (readToks S ts r).1.isPanic = false := by
  induction ts generalizing r with
  | nil => rfl
  | cons t ts ih =>
    by_cases h : (readTok S r t).1 = .ok ()
    · rw [readToks_cons_ok S t ts r h]
      exact ih _ (fun t' ht' => ht t' (List.mem_cons_of_mem _ ht'))
    · rw [readToks_cons_stop S t ts r h]
      exact readTok_isPanic S r t (ht t List.mem_cons_self)

theorem readInner_isPanic (S : Suite) (hs : HS) (m : Bytes) (cap : Nat) (hi : Inv S hs) :
    (readInner S hs m cap).1.isPanic = false := by
  have hk := readToks_isPanic S (hs.msgs.getD hs.pos []) { hs := hs, ptr := m, ev := [] } hi.cur_ok
  unfold readInner
  simp only
  repeat' split
  all_goals first
    | rfl
    | (rename_i heq; rw [heq] at hk; exact Bool.noConfusion hk)
    | (rename_i heq
       have hnp := Sym.decryptAndMixHash_not_panic S
         (readToks S (hs.msgs.getD hs.pos []) { hs := hs, ptr := m, ev := [] }).2.hs.sym
         (readToks S (hs.msgs.getD hs.pos []) { hs := hs, ptr := m, ev := [] }).2.ptr cap
       rw [heq] at hnp
       exact Bool.noConfusion hnp)

theorem readMessage_isPanic_eq (S : Suite) (hs : HS) (m : Bytes) (cap : Nat) :
    (hs.readMessage S m cap).1.isPanic = (readInner S hs m cap).1.isPanic := by
  unfold readMessage
  simp only
  split <;> (rename_i heq; rw [heq])

/-- The invariant is preserved by `read_message` on every outcome. -/
theorem inv_read (S : Suite) (hs : HS) (m : Bytes) (cap : Nat) (hi : Inv S hs) :
    Inv S (hs.readMessage S m cap).2.1 := by
  have hf := readInner_frame S hs m cap
  have hsy := readInner_inv S hs m cap hi.sym
  simp only at hf
  obtain ⟨_, _, _, hpsks, _, hmsgs, _, _, hs_, he, _⟩ := hf
  unfold readMessage
  simp only
  split
  · exact ⟨by simp only [hpsks]; exact hi.psks, by simp only [hmsgs]; exact hi.toks,
      by simp only [hs_]; exact hi.sPub, by simp only [he]; exact hi.ePub, hsy⟩
  · exact ⟨by simp only [hpsks]; exact hi.psks, by simp only [hmsgs]; exact hi.toks,
      by simp only [hs_]; exact hi.sPub, by simp only [he]; exact hi.ePub, Sym.inv_restore _ _ hi.sym⟩
  · exact ⟨by simp only [hpsks]; exact hi.psks, by simp only [hmsgs]; exact hi.toks,
      by simp only [hs_]; exact hi.sPub, by simp only [he]; exact hi.ePub, hsy⟩

/-! ### `set_psk` -/

/-- `set_psk` returns `Ok` (32-byte key, location in range) or `Err(Input)`; it never panics
    (`copy_from_slice` is reached only with a 32-byte key, the index only when in range). -/
theorem setPsk_outcome (hs : HS) (loc : Nat) (key : Bytes) :
    (hs.setPsk loc key).1 = .ok () ∨ (hs.setPsk loc key).1 = .err .input := by
  unfold setPsk; split
  · right; rfl
  · left; rfl

theorem inv_setPsk (S : Suite) (hs : HS) (loc : Nat) (key : Bytes) (hi : Inv S hs) :
    Inv S (hs.setPsk loc key).2 := by
  unfold setPsk; split
  · exact hi
  · exact ⟨by simp only [List.length_set]; exact hi.psks, hi.toks, hi.sPub, hi.ePub, hi.sym⟩

/-! ### Everything `write_message` writes lies inside the caller's buffer

  The model represents the output buffer by its length `cap` and the bytes written from offset 0,
  so the copy `message[byte_index..byte_index + pubkey.len()].copy_from_slice(pubkey)` of the `e`
  token is not a `panic` outcome of the model.  These lemmas show it is in range all the same:
  the written bytes never exceed `cap` (this is where `hs.e.val.pub.length = S.pubLen` is used). -/

theorem okBytes_encrypt_len (S : Suite) (hel : S.EncLen) (st : Sym) (pt : Bytes) (cap : Nat) :
    (Sym.okBytes (st.encryptAndMixHash S pt cap).1).length ≤ pt.length + (if st.hasKey then 16 else 0) := by
  unfold Sym.encryptAndMixHash
  split
  · simp only
    unfold CipherState.encryptAd
    repeat' split
    all_goals simp [Sym.okBytes, hel _ _ _ _]
  · split
    · simp [Sym.okBytes]
    · simp [Sym.okBytes]

theorem writeTok_fits (S : Suite) (cap : Nat) (w : WS) (t : Tok) (hpl : S.PubLen) (hel : S.EncLen)
    (he : w.hs.e.val.pub.length = S.pubLen) (hsl : w.hs.s.val.pub.length = S.pubLen)
    (h : w.acc.length ≤ cap) : (writeTok S cap w t).2.acc.length ≤ cap := by
  cases t with
  | e =>
    have key : ∀ kp rng' ev,
        (if w.hs.fixedE = true then some (w.hs.e.val, w.hs.rng, ([] : List Event))
         else if S.validPriv (rngDraw w.hs.rng S.privLen).1 = true then
           some (({ priv := (rngDraw w.hs.rng S.privLen).1, pub := S.pubOf (rngDraw w.hs.rng S.privLen).1 } : KeyPair),
                 (rngDraw w.hs.rng S.privLen).2, [Event.rng (rngDraw w.hs.rng S.privLen).1])
         else none) = some (kp, rng', ev) → kp.pub.length = S.pubLen := by
      intro kp rng' ev heq
      split at heq
      · simp only [Option.some.injEq, Prod.mk.injEq] at heq; obtain ⟨rfl, _, _⟩ := heq; exact he
      · split at heq
        · simp only [Option.some.injEq, Prod.mk.injEq] at heq; obtain ⟨rfl, _, _⟩ := heq; exact hpl _
        · cases heq
    unfold writeTok
    simp only
    repeat' split
    all_goals first
      | exact h
      | (rename_i hg _ _ _ _ heq _
         have := key _ _ _ heq
         simp only [List.length_append, this]; omega)
  | s =>
    unfold writeTok
    simp only
    by_cases hon : (!w.hs.s.on) = true
    · simp only [hon, ↓reduceIte]; exact h
    · by_cases hg : w.acc.length + S.pubLen + (if w.hs.sym.hasKey then 16 else 0) > cap
      · simp only [hon, hg, ↓reduceIte, Bool.false_eq_true]; exact h
      · simp only [hon, hg, ↓reduceIte, Bool.false_eq_true, List.length_append]
        have := okBytes_encrypt_len S hel w.hs.sym w.hs.s.val.pub (cap - w.acc.length)
        rw [hsl] at this
        omega
  | psk n => unfold writeTok; exact h
  | ee => unfold writeTok; exact h
  | es => unfold writeTok; exact h
  | se => unfold writeTok; exact h
  | ss => unfold writeTok; exact h

theorem writeToks_fits (S : Suite) (cap : Nat) (ts : List Tok) (w : WS) (hpl : S.PubLen) (hel : S.EncLen)
    (he : w.hs.e.val.pub.length = S.pubLen) (hsl : w.hs.s.val.pub.length = S.pubLen)
    (h : w.acc.length ≤ cap) : (writeToks S cap ts w).2.acc.length ≤ cap := by
  induction ts generalizing w with
  | nil => exact h
  | cons t ts ih =>
    have h1 := writeTok_fits S cap w t hpl hel he hsl h
    by_cases hr : (writeTok S cap w t).1 = .ok ()
    · rw [writeToks_cons_ok S cap t ts w hr]
      refine ih _ (writeTok_ePub S cap w t hpl he) ?_ h1
      rw [(writeTok_frame S cap w t).s]; exact hsl
    · rw [writeToks_cons_stop S cap t ts w hr]; exact h1

theorem writeInner_fits (S : Suite) (hs : HS) (p : Bytes) (cap : Nat) (hpl : S.PubLen) (hel : S.EncLen)
    (hi : Inv S hs) : (writeInner S hs p cap).2.acc.length ≤ cap := by
  have hk := writeToks_fits S cap (hs.msgs.getD hs.pos []) { hs := hs, acc := [], ev := [] } hpl hel
    hi.ePub hi.sPub (Nat.zero_le _)
  unfold writeInner
  simp only
  repeat' split
  all_goals first
    | exact Nat.zero_le _
    | exact hk
    | skip
  all_goals
    rename_i heq _
    have hl := okBytes_encrypt_len S hel
      (writeToks S cap (hs.msgs.getD hs.pos []) { hs := hs, acc := [], ev := [] }).2.hs.sym p
      (cap - (writeToks S cap (hs.msgs.getD hs.pos []) { hs := hs, acc := [], ev := [] }).2.acc.length)
    rw [heq] at hl
    simp only [Sym.okBytes] at hl
    simp only [List.length_append]
    split at hl <;> omega

/-- Every byte `write_message` writes, on every outcome, lies inside the caller's buffer. -/
theorem writeMessage_fits (S : Suite) (hs : HS) (p : Bytes) (cap : Nat) (hpl : S.PubLen) (hel : S.EncLen)
    (hi : Inv S hs) : (hs.writeMessage S p cap).2.2.1.length ≤ cap := by
  have h := writeInner_fits S hs p cap hpl hel hi
  unfold writeMessage
  simp only
  split <;> exact h

end SnowVerif.Lemmas.C10
