/-
  The C06 theorems about honest exchanges (`Lemmas/C06HistExchHonest.lean`,
  `Lemmas/C06HistExchFull.lean`) with the EXACT size conditions (audit finding F3): same
  statements and proofs with `PlanOkExact` in place of `PlanOk` (`msgA_exact`/`msgB_exact` in place
  of `msgA`/`msgB`).
-/
import SnowVerif.Lemmas.HonestExactExch
import SnowVerif.Lemmas.C06HistExchFull
import SnowVerif.Theorems.C02Exact

namespace SnowVerif.C06
open SnowVerif SnowVerif.Model SnowVerif.Model.HS SnowVerif.Framing
set_option linter.unusedVariables false
set_option linter.unusedSimpArgs false

/-- **In an honest exchange the writers form a chain.** Same hypotheses as `honest_exchange_exact` (the EXACT size
    conditions `PlanOkExact` instead of `PlanOk`): the
    exchange succeeds, the parties stay in lockstep, and the sequence of writers (message 1 by the
    party whose turn it is, message 2 by its peer, ...) is a `WChain` from the common symmetric
    state at the start to the common symmetric state at the end: every write succeeds and every
    writer starts with exactly the handshake cipher (key, nonce) the previous writer ended with. -/
theorem honest_exchange_chain_exact (S : Suite) (hEL : S.EncLen) (hDE : S.DecEnc) (hPL : S.PubLen) (hPT : S.PrivTotal)
    (hDC : S.DhComm) (hDT : S.DhTotal) (rem : List (List Tok)) :
    ∀ (ini : Bool) (k kf : Spec.Keys) (A B : HS) (plan : List (Bytes × Nat × Nat)),
      Sync S k A B → Ctl A B → PartyOk S A → PartyOk S B →
      A.myTurn = ini → B.myTurn = !ini → A.pos ≤ A.msgs.length →
      A.msgs.drop A.pos = rem →
      Spec.Keys.runMsgs ini k rem = some kf →
      StaticsOk ini rem A.s.on B.s.on →
      (∀ n m, m ∈ rem → Tok.psk n ∈ m → n < 10 ∧ ∃ key, A.psks.getD n none = some key) →
      A.sym.cs.n.toNat + totalFields rem < 2 ^ 64 - 1 →
      PlanOkExact S A.isPsk A.sym.hasKey rem plan →
      ∃ A' B', exchange S ini A B plan = some (A', B') ∧ Sync S kf A' B' ∧
        WChain S A.sym (exchangeWriters S ini A B plan) A'.sym := by
  induction rem with
  | nil =>
    intro ini k kf A B plan h c okA okB ht1 ht2 hple hrem hk hst hpsk hn hplan
    cases plan with
    | cons x xs => simp [PlanOkExact] at hplan
    | nil =>
      simp only [Spec.Keys.runMsgs, Option.some.injEq] at hk
      subst hk
      refine ⟨A, B, rfl, h, ?_⟩
      cases ini <;> exact rfl
  | cons m rest ih =>
    intro ini k kf A B plan h c okA okB ht1 ht2 hple hrem hk hst hpsk hn hplan
    obtain ⟨hlt, hget, hdrop⟩ := drop_cons_facts A.msgs A.pos m rest [] hrem
    cases plan with
    | nil => simp [PlanOkExact] at hplan
    | cons x xs =>
      obtain ⟨p, cap, capr⟩ := x
      simp only [PlanOkExact] at hplan
      obtain ⟨hmax, hcap, hcapr, hplan'⟩ := hplan
      simp only [Spec.Keys.runMsgs] at hk
      cases hk1 : k.runMsg ini m with
      | none => rw [hk1] at hk; simp at hk
      | some k1 =>
        rw [hk1] at hk
        simp only [Option.bind_some] at hk
        simp only [totalFields] at hn
        cases ini with
        | true =>
          simp only [StaticsOk] at hst
          obtain ⟨hsA, hst'⟩ := hst
          have hM := msgA_exact S hEL hDE hPL hPT hDC hDT h c okA okB ht1 (by simpa using ht2) hlt
            (by rw [hget]; exact hk1) (by rw [hget]; exact hsA)
            (fun n hm => by rw [hget] at hm; exact hpsk n m List.mem_cons_self hm)
            (by rw [hget]; omega) p cap capr (by rw [hget]; exact hcap) (by rw [hget]; exact hmax) hcapr
          obtain ⟨m1, m2, m3, m4, m5, m6, m7, m8, m9, m10, m11, m12, m13, m14, m15⟩ := hM
          have hkA := writeMessage_ok_keyed S A p cap _ m1
          rw [hget] at hkA
          obtain ⟨A', B', hex, hs', hdisc⟩ :=
            ih false k1 kf _ _ xs m3 m4 m5 m6 m7 (by rw [m8]; rfl) (by rw [m9, m10]; omega)
              (by rw [m10, m9]; exact hdrop) hk
              (by rw [m11, m12]; exact hst')
              (fun n mm hmm hn' => by rw [m13]; exact hpsk n mm (List.mem_cons_of_mem _ hmm) hn')
              (by rw [hget] at m14; omega) (by rw [hkA.1, hkA.2]; exact hplan')
          refine ⟨A', B', ?_, hs', ?_⟩
          · simp only [exchange, m1, m2, and_self, ↓reduceIte]; exact hex
          · simp only [exchangeWriters, WChain]
            exact ⟨trivial, ⟨_, m1⟩, hdisc⟩
        | false =>
          simp only [StaticsOk] at hst
          obtain ⟨hsB, hst'⟩ := hst
          have hltB : B.pos < B.msgs.length := by rw [← c.pos, ← c.msgs]; exact hlt
          have hgetB : B.msgs.getD B.pos [] = m := by rw [← c.pos, ← c.msgs]; exact hget
          have hnB : B.sym.cs.n.toNat = A.sym.cs.n.toNat := by rw [h.sym]
          have hM := msgB_exact S hEL hDE hPL hPT hDC hDT h c okA okB (by simpa using ht2) ht1 hltB
            (by rw [hgetB]; exact hk1) (by rw [hgetB]; exact hsB)
            (fun n hm => by rw [hgetB] at hm; exact hpsk n m List.mem_cons_self hm)
            (by rw [hgetB, hnB]; omega) p cap capr
            (by rw [hgetB, ← h.isPsk, ← h.sym]; exact hcap) (by rw [hgetB, ← h.isPsk, ← h.sym]; exact hmax) hcapr
          obtain ⟨m1, m2, m3, m4, m5, m6, m7, m8, m9, m10, m11, m12, m13, m14, m15⟩ := hM
          have hkB := writeMessage_ok_keyed S B p cap _ m1
          rw [hgetB, ← h.isPsk, ← h.sym] at hkB
          have hAmsgs : (A.readMessage S (B.writeMessage S p cap).2.2.1 capr).2.1.msgs = A.msgs := by
            rw [m4.msgs, m10, c.msgs]
          have hApos : (A.readMessage S (B.writeMessage S p cap).2.2.1 capr).2.1.pos = A.pos + 1 := by
            rw [m4.pos, m9, c.pos]
          have hApsks : (A.readMessage S (B.writeMessage S p cap).2.2.1 capr).2.1.psks = A.psks := by
            rw [m3.psks, m13, h.psks]
          have hAn : (A.readMessage S (B.writeMessage S p cap).2.2.1 capr).2.1.sym.cs.n.toNat ≤
              A.sym.cs.n.toNat + m.length + 1 := by
            rw [m3.sym, ← hnB]; rw [hgetB] at m14; exact m14
          obtain ⟨A', B', hex, hs', hdisc⟩ :=
            ih true k1 kf _ _ xs m3 m4 m6 m5 m8 (by rw [m7]; rfl) (by rw [hApos, hAmsgs]; omega)
              (by rw [hAmsgs, hApos]; exact hdrop) hk
              (by rw [m12, m11]; exact hst')
              (fun n mm hmm hn' => by rw [hApsks]; exact hpsk n mm (List.mem_cons_of_mem _ hmm) hn')
              (by omega) (by rw [m3.sym, m3.isPsk, hkB.1, hkB.2]; exact hplan')
          refine ⟨A', B', ?_, hs', ?_⟩
          · simp only [exchange, m1, m2, and_self, ↓reduceIte]; exact hex
          · simp only [exchangeWriters, WChain]
            refine ⟨h.sym.symm, ⟨_, m1⟩, ?_⟩
            rw [← m3.sym]
            exact hdisc

/-- **The merged writers' log of an honest exchange is disciplined.** For every suite with the
    stated laws, two parties in lockstep (`Sync`), every instance whose remaining messages the
    validity rules accept and every payload/buffer plan that satisfies the exact size
    conditions (`PlanOkExact`): the exchange succeeds, and the
    ghost logs of the successive writers (`exchangeWriters`: the party whose turn it is, then its
    peer, ...), concatenated, erase to the concatenation of the logs their `write_message` calls
    returned and form one disciplined log from the common (key, nonce) of the two parties at the
    start to their common (key, nonce) at the end. -/
theorem exchange_log_disciplined_exact (S : Suite) (hEL : S.EncLen) (hDE : S.DecEnc) (hPL : S.PubLen) (hPT : S.PrivTotal)
    (hDC : S.DhComm) (hDT : S.DhTotal) (rem : List (List Tok))
    (ini : Bool) (k kf : Spec.Keys) (A B : HS) (plan : List (Bytes × Nat × Nat))
    (hsync : Sync S k A B) (hctl : Ctl A B) (okA : PartyOk S A) (okB : PartyOk S B)
    (ht1 : A.myTurn = ini) (ht2 : B.myTurn = !ini) (hple : A.pos ≤ A.msgs.length)
    (hrem : A.msgs.drop A.pos = rem) (hk : Spec.Keys.runMsgs ini k rem = some kf)
    (hst : StaticsOk ini rem A.s.on B.s.on)
    (hpsk : ∀ n m, m ∈ rem → Tok.psk n ∈ m → n < 10 ∧ ∃ key, A.psks.getD n none = some key)
    (hn : A.sym.cs.n.toNat + totalFields rem < 2 ^ 64 - 1) (hplan : PlanOkExact S A.isPsk A.sym.hasKey rem plan) :
    ∃ A' B', exchange S ini A B plan = some (A', B') ∧ Sync S kf A' B' ∧
      erase (chainG S (exchangeWriters S ini A B plan)) = chainEv S (exchangeWriters S ini A B plan) ∧
      Discipline A.sym.cs.key A.sym.cs.n.toNat (chainG S (exchangeWriters S ini A B plan))
        A'.sym.cs.key A'.sym.cs.n.toNat := by
  obtain ⟨A', B', hex, hs', hch⟩ := honest_exchange_chain_exact S hEL hDE hPL hPT hDC hDT rem ini k kf A B plan
    hsync hctl okA okB ht1 ht2 hple hrem hk hst hpsk hn hplan
  exact ⟨A', B', hex, hs', chainG_erase S _, wchain_disciplined S _ _ _ hch⟩

/-- **Merged over both endpoints of an honest handshake, no (key, nonce) pair is used on two
    different inputs, up to a KDF coincidence**: two encryptions in the concatenated logs of the
    writers (initiator's message 1, responder's message 2, ...) under the same key with the same
    nonce encrypt the same (associated data, plaintext), or the merged ghost log shows that very
    key being installed again by an HKDF application between the two. -/
theorem exchange_no_reuse_exact (S : Suite) (hEL : S.EncLen) (hDE : S.DecEnc) (hPL : S.PubLen) (hPT : S.PrivTotal)
    (hDC : S.DhComm) (hDT : S.DhTotal) (rem : List (List Tok))
    (ini : Bool) (k kf : Spec.Keys) (A B : HS) (plan : List (Bytes × Nat × Nat))
    (hsync : Sync S k A B) (hctl : Ctl A B) (okA : PartyOk S A) (okB : PartyOk S B)
    (ht1 : A.myTurn = ini) (ht2 : B.myTurn = !ini) (hple : A.pos ≤ A.msgs.length)
    (hrem : A.msgs.drop A.pos = rem) (hk : Spec.Keys.runMsgs ini k rem = some kf)
    (hst : StaticsOk ini rem A.s.on B.s.on)
    (hpsk : ∀ n m, m ∈ rem → Tok.psk n ∈ m → n < 10 ∧ ∃ key, A.psks.getD n none = some key)
    (hn : A.sym.cs.n.toNat + totalFields rem < 2 ^ 64 - 1) (hplan : PlanOkExact S A.isPsk A.sym.hasKey rem plan)
    (i j : Nat) (hij : i < j) (key : Bytes) (n : UInt64) (a1 p1 a2 p2 : Bytes)
    (hi : (chainEv S (exchangeWriters S ini A B plan))[i]? = some (.enc key n a1 p1))
    (hj : (chainEv S (exchangeWriters S ini A B plan))[j]? = some (.enc key n a2 p2)) :
    (a1 = a2 ∧ p1 = p2) ∨
    ∃ (i' m j' : Nat) (ck : Bytes), i' < m ∧ m < j' ∧
      (chainG S (exchangeWriters S ini A B plan))[i']? = some (GEv.ev (.enc key n a1 p1)) ∧
      (chainG S (exchangeWriters S ini A B plan))[m]? = some (GEv.install key 0) ∧ IsKdfKey S ck key ∧
      (chainG S (exchangeWriters S ini A B plan))[j']? = some (GEv.ev (.enc key n a2 p2)) := by
  obtain ⟨A', B', _, _, he, hd⟩ := exchange_log_disciplined_exact S hEL hDE hPL hPT hDC hDT rem ini k kf A B plan
    hsync hctl okA okB ht1 ht2 hple hrem hk hst hpsk hn hplan
  rw [← he] at hi hj
  rcases hd.no_reuse_events i j hij key n a1 p1 a2 p2 hi hj with hl | ⟨i', m, j', nn, h1, h2, g1, g2, g3⟩
  · exact Or.inl hl
  · obtain ⟨hz, ck, hck⟩ := chainG_install S _ key nn (List.mem_of_getElem? g2)
    subst hz
    exact Or.inr ⟨i', m, j', ck, h1, h2, g1, g2, hck, g3⟩

/-- **Sessions built by the `Builder`.** For every suite with the stated laws, every table pattern
    and modifier list, every pair of matching configurations on which `build` succeeds, and every
    payload/buffer plan that satisfies the exact size conditions (`PlanOkExact`, psk mode of the
    modifier list, starting un-keyed): the honest handshake completes, and the ghost logs
    of the successive writers, merged over both endpoints, form one disciplined log from the
    handshake cipher's initial (key, nonce) — so two encryptions of the whole handshake, whichever
    endpoints made them, under the same (key, nonce) encrypt the same data, or a KDF installed that
    very key again in between. -/
theorem built_exchange_no_reuse_exact (S : Suite) (hEL : S.EncLen) (hDE : S.DecEnc) (hPL : S.PubLen)
    (hPT : S.PrivTotal) (hDC : S.DhComm) (hDT : S.DhTotal)
    (av : Avail) (cI cR : BuildCfg) (hm : Theorems.C02Build.Matching S cI cR)
    (A B : HS) (hA : build S av cI = .ok A) (hB : build S av cR = .ok B)
    (hmods : cI.mods.length < 2 ^ 64 - 29)
    (inst : Inst) (hi : handshakeTokens cI.pattern cI.mods = .ok inst)
    (plan : List (Bytes × Nat × Nat)) (hplan : PlanOkExact S (isPskMods cI.mods) false inst.msgs plan) :
    ∃ A' B', exchange S true A B plan = some (A', B') ∧
      erase (chainG S (exchangeWriters S true A B plan)) = chainEv S (exchangeWriters S true A B plan) ∧
      Discipline A.sym.cs.key A.sym.cs.n.toNat (chainG S (exchangeWriters S true A B plan))
        A'.sym.cs.key A'.sym.cs.n.toNat ∧
      ∀ (i j : Nat), i < j → ∀ (key : Bytes) (n : UInt64) (a1 p1 a2 p2 : Bytes),
        (chainEv S (exchangeWriters S true A B plan))[i]? = some (.enc key n a1 p1) →
        (chainEv S (exchangeWriters S true A B plan))[j]? = some (.enc key n a2 p2) →
        (a1 = a2 ∧ p1 = p2) ∨
        ∃ (i' m j' : Nat) (ck : Bytes), i' < m ∧ m < j' ∧
          (chainG S (exchangeWriters S true A B plan))[i']? = some (GEv.ev (.enc key n a1 p1)) ∧
          (chainG S (exchangeWriters S true A B plan))[m]? = some (GEv.install key 0) ∧ IsKdfKey S ck key ∧
          (chainG S (exchangeWriters S true A B plan))[j']? = some (GEv.ev (.enc key n a2 p2)) := by
  obtain ⟨k0, hk0, hc⟩ := Theorems.C02Build.build_consistent S hPL av cI cR hm inst hi A B hA hB
  have hv := Theorems.C01Patterns.valid_psk _ _ inst hi
  have hsmall : totalFields inst.msgs < 2 ^ 64 - 1 := by
    have := (Lemmas.C02Build.totalFields_inst _ _ inst hi).2
    omega
  obtain ⟨kf, hkf, _⟩ := Theorems.C02.valid_runMsgs inst hv k0 hk0
  have hdrop : A.msgs.drop A.pos = inst.msgs := by rw [hc.pos0, hc.msgs]; rfl
  have hn0 : A.sym.cs.n.toNat + totalFields inst.msgs < 2 ^ 64 - 1 := by rw [hc.n0]; simpa using hsmall
  have hplanA : PlanOkExact S A.isPsk A.sym.hasKey inst.msgs plan := by
    obtain ⟨_, _, _, _, _, _, _, _, _, _, _, _, _, _, _, _, _, _, hk, _⟩ := Theorems.C12.build_initial_state S av cI A hA
    obtain ⟨rfl, _, _⟩ := Lemmas.C02Build.build_ok_facts S av cI _ hA
    rw [hk]; exact hplan
  obtain ⟨A', B', hex, _, he, hd⟩ := exchange_log_disciplined_exact S hEL hDE hPL hPT hDC hDT inst.msgs true k0 kf A B plan
    hc.sync hc.ctl hc.okA hc.okB hc.turnA (by rw [hc.turnB]; rfl) (by rw [hc.pos0]; omega) hdrop hkf hc.statics
    hc.psks hn0 hplanA
  refine ⟨A', B', hex, he, hd, ?_⟩
  intro i j hij key n a1 p1 a2 p2 h1 h2
  exact exchange_no_reuse_exact S hEL hDE hPL hPT hDC hDT inst.msgs true k0 kf A B plan
    hc.sync hc.ctl hc.okA hc.okB hc.turnA (by rw [hc.turnB]; rfl) (by rw [hc.pos0]; omega) hdrop hkf hc.statics
    hc.psks hn0 hplanA i j hij key n a1 p1 a2 p2 h1 h2

/-! ### Non-vacuity: the built XX pair at the 65535-byte boundary -/

namespace ExExact
open SnowVerif.Theorems.C02Build SnowVerif.Theorems.C02Exact

/-- The theorem applies to the built `XX` pair with a 65439-byte payload in message 2 (a
    65535-byte message), which `built_exchange_no_reuse` does not cover. -/
example : ∃ A B A' B', build exSuite exAv xxI = .ok A ∧ build exSuite exAv xxR = .ok B ∧
    exchange exSuite true A B (xxPlan 65439) = some (A', B') ∧
    Discipline A.sym.cs.key A.sym.cs.n.toNat
      (chainG exSuite (exchangeWriters exSuite true A B (xxPlan 65439)))
      A'.sym.cs.key A'.sym.cs.n.toNat := by
  obtain ⟨A, hA⟩ := ok_of_isOk xxI_builds
  obtain ⟨B, hB⟩ := ok_of_isOk xxR_builds
  obtain ⟨A', B', hex, _, hd, _⟩ :=
    built_exchange_no_reuse_exact exSuite (Theorems.C18.toy_suite_encLen 0 0 0) (Theorems.C18.toy_suite_decEnc 0 0 0)
      (Theorems.C18.toy_suite_pubLen 0 0 0) (Theorems.C18.toy_suite_privTotal 0 0 0) (Theorems.C18.toy_suite_dhComm 0 0 0)
      (Theorems.C18.toy_suite_dhTotal 0 0 0) exAv xxI xxR xx_matching A B hA hB (by decide)
      { preI := [], preR := [], msgs := xxMsgs } (by decide)
      (xxPlan 65439) ((xxPlan_exact_iff 65439).mpr (by decide))
  exact ⟨A, B, A', B', hA, hB, hex, hd⟩

end ExExact

end SnowVerif.C06
