/-
  C01, converse direction: `_read_message`. Whenever the specification's `ReadMessage` accepts on
  the abstract state, the token loop of the model, then the payload decryption, then
  `_read_message` succeed, provided snow's own checks (turn, 65535, buffer, nonce guard) pass.
-/
import SnowVerif.Lemmas.C01CompleteSym
import SnowVerif.Lemmas.C10

namespace SnowVerif.C01
open SnowVerif SnowVerif.Model SnowVerif.Model.HS SnowVerif.Bytes SnowVerif.Framing
set_option linter.unusedVariables false
set_option linter.unusedSimpArgs false

/-! ### Lengths the specification's `DecryptAndHash` implies -/

/-- Length of a ciphertext the specification's `DecryptAndHash` accepts: plaintext plus a tag iff keyed (`DecTag`). -/
theorem spec_decrypt_len (S : Suite) (hT : S.DecTag) (sym : Sym) (ct p : Bytes) (ss' : Spec.SymmetricState)
    (h : (absSym sym).decryptAndHash S ct = some (p, ss')) :
    ct.length = p.length + (if sym.hasKey then 16 else 0) := by
  unfold Spec.SymmetricState.decryptAndHash absSym at h
  cases hk : sym.hasKey with
  | true =>
    simp only [hk, ↓reduceIte] at h ⊢
    cases hd : S.dec sym.cs.key sym.cs.n sym.h ct with
    | none => simp [hd] at h
    | some q =>
      simp only [hd, Option.some.injEq, Prod.mk.injEq] at h
      obtain ⟨rfl, _⟩ := h
      exact hT _ _ _ _ _ hd
  | false =>
    simp only [hk, Bool.false_eq_true, ↓reduceIte, Option.some.injEq, Prod.mk.injEq] at h ⊢
    obtain ⟨rfl, _⟩ := h
    rfl

/-! ### The nonce along the tokens of the model -/

/-- What a successful `decrypt_and_mix_hash` does to the nonce, and that the guard did not fire. -/
theorem decrypt_ok_nonce (S : Suite) (sym : Sym) (ct : Bytes) (cap : Nat) (p : Bytes)
    (h : (sym.decryptAndMixHash S ct cap).1 = .ok p) :
    (sym.decryptAndMixHash S ct cap).2.1.cs.n = (if sym.hasKey then sym.cs.n + 1 else sym.cs.n) ∧
    (sym.hasKey = true → sym.cs.n ≠ CipherState.nonceMax) := by
  unfold Sym.decryptAndMixHash at h ⊢
  cases hk : sym.hasKey with
  | true =>
    simp only [hk, ↓reduceIte] at h ⊢
    cases hr : sym.cs.decryptAd S sym.h ct cap with
    | mk r rest =>
      obtain ⟨cs', buf, ev⟩ := rest
      rw [hr] at h
      simp only at h
      subst h
      obtain ⟨_, _, _, hn, _, rfl, _, _⟩ := CipherState.decryptAd_ok hr
      exact ⟨rfl, fun _ => hn⟩
  | false =>
    simp only [hk, Bool.false_eq_true, ↓reduceIte] at h ⊢
    refine ⟨?_, fun hc => by cases hc⟩
    split <;> rfl

/-- A successful `psk` arm (`mix_key_and_hash`) resets the nonce to 0. -/
theorem pskStep_nonce (S : Suite) (hs : HS) (n : Nat) (h : (pskStep S hs n).1 = .ok ()) :
    (pskStep S hs n).2.sym.cs.n = 0 := by
  unfold pskStep at h ⊢
  by_cases hn : n < 10
  · simp only [hn, ↓reduceIte] at h ⊢
    cases hp : hs.psks.getD n none with
    | none => rw [hp] at h; simp at h
    | some psk => rfl
  · simp [hn] at h

/-- A successful DH arm (`mix_key`) resets the nonce to 0. -/
theorem dhStep_nonce (S : Suite) (hs : HS) (t : Tok) (h : (dhStep S hs t).1 = .ok ()) :
    (dhStep S hs t).2.sym.cs.n = 0 := by
  unfold dhStep at h ⊢
  cases hd : hs.dh S t with
  | ok out => rfl
  | err e => simp [hd] at h
  | panic p => simp [hd] at h

/-- The nonce after one successful token of `_read_message` is the one `nonceStep` predicts, and
    an `s` token met keyed found the nonce usable. -/
theorem readTok_nonce (S : Suite) (r : RS) (t : Tok) (h : (readTok S r t).1 = .ok ()) :
    (readTok S r t).2.hs.sym.cs.n = nonceStep r.hs.isPsk t r.hs.sym.hasKey r.hs.sym.cs.n ∧
    (t = .s → r.hs.sym.hasKey = true → r.hs.sym.cs.n ≠ CipherState.nonceMax) := by
  cases t with
  | e =>
    rw [readTok_e_eq] at h ⊢
    by_cases hc : r.ptr.length < S.pubLen
    · simp [hc] at h
    · simp only [hc, ↓reduceIte, nonceStep]
      refine ⟨?_, fun x => by cases x⟩
      cases r.hs.isPsk <;> rfl
  | s =>
    rw [readTok_s_eq] at h ⊢
    by_cases hc : r.ptr.length < S.pubLen + (if r.hs.sym.hasKey then 16 else 0)
    · simp [hc] at h
    · simp only [hc, ↓reduceIte] at h ⊢
      cases hr : (r.hs.sym.decryptAndMixHash S (r.ptr.take (S.pubLen + (if r.hs.sym.hasKey then 16 else 0))) S.pubLen).1 with
      | ok p =>
        obtain ⟨a, b⟩ := decrypt_ok_nonce S _ _ _ p hr
        exact ⟨a, fun _ => b⟩
      | err e => simp [hr, Res.toUnit] at h
      | panic q => simp [hr, Res.toUnit] at h
  | psk n =>
    rw [readTok_psk_eq] at h ⊢
    exact ⟨pskStep_nonce S r.hs n h, fun x => by cases x⟩
  | ee => rw [readTok_dh_eq S r _ (by simp)] at h ⊢; exact ⟨dhStep_nonce S r.hs _ h, fun x => by cases x⟩
  | es => rw [readTok_dh_eq S r _ (by simp)] at h ⊢; exact ⟨dhStep_nonce S r.hs _ h, fun x => by cases x⟩
  | se => rw [readTok_dh_eq S r _ (by simp)] at h ⊢; exact ⟨dhStep_nonce S r.hs _ h, fun x => by cases x⟩
  | ss => rw [readTok_dh_eq S r _ (by simp)] at h ⊢; exact ⟨dhStep_nonce S r.hs _ h, fun x => by cases x⟩

/-! ### DH and `psk` tokens: the converse of `dh_abs`, `dhStep_abs`, `pskStep_abs` -/

/-- Core of `dh_complete`: both abstract operands present and the DH function defined make the guard of `HandshakeState::dh` pass. -/
theorem dh_core_complete (S : Suite) (k : Toggle Model.KeyPair) (r : Toggle Bytes) (out : Bytes)
    (kp : Spec.KeyPair) (pk : Bytes) (h1 : absTK k = some kp) (h2 : absTB r = some pk)
    (h3 : S.dh kp.priv pk = some out) :
    (if !(k.on && r.on) then (Res.err (.state .missingKeyMaterial) : Res Bytes)
     else match S.dh k.val.priv r.val with
       | none => .err .dh
       | some o => .ok o) = .ok out := by
  unfold absTK at h1
  unfold absTB at h2
  cases hk : k.on <;> cases hr : r.on <;>
    simp only [hk, hr, ↓reduceIte, Bool.false_eq_true, reduceCtorEq, Option.some.injEq] at h1 h2
  subst h1 h2
  simp only [absKP] at h3
  simp only [Bool.and_self, Bool.not_true, Bool.false_eq_true, ↓reduceIte, h3]

/-- The specification's `DH(...)` for a token is defined only with both operands present. -/
theorem spec_dh_some (S : Suite) (hs : Spec.HandshakeState) (t : Tok) (out : Bytes)
    (h : Spec.HandshakeState.dh S hs t = some out) :
    ∃ kp pk, Spec.HandshakeState.dhOperands hs t = some (some kp, some pk) ∧ S.dh kp.priv pk = some out := by
  unfold Spec.HandshakeState.dh at h
  split at h
  · rename_i kp pk heq
    exact ⟨kp, pk, heq, h⟩
  · cases h

/-- If the specification's `DH` for a DH token is defined on the abstract state (both operands
    present, the DH function does not fail), `HandshakeState::dh` returns the same output. -/
theorem dh_complete (S : Suite) (g : Bool) (hs : HS) (t : Tok) (out : Bytes)
    (h : Spec.HandshakeState.dh S (absHSG g hs) t = some out) : hs.dh S t = .ok out := by
  obtain ⟨kp, pk, hop, hd⟩ := spec_dh_some S _ t out h
  unfold Spec.HandshakeState.dhOperands at hop
  unfold HS.dh
  cases t with
  | e => simp at hop
  | s => simp at hop
  | psk n => simp at hop
  | ee =>
    simp only [absHSG, Option.some.injEq, Prod.mk.injEq] at hop
    exact dh_core_complete S _ _ out kp pk hop.1 hop.2 hd
  | ss =>
    simp only [absHSG, Option.some.injEq, Prod.mk.injEq] at hop
    exact dh_core_complete S _ _ out kp pk hop.1 hop.2 hd
  | es =>
    cases hi : hs.initiator <;>
      simp only [absHSG, hi, Bool.false_eq_true, ↓reduceIte, Option.some.injEq, Prod.mk.injEq] at hop ⊢ <;>
      exact dh_core_complete S _ _ out kp pk hop.1 hop.2 hd
  | se =>
    cases hi : hs.initiator <;>
      simp only [absHSG, hi, Bool.false_eq_true, ↓reduceIte, Option.some.injEq, Prod.mk.injEq] at hop ⊢ <;>
      exact dh_core_complete S _ _ out kp pk hop.1 hop.2 hd

/-- If the specification's DH token is defined on the abstract state, snow's DH arm succeeds. -/
theorem dhStep_complete (S : Suite) (g : Bool) (hs : HS) (t : Tok) (sp1 : Spec.HandshakeState)
    (h : Spec.HandshakeState.dhTok S (absHSG g hs) t = some sp1) : (dhStep S hs t).1 = .ok () := by
  unfold Spec.HandshakeState.dhTok at h
  cases hd : Spec.HandshakeState.dh S (absHSG g hs) t with
  | none => simp [hd] at h
  | some out =>
    unfold dhStep
    rw [dh_complete S g hs t out hd]

/-- If the specification's `psk` token finds its key, so does snow's (the slot index is in
    range because the psk array has at most its 10 slots). -/
theorem pskStep_complete (S : Suite) (g : Bool) (hs : HS) (n : Nat) (sp1 : Spec.HandshakeState)
    (hpsk : hs.psks.length ≤ 10)
    (h : Spec.HandshakeState.pskTok S (absHSG g hs) n = some sp1) : (pskStep S hs n).1 = .ok () := by
  unfold Spec.HandshakeState.pskTok at h
  have e : (absHSG g hs).psks = hs.psks := rfl
  rw [e] at h
  cases hp : hs.psks.getD n none with
  | none => rw [hp] at h; simp at h
  | some psk =>
    have hn : n < 10 := by
      apply Classical.byContradiction
      intro hge
      rw [List.getD_eq_getElem?_getD, List.getElem?_eq_none (by omega)] at hp
      cases hp
    unfold pskStep
    simp only [hn, ↓reduceIte, hp]

/-! ### One token -/

/-- **One token of a read, converse direction.** If the specification's token step is defined on
    the abstract state, the model's token step succeeds (then `readTok_refines` relates the
    successors), provided the nonce guard does not fire on an encrypted `s`. -/
theorem readTok_complete (S : Suite) (hT : S.DecTag) (r : RS) (t : Tok) (ts : List Tok) (g : Bool)
    (hg : Transient g r.hs (t :: ts)) (hinv : SymInv r.hs.sym) (hpsk : r.hs.psks.length ≤ 10)
    (hn : t = .s → r.hs.sym.hasKey = true → r.hs.sym.cs.n ≠ CipherState.nonceMax)
    (sp1 : Spec.HandshakeState) (rest : Bytes)
    (hsp : Spec.HandshakeState.readTok S (absHSG g r.hs) r.ptr t = some (sp1, rest)) :
    (readTok S r t).1 = .ok () := by
  cases t with
  | e =>
    rw [readTok_e_eq]
    unfold Spec.HandshakeState.readTok at hsp
    by_cases hc : r.ptr.length < S.pubLen
    · simp [hc] at hsp
    · simp only [hc, ↓reduceIte]
  | s =>
    have g0 : g = false := transient_off hg rfl
    subst g0
    rw [readTok_s_eq]
    unfold Spec.HandshakeState.readTok at hsp
    have hk : (absHSG false r.hs).hasKey = r.hs.sym.hasKey := absHS_hasKey r.hs
    rw [hk] at hsp
    simp only at hsp
    by_cases hc : r.ptr.length < S.pubLen + (if r.hs.sym.hasKey then 16 else 0)
    · simp [hc] at hsp
    · simp only [hc, ↓reduceIte] at hsp ⊢
      have e1 : (absHSG false r.hs).ss = absSym r.hs.sym := rfl
      rw [e1] at hsp
      cases hd : (absSym r.hs.sym).decryptAndHash S (r.ptr.take (S.pubLen + (if r.hs.sym.hasKey then 16 else 0))) with
      | none => simp [hd] at hsp
      | some x =>
        obtain ⟨pk, ss'⟩ := x
        have hl := spec_decrypt_len S hT _ _ _ _ hd
        have hcap : pk.length ≤ S.pubLen := by
          rw [List.length_take] at hl
          omega
        rw [decrypt_complete S hT _ _ _ pk ss' hinv (hn rfl) hcap hd]
        rfl
  | psk n =>
    rw [readTok_psk_eq]
    unfold Spec.HandshakeState.readTok at hsp
    cases hp : Spec.HandshakeState.pskTok S (absHSG g r.hs) n with
    | none => simp [hp] at hsp
    | some x => exact pskStep_complete S g r.hs n x hpsk hp
  | ee =>
    rw [readTok_dh_eq S r _ (by simp)]
    unfold Spec.HandshakeState.readTok at hsp
    cases hp : Spec.HandshakeState.dhTok S (absHSG g r.hs) .ee with
    | none => simp [hp] at hsp
    | some x => exact dhStep_complete S g r.hs _ x hp
  | es =>
    rw [readTok_dh_eq S r _ (by simp)]
    unfold Spec.HandshakeState.readTok at hsp
    cases hp : Spec.HandshakeState.dhTok S (absHSG g r.hs) .es with
    | none => simp [hp] at hsp
    | some x => exact dhStep_complete S g r.hs _ x hp
  | se =>
    rw [readTok_dh_eq S r _ (by simp)]
    unfold Spec.HandshakeState.readTok at hsp
    cases hp : Spec.HandshakeState.dhTok S (absHSG g r.hs) .se with
    | none => simp [hp] at hsp
    | some x => exact dhStep_complete S g r.hs _ x hp
  | ss =>
    rw [readTok_dh_eq S r _ (by simp)]
    unfold Spec.HandshakeState.readTok at hsp
    cases hp : Spec.HandshakeState.dhTok S (absHSG g r.hs) .ss with
    | none => simp [hp] at hsp
    | some x => exact dhStep_complete S g r.hs _ x hp

/-! ### The token loop -/

/-- **The token loop of a read, converse direction**: it succeeds whenever the specification's
    loop is defined on the abstract state and the nonce guard holds along the message; and at the
    end the payload's nonce guard holds. -/
theorem readToks_complete (S : Suite) (hL : S.HashLen) (hS : S.Sizes) (hT : S.DecTag) (ts : List Tok) (r : RS)
    (g : Bool) (hck : CkLen S r.hs.sym) (hg : Transient g r.hs ts)
    (hok : PskOk r.hs.isPsk ts r.hs.sym.hasKey = true)
    (hinv : SymInv r.hs.sym) (hpsk : r.hs.psks.length ≤ 10)
    (hn : NonceOk r.hs.isPsk ts r.hs.sym.hasKey r.hs.sym.cs.n = true)
    (sp1 : Spec.HandshakeState) (rest : Bytes)
    (hsp : Spec.HandshakeState.readToks S ts (absHSG g r.hs) r.ptr = some (sp1, rest)) :
    (readToks S ts r).1 = .ok () ∧
    ((readToks S ts r).2.hs.sym.hasKey = true → (readToks S ts r).2.hs.sym.cs.n ≠ CipherState.nonceMax) := by
  induction ts generalizing r g with
  | nil =>
    refine ⟨rfl, ?_⟩
    intro hk
    simp only [readToks] at hk ⊢
    simp only [NonceOk, hk, Bool.not_true, Bool.false_or, bne_iff_ne, ne_eq] at hn
    exact hn
  | cons t ts ih =>
    simp only [NonceOk, Bool.and_eq_true] at hn
    obtain ⟨hn1, hn2⟩ := hn
    unfold Spec.HandshakeState.readToks at hsp
    cases hst : Spec.HandshakeState.readTok S (absHSG g r.hs) r.ptr t with
    | none => simp [hst] at hsp
    | some x =>
      obtain ⟨hs1, rest1⟩ := x
      simp only [hst] at hsp
      have hn1' : t = .s → r.hs.sym.hasKey = true → r.hs.sym.cs.n ≠ CipherState.nonceMax := by
        intro ht hk
        subst ht
        simpa [hk] using hn1
      have hr := readTok_complete S hT r t ts g hg hinv hpsk hn1' hs1 rest1 hst
      obtain ⟨g', s1, s3, s4⟩ := readTok_refines S hL hS r t ts g hck hg hok hr
      rw [hst] at s1
      simp only [Option.some.injEq, Prod.mk.injEq] at s1
      obtain ⟨rfl, rfl⟩ := s1
      have hfr := readTok_frame S r t
      have hok' : PskOk (readTok S r t).2.hs.isPsk ts (readTok S r t).2.hs.sym.hasKey = true := by
        rw [hfr.isPsk, (readTok_len S r t hr).2]
        simp only [PskOk, Bool.and_eq_true] at hok
        exact hok.2
      have hn' : NonceOk (readTok S r t).2.hs.isPsk ts (readTok S r t).2.hs.sym.hasKey
          (readTok S r t).2.hs.sym.cs.n = true := by
        rw [hfr.isPsk, (readTok_len S r t hr).2, (readTok_nonce S r t hr).1]
        exact hn2
      have hpsk' : (readTok S r t).2.hs.psks.length ≤ 10 := by rw [hfr.psks]; exact hpsk
      have := ih (readTok S r t).2 g' s4 s3 hok' (readTok_inv S r t hinv) hpsk' hn' hsp
      rw [Lemmas.C10.readToks_cons_ok S t ts r hr]
      exact this

/-- Conversely, a successful token loop whose payload finds the nonce usable satisfies `NonceOk`
    (so `NonceOk` is exactly snow's guard, not merely sufficient). -/
theorem readToks_nonceOk (S : Suite) (ts : List Tok) (r : RS) (h : (readToks S ts r).1 = .ok ())
    (hfin : (readToks S ts r).2.hs.sym.hasKey = true → (readToks S ts r).2.hs.sym.cs.n ≠ CipherState.nonceMax) :
    NonceOk r.hs.isPsk ts r.hs.sym.hasKey r.hs.sym.cs.n = true := by
  induction ts generalizing r with
  | nil =>
    simp only [readToks] at hfin
    simp only [NonceOk, Bool.or_eq_true, Bool.not_eq_true', bne_iff_ne, ne_eq]
    cases hk : r.hs.sym.hasKey with
    | false => exact Or.inl rfl
    | true => exact Or.inr (hfin hk)
  | cons t ts ih =>
    cases hr : (readTok S r t).1 with
    | ok u =>
      rw [Lemmas.C10.readToks_cons_ok S t ts r hr] at h hfin
      have := ih (readTok S r t).2 h hfin
      rw [(readTok_frame S r t).isPsk, (readTok_len S r t hr).2, (readTok_nonce S r t hr).1] at this
      simp only [NonceOk, Bool.and_eq_true, this, and_true]
      cases t with
      | s =>
        simp only [Bool.or_eq_true, Bool.not_eq_true', bne_iff_ne, ne_eq]
        cases hk : r.hs.sym.hasKey with
        | false => exact Or.inl rfl
        | true => exact Or.inr ((readTok_nonce S r .s hr).2 rfl hk)
      | _ => rfl
    | err e =>
      rw [Lemmas.C10.readToks_cons_stop S t ts r (by rw [hr]; simp)] at h
      simp [hr] at h
    | panic q =>
      rw [Lemmas.C10.readToks_cons_stop S t ts r (by rw [hr]; simp)] at h
      simp [hr] at h

/-! ### `_read_message` -/

/-- The specification's `ReadMessage`, unfolded on an abstract state. -/
theorem spec_read_shape (S : Suite) (hs : HS) (m pl : Bytes) (sp' : Spec.HandshakeState)
    (spl : Option (Spec.CipherState × Spec.CipherState))
    (h : Spec.HandshakeState.readMessage S (absHS hs) m = some (pl, sp', spl)) :
    hs.pos < hs.msgs.length ∧
    ∃ hs1 rem ss', Spec.HandshakeState.readToks S (hs.msgs.getD hs.pos []) (absHS hs) m = some (hs1, rem) ∧
      hs1.ss.decryptAndHash S rem = some (pl, ss') := by
  have hp : hs.pos < hs.msgs.length := by
    apply Classical.byContradiction
    intro hge
    have : (absHS hs).msgs = [] := by
      show hs.msgs.drop hs.pos = []
      rw [List.drop_eq_nil_iff]; omega
    unfold Spec.HandshakeState.readMessage at h
    rw [this] at h
    cases h
  refine ⟨hp, ?_⟩
  have hm : (absHS hs).msgs = hs.msgs.getD hs.pos [] :: hs.msgs.drop (hs.pos + 1) := drop_pos _ _ hp
  unfold Spec.HandshakeState.readMessage at h
  rw [hm] at h
  simp only at h
  cases ht : Spec.HandshakeState.readToks S (hs.msgs.getD hs.pos []) (absHS hs) m with
  | none => rw [ht] at h; simp at h
  | some x =>
    obtain ⟨hs1, rem⟩ := x
    rw [ht] at h
    simp only at h
    cases hd : hs1.ss.decryptAndHash S rem with
    | none => simp [hd] at h
    | some y =>
      obtain ⟨p, ss'⟩ := y
      simp only [hd, Option.some.injEq, Prod.mk.injEq] at h
      obtain ⟨rfl, _, _⟩ := h
      exact ⟨hs1, rem, ss', rfl, hd⟩

/-- **`_read_message`, converse direction.** -/
theorem readInner_complete (S : Suite) (hL : S.HashLen) (hS : S.Sizes) (hT : S.DecTag) (hs : HS) (m : Bytes)
    (cap : Nat) (pl : Bytes) (sp' : Spec.HandshakeState) (spl : Option (Spec.CipherState × Spec.CipherState))
    (hck : CkLen S hs.sym) (hok : PskOk hs.isPsk (hs.msgs.getD hs.pos []) hs.sym.hasKey = true)
    (hinv : SymInv hs.sym) (hpsk : hs.psks.length ≤ 10)
    (hturn : hs.myTurn = false) (hlen : m.length ≤ 65535) (hcap : pl.length ≤ cap)
    (hn : NonceOk hs.isPsk (hs.msgs.getD hs.pos []) hs.sym.hasKey hs.sym.cs.n = true)
    (hsp : Spec.HandshakeState.readMessage S (absHS hs) m = some (pl, sp', spl)) :
    (readInner S hs m cap).1 = .ok pl := by
  obtain ⟨hp, hs1, rem, ss', ht, hd⟩ := spec_read_shape S hs m pl sp' spl hsp
  have hlen' : ¬ m.length > 65535 := by omega
  have hp' : ¬ hs.pos ≥ hs.msgs.length := by omega
  obtain ⟨hW, hfin⟩ := readToks_complete S hL hS hT (hs.msgs.getD hs.pos []) { hs := hs, ptr := m, ev := [] } false
    hck (transient_false _ _) hok hinv hpsk hn hs1 rem ht
  obtain ⟨r1, r3⟩ := readToks_refines S hL hS (hs.msgs.getD hs.pos []) { hs := hs, ptr := m, ev := [] }
    false hck (transient_false _ _) hok hW
  have hinv' := readToks_inv S (hs.msgs.getD hs.pos []) { hs := hs, ptr := m, ev := [] } hinv
  simp only [absHSG_false] at r1 ht
  rw [ht] at r1
  simp only [Option.some.injEq, Prod.mk.injEq] at r1
  obtain ⟨rfl, rfl⟩ := r1
  unfold readInner
  simp only [hlen', hturn, hp', Bool.false_eq_true, ↓reduceIte]
  generalize readToks S (hs.msgs.getD hs.pos []) { hs := hs, ptr := m, ev := [] } = W at *
  obtain ⟨rW, w⟩ := W
  simp only at hW hfin hinv' hd
  subst hW
  simp only
  have e1 : (absHS w.hs).ss = absSym w.hs.sym := rfl
  rw [e1] at hd
  have hdm := decrypt_complete S hT w.hs.sym w.ptr cap pl ss' hinv' hfin hcap hd
  have htk := payload_take S (S.decLen_of_tag hT) _ _ _ _ hdm
  simp only [hdm]
  have hk : ∀ (c : Prop) [Decidable c] (x y : HS),
      (if c then x else y).sym.hasKey = if c then x.sym.hasKey else y.sym.hasKey := by
    intro c _ x y; split <;> rfl
  simp only [hk, ite_self, Sym.decrypt_hasKey, htk]

end SnowVerif.C01
