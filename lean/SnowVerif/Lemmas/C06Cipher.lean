/-
  C06, cipher-state level (cipherstate.rs, and `encrypt_and_mix_hash` of symmetricstate.rs):
  every operation on a `CipherState` keeps the nonce discipline of `Lemmas/C06Log.lean`.
-/
import SnowVerif.Lemmas.C06Log

namespace SnowVerif.C06
open SnowVerif SnowVerif.Model
set_option linter.unusedVariables false
set_option linter.unusedSimpArgs false

/-- The counter does not wrap: below the reserved value, `n + 1` is the successor. -/
theorem succ_toNat (n : UInt64) (h : n ≠ MAXN) : (n + 1).toNat = n.toNat + 1 := by
  have h1 : n.toNat ≠ 18446744073709551615 := by
    intro hc
    apply h
    apply UInt64.toNat_inj.mp
    rw [hc]; rfl
  have h2 := n.toNat_lt
  rw [UInt64.toNat_add]
  have : (1 : UInt64).toNat = 1 := rfl
  rw [this]
  omega

/-- closes goals that `simp only` may or may not already have reduced to `True` -/
macro "rt" : term => `(by first | rfl | trivial | exact Nat.le_refl _)

theorem Discipline.refl (k : Bytes) (n : Nat) : Discipline k n [] k n := ⟨rfl, Nat.le_refl _⟩

/-- What `encrypt_ad` does, by outcome: success logs exactly one `enc` under the current key and
    counter (which is not the reserved value) and moves the counter by one; every other outcome
    logs nothing and leaves the cipher state untouched. -/
theorem encryptAd_cases (S : Suite) (cs : CipherState) (ad pt : Bytes) (cap : Nat) :
    (cs.n ≠ MAXN ∧ (cs.encryptAd S ad pt cap).1 = .ok (S.enc cs.key cs.n ad pt) ∧
      (cs.encryptAd S ad pt cap).2.1 = { cs with n := cs.n + 1 } ∧
      (cs.encryptAd S ad pt cap).2.2 = [.enc cs.key cs.n ad pt]) ∨
    ((∀ c, (cs.encryptAd S ad pt cap).1 ≠ .ok c) ∧ (cs.encryptAd S ad pt cap).2.1 = cs ∧
      (cs.encryptAd S ad pt cap).2.2 = []) := by
  unfold CipherState.encryptAd
  by_cases c1 : (!cs.hasKey) = true
  · simp only [c1, ↓reduceIte]; right; exact ⟨by intro c; simp, rt, rt⟩
  · simp only [c1, ↓reduceIte, Bool.false_eq_true]
    by_cases c2 : (cs.n == CipherState.nonceMax) = true
    · simp only [c2, ↓reduceIte]; right; exact ⟨by intro c; simp, rt, rt⟩
    · simp only [c2, ↓reduceIte, Bool.false_eq_true]
      by_cases c3 : cap < pt.length + 16
      · simp only [c3, ↓reduceIte]; right; exact ⟨by intro c; simp, rt, rt⟩
      · simp only [c3, ↓reduceIte]; left
        exact ⟨by simpa using c2, rt, rt, rt⟩

/-- **A failed (or panicking) encryption logs nothing and does not move the counter.** -/
theorem encryptAd_fail_noop (S : Suite) (cs : CipherState) (ad pt : Bytes) (cap : Nat)
    (h : ∀ c, (cs.encryptAd S ad pt cap).1 ≠ .ok c) :
    (cs.encryptAd S ad pt cap).2.1 = cs ∧ (cs.encryptAd S ad pt cap).2.2 = [] := by
  rcases encryptAd_cases S cs ad pt cap with ⟨_, h1, _, _⟩ | ⟨_, h2, h3⟩
  · exact absurd h1 (h _)
  · exact ⟨h2, h3⟩

theorem encryptAd_discipline (S : Suite) (cs : CipherState) (ad pt : Bytes) (cap : Nat) :
    Discipline cs.key cs.n.toNat ((cs.encryptAd S ad pt cap).2.2.map .ev)
      (cs.encryptAd S ad pt cap).2.1.key (cs.encryptAd S ad pt cap).2.1.n.toNat := by
  rcases encryptAd_cases S cs ad pt cap with ⟨hn, _, h2, h3⟩ | ⟨_, h2, h3⟩
  · rw [h2, h3]
    simp only [List.map_cons, List.map_nil, Discipline, hn, ↓reduceIte, true_and]
    exact ⟨rt, by rw [succ_toNat _ hn]; exact Nat.le_refl _⟩
  · rw [h2, h3]; exact Discipline.refl _ _

/-- `decrypt_ad` logs no `enc`, keeps the key and never moves the counter down. -/
theorem decryptAd_facts (S : Suite) (cs : CipherState) (ad ct : Bytes) (cap : Nat) :
    (cs.decryptAd S ad ct cap).2.1.key = cs.key ∧
    cs.n.toNat ≤ (cs.decryptAd S ad ct cap).2.1.n.toNat ∧
    (∀ kk nn a p, Event.enc kk nn a p ∉ (cs.decryptAd S ad ct cap).2.2.2) := by
  unfold CipherState.decryptAd
  by_cases c0 : (decide (ct.length < 16) || decide (cap < ct.length - 16)) = true
  · simp only [c0, ↓reduceIte]; exact ⟨rt, rt, by simp⟩
  · simp only [c0, ↓reduceIte, Bool.false_eq_true]
    by_cases c1 : (!cs.hasKey) = true
    · simp only [c1, ↓reduceIte]; exact ⟨rt, rt, by simp⟩
    · simp only [c1, ↓reduceIte, Bool.false_eq_true]
      by_cases c2 : (cs.n == CipherState.nonceMax) = true
      · simp only [c2, ↓reduceIte]; exact ⟨rt, rt, by simp⟩
      · simp only [c2, ↓reduceIte, Bool.false_eq_true]
        have hn : cs.n ≠ MAXN := by simpa using c2
        cases S.dec cs.key cs.n ad ct with
        | none => exact ⟨rt, rt, by simp⟩
        | some p => exact ⟨rt, by simp only [succ_toNat _ hn]; omega, by simp⟩

theorem decryptAd_discipline (S : Suite) (cs : CipherState) (ad ct : Bytes) (cap : Nat) :
    Discipline cs.key cs.n.toNat ((cs.decryptAd S ad ct cap).2.2.2.map .ev)
      (cs.decryptAd S ad ct cap).2.1.key (cs.decryptAd S ad ct cap).2.1.n.toNat := by
  obtain ⟨h1, h2, h3⟩ := decryptAd_facts S cs ad ct cap
  rw [h1]
  exact (Discipline.of_quiet cs.key cs.n.toNat _ h3).weaken_end h2

/-- The ghost log of a rekey: the one encryption on the reserved nonce, then the new key is
    installed with the counter unchanged. -/
def rekeyG (S : Suite) (cs : CipherState) : List GEv :=
  (cs.rekey S).2.map .ev ++ [.install (cs.rekey S).1.key (cs.rekey S).1.n]

theorem rekey_discipline (S : Suite) (cs : CipherState) (n0 : Nat) :
    Discipline cs.key n0 (rekeyG S cs) (cs.rekey S).1.key (cs.rekey S).1.n.toNat := by
  simp only [rekeyG, CipherState.rekey, List.map_cons, List.map_nil, List.cons_append, List.nil_append,
    Discipline, ↓reduceIte, true_and]
  first | trivial | exact Nat.le_refl _ | exact ⟨rt, rt, rt⟩

/-! ### One `CipherState` driven by an arbitrary sequence of operations -/

/-- The operations of cipherstate.rs, with arbitrary arguments. `set` is what `mix_key`,
    `mix_key_and_hash`, `split` (with nonce 0) and the repaired `restore` perform. -/
inductive CsOp
  | enc (ad pt : Bytes) (cap : Nat)
  | dec (ad ct : Bytes) (cap : Nat)
  | set (key : Bytes) (n : UInt64)
  | rekey
  | rekeyManually (key : Bytes)

/-- The operations that install a key. -/
def CsOp.installs : CsOp → Bool
  | .enc _ _ _ => false
  | .dec _ _ _ => false
  | _ => true

/-- One operation: successor state and ghost log. -/
def csStep (S : Suite) (cs : CipherState) : CsOp → CipherState × List GEv
  | .enc ad pt cap => ((cs.encryptAd S ad pt cap).2.1, (cs.encryptAd S ad pt cap).2.2.map .ev)
  | .dec ad ct cap => ((cs.decryptAd S ad ct cap).2.1, (cs.decryptAd S ad ct cap).2.2.2.map .ev)
  | .set key n => (cs.set key n, [.install key n])
  | .rekey => ((cs.rekey S).1, rekeyG S cs)
  | .rekeyManually key => (cs.rekeyManually key, [.install key cs.n])

def csRun (S : Suite) : CipherState → List CsOp → CipherState × List GEv
  | cs, [] => (cs, [])
  | cs, op :: ops => ((csRun S (csStep S cs op).1 ops).1, (csStep S cs op).2 ++ (csRun S (csStep S cs op).1 ops).2)

theorem csStep_discipline (S : Suite) (cs : CipherState) (op : CsOp) :
    Discipline cs.key cs.n.toNat (csStep S cs op).2 (csStep S cs op).1.key (csStep S cs op).1.n.toNat := by
  cases op with
  | enc ad pt cap => exact encryptAd_discipline S cs ad pt cap
  | dec ad ct cap => exact decryptAd_discipline S cs ad ct cap
  | set key n => exact ⟨rfl, Nat.le_refl _⟩
  | rekey => exact rekey_discipline S cs _
  | rekeyManually key => exact ⟨rfl, Nat.le_refl _⟩

/-- **Every run of one cipher state is disciplined.** -/
theorem csRun_discipline (S : Suite) (cs : CipherState) (ops : List CsOp) :
    Discipline cs.key cs.n.toNat (csRun S cs ops).2 (csRun S cs ops).1.key (csRun S cs ops).1.n.toNat := by
  induction ops generalizing cs with
  | nil => exact Discipline.refl _ _
  | cons op ops ih => exact (csStep_discipline S cs op).append (ih _)

/-- Without installing operations the ghost log has no installation marker and no use of the
    reserved nonce. -/
theorem csRun_plain (S : Suite) (cs : CipherState) (ops : List CsOp) (hno : ∀ op ∈ ops, op.installs = false) :
    (∀ key nn, GEv.install key nn ∉ (csRun S cs ops).2) ∧
    (∀ kk a p, GEv.ev (.enc kk MAXN a p) ∉ (csRun S cs ops).2) := by
  induction ops generalizing cs with
  | nil => simp [csRun]
  | cons op ops ih =>
    have h2 := ih (csStep S cs op).1 (fun o ho => hno o (List.mem_cons_of_mem _ ho))
    have h0 := hno op List.mem_cons_self
    have h1 : (∀ key nn, GEv.install key nn ∉ (csStep S cs op).2) ∧
        (∀ kk a p, GEv.ev (.enc kk MAXN a p) ∉ (csStep S cs op).2) := by
      cases op with
      | enc ad pt cap =>
        simp only [csStep]
        rcases encryptAd_cases S cs ad pt cap with ⟨hn, _, _, h3⟩ | ⟨_, _, h3⟩
        · rw [h3]
          refine ⟨by simp, ?_⟩
          intro kk a p hm
          simp only [List.map_cons, List.map_nil, List.mem_singleton, GEv.ev.injEq, Event.enc.injEq] at hm
          exact hn hm.2.1.symm
        · rw [h3]; simp
      | dec ad ct cap =>
        simp only [csStep]
        have h3 := (decryptAd_facts S cs ad ct cap).2.2
        refine ⟨by simp, ?_⟩
        intro kk a p hm
        simp only [List.mem_map, GEv.ev.injEq, exists_eq_right] at hm
        exact h3 _ _ _ _ hm
      | set key n => simp [CsOp.installs] at h0
      | rekey => simp [CsOp.installs] at h0
      | rekeyManually key => simp [CsOp.installs] at h0
    simp only [csRun, List.mem_append, not_or]
    exact ⟨fun key nn => ⟨h1.1 key nn, h2.1 key nn⟩, fun kk a p => ⟨h1.2 kk a p, h2.2 kk a p⟩⟩

/-! ### `encrypt_and_mix_hash` -/

/-- What `encrypt_and_mix_hash` logs: nothing, or one `enc` of the given plaintext with the
    handshake hash as associated data under the cipher's current key and counter. Anything but
    success logs nothing and leaves the cipher untouched. -/
theorem sym_encrypt_ev (S : Suite) (st : Sym) (pt : Bytes) (cap : Nat) :
    ((st.encryptAndMixHash S pt cap).2.2 = [] ∨
     (st.encryptAndMixHash S pt cap).2.2 = [.enc st.cs.key st.cs.n st.h pt]) ∧
    ((∀ c, (st.encryptAndMixHash S pt cap).1 ≠ .ok c) →
      (st.encryptAndMixHash S pt cap).2.2 = [] ∧ (st.encryptAndMixHash S pt cap).2.1.cs = st.cs) := by
  unfold Sym.encryptAndMixHash
  by_cases hk : st.hasKey = true
  · simp only [hk, ↓reduceIte]
    rcases encryptAd_cases S st.cs st.h pt cap with ⟨_, h1, _, h3⟩ | ⟨h1, h2, h3⟩
    · exact ⟨Or.inr h3, fun hno => absurd h1 (hno _)⟩
    · refine ⟨Or.inl h3, fun _ => ⟨h3, ?_⟩⟩
      cases hr : (st.cs.encryptAd S st.h pt cap).1 with
      | ok c => exact absurd hr (h1 c)
      | err e => exact h2
      | panic q => exact h2
  · simp only [hk, ↓reduceIte, Bool.false_eq_true]
    by_cases c : cap < pt.length
    · simp only [c, ↓reduceIte]; exact ⟨Or.inl rt, fun _ => ⟨rt, rt⟩⟩
    · simp only [c, ↓reduceIte]; exact ⟨Or.inl rt, fun _ => ⟨rt, rt⟩⟩

theorem sym_encrypt_cs (S : Suite) (st : Sym) (pt : Bytes) (cap : Nat) :
    (st.encryptAndMixHash S pt cap).2.1.cs =
      if st.hasKey then (st.cs.encryptAd S st.h pt cap).2.1 else st.cs := by
  unfold Sym.encryptAndMixHash
  by_cases hk : st.hasKey = true
  · simp only [hk, ↓reduceIte]
    cases (st.cs.encryptAd S st.h pt cap).1 <;> rfl
  · simp only [hk, ↓reduceIte, Bool.false_eq_true]
    split <;> rfl

theorem sym_encrypt_discipline (S : Suite) (st : Sym) (pt : Bytes) (cap : Nat) :
    Discipline st.cs.key st.cs.n.toNat ((st.encryptAndMixHash S pt cap).2.2.map .ev)
      (st.encryptAndMixHash S pt cap).2.1.cs.key (st.encryptAndMixHash S pt cap).2.1.cs.n.toNat := by
  rw [sym_encrypt_cs]
  by_cases hk : st.hasKey = true
  · have : (st.encryptAndMixHash S pt cap).2.2 = (st.cs.encryptAd S st.h pt cap).2.2 := by
      unfold Sym.encryptAndMixHash; simp only [hk, ↓reduceIte]
    rw [this]
    simp only [hk, ↓reduceIte]
    exact encryptAd_discipline S st.cs st.h pt cap
  · have : (st.encryptAndMixHash S pt cap).2.2 = [] := by
      unfold Sym.encryptAndMixHash; simp only [hk, ↓reduceIte, Bool.false_eq_true]; split <;> rfl
    rw [this]
    simp only [hk, ↓reduceIte, Bool.false_eq_true]
    exact Discipline.refl _ _

end SnowVerif.C06
