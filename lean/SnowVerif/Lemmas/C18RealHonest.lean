/-
  C18Real, payoff for C02: the honest-handshake theorem instantiated for the real X25519
  suites, with `DhComm` as the ONLY remaining hypothesis about the primitives.

  (Separate from `Theorems/C18Real.lean` because `Theorems/C02.lean` (via `Lemmas/Honest3`) and
  `Lemmas/C14Read` (needed there for `DecTag`, C01, C03Main) cannot be imported together:
  both declare `SnowVerif.Model.HS.readInner_ok`.)
-/
import SnowVerif.Lemmas.C18Real
import SnowVerif.Theorems.C02

namespace SnowVerif.Theorems.C18Real
open SnowVerif SnowVerif.Bytes SnowVerif.C18 SnowVerif.C18Real
open SnowVerif.Model SnowVerif.Model.HS SnowVerif.Model.TS SnowVerif.Theorems.C04 SnowVerif.Theorems.C02
set_option linter.unusedVariables false

/-- The real suite with X25519 (default backend), any real or toy cipher and hash. -/
def x25519Suite (cb : Real.Backend) (csel : Nat) (hb : Real.Backend) (hsel : Nat) : Suite :=
  Real.mkSuite (Real.dhImpl .default 0) cb (Real.cipherImpl cb csel) (Real.hashImpl hb hsel)

/-- **C02 (honest handshake) for the real X25519 suites.** With X25519, ChaChaPoly / XChaChaPoly /
    AESGCM and SHA-256 / SHA-512 / BLAKE2s / BLAKE2b computed by the reference implementations:
    for every valid pattern instance and consistent pair of sessions, the honest exchange
    completes, both parties finish with the same handshake hash and paired, keyed transport
    states with nonces 0. The only hypothesis about the primitives is `DhComm` (commutativity of
    X25519); `EncLen`, `DecEnc`, `PubLen`, `PrivTotal`, `DhTotal` are proved. -/
theorem real_honest_handshake (cb : Real.Backend) (csel : Nat) (hb : Real.Backend) (hsel : Nat)
    (hDC : (x25519Suite cb csel hb hsel).DhComm)
    (inst : Inst) (hv : Spec.valid inst = true) (k0 : Spec.Keys) (hk0 : preKeys inst = some k0)
    (A B : HS) (hc : Consistent (x25519Suite cb csel hb hsel) inst k0 A B)
    (hsmall : totalFields inst.msgs < 2 ^ 64 - 1)
    (plan : List (Bytes × Nat × Nat)) (hplan : PlanOk (x25519Suite cb csel hb hsel) inst.msgs plan) :
    ∃ A' B' kf, exchange (x25519Suite cb csel hb hsel) true A B plan = some (A', B') ∧
      Sync (x25519Suite cb csel hb hsel) kf A' B' ∧
      A'.isHandshakeFinished = true ∧ B'.isHandshakeFinished = true ∧
      A'.getHandshakeHash = B'.getHandshakeHash ∧
      ∃ ta tb, TS.ofHandshake (x25519Suite cb csel hb hsel) A' = .ok ta ∧
        TS.ofHandshake (x25519Suite cb csel hb hsel) B' = .ok tb ∧ Paired ta tb ∧
        ta.sendCs.hasKey = true ∧ ta.recvCs.hasKey = true ∧ tb.sendCs.hasKey = true ∧ tb.recvCs.hasKey = true ∧
        ta.sendCs.n = 0 ∧ ta.recvCs.n = 0 ∧ tb.sendCs.n = 0 ∧ tb.recvCs.n = 0 ∧
        ta.initiator = true ∧ tb.initiator = false :=
  have hc' := cipherImpl_isStreamMac cb csel
  honest_handshake (x25519Suite cb csel hb hsel)
    (mkSuite_encLen _ cb _ _ hc') (mkSuite_decEnc _ cb _ _ hc')
    (fun a => x25519_pubLen a) (fun a => x25519_validPriv a) hDC (fun a b => x25519_dh_isSome a _)
    inst hv k0 hk0 A B hc hsmall plan hplan

/-- `DhComm`, the hypothesis of `real_honest_handshake`, on concrete keys (kernel evaluation of the
    real X25519): both sides agree, and the value depends on the peer's key. -/
example :
    (x25519Suite .default 0 .default 0).dh [1, 2, 3] ((x25519Suite .default 0 .default 0).pubOf [4, 5, 6])
      = (x25519Suite .default 0 .default 0).dh [4, 5, 6] ((x25519Suite .default 0 .default 0).pubOf [1, 2, 3])
    ∧ (x25519Suite .default 0 .default 0).dh [1, 2, 3] ((x25519Suite .default 0 .default 0).pubOf [4, 5, 6])
      ≠ (x25519Suite .default 0 .default 0).dh [1, 2, 3] ((x25519Suite .default 0 .default 0).pubOf [4, 5, 7]) := by
  decide +kernel

end SnowVerif.Theorems.C18Real
