/-
  Lemmas for C18Real: the wrappers of the real primitives in `SnowVerif/Crypto/Real.lean`
  satisfy the length / shape laws of `Suite` *by construction*: hashes and DH outputs pass
  through `Bytes.fit`, the AEADs are the generic stream+MAC construction (`smEnc` / `smDec`)
  over the reference keystream and the reference tag function.  Nothing here looks inside the
  reference implementations (`Crypto/{Sha2,Blake2,ChaChaPoly,AesGcm,Dh}.lean`).
-/
import SnowVerif.Crypto.Real
import SnowVerif.Lemmas.C18Toy
import SnowVerif.Lemmas.C14Len

namespace SnowVerif.C18Real
open SnowVerif SnowVerif.Bytes SnowVerif.C18
set_option linter.unusedVariables false
set_option linter.unusedSimpArgs false

/-! ### Keystreams return the requested number of bytes, tags are 16 bytes -/

theorem ksChaCha_length (k : Bytes) (n : UInt64) (len : Nat) : (Real.ksChaCha k n len).length = len :=
  length_fit _ _
theorem ksXChaCha_length (k : Bytes) (n : UInt64) (len : Nat) : (Real.ksXChaCha k n len).length = len :=
  length_fit _ _
theorem ksGcm_length (k : Bytes) (n : UInt64) (len : Nat) : (Real.ksGcm k n len).length = len :=
  length_fit _ _
theorem macChaCha_length (k : Bytes) (n : UInt64) (ad ct : Bytes) : (Real.macChaCha k n ad ct).length = 16 :=
  length_fit _ _
theorem macXChaCha_length (k : Bytes) (n : UInt64) (ad ct : Bytes) : (Real.macXChaCha k n ad ct).length = 16 :=
  length_fit _ _
theorem macGcm_length (k : Bytes) (n : UInt64) (ad ct : Bytes) : (Real.macGcm k n ad ct).length = 16 :=
  length_fit _ _

/-! ### Every `cipherImpl` is a stream+MAC AEAD -/

/-- `c` is "xor with a keystream of the right length, 16-byte MAC over (ad, ciphertext)". -/
def IsStreamMac (c : Real.CipherImpl) : Prop :=
  ∃ (ks : Bytes → UInt64 → Nat → Bytes) (mac : Bytes → UInt64 → Bytes → Bytes → Bytes),
    (∀ k n len, (ks k n len).length = len) ∧ (∀ k n ad ct, (mac k n ad ct).length = 16) ∧
      c.enc = smEnc ks mac ∧ c.dec = smDec ks mac

/-- The real AEAD wrappers (ChaChaPoly, XChaChaPoly, AESGCM; any selector value, `default` and
    `ring` backends) and the toy AEADs all have the stream+MAC shape. -/
theorem cipherImpl_isStreamMac (b : Real.Backend) (sel : Nat) : IsStreamMac (Real.cipherImpl b sel) := by
  cases b
  · exact ⟨_, _, toy_keystream_length _, toy_mac_length _, rfl, rfl⟩
  all_goals
    unfold Real.cipherImpl
    simp only
    split
    · exact ⟨_, _, ksChaCha_length, macChaCha_length, rfl, rfl⟩
    · exact ⟨_, _, ksXChaCha_length, macXChaCha_length, rfl, rfl⟩
    · exact ⟨_, _, ksGcm_length, macGcm_length, rfl, rfl⟩

theorem isStreamMac_encLen {c : Real.CipherImpl} (h : IsStreamMac c) (k : Bytes) (n : UInt64) (ad p : Bytes) :
    (c.enc k n ad p).length = p.length + 16 := by
  obtain ⟨ks, mac, hk, hm, he, hd⟩ := h
  rw [he]; exact sm_encLen hk hm k n ad p

theorem isStreamMac_decEnc {c : Real.CipherImpl} (h : IsStreamMac c) (k : Bytes) (n : UInt64) (ad p : Bytes) :
    c.dec k n ad (c.enc k n ad p) = some p := by
  obtain ⟨ks, mac, hk, hm, he, hd⟩ := h
  rw [he, hd]; exact sm_decEnc hk hm k n ad p

theorem isStreamMac_decSound {c : Real.CipherImpl} (h : IsStreamMac c) (k : Bytes) (n : UInt64) (ad ct p : Bytes)
    (hdec : c.dec k n ad ct = some p) : ct = c.enc k n ad p := by
  obtain ⟨ks, mac, hk, hm, he, hd⟩ := h
  rw [hd] at hdec
  rw [he]; exact sm_decSound hk k n ad ct p hdec

/-! ### Suites assembled by `mkSuite` -/

theorem mkSuite_encLen (d : Real.DhImpl) (cb : Real.Backend) (c : Real.CipherImpl) (h : Real.HashImpl)
    (hc : IsStreamMac c) : (Real.mkSuite d cb c h).EncLen :=
  fun k n ad p => isStreamMac_encLen hc k n ad p

theorem mkSuite_decEnc (d : Real.DhImpl) (cb : Real.Backend) (c : Real.CipherImpl) (h : Real.HashImpl)
    (hc : IsStreamMac c) : (Real.mkSuite d cb c h).DecEnc :=
  fun k n ad p => isStreamMac_decEnc hc k n ad p

theorem mkSuite_decSound (d : Real.DhImpl) (cb : Real.Backend) (c : Real.CipherImpl) (h : Real.HashImpl)
    (hc : IsStreamMac c) : (Real.mkSuite d cb c h).DecSound :=
  fun k n ad ct p hd => isStreamMac_decSound hc k n ad ct p hd

/-- What a successful decrypt leaves in the output buffer starts with the plaintext, for all
    three backends (ring additionally leaves the tag behind it when the buffer held the whole
    ciphertext). -/
theorem mkSuite_okBufPrefix (d : Real.DhImpl) (cb : Real.Backend) (c : Real.CipherImpl) (h : Real.HashImpl) :
    (Real.mkSuite d cb c h).OkBufPrefix := by
  intro ct p cap
  show p <+: Real.okBuf cb ct p cap
  cases cb
  · exact List.prefix_refl p
  · exact List.prefix_refl p
  · unfold Real.okBuf
    simp only
    split
    · exact List.prefix_append p _
    · exact List.prefix_refl p

/-! ### Hashes -/

theorem toy_hashLen_cases (sel : Nat) :
    (Real.hashImpl .toy sel).hashLen = 32 ∨ (Real.hashImpl .toy sel).hashLen = 64 := by
  show (match sel with | 0 => 32 | 1 => 64 | 2 => 32 | _ => 64 : Nat) = 32
    ∨ (match sel with | 0 => 32 | 1 => 64 | 2 => 32 | _ => 64 : Nat) = 64
  split <;> simp

/-- Every `hashImpl` (four real hashes on `default`/`ring`, toy hashes) returns exactly `hashLen`
    bytes on every input. -/
theorem hashImpl_hashLen (b : Real.Backend) (sel : Nat) (data : Bytes) :
    ((Real.hashImpl b sel).hash data).length = (Real.hashImpl b sel).hashLen := by
  cases b
  · show (Toy.hash _ (Real.hashImpl .toy sel).hashLen data).length = (Real.hashImpl .toy sel).hashLen
    rw [toy_hash_length]
    rcases toy_hashLen_cases sel with e | e <;> rw [e]
  all_goals
    unfold Real.hashImpl
    simp only
    split <;> exact length_fit _ _

/-- `32 ≤ hashLen ≤ 64 ≤ blockLen ≤ 128` for every `hashImpl`. -/
theorem hashImpl_sizes (b : Real.Backend) (sel : Nat) :
    32 ≤ (Real.hashImpl b sel).hashLen ∧ (Real.hashImpl b sel).hashLen ≤ 64
      ∧ 64 ≤ (Real.hashImpl b sel).blockLen ∧ (Real.hashImpl b sel).blockLen ≤ 128 := by
  cases b
  · have hbl : (Real.hashImpl .toy sel).blockLen = 2 * (Real.hashImpl .toy sel).hashLen := rfl
    rw [hbl]
    rcases toy_hashLen_cases sel with e | e <;> rw [e] <;> decide
  all_goals
    unfold Real.hashImpl
    simp only
    split <;> decide

theorem mkSuite_hashLen (d : Real.DhImpl) (cb : Real.Backend) (c : Real.CipherImpl) (b : Real.Backend) (sel : Nat) :
    (Real.mkSuite d cb c (Real.hashImpl b sel)).HashLen :=
  fun data => hashImpl_hashLen b sel data

theorem mkSuite_sizes (d : Real.DhImpl) (cb : Real.Backend) (c : Real.CipherImpl) (b : Real.Backend) (sel : Nat) :
    (Real.mkSuite d cb c (Real.hashImpl b sel)).Sizes :=
  hashImpl_sizes b sel

/-! ### DH -/

/-- The real X25519 wrapper: 32-byte public keys. -/
theorem x25519_pubLen (k : Bytes) :
    ((Real.dhImpl .default 0).pubOf k).length = (Real.dhImpl .default 0).pubLen := length_fit _ _

/-- The real X25519 wrapper never fails ... -/
theorem x25519_dh_isSome (k p : Bytes) : ((Real.dhImpl .default 0).dh k p).isSome = true := rfl

/-- ... and returns 32 bytes. -/
theorem x25519_dhLen (k p r : Bytes) (h : (Real.dhImpl .default 0).dh k p = some r) :
    r.length = (Real.dhImpl .default 0).dhLen := by
  have : r = fit 32 (Crypto.Dh.x25519 (fit 32 k) (p.take 32)) := (Option.some.inj h).symm
  rw [this]; exact length_fit _ _

/-- Every 32-byte string is an X25519 private key (`Dh::set` never panics). -/
theorem x25519_validPriv (k : Bytes) : (Real.dhImpl .default 0).validPriv k = true := rfl

/-- The real P-256 wrapper: 65-byte public keys (uncompressed SEC1). -/
theorem p256_pubLen (k : Bytes) :
    ((Real.dhImpl .default 2).pubOf k).length = (Real.dhImpl .default 2).pubLen := length_fit _ _

/-- The real P-256 wrapper returns 32 bytes when it succeeds. -/
theorem p256_dhLen (k p r : Bytes) (h : (Real.dhImpl .default 2).dh k p = some r) :
    r.length = (Real.dhImpl .default 2).dhLen := by
  have h' : (Crypto.Dh.p256Dh (fit 32 k) p).map (fit 32) = some r := h
  rw [Option.map_eq_some_iff] at h'
  obtain ⟨x, _, rfl⟩ := h'
  exact length_fit _ _

theorem p256_validPriv_eq (k : Bytes) :
    (Real.dhImpl .default 2).validPriv k = Crypto.Dh.p256ValidScalar (fit 32 k) := rfl

theorem p256_dh_eq (k p : Bytes) :
    (Real.dhImpl .default 2).dh k p = (Crypto.Dh.p256Dh (fit 32 k) p).map (fit 32) := rfl

theorem p256ValidScalar_zero : Crypto.Dh.p256ValidScalar (fit 32 (zeros 32)) = false := by
  have h0 : Crypto.Dh.beToNat (fit 32 (zeros 32)) = 0 := by decide
  unfold Crypto.Dh.p256ValidScalar
  simp only [h0, Nat.lt_irrefl, decide_false, Bool.false_and, Bool.and_false]

/-- P-256 rejects the all-zero scalar: `PrivTotal` is false for it ... -/
theorem p256_zero_invalid : (Real.dhImpl .default 2).validPriv (zeros 32) = false := by
  rw [p256_validPriv_eq]; exact p256ValidScalar_zero

/-- ... and `dh` with that scalar fails whatever the public key: `DhTotal` is false as well. -/
theorem p256_zero_dh (p : Bytes) : (Real.dhImpl .default 2).dh (zeros 32) p = none := by
  rw [p256_dh_eq]
  unfold Crypto.Dh.p256Dh
  rw [p256ValidScalar_zero]
  rfl

/-- Which `dhImpl`s are the toy DH: everything except (`default`, 0) and (`default`, 2). -/
theorem dhImpl_toy (b : Real.Backend) (sel : Nat) (h : ¬ (b = .default ∧ (sel = 0 ∨ sel = 2))) :
    Real.dhImpl b sel =
      { name := (Toy.suite sel 0 0).dhName, pubLen := (Toy.suite sel 0 0).pubLen
        privLen := (Toy.suite sel 0 0).privLen, dhLen := (Toy.suite sel 0 0).dhLen
        validPriv := (Toy.suite sel 0 0).validPriv, pubOf := (Toy.suite sel 0 0).pubOf
        dh := (Toy.suite sel 0 0).dh } := by
  unfold Real.dhImpl
  split
  · exact absurd ⟨rfl, Or.inl rfl⟩ h
  · exact absurd ⟨rfl, Or.inr rfl⟩ h
  · rfl

end SnowVerif.C18Real
