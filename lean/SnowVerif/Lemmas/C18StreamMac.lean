/-
  Lemmas for C18: the generic "keystream xor, then MAC over the ciphertext"
  AEAD shape (`StreamMac`) satisfies the three AEAD laws of `Suite`
  (`EncLen`, `DecEnc`, `DecSound`) for every keystream and every MAC function.
-/
import SnowVerif.Suite
import SnowVerif.Crypto.StreamMac

namespace SnowVerif.C18
open SnowVerif Bytes
set_option linter.unusedVariables false
set_option linter.unusedSimpArgs false

/-! ### `Bytes.xor` -/

theorem length_xor (a b : Bytes) : (xor a b).length = min a.length b.length := by
  simp [Bytes.xor]

theorem xor_comm (a b : Bytes) : xor a b = xor b a := by
  unfold Bytes.xor
  rw [List.zipWith_comm]
  congr 1
  funext x y
  exact UInt8.xor_comm y x

theorem xor_nil_left (b : Bytes) : xor [] b = [] := by simp [Bytes.xor]

theorem xor_cons (x y : UInt8) (a b : Bytes) : xor (x :: a) (y :: b) = (x ^^^ y) :: xor a b := by
  simp [Bytes.xor]

/-- Applying the same pad twice gives the data back (the pad must be at least as long). -/
theorem xor_xor_cancel (a s : Bytes) (h : a.length ≤ s.length) : xor (xor a s) s = a := by
  induction a generalizing s with
  | nil => simp [Bytes.xor]
  | cons x a ih =>
    cases s with
    | nil => simp at h
    | cons y s =>
      simp only [List.length_cons] at h
      rw [xor_cons, xor_cons, ih s (by omega), UInt8.xor_assoc, UInt8.xor_self, UInt8.xor_zero]

/-! ### The generic construction -/

/-! `smEnc` / `smDec` are defined in `SnowVerif/Crypto/StreamMac.lean` (import-light, shared with
    the wrappers of the real AEADs in `Crypto/Real.lean`). -/

variable {ks : Bytes → UInt64 → Nat → Bytes} {mac : Bytes → UInt64 → Bytes → Bytes → Bytes}

theorem sm_body_length (hks : ∀ k n len, (ks k n len).length = len) (key : Bytes) (n : UInt64)
    (pt : Bytes) : (xor pt (ks key n pt.length)).length = pt.length := by
  rw [length_xor, hks]; omega

/-- Ciphertext = plaintext length + 16. -/
theorem sm_encLen (hks : ∀ k n len, (ks k n len).length = len)
    (hmac : ∀ k n ad c, (mac k n ad c).length = 16) (key : Bytes) (n : UInt64) (ad pt : Bytes) :
    (smEnc ks mac key n ad pt).length = pt.length + 16 := by
  unfold smEnc
  simp only [List.length_append, sm_body_length hks, hmac]

/-- Decryption inverts encryption. -/
theorem sm_decEnc (hks : ∀ k n len, (ks k n len).length = len)
    (hmac : ∀ k n ad c, (mac k n ad c).length = 16) (key : Bytes) (n : UInt64) (ad pt : Bytes) :
    smDec ks mac key n ad (smEnc ks mac key n ad pt) = some pt := by
  have hl := sm_encLen hks hmac key n ad pt
  have hb := sm_body_length hks key n pt
  unfold smDec
  rw [if_neg (by omega)]
  have hlen : (smEnc ks mac key n ad pt).length - 16 = pt.length := by
    rw [hl]; omega
  simp only [hlen]
  unfold smEnc
  simp only [List.take_left' hb, List.drop_left' hb, beq_self_eq_true, if_true, hb]
  rw [xor_xor_cancel _ _ (by rw [hks]; exact Nat.le_refl _)]

/-- Everything that decrypts is the encryption of what it decrypts to (needs only the keystream
    length, nothing about the MAC). -/
theorem sm_decSound (hks : ∀ k n len, (ks k n len).length = len)
    (key : Bytes) (n : UInt64) (ad c p : Bytes) (h : smDec ks mac key n ad c = some p) :
    c = smEnc ks mac key n ad p := by
  unfold smDec at h
  split at h
  · exact absurd h (by simp)
  · rename_i hlen
    simp only at h
    split at h
    · rename_i ht
      have ht' : c.drop (c.length - 16) = mac key n ad (c.take (c.length - 16)) := by
        simpa using ht
      have hp : p = xor (c.take (c.length - 16)) (ks key n (c.take (c.length - 16)).length) :=
        (Option.some.inj h).symm
      have hpl : p.length = (c.take (c.length - 16)).length := by
        rw [hp, length_xor, hks]; omega
      have hbody : xor p (ks key n p.length) = c.take (c.length - 16) := by
        rw [hpl]
        rw [hp]
        exact xor_xor_cancel _ _ (by rw [hks]; exact Nat.le_refl _)
      unfold smEnc
      simp only [hbody, ← ht', List.take_append_drop]
    · exact absurd h (by simp)

end SnowVerif.C18
