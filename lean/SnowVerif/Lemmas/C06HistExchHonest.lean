/-
  C06 over histories, Stage 4, the honest half: in an honest lockstep exchange (`HS.exchange`,
  hypotheses of `honest_exchange`) the writers form a chain (`WChain`): every write succeeds and
  each writer starts from the symmetric state (hence the handshake cipher key and nonce) the
  previous writer ended with, because after each delivery `Sync` gives both parties the same
  symmetric state.  (The other half, `Lemmas/C06HistExch.lean`, shows that the merged ghost log of a
  chain is disciplined; `Lemmas/C06HistExchFull.lean` joins the two; see `Lemmas/C06HistChain.lean`.)
-/
import SnowVerif.Lemmas.C06HistChain
import SnowVerif.Lemmas.Honest3

namespace SnowVerif.C06
open SnowVerif SnowVerif.Model SnowVerif.Model.HS
set_option linter.unusedVariables false
set_option linter.unusedSimpArgs false

/-- **In an honest exchange the writers form a chain.** Same hypotheses as `honest_exchange`: the
    exchange succeeds, the parties stay in lockstep, and the sequence of writers (message 1 by the
    party whose turn it is, message 2 by its peer, ...) is a `WChain` from the common symmetric
    state at the start to the common symmetric state at the end: every write succeeds and every
    writer starts with exactly the handshake cipher (key, nonce) the previous writer ended with. -/
theorem honest_exchange_chain (S : Suite) (hEL : S.EncLen) (hDE : S.DecEnc) (hPL : S.PubLen) (hPT : S.PrivTotal)
    (hDC : S.DhComm) (hDT : S.DhTotal) (rem : List (List Tok)) :
    ∀ (ini : Bool) (k kf : Spec.Keys) (A B : HS) (plan : List (Bytes × Nat × Nat)),
      Sync S k A B → Ctl A B → PartyOk S A → PartyOk S B →
      A.myTurn = ini → B.myTurn = !ini → A.pos ≤ A.msgs.length →
      A.msgs.drop A.pos = rem →
      Spec.Keys.runMsgs ini k rem = some kf →
      StaticsOk ini rem A.s.on B.s.on →
      (∀ n m, m ∈ rem → Tok.psk n ∈ m → n < 10 ∧ ∃ key, A.psks.getD n none = some key) →
      A.sym.cs.n.toNat + totalFields rem < 2 ^ 64 - 1 →
      PlanOk S rem plan →
      ∃ A' B', exchange S ini A B plan = some (A', B') ∧ Sync S kf A' B' ∧
        WChain S A.sym (exchangeWriters S ini A B plan) A'.sym := by
  induction rem with
  | nil =>
    intro ini k kf A B plan h c okA okB ht1 ht2 hple hrem hk hst hpsk hn hplan
    cases plan with
    | cons x xs => simp [PlanOk] at hplan
    | nil =>
      simp only [Spec.Keys.runMsgs, Option.some.injEq] at hk
      subst hk
      refine ⟨A, B, rfl, h, ?_⟩
      cases ini <;> exact rfl
  | cons m rest ih =>
    intro ini k kf A B plan h c okA okB ht1 ht2 hple hrem hk hst hpsk hn hplan
    obtain ⟨hlt, hget, hdrop⟩ := drop_cons_facts A.msgs A.pos m rest [] hrem
    cases plan with
    | nil => simp [PlanOk] at hplan
    | cons x xs =>
      obtain ⟨p, cap, capr⟩ := x
      simp only [PlanOk] at hplan
      obtain ⟨hcap, hmax, hcapr, hplan'⟩ := hplan
      simp only [Spec.Keys.runMsgs] at hk
      cases hk1 : k.runMsg ini m with
      | none => rw [hk1] at hk; simp at hk
      | some k1 =>
        rw [hk1] at hk
        simp only [Option.bind_some] at hk
        simp only [totalFields] at hn
        cases ini with
        | true =>
          simp only [StaticsOk] at hst
          obtain ⟨hsA, hst'⟩ := hst
          have hM := msgA S hEL hDE hPL hPT hDC hDT h c okA okB ht1 (by simpa using ht2) hlt
            (by rw [hget]; exact hk1) (by rw [hget]; exact hsA)
            (fun n hm => by rw [hget] at hm; exact hpsk n m List.mem_cons_self hm)
            (by rw [hget]; omega) p cap capr (by rw [hget]; exact hcap) (by rw [hget]; exact hmax) hcapr
          obtain ⟨m1, m2, m3, m4, m5, m6, m7, m8, m9, m10, m11, m12, m13, m14, m15⟩ := hM
          obtain ⟨A', B', hex, hs', hdisc⟩ :=
            ih false k1 kf _ _ xs m3 m4 m5 m6 m7 (by rw [m8]; rfl) (by rw [m9, m10]; omega)
              (by rw [m10, m9]; exact hdrop) hk
              (by rw [m11, m12]; exact hst')
              (fun n mm hmm hn' => by rw [m13]; exact hpsk n mm (List.mem_cons_of_mem _ hmm) hn')
              (by rw [hget] at m14; omega) hplan'
          refine ⟨A', B', ?_, hs', ?_⟩
          · simp only [exchange, m1, m2, and_self, ↓reduceIte]; exact hex
          · simp only [exchangeWriters, WChain]
            exact ⟨trivial, ⟨_, m1⟩, hdisc⟩
        | false =>
          simp only [StaticsOk] at hst
          obtain ⟨hsB, hst'⟩ := hst
          have hltB : B.pos < B.msgs.length := by rw [← c.pos, ← c.msgs]; exact hlt
          have hgetB : B.msgs.getD B.pos [] = m := by rw [← c.pos, ← c.msgs]; exact hget
          have hnB : B.sym.cs.n.toNat = A.sym.cs.n.toNat := by rw [h.sym]
          have hM := msgB S hEL hDE hPL hPT hDC hDT h c okA okB (by simpa using ht2) ht1 hltB
            (by rw [hgetB]; exact hk1) (by rw [hgetB]; exact hsB)
            (fun n hm => by rw [hgetB] at hm; exact hpsk n m List.mem_cons_self hm)
            (by rw [hgetB, hnB]; omega) p cap capr (by rw [hgetB]; exact hcap) (by rw [hgetB]; exact hmax) hcapr
          obtain ⟨m1, m2, m3, m4, m5, m6, m7, m8, m9, m10, m11, m12, m13, m14, m15⟩ := hM
          have hAmsgs : (A.readMessage S (B.writeMessage S p cap).2.2.1 capr).2.1.msgs = A.msgs := by
            rw [m4.msgs, m10, c.msgs]
          have hApos : (A.readMessage S (B.writeMessage S p cap).2.2.1 capr).2.1.pos = A.pos + 1 := by
            rw [m4.pos, m9, c.pos]
          have hApsks : (A.readMessage S (B.writeMessage S p cap).2.2.1 capr).2.1.psks = A.psks := by
            rw [m3.psks, m13, h.psks]
          have hAn : (A.readMessage S (B.writeMessage S p cap).2.2.1 capr).2.1.sym.cs.n.toNat ≤
              A.sym.cs.n.toNat + m.length + 1 := by
            rw [m3.sym, ← hnB]; rw [hgetB] at m14; exact m14
          obtain ⟨A', B', hex, hs', hdisc⟩ :=
            ih true k1 kf _ _ xs m3 m4 m6 m5 m8 (by rw [m7]; rfl) (by rw [hApos, hAmsgs]; omega)
              (by rw [hAmsgs, hApos]; exact hdrop) hk
              (by rw [m12, m11]; exact hst')
              (fun n mm hmm hn' => by rw [hApsks]; exact hpsk n mm (List.mem_cons_of_mem _ hmm) hn')
              (by omega) hplan'
          refine ⟨A', B', ?_, hs', ?_⟩
          · simp only [exchange, m1, m2, and_self, ↓reduceIte]; exact hex
          · simp only [exchangeWriters, WChain]
            refine ⟨h.sym.symm, ⟨_, m1⟩, ?_⟩
            rw [← m3.sym]
            exact hdisc

end SnowVerif.C06
