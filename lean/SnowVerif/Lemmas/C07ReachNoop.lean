/-
  C07 (reachability), part 2: the failed-call theorems of `Theorems/C07.lean` under the weaker side
  condition `NoReW` ("no second `e` in a message this party is about to WRITE") instead of `NoReE`
  ("no second `e` in the current message", which is false whenever the peer's next message carries
  the peer's `e`).
-/
import SnowVerif.Theorems.C07
import SnowVerif.Theorems.C11

namespace SnowVerif.Lemmas.C07Reach
open SnowVerif SnowVerif.Model SnowVerif.Model.HS
open SnowVerif.Theorems.C07
set_option autoImplicit false
set_option linter.unusedVariables false
set_option linter.unusedSimpArgs false

/-- Side condition on a state, needed only when it is this party's turn to write: a live,
    non-fixed ephemeral is not generated a second time by the message about to be written. When it
    is the peer's turn nothing is demanded (the current message is then one this party READS; its
    `e` token is the peer's ephemeral). -/
def NoReW (hs : HS) : Prop := hs.myTurn = true → NoReE hs

theorem NoReW_of_NoReE {hs : HS} (h : NoReE hs) : NoReW hs := fun _ => h

theorem NoReW_withRng {hs : HS} (h : NoReW hs) (R : Bytes) : NoReW { hs with rng := R } := h

/-- A failed handshake write is a no-op, with the side condition only on states in which this
    party may write: off turn, `write_message` returns `State(NotTurnToWrite)` before touching
    anything. -/
theorem hs_write_err_noop' (S : Suite) (hs : HS) (inv : SymInv hs.sym) (hne : NoReW hs)
    (p : Bytes) (cap : Nat) (e : Err) (hs' : HS) (acc : Bytes) (ev : List Event)
    (h : hs.writeMessage S p cap = (.err e, hs', acc, ev)) : Equiv hs hs' := by
  cases ht : hs.myTurn with
  | true => exact hs_write_err_noop S hs inv (hne ht) p cap e hs' acc ev h
  | false =>
    rw [Theorems.C11.write_off_turn S hs p cap inv ht] at h
    simp only [Prod.mk.injEq] at h
    obtain ⟨_, rfl, _, _⟩ := h
    exact Equiv.refl _

/-- A failed call leaves an equivalent state (`NoReW` instead of `NoReE`). -/
theorem exec_failed_noop' (S : Suite) (hs : HS) (op : Op) (inv : SymInv hs.sym) (hne : NoReW hs)
    (hf : (exec S hs op).1.failed = true) : Equiv hs (exec S hs op).2 := by
  cases op with
  | write R p cap =>
    simp only [exec] at hf ⊢
    cases hr : (({ hs with rng := R } : HS).writeMessage S p cap).1 with
    | err e =>
      have := hs_write_err_noop' S { hs with rng := R } inv (NoReW_withRng hne R) p cap e
        (({ hs with rng := R } : HS).writeMessage S p cap).2.1
        (({ hs with rng := R } : HS).writeMessage S p cap).2.2.1
        (({ hs with rng := R } : HS).writeMessage S p cap).2.2.2 (by rw [← hr])
      exact (Equiv_setRng hs R).trans this
    | ok n => rw [hr] at hf; simp [Obs.failed] at hf
    | panic q => rw [hr] at hf; simp [Obs.failed] at hf
  | read m cap =>
    simp only [exec] at hf ⊢
    cases hr : (hs.readMessage S m cap).1 with
    | err e =>
      exact (hs_read_err_noop S hs inv m cap e (hs.readMessage S m cap).2.1 (hs.readMessage S m cap).2.2.1
        (hs.readMessage S m cap).2.2.2 (by rw [← hr])).1
    | ok n => rw [hr] at hf; simp [Obs.failed] at hf
    | panic q => rw [hr] at hf; simp [Obs.failed] at hf
  | setPsk loc key =>
    simp only [exec, HS.setPsk] at hf ⊢
    split
    · exact Equiv.refl _
    · rename_i hc; simp [hc, Obs.failed] at hf

/-- **For every history, deleting the failed calls changes nothing**, with the side condition
    `NoReW` (states in which this party may write) along the history instead of `NoReE`. -/
theorem failed_calls_deletable' (S : Suite) (ops : List Op) (a b : HS) (h : Equiv a b)
    (ia : SymInv a.sym) (ib : SymInv b.sym) (hne : Along NoReW S a ops) :
    (run S b (survivors S a ops)).1 = ((run S a ops).1.filter fun o => !o.failed) ∧
    Equiv (run S a ops).2 (run S b (survivors S a ops)).2 := by
  induction ops generalizing a b with
  | nil => exact ⟨rfl, h⟩
  | cons op ops ih =>
    obtain ⟨hne0, hne1⟩ := hne
    have ia' := exec_inv S a op ia
    simp only [run, survivors]
    cases hf : (exec S a op).1.failed with
    | true =>
      have hE := exec_failed_noop' S a op ia hne0 hf
      have := ih (exec S a op).2 b (hE.symm.trans h) ia' ib hne1
      simp only [List.filter, hf, Bool.not_true, ↓reduceIte]
      exact this
    | false =>
      have he := exec_equiv S h ia ib op
      have ib' := exec_inv S b op ib
      have := ih (exec S a op).2 (exec S b op).2 he.2 ia' ib' hne1
      simp only [Bool.false_eq_true, ↓reduceIte, run, List.filter, hf, Bool.not_false]
      rw [← he.1]
      exact ⟨by rw [this.1], this.2⟩

end SnowVerif.Lemmas.C07Reach
