/-
  C13  Declarative grammar of Noise protocol names (definitions only).

  Nothing here refers to the parser's control flow: a name is in the grammar when it can be
  *written* as  "Noise_" pattern items "_" dh "_" cipher "_" hash ; how a parser finds that
  decomposition (five-way split, longest-prefix rule, `+` split) is not part of the definition.
  Names are byte strings (the UTF-8 bytes of the Rust `&str`).
-/
import SnowVerif.Model.Params

namespace SnowVerif.Lemmas.C13
open SnowVerif SnowVerif.Model
open SnowVerif.Generated (Pattern allPatterns)

/-- `xs` joined with the separator byte `sep` between consecutive pieces; empty for no piece. -/
def joinWith (sep : UInt8) : List Bytes → Bytes
  | [] => []
  | [x] => x
  | x :: y :: r => x ++ sep :: joinWith sep (y :: r)

/-- An ASCII decimal digit `'0'..'9'`. -/
def IsAsciiDigit (b : UInt8) : Prop := 48 ≤ b ∧ b ≤ 57

/-- Positional decimal value of a digit string, most significant digit first
    (`decVal "012" = 0*100 + 1*10 + 2`).  Leading zeros do not change the value. -/
def decVal : Bytes → Nat
  | [] => 0
  | d :: ds => (d.toNat - 48) * 10 ^ ds.length + decVal ds

/-- `Item bytes m`: the modifier item `bytes` denotes the modifier `m`.  An item is `fallback`,
    or `psk` followed by one or more ASCII digits whose decimal value is at most 255. -/
inductive Item : Bytes → Modifier → Prop
  | fallback : Item (str "fallback") .fallback
  | psk (ds : Bytes) (hne : ds ≠ []) (hdig : ∀ d ∈ ds, IsAsciiDigit d) (hval : decVal ds ≤ 255) :
      Item (str "psk" ++ ds) (.psk (decVal ds))

/-- DH names this build knows and what they denote. -/
inductive DhName (f : Features) : Bytes → DhChoice → Prop
  | c25519 : DhName f (str "25519") .c25519
  | c448 : DhName f (str "448") .c448
  | p256 (h : f.p256 = true) : DhName f (str "P256") .p256

/-- Cipher names this build knows and what they denote. -/
inductive CipherName (f : Features) : Bytes → CipherChoice → Prop
  | chachaPoly : CipherName f (str "ChaChaPoly") .chachaPoly
  | xchachaPoly (h : f.xchacha = true) : CipherName f (str "XChaChaPoly") .xchachaPoly
  | aesGcm : CipherName f (str "AESGCM") .aesGcm

/-- Hash names and what they denote. -/
inductive HashName : Bytes → HashChoice → Prop
  | sha256 : HashName (str "SHA256") .sha256
  | sha512 : HashName (str "SHA512") .sha512
  | blake2s : HashName (str "BLAKE2s") .blake2s
  | blake2b : HashName (str "BLAKE2b") .blake2b

/-- The modifier part of a handshake name: the item strings joined by `+` (43), nothing at all
    when there is no item. -/
def modifierString (items : List (Bytes × Modifier)) : Bytes := joinWith 43 (items.map Prod.fst)

/-- `HandshakeGrammar bytes p ms`: `bytes` is the name of table pattern `p` followed by the
    `+`-joined items, every item is well formed, `ms` are the modifiers the items denote, in
    order, and no modifier is denoted twice. -/
def HandshakeGrammar (bytes : Bytes) (p : Pattern) (ms : List Modifier) : Prop :=
  ∃ items : List (Bytes × Modifier),
    bytes = str p.name ++ modifierString items ∧
    (∀ it ∈ items, Item it.1 it.2) ∧
    ms = items.map Prod.snd ∧
    ms.Nodup

/-- `Grammar f bytes r`: `bytes` is
    `Noise_<pattern><items joined by +>_<dh>_<cipher>_<hash>`
    for a table pattern, well-formed non-duplicate modifier items and primitive names of build `f`,
    and `r` carries exactly those components and `bytes` itself as its name. -/
def Grammar (f : Features) (bytes : Bytes) (r : Params) : Prop :=
  ∃ (hsN dhN ciN haN : Bytes),
    bytes = str "Noise_" ++ hsN ++ str "_" ++ dhN ++ str "_" ++ ciN ++ str "_" ++ haN ∧
    HandshakeGrammar hsN r.pattern r.mods ∧
    DhName f dhN r.dh ∧ CipherName f ciN r.cipher ∧ HashName haN r.hash ∧
    r.name = bytes

end SnowVerif.Lemmas.C13
