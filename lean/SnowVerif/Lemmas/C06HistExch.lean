/-
  C06 over histories, Stage 4 (handshake part), the ghost-log half: for a *chain* of writers
  (`WChain`, Lemmas/C06HistChain.lean: every write succeeds and each writer starts from the
  symmetric state the previous writer ended with — e.g. the writers of an honest lockstep
  exchange, message 1 by the initiator, message 2 by the responder, ..., see
  `honest_exchange_chain` in Lemmas/C06HistExchHonest.lean), the concatenation of the writers'
  ghost logs is one disciplined log.  (Imports only Lemmas/C06Write.lean so that it can be combined
  with Lemmas/Honest3.lean in Lemmas/C06HistExchFull.lean.)
-/
import SnowVerif.Lemmas.C06Write
import SnowVerif.Lemmas.C06HistChain

namespace SnowVerif.C06
open SnowVerif SnowVerif.Model SnowVerif.Model.HS
set_option linter.unusedVariables false
set_option linter.unusedSimpArgs false

/-- The writers' ghost logs, concatenated in order. -/
def chainG (S : Suite) : List (HS × Bytes × Nat) → List GEv
  | [] => []
  | (hs, p, cap) :: ws => writeG S hs p cap ++ chainG S ws

/-- The events the writers' `write_message` calls return, concatenated in order. -/
def chainEv (S : Suite) : List (HS × Bytes × Nat) → List Event
  | [] => []
  | (hs, p, cap) :: ws => (hs.writeMessage S p cap).2.2.2 ++ chainEv S ws

/-- Erasing the markers of the merged ghost log gives the events the writers' calls returned. -/
theorem chainG_erase (S : Suite) (ws : List (HS × Bytes × Nat)) : erase (chainG S ws) = chainEv S ws := by
  induction ws with
  | nil => rfl
  | cons x ws ih =>
    obtain ⟨hs, p, cap⟩ := x
    simp only [chainG, chainEv, erase_append, ih]
    rw [writeMessage_ev, (writeInner_G S hs p cap).1]

theorem chainG_install (S : Suite) (ws : List (HS × Bytes × Nat)) (key : Bytes) (nn : UInt64)
    (h : GEv.install key nn ∈ chainG S ws) : nn = 0 ∧ ∃ ck, IsKdfKey S ck key := by
  induction ws with
  | nil => simp [chainG] at h
  | cons x ws ih =>
    obtain ⟨hs, p, cap⟩ := x
    simp only [chainG, List.mem_append] at h
    rcases h with h | h
    · exact writeG_install S hs p cap key nn h
    · exact ih h

/-- The ghost log of a successful write ends in the writer's new cipher state. -/
theorem writeG_discipline_ok (S : Suite) (hs : HS) (p : Bytes) (cap : Nat) (n : Nat)
    (h : (hs.writeMessage S p cap).1 = .ok n) :
    Discipline hs.sym.cs.key hs.sym.cs.n.toNat (writeG S hs p cap)
      (hs.writeMessage S p cap).2.1.sym.cs.key (hs.writeMessage S p cap).2.1.sym.cs.n.toNat := by
  have hd := (writeInner_G S hs p cap).2
  have hsym : (hs.writeMessage S p cap).2.1.sym = (writeInner S hs p cap).2.hs.sym := by
    unfold writeMessage at h ⊢
    simp only at h ⊢
    cases hr : (writeInner S hs p cap).1 with
    | ok n' => rfl
    | err e => rw [hr] at h; simp at h
    | panic q => rfl
  rw [hsym]; exact hd

/-- **The merged ghost log of a chain of writers is disciplined** from the handshake cipher
    (key, nonce) the first writer starts with to the (key, nonce) the last writer leaves. -/
theorem wchain_disciplined (S : Suite) (ws : List (HS × Bytes × Nat)) (s0 s1 : Sym) (h : WChain S s0 ws s1) :
    Discipline s0.cs.key s0.cs.n.toNat (chainG S ws) s1.cs.key s1.cs.n.toNat := by
  induction ws generalizing s0 with
  | nil => simp only [WChain] at h; subst h; exact Discipline.refl _ _
  | cons x ws ih =>
    obtain ⟨hs, p, cap⟩ := x
    simp only [WChain] at h
    obtain ⟨h0, ⟨n, hok⟩, hrest⟩ := h
    subst h0
    exact (writeG_discipline_ok S hs p cap n hok).append (ih _ hrest)

end SnowVerif.C06
