/-
  Message-level bisimulation for the handshake (`write_message`, `read_message`, `set_psk`)
  and what a failed inner call leaves in the fields the wrapper does not restore.
-/
import SnowVerif.Lemmas.Equiv

open SnowVerif SnowVerif.Model SnowVerif.Model.HS
set_option linter.unusedVariables false
set_option linter.unusedSimpArgs false

namespace SnowVerif.Model

theorem SymEq.symm {a b : Sym} (h : SymEq a b) : SymEq b a := by
  obtain ⟨h1, h2, h3, h4, h5⟩ := h
  exact ⟨h1.symm, h2.symm, h3.symm, h4.symm, fun hk => (h5 (by rw [h4]; exact hk)).symm⟩

theorem SymEq.trans {a b c : Sym} (h : SymEq a b) (g : SymEq b c) : SymEq a c := by
  obtain ⟨h1, h2, h3, h4, h5⟩ := h
  obtain ⟨g1, g2, g3, g4, g5⟩ := g
  exact ⟨h1.trans g1, h2.trans g2, h3.trans g3, h4.trans g4,
    fun hk => (h5 hk).trans (g5 (by rw [← h4]; exact hk))⟩

theorem Equiv.symm {a b : HS} (h : Equiv a b) : Equiv b a :=
  ⟨h.sym.symm, h.cs1.symm, h.cs2.symm, h.s.symm, h.eon.symm,
   fun hh => (h.eval (by rw [h.eon, h.fixedE]; exact hh)).symm,
   h.fixedE.symm, h.rs.symm, h.re.symm, h.initiator.symm, h.isPsk.symm, h.oneway.symm, h.psks.symm,
   h.myTurn.symm, h.msgs.symm, h.pos.symm⟩

theorem Equiv.trans {a b c : HS} (h : Equiv a b) (g : Equiv b c) : Equiv a c :=
  ⟨h.sym.trans g.sym, h.cs1.trans g.cs1, h.cs2.trans g.cs2, h.s.trans g.s, h.eon.trans g.eon,
   fun hh => (h.eval hh).trans (g.eval (by rw [← h.eon, ← h.fixedE]; exact hh)),
   h.fixedE.trans g.fixedE, h.rs.trans g.rs, h.re.trans g.re, h.initiator.trans g.initiator,
   h.isPsk.trans g.isPsk, h.oneway.trans g.oneway, h.psks.trans g.psks, h.myTurn.trans g.myTurn,
   h.msgs.trans g.msgs, h.pos.trans g.pos⟩

namespace HS

/-- `write_message` respects the equivalence: same outcome, same bytes, same events,
    equivalent successors, same remaining random stream. -/
theorem writeMessage_equiv (S : Suite) {a b : HS} (h : Equiv a b) (hr : a.rng = b.rng)
    (ia : SymInv a.sym) (ib : SymInv b.sym) (p : Bytes) (cap : Nat) :
    (a.writeMessage S p cap).1 = (b.writeMessage S p cap).1 ∧
    Equiv (a.writeMessage S p cap).2.1 (b.writeMessage S p cap).2.1 ∧
    (a.writeMessage S p cap).2.1.rng = (b.writeMessage S p cap).2.1.rng ∧
    (a.writeMessage S p cap).2.2 = (b.writeMessage S p cap).2.2 := by
  obtain ⟨w1, ⟨wE, wrng, wacc, wev⟩⟩ := writeInner_equiv S h hr ia p cap
  unfold writeMessage
  simp only
  rw [← w1, ← wacc, ← wev, ← h.eon]
  cases hA : (writeInner S a p cap).1 with
  | ok n =>
    dsimp only
    refine ⟨rfl, ?_, wrng, rfl⟩
    exact ⟨wE.sym, wE.cs1, wE.cs2, wE.s, wE.eon, wE.eval, wE.fixedE, wE.rs, wE.re, wE.initiator, wE.isPsk,
           wE.oneway, wE.psks, rfl, wE.msgs, by simp only [wE.pos]⟩
  | panic q => dsimp only; exact ⟨rfl, wE, wrng, rfl⟩
  | err e =>
    dsimp only
    have hsym : SymEq ((writeInner S a p cap).2.hs.sym.restore a.sym.checkpoint)
        ((writeInner S b p cap).2.hs.sym.restore b.sym.checkpoint) :=
      ((SymEq.restore _ a.sym ia).symm.trans h.sym).trans (SymEq.restore _ b.sym ib)
    cases hon : a.e.on with
    | true =>
      simp only [Bool.not_true, Bool.false_eq_true, ↓reduceIte]
      refine ⟨by first | rfl | trivial, ?_, wrng, by first | rfl | trivial⟩
      refine ⟨hsym, ?_, ?_, ?_, ?_, ?_, ?_, ?_, ?_, ?_, ?_, ?_, ?_, ?_, ?_, ?_⟩ <;> equiv_rest wE
    | false =>
      simp only [Bool.not_false, ↓reduceIte]
      refine ⟨by first | rfl | trivial, ?_, wrng, by first | rfl | trivial⟩
      refine ⟨hsym, wE.cs1, wE.cs2, wE.s, rfl, ?_, wE.fixedE, wE.rs, wE.re, wE.initiator, wE.isPsk,
             wE.oneway, wE.psks, wE.myTurn, wE.msgs, wE.pos⟩
      intro hh
      simp only [Bool.false_eq_true, false_or] at hh
      exact wE.eval (Or.inr hh)

end HS
end SnowVerif.Model

namespace SnowVerif.Model.HS

theorem readMessage_equiv (S : Suite) {a b : HS} (h : Equiv a b)
    (ia : SymInv a.sym) (ib : SymInv b.sym) (m : Bytes) (cap : Nat) :
    (a.readMessage S m cap).1 = (b.readMessage S m cap).1 ∧
    Equiv (a.readMessage S m cap).2.1 (b.readMessage S m cap).2.1 ∧
    (a.readMessage S m cap).2.2 = (b.readMessage S m cap).2.2 := by
  obtain ⟨r1, rE, rrest⟩ := readInner_equiv S h ia m cap
  unfold readMessage
  simp only
  rw [← r1, ← rrest]
  cases hA : (readInner S a m cap).1 with
  | ok pl =>
    dsimp only
    refine ⟨rfl, ?_, rfl⟩
    exact ⟨rE.sym, rE.cs1, rE.cs2, rE.s, rE.eon, rE.eval, rE.fixedE, rE.rs, rE.re, rE.initiator, rE.isPsk,
           rE.oneway, rE.psks, rfl, rE.msgs, by simp only [rE.pos]⟩
  | panic q => dsimp only; exact ⟨rfl, rE, rfl⟩
  | err e =>
    dsimp only
    have hsym : SymEq ((readInner S a m cap).2.1.sym.restore a.sym.checkpoint)
        ((readInner S b m cap).2.1.sym.restore b.sym.checkpoint) :=
      ((SymEq.restore _ a.sym ia).symm.trans h.sym).trans (SymEq.restore _ b.sym ib)
    refine ⟨rfl, ?_, rfl⟩
    exact ⟨hsym, rE.cs1, rE.cs2, rE.s, rE.eon, rE.eval, rE.fixedE, h.rs, h.re, rE.initiator, rE.isPsk,
           rE.oneway, rE.psks, rE.myTurn, rE.msgs, rE.pos⟩

theorem setPsk_equiv {a b : HS} (h : Equiv a b) (loc : Nat) (key : Bytes) :
    (a.setPsk loc key).1 = (b.setPsk loc key).1 ∧ Equiv (a.setPsk loc key).2 (b.setPsk loc key).2 ∧
    (a.setPsk loc key).2.rng = a.rng ∧ (b.setPsk loc key).2.rng = b.rng := by
  unfold setPsk
  have e1 : b.psks = a.psks := h.psks.symm
  simp only [e1]
  split
  · exact ⟨rfl, h, rfl, rfl⟩
  · refine ⟨rfl, ?_, rfl, rfl⟩
    refine ⟨h.sym, ?_, ?_, ?_, ?_, ?_, ?_, ?_, ?_, ?_, ?_, ?_, ?_, ?_, ?_, ?_⟩ <;> equiv_rest h

/-! ### What a failed `_write_message` leaves in the fields the wrapper does not restore -/

theorem writeTok_e_facts (S : Suite) (cap : Nat) (w : WS) (t : Tok) :
    (w.hs.e.on = true → (writeTok S cap w t).2.hs.e.on = true) ∧
    ((w.hs.fixedE = true ∨ t ≠ .e) → (writeTok S cap w t).2.hs.e.val = w.hs.e.val) ∧
    (t ≠ .e → (writeTok S cap w t).2.hs.e = w.hs.e) := by
  have hf := writeTok_frame S cap w t
  cases t with
  | e =>
    simp only [writeTok]
    refine ⟨?_, ?_, fun h => absurd rfl h⟩
    · intro hon; repeat' split
      all_goals first | exact hon | rfl
    · intro hh
      rcases hh with hfix | hne
      · simp only [hfix, ↓reduceIte]
        repeat' split
        all_goals rfl
      · exact absurd rfl hne
  | s =>
    simp only [writeTok]
    refine ⟨?_, ?_, ?_⟩ <;> intro _ <;> (repeat' split) <;> first | assumption | rfl
  | psk n =>
    simp only [writeTok, pskStep]
    refine ⟨?_, ?_, ?_⟩ <;> intro _ <;> (repeat' split) <;> first | assumption | rfl
  | ee =>
    simp only [writeTok, dhStep]
    refine ⟨?_, ?_, ?_⟩ <;> intro _ <;> (repeat' split) <;> first | assumption | rfl
  | es =>
    simp only [writeTok, dhStep]
    refine ⟨?_, ?_, ?_⟩ <;> intro _ <;> (repeat' split) <;> first | assumption | rfl
  | se =>
    simp only [writeTok, dhStep]
    refine ⟨?_, ?_, ?_⟩ <;> intro _ <;> (repeat' split) <;> first | assumption | rfl
  | ss =>
    simp only [writeTok, dhStep]
    refine ⟨?_, ?_, ?_⟩ <;> intro _ <;> (repeat' split) <;> first | assumption | rfl

theorem writeToks_e_facts (S : Suite) (cap : Nat) (ts : List Tok) (w : WS) :
    (w.hs.e.on = true → (writeToks S cap ts w).2.hs.e.on = true) ∧
    ((w.hs.fixedE = true ∨ Tok.e ∉ ts) → (writeToks S cap ts w).2.hs.e.val = w.hs.e.val) := by
  induction ts generalizing w with
  | nil => exact ⟨fun h => h, fun _ => rfl⟩
  | cons t ts ih =>
    have h1 := writeTok_e_facts S cap w t
    have hfix := (writeTok_frame S cap w t).fixedE
    have h2 := ih (writeTok S cap w t).2
    unfold writeToks
    have hcond : (w.hs.fixedE = true ∨ Tok.e ∉ t :: ts) → (w.hs.fixedE = true ∨ t ≠ .e) := by
      intro hh
      rcases hh with hh | hh
      · exact Or.inl hh
      · right; intro heq; exact hh (by rw [heq]; exact List.mem_cons_self)
    have hcond2 : (w.hs.fixedE = true ∨ Tok.e ∉ t :: ts) →
        ((writeTok S cap w t).2.hs.fixedE = true ∨ Tok.e ∉ ts) := by
      intro hh
      rcases hh with hh | hh
      · left; rw [hfix]; exact hh
      · right; intro hm; exact hh (List.mem_cons_of_mem _ hm)
    split
    · exact ⟨fun hon => h2.1 (h1.1 hon), fun hh => (h2.2 (hcond2 hh)).trans (h1.2.1 (hcond hh))⟩
    · exact ⟨fun hon => h1.1 hon, fun hh => h1.2.1 (hcond hh)⟩

end SnowVerif.Model.HS

namespace SnowVerif.Model.HS

theorem writeInner_e_cs (S : Suite) (hs : HS) (p : Bytes) (cap : Nat) :
    let w := (writeInner S hs p cap).2
    (hs.e.on = true → w.hs.e.on = true) ∧
    ((hs.fixedE = true ∨ Tok.e ∉ hs.msgs.getD hs.pos []) → w.hs.e.val = hs.e.val) ∧
    ((∀ n, (writeInner S hs p cap).1 ≠ .ok n) → w.hs.cs1 = hs.cs1 ∧ w.hs.cs2 = hs.cs2) := by
  intro w
  have he := writeToks_e_facts S cap (hs.msgs.getD hs.pos []) { hs := hs, acc := [], ev := [] }
  have hf := writeToks_frame S cap (hs.msgs.getD hs.pos []) { hs := hs, acc := [], ev := [] }
  simp only [w]
  unfold writeInner
  simp only
  repeat' split
  all_goals first
    | exact ⟨fun h => h, fun _ => rfl, fun _ => ⟨rfl, rfl⟩⟩
    | exact ⟨he.1, he.2, fun _ => ⟨hf.cs1, hf.cs2⟩⟩
    | (refine ⟨he.1, he.2, fun hno => ?_⟩; exact absurd rfl (hno _))

theorem readInner_cs (S : Suite) (hs : HS) (m : Bytes) (cap : Nat) :
    (∀ pl, (readInner S hs m cap).1 ≠ .ok pl) →
    (readInner S hs m cap).2.1.cs1 = hs.cs1 ∧ (readInner S hs m cap).2.1.cs2 = hs.cs2 := by
  have hf := readToks_frame S (hs.msgs.getD hs.pos []) { hs := hs, ptr := m, ev := [] }
  unfold readInner
  simp only
  repeat' split
  all_goals first
    | exact fun _ => ⟨rfl, rfl⟩
    | exact fun _ => ⟨hf.cs1, hf.cs2⟩
    | (intro hno; exact absurd rfl (hno _))

end SnowVerif.Model.HS

namespace SnowVerif.Model.HS

theorem writeMessage_inv (S : Suite) (hs : HS) (p : Bytes) (cap : Nat) (h : SymInv hs.sym) :
    SymInv (hs.writeMessage S p cap).2.1.sym := by
  have hi := writeInner_inv S hs p cap h
  unfold writeMessage
  simp only
  repeat' split
  all_goals first
    | exact hi
    | exact Sym.inv_restore _ hs.sym h

theorem readMessage_inv (S : Suite) (hs : HS) (m : Bytes) (cap : Nat) (h : SymInv hs.sym) :
    SymInv (hs.readMessage S m cap).2.1.sym := by
  have hi := readInner_inv S hs m cap h
  unfold readMessage
  simp only
  repeat' split
  all_goals first
    | exact hi
    | exact Sym.inv_restore _ hs.sym h

theorem setPsk_inv (hs : HS) (loc : Nat) (key : Bytes) (h : SymInv hs.sym) : SymInv (hs.setPsk loc key).2.sym := by
  unfold setPsk; split <;> exact h

end SnowVerif.Model.HS
