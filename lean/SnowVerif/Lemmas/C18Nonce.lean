/-
  Lemmas for C18: the 64-bit counter encodings `le64` / `be64` are injective
  (a left inverse is given), hence so are snow's three AEAD nonce layouts.
-/
import SnowVerif.Crypto.Real

namespace SnowVerif.C18
open SnowVerif Bytes
set_option linter.unusedVariables false
set_option linter.unusedSimpArgs false

/-- `u64::to_le_bytes` spelled out byte by byte. -/
theorem le64_eq (n : UInt64) : le64 n =
    [n.toUInt8, (n >>> 8).toUInt8, (n >>> 16).toUInt8, (n >>> 24).toUInt8,
     (n >>> 32).toUInt8, (n >>> 40).toUInt8, (n >>> 48).toUInt8, (n >>> 56).toUInt8] := by
  have h0 : n >>> (8 * (0 : Nat).toUInt64) = n := by
    show n >>> 0 = n
    simp
  unfold le64
  simp only [List.range, List.range.loop, List.map_cons, List.map_nil, h0]
  rfl

theorem length_le64 (n : UInt64) : (le64 n).length = 8 := by
  simp [le64]

theorem length_be64 (n : UInt64) : (be64 n).length = 8 := by
  simp [be64, length_le64]

/-- The `k`-th byte of `n` as a number. -/
theorem toNat_byte (n k : UInt64) (hk : k.toNat < 64) :
    ((n >>> k).toUInt8).toNat = n.toNat / 2 ^ k.toNat % 256 := by
  rw [UInt64.toNat_toUInt8, UInt64.toNat_shiftRight, Nat.mod_eq_of_lt hk, Nat.shiftRight_eq_div_pow]

/-- `u64::from_le_bytes` on the first 8 bytes (missing bytes read as 0). -/
def unLe64 (b : Bytes) : UInt64 :=
  UInt64.ofNat
    ((b.getD 0 0).toNat + (b.getD 1 0).toNat * 2 ^ 8 + (b.getD 2 0).toNat * 2 ^ 16
      + (b.getD 3 0).toNat * 2 ^ 24 + (b.getD 4 0).toNat * 2 ^ 32 + (b.getD 5 0).toNat * 2 ^ 40
      + (b.getD 6 0).toNat * 2 ^ 48 + (b.getD 7 0).toNat * 2 ^ 56)

/-- A 64-bit number is the sum of its eight bytes, each at its place. -/
theorem nat_bytes_sum (x : Nat) (h : x < 2 ^ 64) :
    x % 256 + x / 2 ^ 8 % 256 * 2 ^ 8 + x / 2 ^ 16 % 256 * 2 ^ 16 + x / 2 ^ 24 % 256 * 2 ^ 24
      + x / 2 ^ 32 % 256 * 2 ^ 32 + x / 2 ^ 40 % 256 * 2 ^ 40 + x / 2 ^ 48 % 256 * 2 ^ 48
      + x / 2 ^ 56 % 256 * 2 ^ 56 = x := by
  omega

/-- `from_le_bytes (to_le_bytes n) = n` for every 64-bit `n`. -/
theorem unLe64_le64 (n : UInt64) : unLe64 (le64 n) = n := by
  rw [le64_eq]
  unfold unLe64
  simp only [List.getD_cons_zero, List.getD_cons_succ]
  have e0 : n.toUInt8.toNat = n.toNat % 256 := UInt64.toNat_toUInt8 n
  rw [e0, toNat_byte n 8 (by decide), toNat_byte n 16 (by decide), toNat_byte n 24 (by decide),
    toNat_byte n 32 (by decide), toNat_byte n 40 (by decide), toNat_byte n 48 (by decide),
    toNat_byte n 56 (by decide)]
  have e8 : (8 : UInt64).toNat = 8 := rfl
  have e16 : (16 : UInt64).toNat = 16 := rfl
  have e24 : (24 : UInt64).toNat = 24 := rfl
  have e32 : (32 : UInt64).toNat = 32 := rfl
  have e40 : (40 : UInt64).toNat = 40 := rfl
  have e48 : (48 : UInt64).toNat = 48 := rfl
  have e56 : (56 : UInt64).toNat = 56 := rfl
  rw [e8, e16, e24, e32, e40, e48, e56, nat_bytes_sum n.toNat n.toNat_lt]
  exact UInt64.ofNat_toNat

/-- Little-endian encoding of the counter is injective on all of `u64`. -/
theorem le64_injective {a b : UInt64} (h : le64 a = le64 b) : a = b := by
  rw [← unLe64_le64 a, ← unLe64_le64 b, h]

/-- `u64::from_be_bytes`. -/
def unBe64 (b : Bytes) : UInt64 := unLe64 (b.take 8).reverse

theorem unBe64_be64 (n : UInt64) : unBe64 (be64 n) = n := by
  unfold unBe64
  rw [List.take_of_length_le (by rw [length_be64]; exact Nat.le_refl 8)]
  unfold be64
  rw [List.reverse_reverse, unLe64_le64]

/-- Big-endian encoding of the counter is injective on all of `u64`. -/
theorem be64_injective {a b : UInt64} (h : be64 a = be64 b) : a = b := by
  rw [← unBe64_be64 a, ← unBe64_be64 b, h]

end SnowVerif.C18
