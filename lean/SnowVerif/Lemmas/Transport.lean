/-
  Helper definitions and evaluation lemmas for the transport state
  (transportstate.rs / stateless_transportstate.rs).
-/
import SnowVerif.Lemmas.Cipher

namespace SnowVerif.Model.TS
open SnowVerif SnowVerif.Model
set_option linter.unusedSimpArgs false
set_option linter.unusedVariables false

/-- The cipher state this endpoint sends with / receives with. -/
def sendCs (ts : TS) : CipherState := if ts.initiator then ts.cs1 else ts.cs2
def recvCs (ts : TS) : CipherState := if ts.initiator then ts.cs2 else ts.cs1
def withSend (ts : TS) (cs : CipherState) : TS :=
  if ts.initiator then { ts with cs1 := cs } else { ts with cs2 := cs }
def withRecv (ts : TS) (cs : CipherState) : TS :=
  if ts.initiator then { ts with cs2 := cs } else { ts with cs1 := cs }

theorem writeMessage_eq (S : Suite) (ts : TS) (p : Bytes) (cap : Nat) :
    ts.writeMessage S p cap =
      if !ts.initiator && ts.oneway then (.err (.state .oneWay), ts, [])
      else if p.length + 16 > 65535 || p.length + 16 > cap then (.err .input, ts, [])
      else ((ts.sendCs.encryptAd S [] p cap).1, ts.withSend (ts.sendCs.encryptAd S [] p cap).2.1,
            (ts.sendCs.encryptAd S [] p cap).2.2) := by
  unfold writeMessage sendCs withSend
  cases ts.initiator <;> simp

theorem readMessage_eq (S : Suite) (ts : TS) (m : Bytes) (cap : Nat) :
    ts.readMessage S m cap =
      if m.length > 65535 then (.err .input, ts, [], [])
      else if ts.initiator && ts.oneway then (.err (.state .oneWay), ts, [], [])
      else ((ts.recvCs.decryptAd S [] m cap).1, ts.withRecv (ts.recvCs.decryptAd S [] m cap).2.1,
            (ts.recvCs.decryptAd S [] m cap).2.2.1, (ts.recvCs.decryptAd S [] m cap).2.2.2) := by
  unfold readMessage recvCs withRecv
  cases ts.initiator <;> simp

@[simp] theorem sendingNonce_eq (ts : TS) : ts.sendingNonce = ts.sendCs.n := by
  unfold sendingNonce sendCs; cases ts.initiator <;> rfl
@[simp] theorem receivingNonce_eq (ts : TS) : ts.receivingNonce = ts.recvCs.n := by
  unfold receivingNonce recvCs; cases ts.initiator <;> rfl

@[simp] theorem sendCs_withSend (ts : TS) (cs : CipherState) : (ts.withSend cs).sendCs = cs := by
  unfold withSend sendCs; cases h : ts.initiator <;> simp [h]
@[simp] theorem recvCs_withSend (ts : TS) (cs : CipherState) : (ts.withSend cs).recvCs = ts.recvCs := by
  unfold withSend recvCs; cases h : ts.initiator <;> simp [h]
@[simp] theorem recvCs_withRecv (ts : TS) (cs : CipherState) : (ts.withRecv cs).recvCs = cs := by
  unfold withRecv recvCs; cases h : ts.initiator <;> simp [h]
@[simp] theorem sendCs_withRecv (ts : TS) (cs : CipherState) : (ts.withRecv cs).sendCs = ts.sendCs := by
  unfold withRecv sendCs; cases h : ts.initiator <;> simp [h]
@[simp] theorem initiator_withSend (ts : TS) (cs : CipherState) : (ts.withSend cs).initiator = ts.initiator := by
  unfold withSend; cases h : ts.initiator <;> simp [h]
@[simp] theorem initiator_withRecv (ts : TS) (cs : CipherState) : (ts.withRecv cs).initiator = ts.initiator := by
  unfold withRecv; cases h : ts.initiator <;> simp [h]
@[simp] theorem oneway_withSend (ts : TS) (cs : CipherState) : (ts.withSend cs).oneway = ts.oneway := by
  unfold withSend; cases h : ts.initiator <;> simp [h]
@[simp] theorem oneway_withRecv (ts : TS) (cs : CipherState) : (ts.withRecv cs).oneway = ts.oneway := by
  unfold withRecv; cases h : ts.initiator <;> simp [h]
@[simp] theorem rs_withSend (ts : TS) (cs : CipherState) : (ts.withSend cs).rs = ts.rs := by
  unfold withSend; cases h : ts.initiator <;> simp [h]
@[simp] theorem rs_withRecv (ts : TS) (cs : CipherState) : (ts.withRecv cs).rs = ts.rs := by
  unfold withRecv; cases h : ts.initiator <;> simp [h]
theorem withSend_self (ts : TS) : ts.withSend ts.sendCs = ts := by
  cases ts with | mk a b c d e f => cases f <;> simp [withSend, sendCs]
theorem withRecv_self (ts : TS) : ts.withRecv ts.recvCs = ts := by
  cases ts with | mk a b c d e f => cases f <;> simp [withRecv, recvCs]

theorem setReceivingNonce_eq (ts : TS) (n : UInt64) :
    ts.setReceivingNonce n = ts.withRecv { ts.recvCs with n := n } := by
  unfold setReceivingNonce withRecv recvCs; cases h : ts.initiator <;> simp

theorem setSendingNonce_eq (ts : TS) (n : UInt64) :
    ts.setSendingNonce n = ts.withSend { ts.sendCs with n := n } := by
  unfold setSendingNonce withSend sendCs; cases h : ts.initiator <;> simp

end SnowVerif.Model.TS
