/-
  Helper definitions and evaluation lemmas for the transport state
  (transportstate.rs / stateless_transportstate.rs).
-/
import SnowVerif.Lemmas.Cipher

namespace SnowVerif.Model.TS
open SnowVerif SnowVerif.Model
set_option linter.unusedSimpArgs false
set_option linter.unusedVariables false

/-- The cipher state this endpoint sends with / receives with. -/
def sendCs (ts : TS) : CipherState := if ts.initiator then ts.cs1 else ts.cs2
def recvCs (ts : TS) : CipherState := if ts.initiator then ts.cs2 else ts.cs1
def withSend (ts : TS) (cs : CipherState) : TS :=
  if ts.initiator then { ts with cs1 := cs } else { ts with cs2 := cs }
def withRecv (ts : TS) (cs : CipherState) : TS :=
  if ts.initiator then { ts with cs2 := cs } else { ts with cs1 := cs }

theorem writeMessage_eq (S : Suite) (ts : TS) (p : Bytes) (cap : Nat) :
    ts.writeMessage S p cap =
      if !ts.initiator && ts.oneway then (.err (.state .oneWay), ts, [])
      else if p.length + 16 > 65535 || p.length + 16 > cap then (.err .input, ts, [])
      else ((ts.sendCs.encryptAd S [] p cap).1, ts.withSend (ts.sendCs.encryptAd S [] p cap).2.1,
            (ts.sendCs.encryptAd S [] p cap).2.2) := by
  unfold writeMessage sendCs withSend
  cases ts.initiator <;> simp

theorem readMessage_eq (S : Suite) (ts : TS) (m : Bytes) (cap : Nat) :
    ts.readMessage S m cap =
      if m.length > 65535 then (.err .input, ts, [], [])
      else if ts.initiator && ts.oneway then (.err (.state .oneWay), ts, [], [])
      else ((ts.recvCs.decryptAd S [] m cap).1, ts.withRecv (ts.recvCs.decryptAd S [] m cap).2.1,
            (ts.recvCs.decryptAd S [] m cap).2.2.1, (ts.recvCs.decryptAd S [] m cap).2.2.2) := by
  unfold readMessage recvCs withRecv
  cases ts.initiator <;> simp

@[simp] theorem sendingNonce_eq (ts : TS) : ts.sendingNonce = ts.sendCs.n := by
  unfold sendingNonce sendCs; cases ts.initiator <;> rfl
@[simp] theorem receivingNonce_eq (ts : TS) : ts.receivingNonce = ts.recvCs.n := by
  unfold receivingNonce recvCs; cases ts.initiator <;> rfl

@[simp] theorem sendCs_withSend (ts : TS) (cs : CipherState) : (ts.withSend cs).sendCs = cs := by
  unfold withSend sendCs; cases h : ts.initiator <;> simp [h]
@[simp] theorem recvCs_withSend (ts : TS) (cs : CipherState) : (ts.withSend cs).recvCs = ts.recvCs := by
  unfold withSend recvCs; cases h : ts.initiator <;> simp [h]
@[simp] theorem recvCs_withRecv (ts : TS) (cs : CipherState) : (ts.withRecv cs).recvCs = cs := by
  unfold withRecv recvCs; cases h : ts.initiator <;> simp [h]
@[simp] theorem sendCs_withRecv (ts : TS) (cs : CipherState) : (ts.withRecv cs).sendCs = ts.sendCs := by
  unfold withRecv sendCs; cases h : ts.initiator <;> simp [h]
@[simp] theorem initiator_withSend (ts : TS) (cs : CipherState) : (ts.withSend cs).initiator = ts.initiator := by
  unfold withSend; cases h : ts.initiator <;> simp [h]
@[simp] theorem initiator_withRecv (ts : TS) (cs : CipherState) : (ts.withRecv cs).initiator = ts.initiator := by
  unfold withRecv; cases h : ts.initiator <;> simp [h]
@[simp] theorem oneway_withSend (ts : TS) (cs : CipherState) : (ts.withSend cs).oneway = ts.oneway := by
  unfold withSend; cases h : ts.initiator <;> simp [h]
@[simp] theorem oneway_withRecv (ts : TS) (cs : CipherState) : (ts.withRecv cs).oneway = ts.oneway := by
  unfold withRecv; cases h : ts.initiator <;> simp [h]
@[simp] theorem rs_withSend (ts : TS) (cs : CipherState) : (ts.withSend cs).rs = ts.rs := by
  unfold withSend; cases h : ts.initiator <;> simp [h]
@[simp] theorem rs_withRecv (ts : TS) (cs : CipherState) : (ts.withRecv cs).rs = ts.rs := by
  unfold withRecv; cases h : ts.initiator <;> simp [h]
theorem withSend_self (ts : TS) : ts.withSend ts.sendCs = ts := by
  cases ts with | mk a b c d e f => cases f <;> simp [withSend, sendCs]
theorem withRecv_self (ts : TS) : ts.withRecv ts.recvCs = ts := by
  cases ts with | mk a b c d e f => cases f <;> simp [withRecv, recvCs]

theorem setReceivingNonce_eq (ts : TS) (n : UInt64) :
    ts.setReceivingNonce n = ts.withRecv { ts.recvCs with n := n } := by
  unfold setReceivingNonce withRecv recvCs; cases h : ts.initiator <;> simp

theorem setSendingNonce_eq (ts : TS) (n : UInt64) :
    ts.setSendingNonce n = ts.withSend { ts.sendCs with n := n } := by
  unfold setSendingNonce withSend sendCs; cases h : ts.initiator <;> simp

abbrev MAXN : UInt64 := CipherState.nonceMax

/-- Transport states that can receive / send: keys installed (always true after `split`) and not
    the forbidden side of a one-way pattern (C11). -/
def CanRecv (ts : TS) : Prop :=
  ts.recvCs.hasKey = true ∧ ¬ (ts.initiator = true ∧ ts.oneway = true)

def Guards (ts : TS) (d : Bytes) (cap : Nat) : Prop :=
  d.length ≤ 65535 ∧ 16 ≤ d.length ∧ d.length - 16 ≤ cap ∧ ts.recvCs.n ≠ MAXN

instance (ts : TS) (d : Bytes) (cap : Nat) : Decidable (Guards ts d cap) := by unfold Guards; infer_instance

theorem read_guards_ok (S : Suite) (ts : TS) (d : Bytes) (cap : Nat) (h : CanRecv ts) (g : Guards ts d cap) :
    ts.readMessage S d cap =
      match S.dec ts.recvCs.key ts.recvCs.n [] d with
      | none => (.err .decrypt, ts, S.decFailBuf d cap, [.dec ts.recvCs.key ts.recvCs.n [] d false])
      | some p => (.ok p, ts.withRecv { ts.recvCs with n := ts.recvCs.n + 1 }, S.decOkBuf d p cap,
                   [.dec ts.recvCs.key ts.recvCs.n [] d true]) := by
  obtain ⟨hk, hw⟩ := h
  obtain ⟨hl, h16, hc, hn⟩ := g
  have h1 : (ts.initiator && ts.oneway) = false := by
    cases hi : ts.initiator <;> cases ho : ts.oneway <;> simp_all
  have h0 : ¬ d.length > 65535 := by omega
  rw [readMessage_eq, CipherState.decryptAd_eval h16 hc hk hn]
  simp only [h0, h1, ↓reduceIte, Bool.false_eq_true]
  cases S.dec ts.recvCs.key ts.recvCs.n [] d with
  | none => simp [withRecv_self]
  | some p => simp

theorem read_guards_fail (S : Suite) (ts : TS) (d : Bytes) (cap : Nat) (h : CanRecv ts) (g : ¬ Guards ts d cap) :
    ∃ e, ts.readMessage S d cap = (.err e, ts, [], []) := by
  obtain ⟨hk, hw⟩ := h
  have h1 : (ts.initiator && ts.oneway) = false := by
    cases hi : ts.initiator <;> cases ho : ts.oneway <;> simp_all
  rw [readMessage_eq]
  by_cases h0 : d.length > 65535
  · exact ⟨.input, by simp [h0]⟩
  · simp only [h0, h1, ↓reduceIte, Bool.false_eq_true]
    unfold CipherState.decryptAd
    by_cases c1 : d.length < 16 ∨ cap < d.length - 16
    · have : (decide (d.length < 16) || decide (cap < d.length - 16)) = true := by simpa using c1
      exact ⟨.decrypt, by simp [this, withRecv_self]⟩
    · have c1' : (decide (d.length < 16) || decide (cap < d.length - 16)) = false := by
        simpa using c1
      have hnn : ts.recvCs.n = MAXN := by
        apply Classical.byContradiction
        intro hne
        exact g ⟨by omega, by omega, by omega, hne⟩
      exact ⟨.state .exhausted, by simp [c1', hk, hnn, MAXN, withRecv_self]⟩


def CanSend (ts : TS) : Prop :=
  ts.sendCs.hasKey = true ∧ ¬ (ts.initiator = false ∧ ts.oneway = true)

def WGuards (ts : TS) (p : Bytes) (cap : Nat) : Prop :=
  p.length + 16 ≤ 65535 ∧ p.length + 16 ≤ cap ∧ ts.sendCs.n ≠ MAXN

theorem write_guards_ok (S : Suite) (ts : TS) (p : Bytes) (cap : Nat) (h : CanSend ts) (g : WGuards ts p cap) :
    ts.writeMessage S p cap =
      (.ok (S.enc ts.sendCs.key ts.sendCs.n [] p), ts.withSend { ts.sendCs with n := ts.sendCs.n + 1 },
       [.enc ts.sendCs.key ts.sendCs.n [] p]) := by
  obtain ⟨hk, hw⟩ := h
  obtain ⟨hl, hc, hn⟩ := g
  have h1 : (!ts.initiator && ts.oneway) = false := by
    cases hi : ts.initiator <;> cases ho : ts.oneway <;> simp_all
  have h2 : (decide (p.length + 16 > 65535) || decide (p.length + 16 > cap)) = false := by
    simp; omega
  rw [writeMessage_eq, CipherState.encryptAd_eval hk hn hc]
  simp only [h1, h2, ↓reduceIte, Bool.false_eq_true]

theorem write_guards_fail (S : Suite) (ts : TS) (p : Bytes) (cap : Nat) (h : CanSend ts) (g : ¬ WGuards ts p cap) :
    ∃ e, ts.writeMessage S p cap = (.err e, ts, []) := by
  obtain ⟨hk, hw⟩ := h
  have h1 : (!ts.initiator && ts.oneway) = false := by
    cases hi : ts.initiator <;> cases ho : ts.oneway <;> simp_all
  rw [writeMessage_eq]
  by_cases h2 : p.length + 16 > 65535 ∨ p.length + 16 > cap
  · have : (decide (p.length + 16 > 65535) || decide (p.length + 16 > cap)) = true := by simpa using h2
    exact ⟨.input, by simp only [h1, this, ↓reduceIte, Bool.false_eq_true]⟩
  · have h2' : (decide (p.length + 16 > 65535) || decide (p.length + 16 > cap)) = false := by simpa using h2
    have hnn : ts.sendCs.n = MAXN := by
      apply Classical.byContradiction
      intro hne
      exact g ⟨by omega, by omega, hne⟩
    refine ⟨.state .exhausted, ?_⟩
    simp only [h1, h2', ↓reduceIte, Bool.false_eq_true]
    unfold CipherState.encryptAd
    simp [hk, hnn, MAXN, withSend_self]

end SnowVerif.Model.TS
