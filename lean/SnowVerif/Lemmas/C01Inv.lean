/-
  C01 (state-machine part): the chaining key keeps `hash_len` bytes along EVERY call of the
  handshake API (failed calls included), for every suite whose hash returns `hashLen` bytes.
-/
import SnowVerif.Lemmas.C01Side
import SnowVerif.Theorems.C14

namespace SnowVerif.C01
open SnowVerif SnowVerif.Model SnowVerif.Model.HS SnowVerif.Bytes SnowVerif.Framing
set_option linter.unusedVariables false
set_option linter.unusedSimpArgs false

theorem ck_pskStep (S : Suite) (hL : S.HashLen) (hs : HS) (n : Nat) (h : CkLen S hs.sym) :
    CkLen S (pskStep S hs n).2.sym := by
  unfold pskStep
  repeat' split
  all_goals first | exact h | exact mixKeyAndHash_ck S hL _ _

theorem ck_dhStep (S : Suite) (hL : S.HashLen) (hs : HS) (t : Tok) (h : CkLen S hs.sym) :
    CkLen S (dhStep S hs t).2.sym := by
  unfold dhStep
  repeat' split
  all_goals first | exact h | exact mixKey_ck S hL _ _

theorem ck_writeTok (S : Suite) (hL : S.HashLen) (cap : Nat) (w : WS) (t : Tok) (h : CkLen S w.hs.sym) :
    CkLen S (writeTok S cap w t).2.hs.sym := by
  unfold writeTok
  cases t with
  | e =>
    simp only
    repeat' split
    all_goals first | exact h | exact mixKey_ck S hL _ _ | exact mixHash_ck S _ _ h
  | s =>
    simp only
    repeat' split
    all_goals first | exact h | exact encrypt_ck S _ _ _ h
  | psk n => exact ck_pskStep S hL w.hs n h
  | ee => exact ck_dhStep S hL w.hs _ h
  | es => exact ck_dhStep S hL w.hs _ h
  | se => exact ck_dhStep S hL w.hs _ h
  | ss => exact ck_dhStep S hL w.hs _ h

theorem ck_writeToks (S : Suite) (hL : S.HashLen) (cap : Nat) (ts : List Tok) (w : WS) (h : CkLen S w.hs.sym) :
    CkLen S (writeToks S cap ts w).2.hs.sym := by
  induction ts generalizing w with
  | nil => exact h
  | cons t ts ih =>
    unfold writeToks
    have h1 := ck_writeTok S hL cap w t h
    split
    · exact ih _ h1
    · exact h1

theorem ck_readTok (S : Suite) (hL : S.HashLen) (r : RS) (t : Tok) (h : CkLen S r.hs.sym) :
    CkLen S (readTok S r t).2.hs.sym := by
  unfold readTok
  cases t with
  | e =>
    simp only
    repeat' split
    all_goals first | exact h | exact mixKey_ck S hL _ _ | exact mixHash_ck S _ _ h
  | s =>
    simp only
    repeat' split
    all_goals first | exact h | exact decrypt_ck S _ _ _ h
  | psk n => exact ck_pskStep S hL r.hs n h
  | ee => exact ck_dhStep S hL r.hs _ h
  | es => exact ck_dhStep S hL r.hs _ h
  | se => exact ck_dhStep S hL r.hs _ h
  | ss => exact ck_dhStep S hL r.hs _ h

theorem ck_readToks (S : Suite) (hL : S.HashLen) (ts : List Tok) (r : RS) (h : CkLen S r.hs.sym) :
    CkLen S (readToks S ts r).2.hs.sym := by
  induction ts generalizing r with
  | nil => exact h
  | cons t ts ih =>
    unfold readToks
    have h1 := ck_readTok S hL r t h
    split
    · exact ih _ h1
    · exact h1

theorem ck_writeInner (S : Suite) (hL : S.HashLen) (hs : HS) (p : Bytes) (cap : Nat) (h : CkLen S hs.sym) :
    CkLen S (writeInner S hs p cap).2.hs.sym := by
  have hi := ck_writeToks S hL cap (hs.msgs.getD hs.pos []) { hs := hs, acc := [], ev := [] } h
  unfold writeInner
  simp only
  repeat' split
  all_goals first
    | exact h
    | exact hi
    | exact encrypt_ck S _ _ _ hi

theorem ck_readInner (S : Suite) (hL : S.HashLen) (hs : HS) (m : Bytes) (cap : Nat) (h : CkLen S hs.sym) :
    CkLen S (readInner S hs m cap).2.1.sym := by
  have hi := ck_readToks S hL (hs.msgs.getD hs.pos []) { hs := hs, ptr := m, ev := [] } h
  unfold readInner
  simp only
  repeat' split
  all_goals first
    | exact h
    | exact hi
    | exact decrypt_ck S _ _ _ hi

theorem ck_restore (S : Suite) (st cp0 : Sym) (h : CkLen S cp0) : CkLen S (st.restore cp0.checkpoint) := h

/-- Every handshake operation, whatever its outcome, keeps the chaining key `hash_len` bytes long. -/
theorem ck_step (S : Suite) (hL : S.HashLen) (hs : HS) (op : Theorems.C11.Op) (h : CkLen S hs.sym) :
    CkLen S (Theorems.C11.step S hs op).sym := by
  cases op with
  | write p cap =>
    simp only [Theorems.C11.step]
    have hi := ck_writeInner S hL hs p cap h
    unfold writeMessage
    simp only
    split
    · exact hi
    · simp only
      split <;> exact h
    · exact hi
  | read m cap =>
    simp only [Theorems.C11.step]
    have hi := ck_readInner S hL hs m cap h
    unfold readMessage
    simp only
    split
    · exact hi
    · exact h
    · exact hi
  | setPsk loc key =>
    simp only [Theorems.C11.step, HS.setPsk]
    split <;> exact h

theorem ck_run (S : Suite) (hL : S.HashLen) (hs : HS) (ops : List Theorems.C11.Op) (h : CkLen S hs.sym) :
    CkLen S (Theorems.C11.run S hs ops).sym := by
  induction ops generalizing hs with
  | nil => exact h
  | cons op ops ih => exact ih _ (ck_step S hL hs op h)

end SnowVerif.C01
