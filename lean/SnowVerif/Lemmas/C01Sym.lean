/-
  C01 (state-machine part): the abstraction from the model of `symmetricstate.rs` /
  `cipherstate.rs` to the specification's SymmetricState / CipherState, and the step lemmas:
  every operation of the model commutes with the abstraction and equals the specification's.
-/
import SnowVerif.Theorems.C18
import SnowVerif.Spec.Handshake
import SnowVerif.Lemmas.C14Read

namespace SnowVerif.C01
open SnowVerif SnowVerif.Model SnowVerif.Bytes
set_option linter.unusedVariables false
set_option linter.unusedSimpArgs false

/-- A cipher state of the model as a CipherState of the specification: "`k` is empty" is
    `has_key = false`. -/
def absCS (cs : Model.CipherState) : Spec.CipherState :=
  { k := if cs.hasKey then some cs.key else none, n := cs.n }

/-- The abstraction with a ghost flag `g`: "the specification's `k` is non-empty although snow's
    `has_key` is still false" (the state right after a `psk` token met un-keyed: snow's
    `mix_key_and_hash` installs the key in the cipher but does not set `has_key`). -/
def absSymG (g : Bool) (sym : Sym) : Spec.SymmetricState :=
  { cs := { k := if g || sym.hasKey then some sym.cs.key else none, n := sym.cs.n },
    ck := sym.ck, h := sym.h }

/-- **The abstraction**: `h`, `ck` as they are, `k` non-empty iff `has_key`, `n` the cipher's
    nonce. -/
def absSym (sym : Sym) : Spec.SymmetricState :=
  { cs := { k := if sym.hasKey then some sym.cs.key else none, n := sym.cs.n },
    ck := sym.ck, h := sym.h }

theorem absSymG_false (sym : Sym) : absSymG false sym = absSym sym := rfl

/-- Once `has_key` is set the ghost flag is immaterial. -/
theorem absSymG_keyed (g : Bool) (sym : Sym) (h : sym.hasKey = true) : absSymG g sym = absSym sym := by
  unfold absSymG absSym; simp only [h, Bool.or_true]

theorem absSymG_h (g : Bool) (sym : Sym) : (absSymG g sym).h = sym.h := rfl
theorem absSymG_ck (g : Bool) (sym : Sym) : (absSymG g sym).ck = sym.ck := rfl
theorem absSymG_n (g : Bool) (sym : Sym) : (absSymG g sym).cs.n = sym.cs.n := rfl
theorem absSymG_isSome (g : Bool) (sym : Sym) : (absSymG g sym).cs.k.isSome = (g || sym.hasKey) := by
  unfold absSymG; simp only; split <;> simp_all

/-! ### HKDF outputs -/

theorem spec_hkdf_len (S : Suite) (hL : S.HashLen) (ck ikm : Bytes) :
    (Spec.hkdf S ck ikm).1.length = S.hashLen ∧ (Spec.hkdf S ck ikm).2.1.length = S.hashLen ∧
    (Spec.hkdf S ck ikm).2.2.length = S.hashLen :=
  ⟨hL _, hL _, hL _⟩

/-- The chaining key snow keeps is always `hash_len` bytes long (invariant). -/
def CkLen (S : Suite) (sym : Sym) : Prop := sym.ck.length = S.hashLen

/-! ### Step lemmas -/

/-- `mix_hash` is the specification's `MixHash`. -/
theorem mixHash_abs (S : Suite) (g : Bool) (sym : Sym) (d : Bytes) :
    absSymG g (sym.mixHash S d) = (absSymG g sym).mixHash S d := rfl

theorem mixHash_ck (S : Suite) (sym : Sym) (d : Bytes) (h : CkLen S sym) : CkLen S (sym.mixHash S d) := h

/-- `mix_key` is the specification's `MixKey` (whatever the ghost flags: both sides end keyed). -/
theorem mixKey_abs (S : Suite) (hL : S.HashLen) (hS : S.Sizes) (g g' : Bool) (sym : Sym) (d : Bytes)
    (hck : CkLen S sym) :
    absSymG g' (sym.mixKey S d) = (absSymG g sym).mixKey S d := by
  have e := (Theorems.C18.hkdf_eq_spec_ck S hL hS sym.ck d hck).2
  have l := (spec_hkdf_len S hL sym.ck d).2.1
  unfold absSymG Sym.mixKey Spec.SymmetricState.mixKey CipherState.set
  simp only [e, Bool.or_true, ↓reduceIte]
  rw [Theorems.C18.key32_eq_take _ (by rw [l]; exact hS.1)]

theorem mixKey_ck (S : Suite) (hL : S.HashLen) (sym : Sym) (d : Bytes) : CkLen S (sym.mixKey S d) := by
  unfold CkLen Sym.mixKey hkdf2
  exact hL _

theorem mixKey_hasKey (S : Suite) (sym : Sym) (d : Bytes) : (sym.mixKey S d).hasKey = true := rfl

/-- `mix_key_and_hash` is the specification's `MixKeyAndHash`, PROVIDED the result is read with
    the ghost flag set or `has_key` was already true: the specification's `k` becomes non-empty,
    snow's `has_key` is left as it was. -/
theorem mixKeyAndHash_abs (S : Suite) (hL : S.HashLen) (hS : S.Sizes) (g g' : Bool) (sym : Sym) (d : Bytes)
    (hck : CkLen S sym) (hg : (g' || sym.hasKey) = true) :
    absSymG g' (sym.mixKeyAndHash S d) = (absSymG g sym).mixKeyAndHash S d := by
  have e := (Theorems.C18.hkdf_eq_spec_ck S hL hS sym.ck d hck).1
  have l := (spec_hkdf_len S hL sym.ck d).2.2
  unfold absSymG Sym.mixKeyAndHash Spec.SymmetricState.mixKeyAndHash Sym.mixHash
    Spec.SymmetricState.mixHash CipherState.set
  simp only [e, hg, ↓reduceIte]
  rw [Theorems.C18.key32_eq_take _ (by rw [l]; exact hS.1)]

theorem mixKeyAndHash_ck (S : Suite) (hL : S.HashLen) (sym : Sym) (d : Bytes) :
    CkLen S (sym.mixKeyAndHash S d) := by
  unfold CkLen Sym.mixKeyAndHash Sym.mixHash hkdf3
  exact hL _

theorem mixKeyAndHash_hasKey (S : Suite) (sym : Sym) (d : Bytes) :
    (sym.mixKeyAndHash S d).hasKey = sym.hasKey := rfl

/-- A successful `encrypt_and_mix_hash` returns the specification's `EncryptAndHash` bytes and
    state (whatever the capacity of the output slice was). -/
theorem encrypt_abs (S : Suite) (sym : Sym) (pt : Bytes) (cap : Nat) (c : Bytes)
    (h : (sym.encryptAndMixHash S pt cap).1 = .ok c) :
    (absSym sym).encryptAndHash S pt = (c, absSym (sym.encryptAndMixHash S pt cap).2.1) := by
  unfold Sym.encryptAndMixHash at h ⊢
  cases hk : sym.hasKey with
  | true =>
    simp only [hk, ↓reduceIte] at h ⊢
    cases hr : sym.cs.encryptAd S sym.h pt cap with
    | mk r rest =>
      obtain ⟨cs', ev⟩ := rest
      rw [hr] at h
      simp only at h
      subst h
      obtain ⟨_, _, _, rfl, rfl, _⟩ := CipherState.encryptAd_ok hr
      simp only [Spec.SymmetricState.encryptAndHash, absSym, hk, ↓reduceIte, Sym.mixHash,
        Spec.SymmetricState.mixHash]
  | false =>
    simp only [hk, Bool.false_eq_true, ↓reduceIte] at h ⊢
    by_cases hc : cap < pt.length
    · simp [hc] at h
    · simp only [hc, ↓reduceIte, Res.ok.injEq] at h ⊢
      subst h
      simp only [Spec.SymmetricState.encryptAndHash, absSym, hk, Bool.false_eq_true, ↓reduceIte,
        Sym.mixHash, Spec.SymmetricState.mixHash]

theorem encrypt_ck (S : Suite) (sym : Sym) (pt : Bytes) (cap : Nat) (h : CkLen S sym) :
    CkLen S (sym.encryptAndMixHash S pt cap).2.1 := by
  unfold Sym.encryptAndMixHash CkLen
  simp only
  repeat' split
  all_goals exact h

/-- A successful `decrypt_and_mix_hash` returns the specification's `DecryptAndHash` plaintext
    and state. -/
theorem decrypt_abs (S : Suite) (sym : Sym) (ct : Bytes) (cap : Nat) (p : Bytes)
    (h : (sym.decryptAndMixHash S ct cap).1 = .ok p) :
    (absSym sym).decryptAndHash S ct = some (p, absSym (sym.decryptAndMixHash S ct cap).2.1) := by
  unfold Sym.decryptAndMixHash at h ⊢
  cases hk : sym.hasKey with
  | true =>
    simp only [hk, ↓reduceIte] at h ⊢
    cases hr : sym.cs.decryptAd S sym.h ct cap with
    | mk r rest =>
      obtain ⟨cs', buf, ev⟩ := rest
      rw [hr] at h
      simp only at h
      subst h
      obtain ⟨_, _, _, _, hd, rfl, _, _⟩ := CipherState.decryptAd_ok hr
      simp only [Spec.SymmetricState.decryptAndHash, absSym, hk, ↓reduceIte, hd, Sym.mixHash,
        Spec.SymmetricState.mixHash]
  | false =>
    simp only [hk, Bool.false_eq_true, ↓reduceIte] at h ⊢
    by_cases hc : cap < ct.length
    · simp [hc] at h
    · simp only [hc, ↓reduceIte, Res.ok.injEq] at h ⊢
      subst h
      simp only [Spec.SymmetricState.decryptAndHash, absSym, hk, Bool.false_eq_true, ↓reduceIte,
        Sym.mixHash, Spec.SymmetricState.mixHash]

theorem decrypt_ck (S : Suite) (sym : Sym) (ct : Bytes) (cap : Nat) (h : CkLen S sym) :
    CkLen S (sym.decryptAndMixHash S ct cap).2.1 := by
  unfold Sym.decryptAndMixHash CkLen
  simp only
  repeat' split
  all_goals exact h

/-- `split` is the specification's `Split()`: the two transport keys, nonces 0, in this order. -/
theorem split_abs (S : Suite) (hL : S.HashLen) (hS : S.Sizes) (g : Bool) (sym : Sym) (hck : CkLen S sym) :
    (absCS (sym.split S).1, absCS (sym.split S).2) = (absSymG g sym).split S := by
  have e := (Theorems.C18.hkdf_eq_spec_ck S hL hS sym.ck [] hck).2
  have l := spec_hkdf_len S hL sym.ck []
  unfold Sym.split Spec.SymmetricState.split absCS CipherState.set absSymG
  simp only [e, ↓reduceIte]
  rw [Theorems.C18.key32_eq_take _ (by rw [l.1]; exact hS.1),
    Theorems.C18.key32_eq_take _ (by rw [l.2.1]; exact hS.1)]

/-- `SymmetricState::initialize(name)` is `InitializeSymmetric(protocol_name)`. -/
theorem init_abs (S : Suite) (g : Bool) (name : Bytes) :
    absSym (Sym.init S name) = Spec.SymmetricState.init S name := rfl

theorem init_ck (S : Suite) (hL : S.HashLen) (name : Bytes) : CkLen S (Sym.init S name) := by
  unfold CkLen Sym.init
  simp only
  split
  · rename_i h; exact C18.length_padTo _ _ h
  · exact hL _

end SnowVerif.C01
