/-
  C01 (state-machine part): whole messages. A successful `write_message` / `read_message` of the
  model is the specification's `WriteMessage` / `ReadMessage` on the abstract state.
-/
import SnowVerif.Lemmas.C01Read

namespace SnowVerif.C01
open SnowVerif SnowVerif.Model SnowVerif.Model.HS SnowVerif.Bytes SnowVerif.Framing
set_option linter.unusedVariables false
set_option linter.unusedSimpArgs false

/-- The successor session of a successful `_write_message`, given the state after the token loop. -/
def writeFinish (S : Suite) (w : WS) (p : Bytes) (cap : Nat) : HS :=
  let hs1 : HS := { w.hs with sym := (w.hs.sym.encryptAndMixHash S p (cap - w.acc.length)).2.1 }
  if hs1.pos == hs1.msgs.length - 1 then
    { hs1 with cs1 := (hs1.sym.split S).1, cs2 := (hs1.sym.split S).2 }
  else hs1

theorem writeInner_ok_shape (S : Suite) (hs : HS) (p : Bytes) (cap : Nat) (n : Nat)
    (h : (writeInner S hs p cap).1 = .ok n) :
    (writeToks S cap (hs.msgs.getD hs.pos []) { hs := hs, acc := [], ev := [] }).1 = .ok () ∧
    ∃ ct, ((writeToks S cap (hs.msgs.getD hs.pos []) { hs := hs, acc := [], ev := [] }).2.hs.sym.encryptAndMixHash S p
            (cap - (writeToks S cap (hs.msgs.getD hs.pos []) { hs := hs, acc := [], ev := [] }).2.acc.length)).1 = .ok ct ∧
      n = (writeToks S cap (hs.msgs.getD hs.pos []) { hs := hs, acc := [], ev := [] }).2.acc.length + ct.length ∧
      (writeInner S hs p cap).2.acc = (writeToks S cap (hs.msgs.getD hs.pos []) { hs := hs, acc := [], ev := [] }).2.acc ++ ct ∧
      (writeInner S hs p cap).2.hs =
        writeFinish S (writeToks S cap (hs.msgs.getD hs.pos []) { hs := hs, acc := [], ev := [] }).2 p cap := by
  obtain ⟨ht, hp⟩ := writeInner_turn S hs p cap n h
  have hp' : ¬ hs.pos ≥ hs.msgs.length := by omega
  unfold writeInner at h ⊢
  simp only [ht, hp', Bool.not_true, Bool.false_eq_true, ↓reduceIte] at h ⊢
  generalize hW : writeToks S cap (hs.msgs.getD hs.pos []) { hs := hs, acc := [], ev := [] } = W at h ⊢
  obtain ⟨r, w⟩ := W
  simp only at h ⊢
  cases r with
  | err e => simp only [reduceCtorEq] at h
  | panic q => simp only [reduceCtorEq] at h
  | ok u =>
    simp only at h ⊢
    by_cases g1 : w.acc.length + p.length + 16 > cap
    · simp only [g1, ↓reduceIte, reduceCtorEq] at h
    · by_cases g2 : w.acc.length + p.length + (if w.hs.sym.hasKey then 16 else 0) > 65535
      · simp only [g1, g2, ↓reduceIte, reduceCtorEq] at h
      · simp only [g1, g2, ↓reduceIte] at h ⊢
        cases he : (w.hs.sym.encryptAndMixHash S p (cap - w.acc.length)).1 with
        | err e => simp only [he, reduceCtorEq] at h
        | panic q => simp only [he, reduceCtorEq] at h
        | ok ct =>
          simp only [he, Res.ok.injEq] at h ⊢
          refine ⟨trivial, ct, rfl, h.symm, rfl, ?_⟩
          unfold writeFinish
          rfl

/-- The abstraction of the state a successful `write_message` returns. -/
theorem absHS_writeFinish (S : Suite) (w : WS) (p : Bytes) (cap : Nat) :
    absHS { writeFinish S w p cap with pos := (writeFinish S w p cap).pos + 1, myTurn := false } =
      { absHS w.hs with ss := absSym (w.hs.sym.encryptAndMixHash S p (cap - w.acc.length)).2.1,
                        msgs := w.hs.msgs.drop (w.hs.pos + 1) } := by
  unfold writeFinish
  simp only
  split <;> rfl

theorem writeFinish_frame (S : Suite) (w : WS) (p : Bytes) (cap : Nat) :
    (writeFinish S w p cap).e = w.hs.e ∧ (writeFinish S w p cap).pos = w.hs.pos ∧
    (writeFinish S w p cap).msgs = w.hs.msgs ∧
    (writeFinish S w p cap).sym = (w.hs.sym.encryptAndMixHash S p (cap - w.acc.length)).2.1 := by
  unfold writeFinish
  simp only
  split <;> exact ⟨rfl, rfl, rfl, rfl⟩

theorem writeFinish_split (S : Suite) (w : WS) (p : Bytes) (cap : Nat) (h : w.hs.pos + 1 = w.hs.msgs.length) :
    (writeFinish S w p cap).cs1 = ((w.hs.sym.encryptAndMixHash S p (cap - w.acc.length)).2.1.split S).1 ∧
    (writeFinish S w p cap).cs2 = ((w.hs.sym.encryptAndMixHash S p (cap - w.acc.length)).2.1.split S).2 := by
  unfold writeFinish
  have : (w.hs.pos == w.hs.msgs.length - 1) = true := by simp; omega
  simp only [this, ↓reduceIte, and_self]

theorem drop_pos (l : List (List Tok)) (i : Nat) (h : i < l.length) : l.drop i = l.getD i [] :: l.drop (i + 1) := by
  rw [List.drop_eq_getElem_cons h]
  simp [h]

/-- The refinement relation between a state of snow and a state of the specification: the
    specification's state is the abstraction of snow's, and snow's chaining key has `hash_len`
    bytes. -/
def Refines (S : Suite) (hs : HS) (sp : Spec.HandshakeState) : Prop := sp = absHS hs ∧ CkLen S hs.sym

theorem writeMessage_refines (S : Suite) (hL : S.HashLen) (hS : S.Sizes) (hs : HS) (p : Bytes) (cap : Nat)
    (n : Nat) (hs' : HS) (acc : Bytes) (ev : List Event)
    (hck : CkLen S hs.sym)
    (hok : PskOk hs.isPsk (hs.msgs.getD hs.pos []) hs.sym.hasKey = true)
    (h1e : (hs.msgs.getD hs.pos []).count .e ≤ 1)
    (h : hs.writeMessage S p cap = (.ok n, hs', acc, ev)) :
    Spec.HandshakeState.writeMessage S (absHS hs) p (absKP hs'.e.val) =
      some (acc, absHS hs',
            if hs'.isHandshakeFinished then some (absCS hs'.cs1, absCS hs'.cs2) else none) ∧
    CkLen S hs'.sym ∧ n = acc.length ∧
    Spec.HandshakeState.writePayloadEncrypted S (absHS hs) (absKP hs'.e.val) = some hs'.wasWritePayloadEncrypted := by
  unfold writeMessage at h
  simp only at h
  cases hr : (writeInner S hs p cap).1 with
  | err e => simp [hr] at h
  | panic q => simp [hr] at h
  | ok k =>
    simp only [hr, Prod.mk.injEq, Res.ok.injEq] at h
    obtain ⟨hn, hhs', hacc', hev'⟩ := h
    subst hn
    obtain ⟨ht, hp⟩ := writeInner_turn S hs p cap k hr
    obtain ⟨hW, ct, hct, hk, hacc, hhs⟩ := writeInner_ok_shape S hs p cap k hr
    have hf := writeToks_frame S cap (hs.msgs.getD hs.pos []) { hs := hs, acc := [], ev := [] }
    obtain ⟨b, r1, r2, r3⟩ := writeToks_refines S hL hS cap (hs.msgs.getD hs.pos []) { hs := hs, acc := [], ev := [] }
      false hck (transient_false _ _) hok h1e hW
    generalize writeToks S cap (hs.msgs.getD hs.pos []) { hs := hs, acc := [], ev := [] } = W at *
    obtain ⟨rW, w⟩ := W
    simp only at hW hct hk hacc hhs hf r1 r2 r3
    simp only [List.nil_append] at r2
    subst r2
    have henc := encrypt_abs S w.hs.sym p (cap - w.acc.length) ct hct
    have hfr := writeFinish_frame S w p cap
    have hm : (absHS hs).msgs = hs.msgs.getD hs.pos [] :: hs.msgs.drop (hs.pos + 1) := drop_pos _ _ hp
    rw [hhs] at hhs'
    rw [hacc] at hacc'
    have a1 : hs'.e = w.hs.e := by rw [← hhs']; exact hfr.1
    have a2 : absHS hs' =
        { absHS w.hs with
          ss := absSym (w.hs.sym.encryptAndMixHash S p (cap - w.acc.length)).2.1
          msgs := hs.msgs.drop (hs.pos + 1) } := by
      rw [← hhs', absHS_writeFinish, hf.msgs, hf.pos]
    have a3 : hs'.isHandshakeFinished = (hs.pos + 1 == hs.msgs.length) := by
      rw [← hhs']
      show ((writeFinish S w p cap).pos + 1 == (writeFinish S w p cap).msgs.length) = _
      rw [hfr.2.1, hfr.2.2.1, hf.pos, hf.msgs]
    have a5 : hs'.sym = (w.hs.sym.encryptAndMixHash S p (cap - w.acc.length)).2.1 := by
      rw [← hhs']; exact hfr.2.2.2
    have a4 : hs'.wasWritePayloadEncrypted = w.hs.sym.hasKey := by
      unfold HS.wasWritePayloadEncrypted
      rw [a5, Sym.encrypt_hasKey]
    have a6 : hs.pos + 1 = hs.msgs.length →
        hs'.cs1 = ((w.hs.sym.encryptAndMixHash S p (cap - w.acc.length)).2.1.split S).1 ∧
        hs'.cs2 = ((w.hs.sym.encryptAndMixHash S p (cap - w.acc.length)).2.1.split S).2 := by
      intro hl
      have hl' : w.hs.pos + 1 = w.hs.msgs.length := by rw [hf.msgs, hf.pos]; exact hl
      rw [← hhs']
      exact writeFinish_split S w p cap hl'
    rw [a1, a2, a3, a4, a5, ← hacc']
    simp only [absHSG_false] at r1
    have e1 : (absHS w.hs).ss = absSym w.hs.sym := rfl
    refine ⟨?_, encrypt_ck S _ _ _ r3, by rw [hk, List.length_append], ?_⟩
    · unfold Spec.HandshakeState.writeMessage
      rw [hm]
      simp only [r1, e1, henc]
      by_cases hl : hs.pos + 1 = hs.msgs.length
      · obtain ⟨c1, c2⟩ := a6 hl
        have e2 : (hs.msgs.drop (hs.pos + 1)).isEmpty = true := by
          rw [List.isEmpty_iff, List.drop_eq_nil_iff]; omega
        have e3 : (hs.pos + 1 == hs.msgs.length) = true := by simpa using hl
        rw [c1, c2]
        simp only [e2, ↓reduceIte, e3,
          split_abs S hL hS false _ (encrypt_ck S _ _ _ r3), absSymG_false]
      · have e2 : (hs.msgs.drop (hs.pos + 1)).isEmpty = false := by
          cases hx : (hs.msgs.drop (hs.pos + 1)).isEmpty with
          | false => rfl
          | true => rw [List.isEmpty_iff, List.drop_eq_nil_iff] at hx; omega
        have e3 : (hs.pos + 1 == hs.msgs.length) = false := by simpa using hl
        simp only [e2, Bool.false_eq_true, ↓reduceIte, e3]
    · unfold Spec.HandshakeState.writePayloadEncrypted
      rw [hm]
      simp only [r1, Option.map_some, absHS_hasKey]
/-- The successor session of a successful `_read_message`, given the state after the token loop
    (`hs` is the state before the call: `last` is computed from it). -/
def readFinish (S : Suite) (hs : HS) (r : RS) (cap : Nat) : HS :=
  let hs1 : HS := { r.hs with sym := (r.hs.sym.decryptAndMixHash S r.ptr cap).2.1 }
  if hs.pos == hs.msgs.length - 1 then
    { hs1 with cs1 := (hs1.sym.split S).1, cs2 := (hs1.sym.split S).2 }
  else hs1

theorem readInner_ok_shape (S : Suite) (hs : HS) (m : Bytes) (cap : Nat) (pl : Bytes)
    (h : (readInner S hs m cap).1 = .ok pl) :
    (readToks S (hs.msgs.getD hs.pos []) { hs := hs, ptr := m, ev := [] }).1 = .ok () ∧
    ∃ p0, ((readToks S (hs.msgs.getD hs.pos []) { hs := hs, ptr := m, ev := [] }).2.hs.sym.decryptAndMixHash S
            (readToks S (hs.msgs.getD hs.pos []) { hs := hs, ptr := m, ev := [] }).2.ptr cap).1 = .ok p0 ∧
      pl = p0.take ((readToks S (hs.msgs.getD hs.pos []) { hs := hs, ptr := m, ev := [] }).2.ptr.length -
        (if (readToks S (hs.msgs.getD hs.pos []) { hs := hs, ptr := m, ev := [] }).2.hs.sym.hasKey then 16 else 0)) ∧
      (readInner S hs m cap).2.1 =
        readFinish S hs (readToks S (hs.msgs.getD hs.pos []) { hs := hs, ptr := m, ev := [] }).2 cap := by
  obtain ⟨h0, ht, hp⟩ := readInner_turn S hs m cap pl h
  have h0' : ¬ m.length > 65535 := by omega
  have hp' : ¬ hs.pos ≥ hs.msgs.length := by omega
  unfold readInner at h ⊢
  simp only [h0', ht, hp', Bool.false_eq_true, ↓reduceIte] at h ⊢
  generalize hW : readToks S (hs.msgs.getD hs.pos []) { hs := hs, ptr := m, ev := [] } = W at h ⊢
  obtain ⟨r, w⟩ := W
  simp only at h ⊢
  cases r with
  | err e => simp only [reduceCtorEq] at h
  | panic q => simp only [reduceCtorEq] at h
  | ok u =>
    simp only at h ⊢
    cases hd : (w.hs.sym.decryptAndMixHash S w.ptr cap).1 with
    | err e => simp only [hd, reduceCtorEq] at h
    | panic q => simp only [hd, reduceCtorEq] at h
    | ok d =>
      simp only [hd, Res.ok.injEq] at h ⊢
      have hk : ∀ (c : Prop) [Decidable c] (x y : HS),
          (if c then x else y).sym.hasKey = if c then x.sym.hasKey else y.sym.hasKey := by
        intro c _ x y; split <;> rfl
      simp only [hk, ite_self, Sym.decrypt_hasKey] at h
      refine ⟨trivial, d, rfl, h.symm, ?_⟩
      unfold readFinish
      rfl

theorem absHS_readFinish (S : Suite) (hs : HS) (r : RS) (cap : Nat) :
    absHS { readFinish S hs r cap with pos := (readFinish S hs r cap).pos + 1, myTurn := true } =
      { absHS r.hs with ss := absSym (r.hs.sym.decryptAndMixHash S r.ptr cap).2.1,
                        msgs := r.hs.msgs.drop (r.hs.pos + 1) } := by
  unfold readFinish
  simp only
  split <;> rfl

theorem readFinish_frame (S : Suite) (hs : HS) (r : RS) (cap : Nat) :
    (readFinish S hs r cap).pos = r.hs.pos ∧ (readFinish S hs r cap).msgs = r.hs.msgs ∧
    (readFinish S hs r cap).sym = (r.hs.sym.decryptAndMixHash S r.ptr cap).2.1 := by
  unfold readFinish
  simp only
  split <;> exact ⟨rfl, rfl, rfl⟩

theorem readFinish_split (S : Suite) (hs : HS) (r : RS) (cap : Nat) (h : hs.pos + 1 = hs.msgs.length) :
    (readFinish S hs r cap).cs1 = ((r.hs.sym.decryptAndMixHash S r.ptr cap).2.1.split S).1 ∧
    (readFinish S hs r cap).cs2 = ((r.hs.sym.decryptAndMixHash S r.ptr cap).2.1.split S).2 := by
  unfold readFinish
  have : (hs.pos == hs.msgs.length - 1) = true := by simp; omega
  simp only [this, ↓reduceIte, and_self]

/-- Where the model truncates the payload to "rest of the message minus the tag", nothing is cut
    off: under `DecLen` the plaintext has exactly that length. -/
theorem payload_take (S : Suite) (hD : S.DecLen) (sym : Sym) (ct : Bytes) (cap : Nat) (p0 : Bytes)
    (h : (sym.decryptAndMixHash S ct cap).1 = .ok p0) :
    p0.take (ct.length - (if sym.hasKey then 16 else 0)) = p0 := by
  obtain ⟨d1, d2⟩ := Sym.decrypt_ok S sym ct cap p0 h
  cases hk : sym.hasKey with
  | true =>
    obtain ⟨_, _, c⟩ := d1 hk
    have := hD _ _ _ _ _ c
    simp only [↓reduceIte]
    exact List.take_of_length_le (by omega)
  | false =>
    obtain ⟨a, _⟩ := d2 hk
    subst a
    simp only [Bool.false_eq_true, ↓reduceIte, Nat.sub_zero, List.take_length]

theorem readMessage_refines (S : Suite) (hL : S.HashLen) (hS : S.Sizes) (hD : S.DecLen) (hs : HS) (m : Bytes)
    (cap : Nat) (pl : Bytes) (hs' : HS) (buf : Bytes) (ev : List Event)
    (hck : CkLen S hs.sym)
    (hok : PskOk hs.isPsk (hs.msgs.getD hs.pos []) hs.sym.hasKey = true)
    (h : hs.readMessage S m cap = (.ok pl, hs', buf, ev)) :
    Spec.HandshakeState.readMessage S (absHS hs) m =
      some (pl, absHS hs',
            if hs'.isHandshakeFinished then some (absCS hs'.cs1, absCS hs'.cs2) else none) ∧
    CkLen S hs'.sym := by
  unfold readMessage at h
  simp only at h
  cases hr : (readInner S hs m cap).1 with
  | err e => simp [hr] at h
  | panic q => simp [hr] at h
  | ok k =>
    simp only [hr, Prod.mk.injEq, Res.ok.injEq] at h
    obtain ⟨hn, hhs', hbuf', hev'⟩ := h
    subst hn
    obtain ⟨_, ht, hp⟩ := readInner_turn S hs m cap k hr
    obtain ⟨hW, p0, hp0, hk, hhs⟩ := readInner_ok_shape S hs m cap k hr
    have hf := readToks_frame S (hs.msgs.getD hs.pos []) { hs := hs, ptr := m, ev := [] }
    obtain ⟨r1, r3⟩ := readToks_refines S hL hS (hs.msgs.getD hs.pos []) { hs := hs, ptr := m, ev := [] }
      false hck (transient_false _ _) hok hW
    generalize readToks S (hs.msgs.getD hs.pos []) { hs := hs, ptr := m, ev := [] } = W at *
    obtain ⟨rW, w⟩ := W
    simp only at hW hp0 hk hhs hf r1 r3
    rw [payload_take S hD _ _ _ _ hp0] at hk
    subst hk
    have hdec := decrypt_abs S w.hs.sym w.ptr cap k hp0
    have hfr := readFinish_frame S hs w cap
    have hm : (absHS hs).msgs = hs.msgs.getD hs.pos [] :: hs.msgs.drop (hs.pos + 1) := drop_pos _ _ hp
    rw [hhs] at hhs'
    have a2 : absHS hs' =
        { absHS w.hs with
          ss := absSym (w.hs.sym.decryptAndMixHash S w.ptr cap).2.1
          msgs := hs.msgs.drop (hs.pos + 1) } := by
      rw [← hhs', absHS_readFinish, hf.msgs, hf.pos]
    have a3 : hs'.isHandshakeFinished = (hs.pos + 1 == hs.msgs.length) := by
      rw [← hhs']
      show ((readFinish S hs w cap).pos + 1 == (readFinish S hs w cap).msgs.length) = _
      rw [hfr.1, hfr.2.1, hf.pos, hf.msgs]
    have a5 : hs'.sym = (w.hs.sym.decryptAndMixHash S w.ptr cap).2.1 := by
      rw [← hhs']; exact hfr.2.2
    have a6 : hs.pos + 1 = hs.msgs.length →
        hs'.cs1 = ((w.hs.sym.decryptAndMixHash S w.ptr cap).2.1.split S).1 ∧
        hs'.cs2 = ((w.hs.sym.decryptAndMixHash S w.ptr cap).2.1.split S).2 := by
      intro hl
      rw [← hhs']
      exact readFinish_split S hs w cap hl
    rw [a2, a3, a5]
    simp only [absHSG_false] at r1
    have e1 : (absHS w.hs).ss = absSym w.hs.sym := rfl
    refine ⟨?_, decrypt_ck S _ _ _ r3⟩
    unfold Spec.HandshakeState.readMessage
    rw [hm]
    simp only [r1, e1, hdec]
    by_cases hl : hs.pos + 1 = hs.msgs.length
    · obtain ⟨c1, c2⟩ := a6 hl
      have e2 : (hs.msgs.drop (hs.pos + 1)).isEmpty = true := by
        rw [List.isEmpty_iff, List.drop_eq_nil_iff]; omega
      have e3 : (hs.pos + 1 == hs.msgs.length) = true := by simpa using hl
      rw [c1, c2]
      simp only [e2, ↓reduceIte, e3,
        split_abs S hL hS false _ (decrypt_ck S _ _ _ r3), absSymG_false]
    · have e2 : (hs.msgs.drop (hs.pos + 1)).isEmpty = false := by
        cases hx : (hs.msgs.drop (hs.pos + 1)).isEmpty with
        | false => rfl
        | true => rw [List.isEmpty_iff, List.drop_eq_nil_iff] at hx; omega
      have e3 : (hs.pos + 1 == hs.msgs.length) = false := by simpa using hl
      simp only [e2, Bool.false_eq_true, ↓reduceIte, e3]

end SnowVerif.C01
