/-
  C06 with attempts, part 4: an honest exchange with arbitrary failing calls in between satisfies
  the side conditions of the merged history theorem, and still completes.

  The honest lockstep lemmas (`HS.msgA`, `HS.msgB`, Lemmas/Honest3.lean) need the two parties'
  symmetric states to be EQUAL (`Sync`).  After a failed call an endpoint is only `Equiv` to what
  it was (C07): the random source has advanced, a disabled ephemeral holds other bytes, and the
  cipher of a state without key may hold a stale key.  The induction therefore carries a pair of
  *clean* states `C` (in `Sync`, untouched by the failed calls) next to the actual pair `P`, with
  `PEq C P` (endpoint-wise `Equiv`).  At each `write_message` of the plan the clean writer is given
  the actual writer's random stream (`reRng`; `Sync`, `Ctl`, `PartyOk` do not mention it), the
  honest lemma is applied to the clean pair, and `round_transfer` (C07 bisimulation) carries its
  conclusions to the actual pair.
-/
import SnowVerif.Lemmas.C06AttemptsRound
import SnowVerif.Lemmas.C06HistExchHonest

namespace SnowVerif.C06
open SnowVerif SnowVerif.Model SnowVerif.Model.HS SnowVerif.Framing
open SnowVerif.Theorems.C11 (Op step run NoPanic)
open SnowVerif.Lemmas.C07Reach (EInv)
set_option linter.unusedVariables false
set_option linter.unusedSimpArgs false

/-- The state with another random stream. -/
@[reducible] def reRng (A : HS) (R : Bytes) : HS := { A with rng := R }

theorem reRng_equiv (A : HS) (R : Bytes) : Equiv (reRng A R) A := (Theorems.C07.Equiv_setRng A R).symm

/-- `HS.msgA` for the writer `A` with any random stream. -/
theorem msgA_rng (S : Suite) (hEL : S.EncLen) (hDE : S.DecEnc) (hPL : S.PubLen) (hPT : S.PrivTotal)
    (hDC : S.DhComm) (hDT : S.DhTotal)
    {k k' : Spec.Keys} {A B : HS} (R : Bytes) (h : Sync S k A B) (c : Ctl A B) (okA : PartyOk S A) (okB : PartyOk S B)
    (hturnW : A.myTurn = true) (hturnR : B.myTurn = false) (hlt : A.pos < A.msgs.length)
    (hk : k.runMsg true (A.msgs.getD A.pos []) = some k')
    (hs_on : Tok.s ∈ A.msgs.getD A.pos [] → A.s.on = true)
    (hpsk : ∀ n, Tok.psk n ∈ A.msgs.getD A.pos [] → n < 10 ∧ ∃ key, A.psks.getD n none = some key)
    (hn : A.sym.cs.n.toNat + (A.msgs.getD A.pos []).length + 1 < 2 ^ 64 - 1)
    (p : Bytes) (cap capr : Nat)
    (hcap : (A.msgs.getD A.pos []).length * (S.pubLen + 16) + p.length + 16 ≤ cap)
    (hmax : (A.msgs.getD A.pos []).length * (S.pubLen + 16) + p.length + 16 ≤ 65535)
    (hcapr : p.length ≤ capr) :
    ((reRng A R).writeMessage S p cap).1 = .ok ((reRng A R).writeMessage S p cap).2.2.1.length ∧
    (B.readMessage S ((reRng A R).writeMessage S p cap).2.2.1 capr).1 = .ok p ∧
    Sync S k' ((reRng A R).writeMessage S p cap).2.1 (B.readMessage S ((reRng A R).writeMessage S p cap).2.2.1 capr).2.1 ∧
    Ctl ((reRng A R).writeMessage S p cap).2.1 (B.readMessage S ((reRng A R).writeMessage S p cap).2.2.1 capr).2.1 ∧
    PartyOk S ((reRng A R).writeMessage S p cap).2.1 ∧
    PartyOk S (B.readMessage S ((reRng A R).writeMessage S p cap).2.2.1 capr).2.1 ∧
    ((reRng A R).writeMessage S p cap).2.1.myTurn = false ∧
    (B.readMessage S ((reRng A R).writeMessage S p cap).2.2.1 capr).2.1.myTurn = true ∧
    ((reRng A R).writeMessage S p cap).2.1.pos = A.pos + 1 ∧ ((reRng A R).writeMessage S p cap).2.1.msgs = A.msgs ∧
    ((reRng A R).writeMessage S p cap).2.1.s = A.s ∧
    (B.readMessage S ((reRng A R).writeMessage S p cap).2.2.1 capr).2.1.s = B.s ∧
    ((reRng A R).writeMessage S p cap).2.1.psks = A.psks ∧
    ((reRng A R).writeMessage S p cap).2.1.sym.cs.n.toNat ≤ A.sym.cs.n.toNat + (A.msgs.getD A.pos []).length + 1 := by
  have h' : Sync S k (reRng A R) B := ⟨h.ia, h.ib, h.sym, h.isPsk, h.psks, h.iE, h.iS, h.rE, h.rS, h.niS, h.nrS⟩
  have c' : Ctl (reRng A R) B := ⟨c.msgs, c.pos, c.cs1, c.cs2⟩
  have okA' : PartyOk S (reRng A R) := ⟨okA.inv, okA.sPub, okA.ePub⟩
  obtain ⟨m1, m2, m3, m4, m5, m6, m7, m8, m9, m10, m11, m12, m13, m14, _⟩ :=
    msgA S hEL hDE hPL hPT hDC hDT h' c' okA' okB hturnW hturnR hlt hk hs_on hpsk hn p cap capr hcap hmax hcapr
  exact ⟨m1, m2, m3, m4, m5, m6, m7, m8, m9, m10, m11, m12, m13, m14⟩

/-- `HS.msgB` for the writer `B` with any random stream. -/
theorem msgB_rng (S : Suite) (hEL : S.EncLen) (hDE : S.DecEnc) (hPL : S.PubLen) (hPT : S.PrivTotal)
    (hDC : S.DhComm) (hDT : S.DhTotal)
    {k k' : Spec.Keys} {A B : HS} (R : Bytes) (h : Sync S k A B) (c : Ctl A B) (okA : PartyOk S A) (okB : PartyOk S B)
    (hturnW : B.myTurn = true) (hturnR : A.myTurn = false) (hlt : B.pos < B.msgs.length)
    (hk : k.runMsg false (B.msgs.getD B.pos []) = some k')
    (hs_on : Tok.s ∈ B.msgs.getD B.pos [] → B.s.on = true)
    (hpsk : ∀ n, Tok.psk n ∈ B.msgs.getD B.pos [] → n < 10 ∧ ∃ key, A.psks.getD n none = some key)
    (hn : B.sym.cs.n.toNat + (B.msgs.getD B.pos []).length + 1 < 2 ^ 64 - 1)
    (p : Bytes) (cap capr : Nat)
    (hcap : (B.msgs.getD B.pos []).length * (S.pubLen + 16) + p.length + 16 ≤ cap)
    (hmax : (B.msgs.getD B.pos []).length * (S.pubLen + 16) + p.length + 16 ≤ 65535)
    (hcapr : p.length ≤ capr) :
    ((reRng B R).writeMessage S p cap).1 = .ok ((reRng B R).writeMessage S p cap).2.2.1.length ∧
    (A.readMessage S ((reRng B R).writeMessage S p cap).2.2.1 capr).1 = .ok p ∧
    Sync S k' (A.readMessage S ((reRng B R).writeMessage S p cap).2.2.1 capr).2.1 ((reRng B R).writeMessage S p cap).2.1 ∧
    Ctl (A.readMessage S ((reRng B R).writeMessage S p cap).2.2.1 capr).2.1 ((reRng B R).writeMessage S p cap).2.1 ∧
    PartyOk S ((reRng B R).writeMessage S p cap).2.1 ∧
    PartyOk S (A.readMessage S ((reRng B R).writeMessage S p cap).2.2.1 capr).2.1 ∧
    ((reRng B R).writeMessage S p cap).2.1.myTurn = false ∧
    (A.readMessage S ((reRng B R).writeMessage S p cap).2.2.1 capr).2.1.myTurn = true ∧
    ((reRng B R).writeMessage S p cap).2.1.pos = B.pos + 1 ∧ ((reRng B R).writeMessage S p cap).2.1.msgs = B.msgs ∧
    ((reRng B R).writeMessage S p cap).2.1.s = B.s ∧
    (A.readMessage S ((reRng B R).writeMessage S p cap).2.2.1 capr).2.1.s = A.s ∧
    ((reRng B R).writeMessage S p cap).2.1.psks = B.psks ∧
    ((reRng B R).writeMessage S p cap).2.1.sym.cs.n.toNat ≤ B.sym.cs.n.toNat + (B.msgs.getD B.pos []).length + 1 := by
  have h' : Sync S k A (reRng B R) := ⟨h.ia, h.ib, h.sym, h.isPsk, h.psks, h.iE, h.iS, h.rE, h.rS, h.niS, h.nrS⟩
  have c' : Ctl A (reRng B R) := ⟨c.msgs, c.pos, c.cs1, c.cs2⟩
  have okB' : PartyOk S (reRng B R) := ⟨okB.inv, okB.sPub, okB.ePub⟩
  obtain ⟨m1, m2, m3, m4, m5, m6, m7, m8, m9, m10, m11, m12, m13, m14, _⟩ :=
    msgB S hEL hDE hPL hPT hDC hDT h' c' okA okB' hturnW hturnR hlt hk hs_on hpsk hn p cap capr hcap hmax hcapr
  exact ⟨m1, m2, m3, m4, m5, m6, m7, m8, m9, m10, m11, m12, m13, m14⟩

theorem planOf_cons (r : Round) (rs : List Round) : planOf (r :: rs) = (r.p, r.cap, r.capr) :: planOf rs := rfl

/-- **An honest exchange with attempts.** `C` is a pair of states in lockstep (hypotheses of
    `honest_exchange`), `P` the actual pair, endpoint-wise `Equiv` to `C` and satisfying the
    reachable-state invariants; `rounds` is an exchange with attempts whose plan fits and all of
    whose extra calls return errors.  Then
    * the merged history satisfies the side conditions `MOk` of the merged history theorem, with the
      party that writes first as the initial leader;
    * every call of the plan succeeds (`AttDelivered`);
    * the final pair is `Equiv` to a pair in lockstep at the final key record. -/
theorem att_run (S : Suite) (hEL : S.EncLen) (hDE : S.DecEnc) (hPL : S.PubLen) (hPT : S.PrivTotal)
    (hDC : S.DhComm) (hDT : S.DhTotal) (rem : List (List Tok)) :
    ∀ (ini : Bool) (k kf : Spec.Keys) (C P : HS × HS) (rounds : List Round),
      Sync S k C.1 C.2 → Ctl C.1 C.2 → PartyOk S C.1 → PartyOk S C.2 →
      C.1.myTurn = ini → C.2.myTurn = !ini → C.1.pos ≤ C.1.msgs.length →
      C.1.msgs.drop C.1.pos = rem →
      Spec.Keys.runMsgs ini k rem = some kf →
      StaticsOk ini rem C.1.s.on C.2.s.on →
      (∀ n m, m ∈ rem → Tok.psk n ∈ m → n < 10 ∧ ∃ key, C.1.psks.getD n none = some key) →
      C.1.sym.cs.n.toNat + totalFields rem < 2 ^ 64 - 1 →
      PlanOk S rem (planOf rounds) →
      PEq C P → PairOk P → AttFails S ini P rounds →
      MOk S P ini (attOps S ini P rounds) ∧ AttDelivered S ini P rounds ∧
      ∃ C' : HS × HS, Sync S kf C'.1 C'.2 ∧ Ctl C'.1 C'.2 ∧ PEq C' (mrun S P (attOps S ini P rounds)) := by
  induction rem with
  | nil =>
    intro ini k kf C P rounds h c okA okB ht1 ht2 hple hrem hk hst hpsk hn hplan hC hok hf
    cases rounds with
    | cons x xs => simp [planOf, PlanOk] at hplan
    | nil =>
      simp only [Spec.Keys.runMsgs, Option.some.injEq] at hk
      subst hk
      exact ⟨trivial, trivial, C, h, c, hC⟩
  | cons m rest ih =>
    intro ini k kf C P rounds h c okA okB ht1 ht2 hple hrem hk hst hpsk hn hplan hC hok hf
    obtain ⟨hlt, hget, hdrop⟩ := drop_cons_facts C.1.msgs C.1.pos m rest [] hrem
    cases rounds with
    | nil => simp [planOf, PlanOk] at hplan
    | cons r rs =>
      rw [planOf_cons] at hplan
      simp only [PlanOk] at hplan
      obtain ⟨hcap, hmax, hcapr, hplan'⟩ := hplan
      obtain ⟨hf1, hf2, hf3⟩ := hf
      simp only [Spec.Keys.runMsgs] at hk
      cases hk1 : k.runMsg ini m with
      | none => rw [hk1] at hk; simp at hk
      | some k1 =>
        rw [hk1] at hk
        simp only [Option.bind_some] at hk
        simp only [totalFields] at hn
        cases ini with
        | true =>
          simp only [StaticsOk] at hst
          obtain ⟨hsA, hst'⟩ := hst
          have ht2' : C.2.myTurn = false := by simpa using ht2
          obtain ⟨m1, m2, m3, m4, m5, m6, m7, m8, m9, m10, m11, m12, m13, m14⟩ :=
            msgA_rng S hEL hDE hPL hPT hDC hDT (pget (mrun S P r.pre) true).rng h c okA okB ht1 ht2' hlt
              (by rw [hget]; exact hk1) (by rw [hget]; exact hsA)
              (fun n hm => by rw [hget] at hm; exact hpsk n m List.mem_cons_self hm)
              (by rw [hget]; omega) r.p r.cap r.capr (by rw [hget]; exact hcap) (by rw [hget]; exact hmax) hcapr
          have hCs : PEq (reRng C.1 (pget (mrun S P r.pre) true).rng, C.2) P := by
            intro s
            cases s
            · exact hC false
            · exact (reRng_equiv C.1 _).trans (hC true)
          have cinv : ∀ s, SymInv (pget (reRng C.1 (pget (mrun S P r.pre) true).rng, C.2) s).sym := by
            intro s
            cases s
            · exact okB.inv
            · exact okA.inv
          have hsy : SymEq
              (C.2.readMessage S ((reRng C.1 (pget (mrun S P r.pre) true).rng).writeMessage S r.p r.cap).2.2.1 r.capr).2.1.sym
              ((reRng C.1 (pget (mrun S P r.pre) true).rng).writeMessage S r.p r.cap).2.1.sym := by
            rw [m3.sym]; exact SymEq.refl _
          obtain ⟨t1, t2, t3, t4, t5, t6, t7⟩ :=
            round_transfer S true (reRng C.1 (pget (mrun S P r.pre) true).rng, C.2) P r hCs hok cinv rfl ht2' _ m1 m2
              hsy hf1 hf2
          obtain ⟨g1, g2, C', g3, g4, g5⟩ :=
            ih false k1 kf
              (((reRng C.1 (pget (mrun S P r.pre) true).rng).writeMessage S r.p r.cap).2.1,
               (C.2.readMessage S ((reRng C.1 (pget (mrun S P r.pre) true).rng).writeMessage S r.p r.cap).2.2.1 r.capr).2.1)
              (afterRound S true P r) rs m3 m4 m5 m6 m7 (by rw [m8]; rfl) (by rw [m9, m10]; omega)
              (by rw [m10, m9]; exact hdrop) hk
              (by rw [m11, m12]; exact hst')
              (fun n mm hmm hn' => by rw [m13]; exact hpsk n mm (List.mem_cons_of_mem _ hmm) hn')
              (by rw [hget] at m14; dsimp only; omega) hplan' t4 t3 hf3
          refine ⟨?_, ⟨?_, t7, g2⟩, C', g3, g4, ?_⟩
          · simp only [attOps]
            rw [MOk_append]
            refine ⟨t1, ?_⟩
            rw [t2, mrun_roundOps]
            exact g1
          · rw [t6, t5]; rfl
          · simp only [attOps]
            rw [mrun_append, mrun_roundOps]
            exact g5
        | false =>
          simp only [StaticsOk] at hst
          obtain ⟨hsB, hst'⟩ := hst
          have ht2' : C.2.myTurn = true := by simpa using ht2
          have hltB : C.2.pos < C.2.msgs.length := by rw [← c.pos, ← c.msgs]; exact hlt
          have hgetB : C.2.msgs.getD C.2.pos [] = m := by rw [← c.pos, ← c.msgs]; exact hget
          have hnB : C.2.sym.cs.n.toNat = C.1.sym.cs.n.toNat := by rw [h.sym]
          obtain ⟨m1, m2, m3, m4, m5, m6, m7, m8, m9, m10, m11, m12, m13, m14⟩ :=
            msgB_rng S hEL hDE hPL hPT hDC hDT (pget (mrun S P r.pre) false).rng h c okA okB ht2' ht1 hltB
              (by rw [hgetB]; exact hk1) (by rw [hgetB]; exact hsB)
              (fun n hm => by rw [hgetB] at hm; exact hpsk n m List.mem_cons_self hm)
              (by rw [hgetB, hnB]; omega) r.p r.cap r.capr (by rw [hgetB]; exact hcap) (by rw [hgetB]; exact hmax) hcapr
          have hCs : PEq (C.1, reRng C.2 (pget (mrun S P r.pre) false).rng) P := by
            intro s
            cases s
            · exact (reRng_equiv C.2 _).trans (hC false)
            · exact hC true
          have cinv : ∀ s, SymInv (pget (C.1, reRng C.2 (pget (mrun S P r.pre) false).rng) s).sym := by
            intro s
            cases s
            · exact okB.inv
            · exact okA.inv
          have hsy : SymEq
              (C.1.readMessage S ((reRng C.2 (pget (mrun S P r.pre) false).rng).writeMessage S r.p r.cap).2.2.1 r.capr).2.1.sym
              ((reRng C.2 (pget (mrun S P r.pre) false).rng).writeMessage S r.p r.cap).2.1.sym := by
            rw [m3.sym]; exact SymEq.refl _
          obtain ⟨t1, t2, t3, t4, t5, t6, t7⟩ :=
            round_transfer S false (C.1, reRng C.2 (pget (mrun S P r.pre) false).rng) P r hCs hok cinv rfl ht1 _ m1 m2
              hsy hf1 hf2
          have hAmsgs : (C.1.readMessage S ((reRng C.2 (pget (mrun S P r.pre) false).rng).writeMessage S r.p r.cap).2.2.1 r.capr).2.1.msgs
              = C.1.msgs := by
            rw [m4.msgs, m10, c.msgs]
          have hApos : (C.1.readMessage S ((reRng C.2 (pget (mrun S P r.pre) false).rng).writeMessage S r.p r.cap).2.2.1 r.capr).2.1.pos
              = C.1.pos + 1 := by
            rw [m4.pos, m9, c.pos]
          have hApsks : (C.1.readMessage S ((reRng C.2 (pget (mrun S P r.pre) false).rng).writeMessage S r.p r.cap).2.2.1 r.capr).2.1.psks
              = C.1.psks := by
            rw [m3.psks, m13, h.psks]
          have hAn : (C.1.readMessage S ((reRng C.2 (pget (mrun S P r.pre) false).rng).writeMessage S r.p r.cap).2.2.1 r.capr).2.1.sym.cs.n.toNat
              ≤ C.1.sym.cs.n.toNat + m.length + 1 := by
            rw [m3.sym, ← hnB]; rw [hgetB] at m14; exact m14
          obtain ⟨g1, g2, C', g3, g4, g5⟩ :=
            ih true k1 kf
              ((C.1.readMessage S ((reRng C.2 (pget (mrun S P r.pre) false).rng).writeMessage S r.p r.cap).2.2.1 r.capr).2.1,
               ((reRng C.2 (pget (mrun S P r.pre) false).rng).writeMessage S r.p r.cap).2.1)
              (afterRound S false P r) rs m3 m4 m6 m5 m8 (by rw [m7]; rfl) (by rw [hApos, hAmsgs]; omega)
              (by rw [hAmsgs, hApos]; exact hdrop) hk
              (by rw [m12, m11]; exact hst')
              (fun n mm hmm hn' => by rw [hApsks]; exact hpsk n mm (List.mem_cons_of_mem _ hmm) hn')
              (by dsimp only; omega) hplan' t4 t3 hf3
          refine ⟨?_, ⟨?_, t7, g2⟩, C', g3, g4, ?_⟩
          · simp only [attOps]
            rw [MOk_append]
            refine ⟨t1, ?_⟩
            rw [t2, mrun_roundOps]
            exact g1
          · rw [t6, t5]; rfl
          · simp only [attOps]
            rw [mrun_append, mrun_roundOps]
            exact g5

end SnowVerif.C06
