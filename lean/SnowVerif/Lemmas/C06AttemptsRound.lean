/-
  C06 with attempts, part 3: one round (message) of an exchange with attempts, role-neutral.

  `round_transfer`: let `C` be a pair of "clean" states on which the honest step is known to work
  (the writer's `write_message` returns `Ok`, the reader's `read_message` of that message returns
  the payload, and the two successors have the same symmetric state: the conclusions of
  `HS.msgA` / `HS.msgB`), and let `P` be the actual pair, endpoint-wise `Equiv` to `C` (it differs by
  what earlier failed calls left behind: the position of the random source, a disabled
  ephemeral, the cipher of an unkeyed state).  Then for any failing calls before the write and
  between write and read, on either endpoint, the actual calls of the round return the same
  results, the actual pair after the round is `Equiv` to the clean successors, the invariants
  survive, the reader becomes the leader, and the side conditions `MOk` of the merged history
  theorem hold along the round.
-/
import SnowVerif.Lemmas.C06AttemptsFail

namespace SnowVerif.C06
open SnowVerif SnowVerif.Model SnowVerif.Model.HS SnowVerif.Framing
open SnowVerif.Theorems.C11 (Op step run NoPanic)
open SnowVerif.Lemmas.C07Reach (EInv)
set_option linter.unusedVariables false
set_option linter.unusedSimpArgs false

theorem bnot_ne (w : Bool) : (!w) ≠ w := by cases w <;> simp

theorem ne_bnot (w : Bool) : w ≠ (!w) := by cases w <;> simp

theorem round_transfer (S : Suite) (w : Bool) (C P : HS × HS) (r : Round)
    (hC : PEq C P) (ok : PairOk P) (cinv : ∀ s, SymInv (pget C s).sym)
    (hrng : (pget C w).rng = (pget (mrun S P r.pre) w).rng)
    (hRturn : (pget C (!w)).myTurn = false)
    (n : Nat) (hw : ((pget C w).writeMessage S r.p r.cap).1 = .ok n)
    (hr : ((pget C (!w)).readMessage S ((pget C w).writeMessage S r.p r.cap).2.2.1 r.capr).1 = .ok r.p)
    (hsym : SymEq ((pget C (!w)).readMessage S ((pget C w).writeMessage S r.p r.cap).2.2.1 r.capr).2.1.sym
                  ((pget C w).writeMessage S r.p r.cap).2.1.sym)
    (hf1 : AllFail S P r.pre) (hf2 : AllFail S (afterSend S w P r) r.mid) :
    MOk S P w (roundOps S w P r) ∧ mleadRun S P w (roundOps S w P r) = (!w) ∧
    PairOk (afterRound S w P r) ∧
    PEq (pset (pset C w ((pget C w).writeMessage S r.p r.cap).2.1) (!w)
          ((pget C (!w)).readMessage S ((pget C w).writeMessage S r.p r.cap).2.2.1 r.capr).2.1)
        (afterRound S w P r) ∧
    sendMsg S w P r = ((pget C w).writeMessage S r.p r.cap).2.2.1 ∧
    ((pget (mrun S P r.pre) w).writeMessage S r.p r.cap).1 = .ok n ∧
    ((pget (mrun S (afterSend S w P r) r.mid) (!w)).readMessage S (sendMsg S w P r) r.capr).1 = .ok r.p := by
  -- 1. the failing calls before the write
  have hfol0 : (pget P (!w)).myTurn = false := by rw [← (hC (!w)).myTurn]; exact hRturn
  obtain ⟨a1, a2, a3, a4⟩ := fail_segment S r.pre P w ok hfol0 hf1
  simp only [afterRound, afterSend, sendMsg, roundOps] at hf2 ⊢
  generalize hP1 : mrun S P r.pre = P1 at *
  -- 2. the write
  have hEW : Equiv (pget C w) (pget P1 w) := (hC w).trans (a1 w)
  have invW1 : SymInv (pget P1 w).sym := (a2 w).einv.sym
  obtain ⟨we1, we2, we3, we4⟩ := writeMessage_equiv S hEW hrng (cinv w) invW1 r.p r.cap
  have hw1 : ((pget P1 w).writeMessage S r.p r.cap).1 = .ok n := by rw [← we1]; exact hw
  have hmsg : ((pget P1 w).writeMessage S r.p r.cap).2.2.1 = ((pget C w).writeMessage S r.p r.cap).2.2.1 := by
    rw [we4]
  rw [← hmsg] at hr hsym ⊢
  generalize hmsgdef : ((pget P1 w).writeMessage S r.p r.cap).2.2.1 = msg at *
  have hctl := Theorems.C11.write_ok_ctl S (pget P1 w) r.p r.cap n ((pget P1 w).writeMessage S r.p r.cap).2.1
    ((pget P1 w).writeMessage S r.p r.cap).2.2.1 ((pget P1 w).writeMessage S r.p r.cap).2.2.2 (by rw [← hw1])
  have npW : NoPanic S (pget P1 w) (.write r.p r.cap) := by
    simp only [NoPanic, hw1, Res.isPanic]
  have okW1' : EndOk ((pget P1 w).writeMessage S r.p r.cap).2.1 :=
    ⟨Lemmas.C07Reach.einv_write_ok S (pget P1 w) (a2 w).einv r.p r.cap n hw1,
     instOk_step S (pget P1 w) (.write r.p r.cap) invW1 npW (a2 w).inst⟩
  have hfol1 : (pget P1 (!w)).myTurn = false := by rw [← (a1 (!w)).myTurn]; exact hfol0
  have hstepW : mstep S P1 (w, Op.write r.p r.cap) = pset P1 w ((pget P1 w).writeMessage S r.p r.cap).2.1 := rfl
  rw [hstepW] at hf2 ⊢
  generalize hW1' : ((pget P1 w).writeMessage S r.p r.cap).2.1 = W1' at *
  have ok2 : PairOk (pset P1 w W1') := a2.pset w okW1'
  have hfol2 : (pget (pset P1 w W1') (!w)).myTurn = false := by
    rw [pget_pset_other _ _ _ _ (bnot_ne w)]; exact hfol1
  -- 3. the failing calls between write and read
  obtain ⟨b1, b2, b3, b4⟩ := fail_segment S r.mid (pset P1 w W1') w ok2 hfol2 hf2
  generalize hP3 : mrun S (pset P1 w W1') r.mid = P3 at *
  have hER : Equiv (pget C (!w)) (pget P3 (!w)) := by
    have := b1 (!w)
    rw [pget_pset_other _ _ _ _ (bnot_ne w)] at this
    exact ((hC (!w)).trans (a1 (!w))).trans this
  have hEW3 : Equiv W1' (pget P3 w) := by
    have := b1 w
    rw [pget_pset_same] at this
    exact this
  have invR3 : SymInv (pget P3 (!w)).sym := (b2 (!w)).einv.sym
  obtain ⟨re1, re2, re3⟩ := readMessage_equiv S hER (cinv (!w)) invR3 msg r.capr
  have hr3 : ((pget P3 (!w)).readMessage S msg r.capr).1 = .ok r.p := by rw [← re1]; exact hr
  have npR : NoPanic S (pget P3 (!w)) (.read msg r.capr) := by
    simp only [NoPanic, hr3, Res.isPanic]
  have okR3' : EndOk ((pget P3 (!w)).readMessage S msg r.capr).2.1 :=
    ⟨Lemmas.C07Reach.einv_read_ok S (pget P3 (!w)) (b2 (!w)).einv msg r.capr r.p hr3,
     instOk_step S (pget P3 (!w)) (.read msg r.capr) invR3 npR (b2 (!w)).inst⟩
  have hfol3 : (pget P3 (!w)).myTurn = false := by rw [← (b1 (!w)).myTurn]; exact hfol2
  have hW3turn : (pget P3 w).myTurn = false := by rw [← hEW3.myTurn]; exact hctl.2.2.2.1
  have hcallR : callOk S (pget P3 (!w)) (.read msg r.capr) = true := by
    simp only [callOk, hr3, Res.isOk]
  have hstepR : mstep S P3 (!w, Op.read msg r.capr) = pset P3 (!w) ((pget P3 (!w)).readMessage S msg r.capr).2.1 := rfl
  rw [hstepR]
  have hsync : SymEq ((pget P3 (!w)).readMessage S msg r.capr).2.1.sym (pget P3 w).sym :=
    ((re2.sym.symm.trans hsym).trans we2.sym).trans hEW3.sym
  refine ⟨?_, ?_, ?_, ?_, rfl, hw1, hr3⟩
  · -- the side conditions along the round
    rw [MOk_append]
    refine ⟨a4, ?_⟩
    rw [a3, hP1]
    refine ⟨(a2 w).inst.eae, npW, hfol1, fun hne => absurd rfl hne, ?_⟩
    rw [mlead_same, hstepW, MOk_append]
    refine ⟨b4, ?_⟩
    rw [b3, hP3]
    exact ⟨(b2 (!w)).inst.eae, npR, hfol3, fun _ _ => ⟨hW3turn, hsync⟩, trivial⟩
  · rw [mleadRun_append, a3, hP1]
    simp only [mleadRun]
    rw [mlead_same, hstepW, mleadRun_append, b3, hP3]
    simp only [mleadRun]
    exact mlead_ok S P3 w (!w) _ hcallR
  · exact b2.pset (!w) okR3'
  · intro s
    by_cases hs : s = !w
    · subst hs
      rw [pget_pset_same, pget_pset_same]
      exact re2
    · rw [pget_pset_other _ _ _ _ hs, pget_pset_other _ _ _ _ hs]
      have hsw : s = w := by cases s <;> cases w <;> simp_all
      subst hsw
      rw [pget_pset_same]
      exact we2.trans hEW3

end SnowVerif.C06
