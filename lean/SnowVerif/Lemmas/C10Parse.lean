/-
  Lemmas for C10 (total API), parsing half: `NoiseParams::from_str` and its pieces never panic.
-/
import SnowVerif.Model.Params

open SnowVerif SnowVerif.Model
set_option autoImplicit false
set_option linter.unusedVariables false
set_option linter.unusedSimpArgs false

namespace SnowVerif.Lemmas.C10

/-- `str::split` always yields at least one piece. -/
theorem splitBy_ne_nil (sep : UInt8) : ∀ b : Bytes, splitBy sep b ≠ []
  | [] => by simp [splitBy]
  | b :: rest => by
    unfold splitBy
    split
    · simp
    · split <;> simp

theorem parseBase_isPanic (s : Bytes) : (parseBase s).isPanic = false := by
  unfold parseBase; split <;> rfl

theorem parseDh_isPanic (f : Features) (s : Bytes) : (parseDh f s).isPanic = false := by
  unfold parseDh; repeat' split
  all_goals rfl

theorem parseCipher_isPanic (f : Features) (s : Bytes) : (parseCipher f s).isPanic = false := by
  unfold parseCipher; repeat' split
  all_goals rfl

theorem parseHash_isPanic (s : Bytes) : (parseHash s).isPanic = false := by
  unfold parseHash; repeat' split
  all_goals rfl

/-- The prefix loop `for i in (1..=4).rev()` slices only at checked char boundaries. -/
theorem parsePatternAndModifier_isPanic (s : Bytes) : (parsePatternAndModifier s).isPanic = false := by
  unfold parsePatternAndModifier; repeat' split
  all_goals rfl

/-- `s[3..]` is taken only after `starts_with("psk")`. -/
theorem parseModifier_isPanic (s : Bytes) : (parseModifier s).isPanic = false := by
  unfold parseModifier; repeat' split
  all_goals rfl

theorem parseModifierItems_isPanic (l : List Bytes) (acc : List Modifier) :
    (parseModifierItems l acc).isPanic = false := by
  induction l generalizing acc with
  | nil => rfl
  | cons m rest ih =>
    have hm := parseModifier_isPanic m
    unfold parseModifierItems
    split
    · split
      · rfl
      · exact ih _
    · rfl
    · rename_i heq; rw [heq] at hm; cases hm

theorem parseModifiers_isPanic (s : Bytes) : (parseModifiers s).isPanic = false := by
  unfold parseModifiers; split
  · rfl
  · exact parseModifierItems_isPanic _ _

theorem parseHandshake_isPanic (s : Bytes) : (parseHandshake s).isPanic = false := by
  have h1 := parsePatternAndModifier_isPanic s
  unfold parseHandshake
  split
  · rename_i p rest heq
    have h2 := parseModifiers_isPanic rest
    split
    · rfl
    · rfl
    · rename_i heq2; rw [heq2] at h2; cases h2
  · rfl
  · rename_i heq; rw [heq] at h1; cases h1

/-- `NoiseParams::from_str` returns `Ok` or `Err` for every byte string. -/
theorem parse_isPanic (f : Features) (s : Bytes) : (parse f s).isPanic = false := by
  have h0 := splitBy_ne_nil 95 s
  unfold parse
  split
  · rename_i heq; exact absurd heq h0
  · rename_i p0 r0 heq
    have := parseBase_isPanic p0
    split
    · rfl
    · rename_i h; rw [h] at this; cases this
    · split
      · rfl
      · rename_i p1 r1
        have := parseHandshake_isPanic p1
        split
        · rfl
        · rename_i h; rw [h] at this; cases this
        · split
          · rfl
          · rename_i p2 r2
            have := parseDh_isPanic f p2
            split
            · rfl
            · rename_i h; rw [h] at this; cases this
            · split
              · rfl
              · rename_i p3 r3
                have := parseCipher_isPanic f p3
                split
                · rfl
                · rename_i h; rw [h] at this; cases this
                · split
                  · rfl
                  · rename_i p4 r4
                    have := parseHash_isPanic p4
                    split
                    · rfl
                    · rename_i h; rw [h] at this; cases this
                    · split <;> rfl

end SnowVerif.Lemmas.C10
