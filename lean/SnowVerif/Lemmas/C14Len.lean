/-
  C14 (message framing): the length of a handshake message as a pure function of
  its token list, as the CODE computes it (`Framing.fieldsLen`, `Framing.msgLen`) and
  as the Noise SPECIFICATION computes it (`Framing.Spec.fieldsLen`, `Framing.Spec.msgLen`),
  and the proof that the two coincide on all token lists in which a `psk` token never
  meets an un-keyed state without an `e` (processed in psk mode) following it.

  The only difference between the two: the specification's `MixKeyAndHash` (token `psk`)
  makes the cipher keyed, snow's `mix_key_and_hash` does not set `has_key`.
-/
import SnowVerif.Tok
import SnowVerif.Suite

namespace SnowVerif.Suite

/-- Law (consequence of `DecSound` and `EncLen`): an accepted ciphertext is 16 bytes longer than
    the plaintext returned. -/
def DecLen (S : Suite) : Prop := ∀ k n ad c p, S.dec k n ad c = some p → p.length = c.length - 16

/-- `DecLen` follows from the laws `DecSound` (only encryptions are accepted) and `EncLen`. -/
theorem decLen_of_sound (S : Suite) (h1 : S.DecSound) (h2 : S.EncLen) : S.DecLen := by
  intro k n ad c p h
  have := h1 k n ad c p h
  rw [this, h2]
  omega

end SnowVerif.Suite

namespace SnowVerif.Framing
set_option linter.unusedVariables false

/-- `has_key` after one token, as the code evolves it: `e` keys the cipher only in psk mode
    (`mix_key(pubkey)`), every DH token keys it, `s` and `psk` leave it unchanged
    (`mix_key_and_hash` installs a key but does NOT set `has_key`). -/
def tokKeyed (isPsk : Bool) (t : Tok) (k : Bool) : Bool :=
  match t with
  | .e => k || isPsk
  | .s => k
  | .psk _ => k
  | _ => true

/-- Bytes one token contributes to the message: a public key for `e`, a public key plus a
    16-byte tag when keyed for `s`, nothing for the others. -/
def tokLen (S : Suite) (t : Tok) (k : Bool) : Nat :=
  match t with
  | .e => S.pubLen
  | .s => S.pubLen + (if k then 16 else 0)
  | _ => 0

/-- Total length of the fixed fields of a message with tokens `ts` starting from keyedness `k`,
    and the keyedness after the last token (the one the payload is processed under). -/
def fieldsLen (S : Suite) (isPsk : Bool) : List Tok → Bool → Nat × Bool
  | [], k => (0, k)
  | t :: ts, k =>
    (tokLen S t k + (fieldsLen S isPsk ts (tokKeyed isPsk t k)).1,
     (fieldsLen S isPsk ts (tokKeyed isPsk t k)).2)

/-- Keyedness after a token list (second component of `fieldsLen`, independent of sizes). -/
def keyedAfter (isPsk : Bool) : List Tok → Bool → Bool
  | [], k => k
  | t :: ts, k => keyedAfter isPsk ts (tokKeyed isPsk t k)

/-- The length of the whole message: fixed fields, payload, and a tag for the payload when keyed. -/
def msgLen (S : Suite) (isPsk : Bool) (ts : List Tok) (k : Bool) (payloadLen : Nat) : Nat :=
  (fieldsLen S isPsk ts k).1 + payloadLen + (if (fieldsLen S isPsk ts k).2 then 16 else 0)

theorem fieldsLen_snd (S : Suite) (isPsk : Bool) (ts : List Tok) (k : Bool) :
    (fieldsLen S isPsk ts k).2 = keyedAfter isPsk ts k := by
  induction ts generalizing k with
  | nil => rfl
  | cons t ts ih => simp only [fieldsLen, keyedAfter, ih]

theorem fieldsLen_append (S : Suite) (isPsk : Bool) (a b : List Tok) (k : Bool) :
    fieldsLen S isPsk (a ++ b) k =
      ((fieldsLen S isPsk a k).1 + (fieldsLen S isPsk b (fieldsLen S isPsk a k).2).1,
       (fieldsLen S isPsk b (fieldsLen S isPsk a k).2).2) := by
  induction a generalizing k with
  | nil => simp [fieldsLen]
  | cons t a ih => simp only [List.cons_append, fieldsLen, ih, Nat.add_assoc]

/-- Once keyed, always keyed. -/
theorem tokKeyed_true (isPsk : Bool) (t : Tok) : tokKeyed isPsk t true = true := by
  cases t <;> rfl

theorem keyedAfter_true (isPsk : Bool) (ts : List Tok) : keyedAfter isPsk ts true = true := by
  induction ts with
  | nil => rfl
  | cons t ts ih => simp only [keyedAfter, tokKeyed_true, ih]

namespace Spec

/-- Keyedness after one token in the Noise specification: as in the code, except that `psk`
    (`MixKeyAndHash`) leaves the cipher keyed. -/
def tokKeyed (isPsk : Bool) (t : Tok) (k : Bool) : Bool :=
  match t with
  | .e => k || isPsk
  | .s => k
  | _ => true

/-- The specification's fixed-field length and final keyedness. -/
def fieldsLen (S : Suite) (isPsk : Bool) : List Tok → Bool → Nat × Bool
  | [], k => (0, k)
  | t :: ts, k =>
    (tokLen S t k + (fieldsLen S isPsk ts (tokKeyed isPsk t k)).1,
     (fieldsLen S isPsk ts (tokKeyed isPsk t k)).2)

def keyedAfter (isPsk : Bool) : List Tok → Bool → Bool
  | [], k => k
  | t :: ts, k => keyedAfter isPsk ts (tokKeyed isPsk t k)

/-- The length the specification predicts for a message. -/
def msgLen (S : Suite) (isPsk : Bool) (ts : List Tok) (k : Bool) (payloadLen : Nat) : Nat :=
  (fieldsLen S isPsk ts k).1 + payloadLen + (if (fieldsLen S isPsk ts k).2 then 16 else 0)

theorem fieldsLen_snd (S : Suite) (isPsk : Bool) (ts : List Tok) (k : Bool) :
    (fieldsLen S isPsk ts k).2 = keyedAfter isPsk ts k := by
  induction ts generalizing k with
  | nil => rfl
  | cons t ts ih => simp only [fieldsLen, keyedAfter, ih]

end Spec

/-- The rest of the message reaches an `e` token before anything other than `psk` tokens. -/
def reachesE : List Tok → Bool
  | .e :: _ => true
  | .psk _ :: ts => reachesE ts
  | _ => false

/-- The (decidable) condition under which code and specification agree: every `psk` token
    is met either in a keyed state (in particular: after an `e` token processed in psk mode,
    anywhere earlier in the handshake) or is followed, with only further `psk` tokens in
    between, by an `e` token processed in psk mode. `k` is the code's keyedness at the start. -/
def PskOk (isPsk : Bool) : List Tok → Bool → Bool
  | [], _ => true
  | t :: ts, k =>
    (match t with
     | .psk _ => k || (isPsk && reachesE ts)
     | _ => true) && PskOk isPsk ts (tokKeyed isPsk t k)

/-- In psk mode, if an `e` follows (after `psk` tokens only), the specification's lengths do
    not depend on the initial keyedness, and neither do the code's. -/
theorem spec_reachesE_indep (S : Suite) (ts : List Tok) (h : reachesE ts = true) (k : Bool) :
    Spec.fieldsLen S true ts k = Spec.fieldsLen S true ts true := by
  induction ts generalizing k with
  | nil => simp [reachesE] at h
  | cons t ts ih =>
    cases t with
    | e => simp [Spec.fieldsLen, Spec.tokKeyed, tokLen]
    | psk n => simp only [Spec.fieldsLen, Spec.tokKeyed, tokLen]
    | s => simp [reachesE] at h
    | ee => simp [reachesE] at h
    | es => simp [reachesE] at h
    | se => simp [reachesE] at h
    | ss => simp [reachesE] at h

/-- **Code length = specification length.** On every token list satisfying `PskOk` the
    length (and final keyedness) the code produces is the one the specification predicts. -/
theorem fieldsLen_eq_spec (S : Suite) (isPsk : Bool) (ts : List Tok) (k : Bool)
    (h : PskOk isPsk ts k = true) : fieldsLen S isPsk ts k = Spec.fieldsLen S isPsk ts k := by
  induction ts generalizing k with
  | nil => rfl
  | cons t ts ih =>
    simp only [PskOk, Bool.and_eq_true] at h
    obtain ⟨h1, h2⟩ := h
    have ih' := ih _ h2
    cases t with
    | psk n =>
      simp only [fieldsLen, Spec.fieldsLen, tokLen]
      simp only [tokKeyed] at ih' ⊢
      simp only [Spec.tokKeyed]
      cases k with
      | true => rw [ih']
      | false =>
        simp only [Bool.false_or, Bool.and_eq_true] at h1
        obtain ⟨hp, hr⟩ := h1
        subst hp
        rw [ih', spec_reachesE_indep S ts hr false]
    | e => simp only [fieldsLen, Spec.fieldsLen, tokLen]; simp only [tokKeyed] at ih' ⊢; simp only [Spec.tokKeyed]; rw [ih']
    | s => simp only [fieldsLen, Spec.fieldsLen, tokLen]; simp only [tokKeyed] at ih' ⊢; simp only [Spec.tokKeyed]; rw [ih']
    | ee => simp only [fieldsLen, Spec.fieldsLen, tokLen]; simp only [tokKeyed] at ih' ⊢; simp only [Spec.tokKeyed]; rw [ih']
    | es => simp only [fieldsLen, Spec.fieldsLen, tokLen]; simp only [tokKeyed] at ih' ⊢; simp only [Spec.tokKeyed]; rw [ih']
    | se => simp only [fieldsLen, Spec.fieldsLen, tokLen]; simp only [tokKeyed] at ih' ⊢; simp only [Spec.tokKeyed]; rw [ih']
    | ss => simp only [fieldsLen, Spec.fieldsLen, tokLen]; simp only [tokKeyed] at ih' ⊢; simp only [Spec.tokKeyed]; rw [ih']

theorem msgLen_eq_spec (S : Suite) (isPsk : Bool) (ts : List Tok) (k : Bool) (pl : Nat)
    (h : PskOk isPsk ts k = true) : msgLen S isPsk ts k pl = Spec.msgLen S isPsk ts k pl := by
  unfold msgLen Spec.msgLen; rw [fieldsLen_eq_spec S isPsk ts k h]

theorem spec_keyed_reachesE_indep (ts : List Tok) (h : reachesE ts = true) (k : Bool) :
    Spec.keyedAfter true ts k = Spec.keyedAfter true ts true := by
  induction ts generalizing k with
  | nil => simp [reachesE] at h
  | cons t ts ih =>
    cases t with
    | e => simp [Spec.keyedAfter, Spec.tokKeyed]
    | psk n => simp only [Spec.keyedAfter, Spec.tokKeyed]
    | s => simp [reachesE] at h
    | ee => simp [reachesE] at h
    | es => simp [reachesE] at h
    | se => simp [reachesE] at h
    | ss => simp [reachesE] at h

/-- Under `PskOk` the keyedness after a token list (what `was_write_payload_encrypted` reports)
    is the specification's. -/
theorem keyedAfter_eq_spec (isPsk : Bool) (ts : List Tok) (k : Bool)
    (h : PskOk isPsk ts k = true) : keyedAfter isPsk ts k = Spec.keyedAfter isPsk ts k := by
  induction ts generalizing k with
  | nil => rfl
  | cons t ts ih =>
    simp only [PskOk, Bool.and_eq_true] at h
    obtain ⟨h1, h2⟩ := h
    have ih' := ih _ h2
    cases t with
    | psk n =>
      simp only [keyedAfter, Spec.keyedAfter]
      simp only [tokKeyed] at ih' ⊢
      simp only [Spec.tokKeyed]
      cases k with
      | true => rw [ih']
      | false =>
        simp only [Bool.false_or, Bool.and_eq_true] at h1
        obtain ⟨hp, hr⟩ := h1
        subst hp
        rw [ih', spec_keyed_reachesE_indep ts hr false]
    | e => simp only [keyedAfter, Spec.keyedAfter]; simp only [tokKeyed] at ih' ⊢; simp only [Spec.tokKeyed]; rw [ih']
    | s => simp only [keyedAfter, Spec.keyedAfter]; simp only [tokKeyed] at ih' ⊢; simp only [Spec.tokKeyed]; rw [ih']
    | ee => simp only [keyedAfter, Spec.keyedAfter]; simp only [tokKeyed] at ih' ⊢; simp only [Spec.tokKeyed]; rw [ih']
    | es => simp only [keyedAfter, Spec.keyedAfter]; simp only [tokKeyed] at ih' ⊢; simp only [Spec.tokKeyed]; rw [ih']
    | se => simp only [keyedAfter, Spec.keyedAfter]; simp only [tokKeyed] at ih' ⊢; simp only [Spec.tokKeyed]; rw [ih']
    | ss => simp only [keyedAfter, Spec.keyedAfter]; simp only [tokKeyed] at ih' ⊢; simp only [Spec.tokKeyed]; rw [ih']

/-- `PskOk` holds trivially once keyed. -/
theorem pskOk_true (isPsk : Bool) (ts : List Tok) : PskOk isPsk ts true = true := by
  induction ts with
  | nil => rfl
  | cons t ts ih =>
    simp only [PskOk, tokKeyed_true, ih, Bool.and_true]
    cases t <;> rfl

/-! ### The whole handshake -/

/-- The code's keyedness before message `i` of a handshake that starts un-keyed. -/
def keyedBefore (isPsk : Bool) (msgs : List (List Tok)) (i : Nat) : Bool :=
  keyedAfter isPsk (msgs.take i).flatten false

def Spec.keyedBefore (isPsk : Bool) (msgs : List (List Tok)) (i : Nat) : Bool :=
  Spec.keyedAfter isPsk (msgs.take i).flatten false

/-- `PskOk` for every message of a handshake, each started in the keyedness the code reaches. -/
def PskOkMsgs (isPsk : Bool) : List (List Tok) → Bool → Bool
  | [], _ => true
  | m :: ms, k => PskOk isPsk m k && PskOkMsgs isPsk ms (keyedAfter isPsk m k)

end SnowVerif.Framing
