/-
  Honest-run lemmas with the EXACT size conditions (audit finding F3).

  `Lemmas/Honest2.lean`/`Honest3.lean` charge every token `pubLen + 16` bytes of buffer.  Here:
  the token loop of `_write_message` does the same thing in every buffer that holds the bytes it
  really writes (`Framing.fieldsLen`), so the lockstep lemmas `toksA`/`toksB` (applied with a big
  buffer) transfer to any buffer satisfying the exact condition.
-/
import SnowVerif.Lemmas.Honest3
import SnowVerif.Lemmas.C14Write

open SnowVerif SnowVerif.Model SnowVerif.Model.HS SnowVerif.Framing
set_option linter.unusedVariables false
set_option linter.unusedSimpArgs false

namespace SnowVerif.Model.HS
open Bytes

/-- Lengths of the local public keys as far as an honest run needs them: the static key has
    `pub_len` bytes if there is one, the ephemeral one if it is the fixed (testing) key. -/
def PubWf (S : Suite) (hs : HS) : Prop :=
  (hs.s.on = true → hs.s.val.pub.length = S.pubLen) ∧ (hs.fixedE = true → hs.e.val.pub.length = S.pubLen)

theorem pubWf_of_partyOk (S : Suite) (hPL : S.PubLen) (X : HS) (ok : PartyOk S X) : PubWf S X :=
  ⟨fun h => by rw [ok.sPub h]; exact hPL _, fun h => by rw [ok.ePub h]; exact hPL _⟩

theorem writeTok_pubWf (S : Suite) (cap : Nat) (w : WS) (t : Tok) (hw : PubWf S w.hs) :
    PubWf S (writeTok S cap w t).2.hs := by
  refine ⟨?_, writeTok_fixedE_len S cap w t hw.2⟩
  rw [(writeTok_frame S cap w t).s]; exact hw.1

/-- One successful token of `_write_message`: it wrote exactly `tokLen` bytes, and it does exactly
    the same in every other buffer that has room for these bytes. -/
theorem writeTok_exact (S : Suite) (hE : S.EncLen) (hP : S.PubLen) (c1 c2 : Nat) (w : WS) (t : Tok)
    (hw : PubWf S w.hs) (h : (writeTok S c1 w t).1 = .ok ()) :
    (writeTok S c1 w t).2.acc.length = w.acc.length + tokLen S t w.hs.sym.hasKey ∧
    (w.acc.length + tokLen S t w.hs.sym.hasKey ≤ c2 → writeTok S c2 w t = writeTok S c1 w t) := by
  cases t with
  | e =>
    rw [writeTok_e_eq] at h
    rw [writeTok_e_eq, writeTok_e_eq]
    by_cases hc1 : w.acc.length + S.pubLen > c1
    · simp [hc1] at h
    · simp only [hc1, ↓reduceIte] at h ⊢
      refine ⟨?_, ?_⟩
      · cases hf : w.hs.fixedE with
        | true =>
          have hl := hw.2 hf
          simp only [↓reduceIte, eStep, List.length_append, hl, tokLen]
        | false =>
          simp only [hf, Bool.false_eq_true, ↓reduceIte] at h ⊢
          cases hv : S.validPriv (rngDraw w.hs.rng S.privLen).1 with
          | false => simp [hv] at h
          | true => simp only [↓reduceIte, eStep, List.length_append, hP _, tokLen]
      · intro hc2
        simp only [tokLen] at hc2
        have hc2' : ¬ w.acc.length + S.pubLen > c2 := by omega
        simp only [hc2', ↓reduceIte]
  | s =>
    rw [writeTok_s_eq] at h
    rw [writeTok_s_eq, writeTok_s_eq]
    by_cases hon : (!w.hs.s.on) = true
    · simp [hon] at h
    · have hon' : w.hs.s.on = true := by simpa using hon
      have hs1 := hw.1 hon'
      by_cases hc1 : w.acc.length + S.pubLen + (if w.hs.sym.hasKey then 16 else 0) > c1
      · simp [hon, hc1] at h
      · simp only [hon, hc1, ↓reduceIte, Bool.false_eq_true] at h ⊢
        refine ⟨?_, ?_⟩
        · cases hr : (w.hs.sym.encryptAndMixHash S w.hs.s.val.pub (c1 - w.acc.length)).1 with
          | ok c =>
            have hl := Sym.encrypt_ok_len S hE _ _ _ c hr
            simp only [Sym.okBytes, List.length_append, tokLen]
            omega
          | err e => simp [hr, Res.toUnit] at h
          | panic q => simp [hr, Res.toUnit] at h
        · intro hc2
          simp only [tokLen] at hc2
          have hc2' : ¬ w.acc.length + S.pubLen + (if w.hs.sym.hasKey then 16 else 0) > c2 := by omega
          have := Sym.encrypt_cap_indep S w.hs.sym w.hs.s.val.pub (c2 - w.acc.length) (c1 - w.acc.length)
            (by omega) (by omega)
          simp only [hc2', ↓reduceIte, this]
  | psk n =>
    refine ⟨?_, fun _ => ?_⟩
    · rw [writeTok_psk_eq]; simp only [tokLen, Nat.add_zero]
    · rw [writeTok_psk_eq, writeTok_psk_eq]
  | ee =>
    refine ⟨?_, fun _ => ?_⟩
    · rw [writeTok_dh_eq S c1 w _ (by simp)]; simp only [tokLen, Nat.add_zero]
    · rw [writeTok_dh_eq S c1 w _ (by simp), writeTok_dh_eq S c2 w _ (by simp)]
  | es =>
    refine ⟨?_, fun _ => ?_⟩
    · rw [writeTok_dh_eq S c1 w _ (by simp)]; simp only [tokLen, Nat.add_zero]
    · rw [writeTok_dh_eq S c1 w _ (by simp), writeTok_dh_eq S c2 w _ (by simp)]
  | se =>
    refine ⟨?_, fun _ => ?_⟩
    · rw [writeTok_dh_eq S c1 w _ (by simp)]; simp only [tokLen, Nat.add_zero]
    · rw [writeTok_dh_eq S c1 w _ (by simp), writeTok_dh_eq S c2 w _ (by simp)]
  | ss =>
    refine ⟨?_, fun _ => ?_⟩
    · rw [writeTok_dh_eq S c1 w _ (by simp)]; simp only [tokLen, Nat.add_zero]
    · rw [writeTok_dh_eq S c1 w _ (by simp), writeTok_dh_eq S c2 w _ (by simp)]

/-- A successful token loop of `_write_message` wrote exactly `fieldsLen` bytes, ends in the
    keyedness `fieldsLen` predicts, and does exactly the same in every other buffer that has room
    for these bytes. -/
theorem writeToks_exact (S : Suite) (hE : S.EncLen) (hP : S.PubLen) (c1 c2 : Nat) (ts : List Tok) (w : WS)
    (hw : PubWf S w.hs) (h : (writeToks S c1 ts w).1 = .ok ()) :
    (writeToks S c1 ts w).2.acc.length = w.acc.length + (fieldsLen S w.hs.isPsk ts w.hs.sym.hasKey).1 ∧
    (writeToks S c1 ts w).2.hs.sym.hasKey = (fieldsLen S w.hs.isPsk ts w.hs.sym.hasKey).2 ∧
    (w.acc.length + (fieldsLen S w.hs.isPsk ts w.hs.sym.hasKey).1 ≤ c2 →
      writeToks S c2 ts w = writeToks S c1 ts w) := by
  induction ts generalizing w with
  | nil => simp [writeToks, fieldsLen]
  | cons t ts ih =>
    unfold writeToks at h
    cases hr : (writeTok S c1 w t).1 with
    | ok u =>
      simp only [hr] at h
      have h1 := writeTok_exact S hE hP c1 c2 w t hw hr
      have hk := writeTok_keyed S c1 w t hr
      have h2 := ih (writeTok S c1 w t).2 (writeTok_pubWf S c1 w t hw) h
      rw [(writeTok_frame S c1 w t).isPsk, h1.1, hk] at h2
      have hunf : writeToks S c1 (t :: ts) w = writeToks S c1 ts (writeTok S c1 w t).2 := by
        rw [writeToks]; simp only [hr]
      rw [hunf]
      simp only [fieldsLen]
      refine ⟨by omega, h2.2.1, ?_⟩
      intro hc2
      have e1 := h1.2 (by omega)
      rw [writeToks]
      simp only [e1, hr]
      exact h2.2.2 (by omega)
    | err e => simp [hr] at h
    | panic q => simp [hr] at h

/-- The form used below: a token loop that succeeded in some buffer `capM` succeeds with the same
    result in every buffer `cap` that holds the `fieldsLen` bytes it writes. -/
theorem writeToks_shrink (S : Suite) (hE : S.EncLen) (hP : S.PubLen) (capM cap : Nat) (ts : List Tok) (w w' : WS)
    (hw : PubWf S w.hs) (h : writeToks S capM ts w = (.ok (), w'))
    (hfit : w.acc.length + (fieldsLen S w.hs.isPsk ts w.hs.sym.hasKey).1 ≤ cap) :
    writeToks S cap ts w = (.ok (), w') ∧
    w'.acc.length = w.acc.length + (fieldsLen S w.hs.isPsk ts w.hs.sym.hasKey).1 ∧
    w'.hs.sym.hasKey = (fieldsLen S w.hs.isPsk ts w.hs.sym.hasKey).2 := by
  have hx := writeToks_exact S hE hP capM cap ts w hw (by rw [h])
  rw [h] at hx
  exact ⟨hx.2.2 hfit, hx.1, hx.2.1⟩

/-- What `_write_message` returns when the token loop and the payload encryption succeed, under
    the exact checks of the code: fixed fields + payload + 16 fit the buffer, and the message
    (with a tag only when keyed) is at most 65535 bytes. -/
theorem writeInner_ok_honest_exact (S : Suite) (hs : HS) (p : Bytes) (cap : Nat) (w' : WS)
    (ht : hs.myTurn = true) (hp : hs.pos < hs.msgs.length)
    (hw : writeToks S cap (hs.msgs.getD hs.pos []) { hs := hs, acc := [], ev := [] } = (.ok (), w'))
    (hc1 : w'.acc.length + p.length + 16 ≤ cap)
    (hc2 : w'.acc.length + p.length + (if w'.hs.sym.hasKey = true then 16 else 0) ≤ 65535)
    (inv : SymInv w'.hs.sym) (hn : w'.hs.sym.hasKey = true → w'.hs.sym.cs.n ≠ CipherState.nonceMax) :
    writeInner S hs p cap =
      (.ok (w'.acc.length + (fieldBytes S w'.hs.sym p).length),
       { hs := (if w'.hs.pos == w'.hs.msgs.length - 1 then
                  { w'.hs with sym := symAfterField S w'.hs.sym p,
                               cs1 := ((symAfterField S w'.hs.sym p).split S).1,
                               cs2 := ((symAfterField S w'.hs.sym p).split S).2 }
                else { w'.hs with sym := symAfterField S w'.hs.sym p }),
         acc := w'.acc ++ fieldBytes S w'.hs.sym p,
         ev := w'.ev ++ (w'.hs.sym.encryptAndMixHash S p (cap - w'.acc.length)).2.2 }) := by
  have henc := encrypt_field S w'.hs.sym p (cap - w'.acc.length) inv hn (by omega)
  have g1 : ¬ hs.pos ≥ hs.msgs.length := by omega
  have g2 : ¬ w'.acc.length + p.length + 16 > cap := by omega
  have g3 : ¬ w'.acc.length + p.length + (if w'.hs.sym.hasKey = true then 16 else 0) > 65535 := by omega
  unfold writeInner
  simp only [ht, Bool.not_true, Bool.false_eq_true, ↓reduceIte, g1, hw, g2, g3, henc.1, henc.2]

/-- `has_key` and `is_psk` after a successful `write_message`. -/
theorem writeMessage_ok_keyed (S : Suite) (hs : HS) (p : Bytes) (cap : Nat) (n : Nat)
    (h : (hs.writeMessage S p cap).1 = .ok n) :
    (hs.writeMessage S p cap).2.1.sym.hasKey = keyedAfter hs.isPsk (hs.msgs.getD hs.pos []) hs.sym.hasKey ∧
    (hs.writeMessage S p cap).2.1.isPsk = hs.isPsk := by
  have hfr := writeInner_frame S hs p cap
  simp only at hfr
  unfold writeMessage at h ⊢
  cases hr : (writeInner S hs p cap).1 with
  | ok m =>
    simp only [hr] at h ⊢
    exact ⟨writeInner_keyed S hs p cap m hr, hfr.2.1⟩
  | err e => simp [hr] at h
  | panic q => simp [hr] at h

end SnowVerif.Model.HS
