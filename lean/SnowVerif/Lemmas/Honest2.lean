/-
  Lockstep of writer and reader over one token and over a token list (both role assignments).
  `tokA`/`toksA`: the initiator writes; `tokB`/`toksB`: the responder writes.
  (The A/B pairs are instances of one template; see DESIGN.md.)
-/
import SnowVerif.Lemmas.Honest
import SnowVerif.Lemmas.Equiv2

open SnowVerif SnowVerif.Model SnowVerif.Model.HS
set_option linter.unusedVariables false
set_option linter.unusedSimpArgs false

namespace SnowVerif.Model.HS
open Bytes

/-- One token processed by the initiator `A` as writer and the responder `B` as reader. The reader's successor state
    `R'` and events do not depend on what follows the token's bytes. -/
theorem tokA (S : Suite) (hEL : S.EncLen) (hDE : S.DecEnc) (hPL : S.PubLen) (hPT : S.PrivTotal)
    (hDC : S.DhComm) (hDT : S.DhTotal)
    {k k' : Spec.Keys} {A B : HS} (h : Sync S k A B) (okW : PartyOk S A)
    (t : Tok) (hk : k.step true t = some k')
    (hs_on : t = .s → A.s.on = true)
    (hpsk : ∀ n, t = .psk n → n < 10 ∧ ∃ key, A.psks.getD n none = some key)
    (hn : A.sym.hasKey = true → A.sym.cs.n ≠ CipherState.nonceMax)
    (w : WS) (hw : w.hs = A) (cap : Nat) (hcap : w.acc.length + S.pubLen + 16 ≤ cap) :
    ∃ (f : Bytes) (w' : WS) (R' : HS) (evr : List Event),
      writeTok S cap w t = (.ok (), w') ∧ w'.acc = w.acc ++ f ∧ f.length ≤ S.pubLen + 16 ∧
      w'.hs.sym.cs.n.toNat ≤ A.sym.cs.n.toNat + 1 ∧ Sync S k' w'.hs R' ∧
      ∀ (r : RS) (rest : Bytes), r.hs = B → r.ptr = f ++ rest →
        readTok S r t = (.ok (), { hs := R', ptr := rest, ev := r.ev ++ evr }) := by
  have hsymWR : A.sym = B.sym := h.sym
  have hpskWR : A.isPsk = B.isPsk := h.isPsk
  cases t with
  | e =>
    obtain ⟨kp, rng', ev, hkp, hwr, hrd⟩ := e_write_read S hPL hPT A B hsymWR hpskWR okW.ePub w hw cap (by omega)
    have hkl : kp.pub.length = S.pubLen := by rw [hkp]; exact hPL _
    simp only [Spec.Keys.step, Bool.false_eq_true, ↓reduceIte] at hk
    split at hk
    · simp at hk
    · simp at hk; subst hk
      refine ⟨kp.pub, _, { B with re := { val := kp.pub, on := true }, sym := symAfterE S A.sym A.isPsk kp.pub }, [], hwr, rfl, by omega, ?_, ?_, ?_⟩
      · simp only [symAfterE]
        split
        · simp [Sym.mixKey, CipherState.set]
        · simp [Sym.mixHash]
      · exact ⟨h.ia, h.ib, rfl, h.isPsk, h.psks, fun _ => ⟨rfl, rfl, rfl, hkp⟩, h.iS, h.rE, h.rS, h.niS, h.nrS⟩
      · intro r rest hr hp
        rw [hrd r rest hr hp]; simp
  | s =>
    obtain ⟨ev, evr, hwr, hrd⟩ := s_write_read S hEL hDE hPL A B hsymWR (hs_on rfl) (okW.sPub (hs_on rfl)) okW.inv hn w hw cap hcap
    have hfl := fieldBytes_length S hEL A.sym A.s.val.pub
    have hl : A.s.val.pub.length = S.pubLen := by rw [okW.sPub (hs_on rfl)]; exact hPL _
    have hf := symAfterField_facts S A.sym A.s.val.pub okW.inv hn
    simp only [Spec.Keys.step] at hk
    split at hk
    · simp at hk
    · simp only [Bool.false_eq_true, ↓reduceIte] at hk
      split at hk
      · simp at hk
      · simp at hk; subst hk
        refine ⟨fieldBytes S A.sym A.s.val.pub, _, { B with sym := symAfterField S A.sym A.s.val.pub, rs := { val := A.s.val.pub, on := true } }, evr, hwr, rfl, by rw [hfl, hl]; split <;> omega, hf.2.2.1, ?_, hrd⟩
        exact ⟨h.ia, h.ib, rfl, h.isPsk, h.psks, h.iE, fun _ => ⟨hs_on rfl, rfl, rfl, okW.sPub (hs_on rfl)⟩, h.rE, h.rS, fun x => absurd x (by simp), h.nrS⟩
  | psk n =>
    obtain ⟨hn10, key, hkey⟩ := hpsk n rfl
    obtain ⟨ha, hb, hsync⟩ := psk_sync S h n key hn10 hkey
    have hk' : k' = k := by simp [Spec.Keys.step] at hk; exact hk.symm
    subst hw
    refine ⟨[], { w with hs := { w.hs with sym := w.hs.sym.mixKeyAndHash S key } },
            { B with sym := B.sym.mixKeyAndHash S key }, [], ?_, by simp, by simp, ?_, by rw [hk']; exact hsync, ?_⟩
    · simp only [writeTok, ha]
    · simp [Sym.mixKeyAndHash, Sym.mixHash, CipherState.set]
    · intro r rest hr hp
      subst hr
      simp only [readTok, hb]
      cases r; simp at hp ⊢; exact hp
  | ee => 
    obtain ⟨out, ha, hb, hsync⟩ := dh_sync S hDC hDT h .ee true (Or.inl rfl) hk
    subst hw
    refine ⟨[], { w with hs := { w.hs with sym := w.hs.sym.mixKey S out } },
            { B with sym := B.sym.mixKey S out }, [], ?_, by simp, by simp, ?_, hsync, ?_⟩
    · simp only [writeTok, ha]
    · simp [Sym.mixKey, CipherState.set]
    · intro r rest hr hp
      subst hr
      simp only [readTok, hb]
      cases r; simp at hp ⊢; exact hp
  | es => 
    obtain ⟨out, ha, hb, hsync⟩ := dh_sync S hDC hDT h .es true (Or.inr (Or.inl rfl)) hk
    subst hw
    refine ⟨[], { w with hs := { w.hs with sym := w.hs.sym.mixKey S out } },
            { B with sym := B.sym.mixKey S out }, [], ?_, by simp, by simp, ?_, hsync, ?_⟩
    · simp only [writeTok, ha]
    · simp [Sym.mixKey, CipherState.set]
    · intro r rest hr hp
      subst hr
      simp only [readTok, hb]
      cases r; simp at hp ⊢; exact hp
  | se => 
    obtain ⟨out, ha, hb, hsync⟩ := dh_sync S hDC hDT h .se true (Or.inr (Or.inr (Or.inl rfl))) hk
    subst hw
    refine ⟨[], { w with hs := { w.hs with sym := w.hs.sym.mixKey S out } },
            { B with sym := B.sym.mixKey S out }, [], ?_, by simp, by simp, ?_, hsync, ?_⟩
    · simp only [writeTok, ha]
    · simp [Sym.mixKey, CipherState.set]
    · intro r rest hr hp
      subst hr
      simp only [readTok, hb]
      cases r; simp at hp ⊢; exact hp
  | ss => 
    obtain ⟨out, ha, hb, hsync⟩ := dh_sync S hDC hDT h .ss true (Or.inr (Or.inr (Or.inr rfl))) hk
    subst hw
    refine ⟨[], { w with hs := { w.hs with sym := w.hs.sym.mixKey S out } },
            { B with sym := B.sym.mixKey S out }, [], ?_, by simp, by simp, ?_, hsync, ?_⟩
    · simp only [writeTok, ha]
    · simp [Sym.mixKey, CipherState.set]
    · intro r rest hr hp
      subst hr
      simp only [readTok, hb]
      cases r; simp at hp ⊢; exact hp


/-- One token processed by the responder `B` as writer and the initiator `A` as reader. The reader's successor state
    `R'` and events do not depend on what follows the token's bytes. -/
theorem tokB (S : Suite) (hEL : S.EncLen) (hDE : S.DecEnc) (hPL : S.PubLen) (hPT : S.PrivTotal)
    (hDC : S.DhComm) (hDT : S.DhTotal)
    {k k' : Spec.Keys} {A B : HS} (h : Sync S k A B) (okW : PartyOk S B)
    (t : Tok) (hk : k.step false t = some k')
    (hs_on : t = .s → B.s.on = true)
    (hpsk : ∀ n, t = .psk n → n < 10 ∧ ∃ key, A.psks.getD n none = some key)
    (hn : B.sym.hasKey = true → B.sym.cs.n ≠ CipherState.nonceMax)
    (w : WS) (hw : w.hs = B) (cap : Nat) (hcap : w.acc.length + S.pubLen + 16 ≤ cap) :
    ∃ (f : Bytes) (w' : WS) (R' : HS) (evr : List Event),
      writeTok S cap w t = (.ok (), w') ∧ w'.acc = w.acc ++ f ∧ f.length ≤ S.pubLen + 16 ∧
      w'.hs.sym.cs.n.toNat ≤ B.sym.cs.n.toNat + 1 ∧ Sync S k' R' w'.hs ∧
      ∀ (r : RS) (rest : Bytes), r.hs = A → r.ptr = f ++ rest →
        readTok S r t = (.ok (), { hs := R', ptr := rest, ev := r.ev ++ evr }) := by
  have hsymWR : B.sym = A.sym := h.sym.symm
  have hpskWR : B.isPsk = A.isPsk := h.isPsk.symm
  cases t with
  | e =>
    obtain ⟨kp, rng', ev, hkp, hwr, hrd⟩ := e_write_read S hPL hPT B A hsymWR hpskWR okW.ePub w hw cap (by omega)
    have hkl : kp.pub.length = S.pubLen := by rw [hkp]; exact hPL _
    simp only [Spec.Keys.step, Bool.false_eq_true, ↓reduceIte] at hk
    split at hk
    · simp at hk
    · simp at hk; subst hk
      refine ⟨kp.pub, _, { A with re := { val := kp.pub, on := true }, sym := symAfterE S B.sym B.isPsk kp.pub }, [], hwr, rfl, by omega, ?_, ?_, ?_⟩
      · simp only [symAfterE]
        split
        · simp [Sym.mixKey, CipherState.set]
        · simp [Sym.mixHash]
      · exact ⟨h.ia, h.ib, by simp only [h.sym, h.isPsk], h.isPsk, h.psks, h.iE, h.iS, fun _ => ⟨rfl, rfl, rfl, hkp⟩, h.rS, h.niS, h.nrS⟩
      · intro r rest hr hp
        rw [hrd r rest hr hp]; simp
  | s =>
    obtain ⟨ev, evr, hwr, hrd⟩ := s_write_read S hEL hDE hPL B A hsymWR (hs_on rfl) (okW.sPub (hs_on rfl)) okW.inv hn w hw cap hcap
    have hfl := fieldBytes_length S hEL B.sym B.s.val.pub
    have hl : B.s.val.pub.length = S.pubLen := by rw [okW.sPub (hs_on rfl)]; exact hPL _
    have hf := symAfterField_facts S B.sym B.s.val.pub okW.inv hn
    simp only [Spec.Keys.step] at hk
    split at hk
    · simp at hk
    · simp only [Bool.false_eq_true, ↓reduceIte] at hk
      split at hk
      · simp at hk
      · simp at hk; subst hk
        refine ⟨fieldBytes S B.sym B.s.val.pub, _, { A with sym := symAfterField S B.sym B.s.val.pub, rs := { val := B.s.val.pub, on := true } }, evr, hwr, rfl, by rw [hfl, hl]; split <;> omega, hf.2.2.1, ?_, hrd⟩
        exact ⟨h.ia, h.ib, rfl, h.isPsk, h.psks, h.iE, h.iS, h.rE, fun _ => ⟨hs_on rfl, rfl, rfl, okW.sPub (hs_on rfl)⟩, h.niS, fun x => absurd x (by simp)⟩
  | psk n =>
    obtain ⟨hn10, key, hkey⟩ := hpsk n rfl
    obtain ⟨ha, hb, hsync⟩ := psk_sync S h n key hn10 hkey
    have hk' : k' = k := by simp [Spec.Keys.step] at hk; exact hk.symm
    subst hw
    refine ⟨[], { w with hs := { w.hs with sym := w.hs.sym.mixKeyAndHash S key } },
            { A with sym := A.sym.mixKeyAndHash S key }, [], ?_, by simp, by simp, ?_, by rw [hk']; exact hsync, ?_⟩
    · simp only [writeTok, hb]
    · simp [Sym.mixKeyAndHash, Sym.mixHash, CipherState.set]
    · intro r rest hr hp
      subst hr
      simp only [readTok, ha]
      cases r; simp at hp ⊢; exact hp
  | ee => 
    obtain ⟨out, ha, hb, hsync⟩ := dh_sync S hDC hDT h .ee false (Or.inl rfl) hk
    subst hw
    refine ⟨[], { w with hs := { w.hs with sym := w.hs.sym.mixKey S out } },
            { A with sym := A.sym.mixKey S out }, [], ?_, by simp, by simp, ?_, hsync, ?_⟩
    · simp only [writeTok, hb]
    · simp [Sym.mixKey, CipherState.set]
    · intro r rest hr hp
      subst hr
      simp only [readTok, ha]
      cases r; simp at hp ⊢; exact hp
  | es => 
    obtain ⟨out, ha, hb, hsync⟩ := dh_sync S hDC hDT h .es false (Or.inr (Or.inl rfl)) hk
    subst hw
    refine ⟨[], { w with hs := { w.hs with sym := w.hs.sym.mixKey S out } },
            { A with sym := A.sym.mixKey S out }, [], ?_, by simp, by simp, ?_, hsync, ?_⟩
    · simp only [writeTok, hb]
    · simp [Sym.mixKey, CipherState.set]
    · intro r rest hr hp
      subst hr
      simp only [readTok, ha]
      cases r; simp at hp ⊢; exact hp
  | se => 
    obtain ⟨out, ha, hb, hsync⟩ := dh_sync S hDC hDT h .se false (Or.inr (Or.inr (Or.inl rfl))) hk
    subst hw
    refine ⟨[], { w with hs := { w.hs with sym := w.hs.sym.mixKey S out } },
            { A with sym := A.sym.mixKey S out }, [], ?_, by simp, by simp, ?_, hsync, ?_⟩
    · simp only [writeTok, hb]
    · simp [Sym.mixKey, CipherState.set]
    · intro r rest hr hp
      subst hr
      simp only [readTok, ha]
      cases r; simp at hp ⊢; exact hp
  | ss => 
    obtain ⟨out, ha, hb, hsync⟩ := dh_sync S hDC hDT h .ss false (Or.inr (Or.inr (Or.inr rfl))) hk
    subst hw
    refine ⟨[], { w with hs := { w.hs with sym := w.hs.sym.mixKey S out } },
            { A with sym := A.sym.mixKey S out }, [], ?_, by simp, by simp, ?_, hsync, ?_⟩
    · simp only [writeTok, hb]
    · simp [Sym.mixKey, CipherState.set]
    · intro r rest hr hp
      subst hr
      simp only [readTok, ha]
      cases r; simp at hp ⊢; exact hp


theorem writeTok_partyOk (S : Suite) (cap : Nat) (w : WS) (t : Tok) (h : PartyOk S w.hs) :
    PartyOk S (writeTok S cap w t).2.hs := by
  have hf := writeTok_frame S cap w t
  have he := writeTok_e_facts S cap w t
  refine ⟨writeTok_inv S cap w t h.inv, by rw [hf.s]; exact h.sPub, ?_⟩
  intro hfix
  rw [hf.fixedE] at hfix
  rw [he.2.1 (Or.inl hfix)]
  exact h.ePub hfix

theorem nonce_ne_max_of_lt (n : UInt64) (h : n.toNat < 2 ^ 64 - 1) : n ≠ CipherState.nonceMax := by
  intro hh; rw [hh] at h; simp [CipherState.nonceMax] at h

/-- A token list processed by the initiator `A` as writer and the responder `B` as reader, in lockstep. -/
theorem toksA (S : Suite) (hEL : S.EncLen) (hDE : S.DecEnc) (hPL : S.PubLen) (hPT : S.PrivTotal)
    (hDC : S.DhComm) (hDT : S.DhTotal) (ts : List Tok)
    {k k' : Spec.Keys} {A B : HS} (h : Sync S k A B) (okW : PartyOk S A)
    (hk : k.runToks true ts = some k')
    (hs_on : Tok.s ∈ ts → A.s.on = true)
    (hpsk : ∀ n, Tok.psk n ∈ ts → n < 10 ∧ ∃ key, A.psks.getD n none = some key)
    (hn : A.sym.cs.n.toNat + ts.length < 2 ^ 64 - 1)
    (w : WS) (hw : w.hs = A) (cap : Nat) (hcap : w.acc.length + ts.length * (S.pubLen + 16) ≤ cap) :
    ∃ (f : Bytes) (w' : WS) (R' : HS) (evr : List Event),
      writeToks S cap ts w = (.ok (), w') ∧ w'.acc = w.acc ++ f ∧ f.length ≤ ts.length * (S.pubLen + 16) ∧
      w'.hs.sym.cs.n.toNat ≤ A.sym.cs.n.toNat + ts.length ∧ Sync S k' w'.hs R' ∧
      ∀ (r : RS) (rest : Bytes), r.hs = B → r.ptr = f ++ rest →
        readToks S ts r = (.ok (), { hs := R', ptr := rest, ev := r.ev ++ evr }) := by
  induction ts generalizing k A B w with
  | nil =>
    simp only [Spec.Keys.runToks, Option.some.injEq] at hk
    subst hk
    subst hw
    refine ⟨[], w, B, [], rfl, by simp, by simp, by omega, h, ?_⟩
    intro r rest hr hp
    subst hr
    simp only [readToks]
    cases r; simp at hp ⊢; exact hp
  | cons t ts ih =>
    simp only [Spec.Keys.runToks] at hk
    cases hk1 : k.step true t with
    | none => rw [hk1] at hk; simp at hk
    | some k1 =>
      rw [hk1] at hk
      simp only [Option.bind_some] at hk
      have hlen : (t :: ts).length = ts.length + 1 := rfl
      obtain ⟨f1, w1, R1, evr1, hw1, hacc1, hf1, hn1, hs1, hrd1⟩ :=
        tokA S hEL hDE hPL hPT hDC hDT h okW t hk1 (fun ht => hs_on (by rw [ht]; exact List.mem_cons_self))
          (fun n ht => hpsk n (by rw [ht]; exact List.mem_cons_self))
          (fun _ => nonce_ne_max_of_lt _ (by omega)) w hw cap
          (by rw [hlen, Nat.add_mul] at hcap; omega)
      have hfr := writeTok_frame S cap w t
      rw [hw1] at hfr
      simp only at hfr
      have ok1 : PartyOk S w1.hs := by
        have := writeTok_partyOk S cap w t (by rw [hw]; exact okW)
        rw [hw1] at this; exact this
      have hW1s : w1.hs.s = A.s := by rw [hfr.s, hw]
      have hpsks1 : w1.hs.psks = A.psks := by rw [hfr.psks, hw]
      obtain ⟨f2, w2, R2, evr2, hw2, hacc2, hf2, hn2, hs2, hrd2⟩ :=
        ih (k := k1) (A := w1.hs) (B := R1) hs1 ok1 hk
          (fun hm => by rw [hW1s]; exact hs_on (List.mem_cons_of_mem _ hm))
          (fun n hm => by rw [hpsks1]; exact hpsk n (List.mem_cons_of_mem _ hm))
          (by rw [hlen] at hn; omega) w1 rfl
          (by rw [hacc1, List.length_append]; rw [hlen, Nat.add_mul] at hcap; omega)
      refine ⟨f1 ++ f2, w2, R2, evr1 ++ evr2, ?_, by rw [hacc2, hacc1, List.append_assoc], ?_, by rw [hlen]; omega, hs2, ?_⟩
      · unfold writeToks; rw [hw1]; exact hw2
      · rw [List.length_append, hlen, Nat.add_mul]; omega
      · intro r rest hr hp
        have h1 := hrd1 r (f2 ++ rest) hr (by rw [hp, List.append_assoc])
        unfold readToks
        rw [h1]
        simp only
        rw [hrd2 { hs := R1, ptr := f2 ++ rest, ev := r.ev ++ evr1 } rest rfl rfl]
        simp


/-- A token list processed by the responder `B` as writer and the initiator `A` as reader, in lockstep. -/
theorem toksB (S : Suite) (hEL : S.EncLen) (hDE : S.DecEnc) (hPL : S.PubLen) (hPT : S.PrivTotal)
    (hDC : S.DhComm) (hDT : S.DhTotal) (ts : List Tok)
    {k k' : Spec.Keys} {A B : HS} (h : Sync S k A B) (okW : PartyOk S B)
    (hk : k.runToks false ts = some k')
    (hs_on : Tok.s ∈ ts → B.s.on = true)
    (hpsk : ∀ n, Tok.psk n ∈ ts → n < 10 ∧ ∃ key, A.psks.getD n none = some key)
    (hn : B.sym.cs.n.toNat + ts.length < 2 ^ 64 - 1)
    (w : WS) (hw : w.hs = B) (cap : Nat) (hcap : w.acc.length + ts.length * (S.pubLen + 16) ≤ cap) :
    ∃ (f : Bytes) (w' : WS) (R' : HS) (evr : List Event),
      writeToks S cap ts w = (.ok (), w') ∧ w'.acc = w.acc ++ f ∧ f.length ≤ ts.length * (S.pubLen + 16) ∧
      w'.hs.sym.cs.n.toNat ≤ B.sym.cs.n.toNat + ts.length ∧ Sync S k' R' w'.hs ∧
      ∀ (r : RS) (rest : Bytes), r.hs = A → r.ptr = f ++ rest →
        readToks S ts r = (.ok (), { hs := R', ptr := rest, ev := r.ev ++ evr }) := by
  induction ts generalizing k A B w with
  | nil =>
    simp only [Spec.Keys.runToks, Option.some.injEq] at hk
    subst hk
    subst hw
    refine ⟨[], w, A, [], rfl, by simp, by simp, by omega, h, ?_⟩
    intro r rest hr hp
    subst hr
    simp only [readToks]
    cases r; simp at hp ⊢; exact hp
  | cons t ts ih =>
    simp only [Spec.Keys.runToks] at hk
    cases hk1 : k.step false t with
    | none => rw [hk1] at hk; simp at hk
    | some k1 =>
      rw [hk1] at hk
      simp only [Option.bind_some] at hk
      have hlen : (t :: ts).length = ts.length + 1 := rfl
      obtain ⟨f1, w1, R1, evr1, hw1, hacc1, hf1, hn1, hs1, hrd1⟩ :=
        tokB S hEL hDE hPL hPT hDC hDT h okW t hk1 (fun ht => hs_on (by rw [ht]; exact List.mem_cons_self))
          (fun n ht => hpsk n (by rw [ht]; exact List.mem_cons_self))
          (fun _ => nonce_ne_max_of_lt _ (by omega)) w hw cap
          (by rw [hlen, Nat.add_mul] at hcap; omega)
      have hfr := writeTok_frame S cap w t
      rw [hw1] at hfr
      simp only at hfr
      have ok1 : PartyOk S w1.hs := by
        have := writeTok_partyOk S cap w t (by rw [hw]; exact okW)
        rw [hw1] at this; exact this
      have hW1s : w1.hs.s = B.s := by rw [hfr.s, hw]
      have hpsks1 : R1.psks = A.psks := by rw [hs1.psks, hfr.psks, hw, ← h.psks]
      obtain ⟨f2, w2, R2, evr2, hw2, hacc2, hf2, hn2, hs2, hrd2⟩ :=
        ih (k := k1) (A := R1) (B := w1.hs) hs1 ok1 hk
          (fun hm => by rw [hW1s]; exact hs_on (List.mem_cons_of_mem _ hm))
          (fun n hm => by rw [hpsks1]; exact hpsk n (List.mem_cons_of_mem _ hm))
          (by rw [hlen] at hn; omega) w1 rfl
          (by rw [hacc1, List.length_append]; rw [hlen, Nat.add_mul] at hcap; omega)
      refine ⟨f1 ++ f2, w2, R2, evr1 ++ evr2, ?_, by rw [hacc2, hacc1, List.append_assoc], ?_, by rw [hlen]; omega, hs2, ?_⟩
      · unfold writeToks; rw [hw1]; exact hw2
      · rw [List.length_append, hlen, Nat.add_mul]; omega
      · intro r rest hr hp
        have h1 := hrd1 r (f2 ++ rest) hr (by rw [hp, List.append_assoc])
        unfold readToks
        rw [h1]
        simp only
        rw [hrd2 { hs := R1, ptr := f2 ++ rest, ev := r.ev ++ evr1 } rest rfl rfl]
        simp


end SnowVerif.Model.HS
