/-
  C06 over histories, Stage 3: the induction over the history.
-/
import SnowVerif.Lemmas.C06HistStep

namespace SnowVerif.C06
open SnowVerif SnowVerif.Model SnowVerif.Model.HS SnowVerif.Framing
open SnowVerif.Theorems.C11 (Op step run NoPanic)
set_option linter.unusedVariables false
set_option linter.unusedSimpArgs false

/-- Side conditions along a history: in every state it passes through the current message passes
    the Stage 2 scan in the current keyedness, and no call panics. -/
def HistOk (S : Suite) : HS → List Op → Prop
  | _, [] => True
  | hs, op :: ops => EAE hs ∧ NoPanic S hs op ∧ HistOk S (step S hs op) ops

theorem get_lt_of_some {α : Type} {l : List α} {i : Nat} {x : α} (h : l[i]? = some x) : i < l.length := by
  apply Classical.byContradiction
  intro hc
  rw [List.getElem?_eq_none (by omega)] at h
  cases h

theorem get_append_left' {α : Type} (l1 l2 : List α) (i : Nat) (hi : i < l1.length) : (l1 ++ l2)[i]? = l1[i]? :=
  List.getElem?_append_left hi

theorem get_append_right' {α : Type} (l1 l2 : List α) (i : Nat) (hi : l1.length ≤ i) :
    (l1 ++ l2)[i]? = l2[i - l1.length]? :=
  List.getElem?_append_right hi

theorem get_append_shift {α : Type} (l1 l2 : List α) (i : Nat) : (l1 ++ l2)[i + l1.length]? = l2[i]? := by
  rw [List.getElem?_append_right (by omega)]
  congr 1
  omega

/-- **Across calls.** From a state satisfying `P1st` or `Qst` for `(k, n, a1, p1)`, every later
    encryption under `(k, n)` in the history encrypts `(a1, p1)`, or a KDF installation of `k`
    precedes it in the history from that state. -/
theorem cross (S : Suite) (k : Bytes) (n : UInt64) (a1 p1 : Bytes) (ops : List Op) :
    ∀ y : HS, SymInv y.sym → HistOk S y ops → (P1st S k n a1 p1 y ∨ Qst k n y) →
    ∀ (j : Nat) (a2 p2 : Bytes), (histG S y ops)[j]? = some (HEv.g (.ev (.enc k n a2 p2))) →
      (a1 = a2 ∧ p1 = p2) ∨ ∃ m : Nat, m < j ∧ (histG S y ops)[m]? = some (HEv.g (.install k 0)) := by
  induction ops with
  | nil => intro y _ _ _ j a2 p2 hj; simp [histG] at hj
  | cons op ops ih =>
    intro y inv hok hrel j a2 p2 hj
    obtain ⟨hp, np, hok'⟩ := hok
    simp only [histG] at hj ⊢
    by_cases hjl : j < (callG S y op).length
    · rw [get_append_left' _ _ j hjl] at hj
      rcases step_event S y inv hp op k n a1 p1 hrel j a2 p2 hj with hl | ⟨m, hm, hg⟩
      · exact Or.inl hl
      · exact Or.inr ⟨m, hm, by rw [get_append_left' _ _ m (by omega)]; exact hg⟩
    · rw [get_append_right' _ _ j (by omega)] at hj
      rcases step_rel S y inv hp op np k n a1 p1 hrel with ⟨m, hg⟩ | hrel'
      · have hml := get_lt_of_some hg
        exact Or.inr ⟨m, by omega, by rw [get_append_left' _ _ m hml]; exact hg⟩
      · rcases ih (step S y op) (step_inv S y op inv) hok' hrel' _ a2 p2 hj with hl | ⟨m, hm, hg⟩
        · exact Or.inl hl
        · refine Or.inr ⟨m + (callG S y op).length, by omega, ?_⟩
          rw [get_append_shift]; exact hg

/-- **The history theorem, on the history log.** -/
theorem hist_no_reuse_log (S : Suite) (ops : List Op) :
    ∀ hs : HS, SymInv hs.sym → HistOk S hs ops →
    ∀ (i j : Nat), i < j → ∀ (k : Bytes) (n : UInt64) (a1 p1 a2 p2 : Bytes),
      (histG S hs ops)[i]? = some (HEv.g (.ev (.enc k n a1 p1))) →
      (histG S hs ops)[j]? = some (HEv.g (.ev (.enc k n a2 p2))) →
      (a1 = a2 ∧ p1 = p2) ∨
      ∃ c m : Nat, c ≤ i ∧ (histG S hs ops)[c]? = some HEv.callStart ∧
        (∀ c' : Nat, c < c' → c' ≤ i → (histG S hs ops)[c']? ≠ some HEv.callStart) ∧
        c ≤ m ∧ m < j ∧ (histG S hs ops)[m]? = some (HEv.g (.install k 0)) := by
  induction ops with
  | nil => intro hs _ _ i j _ k n a1 p1 a2 p2 hi; simp [histG] at hi
  | cons op ops ih =>
    intro hs inv hok i j hij k n a1 p1 a2 p2 hi hj
    obtain ⟨hp, np, hok'⟩ := hok
    simp only [histG] at hi hj ⊢
    have hL := callG_length_pos S hs op
    by_cases hil : i < (callG S hs op).length
    · -- the first encryption is in the first call: its call mark is position 0
      rw [get_append_left' _ _ i hil] at hi
      have hstart := callG_start S hs op
      have hc0 : (callG S hs op ++ histG S (step S hs op) ops)[0]? = some HEv.callStart := by
        rw [get_append_left' _ _ 0 hL]; exact hstart.1
      have hcn : ∀ c' : Nat, 0 < c' → c' ≤ i →
          (callG S hs op ++ histG S (step S hs op) ops)[c']? ≠ some HEv.callStart := by
        intro c' h1 h2
        rw [get_append_left' _ _ c' (by omega)]
        exact hstart.2 c' h1
      by_cases hjl : j < (callG S hs op).length
      · rw [get_append_left' _ _ j hjl] at hj
        rcases call_no_reuse S hs op i j hij k n a1 p1 a2 p2 hi hj with hl | ⟨m, h1, h2, hg⟩
        · exact Or.inl hl
        · exact Or.inr ⟨0, m, Nat.zero_le _, hc0, hcn, Nat.zero_le _, h2,
            by rw [get_append_left' _ _ m (by omega)]; exact hg⟩
      · rw [get_append_right' _ _ j (by omega)] at hj
        rcases step_first S hs inv hp op np k n a1 p1 i hi with ⟨m, hg⟩ | hrel
        · have hml := get_lt_of_some hg
          exact Or.inr ⟨0, m, Nat.zero_le _, hc0, hcn, Nat.zero_le _, by omega,
            by rw [get_append_left' _ _ m hml]; exact hg⟩
        · rcases cross S k n a1 p1 ops (step S hs op) (step_inv S hs op inv) hok' hrel _ a2 p2 hj with hl | ⟨m, hm, hg⟩
          · exact Or.inl hl
          · exact Or.inr ⟨0, m + (callG S hs op).length, Nat.zero_le _, hc0, hcn, Nat.zero_le _, by omega,
              by rw [get_append_shift]; exact hg⟩
    · rw [get_append_right' _ _ i (by omega)] at hi
      rw [get_append_right' _ _ j (by omega)] at hj
      rcases ih (step S hs op) (step_inv S hs op inv) hok' _ _ (by omega) k n a1 p1 a2 p2 hi hj with
        hl | ⟨c, m, h1, h2, h3, h4, h5, h6⟩
      · exact Or.inl hl
      · refine Or.inr ⟨c + (callG S hs op).length, m + (callG S hs op).length, by omega, ?_, ?_, by omega, by omega, ?_⟩
        · rw [get_append_shift]; exact h2
        · intro c' g1 g2
          rw [get_append_right' _ _ c' (by omega)]
          exact h3 _ (by omega) (by omega)
        · rw [get_append_shift]; exact h6

/-- Positions of the events of a history inside the history log: order preserving. -/
theorem herase_index2 (l : List HEv) (i j : Nat) (hij : i < j) (e e' : Event)
    (hi : (herase l)[i]? = some e) (hj : (herase l)[j]? = some e') :
    ∃ i' j' : Nat, i' < j' ∧ l[i']? = some (HEv.g (.ev e)) ∧ l[j']? = some (HEv.g (.ev e')) := by
  have one : ∀ (l : List HEv) (j : Nat) (e : Event), (herase l)[j]? = some e → ∃ j' : Nat, l[j']? = some (HEv.g (.ev e)) := by
    intro l
    induction l with
    | nil => intro j e h; simp [herase, flat, erase] at h
    | cons x l ih =>
      intro j e h
      have lift : (∃ j' : Nat, l[j']? = some (HEv.g (.ev e))) → ∃ j' : Nat, (x :: l)[j']? = some (HEv.g (.ev e)) := by
        rintro ⟨j', hg⟩; exact ⟨j' + 1, by simpa using hg⟩
      cases x with
      | callStart => exact lift (ih j e (by simpa [herase, flat] using h))
      | restore k n => exact lift (ih j e (by simpa [herase, flat, erase] using h))
      | g y =>
        cases y with
        | install k n => exact lift (ih j e (by simpa [herase, flat, erase] using h))
        | ev e0 =>
          cases j with
          | zero =>
            simp only [herase, flat, erase, List.getElem?_cons_zero, Option.some.injEq] at h
            exact ⟨0, by simp [h]⟩
          | succ j => exact lift (ih j e (by simpa [herase, flat, erase] using h))
  induction l generalizing i j with
  | nil => simp [herase, flat, erase] at hi
  | cons x l ih =>
    have lift : (∃ i' j' : Nat, i' < j' ∧ l[i']? = some (HEv.g (.ev e)) ∧ l[j']? = some (HEv.g (.ev e'))) →
        ∃ i' j' : Nat, i' < j' ∧ (x :: l)[i']? = some (HEv.g (.ev e)) ∧ (x :: l)[j']? = some (HEv.g (.ev e')) := by
      rintro ⟨i', j', h1, h2, h3⟩
      exact ⟨i' + 1, j' + 1, by omega, by simpa using h2, by simpa using h3⟩
    cases x with
    | callStart => exact lift (ih i j hij (by simpa [herase, flat] using hi) (by simpa [herase, flat] using hj))
    | restore k n =>
      exact lift (ih i j hij (by simpa [herase, flat, erase] using hi) (by simpa [herase, flat, erase] using hj))
    | g y =>
      cases y with
      | install k n =>
        exact lift (ih i j hij (by simpa [herase, flat, erase] using hi) (by simpa [herase, flat, erase] using hj))
      | ev e0 =>
        cases j with
        | zero => omega
        | succ j =>
          have hj' : (herase l)[j]? = some e' := by simpa [herase, flat, erase] using hj
          cases i with
          | zero =>
            simp only [herase, flat, erase, List.getElem?_cons_zero, Option.some.injEq] at hi
            obtain ⟨j', hg⟩ := one l j e' hj'
            exact ⟨0, j' + 1, by omega, by simp [hi], by simpa using hg⟩
          | succ i =>
            exact lift (ih i j (by omega) (by simpa [herase, flat, erase] using hi) hj')

end SnowVerif.C06
