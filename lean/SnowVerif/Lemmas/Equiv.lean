/-
  Equivalence of handshake states up to dead fields, and lemmas that every
  operation respects it (used by C07 and C02).
-/
import SnowVerif.Lemmas.Handshake

open SnowVerif SnowVerif.Model SnowVerif.Model.HS
set_option linter.unusedVariables false
set_option linter.unusedSimpArgs false

namespace SnowVerif.Model

/-- Symmetric states that agree on everything that can influence later behaviour: the handshake
    cipher (key, nonce) is compared only once a key has been installed (`k ≠ none`); before that it
    is never read (`has_key` is false). -/
def SymEq (a b : Sym) : Prop :=
  a.h = b.h ∧ a.ck = b.ck ∧ a.hasKey = b.hasKey ∧ a.k = b.k ∧ (a.k ≠ none → a.cs = b.cs)

namespace SymEq

theorem refl (a : Sym) : SymEq a a := ⟨rfl, rfl, rfl, rfl, fun _ => rfl⟩

theorem mixHash (S : Suite) {a b : Sym} (h : SymEq a b) (d : Bytes) : SymEq (a.mixHash S d) (b.mixHash S d) := by
  obtain ⟨h1, h2, h3, h4, h5⟩ := h
  unfold Sym.mixHash
  exact ⟨by simp [h1], h2, h3, h4, h5⟩

theorem mixKey (S : Suite) {a b : Sym} (h : SymEq a b) (d : Bytes) : SymEq (a.mixKey S d) (b.mixKey S d) := by
  obtain ⟨h1, h2, h3, h4, h5⟩ := h
  unfold Sym.mixKey CipherState.set
  simp only [h2]
  exact ⟨h1, rfl, rfl, rfl, fun _ => rfl⟩

theorem mixKeyAndHash (S : Suite) {a b : Sym} (h : SymEq a b) (d : Bytes) :
    SymEq (a.mixKeyAndHash S d) (b.mixKeyAndHash S d) := by
  obtain ⟨h1, h2, h3, h4, h5⟩ := h
  unfold Sym.mixKeyAndHash Sym.mixHash CipherState.set
  simp only [h2, h1]
  exact ⟨rfl, rfl, h3, rfl, fun _ => rfl⟩

/-- When a key is in use the cipher states are equal. -/
theorem cs_of_hasKey {a b : Sym} (h : SymEq a b) (ia : SymInv a) (hk : a.hasKey = true) : a.cs = b.cs := by
  apply h.2.2.2.2
  have := ia.2 hk
  intro hn; rw [hn] at this; simp at this

theorem encrypt (S : Suite) {a b : Sym} (h : SymEq a b) (ia : SymInv a) (pt : Bytes) (cap : Nat) :
    (a.encryptAndMixHash S pt cap).1 = (b.encryptAndMixHash S pt cap).1 ∧
    SymEq (a.encryptAndMixHash S pt cap).2.1 (b.encryptAndMixHash S pt cap).2.1 ∧
    (a.encryptAndMixHash S pt cap).2.2 = (b.encryptAndMixHash S pt cap).2.2 := by
  obtain ⟨h1, h2, h3, h4, h5⟩ := h
  cases hk : a.hasKey with
  | true =>
    have hcs : a.cs = b.cs := cs_of_hasKey ⟨h1, h2, h3, h4, h5⟩ ia hk
    have hab : a = b := by
      cases a; cases b; simp_all
    subst hab
    exact ⟨rfl, SymEq.refl _, rfl⟩
  | false =>
    have hkb : b.hasKey = false := by rw [← h3]; exact hk
    unfold Sym.encryptAndMixHash
    simp only [hk, hkb, Bool.false_eq_true, ↓reduceIte]
    split
    · exact ⟨rfl, ⟨h1, h2, h3, h4, h5⟩, rfl⟩
    · exact ⟨rfl, SymEq.mixHash S ⟨h1, h2, h3, h4, h5⟩ pt, rfl⟩

theorem decrypt (S : Suite) {a b : Sym} (h : SymEq a b) (ia : SymInv a) (d : Bytes) (cap : Nat) :
    (a.decryptAndMixHash S d cap).1 = (b.decryptAndMixHash S d cap).1 ∧
    SymEq (a.decryptAndMixHash S d cap).2.1 (b.decryptAndMixHash S d cap).2.1 ∧
    (a.decryptAndMixHash S d cap).2.2 = (b.decryptAndMixHash S d cap).2.2 := by
  obtain ⟨h1, h2, h3, h4, h5⟩ := h
  cases hk : a.hasKey with
  | true =>
    have hcs : a.cs = b.cs := cs_of_hasKey ⟨h1, h2, h3, h4, h5⟩ ia hk
    have hab : a = b := by
      cases a; cases b; simp_all
    subst hab
    exact ⟨rfl, SymEq.refl _, rfl⟩
  | false =>
    have hkb : b.hasKey = false := by rw [← h3]; exact hk
    unfold Sym.decryptAndMixHash
    simp only [hk, hkb, Bool.false_eq_true, ↓reduceIte]
    split
    · exact ⟨rfl, ⟨h1, h2, h3, h4, h5⟩, rfl⟩
    · exact ⟨rfl, SymEq.mixHash S ⟨h1, h2, h3, h4, h5⟩ d, rfl⟩

theorem split (S : Suite) {a b : Sym} (h : SymEq a b) : a.split S = b.split S := by
  unfold Sym.split; rw [h.2.1]

/-- Restoring a checkpoint of `c` into any state gives a state `SymEq` to `c`. -/
theorem restore (st c : Sym) (ic : SymInv c) : SymEq c (st.restore c.checkpoint) := by
  unfold Sym.restore Sym.checkpoint
  refine ⟨rfl, rfl, rfl, rfl, ?_⟩
  intro hk
  cases hkk : c.k with
  | none => exact absurd hkk hk
  | some key =>
    have := ic.1 key hkk
    simp only [CipherState.set]
    cases hc : c.cs with
    | mk ckey n hkey => rw [hc] at this; simp at this; simp [this.1, this.2]

end SymEq
end SnowVerif.Model

namespace SnowVerif.Model

/-- Handshake states equal up to fields that can no longer influence behaviour: the random
    stream position, the contents of a disabled non-fixed ephemeral, and the handshake cipher
    before any key was installed. -/
structure Equiv (a b : HS) : Prop where
  sym : SymEq a.sym b.sym
  cs1 : a.cs1 = b.cs1
  cs2 : a.cs2 = b.cs2
  s : a.s = b.s
  eon : a.e.on = b.e.on
  eval : (a.e.on = true ∨ a.fixedE = true) → a.e.val = b.e.val
  fixedE : a.fixedE = b.fixedE
  rs : a.rs = b.rs
  re : a.re = b.re
  initiator : a.initiator = b.initiator
  isPsk : a.isPsk = b.isPsk
  oneway : a.oneway = b.oneway
  psks : a.psks = b.psks
  myTurn : a.myTurn = b.myTurn
  msgs : a.msgs = b.msgs
  pos : a.pos = b.pos

theorem Equiv.refl (a : HS) : Equiv a a :=
  ⟨SymEq.refl _, rfl, rfl, rfl, rfl, fun _ => rfl, rfl, rfl, rfl, rfl, rfl, rfl, rfl, rfl, rfl, rfl⟩

theorem Equiv.withSym {a b : HS} (h : Equiv a b) (sa sb : Sym) (hs : SymEq sa sb) :
    Equiv { a with sym := sa } { b with sym := sb } :=
  ⟨hs, h.cs1, h.cs2, h.s, h.eon, h.eval, h.fixedE, h.rs, h.re, h.initiator, h.isPsk, h.oneway, h.psks,
   h.myTurn, h.msgs, h.pos⟩

namespace HS

theorem dh_equiv (S : Suite) {a b : HS} (h : Equiv a b) (t : Tok) : a.dh S t = b.dh S t := by
  have key : ∀ (ka kb : Toggle KeyPair) (r : Toggle Bytes), ka.on = kb.on → (ka.on = true → ka.val = kb.val) →
      (if !(ka.on && r.on) then (Res.err (.state .missingKeyMaterial) : Res Bytes)
       else match S.dh ka.val.priv r.val with | none => .err .dh | some out => .ok out) =
      (if !(kb.on && r.on) then (Res.err (.state .missingKeyMaterial) : Res Bytes)
       else match S.dh kb.val.priv r.val with | none => .err .dh | some out => .ok out) := by
    intro ka kb r hon hval
    cases hk : ka.on with
    | false => have : kb.on = false := by rw [← hon]; exact hk
               simp [hk, this]
    | true => have hb : kb.on = true := by rw [← hon]; exact hk
              rw [← hval hk]; simp [hk, hb]
  have he := key a.e b.e
  have hs' : a.s = b.s := h.s
  unfold HS.dh
  rw [← h.initiator, ← h.rs, ← h.re, ← hs']
  cases t <;> cases a.initiator <;> simp only <;>
    first | rfl | exact he _ h.eon (fun ho => h.eval (Or.inl ho))

theorem pskStep_equiv (S : Suite) {a b : HS} (h : Equiv a b) (n : Nat) :
    (pskStep S a n).1 = (pskStep S b n).1 ∧ Equiv (pskStep S a n).2 (pskStep S b n).2 ∧
    (pskStep S a n).2.rng = a.rng ∧ (pskStep S b n).2.rng = b.rng := by
  unfold pskStep
  have hg : b.psks.getD n none = a.psks.getD n none := by rw [h.psks]
  rw [hg]
  split
  · cases a.psks.getD n none with
    | none => exact ⟨rfl, h, rfl, rfl⟩
    | some psk =>
      exact ⟨rfl, h.withSym _ _ (SymEq.mixKeyAndHash S h.sym psk), rfl, rfl⟩
  · exact ⟨rfl, h, rfl, rfl⟩

theorem dhStep_equiv (S : Suite) {a b : HS} (h : Equiv a b) (t : Tok) :
    (dhStep S a t).1 = (dhStep S b t).1 ∧ Equiv (dhStep S a t).2 (dhStep S b t).2 ∧
    (dhStep S a t).2.rng = a.rng ∧ (dhStep S b t).2.rng = b.rng := by
  unfold dhStep
  rw [← dh_equiv S h t]
  cases a.dh S t with
  | ok out => exact ⟨rfl, h.withSym _ _ (SymEq.mixKey S h.sym out), rfl, rfl⟩
  | err e => exact ⟨rfl, h, rfl, rfl⟩
  | panic p => exact ⟨rfl, h, rfl, rfl⟩

end HS
end SnowVerif.Model

namespace SnowVerif.Model

/-- Working states of a write that agree up to dead fields and draw from the same random stream. -/
structure WEq (w1 w2 : WS) : Prop where
  hs : Equiv w1.hs w2.hs
  rng : w1.hs.rng = w2.hs.rng
  acc : w1.acc = w2.acc
  ev : w1.ev = w2.ev

/-- Closes the field goals of an `Equiv` whose fields were not touched. -/
macro "equiv_rest" h:ident : tactic =>
  `(tactic| first
    | rfl | exact ($h).cs1 | exact ($h).cs2 | exact ($h).s | exact ($h).eon | exact ($h).eval
    | exact ($h).fixedE | exact ($h).rs | exact ($h).re | exact ($h).initiator | exact ($h).isPsk
    | exact ($h).oneway | exact ($h).psks | exact ($h).myTurn | exact ($h).msgs | exact ($h).pos
    | (intro _; rfl))

namespace HS

theorem writeTok_equiv (S : Suite) (cap : Nat) {w1 w2 : WS} (h : WEq w1 w2) (inv : SymInv w1.hs.sym) (t : Tok) :
    (writeTok S cap w1 t).1 = (writeTok S cap w2 t).1 ∧ WEq (writeTok S cap w1 t).2 (writeTok S cap w2 t).2 := by
  obtain ⟨hE, hr, ha, hv⟩ := h
  cases t with
  | psk n =>
    have := pskStep_equiv S hE n
    simp only [writeTok]
    exact ⟨this.1, ⟨this.2.1, by rw [this.2.2.1, this.2.2.2, hr], ha, hv⟩⟩
  | ee =>
    have := dhStep_equiv S hE .ee
    simp only [writeTok]
    exact ⟨this.1, ⟨this.2.1, by rw [this.2.2.1, this.2.2.2, hr], ha, hv⟩⟩
  | es =>
    have := dhStep_equiv S hE .es
    simp only [writeTok]
    exact ⟨this.1, ⟨this.2.1, by rw [this.2.2.1, this.2.2.2, hr], ha, hv⟩⟩
  | se =>
    have := dhStep_equiv S hE .se
    simp only [writeTok]
    exact ⟨this.1, ⟨this.2.1, by rw [this.2.2.1, this.2.2.2, hr], ha, hv⟩⟩
  | ss =>
    have := dhStep_equiv S hE .ss
    simp only [writeTok]
    exact ⟨this.1, ⟨this.2.1, by rw [this.2.2.1, this.2.2.2, hr], ha, hv⟩⟩
  | s =>
    simp only [writeTok]
    have e1 : w2.hs.s = w1.hs.s := hE.s.symm
    have e2 : w2.acc = w1.acc := ha.symm
    have e3 : w2.hs.sym.hasKey = w1.hs.sym.hasKey := hE.sym.2.2.1.symm
    have henc := SymEq.encrypt S hE.sym inv w1.hs.s.val.pub (cap - w1.acc.length)
    simp only [e1, e2, e3]
    by_cases c1 : (!w1.hs.s.on) = true
    · simp only [c1, ↓reduceIte]; exact ⟨by first | rfl | trivial, ⟨hE, hr, ha, hv⟩⟩
    · simp only [c1, ↓reduceIte, Bool.false_eq_true]
      by_cases c2 : w1.acc.length + S.pubLen + (if w1.hs.sym.hasKey = true then 16 else 0) > cap
      · simp only [c2, ↓reduceIte]; exact ⟨by first | rfl | trivial, ⟨hE, hr, ha, hv⟩⟩
      · simp only [c2, ↓reduceIte]
        refine ⟨by rw [henc.1], ⟨?_, hr, ?_, ?_⟩⟩
        · refine ⟨henc.2.1, ?_, ?_, ?_, ?_, ?_, ?_, ?_, ?_, ?_, ?_, ?_, ?_, ?_, ?_, ?_⟩ <;> equiv_rest hE
        · simp only; rw [henc.1]
        · simp only; rw [henc.2.2, hv]
  | e =>
    simp only [writeTok]
    have e1 : w2.acc = w1.acc := ha.symm
    have e2 : w2.hs.fixedE = w1.hs.fixedE := hE.fixedE.symm
    have e3 : w2.hs.rng = w1.hs.rng := hr.symm
    have e4 : w2.hs.isPsk = w1.hs.isPsk := hE.isPsk.symm
    have e5 : w2.ev = w1.ev := hv.symm
    simp only [e1, e2, e3, e4, e5]
    have hsym : ∀ pk, SymEq ((if w1.hs.isPsk = true then (w1.hs.sym.mixHash S pk).mixKey S pk
                       else w1.hs.sym.mixHash S pk))
                      ((if w1.hs.isPsk = true then (w2.hs.sym.mixHash S pk).mixKey S pk
                       else w2.hs.sym.mixHash S pk)) := by
      intro pk
      split
      · exact SymEq.mixKey S (SymEq.mixHash S hE.sym _) _
      · exact SymEq.mixHash S hE.sym _
    by_cases c1 : w1.acc.length + S.pubLen > cap
    · simp only [c1, ↓reduceIte]; exact ⟨by first | rfl | trivial, ⟨hE, hr, ha, hv⟩⟩
    · simp only [c1, ↓reduceIte]
      cases hf : w1.hs.fixedE with
      | true =>
        have hval : w2.hs.e.val = w1.hs.e.val := (hE.eval (Or.inr hf)).symm
        simp only [↓reduceIte, hval]
        refine ⟨by first | rfl | trivial, ⟨?_, by first | rfl | trivial, by first | rfl | trivial, by first | rfl | trivial⟩⟩
        refine ⟨hsym _, ?_, ?_, ?_, ?_, ?_, ?_, ?_, ?_, ?_, ?_, ?_, ?_, ?_, ?_, ?_⟩ <;> equiv_rest hE
      | false =>
        simp only [Bool.false_eq_true, ↓reduceIte]
        by_cases c2 : S.validPriv (rngDraw w1.hs.rng S.privLen).1 = true
        · simp only [c2, ↓reduceIte]
          refine ⟨by first | rfl | trivial, ⟨?_, by first | rfl | trivial, by first | rfl | trivial, by first | rfl | trivial⟩⟩
          refine ⟨hsym _, ?_, ?_, ?_, ?_, ?_, ?_, ?_, ?_, ?_, ?_, ?_, ?_, ?_, ?_, ?_⟩ <;> equiv_rest hE
        · simp only [c2, ↓reduceIte, Bool.false_eq_true]; exact ⟨by first | rfl | trivial, ⟨hE, hr, ha, hv⟩⟩

theorem writeToks_equiv (S : Suite) (cap : Nat) (ts : List Tok) {w1 w2 : WS} (h : WEq w1 w2) (inv : SymInv w1.hs.sym) :
    (writeToks S cap ts w1).1 = (writeToks S cap ts w2).1 ∧ WEq (writeToks S cap ts w1).2 (writeToks S cap ts w2).2 := by
  induction ts generalizing w1 w2 with
  | nil => exact ⟨rfl, h⟩
  | cons t ts ih =>
    have h1 := writeTok_equiv S cap h inv t
    have i1 := writeTok_inv S cap w1 t inv
    unfold writeToks
    rw [← h1.1]
    cases hr : (writeTok S cap w1 t).1 with
    | ok u => cases u; exact ih h1.2 i1
    | err e => exact ⟨rfl, h1.2⟩
    | panic p => exact ⟨rfl, h1.2⟩

/-- Working states of a read that agree up to dead fields. -/
structure REq (r1 r2 : RS) : Prop where
  hs : Equiv r1.hs r2.hs
  ptr : r1.ptr = r2.ptr
  ev : r1.ev = r2.ev

theorem readTok_equiv (S : Suite) {r1 r2 : RS} (h : REq r1 r2) (inv : SymInv r1.hs.sym) (t : Tok) :
    (readTok S r1 t).1 = (readTok S r2 t).1 ∧ REq (readTok S r1 t).2 (readTok S r2 t).2 := by
  obtain ⟨hE, hp, hv⟩ := h
  cases t with
  | psk n =>
    have := pskStep_equiv S hE n
    simp only [readTok]
    exact ⟨this.1, ⟨this.2.1, hp, hv⟩⟩
  | ee =>
    have := dhStep_equiv S hE .ee
    simp only [readTok]
    exact ⟨this.1, ⟨this.2.1, hp, hv⟩⟩
  | es =>
    have := dhStep_equiv S hE .es
    simp only [readTok]
    exact ⟨this.1, ⟨this.2.1, hp, hv⟩⟩
  | se =>
    have := dhStep_equiv S hE .se
    simp only [readTok]
    exact ⟨this.1, ⟨this.2.1, hp, hv⟩⟩
  | ss =>
    have := dhStep_equiv S hE .ss
    simp only [readTok]
    exact ⟨this.1, ⟨this.2.1, hp, hv⟩⟩
  | e =>
    simp only [readTok]
    have e1 : r2.ptr = r1.ptr := hp.symm
    have e4 : r2.hs.isPsk = r1.hs.isPsk := hE.isPsk.symm
    simp only [e1, e4]
    have hsym : ∀ pk, SymEq ((if r1.hs.isPsk = true then (r1.hs.sym.mixHash S pk).mixKey S pk
                       else r1.hs.sym.mixHash S pk))
                      ((if r1.hs.isPsk = true then (r2.hs.sym.mixHash S pk).mixKey S pk
                       else r2.hs.sym.mixHash S pk)) := by
      intro pk
      split
      · exact SymEq.mixKey S (SymEq.mixHash S hE.sym _) _
      · exact SymEq.mixHash S hE.sym _
    by_cases c1 : r1.ptr.length < S.pubLen
    · simp only [c1, ↓reduceIte]; exact ⟨by first | rfl | trivial, ⟨hE, hp, hv⟩⟩
    · simp only [c1, ↓reduceIte]
      refine ⟨by first | rfl | trivial, ⟨?_, by first | rfl | trivial, hv⟩⟩
      refine ⟨hsym _, ?_, ?_, ?_, ?_, ?_, ?_, ?_, ?_, ?_, ?_, ?_, ?_, ?_, ?_, ?_⟩ <;> equiv_rest hE
  | s =>
    simp only [readTok]
    have e1 : r2.ptr = r1.ptr := hp.symm
    have e3 : r2.hs.sym.hasKey = r1.hs.sym.hasKey := hE.sym.2.2.1.symm
    have e5 : r2.hs.rs = r1.hs.rs := hE.rs.symm
    simp only [e1, e3, e5]
    have hdec := SymEq.decrypt S hE.sym inv
      (r1.ptr.take (S.pubLen + if r1.hs.sym.hasKey = true then 16 else 0)) S.pubLen
    by_cases c1 : r1.ptr.length < S.pubLen + if r1.hs.sym.hasKey = true then 16 else 0
    · simp only [c1, ↓reduceIte]; exact ⟨by first | rfl | trivial, ⟨hE, hp, hv⟩⟩
    · simp only [c1, ↓reduceIte]
      rw [← hdec.1, ← hdec.2.2]
      refine ⟨by first | rfl | trivial, ⟨?_, by first | rfl | trivial, by simp only [hv]⟩⟩
      refine ⟨hdec.2.1, ?_, ?_, ?_, ?_, ?_, ?_, ?_, ?_, ?_, ?_, ?_, ?_, ?_, ?_, ?_⟩ <;> equiv_rest hE

theorem readToks_equiv (S : Suite) (ts : List Tok) {r1 r2 : RS} (h : REq r1 r2) (inv : SymInv r1.hs.sym) :
    (readToks S ts r1).1 = (readToks S ts r2).1 ∧ REq (readToks S ts r1).2 (readToks S ts r2).2 := by
  induction ts generalizing r1 r2 with
  | nil => exact ⟨rfl, h⟩
  | cons t ts ih =>
    have h1 := readTok_equiv S h inv t
    have i1 := readTok_inv S r1 t inv
    unfold readToks
    rw [← h1.1]
    cases hr : (readTok S r1 t).1 with
    | ok u => cases u; exact ih h1.2 i1
    | err e => exact ⟨rfl, h1.2⟩
    | panic p => exact ⟨rfl, h1.2⟩

theorem writeInner_equiv (S : Suite) {a b : HS} (h : Equiv a b) (hr : a.rng = b.rng) (inv : SymInv a.sym)
    (p : Bytes) (cap : Nat) :
    (writeInner S a p cap).1 = (writeInner S b p cap).1 ∧ WEq (writeInner S a p cap).2 (writeInner S b p cap).2 := by
  have w0 : WEq { hs := a, acc := [], ev := [] } { hs := b, acc := [], ev := [] } := ⟨h, hr, rfl, rfl⟩
  have ht := writeToks_equiv S cap (a.msgs.getD a.pos []) w0 inv
  have hi := writeToks_inv S cap (a.msgs.getD a.pos []) { hs := a, acc := [], ev := [] } inv
  unfold writeInner
  have e1 : b.myTurn = a.myTurn := h.myTurn.symm
  have e2 : b.pos = a.pos := h.pos.symm
  have e3 : b.msgs = a.msgs := h.msgs.symm
  simp only [e1, e2, e3]
  by_cases c1 : (!a.myTurn) = true
  · simp only [c1, ↓reduceIte]; exact ⟨by first | rfl | trivial, w0⟩
  · simp only [c1, ↓reduceIte, Bool.false_eq_true]
    by_cases c2 : a.pos ≥ a.msgs.length
    · simp only [c2, ↓reduceIte]; exact ⟨by first | rfl | trivial, w0⟩
    · simp only [c2, ↓reduceIte]
      generalize hA : writeToks S cap (a.msgs.getD a.pos []) { hs := a, acc := [], ev := [] } = A at ht hi ⊢
      generalize hB : writeToks S cap (a.msgs.getD a.pos []) { hs := b, acc := [], ev := [] } = B at ht ⊢
      obtain ⟨t1, ⟨tE, trng, tacc, tev⟩⟩ := ht
      rw [← t1]
      cases hA1 : A.1 with
      | err e => exact ⟨rfl, ⟨tE, trng, tacc, tev⟩⟩
      | panic q => exact ⟨rfl, ⟨tE, trng, tacc, tev⟩⟩
      | ok u =>
        simp only
        have f1 : B.2.acc = A.2.acc := tacc.symm
        have f2 : B.2.hs.sym.hasKey = A.2.hs.sym.hasKey := tE.sym.2.2.1.symm
        have f3 : B.2.ev = A.2.ev := tev.symm
        have f4 : B.2.hs.pos = A.2.hs.pos := tE.pos.symm
        have f5 : B.2.hs.msgs = A.2.hs.msgs := tE.msgs.symm
        simp only [f1, f2, f3, f4, f5]
        by_cases c3 : A.2.acc.length + p.length + 16 > cap
        · simp only [c3, ↓reduceIte]; exact ⟨by first | rfl | trivial, ⟨tE, trng, tacc, tev⟩⟩
        · simp only [c3, ↓reduceIte]
          by_cases c4 : A.2.acc.length + p.length + (if A.2.hs.sym.hasKey = true then 16 else 0) > 65535
          · simp only [c4, ↓reduceIte]; exact ⟨by first | rfl | trivial, ⟨tE, trng, tacc, tev⟩⟩
          · simp only [c4, ↓reduceIte]
            have henc := SymEq.encrypt S tE.sym hi p (cap - A.2.acc.length)
            rw [← henc.1, ← henc.2.2]
            cases hE1 : (A.2.hs.sym.encryptAndMixHash S p (cap - A.2.acc.length)).1 with
            | err e =>
              dsimp only
              refine ⟨by first | rfl | trivial, ⟨?_, trng, by first | rfl | trivial, by first | rfl | trivial⟩⟩
              (refine ⟨henc.2.1, ?_, ?_, ?_, ?_, ?_, ?_, ?_, ?_, ?_, ?_, ?_, ?_, ?_, ?_, ?_⟩ <;> equiv_rest tE)
            | panic q =>
              dsimp only
              refine ⟨by first | rfl | trivial, ⟨?_, trng, by first | rfl | trivial, by first | rfl | trivial⟩⟩
              (refine ⟨henc.2.1, ?_, ?_, ?_, ?_, ?_, ?_, ?_, ?_, ?_, ?_, ?_, ?_, ?_, ?_, ?_⟩ <;> equiv_rest tE)
            | ok ct =>
              dsimp only
              refine ⟨by first | rfl | trivial, ⟨?_, ?_, by first | rfl | trivial, by first | rfl | trivial⟩⟩
              · rw [SymEq.split S henc.2.1]
                split
                · refine ⟨henc.2.1, ?_, ?_, ?_, ?_, ?_, ?_, ?_, ?_, ?_, ?_, ?_, ?_, ?_, ?_, ?_⟩ <;> equiv_rest tE
                · (refine ⟨henc.2.1, ?_, ?_, ?_, ?_, ?_, ?_, ?_, ?_, ?_, ?_, ?_, ?_, ?_, ?_, ?_⟩ <;> equiv_rest tE)
              · split <;> exact trng

theorem readInner_equiv (S : Suite) {a b : HS} (h : Equiv a b) (inv : SymInv a.sym)
    (m : Bytes) (cap : Nat) :
    (readInner S a m cap).1 = (readInner S b m cap).1 ∧ Equiv (readInner S a m cap).2.1 (readInner S b m cap).2.1 ∧
    (readInner S a m cap).2.2 = (readInner S b m cap).2.2 := by
  have r0 : REq { hs := a, ptr := m, ev := [] } { hs := b, ptr := m, ev := [] } := ⟨h, rfl, rfl⟩
  have ht := readToks_equiv S (a.msgs.getD a.pos []) r0 inv
  have hi := readToks_inv S (a.msgs.getD a.pos []) { hs := a, ptr := m, ev := [] } inv
  unfold readInner
  have e1 : b.myTurn = a.myTurn := h.myTurn.symm
  have e2 : b.pos = a.pos := h.pos.symm
  have e3 : b.msgs = a.msgs := h.msgs.symm
  simp only [e1, e2, e3]
  by_cases c0 : m.length > 65535
  · simp only [c0, ↓reduceIte]; exact ⟨by first | rfl | trivial, h, by first | rfl | trivial⟩
  · simp only [c0, ↓reduceIte]
    by_cases c1 : a.myTurn = true
    · simp only [c1, ↓reduceIte]; exact ⟨by first | rfl | trivial, h, by first | rfl | trivial⟩
    · simp only [c1, ↓reduceIte, Bool.false_eq_true]
      by_cases c2 : a.pos ≥ a.msgs.length
      · simp only [c2, ↓reduceIte]; exact ⟨by first | rfl | trivial, h, by first | rfl | trivial⟩
      · simp only [c2, ↓reduceIte]
        generalize hA : readToks S (a.msgs.getD a.pos []) { hs := a, ptr := m, ev := [] } = A at ht hi ⊢
        generalize hB : readToks S (a.msgs.getD a.pos []) { hs := b, ptr := m, ev := [] } = B at ht ⊢
        obtain ⟨t1, ⟨tE, tptr, tev⟩⟩ := ht
        rw [← t1]
        cases hA1 : A.1 with
        | err e => dsimp only; exact ⟨rfl, tE, by rw [tev]⟩
        | panic q => dsimp only; exact ⟨rfl, tE, by rw [tev]⟩
        | ok u =>
          dsimp only
          have f1 : B.2.ptr = A.2.ptr := tptr.symm
          have f3 : B.2.ev = A.2.ev := tev.symm
          simp only [f1, f3]
          have hdec := SymEq.decrypt S tE.sym hi A.2.ptr cap
          rw [← hdec.1, ← hdec.2.2]
          cases hD1 : (A.2.hs.sym.decryptAndMixHash S A.2.ptr cap).1 with
          | err e =>
            dsimp only
            refine ⟨rfl, ?_, rfl⟩
            refine ⟨hdec.2.1, ?_, ?_, ?_, ?_, ?_, ?_, ?_, ?_, ?_, ?_, ?_, ?_, ?_, ?_, ?_⟩ <;> equiv_rest tE
          | panic q =>
            dsimp only
            refine ⟨rfl, ?_, rfl⟩
            refine ⟨hdec.2.1, ?_, ?_, ?_, ?_, ?_, ?_, ?_, ?_, ?_, ?_, ?_, ?_, ?_, ?_, ?_⟩ <;> equiv_rest tE
          | ok pl =>
            dsimp only
            rw [SymEq.split S hdec.2.1]
            have hk : (Sym.decryptAndMixHash S B.2.hs.sym A.2.ptr cap).2.1.hasKey =
                (Sym.decryptAndMixHash S A.2.hs.sym A.2.ptr cap).2.1.hasKey := hdec.2.1.2.2.1.symm
            split
            · dsimp only
              refine ⟨by rw [hk], ?_, rfl⟩
              refine ⟨hdec.2.1, ?_, ?_, ?_, ?_, ?_, ?_, ?_, ?_, ?_, ?_, ?_, ?_, ?_, ?_, ?_⟩ <;> equiv_rest tE
            · dsimp only
              refine ⟨by rw [hk], ?_, rfl⟩
              refine ⟨hdec.2.1, ?_, ?_, ?_, ?_, ?_, ?_, ?_, ?_, ?_, ?_, ?_, ?_, ?_, ?_, ?_⟩ <;> equiv_rest tE

end HS
end SnowVerif.Model
