/-
  Equivalence of handshake states up to dead fields, and lemmas that every
  operation respects it (used by C07 and C02).
-/
import SnowVerif.Lemmas.Handshake

open SnowVerif SnowVerif.Model SnowVerif.Model.HS
set_option linter.unusedVariables false
set_option linter.unusedSimpArgs false

namespace SnowVerif.Model

/-- Symmetric states that agree on everything that can influence later behaviour: the handshake
    cipher (key, nonce) is compared only once a key has been installed (`k ≠ none`); before that it
    is never read (`has_key` is false). -/
def SymEq (a b : Sym) : Prop :=
  a.h = b.h ∧ a.ck = b.ck ∧ a.hasKey = b.hasKey ∧ a.k = b.k ∧ (a.k ≠ none → a.cs = b.cs)

namespace SymEq

theorem refl (a : Sym) : SymEq a a := ⟨rfl, rfl, rfl, rfl, fun _ => rfl⟩

theorem mixHash (S : Suite) {a b : Sym} (h : SymEq a b) (d : Bytes) : SymEq (a.mixHash S d) (b.mixHash S d) := by
  obtain ⟨h1, h2, h3, h4, h5⟩ := h
  unfold Sym.mixHash
  exact ⟨by simp [h1], h2, h3, h4, h5⟩

theorem mixKey (S : Suite) {a b : Sym} (h : SymEq a b) (d : Bytes) : SymEq (a.mixKey S d) (b.mixKey S d) := by
  obtain ⟨h1, h2, h3, h4, h5⟩ := h
  unfold Sym.mixKey CipherState.set
  simp only [h2]
  exact ⟨h1, rfl, rfl, rfl, fun _ => rfl⟩

theorem mixKeyAndHash (S : Suite) {a b : Sym} (h : SymEq a b) (d : Bytes) :
    SymEq (a.mixKeyAndHash S d) (b.mixKeyAndHash S d) := by
  obtain ⟨h1, h2, h3, h4, h5⟩ := h
  unfold Sym.mixKeyAndHash Sym.mixHash CipherState.set
  simp only [h2, h1]
  exact ⟨rfl, rfl, h3, rfl, fun _ => rfl⟩

/-- When a key is in use the cipher states are equal. -/
theorem cs_of_hasKey {a b : Sym} (h : SymEq a b) (ia : SymInv a) (hk : a.hasKey = true) : a.cs = b.cs := by
  apply h.2.2.2.2
  have := ia.2 hk
  intro hn; rw [hn] at this; simp at this

theorem encrypt (S : Suite) {a b : Sym} (h : SymEq a b) (ia : SymInv a) (pt : Bytes) (cap : Nat) :
    (a.encryptAndMixHash S pt cap).1 = (b.encryptAndMixHash S pt cap).1 ∧
    SymEq (a.encryptAndMixHash S pt cap).2.1 (b.encryptAndMixHash S pt cap).2.1 ∧
    (a.encryptAndMixHash S pt cap).2.2 = (b.encryptAndMixHash S pt cap).2.2 := by
  obtain ⟨h1, h2, h3, h4, h5⟩ := h
  cases hk : a.hasKey with
  | true =>
    have hcs : a.cs = b.cs := cs_of_hasKey ⟨h1, h2, h3, h4, h5⟩ ia hk
    have hab : a = b := by
      cases a; cases b; simp_all
    subst hab
    exact ⟨rfl, SymEq.refl _, rfl⟩
  | false =>
    have hkb : b.hasKey = false := by rw [← h3]; exact hk
    unfold Sym.encryptAndMixHash
    simp only [hk, hkb, Bool.false_eq_true, ↓reduceIte]
    split
    · exact ⟨rfl, ⟨h1, h2, h3, h4, h5⟩, rfl⟩
    · exact ⟨rfl, SymEq.mixHash S ⟨h1, h2, h3, h4, h5⟩ pt, rfl⟩

theorem decrypt (S : Suite) {a b : Sym} (h : SymEq a b) (ia : SymInv a) (d : Bytes) (cap : Nat) :
    (a.decryptAndMixHash S d cap).1 = (b.decryptAndMixHash S d cap).1 ∧
    SymEq (a.decryptAndMixHash S d cap).2.1 (b.decryptAndMixHash S d cap).2.1 ∧
    (a.decryptAndMixHash S d cap).2.2 = (b.decryptAndMixHash S d cap).2.2 := by
  obtain ⟨h1, h2, h3, h4, h5⟩ := h
  cases hk : a.hasKey with
  | true =>
    have hcs : a.cs = b.cs := cs_of_hasKey ⟨h1, h2, h3, h4, h5⟩ ia hk
    have hab : a = b := by
      cases a; cases b; simp_all
    subst hab
    exact ⟨rfl, SymEq.refl _, rfl⟩
  | false =>
    have hkb : b.hasKey = false := by rw [← h3]; exact hk
    unfold Sym.decryptAndMixHash
    simp only [hk, hkb, Bool.false_eq_true, ↓reduceIte]
    split
    · exact ⟨rfl, ⟨h1, h2, h3, h4, h5⟩, rfl⟩
    · exact ⟨rfl, SymEq.mixHash S ⟨h1, h2, h3, h4, h5⟩ d, rfl⟩

theorem split (S : Suite) {a b : Sym} (h : SymEq a b) : a.split S = b.split S := by
  unfold Sym.split; rw [h.2.1]

/-- Restoring a checkpoint of `c` into any state gives a state `SymEq` to `c`. -/
theorem restore (st c : Sym) (ic : SymInv c) : SymEq c (st.restore c.checkpoint) := by
  unfold Sym.restore Sym.checkpoint
  refine ⟨rfl, rfl, rfl, rfl, ?_⟩
  intro hk
  cases hkk : c.k with
  | none => exact absurd hkk hk
  | some key =>
    have := ic.1 key hkk
    simp only [CipherState.set]
    cases hc : c.cs with
    | mk ckey n hkey => rw [hc] at this; simp at this; simp [this.1, this.2]

end SymEq
end SnowVerif.Model
