/-
  C01 (state-machine part): the side conditions of the refinement theorems hold for every
  pattern of the generated table under every accepted modifier list:
  * `PskOk` (C14): a `psk` token met un-keyed is followed, through `psk` tokens only, by `e`;
  * `oneE`: a message pattern contains at most one `e` token (so that one `GENERATE_KEYPAIR()`
    result per message is what the specification needs).
-/
import SnowVerif.Lemmas.C01Msg
import SnowVerif.Lemmas.C14Spec

namespace SnowVerif.C01
open SnowVerif SnowVerif.Model SnowVerif.Model.HS SnowVerif.Bytes SnowVerif.Framing
set_option linter.unusedVariables false
set_option linter.unusedSimpArgs false

/-- Every message pattern contains at most one `e` token. -/
def oneE (msgs : List (List Tok)) : Bool := msgs.all fun m => decide (m.count .e ≤ 1)

theorem all_modify {α : Type} (P : α → Bool) (f : α → α) (hf : ∀ x, P (f x) = P x) :
    ∀ (l : List α) (i : Nat), (l.modify i f).all P = l.all P
  | [], i => by simp
  | x :: l, 0 => by simp [List.modify_zero_cons, hf]
  | x :: l, i + 1 => by simp [List.modify_succ_cons, all_modify P f hf l i]

/-- `apply_psk_modifier` adds `psk` tokens only. -/
theorem applyPsk_oneE (inst inst' : Inst) (n : Nat) (h : applyPsk inst n = .ok inst')
    (ho : oneE inst.msgs = true) : oneE inst'.msgs = true := by
  unfold applyPsk at h
  simp only at h
  split at h
  · simp only [Res.ok.injEq] at h
    subst h
    simp only
    unfold oneE at ho ⊢
    rw [all_modify]
    · exact ho
    · intro x
      split <;> simp
  · simp at h

theorem applyModifiers_oneE (mods : List Modifier) (inst inst' : Inst) (h : applyModifiers inst mods = .ok inst')
    (ho : oneE inst.msgs = true) : oneE inst'.msgs = true := by
  induction mods generalizing inst with
  | nil => simp only [applyModifiers, Res.ok.injEq] at h; subst h; exact ho
  | cons md mods ih =>
    cases md with
    | fallback => simp [applyModifiers] at h
    | psk n =>
      simp only [applyModifiers] at h
      cases ha : applyPsk inst n with
      | ok i1 =>
        simp only [ha] at h
        exact ih i1 h (applyPsk_oneE inst i1 n ha ho)
      | err e => simp [ha] at h
      | panic q => simp [ha] at h

/-- Checked over all rows of the generated table. -/
theorem tables_oneE (p : Generated.Pattern) : oneE p.tokens.msgs = true := by
  cases p <;> decide

/-- **The table satisfies `oneE`**, for every pattern and every accepted modifier list. -/
theorem oneE_tables (p : Generated.Pattern) (mods : List Modifier) (inst : Inst)
    (h : handshakeTokens p mods = .ok inst) : oneE inst.msgs = true :=
  applyModifiers_oneE mods _ _ h (tables_oneE p)

theorem oneE_getD (msgs : List (List Tok)) (i : Nat) (h : oneE msgs = true) : (msgs.getD i []).count .e ≤ 1 := by
  induction msgs generalizing i with
  | nil => simp
  | cons m ms ih =>
    simp only [oneE, List.all_cons, Bool.and_eq_true, decide_eq_true_eq] at h
    cases i with
    | zero => simpa using h.1
    | succ j => rw [List.getD_cons_succ]; exact ih j h.2

/-- **The side condition of `write_refines_spec` / `read_refines_spec`**, stated on the state at
    the moment of the call. -/
def SideOk (hs : HS) : Prop :=
  PskOk hs.isPsk (hs.msgs.getD hs.pos []) hs.sym.hasKey = true ∧ (hs.msgs.getD hs.pos []).count .e ≤ 1

/-- Without psk mode and `psk` tokens the side condition on `psk` is vacuous. -/
theorem pskOk_noPsk (isPsk : Bool) (ts : List Tok) (k : Bool) (h : ∀ n, Tok.psk n ∉ ts) : PskOk isPsk ts k = true := by
  induction ts generalizing k with
  | nil => rfl
  | cons t ts ih =>
    have h2 := ih (tokKeyed isPsk t k) (fun n hn => h n (by simp [hn]))
    cases t with
    | psk n => exact absurd (by simp) (h n)
    | e => simp only [PskOk, h2, Bool.and_self]
    | s => simp only [PskOk, h2, Bool.and_self]
    | ee => simp only [PskOk, h2, Bool.and_self]
    | es => simp only [PskOk, h2, Bool.and_self]
    | se => simp only [PskOk, h2, Bool.and_self]
    | ss => simp only [PskOk, h2, Bool.and_self]

end SnowVerif.C01
