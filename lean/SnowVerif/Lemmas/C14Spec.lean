/-
  C14: tying the code's message lengths to the specification's over a WHOLE handshake:
  * `msgLen_eq_spec_handshake`: if every message satisfies `PskOk` in the keyedness the code
    reaches (`PskOkMsgs`), each message's code length equals the specification's length computed
    with the specification's own keyedness;
  * `pskOk_tables`: `PskOkMsgs` holds for the token lists of every pattern of the generated
    table under every modifier list `HandshakeTokens::try_from` accepts.
-/
import SnowVerif.Lemmas.C14Len
import SnowVerif.Model.Builder

namespace SnowVerif.Framing
open SnowVerif SnowVerif.Model
set_option linter.unusedVariables false
set_option linter.unusedSimpArgs false

theorem keyedAfter_append (isPsk : Bool) (a b : List Tok) (k : Bool) :
    keyedAfter isPsk (a ++ b) k = keyedAfter isPsk b (keyedAfter isPsk a k) := by
  induction a generalizing k with
  | nil => rfl
  | cons t a ih => simp only [List.cons_append, keyedAfter, ih]

theorem Spec.keyedAfter_append (isPsk : Bool) (a b : List Tok) (k : Bool) :
    Spec.keyedAfter isPsk (a ++ b) k = Spec.keyedAfter isPsk b (Spec.keyedAfter isPsk a k) := by
  induction a generalizing k with
  | nil => rfl
  | cons t a ih => simp only [List.cons_append, Spec.keyedAfter, ih]

/-- Generalisation of `keyedBefore` to an arbitrary starting keyedness. -/
theorem pskOkMsgs_keyed (isPsk : Bool) (msgs : List (List Tok)) (k : Bool) (i : Nat)
    (h : PskOkMsgs isPsk msgs k = true) :
    keyedAfter isPsk (msgs.take i).flatten k = Spec.keyedAfter isPsk (msgs.take i).flatten k ∧
    (i < msgs.length → PskOk isPsk (msgs.getD i []) (keyedAfter isPsk (msgs.take i).flatten k) = true) := by
  induction msgs generalizing k i with
  | nil => simp [keyedAfter, Spec.keyedAfter]
  | cons m ms ih =>
    simp only [PskOkMsgs, Bool.and_eq_true] at h
    obtain ⟨h1, h2⟩ := h
    cases i with
    | zero => simp [keyedAfter, Spec.keyedAfter, h1]
    | succ j =>
      have := ih (keyedAfter isPsk m k) j h2
      simp only [List.take_succ_cons, List.flatten_cons, keyedAfter_append, Spec.keyedAfter_append,
        List.getD_cons_succ, List.length_cons, Nat.add_lt_add_iff_right]
      rw [← keyedAfter_eq_spec isPsk m k h1]
      exact this

/-- **Code length = specification length, message by message, over a whole handshake.**
    `keyedBefore` is the `has_key` the code has before message `i` (see `KeyedInv` in the
    theorem file), `Spec.keyedBefore` the specification's. -/
theorem msgLen_eq_spec_handshake (S : Suite) (isPsk : Bool) (msgs : List (List Tok)) (i : Nat) (pl : Nat)
    (h : PskOkMsgs isPsk msgs false = true) (hi : i < msgs.length) :
    msgLen S isPsk (msgs.getD i []) (keyedBefore isPsk msgs i) pl =
      Spec.msgLen S isPsk (msgs.getD i []) (Spec.keyedBefore isPsk msgs i) pl := by
  obtain ⟨a, b⟩ := pskOkMsgs_keyed isPsk msgs false i h
  unfold keyedBefore Spec.keyedBefore
  rw [← a]
  exact msgLen_eq_spec S isPsk _ _ pl (b hi)

/-- The keyedness before message `i+1` is the keyedness after the tokens of message `i`. -/
theorem keyedBefore_succ (isPsk : Bool) (msgs : List (List Tok)) (i : Nat) (hi : i < msgs.length) :
    keyedBefore isPsk msgs (i + 1) = keyedAfter isPsk (msgs.getD i []) (keyedBefore isPsk msgs i) := by
  unfold keyedBefore
  rw [List.take_succ_eq_append_getElem hi, List.flatten_append, keyedAfter_append]
  simp [hi]

/-! ### The generated pattern table -/

/-- The first message starts, after `psk` tokens only, with `e`. -/
def shapeOk : List (List Tok) → Bool
  | m :: _ => reachesE m
  | [] => false

theorem pskOkMsgs_true (isPsk : Bool) (ms : List (List Tok)) : PskOkMsgs isPsk ms true = true := by
  induction ms with
  | nil => rfl
  | cons m ms ih => simp only [PskOkMsgs, pskOk_true, keyedAfter_true, ih, Bool.and_self]

theorem reachesE_ok (m : List Tok) (h : reachesE m = true) :
    PskOk true m false = true ∧ keyedAfter true m false = true := by
  induction m with
  | nil => simp [reachesE] at h
  | cons t m ih =>
    cases t with
    | e => simp [PskOk, keyedAfter, tokKeyed, pskOk_true, keyedAfter_true]
    | psk n =>
      simp only [reachesE] at h
      have := ih h
      simp [PskOk, keyedAfter, tokKeyed, h, this.1, this.2]
    | s => simp [reachesE] at h
    | ee => simp [reachesE] at h
    | es => simp [reachesE] at h
    | se => simp [reachesE] at h
    | ss => simp [reachesE] at h

/-- In psk mode, a handshake whose first message starts with `psk* e` satisfies `PskOkMsgs`. -/
theorem shapeOk_pskOk (msgs : List (List Tok)) (h : shapeOk msgs = true) : PskOkMsgs true msgs false = true := by
  cases msgs with
  | nil => simp [shapeOk] at h
  | cons m ms =>
    simp only [shapeOk] at h
    obtain ⟨a, b⟩ := reachesE_ok m h
    simp only [PskOkMsgs, a, b, pskOkMsgs_true, Bool.and_self]

theorem reachesE_append (m : List Tok) (x : List Tok) (h : reachesE m = true) : reachesE (m ++ x) = true := by
  induction m with
  | nil => simp [reachesE] at h
  | cons t m ih =>
    cases t with
    | e => rfl
    | psk n => simp only [reachesE] at h; simp only [List.cons_append, reachesE]; exact ih h
    | s => simp [reachesE] at h
    | ee => simp [reachesE] at h
    | es => simp [reachesE] at h
    | se => simp [reachesE] at h
    | ss => simp [reachesE] at h

/-- `apply_psk_modifier` keeps the first message of the form `psk* e ...`. -/
theorem applyPsk_shape (inst inst' : Inst) (n : Nat) (h : applyPsk inst n = .ok inst')
    (hs : shapeOk inst.msgs = true) : shapeOk inst'.msgs = true := by
  unfold applyPsk at h
  simp only at h
  split at h
  · simp only [Res.ok.injEq] at h
    subst h
    simp only
    cases hm : inst.msgs with
    | nil => rw [hm] at hs; simp [shapeOk] at hs
    | cons m ms =>
      rw [hm] at hs
      simp only [shapeOk] at hs
      cases hn : n - 1 with
      | zero =>
        simp only [List.modify_zero_cons, shapeOk]
        split
        · simp only [reachesE]; exact hs
        · exact reachesE_append m _ hs
      | succ j => simp only [List.modify_succ_cons, shapeOk]; exact hs
  · simp at h

theorem applyModifiers_shape (mods : List Modifier) (inst inst' : Inst) (h : applyModifiers inst mods = .ok inst')
    (hs : shapeOk inst.msgs = true) : shapeOk inst'.msgs = true := by
  induction mods generalizing inst with
  | nil => simp only [applyModifiers, Res.ok.injEq] at h; subst h; exact hs
  | cons md mods ih =>
    cases md with
    | fallback => simp [applyModifiers] at h
    | psk n =>
      simp only [applyModifiers] at h
      cases ha : applyPsk inst n with
      | ok i1 =>
        simp only [ha] at h
        exact ih i1 h (applyPsk_shape inst i1 n ha hs)
      | err e => simp [ha] at h
      | panic q => simp [ha] at h

/-- Every pattern of the generated table starts its first message with `e` and, without
    modifiers, satisfies `PskOkMsgs` (it contains no `psk` token). Checked over all table rows. -/
theorem tables_base (p : Generated.Pattern) :
    shapeOk p.tokens.msgs = true ∧ PskOkMsgs false p.tokens.msgs false = true := by
  cases p <;> decide

/-- **The table satisfies the agreement condition.** For every pattern of the generated table
    and every modifier list that `HandshakeTokens::try_from` accepts, the resulting message
    token lists satisfy `PskOkMsgs` (with `is_psk` as the code computes it), so by
    `msgLen_eq_spec_handshake` the code's lengths are the specification's. -/
theorem pskOk_tables (p : Generated.Pattern) (mods : List Modifier) (inst : Inst)
    (h : handshakeTokens p mods = .ok inst) : PskOkMsgs (isPskMods mods) inst.msgs false = true := by
  unfold handshakeTokens at h
  cases hp : isPskMods mods with
  | true => exact shapeOk_pskOk _ (applyModifiers_shape mods _ _ h (tables_base p).1)
  | false =>
    cases mods with
    | nil =>
      simp only [applyModifiers, Res.ok.injEq] at h
      subst h
      exact (tables_base p).2
    | cons md mods =>
      cases md with
      | fallback => simp [applyModifiers] at h
      | psk n => simp [isPskMods] at hp

end SnowVerif.Framing
