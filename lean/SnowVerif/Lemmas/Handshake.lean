/-
  Frame and invariant lemmas for the handshake state machine (handshakestate.rs).
-/
import SnowVerif.Lemmas.Cipher
import SnowVerif.Model.Builder

open SnowVerif SnowVerif.Model
set_option linter.unusedVariables false
set_option linter.unusedSimpArgs false

namespace SnowVerif.Model.HS

/-- Fields a `_write_message` never changes. -/
structure WFrame (a b : HS) : Prop where
  initiator : b.initiator = a.initiator
  isPsk : b.isPsk = a.isPsk
  oneway : b.oneway = a.oneway
  psks : b.psks = a.psks
  myTurn : b.myTurn = a.myTurn
  msgs : b.msgs = a.msgs
  pos : b.pos = a.pos
  fixedE : b.fixedE = a.fixedE
  s : b.s = a.s
  rs : b.rs = a.rs
  re : b.re = a.re
  cs1 : b.cs1 = a.cs1
  cs2 : b.cs2 = a.cs2

theorem WFrame.refl (a : HS) : WFrame a a := ⟨rfl, rfl, rfl, rfl, rfl, rfl, rfl, rfl, rfl, rfl, rfl, rfl, rfl⟩
theorem WFrame.trans {a b c : HS} (h1 : WFrame a b) (h2 : WFrame b c) : WFrame a c :=
  ⟨h2.initiator.trans h1.initiator, h2.isPsk.trans h1.isPsk, h2.oneway.trans h1.oneway, h2.psks.trans h1.psks,
   h2.myTurn.trans h1.myTurn, h2.msgs.trans h1.msgs, h2.pos.trans h1.pos, h2.fixedE.trans h1.fixedE,
   h2.s.trans h1.s, h2.rs.trans h1.rs, h2.re.trans h1.re, h2.cs1.trans h1.cs1, h2.cs2.trans h1.cs2⟩

theorem pskStep_frame (S : Suite) (hs : HS) (n : Nat) : WFrame hs (pskStep S hs n).2 := by
  unfold pskStep
  repeat' split
  all_goals exact ⟨rfl, rfl, rfl, rfl, rfl, rfl, rfl, rfl, rfl, rfl, rfl, rfl, rfl⟩

theorem dhStep_frame (S : Suite) (hs : HS) (t : Tok) : WFrame hs (dhStep S hs t).2 := by
  unfold dhStep
  repeat' split
  all_goals exact ⟨rfl, rfl, rfl, rfl, rfl, rfl, rfl, rfl, rfl, rfl, rfl, rfl, rfl⟩

theorem writeTok_frame (S : Suite) (cap : Nat) (w : WS) (t : Tok) : WFrame w.hs (writeTok S cap w t).2.hs := by
  unfold writeTok
  cases t with
  | e =>
    simp only
    repeat' split
    all_goals first | exact WFrame.refl _ | exact ⟨rfl, rfl, rfl, rfl, rfl, rfl, rfl, rfl, rfl, rfl, rfl, rfl, rfl⟩
  | s =>
    simp only
    repeat' split
    all_goals first | exact WFrame.refl _ | exact ⟨rfl, rfl, rfl, rfl, rfl, rfl, rfl, rfl, rfl, rfl, rfl, rfl, rfl⟩
  | psk n => exact pskStep_frame S w.hs n
  | ee => exact dhStep_frame S w.hs _
  | es => exact dhStep_frame S w.hs _
  | se => exact dhStep_frame S w.hs _
  | ss => exact dhStep_frame S w.hs _

theorem writeToks_frame (S : Suite) (cap : Nat) (ts : List Tok) (w : WS) : WFrame w.hs (writeToks S cap ts w).2.hs := by
  induction ts generalizing w with
  | nil => exact WFrame.refl _
  | cons t ts ih =>
    unfold writeToks
    have h1 := writeTok_frame S cap w t
    split
    · exact h1.trans (ih _)
    · exact h1


/-- Fields a `_read_message` never changes. -/
structure RFrame (a b : HS) : Prop where
  initiator : b.initiator = a.initiator
  isPsk : b.isPsk = a.isPsk
  oneway : b.oneway = a.oneway
  psks : b.psks = a.psks
  myTurn : b.myTurn = a.myTurn
  msgs : b.msgs = a.msgs
  pos : b.pos = a.pos
  fixedE : b.fixedE = a.fixedE
  s : b.s = a.s
  e : b.e = a.e
  rng : b.rng = a.rng
  cs1 : b.cs1 = a.cs1
  cs2 : b.cs2 = a.cs2

theorem RFrame.refl (a : HS) : RFrame a a := ⟨rfl, rfl, rfl, rfl, rfl, rfl, rfl, rfl, rfl, rfl, rfl, rfl, rfl⟩
theorem RFrame.trans {a b c : HS} (h1 : RFrame a b) (h2 : RFrame b c) : RFrame a c :=
  ⟨h2.initiator.trans h1.initiator, h2.isPsk.trans h1.isPsk, h2.oneway.trans h1.oneway, h2.psks.trans h1.psks,
   h2.myTurn.trans h1.myTurn, h2.msgs.trans h1.msgs, h2.pos.trans h1.pos, h2.fixedE.trans h1.fixedE,
   h2.s.trans h1.s, h2.e.trans h1.e, h2.rng.trans h1.rng, h2.cs1.trans h1.cs1, h2.cs2.trans h1.cs2⟩

theorem pskStep_rframe (S : Suite) (hs : HS) (n : Nat) : RFrame hs (pskStep S hs n).2 := by
  unfold pskStep
  repeat' split
  all_goals exact ⟨rfl, rfl, rfl, rfl, rfl, rfl, rfl, rfl, rfl, rfl, rfl, rfl, rfl⟩

theorem dhStep_rframe (S : Suite) (hs : HS) (t : Tok) : RFrame hs (dhStep S hs t).2 := by
  unfold dhStep
  repeat' split
  all_goals exact ⟨rfl, rfl, rfl, rfl, rfl, rfl, rfl, rfl, rfl, rfl, rfl, rfl, rfl⟩

theorem readTok_frame (S : Suite) (r : RS) (t : Tok) : RFrame r.hs (readTok S r t).2.hs := by
  unfold readTok
  cases t with
  | e =>
    simp only
    repeat' split
    all_goals first | exact RFrame.refl _ | exact ⟨rfl, rfl, rfl, rfl, rfl, rfl, rfl, rfl, rfl, rfl, rfl, rfl, rfl⟩
  | s =>
    simp only
    repeat' split
    all_goals first | exact RFrame.refl _ | exact ⟨rfl, rfl, rfl, rfl, rfl, rfl, rfl, rfl, rfl, rfl, rfl, rfl, rfl⟩
  | psk n => exact pskStep_rframe S r.hs n
  | ee => exact dhStep_rframe S r.hs _
  | es => exact dhStep_rframe S r.hs _
  | se => exact dhStep_rframe S r.hs _
  | ss => exact dhStep_rframe S r.hs _

theorem readToks_frame (S : Suite) (ts : List Tok) (r : RS) : RFrame r.hs (readToks S ts r).2.hs := by
  induction ts generalizing r with
  | nil => exact RFrame.refl _
  | cons t ts ih =>
    unfold readToks
    have h1 := readTok_frame S r t
    split
    · exact h1.trans (ih _)
    · exact h1

end SnowVerif.Model.HS

namespace SnowVerif.Model

/-- Invariant of the symmetric state: the tracked key `k` is the key installed in the
    handshake cipher, and `has_key` implies a key is installed. -/
def SymInv (sym : Sym) : Prop :=
  (∀ key, sym.k = some key → sym.cs.key = key ∧ sym.cs.hasKey = true) ∧ (sym.hasKey = true → sym.k.isSome = true)

namespace Sym

theorem inv_init (S : Suite) (name : Bytes) : SymInv (Sym.init S name) := by
  unfold SymInv Sym.init; simp

theorem inv_mixHash (S : Suite) (st : Sym) (d : Bytes) (h : SymInv st) : SymInv (st.mixHash S d) := by
  unfold SymInv Sym.mixHash at *; exact h

theorem inv_mixKey (S : Suite) (st : Sym) (d : Bytes) : SymInv (st.mixKey S d) := by
  unfold SymInv Sym.mixKey CipherState.set; simp

theorem inv_mixKeyAndHash (S : Suite) (st : Sym) (d : Bytes) (h : SymInv st) : SymInv (st.mixKeyAndHash S d) := by
  unfold SymInv Sym.mixKeyAndHash Sym.mixHash CipherState.set at *; simp

theorem inv_of_cs_step (st : Sym) (cs' : CipherState) (h : SymInv st)
    (hk : cs'.key = st.cs.key) (hh : cs'.hasKey = st.cs.hasKey) : SymInv { st with cs := cs' } := by
  unfold SymInv at *; simp [hk, hh]; exact h

theorem encryptAd_key (S : Suite) (cs : CipherState) (ad pt : Bytes) (cap : Nat) :
    (cs.encryptAd S ad pt cap).2.1.key = cs.key ∧ (cs.encryptAd S ad pt cap).2.1.hasKey = cs.hasKey := by
  unfold CipherState.encryptAd
  repeat' split
  all_goals simp

theorem decryptAd_key (S : Suite) (cs : CipherState) (ad ct : Bytes) (cap : Nat) :
    (cs.decryptAd S ad ct cap).2.1.key = cs.key ∧ (cs.decryptAd S ad ct cap).2.1.hasKey = cs.hasKey := by
  unfold CipherState.decryptAd
  repeat' split
  all_goals simp

theorem inv_encrypt (S : Suite) (st : Sym) (pt : Bytes) (cap : Nat) (h : SymInv st) :
    SymInv (st.encryptAndMixHash S pt cap).2.1 := by
  unfold Sym.encryptAndMixHash
  have hk := encryptAd_key S st.cs st.h pt cap
  split
  · simp only
    split
    · exact inv_mixHash S _ _ (inv_of_cs_step st _ h hk.1 hk.2)
    · exact inv_of_cs_step st _ h hk.1 hk.2
  · split
    · exact h
    · exact inv_mixHash S st pt h

theorem inv_decrypt (S : Suite) (st : Sym) (d : Bytes) (cap : Nat) (h : SymInv st) :
    SymInv (st.decryptAndMixHash S d cap).2.1 := by
  unfold Sym.decryptAndMixHash
  have hk := decryptAd_key S st.cs st.h d cap
  split
  · simp only
    split
    · exact inv_mixHash S _ _ (inv_of_cs_step st _ h hk.1 hk.2)
    · exact inv_of_cs_step st _ h hk.1 hk.2
  · split
    · exact h
    · exact inv_mixHash S st d h

/-- Restoring the checkpoint just taken is the identity (under the invariant). -/
theorem restore_checkpoint (st : Sym) (h : SymInv st) : st.restore st.checkpoint = st := by
  unfold Sym.restore Sym.checkpoint
  cases st with
  | mk cs hh ck hasKey k =>
    cases k with
    | none => rfl
    | some key =>
      have := h.1 key rfl
      simp at this
      cases cs with
      | mk ckey n hk =>
        simp at this
        simp [CipherState.set, this.1, this.2]

/-- Restoring a checkpoint of an invariant state gives an invariant state. -/
theorem inv_restore (st cp0 : Sym) (h : SymInv cp0) : SymInv (st.restore cp0.checkpoint) := by
  unfold SymInv Sym.restore Sym.checkpoint at *
  cases hk : cp0.k with
  | none =>
    simp [hk]
    cases hh : cp0.hasKey with
    | false => rfl
    | true =>
      have := h.2 hh
      simp [hk] at this
  | some key => simp [hk, CipherState.set]

end Sym
end SnowVerif.Model

namespace SnowVerif.Model.HS

theorem pskStep_inv (S : Suite) (hs : HS) (n : Nat) (h : SymInv hs.sym) : SymInv (pskStep S hs n).2.sym := by
  unfold pskStep
  repeat' split
  all_goals first | exact h | exact Sym.inv_mixKeyAndHash S _ _ h

theorem dhStep_inv (S : Suite) (hs : HS) (t : Tok) (h : SymInv hs.sym) : SymInv (dhStep S hs t).2.sym := by
  unfold dhStep
  repeat' split
  all_goals first | exact h | exact Sym.inv_mixKey S _ _

theorem writeTok_inv (S : Suite) (cap : Nat) (w : WS) (t : Tok) (h : SymInv w.hs.sym) :
    SymInv (writeTok S cap w t).2.hs.sym := by
  unfold writeTok
  cases t with
  | e =>
    simp only
    repeat' split
    all_goals first | exact h | exact Sym.inv_mixKey S _ _ | exact Sym.inv_mixHash S _ _ h
  | s =>
    simp only
    repeat' split
    all_goals first | exact h | exact Sym.inv_encrypt S _ _ _ h
  | psk n => exact pskStep_inv S w.hs n h
  | ee => exact dhStep_inv S w.hs _ h
  | es => exact dhStep_inv S w.hs _ h
  | se => exact dhStep_inv S w.hs _ h
  | ss => exact dhStep_inv S w.hs _ h

theorem writeToks_inv (S : Suite) (cap : Nat) (ts : List Tok) (w : WS) (h : SymInv w.hs.sym) :
    SymInv (writeToks S cap ts w).2.hs.sym := by
  induction ts generalizing w with
  | nil => exact h
  | cons t ts ih =>
    unfold writeToks
    have h1 := writeTok_inv S cap w t h
    split
    · exact ih _ h1
    · exact h1

theorem readTok_inv (S : Suite) (r : RS) (t : Tok) (h : SymInv r.hs.sym) :
    SymInv (readTok S r t).2.hs.sym := by
  unfold readTok
  cases t with
  | e =>
    simp only
    repeat' split
    all_goals first | exact h | exact Sym.inv_mixKey S _ _ | exact Sym.inv_mixHash S _ _ h
  | s =>
    simp only
    repeat' split
    all_goals first | exact h | exact Sym.inv_decrypt S _ _ _ h
  | psk n => exact pskStep_inv S r.hs n h
  | ee => exact dhStep_inv S r.hs _ h
  | es => exact dhStep_inv S r.hs _ h
  | se => exact dhStep_inv S r.hs _ h
  | ss => exact dhStep_inv S r.hs _ h

theorem readToks_inv (S : Suite) (ts : List Tok) (r : RS) (h : SymInv r.hs.sym) :
    SymInv (readToks S ts r).2.hs.sym := by
  induction ts generalizing r with
  | nil => exact h
  | cons t ts ih =>
    unfold readToks
    have h1 := readTok_inv S r t h
    split
    · exact ih _ h1
    · exact h1

/-- `_write_message`: the frame and the invariant of what it returns. -/
theorem writeInner_frame (S : Suite) (hs : HS) (p : Bytes) (cap : Nat) :
    let w := (writeInner S hs p cap).2
    w.hs.initiator = hs.initiator ∧ w.hs.isPsk = hs.isPsk ∧ w.hs.oneway = hs.oneway ∧ w.hs.psks = hs.psks ∧
    w.hs.myTurn = hs.myTurn ∧ w.hs.msgs = hs.msgs ∧ w.hs.pos = hs.pos ∧ w.hs.fixedE = hs.fixedE ∧
    w.hs.s = hs.s ∧ w.hs.rs = hs.rs ∧ w.hs.re = hs.re := by
  intro w
  have hf := writeToks_frame S cap (hs.msgs.getD hs.pos []) { hs := hs, acc := [], ev := [] }
  simp only [w]
  unfold writeInner
  simp only
  repeat' split
  all_goals first
    | exact ⟨rfl, rfl, rfl, rfl, rfl, rfl, rfl, rfl, rfl, rfl, rfl⟩
    | exact ⟨hf.initiator, hf.isPsk, hf.oneway, hf.psks, hf.myTurn, hf.msgs, hf.pos, hf.fixedE, hf.s, hf.rs, hf.re⟩

theorem writeInner_inv (S : Suite) (hs : HS) (p : Bytes) (cap : Nat) (h : SymInv hs.sym) :
    SymInv (writeInner S hs p cap).2.hs.sym := by
  have hi := writeToks_inv S cap (hs.msgs.getD hs.pos []) { hs := hs, acc := [], ev := [] } h
  unfold writeInner
  simp only
  repeat' split
  all_goals first
    | exact h
    | exact hi
    | exact Sym.inv_encrypt S _ _ _ hi

theorem readInner_frame (S : Suite) (hs : HS) (m : Bytes) (cap : Nat) :
    let x := (readInner S hs m cap).2.1
    x.initiator = hs.initiator ∧ x.isPsk = hs.isPsk ∧ x.oneway = hs.oneway ∧ x.psks = hs.psks ∧
    x.myTurn = hs.myTurn ∧ x.msgs = hs.msgs ∧ x.pos = hs.pos ∧ x.fixedE = hs.fixedE ∧
    x.s = hs.s ∧ x.e = hs.e ∧ x.rng = hs.rng := by
  intro x
  have hf := readToks_frame S (hs.msgs.getD hs.pos []) { hs := hs, ptr := m, ev := [] }
  simp only [x]
  unfold readInner
  simp only
  repeat' split
  all_goals first
    | exact ⟨rfl, rfl, rfl, rfl, rfl, rfl, rfl, rfl, rfl, rfl, rfl⟩
    | exact ⟨hf.initiator, hf.isPsk, hf.oneway, hf.psks, hf.myTurn, hf.msgs, hf.pos, hf.fixedE, hf.s, hf.e, hf.rng⟩

theorem readInner_inv (S : Suite) (hs : HS) (m : Bytes) (cap : Nat) (h : SymInv hs.sym) :
    SymInv (readInner S hs m cap).2.1.sym := by
  have hi := readToks_inv S (hs.msgs.getD hs.pos []) { hs := hs, ptr := m, ev := [] } h
  unfold readInner
  simp only
  repeat' split
  all_goals first
    | exact h
    | exact hi
    | exact Sym.inv_decrypt S _ _ _ hi

end SnowVerif.Model.HS
