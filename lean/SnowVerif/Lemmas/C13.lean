/-
  C13  Helper lemmas for the name-parser theorems.
-/
import SnowVerif.Lemmas.C13Grammar

namespace SnowVerif.Lemmas.C13
open SnowVerif SnowVerif.Model
open SnowVerif.Generated (Pattern allPatterns)
set_option linter.unusedVariables false
set_option linter.unusedSimpArgs false

/-! ### The fixed strings of the parser, as byte lists -/

theorem str_Noise : str "Noise" = [78, 111, 105, 115, 101] := by decide +kernel
theorem str_Noise_ : str "Noise_" = [78, 111, 105, 115, 101, 95] := by decide +kernel
theorem str_us : str "_" = [95] := by decide +kernel
theorem str_psk : str "psk" = [112, 115, 107] := by decide +kernel
theorem str_fallback : str "fallback" = [102, 97, 108, 108, 98, 97, 99, 107] := by decide +kernel
theorem str_25519 : str "25519" = [50, 53, 53, 49, 57] := by decide +kernel
theorem str_448 : str "448" = [52, 52, 56] := by decide +kernel
theorem str_P256 : str "P256" = [80, 50, 53, 54] := by decide +kernel
theorem str_ChaChaPoly : str "ChaChaPoly" = [67, 104, 97, 67, 104, 97, 80, 111, 108, 121] := by decide +kernel
theorem str_XChaChaPoly : str "XChaChaPoly" = [88, 67, 104, 97, 67, 104, 97, 80, 111, 108, 121] := by decide +kernel
theorem str_AESGCM : str "AESGCM" = [65, 69, 83, 71, 67, 77] := by decide +kernel
theorem str_SHA256 : str "SHA256" = [83, 72, 65, 50, 53, 54] := by decide +kernel
theorem str_SHA512 : str "SHA512" = [83, 72, 65, 53, 49, 50] := by decide +kernel
theorem str_BLAKE2s : str "BLAKE2s" = [66, 76, 65, 75, 69, 50, 115] := by decide +kernel
theorem str_BLAKE2b : str "BLAKE2b" = [66, 76, 65, 75, 69, 50, 98] := by decide +kernel

/-! ### `splitBy` and `joinWith` are inverse -/

theorem splitBy_ne_nil (sep : UInt8) (s : Bytes) : splitBy sep s ≠ [] := by
  cases s with
  | nil => simp [splitBy]
  | cons b rest =>
    unfold splitBy
    split
    · simp
    · split <;> simp

/-- Joining the pieces of a split gives the string back. -/
theorem join_splitBy (sep : UInt8) (s : Bytes) : joinWith sep (splitBy sep s) = s := by
  induction s with
  | nil => simp [splitBy, joinWith]
  | cons b rest ih =>
    unfold splitBy
    split
    · next h => exact absurd h (splitBy_ne_nil sep rest)
    · next h t heq =>
      rw [heq] at ih
      split
      · next hb =>
        have : b = sep := by simpa using hb
        subst this
        simp [joinWith, ih]
      · cases t with
        | nil => simp [joinWith] at ih ⊢; exact ih
        | cons y r => simp [joinWith] at ih ⊢; exact ih

/-- No piece of a split contains the separator. -/
theorem splitBy_no_sep (sep : UInt8) (s : Bytes) : ∀ x ∈ splitBy sep s, sep ∉ x := by
  induction s with
  | nil => simp [splitBy]
  | cons b rest ih =>
    unfold splitBy
    split
    · simp
    · next h t heq =>
      rw [heq] at ih
      split
      · intro x hx
        simp only [List.mem_cons] at hx
        rcases hx with rfl | rfl | hx
        · simp
        · exact ih _ (by simp)
        · exact ih _ (by simp [hx])
      · next hb =>
        have hb' : ¬ b = sep := by simpa using hb
        intro x hx
        simp only [List.mem_cons] at hx
        rcases hx with rfl | hx
        · have := ih h (by simp)
          simp only [List.mem_cons, not_or]
          exact ⟨fun e => hb' e.symm, this⟩
        · exact ih _ (by simp [hx])

theorem splitBy_append_sep (sep : UInt8) (x rest : Bytes) (hx : sep ∉ x) :
    splitBy sep (x ++ sep :: rest) = x :: splitBy sep rest := by
  induction x with
  | nil =>
    simp only [List.nil_append]
    rw [splitBy]
    split
    · next h => exact absurd h (splitBy_ne_nil sep rest)
    · next h t heq => simp [heq]
  | cons a x ih =>
    simp only [List.mem_cons, not_or] at hx
    simp only [List.cons_append]
    rw [splitBy, ih hx.2]
    simp
    intro h; exact absurd h.symm hx.1

theorem splitBy_single (sep : UInt8) (x : Bytes) (hx : sep ∉ x) : splitBy sep x = [x] := by
  induction x with
  | nil => simp [splitBy]
  | cons a x ih =>
    simp only [List.mem_cons, not_or] at hx
    rw [splitBy, ih hx.2]
    simp
    intro h; exact absurd h.symm hx.1

/-- Splitting a join of separator-free pieces gives the pieces back. -/
theorem splitBy_join (sep : UInt8) (xs : List Bytes) (hne : xs ≠ []) (h : ∀ x ∈ xs, sep ∉ x) :
    splitBy sep (joinWith sep xs) = xs := by
  induction xs with
  | nil => exact absurd rfl hne
  | cons x r ih =>
    cases r with
    | nil => simp [joinWith]; exact splitBy_single sep x (h x (by simp))
    | cons y r =>
      simp only [joinWith]
      rw [splitBy_append_sep sep x _ (h x (by simp)), ih (by simp) (fun z hz => h z (by simp [hz]))]

/-- `splitBy` is characterised by `joinWith`: the pieces are the unique separator-free
    non-empty list of strings whose join is the input. -/
theorem splitBy_eq_iff (sep : UInt8) (s : Bytes) (xs : List Bytes) :
    splitBy sep s = xs ↔ xs ≠ [] ∧ (∀ x ∈ xs, sep ∉ x) ∧ joinWith sep xs = s := by
  constructor
  · rintro rfl
    exact ⟨splitBy_ne_nil sep s, splitBy_no_sep sep s, join_splitBy sep s⟩
  · rintro ⟨h1, h2, rfl⟩
    exact splitBy_join sep xs h1 h2

/-! ### Primitive names -/

/-- `BaseChoice::from_str` accepts exactly `Noise`. -/
theorem parseBase_ok_iff (s : Bytes) : parseBase s = .ok () ↔ s = str "Noise" := by
  unfold parseBase
  split <;> simp_all

/-- `DHChoice::from_str` accepts exactly the DH names of the build. -/
theorem parseDh_ok_iff (f : Features) (s : Bytes) (d : DhChoice) :
    parseDh f s = .ok d ↔ DhName f s d := by
  constructor
  · intro h
    unfold parseDh at h
    repeat' split at h
    all_goals simp_all
    all_goals (subst h; constructor)
    all_goals simp_all
  · intro h
    cases h <;> simp_all [parseDh, str_25519, str_448, str_P256]

/-- `CipherChoice::from_str` accepts exactly the cipher names of the build. -/
theorem parseCipher_ok_iff (f : Features) (s : Bytes) (c : CipherChoice) :
    parseCipher f s = .ok c ↔ CipherName f s c := by
  constructor
  · intro h
    unfold parseCipher at h
    repeat' split at h
    all_goals simp_all
    all_goals (subst h; constructor)
    all_goals simp_all
  · intro h
    cases h <;> simp_all [parseCipher, str_ChaChaPoly, str_XChaChaPoly, str_AESGCM]

/-- `HashChoice::from_str` accepts exactly the four hash names. -/
theorem parseHash_ok_iff (s : Bytes) (c : HashChoice) :
    parseHash s = .ok c ↔ HashName s c := by
  constructor
  · intro h
    unfold parseHash at h
    repeat' split at h
    all_goals simp_all
    all_goals (subst h; constructor)
  · intro h
    cases h <;> simp_all [parseHash, str_SHA256, str_SHA512, str_BLAKE2s, str_BLAKE2b]

/-! ### Modifier items -/

/-- The parser's left fold computes the positional decimal value. -/
theorem foldl_eq_decVal (s : Bytes) (a : Nat) :
    s.foldl (fun a b => 10 * a + (b.toNat - 48)) a = a * 10 ^ s.length + decVal s := by
  induction s generalizing a with
  | nil => simp [decVal]
  | cons d ds ih =>
    simp only [List.foldl_cons, ih, decVal, List.length_cons, Nat.pow_succ]
    rw [Nat.add_mul, Nat.mul_comm 10 a, Nat.mul_assoc, Nat.mul_comm 10]
    omega

theorem isDigit_iff (b : UInt8) : isDigit b = true ↔ IsAsciiDigit b := by
  simp [isDigit, IsAsciiDigit]

/-- `u8::from_str` on a `+`-free string: succeeds exactly on non-empty digit strings of value at most
    255 (any number of leading zeros), with that value. -/
theorem parseU8_eq_some_iff (s : Bytes) (n : Nat) :
    parseU8 s = some n ↔ s ≠ [] ∧ (∀ d ∈ s, IsAsciiDigit d) ∧ decVal s ≤ 255 ∧ n = decVal s := by
  unfold parseU8
  simp only [foldl_eq_decVal, Nat.zero_mul, Nat.zero_add]
  split
  · next h =>
    simp only [Bool.or_eq_true, List.isEmpty_iff, Bool.not_eq_true', List.all_eq_false] at h
    simp only [reduceCtorEq, false_iff, not_and]
    intro h1 h2
    rcases h with h | ⟨d, hd, hh⟩
    · exact absurd h h1
    · have := (isDigit_iff d).mpr (h2 d hd)
      simp [this] at hh
  · next h =>
    simp only [Bool.or_eq_true, List.isEmpty_iff, Bool.not_eq_true', List.all_eq_false, not_or,
      not_exists, not_and, Decidable.not_not] at h
    have h2 : ∀ d ∈ s, IsAsciiDigit d := fun d hd => (isDigit_iff d).mp (h.2 d hd)
    split
    · next hv =>
      simp only [Option.some.injEq]
      constructor
      · rintro rfl; exact ⟨h.1, h2, hv, rfl⟩
      · rintro ⟨_, _, _, rfl⟩; rfl
    · next hv => simp [hv]

/-- `HandshakeModifier::from_str` accepts exactly the items of the grammar, with their meaning. -/
theorem parseModifier_ok_iff (s : Bytes) (m : Modifier) : parseModifier s = .ok m ↔ Item s m := by
  constructor
  · intro h
    unfold parseModifier at h
    split at h
    · next hp =>
      rw [List.isPrefixOf_iff_prefix] at hp
      obtain ⟨ds, rfl⟩ := hp
      have hl : (str "psk").length = 3 := by rw [str_psk]; rfl
      rw [← hl, List.drop_left] at h
      split at h
      · next n hn =>
        obtain ⟨h1, h2, h3, rfl⟩ := (parseU8_eq_some_iff ds n).mp hn
        simp only [Res.ok.injEq] at h
        subst h
        exact Item.psk ds h1 h2 h3
      · simp at h
    · split at h
      · next hf =>
        simp only [beq_iff_eq] at hf
        simp only [Res.ok.injEq] at h
        subst hf h
        exact Item.fallback
      · simp at h
  · intro h
    cases h with
    | fallback => simp [parseModifier, str_psk, str_fallback]
    | psk ds h1 h2 h3 =>
      have hl : (str "psk").length = 3 := by rw [str_psk]; rfl
      have hp : (str "psk").isPrefixOf (str "psk" ++ ds) = true := by
        rw [List.isPrefixOf_iff_prefix]; exact List.prefix_append _ _
      unfold parseModifier
      rw [if_pos hp, ← hl, List.drop_left, (parseU8_eq_some_iff ds _).mpr ⟨h1, h2, h3, rfl⟩]

/-- A digit is ASCII and is neither `+` nor `_`. -/
theorem digit_props (d : UInt8) (h : IsAsciiDigit d) : d ≠ 43 ∧ d ≠ 95 ∧ d < 128 := by
  unfold IsAsciiDigit at h
  rw [UInt8.le_iff_toNat_le, UInt8.le_iff_toNat_le] at h
  have h1 : (48 : UInt8).toNat = 48 := rfl
  have h2 : (57 : UInt8).toNat = 57 := rfl
  rw [h1, h2] at h
  refine ⟨?_, ?_, ?_⟩
  · rintro rfl; revert h; decide
  · rintro rfl; revert h; decide
  · rw [UInt8.lt_iff_toNat_lt]; have : (128 : UInt8).toNat = 128 := rfl; omega

/-- The accumulating loop of `HandshakeModifierList::from_str`, characterised. -/
theorem parseModifierItems_ok_iff (its : List Bytes) (acc ms : List Modifier) (hacc : acc.Nodup) :
    parseModifierItems its acc = .ok ms ↔
      ∃ items : List (Bytes × Modifier), its = items.map Prod.fst ∧ (∀ it ∈ items, Item it.1 it.2) ∧
        ms = acc ++ items.map Prod.snd ∧ ms.Nodup := by
  induction its generalizing acc with
  | nil =>
    simp only [parseModifierItems, Res.ok.injEq]
    constructor
    · rintro rfl; exact ⟨[], rfl, by simp, by simp, hacc⟩
    · rintro ⟨items, h1, _, h3, _⟩
      have : items = [] := by simpa using h1.symm
      subst this; simp at h3; exact h3.symm
  | cons m rest ih =>
    rw [parseModifierItems]
    split
    · next x hx =>
      have hix := (parseModifier_ok_iff m x).mp hx
      split
      · next hc =>
        simp only [List.contains_iff_mem] at hc
        simp only [reduceCtorEq, false_iff, not_exists, not_and]
        intro items h1 h2 h3 h4
        cases items with
        | nil => simp at h1
        | cons it items' =>
          simp only [List.map_cons, List.cons.injEq] at h1
          have hit := h2 it (by simp)
          rw [← h1.1] at hit
          have hx' := (parseModifier_ok_iff m it.2).mpr hit
          rw [hx] at hx'
          simp only [Res.ok.injEq] at hx'
          subst h3
          rw [List.nodup_append] at h4
          exact h4.2.2 x hc it.2 (by simp) hx'
      · next hc =>
        simp only [List.contains_iff_mem] at hc
        have hacc' : (acc ++ [x]).Nodup := by
          rw [List.nodup_append]
          refine ⟨hacc, by simp, ?_⟩
          intro a ha b hb
          simp at hb; subst hb
          intro e; subst e; exact hc ha
        rw [ih (acc ++ [x]) hacc']
        constructor
        · rintro ⟨items, h1, h2, h3, h4⟩
          refine ⟨(m, x) :: items, by simp [h1], ?_, by simp [h3], h4⟩
          intro it hit
          simp only [List.mem_cons] at hit
          rcases hit with rfl | hit
          · exact hix
          · exact h2 it hit
        · rintro ⟨items, h1, h2, h3, h4⟩
          cases items with
          | nil => simp at h1
          | cons it items' =>
            simp only [List.map_cons, List.cons.injEq] at h1
            have hit := h2 it (by simp)
            rw [← h1.1] at hit
            have hx' := (parseModifier_ok_iff m it.2).mpr hit
            rw [hx] at hx'
            simp only [Res.ok.injEq] at hx'
            refine ⟨items', h1.2, fun j hj => h2 j (by simp [hj]), ?_, h4⟩
            rw [h3, hx']; simp
    · next e he =>
      simp only [reduceCtorEq, false_iff, not_exists, not_and]
      intro items h1 h2
      cases items with
      | nil => simp at h1
      | cons it items' =>
        simp only [List.map_cons, List.cons.injEq] at h1
        have hit := h2 it (by simp)
        rw [← h1.1] at hit
        have hx' := (parseModifier_ok_iff m it.2).mpr hit
        rw [he] at hx'
        simp at hx'
    · next e he =>
      simp only [reduceCtorEq, false_iff, not_exists, not_and]
      intro items h1 h2
      cases items with
      | nil => simp at h1
      | cons it items' =>
        simp only [List.map_cons, List.cons.injEq] at h1
        have hit := h2 it (by simp)
        rw [← h1.1] at hit
        have hx' := (parseModifier_ok_iff m it.2).mpr hit
        rw [he] at hx'
        simp at hx'

/-! ### The modifier list -/

/-- A byte that may occur inside a modifier item: ASCII and neither of the separators. -/
def PlainByte (b : UInt8) : Prop := b ≠ 43 ∧ b ≠ 95 ∧ b < 128

/-- Every byte of a modifier item is ASCII and none is `+` or `_`. -/
theorem Item.bytes_plain {b : Bytes} {m : Modifier} (h : Item b m) : ∀ x ∈ b, PlainByte x := by
  cases h with
  | fallback => rw [str_fallback]; unfold PlainByte; decide
  | psk ds h1 h2 h3 =>
    intro x hx
    rw [List.mem_append] at hx
    rcases hx with hx | hx
    · revert x; rw [str_psk]; unfold PlainByte; decide
    · exact digit_props x (h2 x hx)

/-- A modifier item starts with a lowercase `p` or `f`. -/
theorem Item.head {b : Bytes} {m : Modifier} (h : Item b m) :
    ∃ c t, b = c :: t ∧ (c = 112 ∨ c = 102) := by
  cases h with
  | fallback => rw [str_fallback]; exact ⟨_, _, rfl, Or.inr rfl⟩
  | psk ds h1 h2 h3 => rw [str_psk]; exact ⟨_, _, rfl, Or.inl rfl⟩

theorem joinWith_plain (sep : UInt8) (P : UInt8 → Prop) (hs : P sep) (xs : List Bytes)
    (h : ∀ x ∈ xs, ∀ b ∈ x, P b) : ∀ b ∈ joinWith sep xs, P b := by
  induction xs with
  | nil => simp [joinWith]
  | cons x r ih =>
    cases r with
    | nil => simpa [joinWith] using h
    | cons y r =>
      intro b hb
      simp only [joinWith, List.mem_append, List.mem_cons] at hb
      rcases hb with hb | rfl | hb
      · exact h x (by simp) b hb
      · exact hs
      · exact ih (fun z hz => h z (by simp [hz])) b hb

theorem joinWith_head (sep : UInt8) (c : UInt8) (t : Bytes) (r : List Bytes) :
    ∃ t', joinWith sep ((c :: t) :: r) = c :: t' := by
  cases r with
  | nil => exact ⟨t, rfl⟩
  | cons y r => exact ⟨_, rfl⟩

/-- A non-empty modifier string starts with `p` or `f`. -/
theorem modifierString_head (items : List (Bytes × Modifier)) (hne : items ≠ [])
    (h : ∀ it ∈ items, Item it.1 it.2) :
    ∃ c t, modifierString items = c :: t ∧ (c = 112 ∨ c = 102) := by
  cases items with
  | nil => exact absurd rfl hne
  | cons it r =>
    obtain ⟨c, t, hb, hc⟩ := (h it (by simp)).head
    unfold modifierString
    rw [List.map_cons, hb]
    obtain ⟨t', ht'⟩ := joinWith_head 43 c t (r.map Prod.fst)
    exact ⟨c, t', ht', hc⟩

/-- `HandshakeModifierList::from_str` accepts exactly the `+`-joined lists of well-formed,
    pairwise different items, and returns what they denote in order. -/
theorem parseModifiers_ok_iff (s : Bytes) (ms : List Modifier) :
    parseModifiers s = .ok ms ↔
      ∃ items : List (Bytes × Modifier), s = modifierString items ∧ (∀ it ∈ items, Item it.1 it.2) ∧
        ms = items.map Prod.snd ∧ ms.Nodup := by
  unfold parseModifiers
  split
  · next he =>
    simp only [List.isEmpty_iff] at he
    subst he
    simp only [Res.ok.injEq]
    constructor
    · rintro rfl; exact ⟨[], rfl, by simp, rfl, by simp⟩
    · rintro ⟨items, h1, h2, h3, _⟩
      cases items with
      | nil => simp [h3]
      | cons it r =>
        obtain ⟨c, t, hh, _⟩ := modifierString_head (it :: r) (by simp) h2
        rw [hh] at h1; simp at h1
  · next he =>
    simp only [List.isEmpty_iff] at he
    rw [parseModifierItems_ok_iff _ _ _ (by simp)]
    simp only [List.nil_append]
    constructor
    · rintro ⟨items, h1, h2, h3, h4⟩
      refine ⟨items, ?_, h2, h3, h4⟩
      unfold modifierString
      rw [← h1, join_splitBy]
    · rintro ⟨items, h1, h2, h3, h4⟩
      refine ⟨items, ?_, h2, h3, h4⟩
      subst h1
      unfold modifierString
      apply splitBy_join
      · intro hn
        apply he
        unfold modifierString; rw [hn]; rfl
      · intro x hx hm
        simp only [List.mem_map] at hx
        obtain ⟨it, hit, rfl⟩ := hx
        exact ((h2 it hit).bytes_plain 43 hm).1 rfl

/-! ### Table facts (re-checked by evaluation whenever the generated table changes) -/

/-- The characters pattern names are made of: `N K X I 1`. -/
def patternAlphabet : List UInt8 := [78, 75, 88, 73, 49]

theorem all_mem (p : Pattern) : p ∈ allPatterns := by cases p <;> decide

theorem table_alphabet : ∀ p ∈ allPatterns, ∀ b ∈ str p.name, b ∈ patternAlphabet := by decide +kernel
theorem table_len : ∀ p ∈ allPatterns, 1 ≤ (str p.name).length ∧ (str p.name).length ≤ 4 := by
  decide +kernel
theorem table_parsePattern : ∀ p ∈ allPatterns, parsePattern (str p.name) = some p := by decide +kernel
theorem table_bare : ∀ p ∈ allPatterns, parsePatternAndModifier (str p.name) = .ok (p, []) := by
  decide +kernel

theorem name_alphabet (p : Pattern) : ∀ b ∈ str p.name, b ∈ patternAlphabet := table_alphabet p (all_mem p)
theorem name_len (p : Pattern) : 1 ≤ (str p.name).length ∧ (str p.name).length ≤ 4 := table_len p (all_mem p)
theorem parsePattern_name (p : Pattern) : parsePattern (str p.name) = some p := table_parsePattern p (all_mem p)
theorem parse_bare (p : Pattern) : parsePatternAndModifier (str p.name) = .ok (p, []) := table_bare p (all_mem p)

theorem parsePattern_some {s : Bytes} {q : Pattern} (h : parsePattern s = some q) : str q.name = s := by
  unfold parsePattern at h
  have := List.find?_some h
  simpa using this

/-- Pattern names are pairwise different (so `HandshakePattern::from_str` is a bijection between
    table names and patterns). -/
theorem name_injective (p q : Pattern) (h : str p.name = str q.name) : p = q := by
  have h1 := parsePattern_name p
  rw [h, parsePattern_name q] at h1
  exact (Option.some.inj h1).symm

/-! ### The longest-prefix rule -/

theorem tryPrefix_some {s : Bytes} {i : Nat} {q : Pattern} {r : Bytes} (h : tryPrefix s i = some (q, r)) :
    str q.name = s.take i ∧ r = s.drop i ∧ i - 1 < s.length := by
  unfold tryPrefix at h
  split at h
  · next hg =>
    split at h
    · next p hp =>
      simp only [Option.some.injEq, Prod.mk.injEq] at h
      obtain ⟨rfl, rfl⟩ := h
      simp only [Bool.and_eq_true, decide_eq_true_eq] at hg
      exact ⟨parsePattern_some hp, rfl, hg.1⟩
    · simp at h
  · simp at h

/-- Whatever split `parse_pattern_and_modifier` returns, it is a split of the input into a table
    name and the rest. -/
theorem parsePatternAndModifier_ok {s : Bytes} {p : Pattern} {rest : Bytes}
    (h : parsePatternAndModifier s = .ok (p, rest)) : s = str p.name ++ rest := by
  unfold parsePatternAndModifier at h
  repeat' split at h
  all_goals simp only [Res.ok.injEq, reduceCtorEq] at h
  all_goals
    subst h
    rename_i hh
    obtain ⟨h1, h2, _⟩ := tryPrefix_some hh
    rw [h1, h2, List.take_append_drop]

/-- Core of the longest-prefix argument: if a table name is followed by a byte outside the
    pattern alphabet, no longer table name is a prefix of the whole. -/
theorem no_longer_prefix (p q : Pattern) (c : UInt8) (t : Bytes) (hc : c ∉ patternAlphabet)
    (hlen : (str p.name).length < (str q.name).length) : ¬ (str q.name <+: str p.name ++ c :: t) := by
  rintro ⟨u, hu⟩
  rw [List.append_eq_append_iff] at hu
  rcases hu with ⟨a, h1, h2⟩ | ⟨a, h1, h2⟩
  · have := congrArg List.length h1
    simp at this; omega
  · cases a with
    | nil => simp at h1; rw [h1] at hlen; omega
    | cons d a =>
      simp only [List.cons_append, List.cons.injEq] at h2
      have : c ∈ str q.name := by rw [h1, h2.1]; simp
      exact hc (name_alphabet q c this)

/-- Loop iterations with a prefix longer than the table name find nothing. -/
theorem tryPrefix_longer_none (p : Pattern) (c : UInt8) (t : Bytes) (hc : c ∉ patternAlphabet)
    (i : Nat) (hi : (str p.name).length < i) : tryPrefix (str p.name ++ c :: t) i = none := by
  cases h : tryPrefix (str p.name ++ c :: t) i with
  | none => rfl
  | some qr =>
    obtain ⟨q, r⟩ := qr
    obtain ⟨h1, _, h3⟩ := tryPrefix_some h
    exfalso
    apply no_longer_prefix p q c t hc
    · have := congrArg List.length h1
      rw [List.length_take] at this
      omega
    · rw [h1]; exact List.take_prefix _ _

/-- The loop iteration at the length of the table name finds it. -/
theorem tryPrefix_exact (p : Pattern) (c : UInt8) (t : Bytes) (hb : ((c &&& 0xC0) != 0x80) = true) :
    tryPrefix (str p.name ++ c :: t) (str p.name).length = some (p, c :: t) := by
  have hl := (name_len p).1
  unfold tryPrefix isCharBoundary
  have h1 : (str p.name ++ c :: t).getD (str p.name).length 0 = c := by simp
  rw [h1, hb, List.take_left, List.drop_left, parsePattern_name]
  simp
  omega

/-- A table name followed by a byte that is ASCII and outside the pattern alphabet is split
    exactly after the table name. -/
theorem parsePatternAndModifier_split (p : Pattern) (c : UInt8) (t : Bytes) (hc : c ∉ patternAlphabet)
    (hb : ((c &&& 0xC0) != 0x80) = true) :
    parsePatternAndModifier (str p.name ++ c :: t) = .ok (p, c :: t) := by
  have hl := name_len p
  have hn := tryPrefix_longer_none p c t hc
  have he := tryPrefix_exact p c t hb
  unfold parsePatternAndModifier
  have : (str p.name).length = 1 ∨ (str p.name).length = 2 ∨ (str p.name).length = 3 ∨
      (str p.name).length = 4 := by omega
  rcases this with h | h | h | h <;> rw [h] at he hn
  · rw [hn 4 (by omega), hn 3 (by omega), hn 2 (by omega), he]
  · rw [hn 4 (by omega), hn 3 (by omega), he]
  · rw [hn 4 (by omega), he]
  · rw [he]

/-! ### `HandshakeChoice::from_str` -/

/-- `p` and `f` are ASCII (so a char boundary) and outside the pattern alphabet. -/
theorem modStart_ok (c : UInt8) (h : c = 112 ∨ c = 102) :
    c ∉ patternAlphabet ∧ ((c &&& 0xC0) != 0x80) = true := by
  rcases h with rfl | rfl <;> decide

/-- `HandshakeChoice::from_str` accepts exactly `<table name><items joined by +>`, and returns
    that pattern and those modifiers. -/
theorem parseHandshake_ok_iff (s : Bytes) (p : Pattern) (ms : List Modifier) :
    parseHandshake s = .ok (p, ms) ↔ HandshakeGrammar s p ms := by
  constructor
  · intro h
    unfold parseHandshake at h
    split at h
    · next p' rest hpm =>
      split at h
      · next ms' hms =>
        simp only [Res.ok.injEq, Prod.mk.injEq] at h
        obtain ⟨rfl, rfl⟩ := h
        obtain ⟨items, h1, h2, h3, h4⟩ := (parseModifiers_ok_iff rest ms').mp hms
        exact ⟨items, by rw [parsePatternAndModifier_ok hpm, h1], h2, h3, h4⟩
      · simp at h
      · simp at h
    · simp at h
    · simp at h
  · rintro ⟨items, rfl, h2, h3, h4⟩
    have hms := (parseModifiers_ok_iff (modifierString items) ms).mpr ⟨items, rfl, h2, h3, h4⟩
    unfold parseHandshake
    cases items with
    | nil =>
      have : modifierString [] = [] := rfl
      rw [this] at hms ⊢
      rw [List.append_nil, parse_bare p]
      simp only [hms]
    | cons it r =>
      obtain ⟨c, t, hh, hc⟩ := modifierString_head (it :: r) (by simp) h2
      obtain ⟨hc1, hc2⟩ := modStart_ok c hc
      rw [hh] at hms ⊢
      rw [parsePatternAndModifier_split p c t hc1 hc2]
      simp only [hms]

/-! ### `NoiseParams::from_str`: the five-way split, unfolded -/

/-- `NoiseParams::from_str` succeeds exactly when `split('_')` gives five pieces, the first is
    `Noise`, and the four sub-parsers accept the others; the value collects their results and the
    input string. -/
theorem parse_ok_unfold (f : Features) (s : Bytes) (r : Params) :
    parse f s = .ok r ↔
      ∃ p1 p2 p3 p4, splitBy 95 s = [str "Noise", p1, p2, p3, p4] ∧
        parseHandshake p1 = .ok (r.pattern, r.mods) ∧ parseDh f p2 = .ok r.dh ∧
        parseCipher f p3 = .ok r.cipher ∧ parseHash p4 = .ok r.hash ∧ r.name = s := by
  constructor
  · intro h
    unfold parse at h
    repeat' split at h
    all_goals simp only [Res.ok.injEq, reduceCtorEq] at h
    subst h
    refine ⟨_, _, _, _, ?_, ‹parseHandshake _ = _›, ‹parseDh _ _ = _›, ‹parseCipher _ _ = _›,
      ‹parseHash _ = _›, rfl⟩
    have hb := (parseBase_ok_iff _).mp ‹parseBase _ = _›
    rw [‹splitBy 95 s = _›, hb]
  · rintro ⟨p1, p2, p3, p4, hs, h1, h2, h3, h4, h5⟩
    unfold parse
    rw [hs]
    simp only [(parseBase_ok_iff _).mpr rfl, h1, h2, h3, h4]
    cases r; simp_all

/-! ### Only pattern errors, no panic -/

/-- The result is `ok`, or an error of kind `Pattern`; in particular not a panic. -/
def OkOrPattern {α : Type} (r : Res α) : Prop := (∃ a, r = .ok a) ∨ (∃ e, r = .err (.pattern e))

theorem OkOrPattern.of_err {α : Type} {r : Res α} {e : Err} (h : OkOrPattern r) (he : r = .err e) :
    ∃ e', e = .pattern e' := by
  subst he
  rcases h with ⟨a, h⟩ | ⟨e', h⟩
  · simp at h
  · simp only [Res.err.injEq] at h; exact ⟨e', h⟩

theorem OkOrPattern.not_panic {α : Type} {r : Res α} {q : String} (h : OkOrPattern r) : r ≠ .panic q := by
  rintro rfl
  rcases h with ⟨a, h⟩ | ⟨e', h⟩ <;> simp at h

theorem okp_ok {α : Type} (a : α) : OkOrPattern (Res.ok a) := Or.inl ⟨a, rfl⟩
theorem okp_err {α : Type} (e : PatternProblem) : OkOrPattern (Res.err (.pattern e) : Res α) := Or.inr ⟨e, rfl⟩

theorem parseBase_okp (s : Bytes) : OkOrPattern (parseBase s) := by
  unfold parseBase; split <;> first | exact okp_ok _ | exact okp_err _
theorem parseDh_okp (f : Features) (s : Bytes) : OkOrPattern (parseDh f s) := by
  unfold parseDh; repeat' split
  all_goals first | exact okp_ok _ | exact okp_err _
theorem parseCipher_okp (f : Features) (s : Bytes) : OkOrPattern (parseCipher f s) := by
  unfold parseCipher; repeat' split
  all_goals first | exact okp_ok _ | exact okp_err _
theorem parseHash_okp (s : Bytes) : OkOrPattern (parseHash s) := by
  unfold parseHash; repeat' split
  all_goals first | exact okp_ok _ | exact okp_err _
theorem parseModifier_okp (s : Bytes) : OkOrPattern (parseModifier s) := by
  unfold parseModifier; repeat' split
  all_goals first | exact okp_ok _ | exact okp_err _

theorem parseModifierItems_okp (its : List Bytes) (acc : List Modifier) :
    OkOrPattern (parseModifierItems its acc) := by
  induction its generalizing acc with
  | nil => exact okp_ok _
  | cons m rest ih =>
    rw [parseModifierItems]
    split
    · split
      · exact okp_err _
      · exact ih _
    · next e he =>
      obtain ⟨e', rfl⟩ := (parseModifier_okp m).of_err he
      exact okp_err _
    · next q hq => exact absurd hq (parseModifier_okp m).not_panic

theorem parseModifiers_okp (s : Bytes) : OkOrPattern (parseModifiers s) := by
  unfold parseModifiers; split
  · exact okp_ok _
  · exact parseModifierItems_okp _ _

theorem parsePatternAndModifier_okp (s : Bytes) : OkOrPattern (parsePatternAndModifier s) := by
  unfold parsePatternAndModifier; repeat' split
  all_goals first | exact okp_ok _ | exact okp_err _

theorem parseHandshake_okp (s : Bytes) : OkOrPattern (parseHandshake s) := by
  unfold parseHandshake
  split
  · next p rest _ =>
    split
    · exact okp_ok _
    · next e he =>
      obtain ⟨e', rfl⟩ := (parseModifiers_okp rest).of_err he
      exact okp_err _
    · next q hq => exact absurd hq (parseModifiers_okp rest).not_panic
  · next e he =>
    obtain ⟨e', rfl⟩ := (parsePatternAndModifier_okp s).of_err he
    exact okp_err _
  · next q hq => exact absurd hq (parsePatternAndModifier_okp s).not_panic

theorem parse_okp (f : Features) (s : Bytes) : OkOrPattern (parse f s) := by
  unfold parse
  repeat' split
  all_goals first
    | exact okp_ok _
    | exact okp_err _
    | exact absurd ‹splitBy 95 s = []› (splitBy_ne_nil 95 s)
    | (obtain ⟨e', rfl⟩ := (parseBase_okp _).of_err ‹parseBase _ = _›; exact okp_err _)
    | (obtain ⟨e', rfl⟩ := (parseHandshake_okp _).of_err ‹parseHandshake _ = _›; exact okp_err _)
    | (obtain ⟨e', rfl⟩ := (parseDh_okp _ _).of_err ‹parseDh _ _ = _›; exact okp_err _)
    | (obtain ⟨e', rfl⟩ := (parseCipher_okp _ _).of_err ‹parseCipher _ _ = _›; exact okp_err _)
    | (obtain ⟨e', rfl⟩ := (parseHash_okp _).of_err ‹parseHash _ = _›; exact okp_err _)
    | exact absurd ‹parseBase _ = _› (parseBase_okp _).not_panic
    | exact absurd ‹parseHandshake _ = _› (parseHandshake_okp _).not_panic
    | exact absurd ‹parseDh _ _ = _› (parseDh_okp _ _).not_panic
    | exact absurd ‹parseCipher _ _ = _› (parseCipher_okp _ _).not_panic
    | exact absurd ‹parseHash _ = _› (parseHash_okp _).not_panic

/-! ### Bytes of the components: ASCII and free of `_` -/

/-- ASCII and not the field separator `_`. -/
def FieldByte (b : UInt8) : Prop := b ≠ 95 ∧ b < 128

theorem DhName.bytes {f : Features} {s : Bytes} {d : DhChoice} (h : DhName f s d) :
    ∀ b ∈ s, FieldByte b := by
  cases h
  · rw [str_25519]; unfold FieldByte; decide
  · rw [str_448]; unfold FieldByte; decide
  · rw [str_P256]; unfold FieldByte; decide

theorem CipherName.bytes {f : Features} {s : Bytes} {d : CipherChoice} (h : CipherName f s d) :
    ∀ b ∈ s, FieldByte b := by
  cases h
  · rw [str_ChaChaPoly]; unfold FieldByte; decide
  · rw [str_XChaChaPoly]; unfold FieldByte; decide
  · rw [str_AESGCM]; unfold FieldByte; decide

theorem HashName.bytes {s : Bytes} {d : HashChoice} (h : HashName s d) : ∀ b ∈ s, FieldByte b := by
  cases h
  · rw [str_SHA256]; unfold FieldByte; decide
  · rw [str_SHA512]; unfold FieldByte; decide
  · rw [str_BLAKE2s]; unfold FieldByte; decide
  · rw [str_BLAKE2b]; unfold FieldByte; decide

theorem alphabet_bytes : ∀ b ∈ patternAlphabet, FieldByte b := by unfold FieldByte; decide

theorem HandshakeGrammar.bytes {s : Bytes} {p : Pattern} {ms : List Modifier}
    (h : HandshakeGrammar s p ms) : ∀ b ∈ s, FieldByte b := by
  obtain ⟨items, rfl, h2, _, _⟩ := h
  intro b hb
  rw [List.mem_append] at hb
  rcases hb with hb | hb
  · exact alphabet_bytes b (name_alphabet p b hb)
  · refine joinWith_plain 43 FieldByte (by unfold FieldByte; decide) (items.map Prod.fst) ?_ b hb
    intro x hx c hc
    simp only [List.mem_map] at hx
    obtain ⟨it, hit, rfl⟩ := hx
    exact ((h2 it hit).bytes_plain c hc).2

/-- The five fields of a grammatical name are what `split('_')` returns. -/
theorem grammar_split (f : Features) (hsN dhN ciN haN : Bytes) (p : Pattern) (ms : List Modifier)
    (d : DhChoice) (c : CipherChoice) (h : HashChoice)
    (hh : HandshakeGrammar hsN p ms) (hd : DhName f dhN d) (hc : CipherName f ciN c) (hha : HashName haN h) :
    splitBy 95 (str "Noise_" ++ hsN ++ str "_" ++ dhN ++ str "_" ++ ciN ++ str "_" ++ haN) =
      [str "Noise", hsN, dhN, ciN, haN] := by
  rw [splitBy_eq_iff]
  refine ⟨by simp, ?_, ?_⟩
  · intro x hx
    simp only [List.mem_cons, List.not_mem_nil, or_false] at hx
    rcases hx with rfl | rfl | rfl | rfl | rfl
    · rw [str_Noise]; decide
    · exact fun hm => (hh.bytes 95 hm).1 rfl
    · exact fun hm => (hd.bytes 95 hm).1 rfl
    · exact fun hm => (hc.bytes 95 hm).1 rfl
    · exact fun hm => (hha.bytes 95 hm).1 rfl
  · simp [joinWith, str_Noise, str_Noise_, str_us]

end SnowVerif.Lemmas.C13
