/-
  C01, converse direction: the wrappers `write_message` / `read_message`, the facts a successful
  call implies about snow's own checks (the "only if" half of the exact characterisation), and
  what the specification's acceptance already implies (psks set, static key present).
-/
import SnowVerif.Lemmas.C01CompleteWrite

namespace SnowVerif.C01
open SnowVerif SnowVerif.Model SnowVerif.Model.HS SnowVerif.Bytes SnowVerif.Framing
set_option linter.unusedVariables false
set_option linter.unusedSimpArgs false

/-! ### The wrappers return the outcome of the inner function -/

/-- `read_message` returns the outcome of `_read_message` (it only adds the checkpoint/restore). -/
theorem readMessage_fst (S : Suite) (hs : HS) (m : Bytes) (cap : Nat) :
    (hs.readMessage S m cap).1 = (readInner S hs m cap).1 := by
  unfold readMessage
  simp only
  cases (readInner S hs m cap).1 <;> rfl

/-- `write_message` returns the outcome of `_write_message`. -/
theorem writeMessage_fst (S : Suite) (hs : HS) (p : Bytes) (cap : Nat) :
    (hs.writeMessage S p cap).1 = (writeInner S hs p cap).1 := by
  unfold writeMessage
  simp only
  cases (writeInner S hs p cap).1 <;> rfl

/-- On success the bytes `write_message` reports written are those of `_write_message`. -/
theorem writeMessage_ok_acc (S : Suite) (hs : HS) (p : Bytes) (cap : Nat) (n : Nat)
    (h : (writeInner S hs p cap).1 = .ok n) :
    (hs.writeMessage S p cap).2.2.1 = (writeInner S hs p cap).2.acc := by
  unfold writeMessage
  simp only [h]

/-! ### The ephemeral at message level -/

/-- After a successful `write_message`, giving the specification the ephemeral snow ended with
    or the one `ephOf` names in the state before the call makes no difference. -/
theorem spec_writeMessage_eph (S : Suite) (hs : HS) (p : Bytes) (cap : Nat) (n : Nat) (hs' : HS) (acc : Bytes)
    (ev : List Event) (h1e : (hs.msgs.getD hs.pos []).count .e ≤ 1)
    (h : hs.writeMessage S p cap = (.ok n, hs', acc, ev)) :
    Spec.HandshakeState.writeMessage S (absHS hs) p ⟨hs'.e.val.priv, hs'.e.val.pub⟩ =
      Spec.HandshakeState.writeMessage S (absHS hs) p (ephOf S hs) ∧
    Spec.HandshakeState.writePayloadEncrypted S (absHS hs) ⟨hs'.e.val.priv, hs'.e.val.pub⟩ =
      Spec.HandshakeState.writePayloadEncrypted S (absHS hs) (ephOf S hs) := by
  have h1 : (hs.writeMessage S p cap).1 = .ok n := by rw [h]
  have h2 : (hs.writeMessage S p cap).2.1 = hs' := by rw [h]
  rw [writeMessage_fst] at h1
  obtain ⟨hW, ct, _, _, _, hhs⟩ := writeInner_ok_shape S hs p cap n h1
  have he : hs'.e = (writeToks S cap (hs.msgs.getD hs.pos []) { hs := hs, acc := [], ev := [] }).2.hs.e := by
    rw [← h2]
    unfold writeMessage
    simp only [h1]
    rw [hhs]
    exact (writeFinish_frame S _ p cap).1
  have key := spec_writeToks_eph S cap (hs.msgs.getD hs.pos []) { hs := hs, acc := [], ev := [] } hW h1e (absHS hs)
  have e0 : (⟨hs'.e.val.priv, hs'.e.val.pub⟩ : Spec.KeyPair) =
      absKP (writeToks S cap (hs.msgs.getD hs.pos []) { hs := hs, acc := [], ev := [] }).2.hs.e.val := by
    rw [he]; rfl
  rw [e0]
  obtain ⟨_, hp⟩ := writeInner_turn S hs p cap n h1
  have hm : (absHS hs).msgs = hs.msgs.getD hs.pos [] :: hs.msgs.drop (hs.pos + 1) := drop_pos _ _ hp
  unfold Spec.HandshakeState.writeMessage Spec.HandshakeState.writePayloadEncrypted
  rw [hm]
  simp only
  rw [key]
  exact ⟨rfl, rfl⟩

/-! ### What a successful call implies about snow's own checks -/

/-- A successful `read_message` passed the nonce guard along the whole message. -/
theorem read_ok_nonceOk (S : Suite) (hs : HS) (m : Bytes) (cap : Nat) (pl : Bytes)
    (h : (hs.readMessage S m cap).1 = .ok pl) :
    NonceOk hs.isPsk (hs.msgs.getD hs.pos []) hs.sym.hasKey hs.sym.cs.n = true := by
  rw [readMessage_fst] at h
  obtain ⟨hW, p0, hp0, _, _⟩ := readInner_ok_shape S hs m cap pl h
  exact readToks_nonceOk S (hs.msgs.getD hs.pos []) { hs := hs, ptr := m, ev := [] } hW
    (decrypt_ok_nonce S _ _ _ p0 hp0).2

/-- A successful `write_message` passed the nonce guard along the whole message, and
    `Dh::generate` accepted its draw if the message pattern has an `e`. -/
theorem write_ok_nonceOk (S : Suite) (hs : HS) (p : Bytes) (cap : Nat) (n : Nat)
    (h1e : (hs.msgs.getD hs.pos []).count .e ≤ 1)
    (h : (hs.writeMessage S p cap).1 = .ok n) :
    NonceOk hs.isPsk (hs.msgs.getD hs.pos []) hs.sym.hasKey hs.sym.cs.n = true ∧
    (Tok.e ∈ hs.msgs.getD hs.pos [] → GenOk S hs) := by
  rw [writeMessage_fst] at h
  obtain ⟨hW, ct, hct, _, _, _⟩ := writeInner_ok_shape S hs p cap n h
  refine ⟨writeToks_nonceOk S cap (hs.msgs.getD hs.pos []) { hs := hs, acc := [], ev := [] } hW
    (encrypt_ok_nonce S _ _ _ ct hct).2, ?_⟩
  intro hm
  exact (writeToks_eph S cap (hs.msgs.getD hs.pos []) { hs := hs, acc := [], ev := [] } hW hm h1e).2

/-! ### What the specification's acceptance already implies -/

/-- The specification's `psk` token leaves `psks` and `s` alone, and is defined only if the key is set. -/
theorem spec_pskTok_psks (S : Suite) (sp sp1 : Spec.HandshakeState) (n : Nat)
    (h : Spec.HandshakeState.pskTok S sp n = some sp1) :
    sp1.psks = sp.psks ∧ sp1.s = sp.s ∧ (sp.psks.getD n none).isSome = true := by
  unfold Spec.HandshakeState.pskTok at h
  cases hp : sp.psks.getD n none with
  | none => rw [hp] at h; simp at h
  | some psk =>
    rw [hp] at h
    simp only [Option.some.injEq] at h
    subst h
    exact ⟨rfl, rfl, rfl⟩

/-- The specification's DH tokens leave `psks` and `s` alone. -/
theorem spec_dhTok_psks (S : Suite) (sp sp1 : Spec.HandshakeState) (t : Tok)
    (h : Spec.HandshakeState.dhTok S sp t = some sp1) : sp1.psks = sp.psks ∧ sp1.s = sp.s := by
  unfold Spec.HandshakeState.dhTok at h
  cases hd : Spec.HandshakeState.dh S sp t with
  | none => rw [hd] at h; simp at h
  | some out =>
    rw [hd] at h
    simp only [Option.some.injEq] at h
    subst h
    exact ⟨rfl, rfl⟩

/-- One token of the specification's `ReadMessage`: `psks` unchanged; a `psk n` token found its key. -/
theorem spec_readTok_psks (S : Suite) (sp sp1 : Spec.HandshakeState) (msg rest : Bytes) (t : Tok)
    (h : Spec.HandshakeState.readTok S sp msg t = some (sp1, rest)) :
    sp1.psks = sp.psks ∧ ∀ n, t = .psk n → (sp.psks.getD n none).isSome = true := by
  unfold Spec.HandshakeState.readTok at h
  cases t with
  | e =>
    simp only at h
    split at h
    · cases h
    · simp only [Option.some.injEq, Prod.mk.injEq] at h
      obtain ⟨rfl, _⟩ := h
      exact ⟨rfl, fun n x => by cases x⟩
  | s =>
    simp only at h
    by_cases hc : msg.length < S.pubLen + (if sp.hasKey then 16 else 0)
    · simp only [hc, ↓reduceIte] at h; cases h
    · simp only [hc, ↓reduceIte] at h
      cases hd : sp.ss.decryptAndHash S (msg.take (S.pubLen + (if sp.hasKey then 16 else 0))) with
      | none => rw [hd] at h; simp at h
      | some x =>
        obtain ⟨pk, ss'⟩ := x
        rw [hd] at h
        simp only [Option.some.injEq, Prod.mk.injEq] at h
        obtain ⟨rfl, _⟩ := h
        exact ⟨rfl, fun n x => by cases x⟩
  | psk k =>
    simp only at h
    cases hp : Spec.HandshakeState.pskTok S sp k with
    | none => rw [hp] at h; simp at h
    | some x =>
      rw [hp] at h
      simp only [Option.map_some, Option.some.injEq, Prod.mk.injEq] at h
      obtain ⟨rfl, _⟩ := h
      obtain ⟨a, _, c⟩ := spec_pskTok_psks S sp x k hp
      refine ⟨a, fun n hn => ?_⟩
      cases hn
      exact c
  | ee =>
    simp only at h
    cases hp : Spec.HandshakeState.dhTok S sp .ee with
    | none => rw [hp] at h; simp at h
    | some x =>
      rw [hp] at h
      simp only [Option.map_some, Option.some.injEq, Prod.mk.injEq] at h
      obtain ⟨rfl, _⟩ := h
      exact ⟨(spec_dhTok_psks S sp x _ hp).1, fun n x => by cases x⟩
  | es =>
    simp only at h
    cases hp : Spec.HandshakeState.dhTok S sp .es with
    | none => rw [hp] at h; simp at h
    | some x =>
      rw [hp] at h
      simp only [Option.map_some, Option.some.injEq, Prod.mk.injEq] at h
      obtain ⟨rfl, _⟩ := h
      exact ⟨(spec_dhTok_psks S sp x _ hp).1, fun n x => by cases x⟩
  | se =>
    simp only at h
    cases hp : Spec.HandshakeState.dhTok S sp .se with
    | none => rw [hp] at h; simp at h
    | some x =>
      rw [hp] at h
      simp only [Option.map_some, Option.some.injEq, Prod.mk.injEq] at h
      obtain ⟨rfl, _⟩ := h
      exact ⟨(spec_dhTok_psks S sp x _ hp).1, fun n x => by cases x⟩
  | ss =>
    simp only at h
    cases hp : Spec.HandshakeState.dhTok S sp .ss with
    | none => rw [hp] at h; simp at h
    | some x =>
      rw [hp] at h
      simp only [Option.map_some, Option.some.injEq, Prod.mk.injEq] at h
      obtain ⟨rfl, _⟩ := h
      exact ⟨(spec_dhTok_psks S sp x _ hp).1, fun n x => by cases x⟩

/-- The specification's read loop is defined only if every `psk n` token of the pattern has its key set. -/
theorem spec_readToks_psks (S : Suite) (ts : List Tok) (sp sp1 : Spec.HandshakeState) (msg rest : Bytes)
    (h : Spec.HandshakeState.readToks S ts sp msg = some (sp1, rest)) :
    sp1.psks = sp.psks ∧ ∀ n, Tok.psk n ∈ ts → (sp.psks.getD n none).isSome = true := by
  induction ts generalizing sp msg with
  | nil =>
    simp only [Spec.HandshakeState.readToks, Option.some.injEq, Prod.mk.injEq] at h
    obtain ⟨rfl, _⟩ := h
    exact ⟨rfl, fun n x => by cases x⟩
  | cons t ts ih =>
    unfold Spec.HandshakeState.readToks at h
    cases ht : Spec.HandshakeState.readTok S sp msg t with
    | none => rw [ht] at h; simp at h
    | some x =>
      obtain ⟨hs1, r1⟩ := x
      rw [ht] at h
      simp only at h
      obtain ⟨a, b⟩ := spec_readTok_psks S sp hs1 msg r1 t ht
      obtain ⟨c, d⟩ := ih hs1 r1 h
      refine ⟨c.trans a, fun n hn => ?_⟩
      rcases List.mem_cons.mp hn with x | x
      · exact b n x.symm
      · rw [← a]; exact d n x

/-- One token of the specification's `WriteMessage`: `psks`, `s` unchanged; `psk n` found its key; `s` found the static key. -/
theorem spec_writeTok_psks (S : Suite) (eph : Spec.KeyPair) (sp sp1 : Spec.HandshakeState) (b : Bytes) (t : Tok)
    (h : Spec.HandshakeState.writeTok S eph sp t = some (b, sp1)) :
    sp1.psks = sp.psks ∧ sp1.s = sp.s ∧ (∀ n, t = .psk n → (sp.psks.getD n none).isSome = true) ∧
    (t = .s → sp.s.isSome = true) := by
  unfold Spec.HandshakeState.writeTok at h
  cases t with
  | e =>
    simp only [Option.some.injEq, Prod.mk.injEq] at h
    obtain ⟨_, rfl⟩ := h
    exact ⟨rfl, rfl, fun n x => (by cases x), fun x => (by cases x)⟩
  | s =>
    simp only at h
    cases hs : sp.s with
    | none => rw [hs] at h; simp at h
    | some kp =>
      rw [hs] at h
      simp only [Option.some.injEq, Prod.mk.injEq] at h
      obtain ⟨_, rfl⟩ := h
      exact ⟨rfl, rfl, fun n x => (by cases x), fun _ => rfl⟩
  | psk k =>
    simp only at h
    cases hp : Spec.HandshakeState.pskTok S sp k with
    | none => rw [hp] at h; simp at h
    | some x =>
      rw [hp] at h
      simp only [Option.map_some, Option.some.injEq, Prod.mk.injEq] at h
      obtain ⟨_, rfl⟩ := h
      obtain ⟨a, a', c⟩ := spec_pskTok_psks S sp x k hp
      refine ⟨a, a', fun n hn => ?_, fun x => (by cases x)⟩
      cases hn
      exact c
  | ee =>
    simp only at h
    cases hp : Spec.HandshakeState.dhTok S sp .ee with
    | none => rw [hp] at h; simp at h
    | some x =>
      rw [hp] at h
      simp only [Option.map_some, Option.some.injEq, Prod.mk.injEq] at h
      obtain ⟨_, rfl⟩ := h
      exact ⟨(spec_dhTok_psks S sp x _ hp).1, (spec_dhTok_psks S sp x _ hp).2, fun n x => (by cases x), fun x => (by cases x)⟩
  | es =>
    simp only at h
    cases hp : Spec.HandshakeState.dhTok S sp .es with
    | none => rw [hp] at h; simp at h
    | some x =>
      rw [hp] at h
      simp only [Option.map_some, Option.some.injEq, Prod.mk.injEq] at h
      obtain ⟨_, rfl⟩ := h
      exact ⟨(spec_dhTok_psks S sp x _ hp).1, (spec_dhTok_psks S sp x _ hp).2, fun n x => (by cases x), fun x => (by cases x)⟩
  | se =>
    simp only at h
    cases hp : Spec.HandshakeState.dhTok S sp .se with
    | none => rw [hp] at h; simp at h
    | some x =>
      rw [hp] at h
      simp only [Option.map_some, Option.some.injEq, Prod.mk.injEq] at h
      obtain ⟨_, rfl⟩ := h
      exact ⟨(spec_dhTok_psks S sp x _ hp).1, (spec_dhTok_psks S sp x _ hp).2, fun n x => (by cases x), fun x => (by cases x)⟩
  | ss =>
    simp only at h
    cases hp : Spec.HandshakeState.dhTok S sp .ss with
    | none => rw [hp] at h; simp at h
    | some x =>
      rw [hp] at h
      simp only [Option.map_some, Option.some.injEq, Prod.mk.injEq] at h
      obtain ⟨_, rfl⟩ := h
      exact ⟨(spec_dhTok_psks S sp x _ hp).1, (spec_dhTok_psks S sp x _ hp).2, fun n x => (by cases x), fun x => (by cases x)⟩

/-- The specification's write loop is defined only if every `psk n` token has its key set and, with an `s` token, the static key is present. -/
theorem spec_writeToks_psks (S : Suite) (eph : Spec.KeyPair) (ts : List Tok) (sp sp1 : Spec.HandshakeState)
    (bs : Bytes) (h : Spec.HandshakeState.writeToks S eph ts sp = some (bs, sp1)) :
    sp1.psks = sp.psks ∧ sp1.s = sp.s ∧ (∀ n, Tok.psk n ∈ ts → (sp.psks.getD n none).isSome = true) ∧
    (Tok.s ∈ ts → sp.s.isSome = true) := by
  induction ts generalizing sp bs with
  | nil =>
    simp only [Spec.HandshakeState.writeToks, Option.some.injEq, Prod.mk.injEq] at h
    obtain ⟨_, rfl⟩ := h
    exact ⟨rfl, rfl, fun n x => (by cases x), fun x => (by cases x)⟩
  | cons t ts ih =>
    unfold Spec.HandshakeState.writeToks at h
    cases ht : Spec.HandshakeState.writeTok S eph sp t with
    | none => rw [ht] at h; simp at h
    | some x =>
      obtain ⟨b, hs1⟩ := x
      rw [ht] at h
      simp only at h
      cases hr : Spec.HandshakeState.writeToks S eph ts hs1 with
      | none => rw [hr] at h; simp at h
      | some y =>
        obtain ⟨bs', hs2⟩ := y
        rw [hr] at h
        simp only [Option.some.injEq, Prod.mk.injEq] at h
        obtain ⟨_, rfl⟩ := h
        obtain ⟨a1, a2, a3, a4⟩ := spec_writeTok_psks S eph sp hs1 b t ht
        obtain ⟨c1, c2, c3, c4⟩ := ih hs1 bs' hr
        refine ⟨c1.trans a1, c2.trans a2, fun n hn => ?_, fun hn => ?_⟩
        · rcases List.mem_cons.mp hn with x | x
          · exact a3 n x.symm
          · rw [← a1]; exact c3 n x
        · rcases List.mem_cons.mp hn with x | x
          · exact a4 x.symm
          · rw [← a2]; exact c4 x

end SnowVerif.C01
