/-
  Honest-run lemmas with the EXACT size conditions (audit finding F3), part 4: the converse.
  If the honest exchange of a plan succeeds (each write `ok`, each read returns the payload), the
  plan satisfies `PlanOkExact`: the exact conditions are not only sufficient, but necessary.
  (Consequence of the length theorems of C14: `writeInner_ok_len`, `readInner_ok`.)
-/
import SnowVerif.Lemmas.HonestExactExch
import SnowVerif.Lemmas.C14Read

open SnowVerif SnowVerif.Model SnowVerif.Model.HS SnowVerif.Framing
set_option linter.unusedVariables false
set_option linter.unusedSimpArgs false

namespace SnowVerif.Model.HS
open Bytes

/-- Everything a successful `write_message` tells about sizes, and how it moves the control
    fields, `has_key` and the key-length side conditions. -/
theorem writeMessage_ok_sizes (S : Suite) (hE : S.EncLen) (hP : S.PubLen) (hs : HS) (p : Bytes) (cap : Nat) (n : Nat)
    (hw : KeysWf S hs) (h : (hs.writeMessage S p cap).1 = .ok n) :
    hs.pos < hs.msgs.length ∧
    msgLen S hs.isPsk (hs.msgs.getD hs.pos []) hs.sym.hasKey p.length ≤ 65535 ∧
    (fieldsLen S hs.isPsk (hs.msgs.getD hs.pos []) hs.sym.hasKey).1 + p.length + 16 ≤ cap ∧
    (hs.writeMessage S p cap).2.1.sym.hasKey = keyedAfter hs.isPsk (hs.msgs.getD hs.pos []) hs.sym.hasKey ∧
    (hs.writeMessage S p cap).2.1.isPsk = hs.isPsk ∧
    (hs.writeMessage S p cap).2.1.msgs = hs.msgs ∧
    (hs.writeMessage S p cap).2.1.pos = hs.pos + 1 ∧
    KeysWf S (hs.writeMessage S p cap).2.1 := by
  have hk := writeMessage_ok_keyed S hs p cap n h
  have hfr := writeInner_frame S hs p cap
  have hwf := writeInner_wf S hs p cap hw
  simp only at hfr
  unfold writeMessage at h ⊢
  cases hr : (writeInner S hs p cap).1 with
  | ok m =>
    obtain ⟨_, b, c, d, _⟩ := writeInner_ok_len S hE hP hs p cap m hw hr
    obtain ⟨_, hpos⟩ := writeInner_turn S hs p cap m hr
    unfold writeMessage at hk
    simp only [hr] at hk ⊢
    exact ⟨hpos, by rw [← b]; exact c, d, hk.1, hk.2, hfr.2.2.2.2.2.1, by rw [hfr.2.2.2.2.2.2.1], hwf⟩
  | err e => simp [hr] at h
  | panic q => simp [hr] at h

/-- The same for a successful `read_message`. -/
theorem readMessage_ok_sizes (S : Suite) (hs : HS) (m : Bytes) (cap : Nat) (pl : Bytes)
    (hw : KeysWf S hs) (h : (hs.readMessage S m cap).1 = .ok pl) :
    pl.length ≤ cap ∧
    (hs.readMessage S m cap).2.1.sym.hasKey = keyedAfter hs.isPsk (hs.msgs.getD hs.pos []) hs.sym.hasKey ∧
    (hs.readMessage S m cap).2.1.isPsk = hs.isPsk ∧
    (hs.readMessage S m cap).2.1.msgs = hs.msgs ∧
    (hs.readMessage S m cap).2.1.pos = hs.pos + 1 ∧
    KeysWf S (hs.readMessage S m cap).2.1 := by
  have hfr := readInner_frame S hs m cap
  simp only at hfr
  unfold readMessage at h ⊢
  cases hr : (readInner S hs m cap).1 with
  | ok q =>
    simp only [hr, Res.ok.injEq] at h ⊢
    subst h
    obtain ⟨_, _, c, _, e⟩ := readInner_ok S hs m cap q hr
    refine ⟨c, by rw [e, fieldsLen_snd], hfr.2.1, hfr.2.2.2.2.2.1, by rw [hfr.2.2.2.2.2.2.1], ?_⟩
    exact ⟨by show (readInner S hs m cap).2.1.s.val.pub.length = _; rw [hfr.2.2.2.2.2.2.2.2.1]; exact hw.1,
           fun hf => by
             have hf' : (readInner S hs m cap).2.1.fixedE = true := hf
             rw [hfr.2.2.2.2.2.2.2.1] at hf'
             show (readInner S hs m cap).2.1.e.val.pub.length = _
             rw [hfr.2.2.2.2.2.2.2.2.2.1]; exact hw.2 hf'⟩
  | err e => simp [hr] at h
  | panic q => simp [hr] at h

theorem drop_eq_getD_cons {α : Type} (l : List α) (i : Nat) (d : α) (h : i < l.length) :
    l.drop i = l.getD i d :: l.drop (i + 1) := by
  rw [List.drop_eq_getElem_cons h]
  simp [List.getD, h]

/-- **The exact conditions are necessary.**  Two parties at the same position of the same message
    list, in the same psk mode and keyedness (true of honest parties in lockstep), whose local
    public keys have the right length (true of every built state): if the exchange of a plan
    covering all remaining messages succeeds (every write returns `ok`, every read returns the
    payload), then the plan satisfies `PlanOkExact`.  No law of the suite beyond the two length
    laws is used, and nothing about the keys agreeing. -/
theorem exchange_some_planOkExact (S : Suite) (hE : S.EncLen) (hP : S.PubLen) (plan : List (Bytes × Nat × Nat)) :
    ∀ (ini : Bool) (A B A' B' : HS),
      A.msgs = B.msgs → A.pos = B.pos → A.isPsk = B.isPsk → A.sym.hasKey = B.sym.hasKey →
      KeysWf S A → KeysWf S B →
      exchange S ini A B plan = some (A', B') →
      plan.length = (A.msgs.drop A.pos).length →
      PlanOkExact S A.isPsk A.sym.hasKey (A.msgs.drop A.pos) plan := by
  induction plan with
  | nil =>
    intro ini A B A' B' _ _ _ _ _ _ _ hlen
    have : A.msgs.drop A.pos = [] := List.eq_nil_of_length_eq_zero hlen.symm
    rw [this]
    simp [PlanOkExact]
  | cons x xs ih =>
    intro ini A B A' B' hmsgs hpos hpsk hkey wfA wfB hex hlen
    obtain ⟨p, cap, capr⟩ := x
    cases ini with
    | true =>
      simp only [exchange] at hex
      split at hex
      · rename_i hc
        obtain ⟨hwr, hrd⟩ := hc
        obtain ⟨w1, w2, w3, w4, w5, w6, w7, w8⟩ := writeMessage_ok_sizes S hE hP A p cap _ wfA hwr
        obtain ⟨r1, r2, r3, r4, r5, r6⟩ := readMessage_ok_sizes S B _ capr p wfB hrd
        have hd := drop_eq_getD_cons A.msgs A.pos [] w1
        rw [hd] at hlen ⊢
        simp only [List.length_cons, Nat.add_right_cancel_iff] at hlen
        have hrec := ih false _ _ A' B' (by rw [w6, r4, hmsgs]) (by rw [w7, r5, hpos])
          (by rw [w5, r3, hpsk]) (by rw [w4, r2, hmsgs, hpos, hpsk, hkey]) w8 r6 hex
          (by rw [w6, w7]; exact hlen)
        rw [w6, w7, w5, w4] at hrec
        exact ⟨w2, w3, r1, hrec⟩
      · simp at hex
    | false =>
      simp only [exchange] at hex
      split at hex
      · rename_i hc
        obtain ⟨hwr, hrd⟩ := hc
        obtain ⟨w1, w2, w3, w4, w5, w6, w7, w8⟩ := writeMessage_ok_sizes S hE hP B p cap _ wfB hwr
        obtain ⟨r1, r2, r3, r4, r5, r6⟩ := readMessage_ok_sizes S A _ capr p wfA hrd
        rw [← hmsgs, ← hpos] at w1
        rw [← hmsgs, ← hpos, ← hpsk, ← hkey] at w2 w3
        have hd := drop_eq_getD_cons A.msgs A.pos [] w1
        rw [hd] at hlen ⊢
        simp only [List.length_cons, Nat.add_right_cancel_iff] at hlen
        have hrec := ih true _ _ A' B' (by rw [w6, r4, hmsgs]) (by rw [w7, r5, hpos])
          (by rw [w5, r3, hpsk]) (by rw [w4, r2, hmsgs, hpos, hpsk, hkey]) r6 w8 hex
          (by rw [r4, r5]; exact hlen)
        rw [r4, r5, r3, r2] at hrec
        exact ⟨w2, w3, r1, hrec⟩
      · simp at hex

/-- `PlanOkExact` fixes the number of entries of the plan. -/
theorem planOkExact_length (S : Suite) (isPsk : Bool) (msgs : List (List Tok)) :
    ∀ (k : Bool) (plan : List (Bytes × Nat × Nat)), PlanOkExact S isPsk k msgs plan → plan.length = msgs.length := by
  induction msgs with
  | nil =>
    intro k plan h
    cases plan with
    | nil => rfl
    | cons x xs => simp [PlanOkExact] at h
  | cons m ms ih =>
    intro k plan h
    cases plan with
    | nil => simp [PlanOkExact] at h
    | cons x xs =>
      obtain ⟨p, cap, capr⟩ := x
      simp only [PlanOkExact] at h
      simp only [List.length_cons, ih _ xs h.2.2.2]

end SnowVerif.Model.HS
