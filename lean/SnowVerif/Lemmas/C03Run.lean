/-
  C03 / C08, model level: a run of the two parties' `write_message` / `read_message` calls in which
  a message may be replaced in transit (`altRun`), the invariant of the states that occur in such
  a run (`Good`: what the C01 refinement needs, plus the length of the ephemeral public key), and
  the transfer of a successful run to the specification's `Spec.Integrity.run` on the abstract
  states (`altRun_spec`).
-/
import SnowVerif.Theorems.C01
import SnowVerif.Theorems.C10
import SnowVerif.Spec.Integrity

namespace SnowVerif.C03Run
open SnowVerif SnowVerif.Model SnowVerif.Model.HS SnowVerif.Bytes SnowVerif.Framing SnowVerif.C01
open SnowVerif.Theorems
set_option linter.unusedVariables false
set_option linter.unusedSimpArgs false

/-- One message of a model-level run: the writer's payload, the size `cap` of the writer's output
    buffer, the size `capr` of the reader's payload buffer, and what happens in transit
    (`none`: delivered unmodified; `some m'`: `m'` is delivered instead). -/
structure MStep where
  payload : Bytes
  cap : Nat
  capr : Nat
  deliver : Option Bytes

/-- A run of alternating `write_message` / `read_message` calls of two sessions (`true`: `A` writes
    the next message). The genuine message is the writer's output bytes; the reader is given the
    delivered bytes. `none` as soon as any call does not return `ok` (ANY payload returned by the
    reader counts as success). Returns the final states and what was sent. -/
def altRun (S : Suite) : Bool → HS → HS → List MStep → Option (HS × HS × List Spec.Integrity.Sent)
  | _, A, B, [] => some (A, B, [])
  | true, A, B, st :: rest =>
    if (A.writeMessage S st.payload st.cap).1.isOk = true ∧
       (B.readMessage S (st.deliver.getD (A.writeMessage S st.payload st.cap).2.2.1) st.capr).1.isOk = true then
      (altRun S false (A.writeMessage S st.payload st.cap).2.1
        (B.readMessage S (st.deliver.getD (A.writeMessage S st.payload st.cap).2.2.1) st.capr).2.1 rest).map
        fun r => (r.1, r.2.1,
          ⟨(A.writeMessage S st.payload st.cap).2.2.1,
           st.deliver.getD (A.writeMessage S st.payload st.cap).2.2.1⟩ :: r.2.2)
    else none
  | false, A, B, st :: rest =>
    if (B.writeMessage S st.payload st.cap).1.isOk = true ∧
       (A.readMessage S (st.deliver.getD (B.writeMessage S st.payload st.cap).2.2.1) st.capr).1.isOk = true then
      (altRun S true (A.readMessage S (st.deliver.getD (B.writeMessage S st.payload st.cap).2.2.1) st.capr).2.1
        (B.writeMessage S st.payload st.cap).2.1 rest).map
        fun r => (r.1, r.2.1,
          ⟨(B.writeMessage S st.payload st.cap).2.2.1,
           st.deliver.getD (B.writeMessage S st.payload st.cap).2.2.1⟩ :: r.2.2)
    else none

/-! ### The invariant of the states of a run -/

/-- What holds of every state `Builder::build` returns and is preserved by every handshake call:
    `has_key` is the keyedness of the messages processed so far, the token lists satisfy the psk
    agreement condition and have at most one `e` per message (so `SideOk` holds at every message
    boundary), the chaining key has `hash_len` bytes, and the ephemeral key pair's public key has
    `pub_len` bytes. -/
structure Good (S : Suite) (hs : HS) : Prop where
  keyed : C14.KeyedInv hs
  pskok : PskOkMsgs hs.isPsk hs.msgs false = true
  oneE : C01.oneE hs.msgs = true
  ck : CkLen S hs.sym
  ePub : hs.e.val.pub.length = S.pubLen
  turn : C11.TurnInv hs

theorem Good.sideOk {S : Suite} {hs : HS} (g : Good S hs) : SideOk hs := by
  refine ⟨?_, oneE_getD _ _ g.oneE⟩
  by_cases hp : hs.pos < hs.msgs.length
  · have := (pskOkMsgs_keyed _ _ false hs.pos g.pskok).2 hp
    have r1 := g.keyed
    unfold C14.KeyedInv keyedBefore at r1
    rw [r1]
    exact this
  · have : hs.msgs.getD hs.pos [] = [] := by
      rw [List.getD_eq_getElem?_getD, List.getElem?_eq_none (by omega)]
      rfl
    rw [this]
    rfl

theorem Good.refines {S : Suite} {hs : HS} (g : Good S hs) : Refines S hs (absHS hs) := ⟨rfl, g.ck⟩

theorem writeMessage_ePub (S : Suite) (hpl : S.PubLen) (hs : HS) (p : Bytes) (cap : Nat)
    (h : hs.e.val.pub.length = S.pubLen) : (hs.writeMessage S p cap).2.1.e.val.pub.length = S.pubLen := by
  have he := Lemmas.C10.writeInner_ePub S hs p cap hpl h
  unfold writeMessage
  simp only
  split
  · exact he
  · split <;> exact he
  · exact he

theorem readMessage_e (S : Suite) (hs : HS) (m : Bytes) (cap : Nat) :
    (hs.readMessage S m cap).2.1.e = hs.e := by
  have hf := readInner_frame S hs m cap
  simp only at hf
  obtain ⟨_, _, _, _, _, _, _, _, _, he, _⟩ := hf
  unfold readMessage
  simp only
  split <;> exact he

/-- Every handshake call that does not panic preserves the invariant. -/
theorem Good.step {S : Suite} (hL : S.HashLen) (hpl : S.PubLen) {hs : HS} (g : Good S hs) (op : C11.Op)
    (np : C11.NoPanic S hs op) : Good S (C11.step S hs op) := by
  obtain ⟨_, b, c⟩ := C14.static_step S hs op np
  refine ⟨C14.keyedInv_step S hs op g.keyed np, by rw [b, c]; exact g.pskok, by rw [c]; exact g.oneE,
    ck_step S hL hs op g.ck, ?_, C11.turnInv_step S hs op g.turn np⟩
  cases op with
  | write p cap => exact writeMessage_ePub S hpl hs p cap g.ePub
  | read m cap => simp only [C11.step, readMessage_e]; exact g.ePub
  | setPsk loc key =>
    simp only [C11.step, HS.setPsk]
    split <;> exact g.ePub

theorem isOk_not_panic {α} {r : Res α} (h : r.isOk = true) : r.isPanic = false := by
  cases r <;> simp_all [Res.isOk, Res.isPanic]

theorem isOk_exists {α} {r : Res α} (h : r.isOk = true) : ∃ a, r = .ok a := by
  cases r <;> simp_all [Res.isOk]

theorem Good.write {S : Suite} (hL : S.HashLen) (hpl : S.PubLen) {hs : HS} (g : Good S hs) (p : Bytes) (cap : Nat)
    (h : (hs.writeMessage S p cap).1.isOk = true) : Good S (hs.writeMessage S p cap).2.1 :=
  g.step hL hpl (.write p cap) (isOk_not_panic h)

theorem Good.read {S : Suite} (hL : S.HashLen) (hpl : S.PubLen) {hs : HS} (g : Good S hs) (m : Bytes) (cap : Nat)
    (h : (hs.readMessage S m cap).1.isOk = true) : Good S (hs.readMessage S m cap).2.1 :=
  g.step hL hpl (.read m cap) (isOk_not_panic h)

/-- Every state `Builder::build` returns satisfies the invariant. -/
theorem good_built (S : Suite) (hL : S.HashLen) (hpl : S.PubLen) (av : Avail) (c : BuildCfg) (hs : HS)
    (hb : build S av c = .ok hs) : Good S hs := by
  have hi := C12.build_initial_state S av c hs hb
  have htok := hi.2.2.2.1
  have hpsk0 : hs.isPsk = isPskMods c.mods := by
    rw [Lemmas.C12.build_ok_state S av c hs hb]; rfl
  refine ⟨C14.keyedInv_initial hs hi.1 hi.2.2.2.2.2.2.2.2.2.2.2.2.2.2.2.2.2.2.1, ?_, oneE_tables _ _ _ htok,
    built_ck S hL av c hs hb, ?_, C11.turnInv_initial hs hi.1 (by rw [hi.2.1, hi.2.2.1])⟩
  · rw [hpsk0]; exact pskOk_tables _ _ _ htok
  · rw [Lemmas.C12.build_ok_state S av c hs hb]
    show (Lemmas.C12.builtE S c).val.pub.length = S.pubLen
    unfold Lemmas.C12.builtE
    split
    · exact hpl _
    · simp [Lemmas.C12.zkp, Bytes.zeros]

/-- The invariant along every panic-free history of calls from a built state. -/
theorem good_reachable (S : Suite) (hL : S.HashLen) (hpl : S.PubLen) (hs : HS) (g : Good S hs) (ops : List C11.Op)
    (np : ∀ (pre : List C11.Op) (op : C11.Op) (post : List C11.Op), ops = pre ++ op :: post →
      C11.NoPanic S (C11.run S hs pre) op) : Good S (C11.run S hs ops) := by
  induction ops generalizing hs with
  | nil => exact g
  | cons op ops ih =>
    simp only [C11.run]
    apply ih _ (g.step hL hpl op (np [] op ops rfl))
    intro pre o post hpost
    have := np (op :: pre) o post (by simp [hpost])
    simpa [C11.run] using this

/-! ### One step of the run, in the specification -/

/-- A successful `write_message` of a `Good` state is the specification's `WriteMessage` on the
    abstract state with the ephemeral snow used. -/
theorem write_spec (S : Suite) (hL : S.HashLen) (hS : S.Sizes) {hs : HS} (g : Good S hs) (p : Bytes) (cap : Nat)
    (h : (hs.writeMessage S p cap).1.isOk = true) :
    ∃ cs, Spec.HandshakeState.writeMessage S (absHS hs) p
        ⟨(hs.writeMessage S p cap).2.1.e.val.priv, (hs.writeMessage S p cap).2.1.e.val.pub⟩ =
      some ((hs.writeMessage S p cap).2.2.1, absHS (hs.writeMessage S p cap).2.1, cs) := by
  obtain ⟨n, hn⟩ := isOk_exists h
  have heq : hs.writeMessage S p cap = (.ok n, (hs.writeMessage S p cap).2.1, (hs.writeMessage S p cap).2.2.1,
      (hs.writeMessage S p cap).2.2.2) := by rw [← hn]
  obtain ⟨sp', a, ⟨rfl, _⟩, _⟩ := C01.write_refines_spec S hL hS hs _ g.refines g.sideOk p cap n _ _ _ heq
  exact ⟨_, a⟩

/-- A successful `read_message` of a `Good` state is the specification's `ReadMessage` on the
    abstract state. -/
theorem read_spec (S : Suite) (hL : S.HashLen) (hS : S.Sizes) (hD : S.DecLen) {hs : HS} (g : Good S hs) (m : Bytes)
    (cap : Nat) (h : (hs.readMessage S m cap).1.isOk = true) :
    ∃ pl cs, Spec.HandshakeState.readMessage S (absHS hs) m =
      some (pl, absHS (hs.readMessage S m cap).2.1, cs) := by
  obtain ⟨pl, hn⟩ := isOk_exists h
  have heq : hs.readMessage S m cap = (.ok pl, (hs.readMessage S m cap).2.1, (hs.readMessage S m cap).2.2.1,
      (hs.readMessage S m cap).2.2.2) := by rw [← hn]
  obtain ⟨sp', a, ⟨rfl, _⟩, _⟩ := C01.read_refines_spec S hL hS hD hs _ g.refines g.sideOk m cap pl _ _ _ heq
  exact ⟨_, _, a⟩

/-! ### The transfer -/

/-- **Transfer.** A successful model-level run of two `Good` sessions (in particular: of two
    sessions `Builder::build` returned, or any states reached from them) is a successful run of
    the specification on the abstract states: with the same payloads and the same deliveries, the
    ephemeral key pairs snow drew (each with a public key of `pub_len` bytes), the same transcript
    of genuine/delivered messages, ending in the abstractions of the final states. -/
theorem altRun_spec (S : Suite) (hL : S.HashLen) (hS : S.Sizes) (hD : S.DecLen) (hpl : S.PubLen) :
    ∀ (steps : List MStep) (ini : Bool) (A B : HS) (gA : Good S A) (gB : Good S B) (A' B' : HS)
      (tr : List Spec.Integrity.Sent), altRun S ini A B steps = some (A', B', tr) →
    ∃ steps' : List Spec.Integrity.Step,
      steps'.length = steps.length ∧
      steps'.map (·.payload) = steps.map (·.payload) ∧
      steps'.map (·.deliver) = steps.map (·.deliver) ∧
      (∀ st ∈ steps', st.eph.pub.length = S.pubLen) ∧
      Spec.Integrity.run S ini (absHS A) (absHS B) steps' = some (absHS A', absHS B', tr) ∧
      Good S A' ∧ Good S B'
  | [], ini, A, B, gA, gB, A', B', tr, h => by
    cases ini <;>
    · simp only [altRun, Option.some.injEq, Prod.mk.injEq] at h
      obtain ⟨rfl, rfl, rfl⟩ := h
      exact ⟨[], rfl, rfl, rfl, by simp, by simp [Spec.Integrity.run], gA, gB⟩
  | st :: rest, true, A, B, gA, gB, A', B', tr, h => by
    simp only [altRun] at h
    split at h
    · rename_i hc
      obtain ⟨hw, hr⟩ := hc
      have gA1 := gA.write hL hpl st.payload st.cap hw
      have gB1 := gB.read hL hpl _ st.capr hr
      obtain ⟨csw, hws⟩ := write_spec S hL hS gA st.payload st.cap hw
      obtain ⟨pl, csr, hrs⟩ := read_spec S hL hS hD gB _ st.capr hr
      cases hrest : altRun S false (A.writeMessage S st.payload st.cap).2.1
          (B.readMessage S (st.deliver.getD (A.writeMessage S st.payload st.cap).2.2.1) st.capr).2.1 rest with
      | none => rw [hrest] at h; cases h
      | some r =>
        obtain ⟨A2, B2, tr2⟩ := r
        rw [hrest] at h
        simp only [Option.map_some, Option.some.injEq, Prod.mk.injEq] at h
        obtain ⟨rfl, rfl, rfl⟩ := h
        obtain ⟨steps', h1, h2, h3, h4, h5, h6, h7⟩ :=
          altRun_spec S hL hS hD hpl rest false _ _ gA1 gB1 _ _ _ hrest
        refine ⟨⟨st.payload, ⟨(A.writeMessage S st.payload st.cap).2.1.e.val.priv,
          (A.writeMessage S st.payload st.cap).2.1.e.val.pub⟩, st.deliver⟩ :: steps', ?_, ?_, ?_, ?_, ?_, h6, h7⟩
        · simp [h1]
        · simp [h2]
        · simp [h3]
        · intro x hx
          rcases List.mem_cons.mp hx with rfl | hx
          · exact gA1.ePub
          · exact h4 x hx
        · simp only [Spec.Integrity.run, hws, hrs, h5, Option.map_some]
    · cases h
  | st :: rest, false, A, B, gA, gB, A', B', tr, h => by
    simp only [altRun] at h
    split at h
    · rename_i hc
      obtain ⟨hw, hr⟩ := hc
      have gB1 := gB.write hL hpl st.payload st.cap hw
      have gA1 := gA.read hL hpl _ st.capr hr
      obtain ⟨csw, hws⟩ := write_spec S hL hS gB st.payload st.cap hw
      obtain ⟨pl, csr, hrs⟩ := read_spec S hL hS hD gA _ st.capr hr
      cases hrest : altRun S true
          (A.readMessage S (st.deliver.getD (B.writeMessage S st.payload st.cap).2.2.1) st.capr).2.1
          (B.writeMessage S st.payload st.cap).2.1 rest with
      | none => rw [hrest] at h; cases h
      | some r =>
        obtain ⟨A2, B2, tr2⟩ := r
        rw [hrest] at h
        simp only [Option.map_some, Option.some.injEq, Prod.mk.injEq] at h
        obtain ⟨rfl, rfl, rfl⟩ := h
        obtain ⟨steps', h1, h2, h3, h4, h5, h6, h7⟩ :=
          altRun_spec S hL hS hD hpl rest true _ _ gA1 gB1 _ _ _ hrest
        refine ⟨⟨st.payload, ⟨(B.writeMessage S st.payload st.cap).2.1.e.val.priv,
          (B.writeMessage S st.payload st.cap).2.1.e.val.pub⟩, st.deliver⟩ :: steps', ?_, ?_, ?_, ?_, ?_, h6, h7⟩
        · simp [h1]
        · simp [h2]
        · simp [h3]
        · intro x hx
          rcases List.mem_cons.mp hx with rfl | hx
          · exact gB1.ePub
          · exact h4 x hx
        · simp only [Spec.Integrity.run, hws, hrs, h5, Option.map_some]
    · cases h

/-! ### The transcript of a run -/

/-- Pointwise relation of two lists of the same length. -/
inductive Forall₂ {α β} (R : α → β → Prop) : List α → List β → Prop
  | nil : Forall₂ R [] []
  | cons {a b l l'} : R a b → Forall₂ R l l' → Forall₂ R (a :: l) (b :: l')

/-- The transcript a run returns has one entry per step, and each entry's delivered bytes are the
    step's `deliver` (the genuine bytes if `none`). -/
theorem altRun_trace (S : Suite) :
    ∀ (steps : List MStep) (ini : Bool) (A B A' B' : HS) (tr : List Spec.Integrity.Sent),
      altRun S ini A B steps = some (A', B', tr) →
      Forall₂ (fun st x => x.delivered = st.deliver.getD x.genuine) steps tr
  | [], ini, A, B, A', B', tr, h => by
    cases ini <;>
    · simp only [altRun, Option.some.injEq, Prod.mk.injEq] at h
      obtain ⟨_, _, rfl⟩ := h
      exact .nil
  | st :: rest, true, A, B, A', B', tr, h => by
    simp only [altRun] at h
    split at h
    · cases hrest : altRun S false (A.writeMessage S st.payload st.cap).2.1
          (B.readMessage S (st.deliver.getD (A.writeMessage S st.payload st.cap).2.2.1) st.capr).2.1 rest with
      | none => rw [hrest] at h; cases h
      | some r =>
        obtain ⟨A2, B2, tr2⟩ := r
        rw [hrest] at h
        simp only [Option.map_some, Option.some.injEq, Prod.mk.injEq] at h
        obtain ⟨_, _, rfl⟩ := h
        exact .cons rfl (altRun_trace S rest false _ _ _ _ _ hrest)
    · cases h
  | st :: rest, false, A, B, A', B', tr, h => by
    simp only [altRun] at h
    split at h
    · cases hrest : altRun S true
          (A.readMessage S (st.deliver.getD (B.writeMessage S st.payload st.cap).2.2.1) st.capr).2.1
          (B.writeMessage S st.payload st.cap).2.1 rest with
      | none => rw [hrest] at h; cases h
      | some r =>
        obtain ⟨A2, B2, tr2⟩ := r
        rw [hrest] at h
        simp only [Option.map_some, Option.some.injEq, Prod.mk.injEq] at h
        obtain ⟨_, _, rfl⟩ := h
        exact .cons rfl (altRun_trace S rest true _ _ _ _ _ hrest)
    · cases h

theorem forall₂_getLast {α β} (R : α → β → Prop) : ∀ (l : List α) (l' : List β), Forall₂ R l l' →
    ∀ y, l'.getLast? = some y → ∃ x, l.getLast? = some x ∧ R x y
  | _, _, .nil, y, h => by simp at h
  | [a], [b], .cons hab .nil, y, h => by
    simp only [List.getLast?_singleton, Option.some.injEq] at h
    subst h
    exact ⟨a, by simp, hab⟩
  | a :: a2 :: l, b :: b2 :: l', .cons hab (.cons h2 h3), y, h => by
    rw [List.getLast?_cons_cons] at h ⊢
    exact forall₂_getLast R (a2 :: l) (b2 :: l') (.cons h2 h3) y h

/-- If the plan delivers the last message unmodified, the last transcript entry is not altered. -/
theorem last_unaltered (S : Suite) (steps : List MStep) (ini : Bool) (A B A' B' : HS)
    (tr : List Spec.Integrity.Sent) (h : altRun S ini A B steps = some (A', B', tr))
    (hl : ∀ st, steps.getLast? = some st → st.deliver = none) :
    ∀ x, tr.getLast? = some x → ¬ x.altered := by
  intro x hx
  obtain ⟨st, hst, hr⟩ := forall₂_getLast _ _ _ (altRun_trace S steps ini A B A' B' tr h) x hx
  rw [hl st hst] at hr
  intro ha
  exact ha hr

/-- If the plan delivers every message unmodified, no transcript entry is altered. -/
theorem none_altered (S : Suite) (steps : List MStep) (ini : Bool) (A B A' B' : HS)
    (tr : List Spec.Integrity.Sent) (h : altRun S ini A B steps = some (A', B', tr))
    (hl : ∀ st ∈ steps, st.deliver = none) : ∀ x ∈ tr, ¬ x.altered := by
  have := altRun_trace S steps ini A B A' B' tr h
  clear h
  induction this with
  | nil => intro x hx; cases hx
  | cons hab _ ih =>
    intro x hx
    rcases List.mem_cons.mp hx with rfl | hx
    · rw [hl _ List.mem_cons_self] at hab
      intro ha; exact ha hab
    · exact ih (fun st hst => hl st (List.mem_cons_of_mem _ hst)) x hx

end SnowVerif.C03Run
