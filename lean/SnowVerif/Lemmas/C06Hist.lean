/-
  C06 over histories, Stage 1: the ghost log of a whole history of handshake API calls of one
  endpoint (`C11.Op`: `write_message`, `read_message`, `set_psk` with arbitrary arguments), and
  its nonce discipline.

  Per call the history log contains a `callStart` mark, the call's ghost log (`writeG` /
  `readG`: events and KDF installation markers) and, when the call returned an error, a
  `restore key n` mark carrying the key and nonce found in the handshake cipher afterwards (what
  the repaired code's `restore(checkpoint)` put there).
-/
import SnowVerif.Lemmas.C06HistRead
import SnowVerif.Theorems.C06

namespace SnowVerif.C06
open SnowVerif SnowVerif.Model SnowVerif.Model.HS
open SnowVerif.Theorems.C11 (Op step run NoPanic)
set_option linter.unusedVariables false
set_option linter.unusedSimpArgs false

/-- The events one API call returns. -/
def callEv (S : Suite) (hs : HS) : Op → List Event
  | .write p cap => (hs.writeMessage S p cap).2.2.2
  | .read m cap => (hs.readMessage S m cap).2.2.2
  | .setPsk _ _ => []

/-- The events of a history: the concatenation of the event lists the calls return, failed calls
    included, in order. -/
def histEv (S : Suite) : HS → List Op → List Event
  | _, [] => []
  | hs, op :: ops => callEv S hs op ++ histEv S (step S hs op) ops

/-- The restore mark of a call with outcome `r` that left the state `hs'`. -/
def restoreMark {α : Type} (r : Res α) (hs' : HS) : List HEv :=
  match r with
  | .err _ => [.restore hs'.sym.cs.key hs'.sym.cs.n]
  | _ => []

/-- History log of one API call. -/
def callG (S : Suite) (hs : HS) : Op → List HEv
  | .write p cap =>
    .callStart :: ((writeG S hs p cap).map .g ++ restoreMark (hs.writeMessage S p cap).1 (hs.writeMessage S p cap).2.1)
  | .read m cap =>
    .callStart :: ((readG S hs m cap).map .g ++ restoreMark (hs.readMessage S m cap).1 (hs.readMessage S m cap).2.1)
  | .setPsk _ _ => [.callStart]

/-- History log of a history of API calls from the state `hs`. -/
def histG (S : Suite) : HS → List Op → List HEv
  | _, [] => []
  | hs, op :: ops => callG S hs op ++ histG S (step S hs op) ops

theorem flat_restoreMark {α : Type} (r : Res α) (hs' : HS) :
    erase (flat (restoreMark r hs')) = [] := by
  cases r <;> simp [restoreMark, flat, erase]

theorem callG_erase (S : Suite) (hs : HS) (op : Op) : herase (callG S hs op) = callEv S hs op := by
  cases op with
  | write p cap =>
    simp only [callG, callEv, herase, flat, flat_append, flat_map_g, erase_append, flat_restoreMark, List.append_nil]
    rw [writeMessage_ev, (writeInner_G S hs p cap).1]
  | read m cap =>
    simp only [callG, callEv, herase, flat, flat_append, flat_map_g, erase_append, flat_restoreMark, List.append_nil]
    rw [readMessage_ev, (readInner_G S hs m cap).1]
  | setPsk loc key => rfl

/-- **Erasing the marks of the history log gives exactly the events the calls returned.** -/
theorem hist_erase (S : Suite) (hs : HS) (ops : List Op) : herase (histG S hs ops) = histEv S hs ops := by
  induction ops generalizing hs with
  | nil => rfl
  | cons op ops ih => simp only [histG, histEv, herase_append, callG_erase, ih]

theorem writeMessage_sym_cases (S : Suite) (hs : HS) (p : Bytes) (cap : Nat) :
    (∃ n, (hs.writeMessage S p cap).1 = .ok n ∧ (hs.writeMessage S p cap).2.1.sym = (writeInner S hs p cap).2.hs.sym) ∨
    (∃ q, (hs.writeMessage S p cap).1 = .panic q ∧ (hs.writeMessage S p cap).2.1.sym = (writeInner S hs p cap).2.hs.sym) ∨
    (∃ e, (hs.writeMessage S p cap).1 = .err e ∧
      (hs.writeMessage S p cap).2.1.sym = (writeInner S hs p cap).2.hs.sym.restore hs.sym.checkpoint) := by
  unfold writeMessage
  simp only
  cases hr : (writeInner S hs p cap).1 with
  | ok n => exact Or.inl ⟨n, rfl, rfl⟩
  | panic q => exact Or.inr (Or.inl ⟨q, rfl, rfl⟩)
  | err e =>
    right; right
    refine ⟨e, rfl, ?_⟩
    dsimp only
    cases hon : hs.e.on <;> rfl

theorem readMessage_sym_cases (S : Suite) (hs : HS) (m : Bytes) (cap : Nat) :
    (∃ n, (hs.readMessage S m cap).1 = .ok n ∧ (hs.readMessage S m cap).2.1.sym = (readInner S hs m cap).2.1.sym) ∨
    (∃ q, (hs.readMessage S m cap).1 = .panic q ∧ (hs.readMessage S m cap).2.1.sym = (readInner S hs m cap).2.1.sym) ∨
    (∃ e, (hs.readMessage S m cap).1 = .err e ∧
      (hs.readMessage S m cap).2.1.sym = (readInner S hs m cap).2.1.sym.restore hs.sym.checkpoint) := by
  unfold readMessage
  simp only
  cases hr : (readInner S hs m cap).1 with
  | ok n => exact Or.inl ⟨n, rfl, rfl⟩
  | panic q => exact Or.inr (Or.inl ⟨q, rfl, rfl⟩)
  | err e => exact Or.inr (Or.inr ⟨e, rfl, rfl⟩)

theorem setPsk_sym (hs : HS) (loc : Nat) (key : Bytes) : (hs.setPsk loc key).2.sym = hs.sym := by
  unfold setPsk; split <;> rfl

/-- One call: reading `restore` as an installation, the call's log is disciplined from the
    handshake cipher's (key, nonce) before the call to its (key, nonce) after the call. -/
theorem callG_discipline (S : Suite) (hs : HS) (op : Op) :
    Discipline hs.sym.cs.key hs.sym.cs.n.toNat (flat (callG S hs op))
      (step S hs op).sym.cs.key (step S hs op).sym.cs.n.toNat := by
  cases op with
  | write p cap =>
    have hd := (writeInner_G S hs p cap).2
    simp only [callG, step, flat, flat_append, flat_map_g]
    rcases writeMessage_sym_cases S hs p cap with ⟨n, h1, h2⟩ | ⟨q, h1, h2⟩ | ⟨e, h1, h2⟩
    · rw [h1, h2]; simp only [restoreMark, flat, List.append_nil]; exact hd
    · rw [h1, h2]; simp only [restoreMark, flat, List.append_nil]; exact hd
    · rw [h1]; simp only [restoreMark, flat]
      exact hd.append (Discipline.refl _ _)
  | read m cap =>
    have hd := (readInner_G S hs m cap).2.1
    simp only [callG, step, flat, flat_append, flat_map_g]
    rcases readMessage_sym_cases S hs m cap with ⟨n, h1, h2⟩ | ⟨q, h1, h2⟩ | ⟨e, h1, h2⟩
    · rw [h1, h2]; simp only [restoreMark, flat, List.append_nil]; exact hd
    · rw [h1, h2]; simp only [restoreMark, flat, List.append_nil]; exact hd
    · rw [h1]; simp only [restoreMark, flat]
      exact hd.append (Discipline.refl _ _)
  | setPsk loc key =>
    simp only [callG, step, flat, setPsk_sym]
    exact Discipline.refl _ _

/-- **The history log of every history is disciplined** (a `restore` read as an installation),
    from the handshake cipher's (key, nonce) in the first state to its (key, nonce) in the last:
    every `enc` event of the history uses the key installed or restored last, with a nonce not
    below the counter that installation/restoration set and above all nonces used since. -/
theorem hist_disciplined (S : Suite) (hs : HS) (ops : List Op) :
    Discipline hs.sym.cs.key hs.sym.cs.n.toNat (flat (histG S hs ops))
      (run S hs ops).sym.cs.key (run S hs ops).sym.cs.n.toNat := by
  induction ops generalizing hs with
  | nil => exact Discipline.refl _ _
  | cons op ops ih =>
    simp only [histG, run, flat_append]
    exact (callG_discipline S hs op).append (ih _)

/-- **What a `restore` mark restores** (from a state satisfying the reachable-state invariant): the
    tracked key, `has_key`, hash and chaining key of before the call; and, when a key was installed
    before the call, exactly the cipher state (key and nonce) of before the call. -/
theorem restore_is_checkpoint (S : Suite) (hs : HS) (inv : SymInv hs.sym) (op : Op)
    (hf : ∃ key n, HEv.restore key n ∈ callG S hs op) :
    (step S hs op).sym.h = hs.sym.h ∧ (step S hs op).sym.ck = hs.sym.ck ∧
    (step S hs op).sym.hasKey = hs.sym.hasKey ∧ (step S hs op).sym.k = hs.sym.k ∧
    (∀ key, hs.sym.k = some key → (step S hs op).sym.cs = hs.sym.cs) := by
  obtain ⟨key, n, hm⟩ := hf
  cases op with
  | write p cap =>
    simp only [callG, List.mem_cons, reduceCtorEq, List.mem_append, List.mem_map, and_false, exists_false,
      false_or] at hm
    simp only [step]
    rcases writeMessage_sym_cases S hs p cap with ⟨n', h1, h2⟩ | ⟨q, h1, h2⟩ | ⟨e, h1, h2⟩
    · rw [h1] at hm; simp [restoreMark] at hm
    · rw [h1] at hm; simp [restoreMark] at hm
    · rw [h2]
      have := Theorems.C06.restore_facts (writeInner S hs p cap).2.hs.sym hs.sym inv
      exact ⟨this.1, this.2.1, this.2.2.1, this.2.2.2.1, this.2.2.2.2.1⟩
  | read m cap =>
    simp only [callG, List.mem_cons, reduceCtorEq, List.mem_append, List.mem_map, and_false, exists_false,
      false_or] at hm
    simp only [step]
    rcases readMessage_sym_cases S hs m cap with ⟨n', h1, h2⟩ | ⟨q, h1, h2⟩ | ⟨e, h1, h2⟩
    · rw [h1] at hm; simp [restoreMark] at hm
    · rw [h1] at hm; simp [restoreMark] at hm
    · rw [h2]
      have := Theorems.C06.restore_facts (readInner S hs m cap).2.1.sym hs.sym inv
      exact ⟨this.1, this.2.1, this.2.2.1, this.2.2.2.1, this.2.2.2.2.1⟩
  | setPsk loc k => simp [callG] at hm

/-- Every KDF installation marker of the history log is an HKDF output installed with nonce 0. -/
theorem callG_install (S : Suite) (hs : HS) (op : Op) (key : Bytes) (nn : UInt64)
    (h : HEv.g (GEv.install key nn) ∈ callG S hs op) : nn = 0 ∧ ∃ ck, IsKdfKey S ck key := by
  cases op with
  | write p cap =>
    simp only [callG, List.mem_cons, reduceCtorEq, List.mem_append, List.mem_map, HEv.g.injEq, exists_eq_right,
      false_or] at h
    rcases h with h | h
    · exact writeG_install S hs p cap key nn h
    · cases hr : (hs.writeMessage S p cap).1 <;> simp [restoreMark, hr] at h
  | read m cap =>
    simp only [callG, List.mem_cons, reduceCtorEq, List.mem_append, List.mem_map, HEv.g.injEq, exists_eq_right,
      false_or] at h
    rcases h with h | h
    · exact readG_install S hs m cap key nn h
    · cases hr : (hs.readMessage S m cap).1 <;> simp [restoreMark, hr] at h
  | setPsk loc k => simp [callG] at h

theorem histG_install (S : Suite) (hs : HS) (ops : List Op) (key : Bytes) (nn : UInt64)
    (h : HEv.g (GEv.install key nn) ∈ histG S hs ops) : nn = 0 ∧ ∃ ck, IsKdfKey S ck key := by
  induction ops generalizing hs with
  | nil => simp [histG] at h
  | cons op ops ih =>
    simp only [histG, List.mem_append] at h
    rcases h with h | h
    · exact callG_install S hs op key nn h
    · exact ih _ h

end SnowVerif.C06
