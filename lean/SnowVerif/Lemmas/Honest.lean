/-
  Lockstep lemmas for two honest parties (used by C02, C17, C03, C08): the writer's and the
  reader's processing of one token, under the specification's key-availability record `Spec.Keys`.
-/
import SnowVerif.Lemmas.Handshake
import SnowVerif.Spec.Validity

open SnowVerif SnowVerif.Model SnowVerif.Model.HS
set_option linter.unusedVariables false
set_option linter.unusedSimpArgs false

namespace SnowVerif.Model

/-- Party X's key pair `kp` is in use and the peer holds its public key. -/
structure KeyOk (S : Suite) (kp : Toggle KeyPair) (peer : Toggle Bytes) : Prop where
  on : kp.on = true
  peerOn : peer.on = true
  val : peer.val = kp.val.pub
  pub : kp.val.pub = S.pubOf kp.val.priv

/-- The two honest parties at a token boundary: `A` is the initiator, `B` the responder;
    `k` is the specification's record of which public keys have been conveyed so far. -/
structure Sync (S : Suite) (k : Spec.Keys) (A B : HS) : Prop where
  ia : A.initiator = true
  ib : B.initiator = false
  sym : A.sym = B.sym
  isPsk : A.isPsk = B.isPsk
  psks : A.psks = B.psks
  iE : k.iE = true → KeyOk S A.e B.re
  iS : k.iS = true → KeyOk S A.s B.rs
  rE : k.rE = true → KeyOk S B.e A.re
  rS : k.rS = true → KeyOk S B.s A.rs
  /-- no remote static is reported before it has been conveyed -/
  niS : k.iS = false → B.rs.on = false
  nrS : k.rS = false → A.rs.on = false

namespace HS

/-- Both parties compute the same DH output for a DH token the validity rules allow. -/
theorem dh_agree (S : Suite) (hc : S.DhComm) (ht : S.DhTotal) {k k' : Spec.Keys} {A B : HS} (h : Sync S k A B)
    (t : Tok) (ini : Bool) (hdh : t = .ee ∨ t = .es ∨ t = .se ∨ t = .ss) (hk : k.step ini t = some k') :
    ∃ out, A.dh S t = .ok out ∧ B.dh S t = .ok out := by
  have key : ∀ (x y : Toggle KeyPair) (px py : Toggle Bytes), KeyOk S x px → KeyOk S y py →
      ∃ out, (if !(x.on && py.on) then (Res.err (.state .missingKeyMaterial) : Res Bytes)
              else match S.dh x.val.priv py.val with | none => .err .dh | some o => .ok o) = .ok out ∧
             (if !(y.on && px.on) then (Res.err (.state .missingKeyMaterial) : Res Bytes)
              else match S.dh y.val.priv px.val with | none => .err .dh | some o => .ok o) = .ok out := by
    intro x y px py hx hy
    have e1 : S.dh x.val.priv py.val = S.dh y.val.priv px.val := by
      rw [hy.val, hx.val, hy.pub, hx.pub]; exact hc _ _
    have hsome := ht x.val.priv y.val.priv
    rw [← hy.pub, ← hy.val] at hsome
    cases hd : S.dh x.val.priv py.val with
    | none => rw [hd] at hsome; simp at hsome
    | some o =>
      refine ⟨o, ?_, ?_⟩
      · simp [hx.on, hy.peerOn, hd]
      · rw [← e1]; simp [hy.on, hx.peerOn, hd]
  unfold HS.dh
  rw [h.ia, h.ib]
  rcases hdh with rfl | rfl | rfl | rfl
  · -- ee: A (e, re), B (e, re)
    simp only [Spec.Keys.step] at hk
    split at hk
    · rename_i hc2
      simp at hc2
      exact key A.e B.e B.re A.re (h.iE hc2.1.1) (h.rE hc2.1.2)
    · simp at hk
  · -- es: A (e, rs), B (s, re)
    simp only [Spec.Keys.step] at hk
    split at hk
    · rename_i hc2
      simp at hc2
      exact key A.e B.s B.re A.rs (h.iE hc2.1.1) (h.rS hc2.1.2)
    · simp at hk
  · -- se: A (s, re), B (e, rs)
    simp only [Spec.Keys.step] at hk
    split at hk
    · rename_i hc2
      simp at hc2
      exact key A.s B.e B.rs A.re (h.iS hc2.1.1) (h.rE hc2.1.2)
    · simp at hk
  · -- ss: A (s, rs), B (s, rs)
    simp only [Spec.Keys.step] at hk
    split at hk
    · rename_i hc2
      simp at hc2
      exact key A.s B.s B.rs A.rs (h.iS hc2.1.1) (h.rS hc2.1.2)
    · simp at hk

end HS
end SnowVerif.Model

namespace SnowVerif.Model.HS
open Bytes

/-- Static facts about one party that honest processing relies on and preserves. -/
structure PartyOk (S : Suite) (X : HS) : Prop where
  inv : SymInv X.sym
  sPub : X.s.on = true → X.s.val.pub = S.pubOf X.s.val.priv
  ePub : X.fixedE = true → X.e.val.pub = S.pubOf X.e.val.priv

theorem nonce_succ (n : UInt64) (h : n ≠ CipherState.nonceMax) : (n + 1).toNat = n.toNat + 1 := by
  have : n.toNat < 2 ^ 64 - 1 := by
    have h1 : n.toNat < 2 ^ 64 := n.toNat_lt
    have h2 : n.toNat ≠ 2 ^ 64 - 1 := by
      intro hh; apply h; apply UInt64.toNat_inj.mp; rw [hh]; rfl
    omega
  rw [UInt64.toNat_add]; simp; omega

/-- psk token: both parties mix the same key (slots agree), nothing on the wire. -/
theorem psk_sync (S : Suite) {k : Spec.Keys} {A B : HS} (h : Sync S k A B) (n : Nat) (key : Bytes)
    (hn : n < 10) (hslot : A.psks.getD n none = some key) :
    pskStep S A n = (.ok (), { A with sym := A.sym.mixKeyAndHash S key }) ∧
    pskStep S B n = (.ok (), { B with sym := B.sym.mixKeyAndHash S key }) ∧
    Sync S k { A with sym := A.sym.mixKeyAndHash S key } { B with sym := B.sym.mixKeyAndHash S key } := by
  have hslotB : B.psks.getD n none = some key := by rw [← h.psks]; exact hslot
  refine ⟨by unfold pskStep; simp only [hn, ↓reduceIte, hslot], by unfold pskStep; simp only [hn, ↓reduceIte, hslotB], ?_⟩
  exact ⟨h.ia, h.ib, by simp only [h.sym], h.isPsk, h.psks, h.iE, h.iS, h.rE, h.rS, h.niS, h.nrS⟩

/-- DH token: both parties derive the same chaining key and cipher key. -/
theorem dh_sync (S : Suite) (hc : S.DhComm) (ht : S.DhTotal) {k k' : Spec.Keys} {A B : HS} (h : Sync S k A B)
    (t : Tok) (ini : Bool) (hdh : t = .ee ∨ t = .es ∨ t = .se ∨ t = .ss) (hk : k.step ini t = some k') :
    ∃ out, dhStep S A t = (.ok (), { A with sym := A.sym.mixKey S out }) ∧
           dhStep S B t = (.ok (), { B with sym := B.sym.mixKey S out }) ∧
           Sync S k' { A with sym := A.sym.mixKey S out } { B with sym := B.sym.mixKey S out } := by
  obtain ⟨out, ha, hb⟩ := dh_agree S hc ht h t ini hdh hk
  refine ⟨out, by simp [dhStep, ha], by simp [dhStep, hb], ?_⟩
  -- the key-knowledge flags are untouched by a DH token
  have hflags : k'.iE = k.iE ∧ k'.iS = k.iS ∧ k'.rE = k.rE ∧ k'.rS = k.rS := by
    rcases hdh with rfl | rfl | rfl | rfl <;>
      (simp only [Spec.Keys.step] at hk; split at hk <;> simp at hk <;> subst hk <;> exact ⟨rfl, rfl, rfl, rfl⟩)
  obtain ⟨f1, f2, f3, f4⟩ := hflags
  exact ⟨h.ia, h.ib, by simp only [h.sym], h.isPsk, h.psks,
    fun x => h.iE (by rw [← f1]; exact x), fun x => h.iS (by rw [← f2]; exact x),
    fun x => h.rE (by rw [← f3]; exact x), fun x => h.rS (by rw [← f4]; exact x),
    fun x => h.niS (by rw [← f2]; exact x), fun x => h.nrS (by rw [← f4]; exact x)⟩

end SnowVerif.Model.HS

namespace SnowVerif.Model.HS
open Bytes

/-- The symmetric state both parties reach after an `e` token carrying public key `pk`. -/
def symAfterE (S : Suite) (sym : Sym) (isPsk : Bool) (pk : Bytes) : Sym :=
  if isPsk then (sym.mixHash S pk).mixKey S pk else sym.mixHash S pk

/-- `e` token, writer `W` and reader `R` in lockstep. -/
theorem e_write_read (S : Suite) (hPL : S.PubLen) (hPT : S.PrivTotal) (W R : HS)
    (hsym : W.sym = R.sym) (hpsk : W.isPsk = R.isPsk)
    (hfix : W.fixedE = true → W.e.val.pub = S.pubOf W.e.val.priv)
    (w : WS) (hw : w.hs = W) (cap : Nat) (hcap : w.acc.length + S.pubLen ≤ cap) :
    ∃ (kp : KeyPair) (rng' : Bytes) (ev : List Event), kp.pub = S.pubOf kp.priv ∧
      writeTok S cap w .e = (.ok (),
        { hs := { W with e := { val := kp, on := true }, rng := rng', sym := symAfterE S W.sym W.isPsk kp.pub },
          acc := w.acc ++ kp.pub, ev := w.ev ++ ev }) ∧
      ∀ (r : RS) (rest : Bytes), r.hs = R → r.ptr = kp.pub ++ rest →
        readTok S r .e = (.ok (),
          { r with hs := { R with re := { val := kp.pub, on := true }, sym := symAfterE S W.sym W.isPsk kp.pub },
                   ptr := rest }) := by
  subst hw
  have hc : ¬ w.acc.length + S.pubLen > cap := by omega
  have rd : ∀ (kp : KeyPair), kp.pub = S.pubOf kp.priv → ∀ (r : RS) (rest : Bytes), r.hs = R → r.ptr = kp.pub ++ rest →
      readTok S r .e = (.ok (),
        { r with hs := { R with re := { val := kp.pub, on := true }, sym := symAfterE S w.hs.sym w.hs.isPsk kp.pub },
                 ptr := rest }) := by
    intro kp hkp r rest hr hp
    have hl : kp.pub.length = S.pubLen := by rw [hkp]; exact hPL _
    have h1 : ¬ r.ptr.length < S.pubLen := by rw [hp, List.length_append]; omega
    have ht : r.ptr.take S.pubLen = kp.pub := by rw [hp, ← hl]; simp
    have hd : r.ptr.drop S.pubLen = rest := by rw [hp, ← hl]; simp
    simp only [readTok, h1, ↓reduceIte, ht, hd, hr, symAfterE, ← hsym, ← hpsk]
  cases hf : w.hs.fixedE with
  | true =>
    refine ⟨w.hs.e.val, w.hs.rng, [], hfix hf, ?_, rd _ (hfix hf)⟩
    simp only [writeTok, hc, ↓reduceIte, hf, symAfterE]
  | false =>
    have hv : S.validPriv (rngDraw w.hs.rng S.privLen).1 = true := hPT _
    refine ⟨{ priv := (rngDraw w.hs.rng S.privLen).1, pub := S.pubOf (rngDraw w.hs.rng S.privLen).1 },
            (rngDraw w.hs.rng S.privLen).2, [.rng (rngDraw w.hs.rng S.privLen).1], rfl, ?_, rd _ rfl⟩
    simp only [writeTok, hc, ↓reduceIte, hf, hv, symAfterE, Bool.false_eq_true]

end SnowVerif.Model.HS

namespace SnowVerif.Model.HS
open Bytes

theorem symInv_cs_hasKey {sym : Sym} (inv : SymInv sym) (hk : sym.hasKey = true) : sym.cs.hasKey = true := by
  have := inv.2 hk
  cases hkk : sym.k with
  | none => rw [hkk] at this; simp at this
  | some key => exact (inv.1 key hkk).2

/-- The symmetric state both parties reach after a field carrying plaintext `pt`
    (`encrypt_and_mix_hash` on one side, `decrypt_and_mix_hash` on the other). -/
def symAfterField (S : Suite) (sym : Sym) (pt : Bytes) : Sym :=
  if sym.hasKey then
    Sym.mixHash S { sym with cs := { sym.cs with n := sym.cs.n + 1 } } (S.enc sym.cs.key sym.cs.n sym.h pt)
  else Sym.mixHash S sym pt

/-- The bytes on the wire for a field carrying `pt`. -/
def fieldBytes (S : Suite) (sym : Sym) (pt : Bytes) : Bytes :=
  if sym.hasKey then S.enc sym.cs.key sym.cs.n sym.h pt else pt

theorem encrypt_field (S : Suite) (sym : Sym) (pt : Bytes) (cap : Nat) (inv : SymInv sym)
    (hn : sym.hasKey = true → sym.cs.n ≠ CipherState.nonceMax) (hcap : pt.length + 16 ≤ cap) :
    (sym.encryptAndMixHash S pt cap).1 = .ok (fieldBytes S sym pt) ∧
    (sym.encryptAndMixHash S pt cap).2.1 = symAfterField S sym pt := by
  unfold Sym.encryptAndMixHash fieldBytes symAfterField
  cases hk : sym.hasKey with
  | false =>
    have : ¬ cap < pt.length := by omega
    simp [this]
  | true =>
    have hck := symInv_cs_hasKey inv hk
    rw [CipherState.encryptAd_eval hck (hn hk) hcap]
    simp

theorem decrypt_field (S : Suite) (hDE : S.DecEnc) (hEL : S.EncLen) (sym : Sym) (pt : Bytes) (cap : Nat) (inv : SymInv sym)
    (hn : sym.hasKey = true → sym.cs.n ≠ CipherState.nonceMax) (hcap : pt.length ≤ cap) :
    (sym.decryptAndMixHash S (fieldBytes S sym pt) cap).1 = .ok pt ∧
    (sym.decryptAndMixHash S (fieldBytes S sym pt) cap).2.1 = symAfterField S sym pt := by
  unfold Sym.decryptAndMixHash fieldBytes symAfterField
  cases hk : sym.hasKey with
  | false =>
    have : ¬ cap < pt.length := by omega
    simp [this]
  | true =>
    have hck := symInv_cs_hasKey inv hk
    have hl := hEL sym.cs.key sym.cs.n sym.h pt
    simp only [↓reduceIte]
    rw [CipherState.decryptAd_eval (by omega) (by omega) hck (hn hk), hDE]
    simp

theorem fieldBytes_length (S : Suite) (hEL : S.EncLen) (sym : Sym) (pt : Bytes) :
    (fieldBytes S sym pt).length = pt.length + (if sym.hasKey then 16 else 0) := by
  unfold fieldBytes
  cases sym.hasKey with
  | true => simp only [↓reduceIte]; exact hEL _ _ _ _
  | false => simp

theorem symAfterField_facts (S : Suite) (sym : Sym) (pt : Bytes) (inv : SymInv sym)
    (hn : sym.hasKey = true → sym.cs.n ≠ CipherState.nonceMax) :
    (symAfterField S sym pt).hasKey = sym.hasKey ∧ SymInv (symAfterField S sym pt) ∧
    (symAfterField S sym pt).cs.n.toNat ≤ sym.cs.n.toNat + 1 ∧ (symAfterField S sym pt).ck = sym.ck := by
  unfold symAfterField
  split
  · rename_i hk
    refine ⟨rfl, ?_, ?_, rfl⟩
    · apply Sym.inv_mixHash
      exact Sym.inv_of_cs_step sym _ inv rfl rfl
    · show (sym.cs.n + 1).toNat ≤ sym.cs.n.toNat + 1
      rw [nonce_succ _ (hn hk)]; omega
  · exact ⟨rfl, Sym.inv_mixHash S sym pt inv, by show sym.cs.n.toNat ≤ _; omega, rfl⟩

/-- `s` token, writer `W` and reader `R` in lockstep. -/
theorem s_write_read (S : Suite) (hEL : S.EncLen) (hDE : S.DecEnc) (hPL : S.PubLen) (W R : HS)
    (hsym : W.sym = R.sym) (hon : W.s.on = true) (hpub : W.s.val.pub = S.pubOf W.s.val.priv)
    (inv : SymInv W.sym) (hn : W.sym.hasKey = true → W.sym.cs.n ≠ CipherState.nonceMax)
    (w : WS) (hw : w.hs = W) (cap : Nat) (hcap : w.acc.length + S.pubLen + 16 ≤ cap) :
    ∃ ev evr, writeTok S cap w .s = (.ok (),
        { hs := { W with sym := symAfterField S W.sym W.s.val.pub },
          acc := w.acc ++ fieldBytes S W.sym W.s.val.pub, ev := w.ev ++ ev }) ∧
      ∀ (r : RS) (rest : Bytes), r.hs = R → r.ptr = fieldBytes S W.sym W.s.val.pub ++ rest →
        readTok S r .s = (.ok (),
          { hs := { R with sym := symAfterField S W.sym W.s.val.pub, rs := { val := W.s.val.pub, on := true } },
            ptr := rest, ev := r.ev ++ evr }) := by
  subst hw
  have hl : w.hs.s.val.pub.length = S.pubLen := by rw [hpub]; exact hPL _
  have henc := encrypt_field S w.hs.sym w.hs.s.val.pub (cap - w.acc.length) inv hn (by omega)
  refine ⟨(w.hs.sym.encryptAndMixHash S w.hs.s.val.pub (cap - w.acc.length)).2.2,
          (w.hs.sym.decryptAndMixHash S (fieldBytes S w.hs.sym w.hs.s.val.pub) S.pubLen).2.2.2, ?_, ?_⟩
  · have c1 : ¬ (w.acc.length + S.pubLen + (if w.hs.sym.hasKey = true then 16 else 0) > cap) := by
      split <;> omega
    simp only [writeTok, hon, Bool.not_true, Bool.false_eq_true, ↓reduceIte, c1, henc.1, henc.2, Res.toUnit, Sym.okBytes]
  · intro r rest hr hp
    subst hr
    have hfl := fieldBytes_length S hEL w.hs.sym w.hs.s.val.pub
    have hdec := decrypt_field S hDE hEL w.hs.sym w.hs.s.val.pub S.pubLen inv hn (by omega)
    have hlen : S.pubLen + (if w.hs.sym.hasKey = true then 16 else 0) = (fieldBytes S w.hs.sym w.hs.s.val.pub).length := by
      rw [hfl, hl]
    have h1 : ¬ r.ptr.length < S.pubLen + (if w.hs.sym.hasKey = true then 16 else 0) := by
      rw [hlen, hp, List.length_append]; omega
    have ht : r.ptr.take (S.pubLen + (if w.hs.sym.hasKey = true then 16 else 0)) = fieldBytes S w.hs.sym w.hs.s.val.pub := by
      rw [hlen, hp]; simp
    have hd : r.ptr.drop (S.pubLen + (if w.hs.sym.hasKey = true then 16 else 0)) = rest := by
      rw [hlen, hp]; simp
    simp only [readTok, ← hsym, h1, ↓reduceIte, ht, hd, hdec.1, hdec.2, Res.toUnit]

end SnowVerif.Model.HS
