/-
  C03 / C08, model level: the hypotheses `Pre` and `LastKeyed` of the specification-level
  integrity theorems hold of the abstractions of two states `Builder::build` returns for the same
  pattern and modifiers.
-/
import SnowVerif.Lemmas.C03Run
import SnowVerif.Theorems.C01Patterns

namespace SnowVerif.C03Run
open SnowVerif SnowVerif.Model SnowVerif.Model.HS SnowVerif.Bytes SnowVerif.C01
open SnowVerif.Theorems SnowVerif.Generated SnowVerif.Lemmas.C12
open SnowVerif.Spec.Integrity (keyedAfter tokKeyed LastKeyed Pre)
set_option linter.unusedVariables false
set_option linter.unusedSimpArgs false

/-! ### `keyedAfter`: monotone in the psk mode, in the start flag, and under inserting `psk` tokens -/

abbrev strip := Lemmas.C01Patterns.strip

theorem tokKeyed_mono (p p' : Bool) (hp : p = true → p' = true) (t : Tok) (k k' : Bool) (hk : k = true → k' = true) :
    tokKeyed p t k = true → tokKeyed p' t k' = true := by
  cases t <;> cases p <;> cases p' <;> cases k <;> cases k' <;> simp_all [tokKeyed]

/-- If the payload after the token list with the `psk` tokens removed is keyed, it is keyed after
    the full list, also in a psk handshake and from a keyed start. -/
theorem keyedAfter_strip_mono (p p' : Bool) (hp : p = true → p' = true) :
    ∀ (ts : List Tok) (k k' : Bool), (k = true → k' = true) →
      keyedAfter p (strip ts) k = true → keyedAfter p' ts k' = true
  | [], k, k', hk, h => hk h
  | t :: ts, k, k', hk, h => by
    cases ht : Spec.isPsk t with
    | true =>
      have hs : strip (t :: ts) = strip ts := by
        simp [strip, Lemmas.C01Patterns.strip, List.filter_cons, ht]
      rw [hs] at h
      simp only [keyedAfter]
      refine keyedAfter_strip_mono p p' hp ts k _ ?_ h
      intro _
      cases t <;> simp_all [Spec.isPsk, tokKeyed]
    | false =>
      have hs : strip (t :: ts) = t :: strip ts := by
        simp [strip, Lemmas.C01Patterns.strip, List.filter_cons, ht]
      rw [hs] at h
      simp only [keyedAfter] at h ⊢
      exact keyedAfter_strip_mono p p' hp ts _ _ (tokKeyed_mono p p' hp t k k' hk) h

/-- Regenerated table: in every base pattern the payload of the LAST message is processed under
    a key by the specification's rules (and there is at least one message). `decide` over all
    rows. -/
theorem last_keyed_table_list :
    allPatterns.all (fun p => keyedAfter false (strip p.tokens.msgs.flatten) false) = true := by
  decide

theorem last_keyed_table (p : Pattern) : keyedAfter false (strip p.tokens.msgs.flatten) false = true :=
  forall_pattern_of_all last_keyed_table_list p

theorem strip_flatten (ms : List (List Tok)) : strip ms.flatten = (ms.map strip).flatten := by
  simp only [strip, Lemmas.C01Patterns.strip, List.filter_flatten]
  rfl

/-- **The last message of every instance snow accepts is keyed**: for every pattern of the table
    and every modifier list `HandshakeTokens::try_from` accepts, in psk mode or not, from any
    start flag. -/
theorem last_keyed_inst (p : Pattern) (mods : List Modifier) (inst : Inst)
    (h : handshakeTokens p mods = .ok inst) (isPsk k : Bool) :
    keyedAfter isPsk inst.msgs.flatten k = true := by
  have h2 : inst = Spec.placed p.tokens mods := ((Theorems.C01Patterns.handshakeTokens_ok_iff p mods inst).mp h).2
  have hs : strip inst.msgs.flatten = strip p.tokens.msgs.flatten := by
    rw [strip_flatten, strip_flatten, h2]
    show ((Spec.placeFrom mods 0 p.tokens.msgs).map strip).flatten = _
    rw [Lemmas.C01Patterns.map_strip_placeFrom]
  apply keyedAfter_strip_mono false isPsk (by intro h; cases h) _ false k (by intro h; cases h)
  rw [hs]
  exact last_keyed_table p

/-! ### `Pre` and `LastKeyed` of built states -/

theorem premix_h_len (S : Suite) (hL : S.HashLen) (key : Bytes) (toks : List Tok) (sym : Sym)
    (h : sym.h.length = S.hashLen) : (premix S key toks sym).h.length = S.hashLen := by
  induction toks generalizing sym with
  | nil => exact h
  | cons t ts ih => exact ih _ (hL _)

theorem builtSym_h_len (S : Suite) (hL : S.HashLen) (c : BuildCfg) : (builtSym S c).h.length = S.hashLen := by
  unfold builtSym premixBoth
  simp only
  split <;> exact premix_h_len S hL _ _ _ (premix_h_len S hL _ _ _ (hL _))

/-- What is known of a built state, in the form the statements below use. -/
theorem built_abs_facts (S : Suite) (hL : S.HashLen) (hpl : S.PubLen) (av : Avail) (c : BuildCfg) (hs : HS)
    (hb : build S av c = .ok hs) :
    (absHS hs).msgs = (withPsks c.pattern.tokens c.mods).msgs ∧
    (absHS hs).isPsk = isPskMods c.mods ∧
    (absHS hs).hasKey = false ∧
    (absHS hs).ss.h.length = S.hashLen ∧
    (∀ kp, (absHS hs).s = some kp → kp.pub.length = S.pubLen) ∧
    (absHS hs).psks = c.psks ∧
    handshakeTokens c.pattern c.mods = .ok (withPsks c.pattern.tokens c.mods) := by
  have hi := C12.build_initial_state S av c hs hb
  have hst := build_ok_state S av c hs hb
  refine ⟨?_, ?_, ?_, ?_, ?_, ?_, ?_⟩
  · show hs.msgs.drop hs.pos = _
    rw [hi.1, List.drop_zero, hi.2.2.2.2.1]
  · show hs.isPsk = _
    rw [hst]; rfl
  · rw [absHS_hasKey]; exact hi.2.2.2.2.2.2.2.2.2.2.2.2.2.2.2.2.2.2.1
  · show hs.sym.h.length = _
    rw [hi.2.2.2.2.2.2.2.2.2.2.2.2.2.2.2.2.2.1]
    exact builtSym_h_len S hL c
  · intro kp hkp
    have : absTK hs.s = some kp := hkp
    rw [hst] at this
    have e : (builtState S c).s = builtS S c := rfl
    rw [e] at this
    unfold builtS absTK at this
    split at this
    · simp only [↓reduceIte, Option.some.injEq] at this
      rw [← this]; exact hpl _
    · simp at this
  · show hs.psks = _
    exact hi.2.2.2.2.2.1
  · have := hi.2.2.2.1
    rw [hi.2.2.2.2.1] at this
    exact this

/-- **`Pre`** holds of the abstractions of two sessions built for the same pattern and the same
    modifiers (whatever their roles, keys, prologues, psks, protocol-name strings). -/
theorem pre_built (S : Suite) (hL : S.HashLen) (hpl : S.PubLen) (av : Avail) (cI cR : BuildCfg) (A B : HS)
    (hA : build S av cI = .ok A) (hB : build S av cR = .ok B)
    (hp : cI.pattern = cR.pattern) (hm : cI.mods = cR.mods) : Pre S (absHS A) (absHS B) := by
  obtain ⟨a1, a2, a3, a4, a5, _⟩ := built_abs_facts S hL hpl av cI A hA
  obtain ⟨b1, b2, b3, b4, b5, _⟩ := built_abs_facts S hL hpl av cR B hB
  exact ⟨by rw [a1, b1, hp, hm], by rw [a2, b2, hm], by rw [a3, b3], a4, b4, a5, b5⟩

/-- **`LastKeyed`** holds of the abstraction of every built session: the payload of the last
    message of the handshake is processed under a key. -/
theorem lastKeyed_built (S : Suite) (hL : S.HashLen) (hpl : S.PubLen) (av : Avail) (c : BuildCfg) (A : HS)
    (hA : build S av c = .ok A) : LastKeyed (absHS A) := by
  obtain ⟨a1, _, _, _, _, _, a7⟩ := built_abs_facts S hL hpl av c A hA
  unfold LastKeyed
  rw [a1]
  exact last_keyed_inst c.pattern c.mods _ a7 _ _

/-- A built session has at least one message to process, and `absHS` shows all of them. -/
theorem msgs_built (S : Suite) (av : Avail) (c : BuildCfg) (A : HS) (hA : build S av c = .ok A) :
    (absHS A).msgs = A.msgs ∧ A.msgs ≠ [] := by
  have hi := C12.build_initial_state S av c A hA
  refine ⟨by show A.msgs.drop A.pos = _; rw [hi.1, List.drop_zero], ?_⟩
  intro h
  have h1 := (base_shape c.pattern).2.2.1
  have h2 : A.msgs.length = c.pattern.tokens.msgs.length := by rw [hi.2.2.2.2.1]; simp
  rw [h] at h2
  simp at h2
  omega

end SnowVerif.C03Run
