/-
  C06 over histories, Stage 4, common definitions (model level only, no lemma library imported):
  the sequence of *writers* of a lockstep exchange and the predicate "each writer starts from the
  symmetric state the previous writer ended with".

  Why this file exists: `Lemmas/Honest3.lean` (lockstep of two honest parties, `HS.exchange`) and
  `Lemmas/C14Read.lean` both declare `SnowVerif.Model.HS.readInner_ok` (and `Lemmas/C14Write.lean`
  declared `writeInner_ok` like `Honest3.lean` until it was renamed `writeInner_ok_len`), so no Lean
  file can import `Honest3.lean` together with `C14Read.lean` / `Theorems/C14.lean` /
  `Theorems/C06.lean`.  The exchange statement is therefore proved in two halves that meet in the
  predicate `WChain` defined here: `Lemmas/C06HistExchHonest.lean` (honest exchanges are chains;
  imports `Honest3.lean`) and `Lemmas/C06HistExch.lean` (the merged ghost log of a chain is
  disciplined; imports only `Lemmas/C06Write.lean`).  `Lemmas/C06HistExchFull.lean` joins them.
-/
import SnowVerif.Model.Handshake

namespace SnowVerif.C06
open SnowVerif SnowVerif.Model SnowVerif.Model.HS

/-- The writers of a lockstep exchange, in order, each with the arguments of its `write_message`
    call: message 1 is written by `A` when `ini`, message 2 by the peer, ... (the recursion of
    `HS.exchange`, Lemmas/Honest3.lean). -/
def exchangeWriters (S : Suite) : Bool → HS → HS → List (Bytes × Nat × Nat) → List (HS × Bytes × Nat)
  | _, _, _, [] => []
  | true, A, B, (p, cap, capr) :: rest =>
    (A, p, cap) ::
      exchangeWriters S false (A.writeMessage S p cap).2.1 (B.readMessage S (A.writeMessage S p cap).2.2.1 capr).2.1 rest
  | false, A, B, (p, cap, capr) :: rest =>
    (B, p, cap) ::
      exchangeWriters S true (A.readMessage S (B.writeMessage S p cap).2.2.1 capr).2.1 (B.writeMessage S p cap).2.1 rest

/-- `WChain S s0 ws s1`: every write of the sequence succeeds; the first writer's symmetric state is
    `s0`, every later writer's symmetric state is the one the previous writer's call left, and the
    last call leaves `s1`. -/
def WChain (S : Suite) : Sym → List (HS × Bytes × Nat) → Sym → Prop
  | s0, [], s1 => s1 = s0
  | s0, (hs, p, cap) :: ws, s1 =>
    hs.sym = s0 ∧ (∃ n, (hs.writeMessage S p cap).1 = .ok n) ∧ WChain S (hs.writeMessage S p cap).2.1.sym ws s1

end SnowVerif.C06
