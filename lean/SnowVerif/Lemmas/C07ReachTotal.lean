/-
  C07 (reachability), part 4: discharging the "no call panics" hypothesis with C10.
  The C10 invariant `Inv` does not mention the random stream, so it is preserved by the calls of
  `C07.exec` (whose writes first install the stream `R` the call will draw from); under the suite
  laws `PubLen` and `PrivTotal` no call of any history panics.
-/
import SnowVerif.Lemmas.C07ReachInv
import SnowVerif.Theorems.C10

namespace SnowVerif.Lemmas.C07Reach
open SnowVerif SnowVerif.Model SnowVerif.Model.HS SnowVerif.Generated
open SnowVerif.Theorems.C07
open SnowVerif.Lemmas.C10 (Inv)
set_option autoImplicit false
set_option linter.unusedVariables false
set_option linter.unusedSimpArgs false

theorem c10inv_withRng {S : Suite} {hs : HS} (hi : Inv S hs) (R : Bytes) : Inv S { hs with rng := R } :=
  ⟨hi.psks, hi.toks, hi.sPub, hi.ePub, hi.sym⟩

theorem c10inv_exec (S : Suite) (hs : HS) (op : Op) (hpl : S.PubLen) (hi : Inv S hs) :
    Inv S (exec S hs op).2 := by
  cases op with
  | write R p cap => exact Theorems.C10.inv_write S _ p cap hpl (c10inv_withRng hi R)
  | read m cap => exact Theorems.C10.inv_read S hs m cap hi
  | setPsk loc key => exact Theorems.C10.inv_setPsk S hs loc key hi

theorem exec_total (S : Suite) (hs : HS) (op : Op) (hpl : S.PubLen) (hpt : S.PrivTotal) (hi : Inv S hs) :
    Obs.panicked (exec S hs op).1 = false := by
  cases op with
  | write R p cap => exact Theorems.C10.hs_write_total S _ p cap (c10inv_withRng hi R) hpt hpl
  | read m cap => exact Theorems.C10.hs_read_total S hs m cap hi
  | setPsk loc key => exact (Theorems.C10.set_psk_total hs loc key).2

/-- Under the C10 invariant and the suite laws `PubLen`, `PrivTotal`, no call of any history
    (any arguments, any random streams) panics. -/
theorem noPanics_of_inv (S : Suite) (ops : List Op) (hs : HS) (hpl : S.PubLen) (hpt : S.PrivTotal)
    (hi : Inv S hs) : NoPanics S hs ops := by
  induction ops generalizing hs with
  | nil => intro o ho; simp [run] at ho
  | cons op ops ih =>
    intro o ho
    simp only [run, List.mem_cons] at ho
    rcases ho with rfl | ho
    · exact exec_total S hs op hpl hpt hi
    · exact ih _ (c10inv_exec S hs op hpl hi) o ho

end SnowVerif.Lemmas.C07Reach
