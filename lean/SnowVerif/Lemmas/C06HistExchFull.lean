/-
  C06 over histories, Stage 4 (handshake part), the two halves joined: in an honest lockstep
  exchange (`HS.exchange`, hypotheses of `honest_exchange`) the concatenation of the writers' ghost
  logs (message 1 by the initiator, message 2 by the responder, ...) is disciplined from the common
  initial (key, nonce), hence merged over both endpoints no (key, nonce) pair is used on two
  different inputs, up to a KDF re-installation of that key.

  This file imports `Lemmas/Honest3.lean` together with `Lemmas/C06Write.lean`; it cannot be
  imported together with `Lemmas/C14Read.lean` (hence not with `Theorems/C06.lean`,
  `Theorems/C14.lean` or `Theorems/C06Hist.lean`), because `Honest3.lean` and `C14Read.lean` both
  declare `SnowVerif.Model.HS.readInner_ok`.  That is why these two property theorems live here
  and not in `Theorems/C06Hist.lean`.
-/
import SnowVerif.Lemmas.C06HistExch
import SnowVerif.Lemmas.C06HistExchHonest
import SnowVerif.Theorems.C02Build

namespace SnowVerif.C06
open SnowVerif SnowVerif.Model SnowVerif.Model.HS
set_option linter.unusedVariables false
set_option linter.unusedSimpArgs false

/-- **The merged writers' log of an honest exchange is disciplined.** For every suite with the
    stated laws, two parties in lockstep (`Sync`), every instance whose remaining messages the
    validity rules accept and every payload/buffer plan that fits: the exchange succeeds, and the
    ghost logs of the successive writers (`exchangeWriters`: the party whose turn it is, then its
    peer, ...), concatenated, erase to the concatenation of the logs their `write_message` calls
    returned and form one disciplined log from the common (key, nonce) of the two parties at the
    start to their common (key, nonce) at the end. -/
theorem exchange_log_disciplined (S : Suite) (hEL : S.EncLen) (hDE : S.DecEnc) (hPL : S.PubLen) (hPT : S.PrivTotal)
    (hDC : S.DhComm) (hDT : S.DhTotal) (rem : List (List Tok))
    (ini : Bool) (k kf : Spec.Keys) (A B : HS) (plan : List (Bytes × Nat × Nat))
    (hsync : Sync S k A B) (hctl : Ctl A B) (okA : PartyOk S A) (okB : PartyOk S B)
    (ht1 : A.myTurn = ini) (ht2 : B.myTurn = !ini) (hple : A.pos ≤ A.msgs.length)
    (hrem : A.msgs.drop A.pos = rem) (hk : Spec.Keys.runMsgs ini k rem = some kf)
    (hst : StaticsOk ini rem A.s.on B.s.on)
    (hpsk : ∀ n m, m ∈ rem → Tok.psk n ∈ m → n < 10 ∧ ∃ key, A.psks.getD n none = some key)
    (hn : A.sym.cs.n.toNat + totalFields rem < 2 ^ 64 - 1) (hplan : PlanOk S rem plan) :
    ∃ A' B', exchange S ini A B plan = some (A', B') ∧ Sync S kf A' B' ∧
      erase (chainG S (exchangeWriters S ini A B plan)) = chainEv S (exchangeWriters S ini A B plan) ∧
      Discipline A.sym.cs.key A.sym.cs.n.toNat (chainG S (exchangeWriters S ini A B plan))
        A'.sym.cs.key A'.sym.cs.n.toNat := by
  obtain ⟨A', B', hex, hs', hch⟩ := honest_exchange_chain S hEL hDE hPL hPT hDC hDT rem ini k kf A B plan
    hsync hctl okA okB ht1 ht2 hple hrem hk hst hpsk hn hplan
  exact ⟨A', B', hex, hs', chainG_erase S _, wchain_disciplined S _ _ _ hch⟩

/-- **Merged over both endpoints of an honest handshake, no (key, nonce) pair is used on two
    different inputs, up to a KDF coincidence**: two encryptions in the concatenated logs of the
    writers (initiator's message 1, responder's message 2, ...) under the same key with the same
    nonce encrypt the same (associated data, plaintext), or the merged ghost log shows that very
    key being installed again by an HKDF application between the two. -/
theorem exchange_no_reuse (S : Suite) (hEL : S.EncLen) (hDE : S.DecEnc) (hPL : S.PubLen) (hPT : S.PrivTotal)
    (hDC : S.DhComm) (hDT : S.DhTotal) (rem : List (List Tok))
    (ini : Bool) (k kf : Spec.Keys) (A B : HS) (plan : List (Bytes × Nat × Nat))
    (hsync : Sync S k A B) (hctl : Ctl A B) (okA : PartyOk S A) (okB : PartyOk S B)
    (ht1 : A.myTurn = ini) (ht2 : B.myTurn = !ini) (hple : A.pos ≤ A.msgs.length)
    (hrem : A.msgs.drop A.pos = rem) (hk : Spec.Keys.runMsgs ini k rem = some kf)
    (hst : StaticsOk ini rem A.s.on B.s.on)
    (hpsk : ∀ n m, m ∈ rem → Tok.psk n ∈ m → n < 10 ∧ ∃ key, A.psks.getD n none = some key)
    (hn : A.sym.cs.n.toNat + totalFields rem < 2 ^ 64 - 1) (hplan : PlanOk S rem plan)
    (i j : Nat) (hij : i < j) (key : Bytes) (n : UInt64) (a1 p1 a2 p2 : Bytes)
    (hi : (chainEv S (exchangeWriters S ini A B plan))[i]? = some (.enc key n a1 p1))
    (hj : (chainEv S (exchangeWriters S ini A B plan))[j]? = some (.enc key n a2 p2)) :
    (a1 = a2 ∧ p1 = p2) ∨
    ∃ (i' m j' : Nat) (ck : Bytes), i' < m ∧ m < j' ∧
      (chainG S (exchangeWriters S ini A B plan))[i']? = some (GEv.ev (.enc key n a1 p1)) ∧
      (chainG S (exchangeWriters S ini A B plan))[m]? = some (GEv.install key 0) ∧ IsKdfKey S ck key ∧
      (chainG S (exchangeWriters S ini A B plan))[j']? = some (GEv.ev (.enc key n a2 p2)) := by
  obtain ⟨A', B', _, _, he, hd⟩ := exchange_log_disciplined S hEL hDE hPL hPT hDC hDT rem ini k kf A B plan
    hsync hctl okA okB ht1 ht2 hple hrem hk hst hpsk hn hplan
  rw [← he] at hi hj
  rcases hd.no_reuse_events i j hij key n a1 p1 a2 p2 hi hj with hl | ⟨i', m, j', nn, h1, h2, g1, g2, g3⟩
  · exact Or.inl hl
  · obtain ⟨hz, ck, hck⟩ := chainG_install S _ key nn (List.mem_of_getElem? g2)
    subst hz
    exact Or.inr ⟨i', m, j', ck, h1, h2, g1, g2, hck, g3⟩

/-- **Sessions built by the `Builder`.** For every suite with the stated laws, every table pattern
    and modifier list, every pair of matching configurations on which `build` succeeds, and every
    payload/buffer plan that fits the messages: the honest handshake completes, and the ghost logs
    of the successive writers, merged over both endpoints, form one disciplined log from the
    handshake cipher's initial (key, nonce) — so two encryptions of the whole handshake, whichever
    endpoints made them, under the same (key, nonce) encrypt the same data, or a KDF installed that
    very key again in between. -/
theorem built_exchange_no_reuse (S : Suite) (hEL : S.EncLen) (hDE : S.DecEnc) (hPL : S.PubLen)
    (hPT : S.PrivTotal) (hDC : S.DhComm) (hDT : S.DhTotal)
    (av : Avail) (cI cR : BuildCfg) (hm : Theorems.C02Build.Matching S cI cR)
    (A B : HS) (hA : build S av cI = .ok A) (hB : build S av cR = .ok B)
    (hmods : cI.mods.length < 2 ^ 64 - 29)
    (inst : Inst) (hi : handshakeTokens cI.pattern cI.mods = .ok inst)
    (plan : List (Bytes × Nat × Nat)) (hplan : PlanOk S inst.msgs plan) :
    ∃ A' B', exchange S true A B plan = some (A', B') ∧
      erase (chainG S (exchangeWriters S true A B plan)) = chainEv S (exchangeWriters S true A B plan) ∧
      Discipline A.sym.cs.key A.sym.cs.n.toNat (chainG S (exchangeWriters S true A B plan))
        A'.sym.cs.key A'.sym.cs.n.toNat ∧
      ∀ (i j : Nat), i < j → ∀ (key : Bytes) (n : UInt64) (a1 p1 a2 p2 : Bytes),
        (chainEv S (exchangeWriters S true A B plan))[i]? = some (.enc key n a1 p1) →
        (chainEv S (exchangeWriters S true A B plan))[j]? = some (.enc key n a2 p2) →
        (a1 = a2 ∧ p1 = p2) ∨
        ∃ (i' m j' : Nat) (ck : Bytes), i' < m ∧ m < j' ∧
          (chainG S (exchangeWriters S true A B plan))[i']? = some (GEv.ev (.enc key n a1 p1)) ∧
          (chainG S (exchangeWriters S true A B plan))[m]? = some (GEv.install key 0) ∧ IsKdfKey S ck key ∧
          (chainG S (exchangeWriters S true A B plan))[j']? = some (GEv.ev (.enc key n a2 p2)) := by
  obtain ⟨k0, hk0, hc⟩ := Theorems.C02Build.build_consistent S hPL av cI cR hm inst hi A B hA hB
  have hv := Theorems.C01Patterns.valid_psk _ _ inst hi
  have hsmall : totalFields inst.msgs < 2 ^ 64 - 1 := by
    have := (Lemmas.C02Build.totalFields_inst _ _ inst hi).2
    omega
  obtain ⟨kf, hkf, _⟩ := Theorems.C02.valid_runMsgs inst hv k0 hk0
  have hdrop : A.msgs.drop A.pos = inst.msgs := by rw [hc.pos0, hc.msgs]; rfl
  have hn0 : A.sym.cs.n.toNat + totalFields inst.msgs < 2 ^ 64 - 1 := by rw [hc.n0]; simpa using hsmall
  obtain ⟨A', B', hex, _, he, hd⟩ := exchange_log_disciplined S hEL hDE hPL hPT hDC hDT inst.msgs true k0 kf A B plan
    hc.sync hc.ctl hc.okA hc.okB hc.turnA (by rw [hc.turnB]; rfl) (by rw [hc.pos0]; omega) hdrop hkf hc.statics
    hc.psks hn0 hplan
  refine ⟨A', B', hex, he, hd, ?_⟩
  intro i j hij key n a1 p1 a2 p2 h1 h2
  exact exchange_no_reuse S hEL hDE hPL hPT hDC hDT inst.msgs true k0 kf A B plan
    hc.sync hc.ctl hc.okA hc.okB hc.turnA (by rw [hc.turnB]; rfl) (by rw [hc.pos0]; omega) hdrop hkf hc.statics
    hc.psks hn0 hplan i j hij key n a1 p1 a2 p2 h1 h2

/-! ### Non-vacuity: the built XX pair of `Theorems/C02Build.lean` -/

namespace Ex
open SnowVerif.Theorems.C02Build

/-- The theorem applies to the built `XX` pair and the three-message plan of C02Build. -/
example : ∃ A B A' B', build exSuite exAv xxI = .ok A ∧ build exSuite exAv xxR = .ok B ∧
    exchange exSuite true A B [([1], 100, 10), ([], 300, 0), ([2, 3], 200, 5)] = some (A', B') ∧
    Discipline A.sym.cs.key A.sym.cs.n.toNat
      (chainG exSuite (exchangeWriters exSuite true A B [([1], 100, 10), ([], 300, 0), ([2, 3], 200, 5)]))
      A'.sym.cs.key A'.sym.cs.n.toNat := by
  obtain ⟨A, hA⟩ := ok_of_isOk xxI_builds
  obtain ⟨B, hB⟩ := ok_of_isOk xxR_builds
  obtain ⟨A', B', hex, _, hd, _⟩ :=
    built_exchange_no_reuse exSuite (Theorems.C18.toy_suite_encLen 0 0 0) (Theorems.C18.toy_suite_decEnc 0 0 0)
      (Theorems.C18.toy_suite_pubLen 0 0 0) (Theorems.C18.toy_suite_privTotal 0 0 0) (Theorems.C18.toy_suite_dhComm 0 0 0)
      (Theorems.C18.toy_suite_dhTotal 0 0 0) exAv xxI xxR xx_matching A B hA hB (by decide)
      { preI := [], preR := [], msgs := [[.e], [.e, .ee, .s, .es], [.s, .se]] } (by decide)
      [([1], 100, 10), ([], 300, 0), ([2, 3], 200, 5)] (by simp only [PlanOk]; decide)
  exact ⟨A, B, A', B', hA, hB, hex, hd⟩

end Ex

end SnowVerif.C06
