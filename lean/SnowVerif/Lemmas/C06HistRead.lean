/-
  C06 over histories, handshake read (`_read_message` / `read_message` of handshakestate.rs): the
  ghost log of one call (its `dec` events plus a marker for every key installation made by a
  token), its nonce discipline, and that its markers are HKDF outputs installed with nonce 0.
  Also: a call (read or write) whose ghost log has no installation marker leaves the tracked key
  `sym.k` and `has_key` as they were.
-/
import SnowVerif.Lemmas.C06HistLog
import SnowVerif.Lemmas.C06Write
import SnowVerif.Lemmas.C06Read
import SnowVerif.Lemmas.C14Read

namespace SnowVerif.C06
open SnowVerif SnowVerif.Model SnowVerif.Model.HS
set_option linter.unusedVariables false
set_option linter.unusedSimpArgs false

/-! ### Small facts about the shared token arms and the symmetric state -/

theorem dhStep_fail (S : Suite) (hs : HS) (t : Tok) (h : (dhStep S hs t).1 ≠ .ok ()) : (dhStep S hs t).2 = hs := by
  unfold dhStep at h ⊢
  repeat' split
  all_goals first | rfl | simp_all

theorem pskStep_fail (S : Suite) (hs : HS) (n : Nat) (h : (pskStep S hs n).1 ≠ .ok ()) : (pskStep S hs n).2 = hs := by
  unfold pskStep at h ⊢
  repeat' split
  all_goals first | rfl | simp_all

theorem dhStep_ok (S : Suite) (hs : HS) (t : Tok) (h : (dhStep S hs t).1 = .ok ()) :
    ∃ out, (dhStep S hs t).2 = { hs with sym := hs.sym.mixKey S out } := by
  unfold dhStep at h ⊢
  cases hd : hs.dh S t with
  | ok out => exact ⟨out, rfl⟩
  | err e => simp [hd] at h
  | panic q => simp [hd] at h

theorem pskStep_ok (S : Suite) (hs : HS) (n : Nat) (h : (pskStep S hs n).1 = .ok ()) :
    ∃ psk, (pskStep S hs n).2 = { hs with sym := hs.sym.mixKeyAndHash S psk } := by
  unfold pskStep at h ⊢
  by_cases c1 : n < 10
  · simp only [c1, ↓reduceIte] at h ⊢
    cases hp : hs.psks.getD n none with
    | none => rw [hp] at h; cases h
    | some psk => exact ⟨psk, rfl⟩
  · simp [c1] at h

theorem mixKey_kdf (S : Suite) (st : Sym) (d : Bytes) :
    (st.mixKey S d).cs.n = 0 ∧ IsKdfKey S st.ck (st.mixKey S d).cs.key :=
  ⟨rfl, d, Or.inl rfl⟩

theorem mixKeyAndHash_kdf (S : Suite) (st : Sym) (d : Bytes) :
    (st.mixKeyAndHash S d).cs.n = 0 ∧ IsKdfKey S st.ck (st.mixKeyAndHash S d).cs.key :=
  ⟨rfl, d, Or.inr rfl⟩

theorem sym_decrypt_k (S : Suite) (st : Sym) (d : Bytes) (cap : Nat) :
    (st.decryptAndMixHash S d cap).2.1.k = st.k ∧ (st.decryptAndMixHash S d cap).2.1.ck = st.ck := by
  unfold Sym.decryptAndMixHash
  simp only
  repeat' split
  all_goals exact ⟨rfl, rfl⟩

theorem sym_encrypt_k (S : Suite) (st : Sym) (pt : Bytes) (cap : Nat) :
    (st.encryptAndMixHash S pt cap).2.1.k = st.k ∧ (st.encryptAndMixHash S pt cap).2.1.ck = st.ck := by
  unfold Sym.encryptAndMixHash
  simp only
  repeat' split
  all_goals exact ⟨rfl, rfl⟩

theorem sym_decrypt_cs (S : Suite) (st : Sym) (d : Bytes) (cap : Nat) :
    (st.decryptAndMixHash S d cap).2.1.cs.key = st.cs.key ∧
    st.cs.n.toNat ≤ (st.decryptAndMixHash S d cap).2.1.cs.n.toNat := by
  have hf := decryptAd_facts S st.cs st.h d cap
  unfold Sym.decryptAndMixHash
  by_cases hk : st.hasKey = true
  · simp only [hk, ↓reduceIte]
    cases (st.cs.decryptAd S st.h d cap).1 <;> exact ⟨hf.1, hf.2.1⟩
  · simp only [hk, ↓reduceIte, Bool.false_eq_true]
    split <;> exact ⟨rfl, Nat.le_refl _⟩

theorem sym_decrypt_discipline (S : Suite) (st : Sym) (d : Bytes) (cap : Nat) :
    Discipline st.cs.key st.cs.n.toNat ((st.decryptAndMixHash S d cap).2.2.2.map .ev)
      (st.decryptAndMixHash S d cap).2.1.cs.key (st.decryptAndMixHash S d cap).2.1.cs.n.toNat := by
  obtain ⟨h1, h2⟩ := sym_decrypt_cs S st d cap
  rw [h1]
  exact (Discipline.of_quiet st.cs.key st.cs.n.toNat _ (sym_decrypt_no_enc S st d cap)).weaken_end h2

/-! ### One token of `_read_message` -/

/-- The events one token appends to the call's log. -/
def rtokEv (S : Suite) (r : RS) (t : Tok) : List Event := (readTok S r t).2.ev.drop r.ev.length

theorem rtokEv_of_eq {S : Suite} {r : RS} {t : Tok} {x : List Event}
    (h : (readTok S r t).2.ev = r.ev ++ x) : rtokEv S r t = x := by
  simp [rtokEv, h]

/-- The handshake cipher of a working state of a read. -/
abbrev rcs (r : RS) : CipherState := r.hs.sym.cs

/-- Everything C06 needs to know about one token of a read. -/
theorem readTok_facts (S : Suite) (r : RS) (t : Tok) :
    (readTok S r t).2.ev = r.ev ++ rtokEv S r t ∧
    NoEnc (rtokEv S r t) ∧
    ((installsTok r.hs.isPsk t = false ∨ (readTok S r t).1 ≠ .ok ()) →
      (rcs (readTok S r t).2).key = (rcs r).key ∧ (rcs r).n.toNat ≤ (rcs (readTok S r t).2).n.toNat ∧
      (readTok S r t).2.hs.sym.k = r.hs.sym.k ∧ (readTok S r t).2.hs.sym.hasKey = r.hs.sym.hasKey) ∧
    ((installsTok r.hs.isPsk t = true ∧ (readTok S r t).1 = .ok ()) →
      (rcs (readTok S r t).2).n = 0 ∧ IsKdfKey S r.hs.sym.ck (rcs (readTok S r t).2).key) := by
  have dhcase : ∀ t', (t' = .ee ∨ t' = .es ∨ t' = .se ∨ t' = .ss) →
      (readTok S r t').2.ev = r.ev ++ rtokEv S r t' ∧
      NoEnc (rtokEv S r t') ∧
      ((installsTok r.hs.isPsk t' = false ∨ (readTok S r t').1 ≠ .ok ()) →
        (rcs (readTok S r t').2).key = (rcs r).key ∧ (rcs r).n.toNat ≤ (rcs (readTok S r t').2).n.toNat ∧
        (readTok S r t').2.hs.sym.k = r.hs.sym.k ∧ (readTok S r t').2.hs.sym.hasKey = r.hs.sym.hasKey) ∧
      ((installsTok r.hs.isPsk t' = true ∧ (readTok S r t').1 = .ok ()) →
        (rcs (readTok S r t').2).n = 0 ∧ IsKdfKey S r.hs.sym.ck (rcs (readTok S r t').2).key) := by
    intro t' ht'
    have h1 : (readTok S r t').2.ev = r.ev ++ [] := by rw [readTok_dh_eq S r t' ht']; simp
    have hx := rtokEv_of_eq h1
    rw [hx]
    refine ⟨h1, NoEnc.nil, ?_, ?_⟩
    · intro hh
      have hfail : (readTok S r t').1 ≠ .ok () := by
        rcases hh with hh | hh
        · rcases ht' with rfl | rfl | rfl | rfl <;> simp [installsTok] at hh
        · exact hh
      rw [readTok_dh_eq S r t' ht'] at hfail ⊢
      simp only [rcs]
      rw [dhStep_fail S r.hs t' hfail]
      exact ⟨rfl, Nat.le_refl _, rfl, rfl⟩
    · rintro ⟨_, hok⟩
      rw [readTok_dh_eq S r t' ht'] at hok ⊢
      obtain ⟨out, ho⟩ := dhStep_ok S r.hs t' hok
      simp only [rcs, ho]
      exact mixKey_kdf S r.hs.sym out
  cases t with
  | e =>
    rw [readTok_e_eq]
    by_cases c1 : r.ptr.length < S.pubLen
    · have h1 : (readTok S r .e).2.ev = r.ev ++ [] := by rw [readTok_e_eq]; simp [c1]
      have hx := rtokEv_of_eq h1
      rw [hx]
      simp only [c1, ↓reduceIte]
      exact ⟨by simp, NoEnc.nil, fun _ => ⟨rt, rt, rt, rt⟩, fun h => by simp at h⟩
    · have h1 : (readTok S r .e).2.ev = r.ev ++ [] := by rw [readTok_e_eq]; simp [c1]
      have hx := rtokEv_of_eq h1
      rw [hx]
      simp only [c1, ↓reduceIte]
      refine ⟨by simp, NoEnc.nil, ?_, ?_⟩
      · intro hh
        rcases hh with hh | hh
        · simp only [installsTok] at hh
          simp only [rcs, hh, Bool.false_eq_true, ↓reduceIte, Sym.mixHash]
          exact ⟨rt, rt, rt, rt⟩
        · exact absurd rfl hh
      · rintro ⟨hi, _⟩
        simp only [installsTok] at hi
        simp only [rcs, hi, ↓reduceIte]
        have := mixKey_kdf S (r.hs.sym.mixHash S (r.ptr.take S.pubLen)) (r.ptr.take S.pubLen)
        exact this
  | s =>
    by_cases c : r.ptr.length < S.pubLen + (if r.hs.sym.hasKey = true then 16 else 0)
    · have heq := (readTok_s_facts S r).1 c
      have h1 : (readTok S r .s).2.ev = r.ev ++ [] := by rw [heq]; simp
      have hx := rtokEv_of_eq h1
      rw [hx, heq]
      exact ⟨by simp, NoEnc.nil, fun _ => ⟨rfl, Nat.le_refl _, rfl, rfl⟩, fun h => by simp at h⟩
    · have h1 : (readTok S r .s).2.ev = r.ev ++
          (r.hs.sym.decryptAndMixHash S (r.ptr.take (S.pubLen + (if r.hs.sym.hasKey = true then 16 else 0))) S.pubLen).2.2.2 := by
        simp only [readTok, c, ↓reduceIte]
      have hx := rtokEv_of_eq h1
      rw [hx]
      refine ⟨h1, sym_decrypt_no_enc S _ _ _, ?_, ?_⟩
      · intro _
        have hsym : (readTok S r .s).2.hs.sym =
            (r.hs.sym.decryptAndMixHash S (r.ptr.take (S.pubLen + (if r.hs.sym.hasKey = true then 16 else 0))) S.pubLen).2.1 := by
          simp only [readTok, c, ↓reduceIte]
        simp only [rcs, hsym]
        exact ⟨(sym_decrypt_cs S _ _ _).1, (sym_decrypt_cs S _ _ _).2, (sym_decrypt_k S _ _ _).1,
          Sym.decrypt_hasKey S _ _ _⟩
      · rintro ⟨hi, _⟩
        simp [installsTok] at hi
  | psk n =>
    have h1 : (readTok S r (.psk n)).2.ev = r.ev ++ [] := by rw [readTok_psk_eq]; simp
    have hx := rtokEv_of_eq h1
    rw [hx]
    refine ⟨h1, NoEnc.nil, ?_, ?_⟩
    · intro hh
      have hfail : (readTok S r (.psk n)).1 ≠ .ok () := by
        rcases hh with hh | hh
        · simp [installsTok] at hh
        · exact hh
      rw [readTok_psk_eq] at hfail ⊢
      simp only [rcs]
      rw [pskStep_fail S r.hs n hfail]
      exact ⟨rfl, Nat.le_refl _, rfl, rfl⟩
    · rintro ⟨_, hok⟩
      rw [readTok_psk_eq] at hok ⊢
      obtain ⟨psk, ho⟩ := pskStep_ok S r.hs n hok
      simp only [rcs, ho]
      exact mixKeyAndHash_kdf S r.hs.sym psk
  | ee => exact dhcase _ (by simp)
  | es => exact dhcase _ (by simp)
  | se => exact dhcase _ (by simp)
  | ss => exact dhcase _ (by simp)

/-- Ghost log of one token of a read. -/
def rtokG (S : Suite) (r : RS) (t : Tok) : List GEv :=
  (rtokEv S r t).map .ev ++
  (if installsTok r.hs.isPsk t && (readTok S r t).1.isOk then
     [.install (rcs (readTok S r t).2).key (rcs (readTok S r t).2).n] else [])

theorem erase_rtokG (S : Suite) (r : RS) (t : Tok) : erase (rtokG S r t) = rtokEv S r t := by
  unfold rtokG
  rw [erase_append, erase_map_ev]
  split <;> simp [erase]

theorem rtokG_cases (S : Suite) (r : RS) (t : Tok) :
    ((installsTok r.hs.isPsk t = true ∧ (readTok S r t).1 = .ok ()) ∧
      rtokG S r t = (rtokEv S r t).map .ev ++ [.install (rcs (readTok S r t).2).key (rcs (readTok S r t).2).n]) ∨
    ((installsTok r.hs.isPsk t = false ∨ (readTok S r t).1 ≠ .ok ()) ∧ rtokG S r t = (rtokEv S r t).map .ev) := by
  unfold rtokG
  by_cases c : (installsTok r.hs.isPsk t && (readTok S r t).1.isOk) = true
  · simp only [c, ↓reduceIte]
    simp only [Bool.and_eq_true] at c
    exact Or.inl ⟨⟨c.1, (isOk_unit _).mp c.2⟩, rt⟩
  · simp only [c, ↓reduceIte, List.append_nil, Bool.false_eq_true]
    right
    refine ⟨?_, rt⟩
    cases hi : installsTok r.hs.isPsk t with
    | false => exact Or.inl rfl
    | true =>
      right
      intro hok
      apply c
      simp [hi, hok, Res.isOk]

theorem rtokG_discipline (S : Suite) (r : RS) (t : Tok) :
    Discipline (rcs r).key (rcs r).n.toNat (rtokG S r t)
      (rcs (readTok S r t).2).key (rcs (readTok S r t).2).n.toNat := by
  obtain ⟨_, h2, h3, _⟩ := readTok_facts S r t
  rcases rtokG_cases S r t with ⟨_, he⟩ | ⟨hc, he⟩
  · rw [he]
    exact (Discipline.of_quiet _ _ _ h2).append (Discipline.refl _ _)
  · rw [he]
    obtain ⟨k1, k2, _, _⟩ := h3 hc
    rw [k1]
    exact (Discipline.of_quiet _ _ _ h2).weaken_end k2

/-- Every installation marker of a read token is a real installation: an HKDF output computed
    from the chaining key the token found, installed with nonce 0. -/
theorem rtokG_install (S : Suite) (r : RS) (t : Tok) (key : Bytes) (nn : UInt64)
    (h : GEv.install key nn ∈ rtokG S r t) : nn = 0 ∧ IsKdfKey S r.hs.sym.ck key := by
  obtain ⟨_, _, _, h4⟩ := readTok_facts S r t
  rcases rtokG_cases S r t with ⟨hc, he⟩ | ⟨_, he⟩
  · rw [he] at h
    simp only [List.mem_append, List.mem_map, reduceCtorEq, and_false, exists_false, List.mem_singleton,
      GEv.install.injEq, false_or] at h
    obtain ⟨rfl, rfl⟩ := h
    exact h4 hc
  · rw [he] at h
    simp at h

/-- A token whose ghost log has no marker leaves the tracked key and `has_key` alone. -/
theorem rtokG_noInst (S : Suite) (r : RS) (t : Tok) (h : NoInst (rtokG S r t)) :
    (readTok S r t).2.hs.sym.k = r.hs.sym.k ∧ (readTok S r t).2.hs.sym.hasKey = r.hs.sym.hasKey := by
  obtain ⟨_, _, h3, _⟩ := readTok_facts S r t
  rcases rtokG_cases S r t with ⟨_, he⟩ | ⟨hc, _⟩
  · rw [he] at h
    have := h _ (List.mem_append_right _ List.mem_cons_self)
    simp [GEv.isInst] at this
  · exact (h3 hc).2.2

/-! ### The token loop and the whole call -/

/-- Ghost log of the token loop of a read. -/
def rtoksG (S : Suite) : List Tok → RS → List GEv
  | [], _ => []
  | t :: ts, r =>
    rtokG S r t ++
      (match (readTok S r t).1 with
       | .ok () => rtoksG S ts (readTok S r t).2
       | _ => [])

theorem readToks_ev (S : Suite) (ts : List Tok) (r : RS) :
    (readToks S ts r).2.ev = r.ev ++ erase (rtoksG S ts r) := by
  induction ts generalizing r with
  | nil => simp [readToks, rtoksG, erase]
  | cons t ts ih =>
    have h1 := (readTok_facts S r t).1
    unfold readToks rtoksG
    rw [erase_append, erase_rtokG]
    cases hr : (readTok S r t).1 with
    | ok u => cases u; simp only; rw [ih, h1, List.append_assoc]
    | err e => simp only [erase, List.append_nil]; exact h1
    | panic q => simp only [erase, List.append_nil]; exact h1

theorem rtoksG_discipline (S : Suite) (ts : List Tok) (r : RS) :
    Discipline (rcs r).key (rcs r).n.toNat (rtoksG S ts r)
      (rcs (readToks S ts r).2).key (rcs (readToks S ts r).2).n.toNat := by
  induction ts generalizing r with
  | nil => exact Discipline.refl _ _
  | cons t ts ih =>
    have h1 := rtokG_discipline S r t
    unfold readToks rtoksG
    cases hr : (readTok S r t).1 with
    | ok u => cases u; simp only; exact h1.append (ih _)
    | err e => simp only [List.append_nil]; exact h1
    | panic q => simp only [List.append_nil]; exact h1

theorem rtoksG_install (S : Suite) (ts : List Tok) (r : RS) (key : Bytes) (nn : UInt64)
    (h : GEv.install key nn ∈ rtoksG S ts r) : nn = 0 ∧ ∃ ck, IsKdfKey S ck key := by
  induction ts generalizing r with
  | nil => simp [rtoksG] at h
  | cons t ts ih =>
    unfold rtoksG at h
    rw [List.mem_append] at h
    rcases h with h | h
    · have := rtokG_install S r t key nn h
      exact ⟨this.1, _, this.2⟩
    · cases hr : (readTok S r t).1 with
      | ok u => cases u; simp only [hr] at h; exact ih _ h
      | err e => simp [hr] at h
      | panic q => simp [hr] at h

theorem rtoksG_noInst (S : Suite) (ts : List Tok) (r : RS) (h : NoInst (rtoksG S ts r)) :
    (readToks S ts r).2.hs.sym.k = r.hs.sym.k ∧ (readToks S ts r).2.hs.sym.hasKey = r.hs.sym.hasKey := by
  induction ts generalizing r with
  | nil => exact ⟨rfl, rfl⟩
  | cons t ts ih =>
    unfold rtoksG at h
    have h1 := rtokG_noInst S r t h.left
    unfold readToks
    cases hr : (readTok S r t).1 with
    | ok u =>
      cases u
      simp only [hr] at h ⊢
      have h2 := ih _ h.right
      exact ⟨h2.1.trans h1.1, h2.2.trans h1.2⟩
    | err e => exact h1
    | panic q => exact h1

/-- The working state `_read_message` starts from. -/
abbrev r0 (hs : HS) (m : Bytes) : RS := { hs := hs, ptr := m, ev := [] }

/-- The events of the payload decryption of `_read_message`, if it is reached. -/
def rpayloadEv (S : Suite) (hs : HS) (m : Bytes) (cap : Nat) : List Event :=
  let L := readToks S (curToks hs) (r0 hs m)
  match L.1 with
  | .ok () => (L.2.hs.sym.decryptAndMixHash S L.2.ptr cap).2.2.2
  | _ => []

/-- Ghost log of one `_read_message` / `read_message` call. -/
def readG (S : Suite) (hs : HS) (m : Bytes) (cap : Nat) : List GEv :=
  if m.length > 65535 then [] else if hs.myTurn then [] else if hs.pos ≥ hs.msgs.length then []
  else rtoksG S (curToks hs) (r0 hs m) ++ (rpayloadEv S hs m cap).map .ev

/-- The events `_read_message` returns are the ghost log with the markers erased; the ghost log
    is disciplined from the cipher state before the call to the one `_read_message` leaves; a
    ghost log without markers means the tracked key and `has_key` were not touched. -/
theorem readInner_G (S : Suite) (hs : HS) (m : Bytes) (cap : Nat) :
    (readInner S hs m cap).2.2.2 = erase (readG S hs m cap) ∧
    Discipline hs.sym.cs.key hs.sym.cs.n.toNat (readG S hs m cap)
      (readInner S hs m cap).2.1.sym.cs.key (readInner S hs m cap).2.1.sym.cs.n.toNat ∧
    (NoInst (readG S hs m cap) →
      (readInner S hs m cap).2.1.sym.k = hs.sym.k ∧ (readInner S hs m cap).2.1.sym.hasKey = hs.sym.hasKey) := by
  have hev := readToks_ev S (curToks hs) (r0 hs m)
  have hd := rtoksG_discipline S (curToks hs) (r0 hs m)
  have hk := rtoksG_noInst S (curToks hs) (r0 hs m)
  simp only [List.nil_append] at hev
  unfold readInner readG rpayloadEv
  simp only
  by_cases c0 : m.length > 65535
  · simp only [c0, ↓reduceIte, erase]; exact ⟨rt, Discipline.refl _ _, fun _ => ⟨rt, rt⟩⟩
  · simp only [c0, ↓reduceIte]
    by_cases c1 : hs.myTurn = true
    · simp only [c1, ↓reduceIte, erase]; exact ⟨rt, Discipline.refl _ _, fun _ => ⟨rt, rt⟩⟩
    · simp only [c1, ↓reduceIte, Bool.false_eq_true]
      by_cases c2 : hs.pos ≥ hs.msgs.length
      · simp only [c2, ↓reduceIte, erase]; exact ⟨rt, Discipline.refl _ _, fun _ => ⟨rt, rt⟩⟩
      · simp only [c2, ↓reduceIte]
        generalize hL : readToks S (hs.msgs.getD hs.pos []) { hs := hs, ptr := m, ev := [] } = L at hev hd hk ⊢
        rw [erase_append, erase_map_ev]
        cases hL1 : L.1 with
        | err e =>
          simp only [List.append_nil, List.map_nil]
          exact ⟨hev, hd, hk⟩
        | panic q =>
          simp only [List.append_nil, List.map_nil]
          exact ⟨hev, hd, hk⟩
        | ok u =>
          cases u
          simp only
          have hp := sym_decrypt_discipline S L.2.hs.sym L.2.ptr cap
          have hkk := sym_decrypt_k S L.2.hs.sym L.2.ptr cap
          have hhk := Sym.decrypt_hasKey S L.2.hs.sym L.2.ptr cap
          have hkf : NoInst (rtoksG S (hs.msgs.getD hs.pos []) (r0 hs m) ++
              List.map GEv.ev (L.2.hs.sym.decryptAndMixHash S L.2.ptr cap).2.2.2) →
              (L.2.hs.sym.decryptAndMixHash S L.2.ptr cap).2.1.k = hs.sym.k ∧
              (L.2.hs.sym.decryptAndMixHash S L.2.ptr cap).2.1.hasKey = hs.sym.hasKey := by
            intro hn
            have := hk hn.left
            exact ⟨hkk.1.trans this.1, hhk.trans this.2⟩
          cases hE : (L.2.hs.sym.decryptAndMixHash S L.2.ptr cap).1 with
          | err e => exact ⟨by rw [hev], hd.append hp, hkf⟩
          | panic q => exact ⟨by rw [hev], hd.append hp, hkf⟩
          | ok pl =>
            refine ⟨by rw [hev], ?_, ?_⟩
            · dsimp only
              by_cases c5 : (hs.pos == hs.msgs.length - 1) = true
              · simp only [c5, ↓reduceIte]; exact hd.append hp
              · simp only [c5, ↓reduceIte, Bool.false_eq_true]; exact hd.append hp
            · dsimp only
              by_cases c5 : (hs.pos == hs.msgs.length - 1) = true
              · simp only [c5, ↓reduceIte]; exact hkf
              · simp only [c5, ↓reduceIte, Bool.false_eq_true]; exact hkf

/-- `read_message` returns the events of `_read_message` on every outcome. -/
theorem readMessage_ev (S : Suite) (hs : HS) (m : Bytes) (cap : Nat) :
    (hs.readMessage S m cap).2.2.2 = (readInner S hs m cap).2.2.2 := by
  unfold readMessage
  simp only
  cases (readInner S hs m cap).1 <;> rfl

theorem readMessage_res (S : Suite) (hs : HS) (m : Bytes) (cap : Nat) :
    (hs.readMessage S m cap).1 = (readInner S hs m cap).1 := by
  unfold readMessage
  simp only
  cases (readInner S hs m cap).1 <;> rfl

theorem readG_install (S : Suite) (hs : HS) (m : Bytes) (cap : Nat) (key : Bytes) (nn : UInt64)
    (h : GEv.install key nn ∈ readG S hs m cap) : nn = 0 ∧ ∃ ck, IsKdfKey S ck key := by
  unfold readG at h
  by_cases c0 : m.length > 65535
  · simp [c0] at h
  · by_cases c1 : hs.myTurn = true
    · simp [c0, c1] at h
    · by_cases c2 : hs.pos ≥ hs.msgs.length
      · simp [c0, c1, c2] at h
      · simp only [c0, c1, c2, ↓reduceIte, List.mem_append, List.mem_map, reduceCtorEq, and_false, exists_false,
          or_false, Bool.false_eq_true] at h
        exact rtoksG_install S _ _ key nn h

/-- A read attempted while it is this party's turn to write logs nothing. -/
theorem readG_myTurn (S : Suite) (hs : HS) (m : Bytes) (cap : Nat) (h : hs.myTurn = true) : readG S hs m cap = [] := by
  unfold readG
  by_cases c0 : m.length > 65535
  · simp [c0]
  · simp [c0, h]

/-! ### The write side: a ghost log without markers leaves `sym.k` and `has_key` alone -/

theorem tokG_cases (S : Suite) (cap : Nat) (w : WS) (t : Tok) :
    ((installsTok w.hs.isPsk t = true ∧ (writeTok S cap w t).1 = .ok ()) ∧
      tokG S cap w t = (tokEv S cap w t).map .ev ++ [.install (wcs (writeTok S cap w t).2).key (wcs (writeTok S cap w t).2).n]) ∨
    ((installsTok w.hs.isPsk t = false ∨ (writeTok S cap w t).1 ≠ .ok ()) ∧ tokG S cap w t = (tokEv S cap w t).map .ev) := by
  unfold tokG
  by_cases c : (installsTok w.hs.isPsk t && (writeTok S cap w t).1.isOk) = true
  · simp only [c, ↓reduceIte]
    simp only [Bool.and_eq_true] at c
    exact Or.inl ⟨⟨c.1, (isOk_unit _).mp c.2⟩, rt⟩
  · simp only [c, ↓reduceIte, List.append_nil, Bool.false_eq_true]
    right
    refine ⟨?_, rt⟩
    cases hi : installsTok w.hs.isPsk t with
    | false => exact Or.inl rfl
    | true =>
      right
      intro hok
      apply c
      simp [hi, hok, Res.isOk]

/-- A write token that does not install (or fails) leaves the tracked key, `has_key` and the
    chaining key alone. -/
theorem writeTok_kframe (S : Suite) (cap : Nat) (w : WS) (t : Tok)
    (h : installsTok w.hs.isPsk t = false ∨ (writeTok S cap w t).1 ≠ .ok ()) :
    (writeTok S cap w t).2.hs.sym.k = w.hs.sym.k ∧ (writeTok S cap w t).2.hs.sym.hasKey = w.hs.sym.hasKey := by
  have dhcase : ∀ t', (t' = .ee ∨ t' = .es ∨ t' = .se ∨ t' = .ss) →
      (installsTok w.hs.isPsk t' = false ∨ (writeTok S cap w t').1 ≠ .ok ()) →
      (writeTok S cap w t').2.hs.sym.k = w.hs.sym.k ∧ (writeTok S cap w t').2.hs.sym.hasKey = w.hs.sym.hasKey := by
    intro t' ht' hh
    have hfail : (writeTok S cap w t').1 ≠ .ok () := by
      rcases hh with hh | hh
      · rcases ht' with rfl | rfl | rfl | rfl <;> simp [installsTok] at hh
      · exact hh
    rw [writeTok_dh_eq S cap w t' ht'] at hfail ⊢
    simp only
    rw [dhStep_fail S w.hs t' hfail]
    exact ⟨rfl, rfl⟩
  cases t with
  | e =>
    rw [writeTok_e_eq] at h ⊢
    by_cases c1 : w.acc.length + S.pubLen > cap
    · simp only [c1, ↓reduceIte]; exact ⟨rt, rt⟩
    · simp only [c1, ↓reduceIte] at h ⊢
      cases hf : w.hs.fixedE with
      | true =>
        simp only [hf, ↓reduceIte] at h ⊢
        rcases h with h | h
        · simp only [installsTok] at h
          simp only [eStep, h, Bool.false_eq_true, ↓reduceIte, Sym.mixHash]
          exact ⟨rt, rt⟩
        · exact absurd rfl h
      | false =>
        simp only [hf, Bool.false_eq_true, ↓reduceIte] at h ⊢
        by_cases c2 : S.validPriv (rngDraw w.hs.rng S.privLen).1 = true
        · simp only [c2, ↓reduceIte] at h ⊢
          rcases h with h | h
          · simp only [installsTok] at h
            simp only [eStep, h, Bool.false_eq_true, ↓reduceIte, Sym.mixHash]
            exact ⟨rt, rt⟩
          · exact absurd rfl h
        · simp only [c2, ↓reduceIte, Bool.false_eq_true]; exact ⟨rt, rt⟩
  | s =>
    rw [writeTok_s_eq]
    by_cases c1 : (!w.hs.s.on) = true
    · simp only [c1, ↓reduceIte]; exact ⟨rt, rt⟩
    · simp only [c1, ↓reduceIte, Bool.false_eq_true]
      by_cases c2 : w.acc.length + S.pubLen + (if w.hs.sym.hasKey = true then 16 else 0) > cap
      · simp only [c2, ↓reduceIte]; exact ⟨rt, rt⟩
      · simp only [c2, ↓reduceIte]
        exact ⟨(sym_encrypt_k S _ _ _).1, Sym.encrypt_hasKey S _ _ _⟩
  | psk n =>
    have hfail : (writeTok S cap w (.psk n)).1 ≠ .ok () := by
      rcases h with h | h
      · simp [installsTok] at h
      · exact h
    rw [writeTok_psk_eq] at hfail ⊢
    simp only
    rw [pskStep_fail S w.hs n hfail]
    exact ⟨rfl, rfl⟩
  | ee => exact dhcase _ (by simp) h
  | es => exact dhcase _ (by simp) h
  | se => exact dhcase _ (by simp) h
  | ss => exact dhcase _ (by simp) h

theorem tokG_noInst (S : Suite) (cap : Nat) (w : WS) (t : Tok) (h : NoInst (tokG S cap w t)) :
    installsTok w.hs.isPsk t = false ∨ (writeTok S cap w t).1 ≠ .ok () := by
  rcases tokG_cases S cap w t with ⟨_, he⟩ | ⟨hc, _⟩
  · rw [he] at h
    have := h _ (List.mem_append_right _ List.mem_cons_self)
    simp [GEv.isInst] at this
  · exact hc

theorem toksG_noInst (S : Suite) (cap : Nat) (ts : List Tok) (w : WS) (h : NoInst (toksG S cap ts w)) :
    (writeToks S cap ts w).2.hs.sym.k = w.hs.sym.k ∧ (writeToks S cap ts w).2.hs.sym.hasKey = w.hs.sym.hasKey := by
  induction ts generalizing w with
  | nil => exact ⟨rfl, rfl⟩
  | cons t ts ih =>
    unfold toksG at h
    have h1 := writeTok_kframe S cap w t (tokG_noInst S cap w t h.left)
    unfold writeToks
    cases hr : (writeTok S cap w t).1 with
    | ok u =>
      cases u
      simp only [hr] at h ⊢
      have h2 := ih _ h.right
      exact ⟨h2.1.trans h1.1, h2.2.trans h1.2⟩
    | err e => exact h1
    | panic q => exact h1

/-- A `_write_message` whose ghost log has no marker leaves the tracked key and `has_key` alone. -/
theorem writeInner_noInst (S : Suite) (hs : HS) (p : Bytes) (cap : Nat) (h : NoInst (writeG S hs p cap)) :
    (writeInner S hs p cap).2.hs.sym.k = hs.sym.k ∧ (writeInner S hs p cap).2.hs.sym.hasKey = hs.sym.hasKey := by
  have hk := toksG_noInst S cap (curToks hs) (w0 hs)
  unfold writeG at h
  unfold writeInner
  simp only
  by_cases c1 : (!hs.myTurn) = true
  · simp only [c1, ↓reduceIte]; exact ⟨rt, rt⟩
  · simp only [c1, ↓reduceIte, Bool.false_eq_true] at h ⊢
    by_cases c2 : hs.pos ≥ hs.msgs.length
    · simp only [c2, ↓reduceIte]; exact ⟨rt, rt⟩
    · simp only [c2, ↓reduceIte] at h ⊢
      have hk' := hk h.left
      generalize hL : writeToks S cap (hs.msgs.getD hs.pos []) { hs := hs, acc := [], ev := [] } = L at hk' ⊢
      cases hL1 : L.1 with
      | err e => exact hk'
      | panic q => exact hk'
      | ok u =>
        cases u
        simp only
        by_cases c3 : L.2.acc.length + p.length + 16 > cap
        · simp only [c3, ↓reduceIte]; exact hk'
        · simp only [c3, ↓reduceIte]
          by_cases c4 : L.2.acc.length + p.length + (if L.2.hs.sym.hasKey = true then 16 else 0) > 65535
          · simp only [c4, ↓reduceIte]; exact hk'
          · simp only [c4, ↓reduceIte]
            have hkk := (sym_encrypt_k S L.2.hs.sym p (cap - L.2.acc.length)).1
            have hhk := Sym.encrypt_hasKey S L.2.hs.sym p (cap - L.2.acc.length)
            cases hE : (L.2.hs.sym.encryptAndMixHash S p (cap - L.2.acc.length)).1 with
            | err e => exact ⟨hkk.trans hk'.1, hhk.trans hk'.2⟩
            | panic q => exact ⟨hkk.trans hk'.1, hhk.trans hk'.2⟩
            | ok ct =>
              dsimp only
              by_cases c5 : (L.2.hs.pos == L.2.hs.msgs.length - 1) = true
              · simp only [c5, ↓reduceIte]; exact ⟨hkk.trans hk'.1, hhk.trans hk'.2⟩
              · simp only [c5, ↓reduceIte, Bool.false_eq_true]; exact ⟨hkk.trans hk'.1, hhk.trans hk'.2⟩

end SnowVerif.C06
