/-
  C01 (state-machine part): the state `Builder::build` returns is the abstraction-preimage of
  the specification's `Initialize`.
-/
import SnowVerif.Lemmas.C01Inv
import SnowVerif.Lemmas.C12Props

namespace SnowVerif.C01
open SnowVerif SnowVerif.Model SnowVerif.Model.HS SnowVerif.Bytes SnowVerif.Lemmas.C12
set_option linter.unusedVariables false
set_option linter.unusedSimpArgs false

/-- The public keys the specification's `Initialize` sees for one party: the local key pairs'
    public keys (`mine`) or the remote public keys. -/
def preS (mine : Bool) (s : Toggle Model.KeyPair) (rs : Toggle Bytes) : Option Bytes :=
  if mine then (absTK s).map (·.pub) else absTB rs

/-- **The pre-message loop of `HandshakeState::new` is the specification's**: for a pre-message
    consisting of `s` tokens (all rows of the table: `base_shape`), a successful loop hashes
    exactly the public keys the specification lists, in order. (`[..pub_len]` slicing of the
    remote key is the identity when the key has `pub_len` bytes.) -/
theorem mixPremsg_abs (S : Suite) (isPsk : Bool) (mine : Bool) (s e : Toggle Model.KeyPair)
    (rs re : Toggle Bytes) (toks : List Tok) (sym sym' : Sym)
    (hall : ∀ t ∈ toks, t = Tok.s) (hrs : rs.val.take S.pubLen = rs.val)
    (h : mixPremsg S mine s e rs re toks sym = .ok sym') :
    ∃ ks, Spec.HandshakeState.preKeys (preS mine s rs) (preS mine e re) toks = some ks ∧
      absSym sym' = Spec.HandshakeState.mixPre S isPsk (absSym sym) ks := by
  induction toks generalizing sym with
  | nil =>
    simp only [mixPremsg, Res.ok.injEq] at h
    subst h
    exact ⟨[], rfl, rfl⟩
  | cons t ts ih =>
    have ht : t = Tok.s := hall t (by simp)
    subst ht
    have hall' : ∀ t ∈ ts, t = Tok.s := fun t ht => hall t (by simp [ht])
    cases mine with
    | true =>
      simp only [mixPremsg] at h
      cases hon : s.on with
      | false => simp [hon] at h
      | true =>
        simp only [hon, ↓reduceIte] at h
        obtain ⟨ks, k1, k2⟩ := ih _ hall' h
        refine ⟨(s.val.pub, false) :: ks, ?_, ?_⟩
        · simp only [Spec.HandshakeState.preKeys, k1]
          simp only [preS, absTK, hon, ↓reduceIte, Option.map_some, absKP]
        · rw [k2]
          simp only [Spec.HandshakeState.mixPre, Bool.false_and, Bool.false_eq_true, ↓reduceIte]
          rfl
    | false =>
      simp only [mixPremsg] at h
      cases hon : rs.on with
      | false => simp [hon] at h
      | true =>
        simp only [hon, ↓reduceIte, hrs] at h
        obtain ⟨ks, k1, k2⟩ := ih _ hall' h
        refine ⟨(rs.val, false) :: ks, ?_, ?_⟩
        · simp only [Spec.HandshakeState.preKeys, k1]
          simp only [preS, absTB, hon, ↓reduceIte, Option.map_some, Bool.false_eq_true]
        · rw [k2]
          simp only [Spec.HandshakeState.mixPre, Bool.false_and, Bool.false_eq_true, ↓reduceIte]
          rfl

theorem absTK_builtS (S : Suite) (c : BuildCfg) :
    absTK (builtS S c) = c.s.map fun k => ({ priv := k, pub := S.pubOf k } : Spec.KeyPair) := by
  unfold builtS absTK
  cases c.s <;> rfl

theorem absTK_builtE (S : Suite) (c : BuildCfg) : absTK (builtE S c) = none := by
  unfold builtE absTK
  cases c.eFixed <;> rfl

theorem absTB_builtRs (S : Suite) (c : BuildCfg) : absTB (builtRs S c) = c.rs := by
  unfold builtRs absTB
  cases c.rs <;> rfl

/-- What a successful `build` implies about the checks of `Builder::build`. -/
theorem build_checks (S : Suite) (av : Avail) (c : BuildCfg) (hs : HS) (h : build S av c = .ok hs) :
    (c.s.isNone && needsLocalStatic c.pattern c.initiator) = false ∧
    (c.rs.isNone && needKnownRemote c.pattern c.initiator) = false ∧
    lensBad S c = false := by
  rw [build_eq] at h
  by_cases h1 : (c.s.isNone && needsLocalStatic c.pattern c.initiator) = true
  · rw [if_pos h1] at h; cases h
  rw [if_neg h1] at h
  by_cases h2 : (c.rs.isNone && needKnownRemote c.pattern c.initiator) = true
  · rw [if_pos h2] at h; cases h
  rw [if_neg h2] at h
  by_cases h3 : (!av.rng) = true
  · rw [if_pos h3] at h; cases h
  rw [if_neg h3] at h
  by_cases h4 : (!av.cipher) = true
  · rw [if_pos h4] at h; cases h
  rw [if_neg h4] at h
  by_cases h5 : (!av.hash) = true
  · rw [if_pos h5] at h; cases h
  rw [if_neg h5] at h
  by_cases h6 : (!av.dh) = true
  · rw [if_pos h6] at h; cases h
  rw [if_neg h6] at h
  by_cases h7 : lensBad S c = true
  · rw [if_pos h7] at h; cases h
  exact ⟨by simpa using h1, by simpa using h2, by simpa using h7⟩

theorem builtRs_take (S : Suite) (c : BuildCfg) (hl : lensBad S c = false) :
    (builtRs S c).val.take S.pubLen = (builtRs S c).val := by
  apply List.take_of_length_le
  unfold builtRs
  cases hrs : c.rs with
  | none => simp [zeros]
  | some v =>
    simp only [lensBad, hrs, Bool.or_eq_false_iff, bne_eq_false_iff_eq] at hl
    simp only [hl.2]
    exact Nat.le_refl _

/-- **`Builder::build` refines `Initialize`.** -/
theorem builtState_abs (S : Suite) (av : Avail) (c : BuildCfg) (hs : HS) (h : build S av c = .ok hs) :
    Spec.HandshakeState.init S c.name c.prologue
      { preI := c.pattern.tokens.preI, preR := c.pattern.tokens.preR, msgs := hs.msgs }
      hs.isPsk c.initiator
      (c.s.map fun k => ({ priv := k, pub := S.pubOf k } : Spec.KeyPair)) none c.rs none c.psks
      = some (absHS hs) := by
  obtain ⟨h1, h2, hl⟩ := build_checks S av c hs h
  have hst := build_ok_state S av c hs h
  subst hst
  have hs_on : (builtS S c).on = c.s.isSome := by unfold builtS; cases c.s <;> rfl
  have hrs_on : (builtRs S c).on = c.rs.isSome := by unfold builtRs; cases c.rs <;> rfl
  have hsh := base_shape c.pattern
  have htk := builtRs_take S c hl
  have own := fun sym => mix_own_ok S c.pattern c.initiator c.s (builtS S c) (builtE S c) (builtRs S c)
    { val := zeros S.pubLen, on := false } sym h1 hs_on
  have peer := fun sym => mix_peer_ok S c.pattern c.initiator c.rs (builtS S c) (builtE S c) (builtRs S c)
    { val := zeros S.pubLen, on := false } sym h2 hrs_on
  have hre : absTB ({ val := zeros S.pubLen, on := false } : Toggle Bytes) = none := rfl
  unfold Spec.HandshakeState.init
  cases hini : c.initiator with
  | true =>
    simp only [hini, ownPre, peerPre, ↓reduceIte] at own peer
    obtain ⟨a, a1, a2⟩ := mixPremsg_abs S (builtState S c).isPsk true _ _ _ _ _ _ _ hsh.1 htk
      (own ((Sym.init S c.name).mixHash S c.prologue))
    obtain ⟨b, b1, b2⟩ := mixPremsg_abs S (builtState S c).isPsk false _ _ _ _ _ _ _ hsh.2.1 htk
      (peer (premix S (builtS S c).val.pub c.pattern.tokens.preI ((Sym.init S c.name).mixHash S c.prologue)))
    simp only [preS, ↓reduceIte, Bool.false_eq_true, absTK_builtS, absTK_builtE, absTB_builtRs, hre,
      Option.map_none] at a1 b1
    simp only [↓reduceIte, Option.map_none, a1, b1]
    rw [a2] at b2
    have e0 : absSym ((Sym.init S c.name).mixHash S c.prologue) =
        (Spec.SymmetricState.init S c.name).mixHash S c.prologue := rfl
    rw [e0] at b2
    rw [← b2]
    simp only [builtState, hsState, absHS, premixBoth, hini, ↓reduceIte, absTK_builtS, absTK_builtE,
      absTB_builtRs, hre, htk, List.drop_zero]
  | false =>
    simp only [hini, ownPre, peerPre, Bool.false_eq_true, ↓reduceIte] at own peer
    obtain ⟨a, a1, a2⟩ := mixPremsg_abs S (builtState S c).isPsk false _ _ _ _ _ _ _ hsh.1 htk
      (peer ((Sym.init S c.name).mixHash S c.prologue))
    obtain ⟨b, b1, b2⟩ := mixPremsg_abs S (builtState S c).isPsk true _ _ _ _ _ _ _ hsh.2.1 htk
      (own (premix S ((builtRs S c).val.take S.pubLen) c.pattern.tokens.preI ((Sym.init S c.name).mixHash S c.prologue)))
    simp only [preS, ↓reduceIte, Bool.false_eq_true, absTK_builtS, absTK_builtE, absTB_builtRs, hre,
      Option.map_none] at a1 b1
    simp only [Bool.false_eq_true, ↓reduceIte, Option.map_none, a1, b1]
    rw [a2] at b2
    have e0 : absSym ((Sym.init S c.name).mixHash S c.prologue) =
        (Spec.SymmetricState.init S c.name).mixHash S c.prologue := rfl
    rw [e0] at b2
    rw [← b2]
    simp only [builtState, hsState, absHS, premixBoth, hini, Bool.false_eq_true, ↓reduceIte, absTK_builtS,
      absTK_builtE, absTB_builtRs, hre, htk, List.drop_zero]

/-- The chaining key of a built state has `hash_len` bytes. -/
theorem built_ck (S : Suite) (hL : S.HashLen) (av : Avail) (c : BuildCfg) (hs : HS) (h : build S av c = .ok hs) :
    CkLen S hs.sym := by
  rw [build_ok_state S av c hs h]
  unfold CkLen
  show (premixBoth S c _ _).ck.length = S.hashLen
  rw [(premixBoth_fields S c _ _).2.1]
  exact init_ck S hL c.name

end SnowVerif.C01
