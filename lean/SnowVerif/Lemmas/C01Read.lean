/-
  C01 (state-machine part): the refinement of `_read_message`'s token loop.
-/
import SnowVerif.Lemmas.C01Write

namespace SnowVerif.C01
open SnowVerif SnowVerif.Model SnowVerif.Model.HS SnowVerif.Bytes SnowVerif.Framing
set_option linter.unusedVariables false
set_option linter.unusedSimpArgs false

theorem readTok_s_eq (S : Suite) (r : RS) :
    readTok S r .s =
      if r.ptr.length < S.pubLen + (if r.hs.sym.hasKey then 16 else 0) then (.err .input, r)
      else
        ((r.hs.sym.decryptAndMixHash S (r.ptr.take (S.pubLen + (if r.hs.sym.hasKey then 16 else 0))) S.pubLen).1.toUnit,
         { hs := { r.hs with
                   sym := (r.hs.sym.decryptAndMixHash S (r.ptr.take (S.pubLen + (if r.hs.sym.hasKey then 16 else 0))) S.pubLen).2.1,
                   rs := (match (r.hs.sym.decryptAndMixHash S (r.ptr.take (S.pubLen + (if r.hs.sym.hasKey then 16 else 0))) S.pubLen).1 with
                          | .ok p => { val := p, on := true }
                          | .err _ =>
                            { r.hs.rs with
                              val := (r.hs.sym.decryptAndMixHash S (r.ptr.take (S.pubLen + (if r.hs.sym.hasKey then 16 else 0))) S.pubLen).2.2.1
                                ++ r.hs.rs.val.drop (r.hs.sym.decryptAndMixHash S (r.ptr.take (S.pubLen + (if r.hs.sym.hasKey then 16 else 0))) S.pubLen).2.2.1.length }
                          | .panic _ => r.hs.rs) },
           ptr := r.ptr.drop (S.pubLen + (if r.hs.sym.hasKey then 16 else 0)),
           ev := r.ev ++ (r.hs.sym.decryptAndMixHash S (r.ptr.take (S.pubLen + (if r.hs.sym.hasKey then 16 else 0))) S.pubLen).2.2.2 }) := by
  unfold readTok
  rfl

theorem absHS_hasKey (hs : HS) : (absHS hs).hasKey = hs.sym.hasKey := by
  unfold Spec.HandshakeState.hasKey absHS absSym
  simp only
  split <;> simp_all

/-- **One token of a read refines the specification**, along a successful step: the same bytes
    are consumed and the successor states are related again. -/
theorem readTok_refines (S : Suite) (hL : S.HashLen) (hS : S.Sizes) (r : RS) (t : Tok)
    (ts : List Tok) (g : Bool)
    (hck : CkLen S r.hs.sym) (hg : Transient g r.hs (t :: ts))
    (hok : PskOk r.hs.isPsk (t :: ts) r.hs.sym.hasKey = true)
    (h : (readTok S r t).1 = .ok ()) :
    ∃ g', Spec.HandshakeState.readTok S (absHSG g r.hs) r.ptr t =
        some (absHSG g' (readTok S r t).2.hs, (readTok S r t).2.ptr) ∧
      Transient g' (readTok S r t).2.hs ts ∧ CkLen S (readTok S r t).2.hs.sym := by
  cases t with
  | e =>
    rw [readTok_e_eq] at h ⊢
    by_cases hc : r.ptr.length < S.pubLen
    · simp [hc] at h
    · simp only [hc, ↓reduceIte]
      refine ⟨false, ?_, transient_false _ _, ?_⟩
      · simp only [Spec.HandshakeState.readTok, hc, ↓reduceIte, Spec.HandshakeState.mixE]
        cases hp : r.hs.isPsk with
        | true =>
          simp only [absHSG, hp, ↓reduceIte, absTB,
            mixKey_abs S hL hS g false (r.hs.sym.mixHash S (r.ptr.take S.pubLen)) (r.ptr.take S.pubLen)
              (mixHash_ck S _ _ hck), mixHash_abs]
        | false =>
          have g0 : g = false := by
            cases g with
            | false => rfl
            | true => have := (hg rfl).2.1; rw [hp] at this; cases this
          subst g0
          simp only [absHSG, hp, Bool.false_eq_true, ↓reduceIte, absTB, mixHash_abs]
      · cases hp : r.hs.isPsk with
        | true => simp only [↓reduceIte]; exact mixKey_ck S hL _ _
        | false => simp only [Bool.false_eq_true, ↓reduceIte]; exact mixHash_ck S _ _ hck
  | s =>
    have g0 : g = false := transient_off hg rfl
    subst g0
    rw [readTok_s_eq] at h ⊢
    by_cases hc : r.ptr.length < S.pubLen + (if r.hs.sym.hasKey then 16 else 0)
    · simp [hc] at h
    · simp only [hc, ↓reduceIte] at h ⊢
      cases hr : (r.hs.sym.decryptAndMixHash S (r.ptr.take (S.pubLen + (if r.hs.sym.hasKey then 16 else 0))) S.pubLen).1 with
      | ok p =>
        have ha := decrypt_abs S r.hs.sym _ S.pubLen p hr
        refine ⟨false, ?_, transient_false _ _, decrypt_ck S _ _ _ hck⟩
        have hk : (absHSG false r.hs).hasKey = r.hs.sym.hasKey := absHS_hasKey r.hs
        simp only [Spec.HandshakeState.readTok, hk, hc, ↓reduceIte]
        have : (absHSG false r.hs).ss = absSym r.hs.sym := rfl
        rw [this, ha]
        simp only [absHSG, absTB, ↓reduceIte, absSymG_false]
      | err e => simp [hr, Res.toUnit] at h
      | panic q => simp [hr, Res.toUnit] at h
  | psk n =>
    rw [readTok_psk_eq] at h ⊢
    simp only at h ⊢
    simp only [PskOk, Bool.and_eq_true, Bool.or_eq_true] at hok
    have hg2 : ((!r.hs.sym.hasKey) || r.hs.sym.hasKey) = true := by cases r.hs.sym.hasKey <;> rfl
    obtain ⟨a, b⟩ := pskStep_abs S hL hS g (!r.hs.sym.hasKey) r.hs n hck hg2 h
    refine ⟨!r.hs.sym.hasKey, ?_, ?_, b⟩
    · simp only [Spec.HandshakeState.readTok, a, Option.map_some]
    · intro hk
      have hk' : r.hs.sym.hasKey = false := by simpa using hk
      rw [pskStep_hasKey, (pskStep_frame S r.hs n).isPsk]
      rcases hok.1 with h1 | h1
      · rw [hk'] at h1; cases h1
      · exact ⟨hk', h1.1, h1.2⟩
  | ee =>
    have g0 : g = false := transient_off hg rfl
    subst g0
    rw [readTok_dh_eq S r _ (by simp)] at h ⊢
    obtain ⟨a, b⟩ := dhStep_abs S hL hS false false r.hs _ hck h
    refine ⟨false, ?_, transient_false _ _, b⟩
    simp only [Spec.HandshakeState.readTok, a, Option.map_some]
  | es =>
    have g0 : g = false := transient_off hg rfl
    subst g0
    rw [readTok_dh_eq S r _ (by simp)] at h ⊢
    obtain ⟨a, b⟩ := dhStep_abs S hL hS false false r.hs _ hck h
    refine ⟨false, ?_, transient_false _ _, b⟩
    simp only [Spec.HandshakeState.readTok, a, Option.map_some]
  | se =>
    have g0 : g = false := transient_off hg rfl
    subst g0
    rw [readTok_dh_eq S r _ (by simp)] at h ⊢
    obtain ⟨a, b⟩ := dhStep_abs S hL hS false false r.hs _ hck h
    refine ⟨false, ?_, transient_false _ _, b⟩
    simp only [Spec.HandshakeState.readTok, a, Option.map_some]
  | ss =>
    have g0 : g = false := transient_off hg rfl
    subst g0
    rw [readTok_dh_eq S r _ (by simp)] at h ⊢
    obtain ⟨a, b⟩ := dhStep_abs S hL hS false false r.hs _ hck h
    refine ⟨false, ?_, transient_false _ _, b⟩
    simp only [Spec.HandshakeState.readTok, a, Option.map_some]

/-- **The token loop of a read refines the specification's.** -/
theorem readToks_refines (S : Suite) (hL : S.HashLen) (hS : S.Sizes) (ts : List Tok) (r : RS)
    (g : Bool) (hck : CkLen S r.hs.sym) (hg : Transient g r.hs ts)
    (hok : PskOk r.hs.isPsk ts r.hs.sym.hasKey = true)
    (h : (readToks S ts r).1 = .ok ()) :
    Spec.HandshakeState.readToks S ts (absHSG g r.hs) r.ptr =
        some (absHS (readToks S ts r).2.hs, (readToks S ts r).2.ptr) ∧
      CkLen S (readToks S ts r).2.hs.sym := by
  induction ts generalizing r g with
  | nil =>
    have g0 : g = false := transient_off hg rfl
    subst g0
    exact ⟨rfl, hck⟩
  | cons t ts ih =>
    unfold readToks at h ⊢
    cases hr : (readTok S r t).1 with
    | ok u =>
      simp only [hr] at h ⊢
      obtain ⟨g', s1, s3, s4⟩ := readTok_refines S hL hS r t ts g hck hg hok hr
      have hok' : PskOk (readTok S r t).2.hs.isPsk ts (readTok S r t).2.hs.sym.hasKey = true := by
        rw [(readTok_frame S r t).isPsk, (readTok_len S r t hr).2]
        simp only [PskOk, Bool.and_eq_true] at hok
        exact hok.2
      obtain ⟨r1, r3⟩ := ih (readTok S r t).2 g' s4 s3 hok' h
      refine ⟨?_, r3⟩
      simp only [Spec.HandshakeState.readToks, s1, r1]
    | err e => simp [hr] at h
    | panic q => simp [hr] at h

end SnowVerif.C01
