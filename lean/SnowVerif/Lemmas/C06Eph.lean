/-
  C06, ephemeral keys: the `e` token of `_write_message` (without the testing-only fixed
  ephemeral) draws the private key from the random source during that very call, puts its public
  key on the wire, and advances the random stream past the drawn block.
-/
import SnowVerif.Lemmas.C06Retry

namespace SnowVerif.C06
open SnowVerif SnowVerif.Model SnowVerif.Model.HS
set_option linter.unusedVariables false
set_option linter.unusedSimpArgs false

/-- The first `k` consecutive `n`-byte blocks of a scripted random stream (reads past the end
    yield zeros, as `rngDraw` does). -/
def draws (n : Nat) : Bytes → Nat → List Bytes
  | _, 0 => []
  | r, k + 1 => Bytes.fit n r :: draws n (r.drop n) k

/-- The blocks drawn from the random source according to a log. -/
def rngOf : List Event → List Bytes
  | [] => []
  | .rng d :: l => d :: rngOf l
  | _ :: l => rngOf l

theorem rngOf_append (l1 l2 : List Event) : rngOf (l1 ++ l2) = rngOf l1 ++ rngOf l2 := by
  induction l1 with
  | nil => rfl
  | cons x l ih => cases x <;> simp [rngOf, ih]

theorem mem_of_rngOf (l : List Event) (d : Bytes) (h : d ∈ rngOf l) : Event.rng d ∈ l := by
  induction l with
  | nil => simp [rngOf] at h
  | cons x l ih =>
    cases x with
    | rng d' =>
      simp only [rngOf, List.mem_cons] at h
      rcases h with h | h
      · rw [h]; exact List.mem_cons_self
      · exact List.mem_cons_of_mem _ (ih h)
    | enc a b c d' => exact List.mem_cons_of_mem _ (ih h)
    | dec a b c d' f => exact List.mem_cons_of_mem _ (ih h)

/-- **The `e` token, generated ephemeral.** On success the private key is the next block `d` of
    the random stream, the log gets `rng d`, the message gets `pubOf d`, the session's ephemeral
    is `(d, pubOf d)`, and the stream is advanced past `d`. -/
theorem writeTok_e_fresh (S : Suite) (cap : Nat) (w : WS) (hf : w.hs.fixedE = false)
    (hok : (writeTok S cap w .e).1 = .ok ()) :
    (writeTok S cap w .e).2.acc = w.acc ++ S.pubOf (Bytes.fit S.privLen w.hs.rng) ∧
    (writeTok S cap w .e).2.ev = w.ev ++ [.rng (Bytes.fit S.privLen w.hs.rng)] ∧
    (writeTok S cap w .e).2.hs.rng = w.hs.rng.drop S.privLen ∧
    (writeTok S cap w .e).2.hs.e =
      { val := { priv := Bytes.fit S.privLen w.hs.rng, pub := S.pubOf (Bytes.fit S.privLen w.hs.rng) }, on := true } := by
  rw [writeTok_e_eq] at hok ⊢
  by_cases c1 : w.acc.length + S.pubLen > cap
  · simp [c1] at hok
  · simp only [c1, hf, ↓reduceIte, Bool.false_eq_true] at hok ⊢
    by_cases c2 : S.validPriv (rngDraw w.hs.rng S.privLen).1 = true
    · simp only [c2, ↓reduceIte, eStep]
      exact ⟨rt, rt, rt, rt⟩
    · simp [c2] at hok

/-- With the fixed testing ephemeral nothing is drawn. -/
theorem writeTok_e_fixed (S : Suite) (cap : Nat) (w : WS) (hf : w.hs.fixedE = true) :
    (writeTok S cap w .e).2.hs.rng = w.hs.rng ∧ rngOf (tokEv S cap w .e) = [] := by
  have h1 : (writeTok S cap w .e).2.hs.rng = w.hs.rng ∧ (writeTok S cap w .e).2.ev = w.ev ++ [] := by
    rw [writeTok_e_eq]
    by_cases c1 : w.acc.length + S.pubLen > cap
    · simp only [c1, ↓reduceIte, List.append_nil]; exact ⟨rt, rt⟩
    · simp only [c1, hf, ↓reduceIte, eStep, List.append_nil]; exact ⟨rt, rt⟩
  rw [tokEv_of_eq h1.2]
  exact ⟨h1.1, rfl⟩

/-- Every other token leaves the random stream alone and logs no draw. -/
theorem writeTok_rng_other (S : Suite) (cap : Nat) (w : WS) (t : Tok) (ht : t ≠ .e) :
    (writeTok S cap w t).2.hs.rng = w.hs.rng ∧ rngOf (tokEv S cap w t) = [] := by
  cases t with
  | e => exact absurd rfl ht
  | s =>
    have key : ∃ x, (writeTok S cap w .s).2.ev = w.ev ++ x ∧ rngOf x = [] ∧ (writeTok S cap w .s).2.hs.rng = w.hs.rng := by
      rw [writeTok_s_eq]
      by_cases c1 : (!w.hs.s.on) = true
      · simp only [c1, ↓reduceIte]; exact ⟨[], by simp, rfl, rt⟩
      · simp only [c1, ↓reduceIte, Bool.false_eq_true]
        by_cases c2 : w.acc.length + S.pubLen + (if w.hs.sym.hasKey = true then 16 else 0) > cap
        · simp only [c2, ↓reduceIte]; exact ⟨[], by simp, rfl, rt⟩
        · simp only [c2, ↓reduceIte]
          refine ⟨_, rfl, ?_, rt⟩
          rcases (sym_encrypt_ev S w.hs.sym w.hs.s.val.pub (cap - w.acc.length)).1 with h | h <;> rw [h] <;> rfl
    obtain ⟨x, h1, h2, h3⟩ := key
    rw [tokEv_of_eq h1]
    exact ⟨h3, h2⟩
  | psk n =>
    have h1 : (writeTok S cap w (.psk n)).2.ev = w.ev ++ [] := by rw [writeTok_psk_eq]; simp
    rw [tokEv_of_eq h1]
    refine ⟨?_, rfl⟩
    rw [writeTok_psk_eq]
    unfold pskStep
    repeat' split
    all_goals rfl
  | ee =>
    have h1 : (writeTok S cap w .ee).2.ev = w.ev ++ [] := by rw [writeTok_dh_eq S cap w _ (by simp)]; simp
    rw [tokEv_of_eq h1]
    refine ⟨?_, rfl⟩
    rw [writeTok_dh_eq S cap w _ (by simp)]
    unfold dhStep
    repeat' split
    all_goals rfl
  | es =>
    have h1 : (writeTok S cap w .es).2.ev = w.ev ++ [] := by rw [writeTok_dh_eq S cap w _ (by simp)]; simp
    rw [tokEv_of_eq h1]
    refine ⟨?_, rfl⟩
    rw [writeTok_dh_eq S cap w _ (by simp)]
    unfold dhStep
    repeat' split
    all_goals rfl
  | se =>
    have h1 : (writeTok S cap w .se).2.ev = w.ev ++ [] := by rw [writeTok_dh_eq S cap w _ (by simp)]; simp
    rw [tokEv_of_eq h1]
    refine ⟨?_, rfl⟩
    rw [writeTok_dh_eq S cap w _ (by simp)]
    unfold dhStep
    repeat' split
    all_goals rfl
  | ss =>
    have h1 : (writeTok S cap w .ss).2.ev = w.ev ++ [] := by rw [writeTok_dh_eq S cap w _ (by simp)]; simp
    rw [tokEv_of_eq h1]
    refine ⟨?_, rfl⟩
    rw [writeTok_dh_eq S cap w _ (by simp)]
    unfold dhStep
    repeat' split
    all_goals rfl

/-- The message bytes only grow. -/
theorem writeTok_acc_ext (S : Suite) (cap : Nat) (w : WS) (t : Tok) : w.acc <+: (writeTok S cap w t).2.acc := by
  cases t with
  | e =>
    rw [writeTok_e_eq]
    by_cases c1 : w.acc.length + S.pubLen > cap
    · simp only [c1, ↓reduceIte]; exact List.prefix_refl _
    · simp only [c1, ↓reduceIte]
      repeat' split
      all_goals first | exact List.prefix_refl _ | exact List.prefix_append _ _
  | s =>
    rw [writeTok_s_eq]
    repeat' split
    all_goals first | exact List.prefix_refl _ | exact List.prefix_append _ _
  | psk n => rw [writeTok_psk_eq]; exact List.prefix_refl _
  | ee => rw [writeTok_dh_eq S cap w _ (by simp)]; exact List.prefix_refl _
  | es => rw [writeTok_dh_eq S cap w _ (by simp)]; exact List.prefix_refl _
  | se => rw [writeTok_dh_eq S cap w _ (by simp)]; exact List.prefix_refl _
  | ss => rw [writeTok_dh_eq S cap w _ (by simp)]; exact List.prefix_refl _

theorem writeToks_acc_ext (S : Suite) (cap : Nat) (ts : List Tok) (w : WS) : w.acc <+: (writeToks S cap ts w).2.acc := by
  induction ts generalizing w with
  | nil => exact List.prefix_refl _
  | cons t ts ih =>
    by_cases a : (writeTok S cap w t).1 = .ok ()
    · rw [writeToks_cons_ok S cap t ts w a]
      exact List.IsPrefix.trans (writeTok_acc_ext S cap w t) (ih _)
    · rw [writeToks_cons_fail S cap t ts w a]
      exact writeTok_acc_ext S cap w t

theorem writeToks_ok_head (S : Suite) (cap : Nat) (t : Tok) (ts : List Tok) (w : WS)
    (hok : (writeToks S cap (t :: ts) w).1 = .ok ()) : (writeTok S cap w t).1 = .ok () := by
  apply Classical.byContradiction
  intro a
  rw [writeToks_cons_fail S cap t ts w a] at hok
  exact a hok

/-- The token loop over a concatenation is the composition of the loops. -/
theorem writeToks_append_ok (S : Suite) (cap : Nat) (pre post : List Tok) (w : WS)
    (hok : (writeToks S cap (pre ++ post) w).1 = .ok ()) :
    (writeToks S cap pre w).1 = .ok () ∧
    writeToks S cap (pre ++ post) w = writeToks S cap post (writeToks S cap pre w).2 := by
  induction pre generalizing w with
  | nil => exact ⟨rfl, rfl⟩
  | cons t ts ih =>
    have a := writeToks_ok_head S cap t (ts ++ post) w hok
    rw [List.cons_append, writeToks_cons_ok S cap t (ts ++ post) w a] at hok ⊢
    rw [writeToks_cons_ok S cap t ts w a]
    exact ih _ hok

/-- **The random stream across the token loop** (generated ephemerals): a successful loop has
    drawn exactly one block per `e` token, consecutive blocks of the stream in order, logged each
    of them, and left the stream advanced past all of them. -/
theorem writeToks_rng (S : Suite) (cap : Nat) (ts : List Tok) (w : WS) (hf : w.hs.fixedE = false)
    (hok : (writeToks S cap ts w).1 = .ok ()) :
    (writeToks S cap ts w).2.hs.rng = w.hs.rng.drop (S.privLen * ts.count .e) ∧
    rngOf (erase (toksG S cap ts w)) = draws S.privLen w.hs.rng (ts.count .e) := by
  induction ts generalizing w with
  | nil => simp [writeToks, toksG, erase, rngOf, draws]
  | cons t ts ih =>
    have a := writeToks_ok_head S cap t ts w hok
    rw [writeToks_cons_ok S cap t ts w a] at hok ⊢
    have hf' : (writeTok S cap w t).2.hs.fixedE = false := by rw [(writeTok_frame S cap w t).fixedE]; exact hf
    obtain ⟨i1, i2⟩ := ih _ hf' hok
    unfold toksG
    rw [erase_append, erase_tokG, rngOf_append]
    simp only [a]
    rw [i1, i2]
    by_cases he : t = .e
    · subst he
      obtain ⟨_, f2, f3, _⟩ := writeTok_e_fresh S cap w hf a
      rw [tokEv_of_eq f2, f3, List.drop_drop]
      have hc : (Tok.e :: ts).count .e = ts.count .e + 1 := by simp
      rw [hc, Nat.mul_succ]
      refine ⟨by rw [Nat.add_comm], ?_⟩
      simp [rngOf, draws]
    · obtain ⟨g1, g2⟩ := writeTok_rng_other S cap w t he
      have hc : (t :: ts).count .e = ts.count .e := by
        rw [List.count_cons]; simp [he]
      rw [hc, g1, g2]
      exact ⟨rfl, rfl⟩

/-- With the fixed testing ephemeral the loop draws nothing. -/
theorem writeToks_rng_fixed (S : Suite) (cap : Nat) (ts : List Tok) (w : WS) (hf : w.hs.fixedE = true) :
    (writeToks S cap ts w).2.hs.rng = w.hs.rng ∧ rngOf (erase (toksG S cap ts w)) = [] := by
  induction ts generalizing w with
  | nil => simp [writeToks, toksG, erase, rngOf]
  | cons t ts ih =>
    have h1 : (writeTok S cap w t).2.hs.rng = w.hs.rng ∧ rngOf (tokEv S cap w t) = [] := by
      by_cases he : t = .e
      · subst he; exact writeTok_e_fixed S cap w hf
      · exact writeTok_rng_other S cap w t he
    have hf' : (writeTok S cap w t).2.hs.fixedE = true := by rw [(writeTok_frame S cap w t).fixedE]; exact hf
    unfold toksG
    rw [erase_append, erase_tokG, rngOf_append, h1.2]
    by_cases a : (writeTok S cap w t).1 = .ok ()
    · rw [writeToks_cons_ok S cap t ts w a]
      simp only [a]
      obtain ⟨i1, i2⟩ := ih _ hf'
      rw [i1, i2, h1.1]; exact ⟨rfl, rfl⟩
    · rw [writeToks_cons_fail S cap t ts w a]
      refine ⟨h1.1, ?_⟩
      cases hr : (writeTok S cap w t).1 with
      | ok u => cases u; exact absurd hr a
      | err e => simp [erase, rngOf]
      | panic q => simp [erase, rngOf]

/-- **Every generated ephemeral on the wire was drawn during that very loop.** For each `e`
    token of a successful loop (at any position: `pre` are the tokens before it), the bytes the
    token appended to the message, at the offset the message had reached, are `pubOf d` where `d`
    is the block of the random stream the loop drew for that token, and `rng d` is in the log. -/
theorem writeToks_e_on_wire (S : Suite) (cap : Nat) (pre post : List Tok) (w : WS) (hf : w.hs.fixedE = false)
    (hok : (writeToks S cap (pre ++ .e :: post) w).1 = .ok ()) :
    ∃ rest, (writeToks S cap (pre ++ .e :: post) w).2.acc =
        (writeToks S cap pre w).2.acc ++ S.pubOf (Bytes.fit S.privLen (w.hs.rng.drop (S.privLen * pre.count .e))) ++ rest ∧
      Event.rng (Bytes.fit S.privLen (w.hs.rng.drop (S.privLen * pre.count .e))) ∈
        (writeToks S cap (pre ++ .e :: post) w).2.ev := by
  obtain ⟨h1, h2⟩ := writeToks_append_ok S cap pre (.e :: post) w hok
  rw [h2] at hok ⊢
  have hr := (writeToks_rng S cap pre w hf h1).1
  have hf1 : (writeToks S cap pre w).2.hs.fixedE = false := by rw [(writeToks_frame S cap pre w).fixedE]; exact hf
  have a := writeToks_ok_head S cap .e post _ hok
  rw [writeToks_cons_ok S cap .e post _ a]
  obtain ⟨f1, f2, _, _⟩ := writeTok_e_fresh S cap _ hf1 a
  rw [hr] at f1 f2
  obtain ⟨rest, hrest⟩ := writeToks_acc_ext S cap post (writeTok S cap (writeToks S cap pre w).2 .e).2
  obtain ⟨erest, herest⟩ := writeToks_ev_prefix S cap post (writeTok S cap (writeToks S cap pre w).2 .e).2
  refine ⟨rest, ?_, ?_⟩
  · rw [← hrest, f1]
  · rw [← herest, f2]
    simp

/-! ### `_write_message` -/

/-- A successful `_write_message` appends the (encrypted) payload to what the token loop wrote
    and leaves the random stream and the ephemeral as the loop left them; the payload step logs
    no draw. -/
theorem writeInner_ok_shape (S : Suite) (hs : HS) (p : Bytes) (cap : Nat) (n : Nat)
    (h : (writeInner S hs p cap).1 = .ok n) :
    (∃ ct, (writeInner S hs p cap).2.acc = (loopOf S hs cap).2.acc ++ ct) ∧
    (writeInner S hs p cap).2.hs.rng = (loopOf S hs cap).2.hs.rng ∧
    (writeInner S hs p cap).2.hs.e = (loopOf S hs cap).2.hs.e := by
  unfold writeInner at h ⊢
  simp only at h ⊢
  by_cases c1 : (!hs.myTurn) = true
  · simp only [c1, ↓reduceIte] at h; cases h
  · simp only [c1, ↓reduceIte, Bool.false_eq_true] at h ⊢
    by_cases c2 : hs.pos ≥ hs.msgs.length
    · simp only [c2, ↓reduceIte] at h; cases h
    · simp only [c2, ↓reduceIte] at h ⊢
      show (∃ ct, _ = (writeToks S cap (hs.msgs.getD hs.pos []) { hs := hs, acc := [], ev := [] }).2.acc ++ ct) ∧
        _ = (writeToks S cap (hs.msgs.getD hs.pos []) { hs := hs, acc := [], ev := [] }).2.hs.rng ∧
        _ = (writeToks S cap (hs.msgs.getD hs.pos []) { hs := hs, acc := [], ev := [] }).2.hs.e
      generalize hL : writeToks S cap (hs.msgs.getD hs.pos []) { hs := hs, acc := [], ev := [] } = L at h ⊢
      cases hL1 : L.1 with
      | err e => simp only [hL1] at h; cases h
      | panic q => simp only [hL1] at h; cases h
      | ok u =>
        cases u
        simp only [hL1] at h ⊢
        by_cases c3 : L.2.acc.length + p.length + 16 > cap
        · simp only [c3, ↓reduceIte] at h; cases h
        · simp only [c3, ↓reduceIte] at h ⊢
          by_cases c4 : L.2.acc.length + p.length + (if L.2.hs.sym.hasKey = true then 16 else 0) > 65535
          · simp only [c4, ↓reduceIte] at h; cases h
          · simp only [c4, ↓reduceIte] at h ⊢
            cases hE : (L.2.hs.sym.encryptAndMixHash S p (cap - L.2.acc.length)).1 with
            | err e => simp only [hE] at h; cases h
            | panic q => simp only [hE] at h; cases h
            | ok ct =>
              dsimp only
              refine ⟨⟨ct, rfl⟩, ?_, ?_⟩ <;> split <;> rfl

theorem payloadEv_rng (S : Suite) (hs : HS) (p : Bytes) (cap : Nat) : rngOf (payloadEv S hs p cap) = [] := by
  unfold payloadEv
  simp only
  repeat' split
  all_goals first
    | rfl
    | (rename_i L _ _ _
       rcases (sym_encrypt_ev S (writeToks S cap (curToks hs) (w0 hs)).2.hs.sym p
         (cap - (writeToks S cap (curToks hs) (w0 hs)).2.acc.length)).1 with h | h <;> rw [h] <;> rfl)

/-- A token loop without `e` tokens, or with the fixed testing ephemeral, leaves the random
    stream untouched whatever its outcome. -/
theorem writeToks_rng_nodraw (S : Suite) (cap : Nat) (ts : List Tok) (w : WS)
    (h : w.hs.fixedE = true ∨ Tok.e ∉ ts) : (writeToks S cap ts w).2.hs.rng = w.hs.rng := by
  rcases h with h | h
  · exact (writeToks_rng_fixed S cap ts w h).1
  · induction ts generalizing w with
    | nil => rfl
    | cons t ts ih =>
      have ht : t ≠ .e := by intro hc; exact h (by rw [hc]; exact List.mem_cons_self)
      have hts : Tok.e ∉ ts := fun hm => h (List.mem_cons_of_mem _ hm)
      have h1 := (writeTok_rng_other S cap w t ht).1
      by_cases a : (writeTok S cap w t).1 = .ok ()
      · rw [writeToks_cons_ok S cap t ts w a, ih _ hts, h1]
      · rw [writeToks_cons_fail S cap t ts w a, h1]

/-- `_write_message` only touches the random stream through its token loop. -/
theorem writeInner_rng (S : Suite) (hs : HS) (p : Bytes) (cap : Nat) :
    (writeInner S hs p cap).2.hs.rng = hs.rng ∨
    (writeInner S hs p cap).2.hs.rng = (loopOf S hs cap).2.hs.rng := by
  unfold writeInner
  simp only
  by_cases c1 : (!hs.myTurn) = true
  · simp only [c1, ↓reduceIte]; exact Or.inl rt
  · simp only [c1, ↓reduceIte, Bool.false_eq_true]
    by_cases c2 : hs.pos ≥ hs.msgs.length
    · simp only [c2, ↓reduceIte]; exact Or.inl rt
    · simp only [c2, ↓reduceIte]
      right
      show _ = (writeToks S cap (hs.msgs.getD hs.pos []) { hs := hs, acc := [], ev := [] }).2.hs.rng
      generalize hL : writeToks S cap (hs.msgs.getD hs.pos []) { hs := hs, acc := [], ev := [] } = L
      cases hL1 : L.1 with
      | err e => rfl
      | panic q => rfl
      | ok u =>
        cases u
        simp only
        by_cases c3 : L.2.acc.length + p.length + 16 > cap
        · simp only [c3, ↓reduceIte]
        · simp only [c3, ↓reduceIte]
          by_cases c4 : L.2.acc.length + p.length + (if L.2.hs.sym.hasKey = true then 16 else 0) > 65535
          · simp only [c4, ↓reduceIte]
          · simp only [c4, ↓reduceIte]
            cases hE : (L.2.hs.sym.encryptAndMixHash S p (cap - L.2.acc.length)).1 with
            | err e => rfl
            | panic q => rfl
            | ok ct => dsimp only; split <;> rfl

/-- A `write_message` of a message without `e` tokens (or with the fixed testing ephemeral)
    leaves the random stream untouched, whatever its outcome. -/
theorem writeMessage_rng_nodraw (S : Suite) (hs : HS) (p : Bytes) (cap : Nat)
    (h : hs.fixedE = true ∨ Tok.e ∉ curToks hs) : (hs.writeMessage S p cap).2.1.rng = hs.rng := by
  have h1 : (hs.writeMessage S p cap).2.1.rng = (writeInner S hs p cap).2.hs.rng := by
    unfold writeMessage
    simp only
    cases (writeInner S hs p cap).1 with
    | ok n => rfl
    | panic q => rfl
    | err e => dsimp only; split <;> rfl
  rw [h1]
  rcases writeInner_rng S hs p cap with h2 | h2
  · exact h2
  · rw [h2]; exact writeToks_rng_nodraw S cap (curToks hs) (w0 hs) h

end SnowVerif.C06
