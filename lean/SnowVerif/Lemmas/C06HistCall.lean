/-
  C06 over histories, Stage 3, one `write_message` call seen from outside: the encryptions before
  its first key installation (`write_pre`), how far a successful call without installation moves
  the nonce (`write_ok_advance`), and what the call leaves in the symmetric state.
-/
import SnowVerif.Lemmas.C06HistPre
import SnowVerif.Lemmas.C06Hist

namespace SnowVerif.C06
open SnowVerif SnowVerif.Model SnowVerif.Model.HS SnowVerif.Framing
open SnowVerif.Theorems.C11 (Op step run NoPanic)
set_option linter.unusedVariables false
set_option linter.unusedSimpArgs false

/-- The Stage 2 fact for the message the session is at, in the keyedness it is in. -/
def EAE (hs : HS) : Prop := encAfterE hs.isPsk (curToks hs) hs.sym.hasKey false = true

/-- What a successful `_write_message` did after the token loop: the payload encryption succeeded
    from the state the loop left and produced the final symmetric state. -/
theorem writeInner_ok_payload (S : Suite) (hs : HS) (p : Bytes) (cap : Nat) (n : Nat)
    (h : (writeInner S hs p cap).1 = .ok n) :
    ∃ ct, ((loopOf S hs cap).2.hs.sym.encryptAndMixHash S p (cap - (loopOf S hs cap).2.acc.length)).1 = .ok ct ∧
      (writeInner S hs p cap).2.hs.sym =
        ((loopOf S hs cap).2.hs.sym.encryptAndMixHash S p (cap - (loopOf S hs cap).2.acc.length)).2.1 := by
  unfold writeInner at h ⊢
  simp only at h ⊢
  by_cases c1 : (!hs.myTurn) = true
  · simp only [c1, ↓reduceIte] at h; cases h
  · simp only [c1, ↓reduceIte, Bool.false_eq_true] at h ⊢
    by_cases c2 : hs.pos ≥ hs.msgs.length
    · simp only [c2, ↓reduceIte] at h; cases h
    · simp only [c2, ↓reduceIte] at h ⊢
      show ∃ ct, ((writeToks S cap (hs.msgs.getD hs.pos []) { hs := hs, acc := [], ev := [] }).2.hs.sym.encryptAndMixHash S p
          (cap - (writeToks S cap (hs.msgs.getD hs.pos []) { hs := hs, acc := [], ev := [] }).2.acc.length)).1 = .ok ct ∧
        _ = ((writeToks S cap (hs.msgs.getD hs.pos []) { hs := hs, acc := [], ev := [] }).2.hs.sym.encryptAndMixHash S p
          (cap - (writeToks S cap (hs.msgs.getD hs.pos []) { hs := hs, acc := [], ev := [] }).2.acc.length)).2.1
      generalize hL : writeToks S cap (hs.msgs.getD hs.pos []) { hs := hs, acc := [], ev := [] } = L at h ⊢
      cases hL1 : L.1 with
      | err e => simp only [hL1] at h; cases h
      | panic q => simp only [hL1] at h; cases h
      | ok u =>
        cases u
        simp only [hL1] at h ⊢
        by_cases c3 : L.2.acc.length + p.length + 16 > cap
        · simp only [c3, ↓reduceIte] at h; cases h
        · simp only [c3, ↓reduceIte] at h ⊢
          by_cases c4 : L.2.acc.length + p.length + (if L.2.hs.sym.hasKey = true then 16 else 0) > 65535
          · simp only [c4, ↓reduceIte] at h; cases h
          · simp only [c4, ↓reduceIte] at h ⊢
            cases hE : (L.2.hs.sym.encryptAndMixHash S p (cap - L.2.acc.length)).1 with
            | err e => simp only [hE] at h; cases h
            | panic q => simp only [hE] at h; cases h
            | ok ct =>
              dsimp only
              refine ⟨ct, rfl, ?_⟩
              split <;> rfl

/-- The payload's events are nothing, or those of `encrypt_and_mix_hash` from the state a
    successful token loop left. -/
theorem payloadEv_cases (S : Suite) (hs : HS) (p : Bytes) (cap : Nat) :
    payloadEv S hs p cap = [] ∨
    ((loopOf S hs cap).1 = .ok () ∧
      payloadEv S hs p cap =
        ((loopOf S hs cap).2.hs.sym.encryptAndMixHash S p (cap - (loopOf S hs cap).2.acc.length)).2.2) := by
  unfold payloadEv loopOf
  simp only
  generalize hL : writeToks S cap (curToks hs) (w0 hs) = L
  cases hL1 : L.1 with
  | err e => exact Or.inl rfl
  | panic q => exact Or.inl rfl
  | ok u =>
    cases u
    simp only
    by_cases c3 : L.2.acc.length + p.length + 16 > cap
    · simp only [c3, ↓reduceIte]; exact Or.inl trivial
    · simp only [c3, ↓reduceIte]
      by_cases c4 : L.2.acc.length + p.length + (if L.2.hs.sym.hasKey = true then 16 else 0) > 65535
      · simp only [c4, ↓reduceIte]; exact Or.inl trivial
      · simp only [c4, ↓reduceIte]; exact Or.inr ⟨trivial, trivial⟩

theorem writeG_ready (S : Suite) (hs : HS) (p : Bytes) (cap : Nat) :
    writeG S hs p cap = [] ∨
    (Ready hs ∧ writeG S hs p cap = toksG S cap (curToks hs) (w0 hs) ++ (payloadEv S hs p cap).map .ev) := by
  unfold writeG
  by_cases c1 : (!hs.myTurn) = true
  · simp only [c1, ↓reduceIte]; exact Or.inl trivial
  · simp only [c1, ↓reduceIte, Bool.false_eq_true]
    by_cases c2 : hs.pos ≥ hs.msgs.length
    · simp only [c2, ↓reduceIte]; exact Or.inl trivial
    · simp only [c2, ↓reduceIte]
      exact Or.inr ⟨⟨by simpa using c1, by omega⟩, trivial⟩

/-- **The encryptions of a write before its first key installation.** In a state whose current
    message passes the scan: there are none unless a key is installed; each of them uses the key
    and a nonce `t` above the nonce the call started with, never the reserved nonce; and it is either
    the `t`-th static-key field of the message's leading `s` run, whose associated data and
    plaintext are determined by the start state (`sChain`), or — only for a call that succeeds —
    the payload, at index exactly `sPre`. -/
theorem write_pre (S : Suite) (hs : HS) (p : Bytes) (cap : Nat) (hp : EAE hs)
    (kk : Bytes) (nn : UInt64) (ad pt : Bytes) (hm : Event.enc kk nn ad pt ∈ preEnc (writeG S hs p cap)) :
    hs.sym.hasKey = true ∧ kk = hs.sym.cs.key ∧ nn ≠ MAXN ∧
    ∃ t, nn.toNat = hs.sym.cs.n.toNat + t ∧
      ((t < sPre (curToks hs) ∧ ad = (sChain S hs.sym hs.s.val.pub t).h ∧ pt = hs.s.val.pub) ∨
       (t = sPre (curToks hs) ∧ ∃ n, (writeInner S hs p cap).1 = .ok n)) := by
  rcases writeG_ready S hs p cap with h0 | ⟨hr, hg⟩
  · rw [h0] at hm; simp [preEnc] at hm
  · rw [hg] at hm
    obtain ⟨_, _, t3, _, _⟩ := writeInner_struct S hs p cap
    cases hk : hs.sym.hasKey with
    | false =>
      -- un-keyed: nothing is encrypted before an installation
      exfalso
      have hq := toksG_quiet S cap (curToks hs) (w0 hs) false
        (by show encAfterE hs.isPsk (curToks hs) hs.sym.hasKey false = true; exact hp) (Or.inl hk)
      by_cases hn : NoInst (toksG S cap (curToks hs) (w0 hs))
      · rw [preEnc_append_noInst _ _ hn, hq.1, List.nil_append] at hm
        rcases payloadEv_cases S hs p cap with h1 | ⟨hl, h1⟩
        · rw [h1] at hm; simp [preEnc] at hm
        · have hend := (toksG_noInst S cap (curToks hs) (w0 hs) hn).2
          rw [h1, sym_encrypt_unkeyed S _ _ _ (by rw [hend]; exact hk)] at hm
          simp [preEnc] at hm
      · rw [preEnc_append_inst _ _ hn, hq.1] at hm
        cases hm
    | true =>
      refine ⟨rfl, ?_⟩
      obtain ⟨m, hm1, hm2, hm3, hm4⟩ := toksG_pre S cap (curToks hs) (w0 hs)
        (by unfold EAE at hp; rw [hk] at hp; exact hp) hk
      have sfact : ∀ t, t < m → Event.enc kk nn ad pt = sEv S hs.sym hs.s.val.pub t →
          kk = hs.sym.cs.key ∧ nn ≠ MAXN ∧ ∃ t, nn.toNat = hs.sym.cs.n.toNat + t ∧
          ((t < sPre (curToks hs) ∧ ad = (sChain S hs.sym hs.s.val.pub t).h ∧ pt = hs.s.val.pub) ∨
           (t = sPre (curToks hs) ∧ ∃ n, (writeInner S hs p cap).1 = .ok n)) := by
        intro t ht he
        simp only [sEv, Event.enc.injEq] at he
        obtain ⟨e1, e2, e3, e4⟩ := he
        refine ⟨e1.trans (sChain_key S _ _ t).1, by rw [e2]; exact hm3 t ht, t, ?_, Or.inl ⟨by omega, e3, e4⟩⟩
        rw [e2]
        exact sChain_n S _ _ t (fun t' ht' => hm3 t' (by omega))
      by_cases hn : NoInst (toksG S cap (curToks hs) (w0 hs))
      · rw [preEnc_append_noInst _ _ hn, hm2, List.mem_append] at hm
        rcases hm with hm | hm
        · obtain ⟨t, ht, he⟩ := List.mem_map.mp hm
          exact sfact t (List.mem_range.mp ht) he.symm
        · rcases payloadEv_cases S hs p cap with h1 | ⟨hl, h1⟩
          · rw [h1] at hm; simp [preEnc] at hm
          · obtain ⟨e1, e2, e3⟩ := hm4 hl hn
            have hok : ∃ n, (writeInner S hs p cap).1 = .ok n := by
              apply Classical.byContradiction
              intro hno
              have := t3 hr (fun n hc => hno ⟨n, hc⟩)
              rw [this] at hm; simp [preEnc] at hm
            have hend : (loopOf S hs cap).2.hs.sym = sChain S hs.sym hs.s.val.pub (curToks hs).length := e3
            rw [h1, hend] at hm
            have hkc : (sChain S hs.sym hs.s.val.pub (curToks hs).length).hasKey = true := by
              rw [(sChain_key S _ _ _).2.1]; exact hk
            rcases sym_encrypt_keyed S (sChain S hs.sym hs.s.val.pub (curToks hs).length) p
                (cap - (loopOf S hs cap).2.acc.length) hkc with ⟨hne, _, _, a3⟩ | ⟨_, b2⟩
            · rw [a3] at hm
              simp only [List.map_cons, List.map_nil, preEnc, List.mem_singleton, Event.enc.injEq] at hm
              obtain ⟨f1, f2, f3, f4⟩ := hm
              refine ⟨f1.trans (sChain_key S _ _ _).1, by rw [f2]; exact hne, (curToks hs).length, ?_, Or.inr ⟨e2.symm, hok⟩⟩
              rw [f2]
              exact sChain_n S _ _ _ (fun t' ht' => hm3 t' (by omega))
            · rw [b2] at hm; simp [preEnc] at hm
      · rw [preEnc_append_inst _ _ hn, hm2] at hm
        obtain ⟨t, ht, he⟩ := List.mem_map.mp hm
        exact sfact t (List.mem_range.mp ht) he.symm

/-- **A successful write that installs no key moves the nonce past every static-key field and the
    payload**: in a keyed state whose current message passes the scan, the nonce afterwards is the
    nonce before plus `sPre + 1`. -/
theorem write_ok_advance (S : Suite) (hs : HS) (p : Bytes) (cap : Nat) (hp : EAE hs) (hk : hs.sym.hasKey = true)
    (n : Nat) (hok : (writeInner S hs p cap).1 = .ok n) (hn : NoInst (writeG S hs p cap)) :
    (writeInner S hs p cap).2.hs.sym.cs.n.toNat = hs.sym.cs.n.toNat + sPre (curToks hs) + 1 := by
  obtain ⟨_, _, _, _, t5⟩ := writeInner_struct S hs p cap
  obtain ⟨hr, hl⟩ := t5 n hok
  rcases writeG_ready S hs p cap with h0 | ⟨_, hg⟩
  · -- a ready call that succeeds has a non-empty log only if ..., but an empty one is fine too
    have hn' : NoInst (toksG S cap (curToks hs) (w0 hs)) := by
      unfold writeG at h0
      have c1 : ¬ (!hs.myTurn) = true := by simp [hr.1]
      have c2 : ¬ hs.pos ≥ hs.msgs.length := by have := hr.2; omega
      simp only [c1, c2, ↓reduceIte, Bool.false_eq_true, List.append_eq_nil_iff] at h0
      rw [h0.1]; exact NoInst.nil
    obtain ⟨m, hm1, hm2, hm3, hm4⟩ := toksG_pre S cap (curToks hs) (w0 hs)
      (by unfold EAE at hp; rw [hk] at hp; exact hp) hk
    obtain ⟨e1, e2, e3⟩ := hm4 hl hn'
    obtain ⟨ct, hct, hsym⟩ := writeInner_ok_payload S hs p cap n hok
    have hend : (loopOf S hs cap).2.hs.sym = sChain S hs.sym hs.s.val.pub (curToks hs).length := e3
    rw [hend] at hct hsym
    rw [hsym]
    have hkc : (sChain S hs.sym hs.s.val.pub (curToks hs).length).hasKey = true := by
      rw [(sChain_key S _ _ _).2.1]; exact hk
    rcases sym_encrypt_keyed S (sChain S hs.sym hs.s.val.pub (curToks hs).length) p
        (cap - (loopOf S hs cap).2.acc.length) hkc with ⟨hne, _, a2, _⟩ | ⟨b1, _⟩
    · rw [a2]
      simp only [symAfterEnc, Sym.mixHash]
      rw [succ_toNat _ hne, sChain_n S _ _ _ (fun t' ht' => hm3 t' (by omega)), e2]
    · exact absurd hct (b1 ct)
  · have hn' : NoInst (toksG S cap (curToks hs) (w0 hs)) := by rw [hg] at hn; exact hn.left
    obtain ⟨m, hm1, hm2, hm3, hm4⟩ := toksG_pre S cap (curToks hs) (w0 hs)
      (by unfold EAE at hp; rw [hk] at hp; exact hp) hk
    obtain ⟨e1, e2, e3⟩ := hm4 hl hn'
    obtain ⟨ct, hct, hsym⟩ := writeInner_ok_payload S hs p cap n hok
    have hend : (loopOf S hs cap).2.hs.sym = sChain S hs.sym hs.s.val.pub (curToks hs).length := e3
    rw [hend] at hct hsym
    rw [hsym]
    have hkc : (sChain S hs.sym hs.s.val.pub (curToks hs).length).hasKey = true := by
      rw [(sChain_key S _ _ _).2.1]; exact hk
    rcases sym_encrypt_keyed S (sChain S hs.sym hs.s.val.pub (curToks hs).length) p
        (cap - (loopOf S hs cap).2.acc.length) hkc with ⟨hne, _, a2, _⟩ | ⟨b1, _⟩
    · rw [a2]
      simp only [symAfterEnc, Sym.mixHash]
      rw [succ_toNat _ hne, sChain_n S _ _ _ (fun t' ht' => hm3 t' (by omega)), e2]
    · exact absurd hct (b1 ct)

end SnowVerif.C06
