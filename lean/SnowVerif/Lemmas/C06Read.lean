/-
  C06, handshake read (`read_message` of handshakestate.rs): a read performs no AEAD encryption
  at all (only decryptions), whatever the message and the outcome.
-/
import SnowVerif.Lemmas.C06Cipher
import SnowVerif.Lemmas.Handshake

namespace SnowVerif.C06
open SnowVerif SnowVerif.Model SnowVerif.Model.HS
set_option linter.unusedVariables false
set_option linter.unusedSimpArgs false

/-- A log without `enc` events. -/
def NoEnc (l : List Event) : Prop := ∀ kk nn a p, Event.enc kk nn a p ∉ l

theorem NoEnc.nil : NoEnc [] := by intro kk nn a p; simp

theorem NoEnc.append {l1 l2 : List Event} (h1 : NoEnc l1) (h2 : NoEnc l2) : NoEnc (l1 ++ l2) := by
  intro kk nn a p hm
  rcases List.mem_append.mp hm with h | h
  · exact h1 kk nn a p h
  · exact h2 kk nn a p h

theorem sym_decrypt_no_enc (S : Suite) (st : Sym) (d : Bytes) (cap : Nat) :
    NoEnc (st.decryptAndMixHash S d cap).2.2.2 := by
  unfold Sym.decryptAndMixHash
  by_cases hk : st.hasKey = true
  · simp only [hk, ↓reduceIte]
    exact (decryptAd_facts S st.cs st.h d cap).2.2
  · simp only [hk, ↓reduceIte, Bool.false_eq_true]
    split <;> exact NoEnc.nil

theorem readTok_no_enc (S : Suite) (r : RS) (t : Tok) (h : NoEnc r.ev) : NoEnc (readTok S r t).2.ev := by
  cases t with
  | e =>
    simp only [readTok]
    split <;> exact h
  | s =>
    simp only [readTok]
    by_cases c : r.ptr.length < S.pubLen + (if r.hs.sym.hasKey = true then 16 else 0)
    · simp only [c, ↓reduceIte]; exact h
    · simp only [c, ↓reduceIte]; exact h.append (sym_decrypt_no_enc S _ _ _)
  | psk n => exact h
  | ee => exact h
  | es => exact h
  | se => exact h
  | ss => exact h

theorem readToks_no_enc (S : Suite) (ts : List Tok) (r : RS) (h : NoEnc r.ev) : NoEnc (readToks S ts r).2.ev := by
  induction ts generalizing r with
  | nil => exact h
  | cons t ts ih =>
    unfold readToks
    have h1 := readTok_no_enc S r t h
    split
    · exact ih _ h1
    · exact h1

theorem readInner_no_enc (S : Suite) (hs : HS) (m : Bytes) (cap : Nat) : NoEnc (readInner S hs m cap).2.2.2 := by
  have hl := readToks_no_enc S (hs.msgs.getD hs.pos []) { hs := hs, ptr := m, ev := [] } NoEnc.nil
  unfold readInner
  simp only
  repeat' split
  all_goals first
    | exact NoEnc.nil
    | exact hl
    | exact hl.append (sym_decrypt_no_enc S _ _ _)

/-- **A handshake read never encrypts**: its log contains no `enc` event. -/
theorem readMessage_no_enc (S : Suite) (hs : HS) (m : Bytes) (cap : Nat) : NoEnc (hs.readMessage S m cap).2.2.2 := by
  have h := readInner_no_enc S hs m cap
  unfold readMessage
  simp only
  cases (readInner S hs m cap).1 <;> exact h

end SnowVerif.C06
