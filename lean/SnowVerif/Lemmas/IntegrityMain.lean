/-
  Integrity, part 5: the end-to-end statements on the specification, for either party writing first.

  * `run_pre`               `Pre` and the bookkeeping along a run;
  * `altered_hash_differs`  any alteration shows in the handshake hash;
  * `integrity_main`        C03 on the specification;
  * `agreement_main`        C08 on the specification.

  The hypotheses `hE`, `heph` of `run_pre` and `altered_hash_differs` are not used (the primed
  versions do without them); they are kept so that the statements are the agreed ones.
-/
import SnowVerif.Lemmas.IntegrityRun
set_option linter.unusedVariables false
set_option linter.unusedSimpArgs false

namespace SnowVerif.Spec.Integrity
open SnowVerif SnowVerif.Spec Bytes

/-- `Pre` is an invariant of runs (whatever is delivered), a run of `n` steps sends `n` messages
    and consumes `n` message patterns of either party.  Needs only `HashLen`. -/
theorem run_pre' (S : Suite) (hL : S.HashLen) (ini : Bool) (A B A' B' : HandshakeState)
    (steps : List Step) (tr : List Sent) (hp : Pre S A B)
    (h : run S ini A B steps = some (A', B', tr)) :
    Pre S A' B' ∧ tr.length = steps.length ∧ A'.msgs = A.msgs.drop steps.length ∧
      B'.msgs = B.msgs.drop steps.length := by
  cases ini with
  | true => exact run_pre_true hL steps hp h
  | false =>
    obtain ⟨h1, h2, h3, h4⟩ := run_pre_true hL steps hp.symm (run_false h)
    exact ⟨h1.symm, h2, h4, h3⟩

/-- `Pre` is an invariant of runs of the specification's `WriteMessage`/`ReadMessage` in which
    every call succeeds, whatever bytes are delivered; the transcript has one entry per step and
    each step consumes one message pattern. -/
theorem run_pre (S : Suite) (hL : S.HashLen) (hE : S.EncLen) (ini : Bool) (A B A' B' : HandshakeState)
    (steps : List Step) (tr : List Sent) (hp : Pre S A B)
    (heph : ∀ st ∈ steps, st.eph.pub.length = S.pubLen)
    (h : run S ini A B steps = some (A', B', tr)) :
    Pre S A' B' ∧ tr.length = steps.length ∧ A'.msgs = A.msgs.drop steps.length :=
  let r := run_pre' S hL ini A B A' B' steps tr hp h
  ⟨r.1, r.2.1, r.2.2.1⟩

/-- Any alteration of any message (and any earlier difference of `h`) shows in the handshake
    hash of the two parties at the end of the run, or the run exhibits a hash collision.
    Needs only `HashLen`. -/
theorem altered_hash_differs' (S : Suite) (hL : S.HashLen) (ini : Bool) (A B A' B' : HandshakeState)
    (steps : List Step) (tr : List Sent) (hp : Pre S A B)
    (h : run S ini A B steps = some (A', B', tr)) (halt : A.ss.h ≠ B.ss.h ∨ ∃ x ∈ tr, x.altered) :
    A'.ss.h ≠ B'.ss.h ∨ HashCollision S := by
  cases ini with
  | true => exact run_h_true hL steps hp h halt
  | false =>
    have halt' : B.ss.h ≠ A.ss.h ∨ ∃ x ∈ tr, x.altered := halt.imp Ne.symm id
    rcases run_h_true hL steps hp.symm (run_false h) halt' with h | h
    · exact Or.inl (Ne.symm h)
    · exact Or.inr h

/-- **Any alteration shows in the handshake hash**: if some message of a run in which every call
    succeeds was not delivered as written, the two parties end with different handshake hashes `h`
    (hence different channel-binding values), or the run exhibits a hash collision. -/
theorem altered_hash_differs (S : Suite) (hL : S.HashLen) (hE : S.EncLen) (ini : Bool) (A B A' B' : HandshakeState)
    (steps : List Step) (tr : List Sent) (hp : Pre S A B)
    (heph : ∀ st ∈ steps, st.eph.pub.length = S.pubLen)
    (h : run S ini A B steps = some (A', B', tr)) (halt : ∃ x ∈ tr, x.altered) :
    A'.ss.h ≠ B'.ss.h ∨ HashCollision S :=
  altered_hash_differs' S hL ini A B A' B' steps tr hp h (Or.inr halt)

/-- The common core of `integrity_main` and `agreement_main`, for either party writing first:
    the parties are diverged or disagree on a psk still to be used, or a message other than the
    last is altered; the last message is delivered unmodified and its payload is keyed; every call
    of both parties succeeds up to the end of the handshake.  Then the run exhibits a collision. -/
theorem run_core (S : Suite) (hL : S.HashLen) (hE : S.EncLen) (hD : S.DecSound) (ini : Bool)
    (A B A' B' : HandshakeState) (steps : List Step) (tr : List Sent) (hp : Pre S A B) (hk : LastKeyed A)
    (hlen : steps.length = A.msgs.length) (hne : steps ≠ [])
    (heph : ∀ st ∈ steps, st.eph.pub.length = S.pubLen)
    (h : run S ini A B steps = some (A', B', tr))
    (hlast : ∀ x, tr.getLast? = some x → ¬ x.altered)
    (hd : (Div A B ∨ PskMismatch A B) ∨ ∃ i x, i + 1 < tr.length ∧ tr[i]? = some x ∧ x.altered) :
    Coll S ∨ AeadCollision S := by
  cases ini with
  | true => exact run_core_true hL hE hD steps hp hk hlen hne heph h hlast hd
  | false =>
    refine run_core_true hL hE hD steps hp.symm (hk.of_pre hp) (by rw [← hp.msgs]; exact hlen) hne heph
      (run_false h) hlast ?_
    rcases hd with (h | h) | h
    · exact Or.inl (Or.inl h.symm)
    · exact Or.inl (Or.inr (h.symm hp.msgs))
    · exact Or.inr h

/-- **C03 on the specification.**  If a handshake message other than the last is altered in any
    way (and the last one is delivered unmodified, its payload being processed under a key), it is
    impossible that every `WriteMessage`/`ReadMessage` call of both parties succeeds up to the end
    of the handshake, unless the run exhibits a hash collision, a KDF coincidence or an AEAD
    collision. -/
theorem integrity_main (S : Suite) (hL : S.HashLen) (hE : S.EncLen) (hD : S.DecSound) (ini : Bool)
    (A B A' B' : HandshakeState) (steps : List Step) (tr : List Sent) (hp : Pre S A B) (hk : LastKeyed A)
    (hlen : steps.length = A.msgs.length)
    (heph : ∀ st ∈ steps, st.eph.pub.length = S.pubLen)
    (h : run S ini A B steps = some (A', B', tr))
    (halt : ∃ i x, i + 1 < tr.length ∧ tr[i]? = some x ∧ x.altered)
    (hlast : ∀ x, tr.getLast? = some x → ¬ x.altered) :
    Coll S ∨ AeadCollision S := by
  have hne : steps ≠ [] := by
    intro e
    subst e
    obtain ⟨i, x, hi, _⟩ := halt
    have := (run_pre' S hL ini A B A' B' [] tr hp h).2.1
    rw [this] at hi
    simp at hi
  exact run_core S hL hE hD ini A B A' B' steps tr hp hk hlen hne heph h hlast (Or.inr halt)

/-- **C08 on the specification.**  If the two parties start a handshake in diverged symmetric
    states (different `h`: protocol name, prologue, pre-message keys, see `init_*_div`) or hold
    different pre-shared keys for a `psk` token, then even with every message delivered
    unmodified it is impossible that every call succeeds up to the end of the handshake (whose
    last payload is keyed), unless the run exhibits a collision-type witness. -/
theorem agreement_main (S : Suite) (hL : S.HashLen) (hE : S.EncLen) (hD : S.DecSound) (ini : Bool)
    (A B : HandshakeState) (steps : List Step) (r : HandshakeState × HandshakeState × List Sent)
    (hp : Pre S A B) (hk : LastKeyed A) (hne : A.msgs ≠ [])
    (hlen : steps.length = A.msgs.length)
    (heph : ∀ st ∈ steps, st.eph.pub.length = S.pubLen)
    (hun : ∀ st ∈ steps, st.deliver = none)
    (hd : Div A B ∨ PskMismatch A B)
    (h : run S ini A B steps = some r) :
    Coll S ∨ AeadCollision S := by
  obtain ⟨A', B', tr⟩ := r
  have hne' : steps ≠ [] := by
    intro e; subst e
    exact hne (List.eq_nil_of_length_eq_zero hlen.symm)
  refine run_core S hL hE hD ini A B A' B' steps tr hp hk hlen hne' heph h ?_ (Or.inl hd)
  intro x hx
  exact run_unaltered S ini A B A' B' steps tr hun h x (List.mem_of_getLast? hx)

end SnowVerif.Spec.Integrity
