/-
  C01, converse direction ("whatever the specification accepts, snow accepts"): the law on the
  AEAD that the converse needs, the exact description of snow's nonce guard along a message
  pattern (`NonceOk`), and the converse step lemmas for `encrypt_and_mix_hash` /
  `decrypt_and_mix_hash`.
-/
import SnowVerif.Lemmas.C01Side

namespace SnowVerif.Suite

/-- Law (consequence of `DecSound` and `EncLen`): an accepted ciphertext is exactly 16 bytes
    longer than the plaintext returned; in particular nothing shorter than a tag is accepted.
    (`DecLen` of C14 is the truncated-subtraction form, which says nothing about ciphertexts
    shorter than 16 bytes; snow rejects those before calling the AEAD.) -/
def DecTag (S : Suite) : Prop := ∀ k n ad c p, S.dec k n ad c = some p → c.length = p.length + 16

/-- `DecTag` follows from `DecSound` and `EncLen`. -/
theorem decTag_of_sound (S : Suite) (h1 : S.DecSound) (h2 : S.EncLen) : S.DecTag := by
  intro k n ad c p h
  have := h1 k n ad c p h
  rw [this, h2]

/-- `DecTag` implies C14's `DecLen`. -/
theorem decLen_of_tag (S : Suite) (h : S.DecTag) : S.DecLen := by
  intro k n ad c p hd
  have := h k n ad c p hd
  omega

end SnowVerif.Suite

namespace SnowVerif.C01
open SnowVerif SnowVerif.Model SnowVerif.Model.HS SnowVerif.Bytes SnowVerif.Framing
set_option linter.unusedVariables false
set_option linter.unusedSimpArgs false

/-! ### The nonce guard along a message pattern -/

/-- The handshake cipher's nonce after one successful token, as the code evolves it: `mix_key`
    (`e` in psk mode, every DH token) and `mix_key_and_hash` (`psk`) reset it to 0, an encrypted
    `s` increments it. `k` is `has_key` before the token. -/
def nonceStep (isPsk : Bool) (t : Tok) (k : Bool) (n : UInt64) : UInt64 :=
  match t with
  | .e => if isPsk then 0 else n
  | .s => if k then n + 1 else n
  | _ => 0

/-- **snow's nonce guard, exactly**: every AEAD operation of the message (an `s` token met keyed;
    the payload if the cipher is keyed when it is processed) finds the nonce different from
    `2^64 - 1`. `k`, `n`: `has_key` and the nonce at the start of the token list. -/
def NonceOk (isPsk : Bool) : List Tok → Bool → UInt64 → Bool
  | [], k, n => !k || n != CipherState.nonceMax
  | t :: ts, k, n =>
    (match t with
     | .s => !k || n != CipherState.nonceMax
     | _ => true) && NonceOk isPsk ts (tokKeyed isPsk t k) (nonceStep isPsk t k n)

/-- Nothing to check for an empty pattern met un-keyed. -/
theorem nonceOk_unkeyed_nil (isPsk : Bool) (n : UInt64) : NonceOk isPsk [] false n = true := rfl

/-- The guard cannot fire when the nonce is far enough from the end: there are at most
    `count s + 1` AEAD operations in a message. -/
theorem nonceOk_of_bound (isPsk : Bool) (ts : List Tok) (k : Bool) (n : UInt64)
    (h : n.toNat + ts.count .s + 1 < 2 ^ 64) : NonceOk isPsk ts k n = true := by
  induction ts generalizing k n with
  | nil =>
    simp only [NonceOk, Bool.or_eq_true, Bool.not_eq_true', bne_iff_ne, ne_eq]
    right
    intro hn
    rw [hn] at h
    simp [CipherState.nonceMax] at h
  | cons t ts ih =>
    have hc : ts.count .s ≤ (t :: ts).count .s := List.count_le_count_cons
    have h0 : (0 : UInt64).toNat + ts.count .s + 1 < 2 ^ 64 := by
      simp only [UInt64.toNat_zero]; omega
    simp only [NonceOk, Bool.and_eq_true]
    cases t with
    | s =>
      simp only [List.count_cons_self] at h
      refine ⟨?_, ?_⟩
      · simp only [Bool.or_eq_true, Bool.not_eq_true', bne_iff_ne, ne_eq]
        right
        intro hn
        rw [hn] at h
        simp [CipherState.nonceMax] at h
        omega
      · apply ih
        simp only [nonceStep]
        split
        · rw [UInt64.toNat_add]
          simp only [UInt64.toNat_one]
          have : (n.toNat + 1) % 2 ^ 64 = n.toNat + 1 := Nat.mod_eq_of_lt (by omega)
          omega
        · omega
    | e =>
      refine ⟨rfl, ih _ _ ?_⟩
      simp only [nonceStep]
      split
      · exact h0
      · omega
    | psk m => exact ⟨rfl, ih _ _ h0⟩
    | ee => exact ⟨rfl, ih _ _ h0⟩
    | es => exact ⟨rfl, ih _ _ h0⟩
    | se => exact ⟨rfl, ih _ _ h0⟩
    | ss => exact ⟨rfl, ih _ _ h0⟩

/-! ### What the converse needs of the symmetric state -/

/-- The part of the model invariant `SymInv` (C10) the converse needs: when `has_key` is set, a
    key is installed in the handshake cipher. -/
theorem cs_keyed_of_inv {sym : Sym} (h : SymInv sym) (hk : sym.hasKey = true) : sym.cs.hasKey = true := by
  have h2 := h.2 hk
  cases hkk : sym.k with
  | none => rw [hkk] at h2; cases h2
  | some key => exact (h.1 key hkk).2

/-- **Converse of `decrypt_abs`.** If the specification's `DecryptAndHash` accepts on the
    abstract state, snow's `decrypt_and_mix_hash` succeeds with the same plaintext, provided the
    plaintext fits the output buffer and the nonce guard does not fire. -/
theorem decrypt_complete (S : Suite) (hT : S.DecTag) (sym : Sym) (ct : Bytes) (cap : Nat) (p : Bytes)
    (ss' : Spec.SymmetricState) (hinv : SymInv sym)
    (hn : sym.hasKey = true → sym.cs.n ≠ CipherState.nonceMax) (hcap : p.length ≤ cap)
    (h : (absSym sym).decryptAndHash S ct = some (p, ss')) :
    (sym.decryptAndMixHash S ct cap).1 = .ok p := by
  unfold Sym.decryptAndMixHash
  unfold Spec.SymmetricState.decryptAndHash absSym at h
  cases hk : sym.hasKey with
  | true =>
    simp only [hk, ↓reduceIte] at h ⊢
    have hck := cs_keyed_of_inv hinv hk
    have hnn := hn hk
    cases hd : S.dec sym.cs.key sym.cs.n sym.h ct with
    | none => simp [hd] at h
    | some q =>
      simp only [hd, Option.some.injEq, Prod.mk.injEq] at h
      obtain ⟨rfl, _⟩ := h
      have hl := hT _ _ _ _ _ hd
      unfold CipherState.decryptAd
      have g1 : ¬ (ct.length < 16) := by omega
      have g2 : ¬ (cap < ct.length - 16) := by omega
      simp only [g1, g2, decide_false, Bool.or_self, Bool.false_eq_true, ↓reduceIte, hck, Bool.not_true,
        beq_iff_eq, hnn, hd]
  | false =>
    simp only [hk, Bool.false_eq_true, ↓reduceIte, Option.some.injEq, Prod.mk.injEq] at h ⊢
    obtain ⟨rfl, _⟩ := h
    have g : ¬ cap < ct.length := by omega
    simp only [g, ↓reduceIte]

/-- **Converse of `encrypt_abs`.** snow's `encrypt_and_mix_hash` succeeds (the specification's
    `EncryptAndHash` has no error path) whenever the output fits the buffer and the nonce guard
    does not fire. -/
theorem encrypt_complete (S : Suite) (sym : Sym) (pt : Bytes) (cap : Nat) (hinv : SymInv sym)
    (hn : sym.hasKey = true → sym.cs.n ≠ CipherState.nonceMax)
    (hcap : pt.length + (if sym.hasKey then 16 else 0) ≤ cap) :
    (sym.encryptAndMixHash S pt cap).1 = .ok ((absSym sym).encryptAndHash S pt).1 := by
  unfold Sym.encryptAndMixHash Spec.SymmetricState.encryptAndHash absSym
  cases hk : sym.hasKey with
  | true =>
    simp only [hk, ↓reduceIte] at hcap ⊢
    have hck := cs_keyed_of_inv hinv hk
    rw [CipherState.encryptAd_eval hck (hn hk) hcap]
  | false =>
    simp only [hk, Bool.false_eq_true, ↓reduceIte, Nat.add_zero] at hcap ⊢
    have g : ¬ cap < pt.length := by omega
    simp only [g, ↓reduceIte]

end SnowVerif.C01
