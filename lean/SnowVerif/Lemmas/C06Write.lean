/-
  C06, handshake write (`_write_message` / `write_message` of handshakestate.rs): the ghost log of
  one call (its events plus a marker for every key installation made by a token), its nonce
  discipline, and where the events of a call come from.
-/
import SnowVerif.Lemmas.C06Cipher
import SnowVerif.Lemmas.C14Write

namespace SnowVerif.C06
open SnowVerif SnowVerif.Model SnowVerif.Model.HS
set_option linter.unusedVariables false
set_option linter.unusedSimpArgs false

/-- The tokens whose successful processing installs a key in the handshake cipher
    (`mix_key` for DH tokens and for `e` in psk mode, `mix_key_and_hash` for `psk`). -/
def installsTok (isPsk : Bool) : Tok → Bool
  | .e => isPsk
  | .s => false
  | _ => true

/-- The events one token appends to the call's log. -/
def tokEv (S : Suite) (cap : Nat) (w : WS) (t : Tok) : List Event :=
  (writeTok S cap w t).2.ev.drop w.ev.length

theorem tokEv_of_eq {S : Suite} {cap : Nat} {w : WS} {t : Tok} {x : List Event}
    (h : (writeTok S cap w t).2.ev = w.ev ++ x) : tokEv S cap w t = x := by
  simp [tokEv, h]

/-- The handshake cipher of a working state. -/
abbrev wcs (w : WS) : CipherState := w.hs.sym.cs

/-- Everything C06 needs to know about one token:
    * the log only grows, by `tokEv`;
    * a token that does not succeed appends nothing;
    * only `s` can append an `enc`, and what it appends is `encrypt_and_mix_hash` of the local
      static public key;
    * a token that does not install (and any token that fails) moves the cipher only as that
      `encrypt_and_mix_hash` does. -/
theorem writeTok_facts (S : Suite) (cap : Nat) (w : WS) (t : Tok) :
    (writeTok S cap w t).2.ev = w.ev ++ tokEv S cap w t ∧
    ((writeTok S cap w t).1 ≠ .ok () → tokEv S cap w t = []) ∧
    (t ≠ .s → ∀ kk nn a p, Event.enc kk nn a p ∉ tokEv S cap w t) ∧
    ((installsTok w.hs.isPsk t = false ∨ (writeTok S cap w t).1 ≠ .ok ()) →
      Discipline (wcs w).key (wcs w).n.toNat ((tokEv S cap w t).map .ev)
        (wcs (writeTok S cap w t).2).key (wcs (writeTok S cap w t).2).n.toNat) ∧
    (∀ kk nn a p, Event.enc kk nn a p ∈ tokEv S cap w t →
      t = .s ∧ kk = (wcs w).key ∧ nn = (wcs w).n ∧ a = w.hs.sym.h ∧ p = w.hs.s.val.pub) := by
  cases t with
  | e =>
    have key : ∃ x, (writeTok S cap w .e).2.ev = w.ev ++ x ∧ (∀ kk nn a p, Event.enc kk nn a p ∉ x) ∧
        ((writeTok S cap w .e).1 ≠ .ok () → x = [] ∧ (writeTok S cap w .e).2 = w) ∧
        (w.hs.isPsk = false → (wcs (writeTok S cap w .e).2) = wcs w) := by
      rw [writeTok_e_eq]
      by_cases c1 : w.acc.length + S.pubLen > cap
      · simp only [c1, ↓reduceIte]; exact ⟨[], by simp, by simp, fun _ => ⟨rt, rt⟩, fun _ => rt⟩
      · simp only [c1, ↓reduceIte]
        cases hf : w.hs.fixedE with
        | true =>
          simp only [↓reduceIte, eStep]
          refine ⟨[], by simp, by simp, fun hno => absurd rfl hno, fun hp => ?_⟩
          simp only [wcs, hp, Bool.false_eq_true, ↓reduceIte, Sym.mixHash]
        | false =>
          simp only [Bool.false_eq_true, ↓reduceIte]
          by_cases c2 : S.validPriv (rngDraw w.hs.rng S.privLen).1 = true
          · simp only [c2, ↓reduceIte, eStep]
            refine ⟨[.rng (rngDraw w.hs.rng S.privLen).1], rt, by simp, fun hno => absurd rfl hno, fun hp => ?_⟩
            simp only [wcs, hp, Bool.false_eq_true, ↓reduceIte, Sym.mixHash]
          · simp only [c2, ↓reduceIte, Bool.false_eq_true]
            exact ⟨[], by simp, by simp, fun _ => ⟨rt, rt⟩, fun _ => rt⟩
    obtain ⟨x, h1, h2, h3, h4⟩ := key
    have hx := tokEv_of_eq h1
    rw [hx]
    refine ⟨h1, fun hno => (h3 hno).1, fun _ => h2, ?_, fun kk nn a p hm => absurd hm (h2 kk nn a p)⟩
    intro hh
    rcases hh with hh | hh
    · simp only [installsTok] at hh
      rw [h4 hh]
      exact Discipline.of_quiet _ _ _ h2
    · rw [(h3 hh).1, (h3 hh).2]; exact Discipline.refl _ _
  | s =>
    have key : ∃ x, (writeTok S cap w .s).2.ev = w.ev ++ x ∧
        ((writeTok S cap w .s).1 ≠ .ok () → x = []) ∧
        Discipline (wcs w).key (wcs w).n.toNat (x.map .ev)
          (wcs (writeTok S cap w .s).2).key (wcs (writeTok S cap w .s).2).n.toNat ∧
        (x = [] ∨ x = [.enc (wcs w).key (wcs w).n w.hs.sym.h w.hs.s.val.pub]) := by
      rw [writeTok_s_eq]
      by_cases c1 : (!w.hs.s.on) = true
      · simp only [c1, ↓reduceIte]; exact ⟨[], by simp, fun _ => rfl, Discipline.refl _ _, Or.inl rfl⟩
      · simp only [c1, ↓reduceIte, Bool.false_eq_true]
        by_cases c2 : w.acc.length + S.pubLen + (if w.hs.sym.hasKey = true then 16 else 0) > cap
        · simp only [c2, ↓reduceIte]; exact ⟨[], by simp, fun _ => rfl, Discipline.refl _ _, Or.inl rfl⟩
        · simp only [c2, ↓reduceIte]
          refine ⟨_, rfl, ?_, sym_encrypt_discipline S w.hs.sym _ _, (sym_encrypt_ev S w.hs.sym _ _).1⟩
          intro hno
          apply ((sym_encrypt_ev S w.hs.sym w.hs.s.val.pub (cap - w.acc.length)).2 ?_).1
          intro c hc
          rw [hc] at hno
          exact hno rfl
    obtain ⟨x, h1, h2, h3, h4⟩ := key
    have hx := tokEv_of_eq h1
    rw [hx]
    refine ⟨h1, h2, fun hne => absurd rfl hne, fun _ => h3, ?_⟩
    intro kk nn a p hm
    rcases h4 with h4 | h4
    · rw [h4] at hm; simp at hm
    · rw [h4] at hm
      simp only [List.mem_singleton, Event.enc.injEq] at hm
      exact ⟨rfl, hm.1, hm.2.1, hm.2.2.1, hm.2.2.2⟩
  | psk n =>
    have h1 : (writeTok S cap w (.psk n)).2.ev = w.ev ++ [] := by rw [writeTok_psk_eq]; simp
    have hx := tokEv_of_eq h1
    rw [hx]
    refine ⟨h1, fun _ => rfl, fun _ => by simp, ?_, by simp⟩
    intro hh
    rcases hh with hh | hh
    · simp [installsTok] at hh
    · have : (writeTok S cap w (.psk n)).2 = w := by
        rw [writeTok_psk_eq] at hh ⊢
        unfold pskStep at hh ⊢
        repeat' split
        all_goals first | rfl | simp_all
      rw [this]; exact Discipline.refl _ _
  | ee =>
    have h1 : (writeTok S cap w .ee).2.ev = w.ev ++ [] := by rw [writeTok_dh_eq S cap w _ (by simp)]; simp
    have hx := tokEv_of_eq h1
    rw [hx]
    refine ⟨h1, fun _ => rfl, fun _ => by simp, ?_, by simp⟩
    intro hh
    rcases hh with hh | hh
    · simp [installsTok] at hh
    · have : (writeTok S cap w .ee).2 = w := by
        rw [writeTok_dh_eq S cap w _ (by simp)] at hh ⊢
        unfold dhStep at hh ⊢
        repeat' split
        all_goals first | rfl | simp_all
      rw [this]; exact Discipline.refl _ _
  | es =>
    have h1 : (writeTok S cap w .es).2.ev = w.ev ++ [] := by rw [writeTok_dh_eq S cap w _ (by simp)]; simp
    have hx := tokEv_of_eq h1
    rw [hx]
    refine ⟨h1, fun _ => rfl, fun _ => by simp, ?_, by simp⟩
    intro hh
    rcases hh with hh | hh
    · simp [installsTok] at hh
    · have : (writeTok S cap w .es).2 = w := by
        rw [writeTok_dh_eq S cap w _ (by simp)] at hh ⊢
        unfold dhStep at hh ⊢
        repeat' split
        all_goals first | rfl | simp_all
      rw [this]; exact Discipline.refl _ _
  | se =>
    have h1 : (writeTok S cap w .se).2.ev = w.ev ++ [] := by rw [writeTok_dh_eq S cap w _ (by simp)]; simp
    have hx := tokEv_of_eq h1
    rw [hx]
    refine ⟨h1, fun _ => rfl, fun _ => by simp, ?_, by simp⟩
    intro hh
    rcases hh with hh | hh
    · simp [installsTok] at hh
    · have : (writeTok S cap w .se).2 = w := by
        rw [writeTok_dh_eq S cap w _ (by simp)] at hh ⊢
        unfold dhStep at hh ⊢
        repeat' split
        all_goals first | rfl | simp_all
      rw [this]; exact Discipline.refl _ _
  | ss =>
    have h1 : (writeTok S cap w .ss).2.ev = w.ev ++ [] := by rw [writeTok_dh_eq S cap w _ (by simp)]; simp
    have hx := tokEv_of_eq h1
    rw [hx]
    refine ⟨h1, fun _ => rfl, fun _ => by simp, ?_, by simp⟩
    intro hh
    rcases hh with hh | hh
    · simp [installsTok] at hh
    · have : (writeTok S cap w .ss).2 = w := by
        rw [writeTok_dh_eq S cap w _ (by simp)] at hh ⊢
        unfold dhStep at hh ⊢
        repeat' split
        all_goals first | rfl | simp_all
      rw [this]; exact Discipline.refl _ _

/-- Ghost log of one token: its events, then a marker if the token installed a key (it is one of
    the installing tokens and it succeeded), carrying the key and counter found in the handshake
    cipher afterwards. -/
def tokG (S : Suite) (cap : Nat) (w : WS) (t : Tok) : List GEv :=
  (tokEv S cap w t).map .ev ++
  (if installsTok w.hs.isPsk t && (writeTok S cap w t).1.isOk then
     [.install (wcs (writeTok S cap w t).2).key (wcs (writeTok S cap w t).2).n] else [])

theorem erase_tokG (S : Suite) (cap : Nat) (w : WS) (t : Tok) : erase (tokG S cap w t) = tokEv S cap w t := by
  unfold tokG
  rw [erase_append, erase_map_ev]
  split <;> simp [erase]

theorem isOk_unit (r : Res Unit) : r.isOk = true ↔ r = .ok () := by
  cases r with
  | ok u => cases u; simp [Res.isOk]
  | err e => simp [Res.isOk]
  | panic q => simp [Res.isOk]

theorem tokG_discipline (S : Suite) (cap : Nat) (w : WS) (t : Tok) :
    Discipline (wcs w).key (wcs w).n.toNat (tokG S cap w t)
      (wcs (writeTok S cap w t).2).key (wcs (writeTok S cap w t).2).n.toNat := by
  obtain ⟨_, _, h3, h4, _⟩ := writeTok_facts S cap w t
  unfold tokG
  by_cases c : (installsTok w.hs.isPsk t && (writeTok S cap w t).1.isOk) = true
  · simp only [c, ↓reduceIte]
    have hts : t ≠ .s := by
      intro hs; subst hs; simp [installsTok] at c
    refine (Discipline.of_quiet _ _ _ (h3 hts)).append ?_
    exact Discipline.refl _ _
  · simp only [c, ↓reduceIte, List.append_nil, Bool.false_eq_true]
    apply h4
    cases hi : installsTok w.hs.isPsk t with
    | false => exact Or.inl rfl
    | true =>
      right
      intro hok
      apply c
      simp [hi, hok, Res.isOk]

/-- Ghost log of the token loop. -/
def toksG (S : Suite) (cap : Nat) : List Tok → WS → List GEv
  | [], _ => []
  | t :: ts, w =>
    tokG S cap w t ++
      (match (writeTok S cap w t).1 with
       | .ok () => toksG S cap ts (writeTok S cap w t).2
       | _ => [])

/-- The events of the token loop are the ghost log with the markers erased. -/
theorem writeToks_ev (S : Suite) (cap : Nat) (ts : List Tok) (w : WS) :
    (writeToks S cap ts w).2.ev = w.ev ++ erase (toksG S cap ts w) := by
  induction ts generalizing w with
  | nil => simp [writeToks, toksG, erase]
  | cons t ts ih =>
    have h1 := (writeTok_facts S cap w t).1
    unfold writeToks toksG
    rw [erase_append, erase_tokG]
    cases hr : (writeTok S cap w t).1 with
    | ok u => cases u; simp only; rw [ih, h1, List.append_assoc]
    | err e => simp only [erase, List.append_nil]; exact h1
    | panic q => simp only [erase, List.append_nil]; exact h1

theorem toksG_discipline (S : Suite) (cap : Nat) (ts : List Tok) (w : WS) :
    Discipline (wcs w).key (wcs w).n.toNat (toksG S cap ts w)
      (wcs (writeToks S cap ts w).2).key (wcs (writeToks S cap ts w).2).n.toNat := by
  induction ts generalizing w with
  | nil => exact Discipline.refl _ _
  | cons t ts ih =>
    have h1 := tokG_discipline S cap w t
    unfold writeToks toksG
    cases hr : (writeTok S cap w t).1 with
    | ok u => cases u; simp only; exact h1.append (ih _)
    | err e => simp only [List.append_nil]; exact h1
    | panic q => simp only [List.append_nil]; exact h1

/-- Every encryption made by the token loop is the encryption of an `s` field: the plaintext is
    the local static public key. -/
theorem toksG_enc_is_s (S : Suite) (cap : Nat) (ts : List Tok) (w : WS) (kk : Bytes) (nn : UInt64) (a p : Bytes)
    (h : Event.enc kk nn a p ∈ erase (toksG S cap ts w)) : p = w.hs.s.val.pub ∧ Tok.s ∈ ts := by
  induction ts generalizing w with
  | nil => simp [toksG, erase] at h
  | cons t ts ih =>
    unfold toksG at h
    rw [erase_append, erase_tokG, List.mem_append] at h
    rcases h with h | h
    · have := (writeTok_facts S cap w t).2.2.2.2 kk nn a p h
      exact ⟨this.2.2.2.2, by rw [this.1]; exact List.mem_cons_self⟩
    · cases hr : (writeTok S cap w t).1 with
      | ok u =>
        cases u
        simp only [hr] at h
        have := ih _ h
        rw [(writeTok_frame S cap w t).s] at this
        exact ⟨this.1, List.mem_cons_of_mem _ this.2⟩
      | err e => simp [hr, erase] at h
      | panic q => simp [hr, erase] at h

/-- The number of `enc` events of a log. -/
def encCount : List Event → Nat
  | [] => 0
  | .enc _ _ _ _ :: l => encCount l + 1
  | _ :: l => encCount l

theorem encCount_append (l1 l2 : List Event) : encCount (l1 ++ l2) = encCount l1 + encCount l2 := by
  induction l1 with
  | nil => simp [encCount]
  | cons x l ih => cases x <;> simp [encCount, ih] <;> omega

/-- The token loop encrypts at most once per `s` token. -/
theorem toksG_encCount (S : Suite) (cap : Nat) (ts : List Tok) (w : WS) :
    encCount (erase (toksG S cap ts w)) ≤ ts.count .s := by
  induction ts generalizing w with
  | nil => simp [toksG, erase, encCount]
  | cons t ts ih =>
    unfold toksG
    rw [erase_append, erase_tokG, encCount_append]
    have h1 : encCount (tokEv S cap w t) ≤ if t = .s then 1 else 0 := by
      by_cases hs : t = .s
      · subst hs
        simp only [↓reduceIte]
        -- at most one event: it is `[]` or a singleton
        have hsh : tokEv S cap w .s = [] ∨
            tokEv S cap w .s = [.enc (wcs w).key (wcs w).n w.hs.sym.h w.hs.s.val.pub] := by
          have h0 := (writeTok_facts S cap w .s).1
          rw [writeTok_s_eq] at h0
          by_cases c1 : (!w.hs.s.on) = true
          · simp only [c1, ↓reduceIte] at h0; left; simpa using h0.symm
          · simp only [c1, ↓reduceIte, Bool.false_eq_true] at h0
            by_cases c2 : w.acc.length + S.pubLen + (if w.hs.sym.hasKey = true then 16 else 0) > cap
            · simp only [c2, ↓reduceIte] at h0; left; simpa using h0.symm
            · simp only [c2, ↓reduceIte] at h0
              have h0' := List.append_cancel_left h0
              rw [← h0']
              exact (sym_encrypt_ev S w.hs.sym _ _).1
        rcases hsh with h | h <;> rw [h] <;> simp [encCount]
      · simp only [hs, ↓reduceIte]
        have hq := (writeTok_facts S cap w t).2.2.1 hs
        have : ∀ l : List Event, (∀ kk nn a p, Event.enc kk nn a p ∉ l) → encCount l = 0 := by
          intro l
          induction l with
          | nil => intro _; rfl
          | cons x l ihl =>
            intro hq
            cases x with
            | enc kk nn a p => exact absurd List.mem_cons_self (hq kk nn a p)
            | dec a b c d f => simp only [encCount]; exact ihl (fun kk nn a p hm => hq kk nn a p (List.mem_cons_of_mem _ hm))
            | rng d => simp only [encCount]; exact ihl (fun kk nn a p hm => hq kk nn a p (List.mem_cons_of_mem _ hm))
        rw [this _ hq]; exact Nat.le_refl _
    have h2 : encCount (erase (match (writeTok S cap w t).1 with
        | .ok () => toksG S cap ts (writeTok S cap w t).2
        | _ => [])) ≤ ts.count .s := by
      cases hr : (writeTok S cap w t).1 with
      | ok u => cases u; exact ih _
      | err e => simp [erase, encCount]
      | panic q => simp [erase, encCount]
    rw [List.count_cons]
    by_cases hs : t = .s
    · subst hs; simp only [↓reduceIte, beq_self_eq_true] at h1 ⊢; omega
    · have : (t == Tok.s) = false := by simpa using hs
      simp only [hs, ↓reduceIte, this, Bool.false_eq_true] at h1 ⊢; omega

/-! ### `_write_message` and `write_message` -/

/-- The token list of the message the session is at. -/
abbrev curToks (hs : HS) : List Tok := hs.msgs.getD hs.pos []
/-- The working state `_write_message` starts from. -/
abbrev w0 (hs : HS) : WS := { hs := hs, acc := [], ev := [] }

/-- The events of the payload encryption of `_write_message`, if it is reached: the token loop
    succeeded and both size checks passed. -/
def payloadEv (S : Suite) (hs : HS) (p : Bytes) (cap : Nat) : List Event :=
  let L := writeToks S cap (curToks hs) (w0 hs)
  match L.1 with
  | .ok () =>
    if L.2.acc.length + p.length + 16 > cap then []
    else if L.2.acc.length + p.length + (if L.2.hs.sym.hasKey then 16 else 0) > 65535 then []
    else (L.2.hs.sym.encryptAndMixHash S p (cap - L.2.acc.length)).2.2
  | _ => []

/-- Ghost log of one `_write_message` / `write_message` call. -/
def writeG (S : Suite) (hs : HS) (p : Bytes) (cap : Nat) : List GEv :=
  if !hs.myTurn then [] else if hs.pos ≥ hs.msgs.length then []
  else toksG S cap (curToks hs) (w0 hs) ++ (payloadEv S hs p cap).map .ev

/-- The events `_write_message` returns are the ghost log with the markers erased, and the ghost
    log is disciplined from the cipher state before the call to the one `_write_message` leaves. -/
theorem writeInner_G (S : Suite) (hs : HS) (p : Bytes) (cap : Nat) :
    (writeInner S hs p cap).2.ev = erase (writeG S hs p cap) ∧
    Discipline hs.sym.cs.key hs.sym.cs.n.toNat (writeG S hs p cap)
      (writeInner S hs p cap).2.hs.sym.cs.key (writeInner S hs p cap).2.hs.sym.cs.n.toNat := by
  have hev := writeToks_ev S cap (curToks hs) (w0 hs)
  have hd := toksG_discipline S cap (curToks hs) (w0 hs)
  simp only [List.nil_append] at hev
  unfold writeInner writeG payloadEv
  simp only
  by_cases c1 : (!hs.myTurn) = true
  · simp only [c1, ↓reduceIte, erase]; exact ⟨rt, Discipline.refl _ _⟩
  · simp only [c1, ↓reduceIte, Bool.false_eq_true]
    by_cases c2 : hs.pos ≥ hs.msgs.length
    · simp only [c2, ↓reduceIte, erase]; exact ⟨rt, Discipline.refl _ _⟩
    · simp only [c2, ↓reduceIte]
      generalize hL : writeToks S cap (hs.msgs.getD hs.pos []) { hs := hs, acc := [], ev := [] } = L at hev hd ⊢
      rw [erase_append, erase_map_ev]
      cases hL1 : L.1 with
      | err e => simp only [List.append_nil, List.map_nil]; exact ⟨hev, hd⟩
      | panic q => simp only [List.append_nil, List.map_nil]; exact ⟨hev, hd⟩
      | ok u =>
        cases u
        simp only
        by_cases c3 : L.2.acc.length + p.length + 16 > cap
        · simp only [c3, ↓reduceIte, List.append_nil, List.map_nil]; exact ⟨hev, hd⟩
        · simp only [c3, ↓reduceIte]
          by_cases c4 : L.2.acc.length + p.length + (if L.2.hs.sym.hasKey = true then 16 else 0) > 65535
          · simp only [c4, ↓reduceIte, List.append_nil, List.map_nil]; exact ⟨hev, hd⟩
          · simp only [c4, ↓reduceIte]
            have hp := sym_encrypt_discipline S L.2.hs.sym p (cap - L.2.acc.length)
            cases hE : (L.2.hs.sym.encryptAndMixHash S p (cap - L.2.acc.length)).1 with
            | err e => exact ⟨by rw [hev], hd.append hp⟩
            | panic q => exact ⟨by rw [hev], hd.append hp⟩
            | ok ct =>
              refine ⟨by rw [hev], ?_⟩
              dsimp only
              by_cases c5 : (L.2.hs.pos == L.2.hs.msgs.length - 1) = true
              · simp only [c5, ↓reduceIte]; exact hd.append hp
              · simp only [c5, ↓reduceIte, Bool.false_eq_true]; exact hd.append hp

/-- `write_message` returns the events of `_write_message` on every outcome. -/
theorem writeMessage_ev (S : Suite) (hs : HS) (p : Bytes) (cap : Nat) :
    (hs.writeMessage S p cap).2.2.2 = (writeInner S hs p cap).2.ev := by
  unfold writeMessage
  simp only
  cases (writeInner S hs p cap).1 <;> rfl

/-! ### The installation markers are HKDF outputs installed at nonce 0 -/

/-- `key` is a cipher key derived by HKDF from the chaining key `ck` and some input key material:
    the second output of `mix_key`'s HKDF or the third output of `mix_key_and_hash`'s. -/
def IsKdfKey (S : Suite) (ck key : Bytes) : Prop :=
  ∃ ikm, key = key32 (hkdf2 S ck ikm).2 ∨ key = key32 (hkdf3 S ck ikm).2.2

/-- Every installation marker of a token is a real installation: the key is an HKDF output
    computed from the chaining key the token found, installed with nonce 0. -/
theorem tokG_install (S : Suite) (cap : Nat) (w : WS) (t : Tok) (key : Bytes) (nn : UInt64)
    (h : GEv.install key nn ∈ tokG S cap w t) : nn = 0 ∧ IsKdfKey S w.hs.sym.ck key := by
  unfold tokG at h
  rw [List.mem_append] at h
  rcases h with h | h
  · simp at h
  · by_cases c : (installsTok w.hs.isPsk t && (writeTok S cap w t).1.isOk) = true
    · simp only [c, ↓reduceIte, List.mem_singleton, GEv.install.injEq] at h
      obtain ⟨rfl, rfl⟩ := h
      simp only [Bool.and_eq_true] at c
      obtain ⟨ci, cok⟩ := c
      have hok := (isOk_unit _).mp cok
      cases t with
      | e =>
        simp only [installsTok] at ci
        rw [writeTok_e_eq] at hok ⊢
        by_cases c1 : w.acc.length + S.pubLen > cap
        · simp [c1] at hok
        · simp only [c1, ↓reduceIte] at hok ⊢
          cases hf : w.hs.fixedE with
          | true =>
            simp only [↓reduceIte, eStep, wcs, ci, Sym.mixKey, Sym.mixHash, CipherState.set]
            exact ⟨rt, _, Or.inl rfl⟩
          | false =>
            simp only [hf, Bool.false_eq_true, ↓reduceIte] at hok ⊢
            by_cases c2 : S.validPriv (rngDraw w.hs.rng S.privLen).1 = true
            · simp only [c2, ↓reduceIte, eStep, wcs, ci, Sym.mixKey, Sym.mixHash, CipherState.set]
              exact ⟨rt, _, Or.inl rfl⟩
            · simp [c2] at hok
      | s => simp [installsTok] at ci
      | psk n =>
        rw [writeTok_psk_eq] at hok ⊢
        unfold pskStep at hok ⊢
        by_cases c1 : n < 10
        · simp only [c1, ↓reduceIte] at hok ⊢
          cases hp : w.hs.psks.getD n none with
          | none => rw [hp] at hok; cases hok
          | some psk =>
            simp only [wcs, Sym.mixKeyAndHash, Sym.mixHash, CipherState.set]
            exact ⟨rt, _, Or.inr rfl⟩
        · simp [c1] at hok
      | ee =>
        rw [writeTok_dh_eq S cap w _ (by simp)] at hok ⊢
        unfold dhStep at hok ⊢
        cases hd : w.hs.dh S .ee with
        | ok out => simp only [wcs, Sym.mixKey, CipherState.set]; exact ⟨rt, _, Or.inl rfl⟩
        | err e => simp [hd] at hok
        | panic q => simp [hd] at hok
      | es =>
        rw [writeTok_dh_eq S cap w _ (by simp)] at hok ⊢
        unfold dhStep at hok ⊢
        cases hd : w.hs.dh S .es with
        | ok out => simp only [wcs, Sym.mixKey, CipherState.set]; exact ⟨rt, _, Or.inl rfl⟩
        | err e => simp [hd] at hok
        | panic q => simp [hd] at hok
      | se =>
        rw [writeTok_dh_eq S cap w _ (by simp)] at hok ⊢
        unfold dhStep at hok ⊢
        cases hd : w.hs.dh S .se with
        | ok out => simp only [wcs, Sym.mixKey, CipherState.set]; exact ⟨rt, _, Or.inl rfl⟩
        | err e => simp [hd] at hok
        | panic q => simp [hd] at hok
      | ss =>
        rw [writeTok_dh_eq S cap w _ (by simp)] at hok ⊢
        unfold dhStep at hok ⊢
        cases hd : w.hs.dh S .ss with
        | ok out => simp only [wcs, Sym.mixKey, CipherState.set]; exact ⟨rt, _, Or.inl rfl⟩
        | err e => simp [hd] at hok
        | panic q => simp [hd] at hok
    · simp [c] at h

/-- The same for the whole token loop (the chaining key is the one some prefix of the loop left). -/
theorem toksG_install (S : Suite) (cap : Nat) (ts : List Tok) (w : WS) (key : Bytes) (nn : UInt64)
    (h : GEv.install key nn ∈ toksG S cap ts w) : nn = 0 ∧ ∃ ck, IsKdfKey S ck key := by
  induction ts generalizing w with
  | nil => simp [toksG] at h
  | cons t ts ih =>
    unfold toksG at h
    rw [List.mem_append] at h
    rcases h with h | h
    · have := tokG_install S cap w t key nn h
      exact ⟨this.1, _, this.2⟩
    · cases hr : (writeTok S cap w t).1 with
      | ok u => cases u; simp only [hr] at h; exact ih _ h
      | err e => simp [hr] at h
      | panic q => simp [hr] at h

theorem writeG_install (S : Suite) (hs : HS) (p : Bytes) (cap : Nat) (key : Bytes) (nn : UInt64)
    (h : GEv.install key nn ∈ writeG S hs p cap) : nn = 0 ∧ ∃ ck, IsKdfKey S ck key := by
  unfold writeG at h
  by_cases c1 : (!hs.myTurn) = true
  · simp [c1] at h
  · simp only [c1, ↓reduceIte, Bool.false_eq_true] at h
    by_cases c2 : hs.pos ≥ hs.msgs.length
    · simp [c2] at h
    · simp only [c2, ↓reduceIte, List.mem_append, List.mem_map, reduceCtorEq, and_false, exists_false, or_false] at h
      exact toksG_install S cap _ _ key nn h

end SnowVerif.C06
