/-
  C06 over histories: from the instance-level table fact (`EncAfterEOk`, Stage 2) to the side
  condition `HistOk` along a history.  `InstOk hs`: the message list of the session passes the
  scan, and `has_key` is the keyedness the messages processed so far leave (true of every state
  `Builder::build` returns: position 0, un-keyed).  It is preserved by every API call that
  does not panic, and gives `EAE` in every state.
-/
import SnowVerif.Lemmas.C06HistMain

namespace SnowVerif.C06
open SnowVerif SnowVerif.Model SnowVerif.Model.HS SnowVerif.Framing
open SnowVerif.Theorems.C11 (Op step run NoPanic)
set_option linter.unusedVariables false
set_option linter.unusedSimpArgs false

/-- The session's instance passes the Stage 2 scan and `has_key` is what the messages processed
    so far make it. -/
structure InstOk (hs : HS) : Prop where
  scan : EncAfterEOk hs.isPsk hs.msgs false = true
  keyed : hs.sym.hasKey = keyedMsgs hs.isPsk (hs.msgs.take hs.pos) false

theorem InstOk.eae {hs : HS} (h : InstOk hs) : EAE hs := by
  unfold EAE
  rw [h.keyed]
  exact EncAfterEOk_at _ _ _ h.scan hs.pos

theorem keyedMsgs_take_succ (isPsk : Bool) (ms : List (List Tok)) (pos : Nat) (h : pos < ms.length) (k : Bool) :
    keyedMsgs isPsk (ms.take (pos + 1)) k = keyedAfter isPsk (ms.getD pos []) (keyedMsgs isPsk (ms.take pos) k) := by
  rw [List.take_add_one, keyedMsgs_append]
  have h1 : ms[pos]? = some ms[pos] := List.getElem?_eq_getElem h
  have h2 : ms.getD pos [] = ms[pos] := by simp [List.getD, h1]
  rw [h1, h2]
  rfl

theorem write_ok_frame (S : Suite) (hs : HS) (p : Bytes) (cap : Nat) (n : Nat) (h : (writeInner S hs p cap).1 = .ok n) :
    (hs.writeMessage S p cap).2.1.isPsk = hs.isPsk ∧ (hs.writeMessage S p cap).2.1.msgs = hs.msgs ∧
    (hs.writeMessage S p cap).2.1.pos = hs.pos + 1 := by
  have hf := writeInner_frame S hs p cap
  simp only at hf
  unfold writeMessage
  simp only [h]
  exact ⟨hf.2.1, hf.2.2.2.2.2.1, by rw [hf.2.2.2.2.2.2.1]⟩

theorem read_frame (S : Suite) (hs : HS) (m : Bytes) (cap : Nat) :
    (hs.readMessage S m cap).2.1.isPsk = hs.isPsk ∧ (hs.readMessage S m cap).2.1.msgs = hs.msgs ∧
    ((∀ pl, (readInner S hs m cap).1 ≠ .ok pl) → (hs.readMessage S m cap).2.1.pos = hs.pos) ∧
    (∀ pl, (readInner S hs m cap).1 = .ok pl → (hs.readMessage S m cap).2.1.pos = hs.pos + 1) := by
  have hf := readInner_frame S hs m cap
  simp only at hf
  unfold readMessage
  simp only
  cases hr : (readInner S hs m cap).1 with
  | ok pl =>
    exact ⟨hf.2.1, hf.2.2.2.2.2.1, fun hno => absurd rfl (hno pl), fun _ _ => by simp only [hf.2.2.2.2.2.2.1]⟩
  | err e =>
    exact ⟨hf.2.1, hf.2.2.2.2.2.1, fun _ => hf.2.2.2.2.2.2.1, fun pl hc => by cases hc⟩
  | panic q =>
    exact ⟨hf.2.1, hf.2.2.2.2.2.1, fun _ => hf.2.2.2.2.2.2.1, fun pl hc => by cases hc⟩

/-- `InstOk` is preserved by every call that does not panic. -/
theorem instOk_step (S : Suite) (hs : HS) (op : Op) (inv : SymInv hs.sym) (np : NoPanic S hs op) (h : InstOk hs) :
    InstOk (step S hs op) := by
  obtain ⟨h1, h2⟩ := h
  cases op with
  | setPsk loc key =>
    obtain ⟨f1, f2, f3, f4, f5, f6⟩ := setPsk_frame hs loc key
    simp only [step]
    exact ⟨by rw [f3, f4]; exact h1, by rw [f1, f3, f4, f5]; exact h2⟩
  | write p cap =>
    simp only [NoPanic] at np
    simp only [step]
    rcases write_step_cases S hs p cap inv np with ⟨n, hok, _, hsym⟩ | ⟨e, herr, hnot, hk', hsame, f1, f2, f3, f4, f5⟩
    · obtain ⟨g1, g2, g3⟩ := write_ok_frame S hs p cap n hok
      obtain ⟨_, hlt⟩ := writeInner_turn S hs p cap n hok
      refine ⟨by rw [g1, g2]; exact h1, ?_⟩
      rw [hsym, g1, g2, g3, writeInner_keyed S hs p cap n hok, keyedMsgs_take_succ _ _ _ hlt, h2]
    · refine ⟨by rw [f2, f3]; exact h1, ?_⟩
      rw [f2, f3, f4, ← h2]
      rcases writeMessage_sym_cases S hs p cap with ⟨n, a1, _⟩ | ⟨q, a1, _⟩ | ⟨e', _, a2⟩
      · rw [a1] at herr; cases herr
      · rw [a1] at herr; cases herr
      · rw [a2]
        exact (Theorems.C06.restore_facts _ hs.sym inv).2.2.1
  | read m cap =>
    simp only [NoPanic] at np
    simp only [step]
    obtain ⟨g1, g2, g3, g4⟩ := read_frame S hs m cap
    refine ⟨by rw [g1, g2]; exact h1, ?_⟩
    rcases read_step_cases S hs m cap inv np with ⟨pl, hok, _, hsym⟩ | ⟨e, herr, _, _⟩
    · obtain ⟨_, _, hlt⟩ := readInner_turn S hs m cap pl hok
      have hk := (readInner_ok S hs m cap pl hok).2.2.2.2
      rw [fieldsLen_snd] at hk
      rw [hsym, g1, g2, g4 pl hok, hk, keyedMsgs_take_succ _ _ _ hlt, h2]
    · have hno : ∀ pl, (readInner S hs m cap).1 ≠ .ok pl := by
        intro pl hc
        rw [← readMessage_res, herr] at hc
        cases hc
      rw [g1, g2, g3 hno, ← h2]
      rcases readMessage_sym_cases S hs m cap with ⟨n, a1, _⟩ | ⟨q, a1, _⟩ | ⟨e', _, a2⟩
      · rw [a1] at herr; cases herr
      · rw [a1] at herr; cases herr
      · rw [a2]
        exact (Theorems.C06.restore_facts _ hs.sym inv).2.2.1

/-- **The side conditions hold along every panic-free history** of a session whose instance passes
    the Stage 2 scan. -/
theorem histOk_of_inst (S : Suite) (ops : List Op) :
    ∀ hs : HS, SymInv hs.sym → InstOk hs →
      (∀ (pre : List Op) (op : Op) (post : List Op), ops = pre ++ op :: post → NoPanic S (run S hs pre) op) →
      HistOk S hs ops := by
  induction ops with
  | nil => intro hs _ _ _; trivial
  | cons op ops ih =>
    intro hs inv hi np
    have np0 := np [] op ops rfl
    refine ⟨hi.eae, np0, ih _ (step_inv S hs op inv) (instOk_step S hs op inv np0 hi) ?_⟩
    intro pre o post hpost
    have := np (op :: pre) o post (by simp [hpost])
    simpa [run] using this

end SnowVerif.C06
