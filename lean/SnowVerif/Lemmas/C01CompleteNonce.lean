/-
  C01, converse direction: the nonce guard of the handshake cipher never fires in a state
  reachable from `Builder::build`.  The handshake-long invariant `NonceSmall`: while `has_key`
  is set, the nonce is at most the number of AEAD operations the messages processed so far can
  have performed (one per `s` token, one per payload); every handshake operation preserves it
  (a failed call restores the checkpointed nonce), and with the static bound `NonceRoom` (a few
  operations only: at most 8 for every pattern of the table) it implies `NonceOk`.
-/
import SnowVerif.Lemmas.C01CompleteMsg
import SnowVerif.Theorems.C10
import SnowVerif.Theorems.C14

namespace SnowVerif.C01
open SnowVerif SnowVerif.Model SnowVerif.Model.HS SnowVerif.Bytes SnowVerif.Framing
set_option linter.unusedVariables false
set_option linter.unusedSimpArgs false

/-! ### The nonce walk, pure part -/

/-- The nonce after a token list (before the payload), as `nonceStep` evolves it. -/
def nonceEnd (isPsk : Bool) : List Tok → Bool → UInt64 → UInt64
  | [], _, n => n
  | t :: ts, k, n => nonceEnd isPsk ts (tokKeyed isPsk t k) (nonceStep isPsk t k n)

/-- Incrementing a `u64` that is not at its maximum does not wrap. -/
theorem uint64_succ (n : UInt64) (h : n.toNat + 1 < 2 ^ 64) : (n + 1).toNat = n.toNat + 1 := by
  rw [UInt64.toNat_add]
  simp only [UInt64.toNat_one]
  exact Nat.mod_eq_of_lt h

/-- If the nonce is at most `b` whenever keyed, it is at most `b + count s` after the tokens
    (whenever keyed then). -/
theorem nonceEnd_le (isPsk : Bool) (ts : List Tok) (k : Bool) (n : UInt64) (b : Nat)
    (hb : k = true → n.toNat ≤ b) (hlt : b + ts.count .s < 2 ^ 64)
    (hk : keyedAfter isPsk ts k = true) : (nonceEnd isPsk ts k n).toNat ≤ b + ts.count .s := by
  induction ts generalizing k n b with
  | nil =>
    simp only [keyedAfter] at hk
    simp only [nonceEnd, List.count_nil, Nat.add_zero]
    exact hb hk
  | cons t ts ih =>
    simp only [keyedAfter] at hk
    simp only [nonceEnd]
    have h0 : (0 : UInt64).toNat ≤ b := by simp
    cases t with
    | s =>
      simp only [List.count_cons_self] at hlt ⊢
      have := ih (tokKeyed isPsk .s k) (nonceStep isPsk .s k n) (b + 1) (by
        intro hk'
        simp only [tokKeyed] at hk'
        simp only [nonceStep, hk', ↓reduceIte]
        have := hb hk'
        rw [uint64_succ n (by omega)]
        omega) (by omega) hk
      omega
    | e =>
      have hc : (Tok.e :: ts).count .s = ts.count .s := by simp
      rw [hc] at hlt ⊢
      refine ih _ _ b ?_ hlt hk
      intro hk'
      simp only [nonceStep]
      cases hp : isPsk with
      | true => simp
      | false =>
        simp only [tokKeyed, hp, Bool.or_false] at hk'
        simpa using hb hk'
    | psk m =>
      have hc : (Tok.psk m :: ts).count .s = ts.count .s := by simp
      rw [hc] at hlt ⊢
      exact ih _ _ b (fun _ => h0) hlt hk
    | ee =>
      have hc : (Tok.ee :: ts).count .s = ts.count .s := by simp
      rw [hc] at hlt ⊢
      exact ih _ _ b (fun _ => h0) hlt hk
    | es =>
      have hc : (Tok.es :: ts).count .s = ts.count .s := by simp
      rw [hc] at hlt ⊢
      exact ih _ _ b (fun _ => h0) hlt hk
    | se =>
      have hc : (Tok.se :: ts).count .s = ts.count .s := by simp
      rw [hc] at hlt ⊢
      exact ih _ _ b (fun _ => h0) hlt hk
    | ss =>
      have hc : (Tok.ss :: ts).count .s = ts.count .s := by simp
      rw [hc] at hlt ⊢
      exact ih _ _ b (fun _ => h0) hlt hk

/-- `nonceOk_of_bound` with the bound required only while keyed (an un-keyed cipher's nonce is
    reset by the `mix_key` that keys it). -/
theorem nonceOk_of_keyed_bound (isPsk : Bool) (ts : List Tok) (k : Bool) (n : UInt64) (b : Nat)
    (hb : k = true → n.toNat ≤ b) (hlt : b + ts.count .s + 1 < 2 ^ 64) : NonceOk isPsk ts k n = true := by
  have hmax : ∀ (k : Bool) (n : UInt64) (b : Nat), (k = true → n.toNat ≤ b) → b + 1 < 2 ^ 64 →
      (!k || n != CipherState.nonceMax) = true := by
    intro k n b hb hlt
    cases k with
    | false => rfl
    | true =>
      simp only [Bool.not_true, Bool.false_or, bne_iff_ne, ne_eq]
      intro hn
      have := hb rfl
      rw [hn] at this
      simp [CipherState.nonceMax] at this
      omega
  induction ts generalizing k n b with
  | nil => exact hmax k n b hb (by simpa using hlt)
  | cons t ts ih =>
    simp only [NonceOk, Bool.and_eq_true]
    have h0 : (0 : UInt64).toNat ≤ b := by simp
    cases t with
    | s =>
      simp only [List.count_cons_self] at hlt
      refine ⟨hmax k n b hb (by omega), ih _ _ (b + 1) ?_ (by omega)⟩
      intro hk'
      simp only [tokKeyed] at hk'
      simp only [nonceStep, hk', ↓reduceIte]
      have := hb hk'
      rw [uint64_succ n (by omega)]
      omega
    | e =>
      have hc : (Tok.e :: ts).count .s = ts.count .s := by simp
      rw [hc] at hlt
      refine ⟨rfl, ih _ _ b ?_ hlt⟩
      intro hk'
      simp only [nonceStep]
      cases hp : isPsk with
      | true => simp
      | false =>
        simp only [tokKeyed, hp, Bool.or_false] at hk'
        simpa using hb hk'
    | psk m =>
      have hc : (Tok.psk m :: ts).count .s = ts.count .s := by simp
      rw [hc] at hlt
      exact ⟨rfl, ih _ _ b (fun _ => h0) hlt⟩
    | ee =>
      have hc : (Tok.ee :: ts).count .s = ts.count .s := by simp
      rw [hc] at hlt
      exact ⟨rfl, ih _ _ b (fun _ => h0) hlt⟩
    | es =>
      have hc : (Tok.es :: ts).count .s = ts.count .s := by simp
      rw [hc] at hlt
      exact ⟨rfl, ih _ _ b (fun _ => h0) hlt⟩
    | se =>
      have hc : (Tok.se :: ts).count .s = ts.count .s := by simp
      rw [hc] at hlt
      exact ⟨rfl, ih _ _ b (fun _ => h0) hlt⟩
    | ss =>
      have hc : (Tok.ss :: ts).count .s = ts.count .s := by simp
      rw [hc] at hlt
      exact ⟨rfl, ih _ _ b (fun _ => h0) hlt⟩

/-! ### The nonce walk of the model -/

/-- After a successful token loop of `_read_message` the nonce and `has_key` are the ones the pure walk (`nonceEnd`, `keyedAfter`) predicts. -/
theorem readToks_nonceEnd (S : Suite) (ts : List Tok) (r : RS) (h : (readToks S ts r).1 = .ok ()) :
    (readToks S ts r).2.hs.sym.cs.n = nonceEnd r.hs.isPsk ts r.hs.sym.hasKey r.hs.sym.cs.n ∧
    (readToks S ts r).2.hs.sym.hasKey = keyedAfter r.hs.isPsk ts r.hs.sym.hasKey := by
  induction ts generalizing r with
  | nil => exact ⟨rfl, rfl⟩
  | cons t ts ih =>
    cases hr : (readTok S r t).1 with
    | ok u =>
      rw [Lemmas.C10.readToks_cons_ok S t ts r hr] at h ⊢
      have := ih (readTok S r t).2 h
      rw [(readTok_frame S r t).isPsk, (readTok_len S r t hr).2, (readTok_nonce S r t hr).1] at this
      exact this
    | err e =>
      rw [Lemmas.C10.readToks_cons_stop S t ts r (by rw [hr]; simp)] at h
      simp [hr] at h
    | panic q =>
      rw [Lemmas.C10.readToks_cons_stop S t ts r (by rw [hr]; simp)] at h
      simp [hr] at h

/-- After a successful token loop of `_write_message` the nonce and `has_key` are the ones the pure walk predicts. -/
theorem writeToks_nonceEnd (S : Suite) (cap : Nat) (ts : List Tok) (w : WS) (h : (writeToks S cap ts w).1 = .ok ()) :
    (writeToks S cap ts w).2.hs.sym.cs.n = nonceEnd w.hs.isPsk ts w.hs.sym.hasKey w.hs.sym.cs.n ∧
    (writeToks S cap ts w).2.hs.sym.hasKey = keyedAfter w.hs.isPsk ts w.hs.sym.hasKey := by
  induction ts generalizing w with
  | nil => exact ⟨rfl, rfl⟩
  | cons t ts ih =>
    cases hr : (writeTok S cap w t).1 with
    | ok u =>
      rw [Lemmas.C10.writeToks_cons_ok S cap t ts w hr] at h ⊢
      have := ih (writeTok S cap w t).2 h
      rw [(writeTok_frame S cap w t).isPsk, writeTok_keyed S cap w t hr, (writeTok_nonce S cap w t hr).1] at this
      exact this
    | err e =>
      rw [Lemmas.C10.writeToks_cons_stop S cap t ts w (by rw [hr]; simp)] at h
      simp [hr] at h
    | panic q =>
      rw [Lemmas.C10.writeToks_cons_stop S cap t ts w (by rw [hr]; simp)] at h
      simp [hr] at h

/-! ### Counting the AEAD operations of a handshake -/

/-- The number of AEAD operations the first `i` messages can perform on the handshake cipher:
    one per `s` token and one per payload. -/
def aeadOps (msgs : List (List Tok)) (i : Nat) : Nat := (msgs.take i).flatten.count .s + i

/-- Processing message `i` adds its `s` tokens and its payload to the count of AEAD operations. -/
theorem aeadOps_succ (msgs : List (List Tok)) (i : Nat) (h : i < msgs.length) :
    aeadOps msgs (i + 1) = aeadOps msgs i + (msgs.getD i []).count .s + 1 := by
  unfold aeadOps
  rw [List.take_add_one, List.flatten_append, List.count_append]
  have : msgs[i]?.toList = [msgs.getD i []] := by
    rw [List.getD_eq_getElem?_getD, List.getElem?_eq_getElem h]
    rfl
  rw [this]
  simp only [List.flatten_cons, List.flatten_nil, List.append_nil]
  omega

/-- The count of AEAD operations so far is at most that of the whole handshake. -/
theorem aeadOps_le_total (msgs : List (List Tok)) (i : Nat) (h : i ≤ msgs.length) :
    aeadOps msgs i ≤ aeadOps msgs msgs.length := by
  have key : ∀ d i, i + d = msgs.length → aeadOps msgs i ≤ aeadOps msgs msgs.length := by
    intro d
    induction d with
    | zero => intro i hi; simp only [Nat.add_zero] at hi; rw [hi]; exact Nat.le_refl _
    | succ d ih =>
      intro i hi
      have := ih (i + 1) (by omega)
      rw [aeadOps_succ msgs i (by omega)] at this
      omega
  exact key (msgs.length - i) i (by omega)

/-! ### The invariant -/

/-- **The handshake-long nonce invariant**: while `has_key` is set, the nonce of the handshake
    cipher is at most the number of AEAD operations of the messages processed so far. -/
def NonceSmall (hs : HS) : Prop := hs.sym.hasKey = true → hs.sym.cs.n.toNat ≤ aeadOps hs.msgs hs.pos

/-- The static condition: the whole handshake performs fewer than `2^64 - 1` AEAD operations
    on the handshake cipher (at most 8 for every pattern of the table). -/
def NonceRoom (hs : HS) : Prop := aeadOps hs.msgs hs.msgs.length + 1 < 2 ^ 64

/-- Under the invariant the nonce guard cannot fire on the current message. -/
theorem nonceSmall_nonceOk (hs : HS) (h : NonceSmall hs) (hr : NonceRoom hs) (hp : hs.pos < hs.msgs.length) :
    NonceOk hs.isPsk (hs.msgs.getD hs.pos []) hs.sym.hasKey hs.sym.cs.n = true := by
  have h1 := aeadOps_succ hs.msgs hs.pos hp
  have h2 := aeadOps_le_total hs.msgs (hs.pos + 1) (by omega)
  unfold NonceRoom at hr
  exact nonceOk_of_keyed_bound _ _ _ _ (aeadOps hs.msgs hs.pos) h (by omega)

/-- Restoring the checkpoint of a state satisfying the bound gives a state satisfying it (keyed: the checkpointed nonce comes back). -/
theorem restore_nonceSmall (st : Sym) (hs : HS) (hinv : SymInv hs.sym) (pos : Nat) (msgs : List (List Tok))
    (h : hs.sym.hasKey = true → hs.sym.cs.n.toNat ≤ aeadOps msgs pos) :
    (st.restore hs.sym.checkpoint).hasKey = true →
      (st.restore hs.sym.checkpoint).cs.n.toNat ≤ aeadOps msgs pos := by
  intro hk
  have hk' : hs.sym.hasKey = true := hk
  have h2 := hinv.2 hk'
  unfold Sym.restore Sym.checkpoint
  simp only
  cases hkk : hs.sym.k with
  | none => rw [hkk] at h2; cases h2
  | some key =>
    simp only [CipherState.set]
    exact h hk'

/-- `read_message` preserves the invariant (success, failure; a panic does not occur, C10). -/
theorem nonceSmall_read (S : Suite) (hs : HS) (m : Bytes) (cap : Nat) (hinv : SymInv hs.sym)
    (hr : NonceRoom hs) (h : NonceSmall hs) (np : (hs.readMessage S m cap).1.isPanic = false) :
    NonceSmall (hs.readMessage S m cap).2.1 := by
  have hf := readInner_frame S hs m cap
  simp only at hf
  obtain ⟨_, fpsk, _, _, _, fmsgs, fpos, _⟩ := hf
  unfold NonceSmall at h ⊢
  cases hres : (readInner S hs m cap).1 with
  | ok pl =>
    obtain ⟨_, _, hp⟩ := readInner_turn S hs m cap pl hres
    obtain ⟨hW, p0, hp0, _, hhs⟩ := readInner_ok_shape S hs m cap pl hres
    have hfr := readFinish_frame S hs (readToks S (hs.msgs.getD hs.pos []) { hs := hs, ptr := m, ev := [] }).2 cap
    obtain ⟨hne, hke⟩ := readToks_nonceEnd S (hs.msgs.getD hs.pos []) { hs := hs, ptr := m, ev := [] } hW
    obtain ⟨hdn, _⟩ := decrypt_ok_nonce S _ _ _ p0 hp0
    have e1 : (hs.readMessage S m cap).2.1.sym = (readInner S hs m cap).2.1.sym := by
      unfold readMessage; simp only [hres]
    have e2 : (hs.readMessage S m cap).2.1.pos = hs.pos + 1 := by
      unfold readMessage; simp only [hres]; rw [fpos]
    have e3 : (hs.readMessage S m cap).2.1.msgs = hs.msgs := by
      unfold readMessage; simp only [hres]; rw [fmsgs]
    rw [e1, e2, e3, hhs, hfr.2.2, Sym.decrypt_hasKey, hdn]
    intro hk
    simp only [hk, ↓reduceIte]
    rw [hke] at hk
    simp only at hk hne
    have hsucc := aeadOps_succ hs.msgs hs.pos hp
    have htot := aeadOps_le_total hs.msgs (hs.pos + 1) (by omega)
    unfold NonceRoom at hr
    have hle := nonceEnd_le hs.isPsk (hs.msgs.getD hs.pos []) hs.sym.hasKey hs.sym.cs.n (aeadOps hs.msgs hs.pos) h
      (by omega) hk
    rw [hne, uint64_succ _ (by omega)]
    omega
  | err e =>
    have e0 : (hs.readMessage S m cap).2.1 =
        { (readInner S hs m cap).2.1 with sym := (readInner S hs m cap).2.1.sym.restore hs.sym.checkpoint,
                                          rs := hs.rs, re := hs.re } := by
      unfold readMessage; simp only [hres]
    rw [e0]
    simp only [fmsgs, fpos]
    exact restore_nonceSmall _ hs hinv _ _ h
  | panic q =>
    rw [readMessage_fst, hres] at np
    simp [Res.isPanic] at np

/-- `write_message` preserves the invariant. -/
theorem nonceSmall_write (S : Suite) (hs : HS) (p : Bytes) (cap : Nat) (hinv : SymInv hs.sym)
    (hr : NonceRoom hs) (h : NonceSmall hs) (np : (hs.writeMessage S p cap).1.isPanic = false) :
    NonceSmall (hs.writeMessage S p cap).2.1 := by
  have hf := writeInner_frame S hs p cap
  simp only at hf
  obtain ⟨_, fpsk, _, _, _, fmsgs, fpos, _⟩ := hf
  unfold NonceSmall at h ⊢
  cases hres : (writeInner S hs p cap).1 with
  | ok n =>
    obtain ⟨_, hp⟩ := writeInner_turn S hs p cap n hres
    obtain ⟨hW, ct, hct, _, _, hhs⟩ := writeInner_ok_shape S hs p cap n hres
    have hfr := writeFinish_frame S (writeToks S cap (hs.msgs.getD hs.pos []) { hs := hs, acc := [], ev := [] }).2 p cap
    obtain ⟨hne, hke⟩ := writeToks_nonceEnd S cap (hs.msgs.getD hs.pos []) { hs := hs, acc := [], ev := [] } hW
    obtain ⟨hdn, _⟩ := encrypt_ok_nonce S _ _ _ ct hct
    have e1 : (hs.writeMessage S p cap).2.1.sym = (writeInner S hs p cap).2.hs.sym := by
      unfold writeMessage; simp only [hres]
    have e2 : (hs.writeMessage S p cap).2.1.pos = hs.pos + 1 := by
      unfold writeMessage; simp only [hres]; rw [fpos]
    have e3 : (hs.writeMessage S p cap).2.1.msgs = hs.msgs := by
      unfold writeMessage; simp only [hres]; rw [fmsgs]
    rw [e1, e2, e3, hhs, hfr.2.2.2, Sym.encrypt_hasKey, hdn]
    intro hk
    simp only [hk, ↓reduceIte]
    rw [hke] at hk
    simp only at hk hne
    have hsucc := aeadOps_succ hs.msgs hs.pos hp
    have htot := aeadOps_le_total hs.msgs (hs.pos + 1) (by omega)
    unfold NonceRoom at hr
    have hle := nonceEnd_le hs.isPsk (hs.msgs.getD hs.pos []) hs.sym.hasKey hs.sym.cs.n (aeadOps hs.msgs hs.pos) h
      (by omega) hk
    rw [hne, uint64_succ _ (by omega)]
    omega
  | err e =>
    have e1 : (hs.writeMessage S p cap).2.1.sym = (writeInner S hs p cap).2.hs.sym.restore hs.sym.checkpoint := by
      unfold writeMessage; simp only [hres]; split <;> rfl
    have e2 : (hs.writeMessage S p cap).2.1.pos = hs.pos := by
      unfold writeMessage; simp only [hres]; split <;> exact fpos
    have e3 : (hs.writeMessage S p cap).2.1.msgs = hs.msgs := by
      unfold writeMessage; simp only [hres]; split <;> exact fmsgs
    rw [e1, e2, e3]
    exact restore_nonceSmall _ hs hinv _ _ h
  | panic q =>
    rw [writeMessage_fst, hres] at np
    simp [Res.isPanic] at np

/-- Every handshake operation preserves `NonceSmall` and `NonceRoom`. -/
theorem nonceSmall_step (S : Suite) (hs : HS) (op : Theorems.C11.Op) (hinv : SymInv hs.sym)
    (hr : NonceRoom hs) (h : NonceSmall hs) (np : Theorems.C11.NoPanic S hs op) :
    NonceSmall (Theorems.C11.step S hs op) ∧ NonceRoom (Theorems.C11.step S hs op) := by
  cases op with
  | write p cap =>
    refine ⟨nonceSmall_write S hs p cap hinv hr h np, ?_⟩
    have := (Theorems.C14.static_step S hs (.write p cap) np).2.2
    unfold NonceRoom
    rw [this]
    exact hr
  | read m cap =>
    refine ⟨nonceSmall_read S hs m cap hinv hr h np, ?_⟩
    have := (Theorems.C14.static_step S hs (.read m cap) np).2.2
    unfold NonceRoom
    rw [this]
    exact hr
  | setPsk loc key =>
    simp only [Theorems.C11.step, HS.setPsk]
    split <;> exact ⟨h, hr⟩

/-- **The invariant holds after every history** of handshake calls (arbitrary arguments, failed
    calls and retries included) from a state satisfying it and the model invariant of C10. -/
theorem nonceSmall_run (S : Suite) (hP : S.PubLen) (hs : HS) (ops : List Theorems.C11.Op)
    (hi : Lemmas.C10.Inv S hs) (hr : NonceRoom hs) (h : NonceSmall hs)
    (np : ∀ (pre : List Theorems.C11.Op) (op : Theorems.C11.Op) (post : List Theorems.C11.Op),
      ops = pre ++ op :: post → Theorems.C11.NoPanic S (Theorems.C11.run S hs pre) op) :
    NonceSmall (Theorems.C11.run S hs ops) ∧ NonceRoom (Theorems.C11.run S hs ops) := by
  induction ops generalizing hs with
  | nil => exact ⟨h, hr⟩
  | cons op ops ih =>
    simp only [Theorems.C11.run]
    obtain ⟨a, b⟩ := nonceSmall_step S hs op hi.sym hr h (np [] op ops rfl)
    apply ih _ (Theorems.C10.inv_step S hs op hP hi) b a
    intro pre o post hpost
    have := np (op :: pre) o post (by simp [hpost])
    simpa [Theorems.C11.run] using this

/-! ### Every table pattern leaves room -/

/-- Every message pattern contains at most one `s` token. -/
def oneS (msgs : List (List Tok)) : Bool := msgs.all fun m => decide (m.count .s ≤ 1)

/-- `apply_psk_modifier` adds `psk` tokens only (no `s`). -/
theorem applyPsk_oneS (inst inst' : Inst) (n : Nat) (h : applyPsk inst n = .ok inst')
    (ho : oneS inst.msgs = true) : oneS inst'.msgs = true := by
  unfold applyPsk at h
  simp only at h
  split at h
  · simp only [Res.ok.injEq] at h
    subst h
    simp only
    unfold oneS at ho ⊢
    rw [all_modify]
    · exact ho
    · intro x
      split <;> simp
  · simp at h

/-- The modifier loop adds no `s` token. -/
theorem applyModifiers_oneS (mods : List Modifier) (inst inst' : Inst) (h : applyModifiers inst mods = .ok inst')
    (ho : oneS inst.msgs = true) : oneS inst'.msgs = true := by
  induction mods generalizing inst with
  | nil => simp only [applyModifiers, Res.ok.injEq] at h; subst h; exact ho
  | cons md mods ih =>
    cases md with
    | fallback => simp [applyModifiers] at h
    | psk n =>
      simp only [applyModifiers] at h
      cases ha : applyPsk inst n with
      | ok i1 =>
        simp only [ha] at h
        exact ih i1 h (applyPsk_oneS inst i1 n ha ho)
      | err e => simp [ha] at h
      | panic q => simp [ha] at h

/-- Checked over all rows of the generated table. -/
theorem tables_oneS (p : Generated.Pattern) : oneS p.tokens.msgs = true := by
  cases p <;> decide

/-- With at most one `s` per message there are at most as many `s` tokens as messages. -/
theorem count_s_flatten_le (msgs : List (List Tok)) (h : oneS msgs = true) :
    msgs.flatten.count .s ≤ msgs.length := by
  induction msgs with
  | nil => simp
  | cons m ms ih =>
    simp only [oneS, List.all_cons, Bool.and_eq_true, decide_eq_true_eq] at h
    have := ih h.2
    simp only [List.flatten_cons, List.count_append, List.length_cons]
    omega

/-- **Every instance `HandshakeTokens::try_from` produces leaves room**: at most 4 messages with
    at most one `s` each, so at most 8 AEAD operations on the handshake cipher. -/
theorem nonceRoom_tables (p : Generated.Pattern) (mods : List Modifier) (inst : Inst)
    (h : handshakeTokens p mods = .ok inst) : aeadOps inst.msgs inst.msgs.length ≤ 8 := by
  have h1 := applyModifiers_oneS mods _ _ h (tables_oneS p)
  have h2 := (Lemmas.C10.applyModifiers_ok mods _ _ h (Lemmas.C10.instOk_of_B _ (Lemmas.C10.tables_ok p))).len
  unfold aeadOps
  rw [List.take_length]
  have := count_s_flatten_le inst.msgs h1
  omega

end SnowVerif.C01
