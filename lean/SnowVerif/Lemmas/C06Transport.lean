/-
  C06, transport mode (transportstate.rs): for any sequence of writes, reads, rekeys, manual
  rekeys and `set_receiving_nonce` on one endpoint, the message encryptions use strictly
  increasing nonces (the sending counter never goes down and never wraps), and the reserved nonce
  2^64-1 is used only by rekey, on a fixed input.
-/
import SnowVerif.Lemmas.C06Cipher
import SnowVerif.Lemmas.Transport

namespace SnowVerif.C06
open SnowVerif SnowVerif.Model SnowVerif.Model.TS
set_option linter.unusedVariables false
set_option linter.unusedSimpArgs false

/-- `TMono n l n'`: in the log `l` every `enc` on a nonce other than 2^64-1 uses a nonce that is at
    least `n` and larger than that of every earlier one, all of them below `n'`; every `enc` on
    2^64-1 has empty associated data and 32 zero bytes as plaintext. Keys play no role. -/
def TMono : Nat → List Event → Nat → Prop
  | n, [], n' => n ≤ n'
  | n, .enc _ nn ad pt :: l, n' =>
      if nn = MAXN then ad = [] ∧ pt = Bytes.zeros 32 ∧ TMono n l n' else n ≤ nn.toNat ∧ TMono (nn.toNat + 1) l n'
  | n, .dec _ _ _ _ _ :: l, n' => TMono n l n'
  | n, .rng _ :: l, n' => TMono n l n'

namespace TMono

theorem weaken_start {n m : Nat} {l : List Event} {n' : Nat} (h : TMono n l n') (hm : m ≤ n) : TMono m l n' := by
  induction l generalizing n m with
  | nil => exact Nat.le_trans hm h
  | cons x l ih =>
    cases x with
    | dec a b c d f => exact ih h hm
    | rng d => exact ih h hm
    | enc kk nn ad pt =>
      simp only [TMono] at h ⊢
      by_cases c : nn = MAXN
      · simp only [c, ↓reduceIte] at h ⊢; exact ⟨h.1, h.2.1, ih h.2.2 hm⟩
      · simp only [c, ↓reduceIte] at h ⊢; exact ⟨Nat.le_trans hm h.1, h.2⟩

theorem append {n : Nat} {l1 : List Event} {n1 : Nat} {l2 : List Event} {n2 : Nat}
    (h1 : TMono n l1 n1) (h2 : TMono n1 l2 n2) : TMono n (l1 ++ l2) n2 := by
  induction l1 generalizing n with
  | nil => exact weaken_start h2 h1
  | cons x l ih =>
    cases x with
    | dec a b c d f => exact ih h1
    | rng d => exact ih h1
    | enc kk nn ad pt =>
      simp only [List.cons_append, TMono] at h1 ⊢
      by_cases c : nn = MAXN
      · simp only [c, ↓reduceIte] at h1 ⊢; exact ⟨h1.1, h1.2.1, ih h1.2.2⟩
      · simp only [c, ↓reduceIte] at h1 ⊢; exact ⟨h1.1, ih h1.2⟩

theorem lower {n : Nat} {l : List Event} {n' : Nat} (h : TMono n l n') (j : Nat) (k2 : Bytes) (n2 : UInt64) (a p : Bytes)
    (hj : l[j]? = some (.enc k2 n2 a p)) : (n2 = MAXN ∧ a = [] ∧ p = Bytes.zeros 32) ∨ (n2 ≠ MAXN ∧ n ≤ n2.toNat) := by
  induction l generalizing n j with
  | nil => simp at hj
  | cons x l ih =>
    cases j with
    | zero =>
      simp only [List.getElem?_cons_zero, Option.some.injEq] at hj
      subst hj
      simp only [TMono] at h
      by_cases c : n2 = MAXN
      · simp only [c, ↓reduceIte] at h; exact Or.inl ⟨c, h.1, h.2.1⟩
      · simp only [c, ↓reduceIte] at h; exact Or.inr ⟨c, h.1⟩
    | succ j =>
      simp only [List.getElem?_cons_succ] at hj
      cases x with
      | dec a1 b c d f => exact ih h j hj
      | rng d => exact ih h j hj
      | enc kk nn ad pt =>
        simp only [TMono] at h
        by_cases c : nn = MAXN
        · simp only [c, ↓reduceIte] at h; exact ih h.2.2 j hj
        · simp only [c, ↓reduceIte] at h
          rcases ih h.2 j hj with hl | ⟨hr1, hr2⟩
          · exact Or.inl hl
          · exact Or.inr ⟨hr1, by omega⟩

/-- Of two encryptions in a monotone log, the later one uses a strictly larger nonce, unless one
    of them is a rekey (reserved nonce). -/
theorem order {n : Nat} {l : List Event} {n' : Nat} (h : TMono n l n') (i j : Nat) (hij : i < j)
    (k1 k2 : Bytes) (n1 n2 : UInt64) (a1 p1 a2 p2 : Bytes)
    (hi : l[i]? = some (.enc k1 n1 a1 p1)) (hj : l[j]? = some (.enc k2 n2 a2 p2)) :
    n1 = MAXN ∨ n2 = MAXN ∨ n1.toNat < n2.toNat := by
  induction l generalizing n i j with
  | nil => simp at hi
  | cons x l ih =>
    cases j with
    | zero => omega
    | succ j =>
      simp only [List.getElem?_cons_succ] at hj
      cases i with
      | zero =>
        simp only [List.getElem?_cons_zero, Option.some.injEq] at hi
        subst hi
        simp only [TMono] at h
        by_cases c : n1 = MAXN
        · exact Or.inl c
        · simp only [c, ↓reduceIte] at h
          rcases lower h.2 j k2 n2 a2 p2 hj with hl | hr
          · exact Or.inr (Or.inl hl.1)
          · right; right; omega
      | succ i =>
        simp only [List.getElem?_cons_succ] at hi
        cases x with
        | dec a b c d f => exact ih h i j (by omega) hi hj
        | rng d => exact ih h i j (by omega) hi hj
        | enc kk nn ad pt =>
          simp only [TMono] at h
          by_cases c : nn = MAXN
          · simp only [c, ↓reduceIte] at h; exact ih h.2.2 i j (by omega) hi hj
          · simp only [c, ↓reduceIte] at h; exact ih h.2 i j (by omega) hi hj

/-- **No nonce is used for two different inputs** in a monotone log, whatever the keys are. -/
theorem no_reuse {n : Nat} {l : List Event} {n' : Nat} (h : TMono n l n') (i j : Nat) (hij : i < j)
    (k1 k2 : Bytes) (n1 : UInt64) (a1 p1 a2 p2 : Bytes)
    (hi : l[i]? = some (.enc k1 n1 a1 p1)) (hj : l[j]? = some (.enc k2 n1 a2 p2)) : a1 = a2 ∧ p1 = p2 := by
  have hmax : n1 = MAXN := by
    rcases order h i j hij k1 k2 n1 n1 a1 p1 a2 p2 hi hj with hr | hr | hr
    · exact hr
    · exact hr
    · omega
  subst hmax
  rcases lower h i k1 MAXN a1 p1 hi with d1 | d1
  · rcases lower h j k2 MAXN a2 p2 hj with d2 | d2
    · exact ⟨d1.2.1.trans d2.2.1.symm, d1.2.2.trans d2.2.2.symm⟩
    · exact absurd rfl d2.1
  · exact absurd rfl d1.1

end TMono

/-! ### Histories of one transport endpoint -/

/-- The public operations of `TransportState` (the verification-only hook that sets the sending
    nonce is not part of the API and is excluded). -/
inductive TOp
  | write (p : Bytes) (cap : Nat)
  | read (m : Bytes) (cap : Nat)
  | rekeyOutgoing
  | rekeyIncoming
  | rekeyInitiator
  | rekeyResponder
  | rekeyManually (ki kr : Option Bytes)
  | setReceivingNonce (n : UInt64)

def texec (S : Suite) (ts : TS) : TOp → TS × List Event
  | .write p cap => ((ts.writeMessage S p cap).2.1, (ts.writeMessage S p cap).2.2)
  | .read m cap => ((ts.readMessage S m cap).2.1, (ts.readMessage S m cap).2.2.2)
  | .rekeyOutgoing => ts.rekeyOutgoing S
  | .rekeyIncoming => ts.rekeyIncoming S
  | .rekeyInitiator => ts.rekeyInitiator S
  | .rekeyResponder => ts.rekeyResponder S
  | .rekeyManually ki kr => (ts.rekeyManually ki kr, [])
  | .setReceivingNonce n => (ts.setReceivingNonce n, [])

def trun (S : Suite) : TS → List TOp → TS × List Event
  | ts, [] => (ts, [])
  | ts, op :: ops => ((trun S (texec S ts op).1 ops).1, (texec S ts op).2 ++ (trun S (texec S ts op).1 ops).2)

/-- The operations that change this endpoint's sending key. -/
def TOp.rekeysSend (initiator : Bool) : TOp → Bool
  | .rekeyOutgoing => true
  | .rekeyInitiator => initiator
  | .rekeyResponder => !initiator
  | .rekeyManually ki kr => if initiator then ki.isSome else kr.isSome
  | _ => false

theorem write_facts (S : Suite) (ts : TS) (p : Bytes) (cap : Nat) :
    (ts.writeMessage S p cap).2.1.initiator = ts.initiator ∧
    ((ts.writeMessage S p cap).2.2 = [] ∧ (ts.writeMessage S p cap).2.1 = ts ∨
     ts.sendCs.n ≠ MAXN ∧ (ts.writeMessage S p cap).2.2 = [.enc ts.sendCs.key ts.sendCs.n [] p] ∧
       (ts.writeMessage S p cap).2.1.sendCs = { ts.sendCs with n := ts.sendCs.n + 1 }) := by
  rw [writeMessage_eq]
  by_cases c1 : (!ts.initiator && ts.oneway) = true
  · simp only [c1, ↓reduceIte]; exact ⟨rt, Or.inl ⟨rt, rt⟩⟩
  · simp only [c1, ↓reduceIte, Bool.false_eq_true]
    by_cases c2 : (decide (p.length + 16 > 65535) || decide (p.length + 16 > cap)) = true
    · simp only [c2, ↓reduceIte]; exact ⟨rt, Or.inl ⟨rt, rt⟩⟩
    · simp only [c2, ↓reduceIte, Bool.false_eq_true]
      refine ⟨initiator_withSend _ _, ?_⟩
      rcases encryptAd_cases S ts.sendCs [] p cap with ⟨hn, _, h2, h3⟩ | ⟨_, h2, h3⟩
      · right; exact ⟨hn, h3, by rw [sendCs_withSend, h2]⟩
      · left; exact ⟨h3, by rw [h2, withSend_self]⟩

theorem read_facts (S : Suite) (ts : TS) (m : Bytes) (cap : Nat) :
    (ts.readMessage S m cap).2.1.initiator = ts.initiator ∧
    (ts.readMessage S m cap).2.1.sendCs = ts.sendCs ∧
    (∀ kk nn a p, Event.enc kk nn a p ∉ (ts.readMessage S m cap).2.2.2) := by
  rw [readMessage_eq]
  by_cases c0 : m.length > 65535
  · simp only [c0, ↓reduceIte]; exact ⟨rt, rt, by simp⟩
  · simp only [c0, ↓reduceIte]
    by_cases c1 : (ts.initiator && ts.oneway) = true
    · simp only [c1, ↓reduceIte]; exact ⟨rt, rt, by simp⟩
    · simp only [c1, ↓reduceIte, Bool.false_eq_true]
      exact ⟨initiator_withRecv _ _, sendCs_withRecv _ _, (decryptAd_facts S ts.recvCs [] m cap).2.2⟩

theorem TMono.of_quiet (n : Nat) (l : List Event) (hq : ∀ kk nn a p, Event.enc kk nn a p ∉ l) : TMono n l n := by
  induction l with
  | nil => exact Nat.le_refl _
  | cons x l ih =>
    have hq' : ∀ kk nn ad pt, Event.enc kk nn ad pt ∉ l := fun kk nn ad pt hm => hq kk nn ad pt (List.mem_cons_of_mem _ hm)
    cases x with
    | dec a b c d f => exact ih hq'
    | rng d => exact ih hq'
    | enc kk nn ad pt => exact absurd List.mem_cons_self (hq kk nn ad pt)

/-- One operation: the role is kept, the log is monotone from the sending counter before to the
    sending counter after, and unless the operation re-keys the sending direction the sending
    key is kept and is the key of every message encryption. -/
theorem texec_facts (S : Suite) (ts : TS) (op : TOp) :
    (texec S ts op).1.initiator = ts.initiator ∧
    TMono ts.sendCs.n.toNat (texec S ts op).2 (texec S ts op).1.sendCs.n.toNat ∧
    (op.rekeysSend ts.initiator = false →
      (texec S ts op).1.sendCs.key = ts.sendCs.key ∧
      ∀ kk nn a p, Event.enc kk nn a p ∈ (texec S ts op).2 → nn ≠ MAXN → kk = ts.sendCs.key) := by
  cases op with
  | write p cap =>
    obtain ⟨h1, h2⟩ := write_facts S ts p cap
    simp only [texec]
    refine ⟨h1, ?_, fun _ => ?_⟩
    · rcases h2 with ⟨e1, e2⟩ | ⟨hn, e1, e2⟩
      · rw [e1, e2]; exact Nat.le_refl _
      · rw [e1, e2]
        simp only [TMono, hn, ↓reduceIte]
        exact ⟨Nat.le_refl _, by rw [succ_toNat _ hn]; exact Nat.le_refl _⟩
    · rcases h2 with ⟨e1, e2⟩ | ⟨hn, e1, e2⟩
      · rw [e1, e2]; exact ⟨rfl, by simp⟩
      · rw [e1, e2]
        refine ⟨rfl, ?_⟩
        intro kk nn a p hm _
        simp only [List.mem_singleton, Event.enc.injEq] at hm
        exact hm.1
  | read m cap =>
    obtain ⟨h1, h2, h3⟩ := read_facts S ts m cap
    simp only [texec]
    refine ⟨h1, by rw [h2]; exact TMono.of_quiet _ _ h3, fun _ => ⟨by rw [h2], fun kk nn a p hm => absurd hm (h3 kk nn a p)⟩⟩
  | rekeyOutgoing =>
    cases ts with
    | mk cs1 cs2 ow pl rs ini =>
      cases ini <;>
        simp [texec, rekeyOutgoing, rekeyInitiator, rekeyResponder, CipherState.rekey, sendCs, TOp.rekeysSend, TMono, MAXN]
  | rekeyIncoming =>
    cases ts with
    | mk cs1 cs2 ow pl rs ini =>
      cases ini <;>
        simp [texec, rekeyIncoming, rekeyInitiator, rekeyResponder, CipherState.rekey, sendCs, TOp.rekeysSend, TMono, MAXN] <;>
        (try (intro kk nn a p _ h2 _ _ h3; exact absurd h2 h3))
  | rekeyInitiator =>
    cases ts with
    | mk cs1 cs2 ow pl rs ini =>
      cases ini <;>
        simp [texec, rekeyInitiator, CipherState.rekey, sendCs, TOp.rekeysSend, TMono, MAXN] <;>
        (try (intro kk nn a p _ h2 _ _ h3; exact absurd h2 h3))
  | rekeyResponder =>
    cases ts with
    | mk cs1 cs2 ow pl rs ini =>
      cases ini <;>
        simp [texec, rekeyResponder, CipherState.rekey, sendCs, TOp.rekeysSend, TMono, MAXN] <;>
        (try (intro kk nn a p _ h2 _ _ h3; exact absurd h2 h3))
  | rekeyManually ki kr =>
    cases ts with
    | mk cs1 cs2 ow pl rs ini =>
      cases ini <;> cases ki <;> cases kr <;>
        simp [texec, rekeyManually, CipherState.rekeyManually, sendCs, TOp.rekeysSend, TMono]
  | setReceivingNonce n =>
    cases ts with
    | mk cs1 cs2 ow pl rs ini =>
      cases ini <;> simp [texec, setReceivingNonce, sendCs, TOp.rekeysSend, TMono]

/-- **Every history of one transport endpoint is monotone** from its sending counter. -/
theorem trun_mono (S : Suite) (ts : TS) (ops : List TOp) :
    (trun S ts ops).1.initiator = ts.initiator ∧
    TMono ts.sendCs.n.toNat (trun S ts ops).2 (trun S ts ops).1.sendCs.n.toNat := by
  induction ops generalizing ts with
  | nil => exact ⟨rfl, Nat.le_refl _⟩
  | cons op ops ih =>
    obtain ⟨h1, h2, _⟩ := texec_facts S ts op
    obtain ⟨i1, i2⟩ := ih (texec S ts op).1
    exact ⟨i1.trans h1, h2.append i2⟩

/-- **Between two rekeys of the sending direction the message encryptions use one key**: in a
    history without such a rekey every message encryption is under the sending key the endpoint
    started with, and that key is still installed at the end. -/
theorem trun_key (S : Suite) (ts : TS) (ops : List TOp) (hno : ∀ op ∈ ops, op.rekeysSend ts.initiator = false) :
    (trun S ts ops).1.sendCs.key = ts.sendCs.key ∧
    ∀ kk nn a p, Event.enc kk nn a p ∈ (trun S ts ops).2 → nn ≠ MAXN → kk = ts.sendCs.key := by
  induction ops generalizing ts with
  | nil => exact ⟨rfl, by simp [trun]⟩
  | cons op ops ih =>
    obtain ⟨h1, _, h3⟩ := texec_facts S ts op
    obtain ⟨k1, k2⟩ := h3 (hno op List.mem_cons_self)
    obtain ⟨i1, i2⟩ := ih (texec S ts op).1 (fun o ho => by rw [h1]; exact hno o (List.mem_cons_of_mem _ ho))
    refine ⟨i1.trans k1, ?_⟩
    intro kk nn a p hm hne
    simp only [trun, List.mem_append] at hm
    rcases hm with hm | hm
    · exact k2 kk nn a p hm hne
    · exact (i2 kk nn a p hm hne).trans k1

end SnowVerif.C06
