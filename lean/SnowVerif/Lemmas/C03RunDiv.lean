/-
  C08, model level: concrete differences between the two parties' configurations make the
  abstractions of the built states diverge (`Spec.Integrity.Div`: the transcript hashes differ) or
  disagree on a psk that is used (`PskMismatch`) -- or exhibit a hash collision.
-/
import SnowVerif.Lemmas.C03RunPre

namespace SnowVerif.C03Run
open SnowVerif SnowVerif.Model SnowVerif.Model.HS SnowVerif.Bytes SnowVerif.C01
open SnowVerif.Theorems SnowVerif.Generated SnowVerif.Lemmas.C12
open SnowVerif.Spec.Integrity (HashCollision Div PskMismatch)
set_option linter.unusedVariables false
set_option linter.unusedSimpArgs false

/-! ### `mix_hash` keeps or creates a difference of `h` -/

/-- Two `mix_hash` calls on states with `h` of the same length: if the `h` differ or the data
    differ, the results differ -- or the two hash inputs are a collision. -/
theorem mixHash_div (S : Suite) (a b : Sym) (k1 k2 : Bytes) (hlen : a.h.length = b.h.length)
    (hne : a.h ≠ b.h ∨ k1 ≠ k2) :
    (a.mixHash S k1).h ≠ (b.mixHash S k2).h ∨ HashCollision S := by
  by_cases heq : S.hash (a.h ++ k1) = S.hash (b.h ++ k2)
  · right
    refine ⟨a.h ++ k1, b.h ++ k2, ?_, heq⟩
    intro happ
    obtain ⟨e1, e2⟩ := List.append_inj happ hlen
    rcases hne with hne | hne
    · exact hne e1
    · exact hne e2
  · left; exact heq

/-- The pre-message loop (one `mix_hash(key)` per token) on two states whose `h` have `hash_len`
    bytes: a difference of `h` persists, and a difference of the keys mixed creates one as soon
    as there is a token -- or a hash collision is exhibited. -/
theorem premix_div (S : Suite) (hL : S.HashLen) (k1 k2 : Bytes) :
    ∀ (toks : List Tok) (a b : Sym), a.h.length = S.hashLen → b.h.length = S.hashLen →
      (a.h ≠ b.h ∨ (toks ≠ [] ∧ k1 ≠ k2)) →
      (premix S k1 toks a).h ≠ (premix S k2 toks b).h ∨ HashCollision S
  | [], a, b, ha, hb, hne => by
    rcases hne with hne | ⟨h, _⟩
    · exact Or.inl hne
    · exact absurd rfl h
  | t :: ts, a, b, ha, hb, hne => by
    have h1 : (a.mixHash S k1).h ≠ (b.mixHash S k2).h ∨ HashCollision S := by
      apply mixHash_div S a b k1 k2 (by rw [ha, hb])
      rcases hne with hne | ⟨_, hne⟩
      · exact Or.inl hne
      · exact Or.inr hne
    rcases h1 with h1 | h1
    · exact premix_div S hL k1 k2 ts _ _ (hL _) (hL _) (Or.inl h1)
    · exact Or.inr h1

theorem init_h_len (S : Suite) (hL : S.HashLen) (name : Bytes) : (Sym.init S name).h.length = S.hashLen := by
  have := init_ck S hL name
  unfold CkLen at this
  exact this

/-- The local static public key and the remote static key a built session mixes into `h`. -/
def ownPub (S : Suite) (c : BuildCfg) : Bytes := (builtS S c).val.pub
def peerPub (S : Suite) (c : BuildCfg) : Bytes := (builtRs S c).val.take S.pubLen

/-- **`h` of two built sessions differs** (or a hash collision is exhibited) as soon as the
    prologues differ, or the initiator's pre-message is non-empty and the parties disagree on the
    initiator's static public key, or the same for the responder's pre-message -- whatever else
    differs (names, other keys). -/
theorem builtSym_div (S : Suite) (hL : S.HashLen) (cI cR : BuildCfg)
    (hi : cI.initiator = true) (hr : cR.initiator = false) (hp : cI.pattern = cR.pattern)
    (hd : cI.prologue ≠ cR.prologue ∨
      (cI.pattern.tokens.preI ≠ [] ∧ ownPub S cI ≠ peerPub S cR) ∨
      (cI.pattern.tokens.preR ≠ [] ∧ peerPub S cI ≠ ownPub S cR)) :
    (builtSym S cI).h ≠ (builtSym S cR).h ∨ HashCollision S := by
  unfold builtSym premixBoth
  simp only [hi, hr, ↓reduceIte, Bool.false_eq_true, ← hp]
  have l0I : ((Sym.init S cI.name).mixHash S cI.prologue).h.length = S.hashLen := hL _
  have l0R : ((Sym.init S cR.name).mixHash S cR.prologue).h.length = S.hashLen := hL _
  -- after the initiator's pre-message
  have step1 : ∀ (d : ((Sym.init S cI.name).mixHash S cI.prologue).h ≠ ((Sym.init S cR.name).mixHash S cR.prologue).h ∨
      (cI.pattern.tokens.preI ≠ [] ∧ (builtS S cI).val.pub ≠ (builtRs S cR).val.take S.pubLen)),
      (premix S (builtRs S cI |>.val.take S.pubLen) cI.pattern.tokens.preR
        (premix S (builtS S cI).val.pub cI.pattern.tokens.preI ((Sym.init S cI.name).mixHash S cI.prologue))).h ≠
      (premix S (builtS S cR).val.pub cI.pattern.tokens.preR
        (premix S ((builtRs S cR).val.take S.pubLen) cI.pattern.tokens.preI ((Sym.init S cR.name).mixHash S cR.prologue))).h ∨
      HashCollision S := by
    intro d
    rcases premix_div S hL _ _ cI.pattern.tokens.preI _ _ l0I l0R d with h1 | h1
    · exact premix_div S hL _ _ cI.pattern.tokens.preR _ _ (premix_h_len S hL _ _ _ l0I)
        (premix_h_len S hL _ _ _ l0R) (Or.inl h1)
    · exact Or.inr h1
  rcases hd with hd | hd | hd
  · rcases mixHash_div S (Sym.init S cI.name) (Sym.init S cR.name) cI.prologue cR.prologue
      (by rw [init_h_len S hL, init_h_len S hL]) (Or.inr hd) with h0 | h0
    · exact step1 (Or.inl h0)
    · exact Or.inr h0
  · exact step1 (Or.inr hd)
  · exact premix_div S hL _ _ cI.pattern.tokens.preR _ _ (premix_h_len S hL _ _ _ l0I)
      (premix_h_len S hL _ _ _ l0R) (Or.inr hd)

theorem built_h (S : Suite) (av : Avail) (c : BuildCfg) (hs : HS) (hb : build S av c = .ok hs) :
    (absHS hs).ss.h = (builtSym S c).h := by
  have hi := C12.build_initial_state S av c hs hb
  show hs.sym.h = _
  rw [hi.2.2.2.2.2.2.2.2.2.2.2.2.2.2.2.2.2.1]

/-- `Div` (or a hash collision) of the abstractions of two built sessions from a difference of
    the configurations that enters `h`. -/
theorem div_built (S : Suite) (hL : S.HashLen) (av : Avail) (cI cR : BuildCfg) (A B : HS)
    (hA : build S av cI = .ok A) (hB : build S av cR = .ok B)
    (hi : cI.initiator = true) (hr : cR.initiator = false) (hp : cI.pattern = cR.pattern)
    (hd : cI.prologue ≠ cR.prologue ∨
      (cI.pattern.tokens.preI ≠ [] ∧ ownPub S cI ≠ peerPub S cR) ∨
      (cI.pattern.tokens.preR ≠ [] ∧ peerPub S cI ≠ ownPub S cR)) :
    Div (absHS A) (absHS B) ∨ HashCollision S := by
  rcases builtSym_div S hL cI cR hi hr hp hd with h | h
  · left; left
    rw [built_h S av cI A hA, built_h S av cR B hB]
    exact h
  · exact Or.inr h

/-- The keys in the terms of the configuration: the local static public key is the one derived
    from the configured private key; the remote static key is the configured one (its length was
    checked by `build`). -/
theorem ownPub_eq (S : Suite) (c : BuildCfg) (k : Bytes) (h : c.s = some k) : ownPub S c = S.pubOf k := by
  unfold ownPub builtS; rw [h]

theorem peerPub_eq (S : Suite) (av : Avail) (c : BuildCfg) (hs : HS) (hb : build S av c = .ok hs) (v : Bytes)
    (h : c.rs = some v) : peerPub S c = v := by
  unfold peerPub
  rw [builtRs_take S c (build_checks S av c hs hb).2.2]
  unfold builtRs; rw [h]

/-! ### A `psk` modifier puts its token into the instance -/

theorem psk_tok_of_mod (p : Pattern) (mods : List Modifier) (inst : Inst)
    (h : handshakeTokens p mods = .ok inst) (n : Nat) (hn : Modifier.psk n ∈ mods) :
    ∃ m ∈ inst.msgs, Tok.psk n ∈ m := by
  unfold handshakeTokens at h
  obtain ⟨hfit, rfl⟩ := (C12.applyModifiers_ok_iff _ _ _ (base_shape p).2.2.1).mp h
  obtain ⟨n', hn', hle⟩ := hfit _ hn
  cases hn'
  have hlen := (base_shape p).2.2.1
  have hc : 0 < mods.count (.psk n) := List.count_pos_iff.mpr hn
  cases n with
  | zero =>
    have h0 : 0 < (withPsks p.tokens mods).msgs.length := by rw [withPsks_length]; exact hlen
    refine ⟨_, List.getElem_mem h0, ?_⟩
    rw [withPsks_getElem p.tokens mods 0 hlen]
    simp only [List.mem_append]
    left; left
    simp only [frontToks, ↓reduceIte, List.mem_replicate, ne_eq, and_true]
    omega
  | succ k =>
    have hk : k < p.tokens.msgs.length := by omega
    have h0 : k < (withPsks p.tokens mods).msgs.length := by simpa using hk
    refine ⟨_, List.getElem_mem h0, ?_⟩
    rw [withPsks_getElem p.tokens mods k hk]
    simp only [List.mem_append]
    right
    simp only [backToks, List.mem_replicate, ne_eq, and_true]
    omega

/-- `PskMismatch` of the abstractions of two built sessions: some `psk n` token of the instance
    uses a slot on which the two configurations differ. -/
theorem pskMismatch_built (S : Suite) (hL : S.HashLen) (hpl : S.PubLen) (av : Avail) (cI cR : BuildCfg) (A B : HS)
    (hA : build S av cI = .ok A) (hB : build S av cR = .ok B)
    (m : List Tok) (hm : m ∈ A.msgs) (n : Nat) (hn : Tok.psk n ∈ m)
    (hne : cI.psks.getD n none ≠ cR.psks.getD n none) : PskMismatch (absHS A) (absHS B) := by
  obtain ⟨_, _, _, _, _, a6, _⟩ := built_abs_facts S hL hpl av cI A hA
  obtain ⟨_, _, _, _, _, b6, _⟩ := built_abs_facts S hL hpl av cR B hB
  refine ⟨m, by rw [(msgs_built S av cI A hA).1]; exact hm, n, hn, ?_⟩
  rw [a6, b6]
  exact hne

/-- **The protocol name enters `h`**: two built sessions whose initial `h` (the padded or hashed
    protocol name) differ have different `h` after `build`, whatever the prologues and keys are,
    or a hash collision is exhibited. -/
theorem builtSym_div_name (S : Suite) (hL : S.HashLen) (cI cR : BuildCfg)
    (hi : cI.initiator = true) (hr : cR.initiator = false) (hp : cI.pattern = cR.pattern)
    (hn : (Sym.init S cI.name).h ≠ (Sym.init S cR.name).h) :
    (builtSym S cI).h ≠ (builtSym S cR).h ∨ HashCollision S := by
  unfold builtSym premixBoth
  simp only [hi, hr, ↓reduceIte, Bool.false_eq_true, ← hp]
  have l0I : ((Sym.init S cI.name).mixHash S cI.prologue).h.length = S.hashLen := hL _
  have l0R : ((Sym.init S cR.name).mixHash S cR.prologue).h.length = S.hashLen := hL _
  rcases mixHash_div S (Sym.init S cI.name) (Sym.init S cR.name) cI.prologue cR.prologue
      (by rw [init_h_len S hL, init_h_len S hL]) (Or.inl hn) with h0 | h0
  · rcases premix_div S hL _ _ cI.pattern.tokens.preI _ _ l0I l0R (Or.inl h0) with h1 | h1
    · exact premix_div S hL _ _ cI.pattern.tokens.preR _ _ (premix_h_len S hL _ _ _ l0I)
        (premix_h_len S hL _ _ _ l0R) (Or.inl h1)
    · exact Or.inr h1
  · exact Or.inr h0

theorem div_built_name (S : Suite) (hL : S.HashLen) (av : Avail) (cI cR : BuildCfg) (A B : HS)
    (hA : build S av cI = .ok A) (hB : build S av cR = .ok B)
    (hi : cI.initiator = true) (hr : cR.initiator = false) (hp : cI.pattern = cR.pattern)
    (hn : (Sym.init S cI.name).h ≠ (Sym.init S cR.name).h) :
    Div (absHS A) (absHS B) ∨ HashCollision S := by
  rcases builtSym_div_name S hL cI cR hi hr hp hn with h | h
  · left; left
    rw [built_h S av cI A hA, built_h S av cR B hB]
    exact h
  · exact Or.inr h

end SnowVerif.C03Run
