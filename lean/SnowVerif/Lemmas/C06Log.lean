/-
  C06, abstract part: the *nonce discipline* of a ghost log.

  A ghost log (`List GEv`) is the list of ghost events of a run (`Event`, as the model logs them)
  interleaved with markers for the *key installations* of one cipher (`CipherState::set` performed
  by `mix_key` / `mix_key_and_hash` / `split`, a rekey, a manual rekey, a restore).  `Discipline`
  says that the log is what a counter-mode cipher state produces: every `enc` event uses the key
  currently installed, and between two installations the nonces strictly increase; the reserved
  nonce 2^64-1 is only used on the fixed rekey input.  From this alone: two `enc` events with the
  same (key, nonce) either encrypt the same data or an installation of that very key lies between
  them (`Discipline.no_reuse`).
-/
import SnowVerif.Lemmas.Cipher

namespace SnowVerif.C06
open SnowVerif SnowVerif.Model
set_option linter.unusedVariables false
set_option linter.unusedSimpArgs false

abbrev MAXN : UInt64 := CipherState.nonceMax

/-- Ghost log entry: a logged event of the model, or "the cipher was (re-)keyed with `key` and its
    counter set to `n`". -/
inductive GEv
  | ev (e : Event)
  | install (key : Bytes) (n : UInt64)
  deriving DecidableEq, Repr

/-- The events of a ghost log (installation markers erased). -/
def erase : List GEv → List Event
  | [] => []
  | .ev e :: g => e :: erase g
  | .install _ _ :: g => erase g

/-- `Discipline k n g k' n'`: started with key `k` installed and counter at least `n`, the log `g`
    is consistent with a counter-mode cipher and ends with key `k'` and a counter at most `n'`.
    * an `enc` event uses the installed key and a nonce not below the counter; the counter
      moves past it;
    * an `enc` event with the reserved nonce 2^64-1 encrypts 32 zero bytes with empty associated
      data (rekey) and does not move the counter;
    * `dec` / `rng` events do not matter (a successful decryption may only move the counter up);
    * an installation replaces key and counter. -/
def Discipline : Bytes → Nat → List GEv → Bytes → Nat → Prop
  | k, n, [], k', n' => k' = k ∧ n ≤ n'
  | k, n, .ev (.enc kk nn ad pt) :: g, k', n' =>
      kk = k ∧ (if nn = MAXN then ad = [] ∧ pt = Bytes.zeros 32 ∧ Discipline k n g k' n'
                else n ≤ nn.toNat ∧ Discipline k (nn.toNat + 1) g k' n')
  | k, n, .ev (.dec _ _ _ _ _) :: g, k', n' => Discipline k n g k' n'
  | k, n, .ev (.rng _) :: g, k', n' => Discipline k n g k' n'
  | _, _, .install kk nn :: g, k', n' => Discipline kk nn.toNat g k' n'

theorem erase_append (g1 g2 : List GEv) : erase (g1 ++ g2) = erase g1 ++ erase g2 := by
  induction g1 with
  | nil => rfl
  | cons x g ih => cases x <;> simp [erase, ih]

theorem erase_map_ev (l : List Event) : erase (l.map .ev) = l := by
  induction l with
  | nil => rfl
  | cons x l ih => simp [erase, ih]

namespace Discipline

theorem weaken_start {k : Bytes} {n m : Nat} {g : List GEv} {k' : Bytes} {n' : Nat}
    (h : Discipline k n g k' n') (hm : m ≤ n) : Discipline k m g k' n' := by
  induction g generalizing k n m with
  | nil => exact ⟨h.1, Nat.le_trans hm h.2⟩
  | cons x g ih =>
    cases x with
    | install kk nn => exact h
    | ev e =>
      cases e with
      | dec a b c d f => exact ih h hm
      | rng d => exact ih h hm
      | enc kk nn ad pt =>
        simp only [Discipline] at h ⊢
        refine ⟨h.1, ?_⟩
        by_cases c : nn = MAXN
        · simp only [c, ↓reduceIte] at h ⊢
          exact ⟨h.2.1, h.2.2.1, ih h.2.2.2 hm⟩
        · simp only [c, ↓reduceIte] at h ⊢
          exact ⟨Nat.le_trans hm h.2.1, h.2.2⟩

theorem weaken_end {k : Bytes} {n : Nat} {g : List GEv} {k' : Bytes} {n' m : Nat}
    (h : Discipline k n g k' n') (hm : n' ≤ m) : Discipline k n g k' m := by
  induction g generalizing k n with
  | nil => exact ⟨h.1, Nat.le_trans h.2 hm⟩
  | cons x g ih =>
    cases x with
    | install kk nn => exact ih h
    | ev e =>
      cases e with
      | dec a b c d f => exact ih h
      | rng d => exact ih h
      | enc kk nn ad pt =>
        simp only [Discipline] at h ⊢
        refine ⟨h.1, ?_⟩
        by_cases c : nn = MAXN
        · simp only [c, ↓reduceIte] at h ⊢
          exact ⟨h.2.1, h.2.2.1, ih h.2.2.2⟩
        · simp only [c, ↓reduceIte] at h ⊢
          exact ⟨h.2.1, ih h.2.2⟩

/-- Logs compose. -/
theorem append {k : Bytes} {n : Nat} {g1 : List GEv} {k1 : Bytes} {n1 : Nat} {g2 : List GEv} {k2 : Bytes} {n2 : Nat}
    (h1 : Discipline k n g1 k1 n1) (h2 : Discipline k1 n1 g2 k2 n2) : Discipline k n (g1 ++ g2) k2 n2 := by
  induction g1 generalizing k n with
  | nil =>
    obtain ⟨rfl, hn⟩ := h1
    exact weaken_start h2 hn
  | cons x g ih =>
    cases x with
    | install kk nn => exact ih h1
    | ev e =>
      cases e with
      | dec a b c d f => exact ih h1
      | rng d => exact ih h1
      | enc kk nn ad pt =>
        simp only [List.cons_append, Discipline] at h1 ⊢
        refine ⟨h1.1, ?_⟩
        by_cases c : nn = MAXN
        · simp only [c, ↓reduceIte] at h1 ⊢
          exact ⟨h1.2.1, h1.2.2.1, ih h1.2.2.2⟩
        · simp only [c, ↓reduceIte] at h1 ⊢
          exact ⟨h1.2.1, ih h1.2.2⟩

/-- A log without `enc` events and installations keeps key and counter. -/
theorem of_quiet (k : Bytes) (n : Nat) (l : List Event) (hq : ∀ kk nn ad pt, Event.enc kk nn ad pt ∉ l) :
    Discipline k n (l.map .ev) k n := by
  induction l with
  | nil => exact ⟨rfl, Nat.le_refl _⟩
  | cons x l ih =>
    have hq' : ∀ kk nn ad pt, Event.enc kk nn ad pt ∉ l := fun kk nn ad pt hm => hq kk nn ad pt (List.mem_cons_of_mem _ hm)
    cases x with
    | dec a b c d f => exact ih hq'
    | rng d => exact ih hq'
    | enc kk nn ad pt => exact absurd List.mem_cons_self (hq kk nn ad pt)

/-- The key of an `enc` event is the start key, with a nonce not below the start counter (or the
    reserved one), unless that key was installed before the event. -/
theorem key_at {k : Bytes} {n : Nat} {g : List GEv} {k' : Bytes} {n' : Nat} (h : Discipline k n g k' n')
    (j : Nat) (k2 : Bytes) (n2 : UInt64) (a p : Bytes) (hj : g[j]? = some (GEv.ev (.enc k2 n2 a p))) :
    (∃ m nn, m < j ∧ g[m]? = some (GEv.install k2 nn)) ∨ (k2 = k ∧ (n2 = MAXN ∨ n ≤ n2.toNat)) := by
  induction g generalizing k n j with
  | nil => simp at hj
  | cons x g ih =>
    cases j with
    | zero =>
      simp only [List.getElem?_cons_zero, Option.some.injEq] at hj
      subst hj
      simp only [Discipline] at h
      right
      refine ⟨h.1, ?_⟩
      by_cases c : n2 = MAXN
      · exact Or.inl c
      · simp only [c, ↓reduceIte] at h; exact Or.inr h.2.1
    | succ j =>
      simp only [List.getElem?_cons_succ] at hj
      have shift : (∃ m nn, m < j ∧ g[m]? = some (GEv.install k2 nn)) →
          (∃ m nn, m < j + 1 ∧ (x :: g)[m]? = some (GEv.install k2 nn)) := by
        rintro ⟨m, nn, hm, hg⟩
        exact ⟨m + 1, nn, by omega, by simpa using hg⟩
      cases x with
      | install kk nn =>
        rcases ih h j hj with hl | ⟨hk, _⟩
        · exact Or.inl (shift hl)
        · left; exact ⟨0, nn, by omega, by simp [hk]⟩
      | ev e =>
        cases e with
        | dec a1 b c d f => rcases ih h j hj with hl | hr; exact Or.inl (shift hl); exact Or.inr hr
        | rng d => rcases ih h j hj with hl | hr; exact Or.inl (shift hl); exact Or.inr hr
        | enc kk nn ad pt =>
          simp only [Discipline] at h
          by_cases c : nn = MAXN
          · simp only [c, ↓reduceIte] at h
            rcases ih h.2.2.2 j hj with hl | hr; exact Or.inl (shift hl); exact Or.inr hr
          · simp only [c, ↓reduceIte] at h
            rcases ih h.2.2 j hj with hl | ⟨hk, hr⟩
            · exact Or.inl (shift hl)
            · right; refine ⟨hk, ?_⟩
              rcases hr with hr | hr
              · exact Or.inl hr
              · right; omega

/-- The reserved nonce is only ever used on the rekey input. -/
theorem max_data {k : Bytes} {n : Nat} {g : List GEv} {k' : Bytes} {n' : Nat} (h : Discipline k n g k' n')
    (i : Nat) (k1 : Bytes) (a p : Bytes) (hi : g[i]? = some (GEv.ev (.enc k1 MAXN a p))) :
    a = [] ∧ p = Bytes.zeros 32 := by
  induction g generalizing k n i with
  | nil => simp at hi
  | cons x g ih =>
    cases i with
    | zero =>
      simp only [List.getElem?_cons_zero, Option.some.injEq] at hi
      subst hi
      simp only [Discipline, ↓reduceIte] at h
      exact ⟨h.2.1, h.2.2.1⟩
    | succ i =>
      simp only [List.getElem?_cons_succ] at hi
      cases x with
      | install kk nn => exact ih h i hi
      | ev e =>
        cases e with
        | dec a1 b c d f => exact ih h i hi
        | rng d => exact ih h i hi
        | enc kk nn ad pt =>
          simp only [Discipline] at h
          by_cases c : nn = MAXN
          · simp only [c, ↓reduceIte] at h; exact ih h.2.2.2 i hi
          · simp only [c, ↓reduceIte] at h; exact ih h.2.2 i hi

/-- **Nonce order per installation.** Of two `enc` events of a disciplined log, either the key
    used by the later one was installed between them, or both use the same key and (unless one
    of them is a rekey on the reserved nonce) the later one uses a strictly larger nonce. -/
theorem order {k : Bytes} {n : Nat} {g : List GEv} {k' : Bytes} {n' : Nat} (h : Discipline k n g k' n')
    (i j : Nat) (hij : i < j) (k1 k2 : Bytes) (n1 n2 : UInt64) (a1 p1 a2 p2 : Bytes)
    (hi : g[i]? = some (GEv.ev (.enc k1 n1 a1 p1))) (hj : g[j]? = some (GEv.ev (.enc k2 n2 a2 p2))) :
    (∃ m nn, i < m ∧ m < j ∧ g[m]? = some (GEv.install k2 nn)) ∨
    (k1 = k2 ∧ (n1 = MAXN ∨ n2 = MAXN ∨ n1.toNat < n2.toNat)) := by
  induction g generalizing k n i j with
  | nil => simp at hi
  | cons x g ih =>
    cases j with
    | zero => omega
    | succ j =>
      simp only [List.getElem?_cons_succ] at hj
      cases i with
      | zero =>
        simp only [List.getElem?_cons_zero, Option.some.injEq] at hi
        subst hi
        simp only [Discipline] at h
        have shift : (∃ m nn, m < j ∧ g[m]? = some (GEv.install k2 nn)) →
            (∃ m nn, 0 < m ∧ m < j + 1 ∧ (GEv.ev (.enc k1 n1 a1 p1) :: g)[m]? = some (GEv.install k2 nn)) := by
          rintro ⟨m, nn, hm, hg⟩
          exact ⟨m + 1, nn, by omega, by omega, by simpa using hg⟩
        by_cases c : n1 = MAXN
        · simp only [c, ↓reduceIte] at h
          rcases key_at h.2.2.2 j k2 n2 a2 p2 hj with hl | ⟨hk, _⟩
          · exact Or.inl (shift hl)
          · right; exact ⟨h.1.trans hk.symm, Or.inl c⟩
        · simp only [c, ↓reduceIte] at h
          rcases key_at h.2.2 j k2 n2 a2 p2 hj with hl | ⟨hk, hr⟩
          · exact Or.inl (shift hl)
          · right; refine ⟨h.1.trans hk.symm, ?_⟩
            rcases hr with hr | hr
            · exact Or.inr (Or.inl hr)
            · right; right; omega
      | succ i =>
        simp only [List.getElem?_cons_succ] at hi
        have shift : (∃ m nn, i < m ∧ m < j ∧ g[m]? = some (GEv.install k2 nn)) →
            (∃ m nn, i + 1 < m ∧ m < j + 1 ∧ (x :: g)[m]? = some (GEv.install k2 nn)) := by
          rintro ⟨m, nn, hm1, hm2, hg⟩
          exact ⟨m + 1, nn, by omega, by omega, by simpa using hg⟩
        have hij' : i < j := by omega
        cases x with
        | install kk nn =>
          rcases ih h i j hij' hi hj with hl | hr; exact Or.inl (shift hl); exact Or.inr hr
        | ev e =>
          cases e with
          | dec a b c d f => rcases ih h i j hij' hi hj with hl | hr; exact Or.inl (shift hl); exact Or.inr hr
          | rng d => rcases ih h i j hij' hi hj with hl | hr; exact Or.inl (shift hl); exact Or.inr hr
          | enc kk nn ad pt =>
            simp only [Discipline] at h
            by_cases c : nn = MAXN
            · simp only [c, ↓reduceIte] at h
              rcases ih h.2.2.2 i j hij' hi hj with hl | hr; exact Or.inl (shift hl); exact Or.inr hr
            · simp only [c, ↓reduceIte] at h
              rcases ih h.2.2 i j hij' hi hj with hl | hr; exact Or.inl (shift hl); exact Or.inr hr

/-- **No (key, nonce) pair encrypts two different inputs, up to re-installation of the key.**
    Two `enc` events of a disciplined log under the same key and nonce encrypt the same
    (associated data, plaintext), or an installation of that very key lies strictly between them. -/
theorem no_reuse {k : Bytes} {n : Nat} {g : List GEv} {k' : Bytes} {n' : Nat} (h : Discipline k n g k' n')
    (i j : Nat) (hij : i < j) (k1 : Bytes) (n1 : UInt64) (a1 p1 a2 p2 : Bytes)
    (hi : g[i]? = some (GEv.ev (.enc k1 n1 a1 p1))) (hj : g[j]? = some (GEv.ev (.enc k1 n1 a2 p2))) :
    (a1 = a2 ∧ p1 = p2) ∨ (∃ m nn, i < m ∧ m < j ∧ g[m]? = some (GEv.install k1 nn)) := by
  rcases order h i j hij k1 k1 n1 n1 a1 p1 a2 p2 hi hj with hl | ⟨_, hr⟩
  · exact Or.inr hl
  · left
    have hmax : n1 = MAXN := by
      rcases hr with hr | hr | hr
      · exact hr
      · exact hr
      · omega
    subst hmax
    have d1 := max_data h i k1 a1 p1 hi
    have d2 := max_data h j k1 a2 p2 hj
    exact ⟨d1.1.trans d2.1.symm, d1.2.trans d2.2.symm⟩

end Discipline

/-- Positions in the erased log come from positions in the ghost log. -/
theorem erase_index1 (g : List GEv) (j : Nat) (e : Event) (h : (erase g)[j]? = some e) :
    ∃ j', j ≤ j' ∧ g[j']? = some (GEv.ev e) := by
  induction g generalizing j with
  | nil => simp [erase] at h
  | cons x g ih =>
    cases x with
    | install kk nn =>
      obtain ⟨j', hj, hg⟩ := ih j h
      exact ⟨j' + 1, by omega, by simpa using hg⟩
    | ev e0 =>
      cases j with
      | zero =>
        simp only [erase, List.getElem?_cons_zero, Option.some.injEq] at h
        exact ⟨0, Nat.le_refl _, by simp [h]⟩
      | succ j =>
        simp only [erase, List.getElem?_cons_succ] at h
        obtain ⟨j', hj, hg⟩ := ih j h
        exact ⟨j' + 1, by omega, by simpa using hg⟩

theorem erase_index2 (g : List GEv) (i j : Nat) (hij : i < j) (e e' : Event)
    (hi : (erase g)[i]? = some e) (hj : (erase g)[j]? = some e') :
    ∃ i' j' : Nat, i' < j' ∧ g[i']? = some (GEv.ev e) ∧ g[j']? = some (GEv.ev e') := by
  induction g generalizing i j with
  | nil => simp [erase] at hi
  | cons x g ih =>
    cases x with
    | install kk nn =>
      obtain ⟨i', j', h1, h2, h3⟩ := ih i j hij hi hj
      exact ⟨i' + 1, j' + 1, by omega, by simpa using h2, by simpa using h3⟩
    | ev e0 =>
      cases j with
      | zero => omega
      | succ j =>
        simp only [erase, List.getElem?_cons_succ] at hj
        cases i with
        | zero =>
          simp only [erase, List.getElem?_cons_zero, Option.some.injEq] at hi
          obtain ⟨j', _, hg⟩ := erase_index1 g j e' hj
          exact ⟨0, j' + 1, by omega, by simp [hi], by simpa using hg⟩
        | succ i =>
          simp only [erase, List.getElem?_cons_succ] at hi
          obtain ⟨i', j', h1, h2, h3⟩ := ih i j (by omega) hi hj
          exact ⟨i' + 1, j' + 1, by omega, by simpa using h2, by simpa using h3⟩

/-- `no_reuse` read on the event list the model returns: two `enc` events of the erased log under
    the same (key, nonce) encrypt the same data, or the ghost log contains, between two such
    events, an installation of that same key. -/
theorem Discipline.no_reuse_events {k : Bytes} {n : Nat} {g : List GEv} {k' : Bytes} {n' : Nat}
    (h : Discipline k n g k' n')
    (i j : Nat) (hij : i < j) (k1 : Bytes) (n1 : UInt64) (a1 p1 a2 p2 : Bytes)
    (hi : (erase g)[i]? = some (.enc k1 n1 a1 p1)) (hj : (erase g)[j]? = some (.enc k1 n1 a2 p2)) :
    (a1 = a2 ∧ p1 = p2) ∨
    (∃ (i' m j' : Nat) (nn : UInt64), i' < m ∧ m < j' ∧ g[i']? = some (GEv.ev (.enc k1 n1 a1 p1)) ∧ g[m]? = some (GEv.install k1 nn) ∧
       g[j']? = some (GEv.ev (.enc k1 n1 a2 p2))) := by
  obtain ⟨i', j', hij', h1, h2⟩ := erase_index2 g i j hij _ _ hi hj
  rcases Discipline.no_reuse h i' j' hij' k1 n1 a1 p1 a2 p2 h1 h2 with hl | ⟨m, nn, hm1, hm2, hg⟩
  · exact Or.inl hl
  · exact Or.inr ⟨i', m, j', nn, hm1, hm2, h1, hg, h2⟩

end SnowVerif.C06
