/-
  C12: the conditions of `Builder::build` in `Prop` form, and their relation to the
  Boolean checks of the model.
-/
import SnowVerif.Lemmas.C12Build

namespace SnowVerif.Lemmas.C12
open SnowVerif SnowVerif.Model SnowVerif.Generated SnowVerif.Bytes
set_option linter.unusedVariables false
set_option linter.unusedSimpArgs false

/-- A modifier is acceptable for a pattern with `len` messages: `psk n` with `n ≤ len`. -/
def ModOk (len : Nat) (m : Modifier) : Prop := ∃ n, m = .psk n ∧ n ≤ len

/-- Every modifier is implemented (`psk n`) and fits the message count. -/
def ModsFit (len : Nat) (mods : List Modifier) : Prop := ∀ m ∈ mods, ModOk len m

/-- `m` is the first modifier of the list that is not acceptable. -/
def FirstMisfit (len : Nat) (mods : List Modifier) (m : Modifier) : Prop :=
  ∃ pre post, mods = pre ++ m :: post ∧ ModsFit len pre ∧ ¬ ModOk len m

theorem modFits_eq_true_iff (len : Nat) (m : Modifier) (h : 0 < len) :
    modFits len m = true ↔ ModOk len m := modFits_iff len m h

theorem find_none_iff (len : Nat) (mods : List Modifier) (h : 0 < len) :
    mods.find? (fun m => !modFits len m) = none ↔ ModsFit len mods := by
  simp only [List.find?_eq_none, Bool.not_eq_true', Bool.not_eq_false, ModsFit,
    modFits_eq_true_iff len _ h]

theorem find_some_iff (len : Nat) (mods : List Modifier) (m : Modifier) (h : 0 < len) :
    mods.find? (fun m => !modFits len m) = some m ↔ FirstMisfit len mods m := by
  rw [List.find?_eq_some_iff_append]
  simp only [Bool.not_eq_true', Bool.not_not, FirstMisfit, ModsFit, ← modFits_eq_true_iff len _ h,
    Bool.not_eq_true]
  constructor
  · rintro ⟨h1, pre, post, h2, h3⟩; exact ⟨pre, post, h2, h3, h1⟩
  · rintro ⟨pre, post, h2, h3, h1⟩; exact ⟨h1, pre, post, h2, h3⟩

/-- At most one modifier is "the first misfit". -/
theorem firstMisfit_unique (len : Nat) (mods : List Modifier) (m m' : Modifier) (h : 0 < len)
    (h1 : FirstMisfit len mods m) (h2 : FirstMisfit len mods m') : m = m' := by
  rw [← find_some_iff len mods m h] at h1
  rw [← find_some_iff len mods m' h] at h2
  rw [h1] at h2; exact Option.some.inj h2

theorem not_modsFit_of_firstMisfit (len : Nat) (mods : List Modifier) (m : Modifier)
    (h : FirstMisfit len mods m) : ¬ ModsFit len mods := by
  obtain ⟨pre, post, rfl, _, hm⟩ := h
  intro hf; exact hm (hf m (by simp))

/-! ### The builder's conditions -/

/-- The local static key is supplied or the prerequisite table does not demand it. -/
def LocalKeyOk (c : BuildCfg) : Prop :=
  needsLocalStatic c.pattern c.initiator = true → c.s.isSome = true

/-- The remote static key is supplied or the prerequisite table does not demand it. -/
def RemoteKeyOk (c : BuildCfg) : Prop :=
  needKnownRemote c.pattern c.initiator = true → c.rs.isSome = true

/-- The resolver provides all four primitives. -/
def Resolved (av : Avail) : Prop :=
  av.rng = true ∧ av.cipher = true ∧ av.hash = true ∧ av.dh = true

/-- Supplied keys have the lengths the DH implementation states. -/
def LensOk (S : Suite) (c : BuildCfg) : Prop :=
  (∀ k, c.s = some k → k.length = S.privLen) ∧
  (∀ k, c.eFixed = some k → k.length = S.privLen) ∧
  (∀ k, c.rs = some k → k.length = S.pubLen)

/-- Supplied private keys are accepted by `Dh::set`. -/
def PrivsValid (S : Suite) (c : BuildCfg) : Prop :=
  (∀ k, c.s = some k → S.validPriv k = true) ∧ (∀ k, c.eFixed = some k → S.validPriv k = true)

theorem check1_iff (c : BuildCfg) :
    (c.s.isNone && needsLocalStatic c.pattern c.initiator) = true ↔ ¬ LocalKeyOk c := by
  unfold LocalKeyOk; cases c.s <;> simp

theorem check2_iff (c : BuildCfg) :
    (c.rs.isNone && needKnownRemote c.pattern c.initiator) = true ↔ ¬ RemoteKeyOk c := by
  unfold RemoteKeyOk; cases c.rs <;> simp

theorem lensBad_iff (S : Suite) (c : BuildCfg) : lensBad S c = true ↔ ¬ LensOk S c := by
  unfold lensBad LensOk
  cases c.s <;> cases c.eFixed <;> cases c.rs <;> simp <;> omega

theorem privBad_iff (S : Suite) (c : BuildCfg) : privBad S c = true ↔ ¬ PrivsValid S c := by
  unfold privBad PrivsValid
  cases c.s <;> cases c.eFixed <;> simp
  rename_i a b
  cases S.validPriv a <;> simp

theorem privsValid_of_total (S : Suite) (c : BuildCfg) (h : S.PrivTotal) : PrivsValid S c :=
  ⟨fun k _ => h k, fun k _ => h k⟩

theorem rsTooLong_iff (S : Suite) (c : BuildCfg) (hl : LensOk S c) :
    rsTooLong c = true ↔ (c.rs.isSome = true ∧ S.pubLen > MAXDHLEN) := by
  unfold rsTooLong
  cases h : c.rs with
  | none => simp
  | some v => have := hl.2.2 v h; simp [this]

/-- "Needed per the table" is "occurs in the token table" (by `prereq_tables_eq_derived`). -/
theorem localKeyOk_iff_tokens (c : BuildCfg) :
    LocalKeyOk c ↔
      ((Tok.s ∈ ownPre c.pattern.tokens c.initiator ∨
        ∃ i, ∃ h : i < c.pattern.tokens.msgs.length,
          (i % 2 = 0 ↔ c.initiator = true) ∧ Tok.s ∈ c.pattern.tokens.msgs[i]) → c.s.isSome = true) := by
  unfold LocalKeyOk
  rw [(prereq_tables_eq_derived c.pattern c.initiator).1, derivedNeedsLocalStatic_iff]

theorem remoteKeyOk_iff_tokens (c : BuildCfg) :
    RemoteKeyOk c ↔ (Tok.s ∈ peerPre c.pattern.tokens c.initiator → c.rs.isSome = true) := by
  unfold RemoteKeyOk
  rw [(prereq_tables_eq_derived c.pattern c.initiator).2, derivedNeedKnownRemote_iff]

instance (c : BuildCfg) : Decidable (LocalKeyOk c) := by unfold LocalKeyOk; infer_instance
instance (c : BuildCfg) : Decidable (RemoteKeyOk c) := by unfold RemoteKeyOk; infer_instance
instance (av : Avail) : Decidable (Resolved av) := by unfold Resolved; infer_instance
instance (S : Suite) (c : BuildCfg) : Decidable (LensOk S c) :=
  decidable_of_iff (lensBad S c = false)
    (by rw [← Bool.not_eq_true, lensBad_iff, Classical.not_not])
instance (S : Suite) (c : BuildCfg) : Decidable (PrivsValid S c) :=
  decidable_of_iff (privBad S c = false)
    (by rw [← Bool.not_eq_true, privBad_iff, Classical.not_not])

/-! ### The tail (`HandshakeState::new`) in `Prop` form -/

theorem buildTail_ok_iff (S : Suite) (c : BuildCfg) (hs : HS) :
    buildTail S c = .ok hs ↔ ModsFit c.pattern.tokens.msgs.length c.mods ∧ hs = builtState S c := by
  have hlen := (base_shape c.pattern).2.2.1
  unfold buildTail
  rw [← find_none_iff _ _ hlen]
  split
  · rename_i m hf; simp [hf]
  · rename_i hf; simp only [Res.ok.injEq, hf, true_and]; exact eq_comm

theorem buildTail_err_iff (S : Suite) (c : BuildCfg) (e : Err) :
    buildTail S c = .err e ↔
      ∃ m, FirstMisfit c.pattern.tokens.msgs.length c.mods m ∧ e = modsError m := by
  have hlen := (base_shape c.pattern).2.2.1
  unfold buildTail
  split
  · rename_i m hf
    have hm := (find_some_iff _ _ _ hlen).mp hf
    simp only [Res.err.injEq]
    constructor
    · intro h; exact ⟨m, hm, h.symm⟩
    · rintro ⟨m', hm', rfl⟩
      rw [firstMisfit_unique _ _ _ _ hlen hm hm']
  · rename_i hf
    simp only [reduceCtorEq, false_iff, not_exists, not_and]
    intro m hm
    rw [← find_some_iff _ _ _ hlen, hf] at hm
    simp at hm

theorem buildTail_not_panic (S : Suite) (c : BuildCfg) (site : String) :
    buildTail S c ≠ .panic site := by
  unfold buildTail; split <;> simp

/-- `build` as a decision list over the `Prop`-level conditions (all suites). -/
theorem build_eq_prop (S : Suite) (av : Avail) (c : BuildCfg) :
    build S av c =
      if ¬ LocalKeyOk c then .err (.prereq .localPrivateKey)
      else if ¬ RemoteKeyOk c then .err (.prereq .remotePublicKey)
      else if av.rng = false then .err (.init .getRngImpl)
      else if av.cipher = false then .err (.init .getCipherImpl)
      else if av.hash = false then .err (.init .getHashImpl)
      else if av.dh = false then .err (.init .getDhImpl)
      else if ¬ LensOk S c then .err (.init .validateKeyLengths)
      else if ¬ PrivsValid S c then .panic "Dh::set: invalid private key"
      else if c.rs.isSome = true ∧ S.pubLen > MAXDHLEN then .panic "rs_buf[..v.len()]"
      else buildTail S c := by
  rw [build_eq]
  simp only [check1_iff, check2_iff, lensBad_iff, privBad_iff, Bool.not_eq_true']
  by_cases hl : LensOk S c
  · simp only [rsTooLong_iff S c hl]
  · simp only [hl, not_false_eq_true, ↓reduceIte]

theorem modsError_pattern (m : Modifier) : ∃ pp, modsError m = .pattern pp := by
  cases m <;> exact ⟨_, rfl⟩

@[simp] theorem init_ne_modsError (i : InitStage) (m : Modifier) : (Err.init i = modsError m) = False := by
  cases m <;> simp [modsError]

@[simp] theorem prereq_ne_modsError (i : Prerequisite) (m : Modifier) :
    (Err.prereq i = modsError m) = False := by
  cases m <;> simp [modsError]

/-- Exhaustive classification of `build` (all suites): exactly one of the ten rows applies. -/
theorem build_classify (S : Suite) (av : Avail) (c : BuildCfg) :
    (¬ LocalKeyOk c ∧ build S av c = .err (.prereq .localPrivateKey)) ∨
    (LocalKeyOk c ∧ ¬ RemoteKeyOk c ∧ build S av c = .err (.prereq .remotePublicKey)) ∨
    (LocalKeyOk c ∧ RemoteKeyOk c ∧ av.rng = false ∧ build S av c = .err (.init .getRngImpl)) ∨
    (LocalKeyOk c ∧ RemoteKeyOk c ∧ av.rng = true ∧ av.cipher = false ∧
      build S av c = .err (.init .getCipherImpl)) ∨
    (LocalKeyOk c ∧ RemoteKeyOk c ∧ av.rng = true ∧ av.cipher = true ∧ av.hash = false ∧
      build S av c = .err (.init .getHashImpl)) ∨
    (LocalKeyOk c ∧ RemoteKeyOk c ∧ av.rng = true ∧ av.cipher = true ∧ av.hash = true ∧
      av.dh = false ∧ build S av c = .err (.init .getDhImpl)) ∨
    (LocalKeyOk c ∧ RemoteKeyOk c ∧ Resolved av ∧ ¬ LensOk S c ∧
      build S av c = .err (.init .validateKeyLengths)) ∨
    (LocalKeyOk c ∧ RemoteKeyOk c ∧ Resolved av ∧ LensOk S c ∧ ¬ PrivsValid S c ∧
      build S av c = .panic "Dh::set: invalid private key") ∨
    (LocalKeyOk c ∧ RemoteKeyOk c ∧ Resolved av ∧ LensOk S c ∧ PrivsValid S c ∧
      (c.rs.isSome = true ∧ S.pubLen > MAXDHLEN) ∧ build S av c = .panic "rs_buf[..v.len()]") ∨
    (LocalKeyOk c ∧ RemoteKeyOk c ∧ Resolved av ∧ LensOk S c ∧ PrivsValid S c ∧
      ¬ (c.rs.isSome = true ∧ S.pubLen > MAXDHLEN) ∧ build S av c = buildTail S c) := by
  have hb := build_eq_prop S av c
  generalize build S av c = b at hb ⊢
  by_cases h1 : ¬ LocalKeyOk c
  · left; exact ⟨h1, by rw [hb, if_pos h1]⟩
  right; rw [if_neg h1] at hb
  have h1 := Classical.not_not.mp h1
  by_cases h2 : ¬ RemoteKeyOk c
  · left; exact ⟨h1, h2, by rw [hb, if_pos h2]⟩
  right; rw [if_neg h2] at hb
  have h2 := Classical.not_not.mp h2
  cases h3 : av.rng
  · left; exact ⟨h1, h2, rfl, by rw [hb, if_pos h3]⟩
  right; rw [if_neg (by simp [h3])] at hb
  cases h4 : av.cipher
  · left; exact ⟨h1, h2, rfl, rfl, by rw [hb, if_pos h4]⟩
  right; rw [if_neg (by simp [h4])] at hb
  cases h5 : av.hash
  · left; exact ⟨h1, h2, rfl, rfl, rfl, by rw [hb, if_pos h5]⟩
  right; rw [if_neg (by simp [h5])] at hb
  cases h6 : av.dh
  · left; exact ⟨h1, h2, rfl, rfl, rfl, rfl, by rw [hb, if_pos h6]⟩
  right; rw [if_neg (by simp [h6])] at hb
  have hr : Resolved av := ⟨h3, h4, h5, h6⟩
  by_cases h7 : ¬ LensOk S c
  · left; exact ⟨h1, h2, hr, h7, by rw [hb, if_pos h7]⟩
  right; rw [if_neg h7] at hb
  have h7 := Classical.not_not.mp h7
  by_cases h8 : ¬ PrivsValid S c
  · left; exact ⟨h1, h2, hr, h7, h8, by rw [hb, if_pos h8]⟩
  right; rw [if_neg h8] at hb
  have h8 := Classical.not_not.mp h8
  by_cases h9 : (c.rs.isSome = true ∧ S.pubLen > MAXDHLEN)
  · left; exact ⟨h1, h2, hr, h7, h8, h9, by rw [hb, if_pos h9]⟩
  right; rw [if_neg h9] at hb
  exact ⟨h1, h2, hr, h7, h8, h9, hb⟩

/-- The first misfit is a `psk`: it is `psk n` with `n` beyond the last message. -/
theorem firstMisfit_invalidPsk_iff (len : Nat) (mods : List Modifier) :
    (∃ m, FirstMisfit len mods m ∧ Err.pattern .invalidPsk = modsError m) ↔
      ∃ pre n post, mods = pre ++ .psk n :: post ∧ ModsFit len pre ∧ len < n := by
  constructor
  · rintro ⟨m, ⟨pre, post, h1, h2, h3⟩, h4⟩
    cases m with
    | psk n =>
      refine ⟨pre, n, post, h1, h2, ?_⟩
      apply Nat.lt_of_not_le
      intro hle; exact h3 ⟨n, rfl, hle⟩
    | fallback => simp [modsError] at h4
  · rintro ⟨pre, n, post, h1, h2, h3⟩
    refine ⟨.psk n, ⟨pre, post, h1, h2, ?_⟩, rfl⟩
    rintro ⟨k, hk, hle⟩
    cases hk; omega

/-- The first misfit is `fallback`. -/
theorem firstMisfit_unsupported_iff (len : Nat) (mods : List Modifier) :
    (∃ m, FirstMisfit len mods m ∧ Err.pattern .unsupportedModifier = modsError m) ↔
      ∃ pre post, mods = pre ++ .fallback :: post ∧ ModsFit len pre := by
  constructor
  · rintro ⟨m, ⟨pre, post, h1, h2, h3⟩, h4⟩
    cases m with
    | psk n => simp [modsError] at h4
    | fallback => exact ⟨pre, post, h1, h2⟩
  · rintro ⟨pre, post, h1, h2⟩
    refine ⟨.fallback, ⟨pre, post, h1, h2, ?_⟩, rfl⟩
    rintro ⟨k, hk, _⟩
    cases hk

/-- A successful `build` returns `builtState` (all suites). -/
theorem build_ok_state (S : Suite) (av : Avail) (c : BuildCfg) (hs : HS)
    (h : build S av c = .ok hs) : hs = builtState S c := by
  rcases build_classify S av c with h' | h' | h' | h' | h' | h' | h' | h' | h' | h'
  all_goals simp_all [buildTail_ok_iff]

theorem premixBoth_fields (S : Suite) (c : BuildCfg) (own peer : Bytes) :
    (premixBoth S c own peer).cs = CipherState.new ∧
    (premixBoth S c own peer).ck = (Sym.init S c.name).ck ∧
    (premixBoth S c own peer).hasKey = false ∧ (premixBoth S c own peer).k = none := by
  unfold premixBoth
  cases c.initiator
  · simp only [Bool.false_eq_true, ↓reduceIte]
    obtain ⟨a1, a2, a3, a4⟩ := premix_fields S own c.pattern.tokens.preR
      (premix S peer c.pattern.tokens.preI ((Sym.init S c.name).mixHash S c.prologue))
    obtain ⟨b1, b2, b3, b4⟩ := premix_fields S peer c.pattern.tokens.preI
      ((Sym.init S c.name).mixHash S c.prologue)
    rw [a1, a2, a3, a4, b1, b2, b3, b4]
    simp [Sym.mixHash, Sym.init]
  · simp only [↓reduceIte]
    obtain ⟨a1, a2, a3, a4⟩ := premix_fields S peer c.pattern.tokens.preR
      (premix S own c.pattern.tokens.preI ((Sym.init S c.name).mixHash S c.prologue))
    obtain ⟨b1, b2, b3, b4⟩ := premix_fields S own c.pattern.tokens.preI
      ((Sym.init S c.name).mixHash S c.prologue)
    rw [a1, a2, a3, a4, b1, b2, b3, b4]
    simp [Sym.mixHash, Sym.init]

end SnowVerif.Lemmas.C12
