/-
  Lemmas for C10 (total API), builder half: `HandshakeTokens::try_from` (table +
  `apply_psk_modifier`), the pre-message loops of `HandshakeState::new`, `Builder::build`.
-/
import SnowVerif.Lemmas.C10

open SnowVerif SnowVerif.Model SnowVerif.Model.HS SnowVerif.Generated
set_option autoImplicit false
set_option linter.unusedVariables false
set_option linter.unusedSimpArgs false

namespace SnowVerif.Lemmas.C10

/-! ### Token tables and `apply_psk_modifier` -/

theorem mem_modify {α} (f : α → α) :
    ∀ (l : List α) (i : Nat) (x : α), x ∈ l.modify i f → x ∈ l ∨ ∃ y ∈ l, x = f y
  | [], i, x, h => by simp at h
  | a :: l, 0, x, h => by
    rw [List.modify_zero_cons] at h
    rcases List.mem_cons.1 h with rfl | h
    · right; exact ⟨a, List.mem_cons_self, rfl⟩
    · left; exact List.mem_cons_of_mem _ h
  | a :: l, i + 1, x, h => by
    rw [List.modify_succ_cons] at h
    rcases List.mem_cons.1 h with rfl | h
    · left; exact List.mem_cons_self
    · rcases mem_modify f l i x h with h | ⟨y, hy, rfl⟩
      · left; exact List.mem_cons_of_mem _ h
      · right; exact ⟨y, List.mem_cons_of_mem _ hy, rfl⟩

/-- What the rest of snow relies on about a pattern instance: every `psk` token's index is at most
    the number of messages, there are at most 4 messages (so the index fits the 10-slot psk array),
    and the pre-messages consist of `e` and `s` only (the `unreachable!()` arms of
    `HandshakeState::new`). -/
structure InstOk (inst : Inst) : Prop where
  psk : ∀ m ∈ inst.msgs, ∀ n, Tok.psk n ∈ m → n ≤ inst.msgs.length
  len : inst.msgs.length ≤ 4
  preI : ∀ t ∈ inst.preI, t = .e ∨ t = .s
  preR : ∀ t ∈ inst.preR, t = .e ∨ t = .s

/-- Decidable form, evaluated over the generated table. -/
def tokLe (L : Nat) : Tok → Bool
  | .psk n => decide (n ≤ L)
  | _ => true

def isES : Tok → Bool
  | .e => true
  | .s => true
  | _ => false

def instOkB (inst : Inst) : Bool :=
  inst.msgs.all (fun m => m.all (tokLe inst.msgs.length)) && decide (inst.msgs.length ≤ 4)
    && inst.preI.all isES && inst.preR.all isES

theorem instOk_of_B (inst : Inst) (h : instOkB inst = true) : InstOk inst := by
  unfold instOkB at h
  simp only [Bool.and_eq_true, List.all_eq_true, decide_eq_true_eq] at h
  obtain ⟨⟨⟨h1, h2⟩, h3⟩, h4⟩ := h
  refine ⟨fun m hm n hn => ?_, h2, fun t ht => ?_, fun t ht => ?_⟩
  · have := h1 m hm (.psk n) hn
    simpa [tokLe] using this
  · have := h3 t ht; cases t <;> simp_all [isES]
  · have := h4 t ht; cases t <;> simp_all [isES]

/-- TABLE FACT (re-checked whenever `Generated/Tables.lean` is regenerated): every base pattern has
    at most 4 messages, no out-of-range psk token, and only `e`/`s` pre-message tokens. -/
theorem tables_ok : ∀ p : Pattern, instOkB p.tokens = true := by
  intro p; cases p <;> decide

theorem applyPsk_isPanic (inst : Inst) (n : Nat) : (applyPsk inst n).isPanic = false := by
  unfold applyPsk; simp only; split <;> rfl

/-- `apply_psk_modifier` succeeds only when `n - 1` indexes an existing message, so the token it
    inserts has index at most the number of messages. -/
theorem applyPsk_ok {inst inst' : Inst} {n : Nat} (h : applyPsk inst n = .ok inst') (hi : InstOk inst) :
    InstOk inst' := by
  unfold applyPsk at h
  simp only at h
  split at h
  · rename_i hlt
    injection h with h; subst h
    refine ⟨?_, by simp only [List.length_modify]; exact hi.len, hi.preI, hi.preR⟩
    intro m hm k hk
    simp only [List.length_modify]
    rcases mem_modify _ _ _ _ hm with hm | ⟨y, hy, rfl⟩
    · exact hi.psk m hm k hk
    · split at hk
      · rcases List.mem_cons.1 hk with hk | hk
        · injection hk with hk; omega
        · exact hi.psk y hy k hk
      · rcases List.mem_append.1 hk with hk | hk
        · exact hi.psk y hy k hk
        · simp only [List.mem_singleton] at hk
          injection hk with hk; omega
  · cases h

theorem applyModifiers_isPanic (mods : List Modifier) (inst : Inst) :
    (applyModifiers inst mods).isPanic = false := by
  induction mods generalizing inst with
  | nil => rfl
  | cons m ms ih =>
    cases m with
    | fallback => rfl
    | psk n =>
      unfold applyModifiers
      have hp := applyPsk_isPanic inst n
      split
      · exact ih _
      · rfl
      · rename_i heq; rw [heq] at hp; cases hp

theorem applyModifiers_ok (mods : List Modifier) (inst inst' : Inst)
    (h : applyModifiers inst mods = .ok inst') (hi : InstOk inst) : InstOk inst' := by
  induction mods generalizing inst with
  | nil => unfold applyModifiers at h; injection h with h; subst h; exact hi
  | cons m ms ih =>
    cases m with
    | fallback => unfold applyModifiers at h; cases h
    | psk n =>
      unfold applyModifiers at h
      split at h
      · rename_i i1 heq; exact ih _ h (applyPsk_ok heq hi)
      · cases h
      · cases h

/-- `HandshakeTokens::try_from` never panics, for any pattern and any modifier list. -/
theorem handshakeTokens_isPanic (p : Pattern) (mods : List Modifier) :
    (handshakeTokens p mods).isPanic = false :=
  applyModifiers_isPanic mods p.tokens

/-- Every instance `HandshakeTokens::try_from` returns has at most 4 messages, psk indices at most
    that, and `e`/`s`-only pre-messages. -/
theorem handshakeTokens_ok {p : Pattern} {mods : List Modifier} {inst : Inst}
    (h : handshakeTokens p mods = .ok inst) : InstOk inst :=
  applyModifiers_ok mods p.tokens inst h (instOk_of_B _ (tables_ok p))

/-- In particular every psk token index is at most 4. -/
theorem handshakeTokens_psk_le {p : Pattern} {mods : List Modifier} {inst : Inst}
    (h : handshakeTokens p mods = .ok inst) : ∀ m ∈ inst.msgs, ∀ n, Tok.psk n ∈ m → n ≤ 4 := by
  intro m hm n hn
  have ho := handshakeTokens_ok h
  have := ho.psk m hm n hn
  have := ho.len
  omega

/-! ### The pre-message loops of `HandshakeState::new` -/

theorem mixPremsg_isPanic (S : Suite) (mine : Bool) (s e : Toggle KeyPair) (rs re : Toggle Bytes)
    (ts : List Tok) (sym : Sym) (h : ∀ t ∈ ts, t = .e ∨ t = .s) :
    (mixPremsg S mine s e rs re ts sym).isPanic = false := by
  induction ts generalizing sym with
  | nil => rfl
  | cons t ts ih =>
    have ht := h t List.mem_cons_self
    have ih' := fun sym => ih sym (fun t' ht' => h t' (List.mem_cons_of_mem _ ht'))
    unfold mixPremsg
    rcases ht with rfl | rfl <;> cases mine <;> simp only <;> split <;>
      first | exact ih' _ | rfl | (rename_i heq; split at heq <;> cases heq)

theorem mixPremsg_inv (S : Suite) (mine : Bool) (s e : Toggle KeyPair) (rs re : Toggle Bytes)
    (ts : List Tok) (sym sym' : Sym) (h : mixPremsg S mine s e rs re ts sym = .ok sym')
    (hi : SymInv sym) : SymInv sym' := by
  induction ts generalizing sym with
  | nil => unfold mixPremsg at h; injection h with h; subst h; exact hi
  | cons t ts ih =>
    unfold mixPremsg at h
    simp only at h
    split at h
    · exact ih _ h (Sym.inv_mixHash S _ _ hi)
    · cases h
    · cases h

/-! ### `Builder::build` -/

/-- The key material `Builder::build` hands to `HandshakeState::new`. -/
def cfgS (S : Suite) (c : BuildCfg) : Toggle KeyPair :=
  match c.s with
  | some k => { val := { priv := k, pub := S.pubOf k }, on := true }
  | none => { val := { priv := Bytes.zeros S.privLen, pub := Bytes.zeros S.pubLen }, on := false }

def cfgE (S : Suite) (c : BuildCfg) : Toggle KeyPair :=
  match c.eFixed with
  | some k => { val := { priv := k, pub := S.pubOf k }, on := false }
  | none => { val := { priv := Bytes.zeros S.privLen, pub := Bytes.zeros S.pubLen }, on := false }

def cfgRs (S : Suite) (c : BuildCfg) : Toggle Bytes :=
  match c.rs with
  | some v => { val := v, on := true }
  | none => { val := Bytes.zeros S.pubLen, on := false }

def cfgRe (S : Suite) : Toggle Bytes := { val := Bytes.zeros S.pubLen, on := false }

def cfgPre (S : Suite) (c : BuildCfg) (inst : Inst) : Res Sym :=
  if c.initiator then
    match mixPremsg S true (cfgS S c) (cfgE S c) (cfgRs S c) (cfgRe S) inst.preI
        ((Sym.init S c.name).mixHash S c.prologue) with
    | .ok sym1 => mixPremsg S false (cfgS S c) (cfgE S c) (cfgRs S c) (cfgRe S) inst.preR sym1
    | x => x
  else
    match mixPremsg S false (cfgS S c) (cfgE S c) (cfgRs S c) (cfgRe S) inst.preI
        ((Sym.init S c.name).mixHash S c.prologue) with
    | .ok sym1 => mixPremsg S true (cfgS S c) (cfgE S c) (cfgRs S c) (cfgRe S) inst.preR sym1
    | x => x

theorem cfgPre_isPanic (S : Suite) (c : BuildCfg) (inst : Inst) (ho : InstOk inst) :
    (cfgPre S c inst).isPanic = false := by
  unfold cfgPre
  split
  · have h1 := mixPremsg_isPanic S true (cfgS S c) (cfgE S c) (cfgRs S c) (cfgRe S) inst.preI
      ((Sym.init S c.name).mixHash S c.prologue) ho.preI
    split
    · exact mixPremsg_isPanic S _ _ _ _ _ _ _ ho.preR
    · exact h1
  · have h1 := mixPremsg_isPanic S false (cfgS S c) (cfgE S c) (cfgRs S c) (cfgRe S) inst.preI
      ((Sym.init S c.name).mixHash S c.prologue) ho.preI
    split
    · exact mixPremsg_isPanic S _ _ _ _ _ _ _ ho.preR
    · exact h1

theorem cfgPre_inv (S : Suite) (c : BuildCfg) (inst : Inst) (sym : Sym) (h : cfgPre S c inst = .ok sym) :
    SymInv sym := by
  have h0 : SymInv ((Sym.init S c.name).mixHash S c.prologue) :=
    Sym.inv_mixHash S _ _ (Sym.inv_init S c.name)
  unfold cfgPre at h
  split at h
  · split at h
    · rename_i sym1 heq
      exact mixPremsg_inv S _ _ _ _ _ _ _ _ h (mixPremsg_inv S _ _ _ _ _ _ _ _ heq h0)
    · exact mixPremsg_inv S _ _ _ _ _ _ _ _ h h0
  · split at h
    · rename_i sym1 heq
      exact mixPremsg_inv S _ _ _ _ _ _ _ _ h (mixPremsg_inv S _ _ _ _ _ _ _ _ heq h0)
    · exact mixPremsg_inv S _ _ _ _ _ _ _ _ h h0

theorem ite_err_ok {α} {c : Prop} [Decidable c] {e : Err} {x : Res α} {v : α}
    (h : (if c then (.err e : Res α) else x) = .ok v) : ¬ c ∧ x = .ok v := by
  split at h
  · cases h
  · exact ⟨‹_›, h⟩

theorem ite_panic_ok {α} {c : Prop} [Decidable c] {p : String} {x : Res α} {v : α}
    (h : (if c then (.panic p : Res α) else x) = .ok v) : ¬ c ∧ x = .ok v := by
  split at h
  · cases h
  · exact ⟨‹_›, h⟩

theorem ite_err_panic {α} {c : Prop} [Decidable c] {e : Err} {x : Res α}
    (h : (if c then (.err e : Res α) else x).isPanic = true) : ¬ c ∧ x.isPanic = true := by
  split at h
  · cases h
  · exact ⟨‹_›, h⟩

theorem ite_panic_panic {α} {c : Prop} [Decidable c] {p : String} {x : Res α}
    (h : (if c then (.panic p : Res α) else x).isPanic = true) : c ∨ (¬ c ∧ x.isPanic = true) := by
  split at h
  · left; assumption
  · right; exact ⟨‹_›, h⟩

/-- What a successful `Builder::build` + `HandshakeState::new` returns. -/
theorem build_ok {S : Suite} {av : Avail} {c : BuildCfg} {hs : HS} (h : build S av c = .ok hs) :
    ∃ inst sym, handshakeTokens c.pattern c.mods = .ok inst ∧ cfgPre S c inst = .ok sym ∧
      hs = { sym := sym, cs1 := CipherState.new, cs2 := CipherState.new,
             s := cfgS S c, e := cfgE S c, fixedE := c.eFixed.isSome, rs := cfgRs S c, re := cfgRe S,
             initiator := c.initiator, isPsk := isPskMods c.mods,
             oneway := c.pattern.isOneway, psks := c.psks,
             myTurn := c.initiator, msgs := inst.msgs, pos := 0, rng := c.rng } := by
  unfold build at h
  have ⟨h1, g1⟩ := ite_err_ok h; clear h
  have ⟨h2, g2⟩ := ite_err_ok g1; clear g1
  have ⟨h3, g3⟩ := ite_err_ok g2; clear g2
  have ⟨h4, g4⟩ := ite_err_ok g3; clear g3
  have ⟨h5, g5⟩ := ite_err_ok g4; clear g4
  have ⟨h6, g6⟩ := ite_err_ok g5; clear g5
  have ⟨h7, g7⟩ := ite_err_ok g6; clear g6
  have ⟨h8, g8⟩ := ite_panic_ok g7; clear g7
  have ⟨h9, g9⟩ := ite_panic_ok g8; clear g8
  have ⟨h10, g10⟩ := ite_err_ok g9; clear g9
  split at g10
  · cases g10
  · cases g10
  · rename_i inst hinst
    simp only at g10
    split at g10
    · cases g10
    · cases g10
    · rename_i sym hsym
      injection g10 with g10
      exact ⟨inst, sym, hinst, hsym, g10.symm⟩

/-- A private key of the right length that the DH implementation rejects was configured
    (`Dh::set` -> `derive_pubkey().unwrap()`: P-256 scalars outside [1, n-1]). -/
def BadPriv (S : Suite) (c : BuildCfg) : Prop :=
  ∃ k, (c.s = some k ∨ c.eFixed = some k) ∧ k.length = S.privLen ∧ S.validPriv k = false

/-- A remote static key of the advertised length that does not fit the `[u8; MAXDHLEN]` array. -/
def BadRs (S : Suite) (c : BuildCfg) : Prop :=
  ∃ v, c.rs = some v ∧ v.length = S.pubLen ∧ S.pubLen > MAXDHLEN

/-- The only two ways `Builder::build` can panic. -/
theorem build_isPanic {S : Suite} {av : Avail} {c : BuildCfg} (h : (build S av c).isPanic = true) :
    BadPriv S c ∨ BadRs S c := by
  unfold build at h
  have ⟨h1, g1⟩ := ite_err_panic h; clear h
  have ⟨h2, g2⟩ := ite_err_panic g1; clear g1
  have ⟨h3, g3⟩ := ite_err_panic g2; clear g2
  have ⟨h4, g4⟩ := ite_err_panic g3; clear g3
  have ⟨h5, g5⟩ := ite_err_panic g4; clear g4
  have ⟨h6, g6⟩ := ite_err_panic g5; clear g5
  have ⟨h7, g7⟩ := ite_err_panic g6; clear g6
  rcases ite_panic_panic g7 with h8 | ⟨h8, g8⟩
  · left
    clear g7
    unfold BadPriv
    cases hs : c.s <;> cases he : c.eFixed <;> simp [hs, he] at h7 h8 ⊢
    · exact ⟨h7.1, h8⟩
    · exact ⟨h7.1, h8⟩
    · rcases h8 with h8 | h8
      · left; exact ⟨h7.1.1, h8⟩
      · right; exact ⟨h7.1.2, h8⟩
  · clear g7
    rcases ite_panic_panic g8 with h9 | ⟨h9, g9⟩
    · right
      clear g8
      unfold BadRs
      cases hr : c.rs <;> simp [hr] at h7 h9 ⊢
      exact ⟨h7.2, by omega⟩
    · clear g8
      have ⟨h10, g10⟩ := ite_err_panic g9; clear g9
      exfalso
      have hp1 := handshakeTokens_isPanic c.pattern c.mods
      split at g10
      · cases g10
      · rename_i heq; rw [heq] at hp1; cases hp1
      · rename_i inst hinst
        have hp2 := cfgPre_isPanic S c inst (handshakeTokens_ok hinst)
        simp only at g10
        split at g10
        · cases g10
        · rename_i q heq
          have heq' : cfgPre S c inst = .panic q := heq
          rw [heq'] at hp2; cases hp2
        · cases g10

/-- Sharpness of `build_isPanic`: a configured static key of the right length that the DH
    implementation rejects does make `build` panic (the known P-256 finding), once the earlier
    checks pass. -/
theorem build_panics_of_bad_static (S : Suite) (c : BuildCfg) (k : Bytes)
    (hs : c.s = some k) (he : c.eFixed = none) (hr : c.rs = none)
    (hneed : needKnownRemote c.pattern c.initiator = false)
    (hk : k.length = S.privLen) (hv : S.validPriv k = false) :
    build S ⟨true, true, true, true⟩ c = .panic "Dh::set: invalid private key" := by
  unfold build
  simp [hs, he, hr, hneed, hk, hv]

/-- Every state `Builder::build` returns satisfies the invariant. `c.psks.length = 10` is the
    type `[Option<&[u8; 32]>; 10]` of the builder's psk array. -/
theorem inv_build {S : Suite} {av : Avail} {c : BuildCfg} {hs : HS} (hpl : S.PubLen)
    (hpsk : c.psks.length = 10) (h : build S av c = .ok hs) : Inv S hs := by
  obtain ⟨inst, sym, hinst, hsym, rfl⟩ := build_ok h
  refine ⟨hpsk, ?_, ?_, ?_, cfgPre_inv S c inst sym hsym⟩
  · intro m hm n hn
    have := handshakeTokens_psk_le hinst m hm n hn
    omega
  · show (cfgS S c).val.pub.length = S.pubLen
    unfold cfgS; split
    · exact hpl _
    · simp [Bytes.zeros]
  · show (cfgE S c).val.pub.length = S.pubLen
    unfold cfgE; split
    · exact hpl _
    · simp [Bytes.zeros]

end SnowVerif.Lemmas.C10
