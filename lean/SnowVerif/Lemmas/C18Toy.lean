/-
  Lemmas for C18: the toy suite (Crypto/Toy.lean) satisfies the laws of
  `Suite` for every selector value: its AEAD is an instance of `StreamMac`,
  its xor "DH" commutes, its hash returns `outLen` bytes.
-/
import SnowVerif.Crypto.Toy
import SnowVerif.Lemmas.C18Hmac
import SnowVerif.Lemmas.C18Nonce
import SnowVerif.Lemmas.C18StreamMac

namespace SnowVerif.C18
open SnowVerif Bytes
set_option linter.unusedVariables false
set_option linter.unusedSimpArgs false

theorem length_flatMap_const {α β : Type} (l : List α) (f : α → List β) (c : Nat)
    (h : ∀ a, (f a).length = c) : (l.flatMap f).length = l.length * c := by
  induction l with
  | nil => simp
  | cons a l ih =>
    simp only [List.flatMap_cons, List.length_append, h, ih, List.length_cons]
    rw [Nat.add_mul]; omega

/-! ### hash -/

/-- `toy_hash(tag, out_len, data)` returns `8 * (out_len / 8)` bytes, for all data. -/
theorem toy_hash_length (tag : UInt8) (outLen : Nat) (data : Bytes) :
    (Toy.hash tag outLen data).length = outLen / 8 * 8 := by
  unfold Toy.hash
  simp only
  rw [length_flatMap_const _ _ 8 (fun i => length_le64 _), List.length_range]

theorem toy_hash_length_32 (tag : UInt8) (data : Bytes) : (Toy.hash tag 32 data).length = 32 :=
  toy_hash_length tag 32 data

theorem toy_hash_length_64 (tag : UInt8) (data : Bytes) : (Toy.hash tag 64 data).length = 64 :=
  toy_hash_length tag 64 data

/-! ### AEAD -/

theorem toy_keystream_length (tag : UInt8) (key : Bytes) (n : UInt64) (len : Nat) :
    (Toy.keystream tag key n len).length = len := by
  unfold Toy.keystream
  rw [List.length_take,
    length_flatMap_const _ _ 32 (fun i => by unfold Toy.ksBlock; exact toy_hash_length_32 _ _),
    List.length_range]
  omega

theorem toy_mac_length (tag : UInt8) (key : Bytes) (n : UInt64) (ad ct : Bytes) :
    (Toy.mac tag key n ad ct).length = 16 := by
  unfold Toy.mac
  rw [List.length_take, toy_hash_length_32]
  rfl

/-- `Toy.enc` is the generic stream+MAC construction over the toy keystream and toy MAC. -/
theorem toy_enc_eq (tag : UInt8) : Toy.enc tag = smEnc (Toy.keystream tag) (Toy.mac tag) := rfl

theorem toy_dec_eq (tag : UInt8) : Toy.dec tag = smDec (Toy.keystream tag) (Toy.mac tag) := rfl

theorem toy_encLen (tag : UInt8) (k : Bytes) (n : UInt64) (ad p : Bytes) :
    (Toy.enc tag k n ad p).length = p.length + 16 := by
  rw [toy_enc_eq]
  exact sm_encLen (toy_keystream_length tag) (toy_mac_length tag) k n ad p

theorem toy_decEnc (tag : UInt8) (k : Bytes) (n : UInt64) (ad p : Bytes) :
    Toy.dec tag k n ad (Toy.enc tag k n ad p) = some p := by
  rw [toy_enc_eq, toy_dec_eq]
  exact sm_decEnc (toy_keystream_length tag) (toy_mac_length tag) k n ad p

theorem toy_decSound (tag : UInt8) (k : Bytes) (n : UInt64) (ad c p : Bytes)
    (h : Toy.dec tag k n ad c = some p) : c = Toy.enc tag k n ad p := by
  rw [toy_enc_eq]
  rw [toy_dec_eq] at h
  exact sm_decSound (toy_keystream_length tag) k n ad c p h

/-! ### DH -/

theorem toy_dhConst_length (tag : UInt8) : (Toy.dhConst tag).length = 32 := by
  simp [Toy.dhConst]

theorem toy_dhTail_length (n : Nat) : (Toy.dhTail n).length = n := by
  simp [Toy.dhTail]

theorem toy_pubCore_length (tag : UInt8) (priv : Bytes) :
    (xor (fit 32 priv) (Toy.dhConst tag)).length = 32 := by
  rw [length_xor, length_fit, toy_dhConst_length]
  rfl

theorem toy_pubOf_length (tag : UInt8) (pubLen : Nat) (priv : Bytes) (h : 32 ≤ pubLen) :
    (Toy.pubOf tag pubLen priv).length = pubLen := by
  unfold Toy.pubOf
  rw [List.length_append, toy_pubCore_length, toy_dhTail_length]
  omega

theorem toy_pubOf_take (tag : UInt8) (pubLen : Nat) (priv : Bytes) :
    (Toy.pubOf tag pubLen priv).take 32 = xor (fit 32 priv) (Toy.dhConst tag) := by
  unfold Toy.pubOf
  exact List.take_left' (toy_pubCore_length tag priv)

/-- Byte 32 of a toy public key longer than 32 bytes is `0x50`, never the "invalid point" marker. -/
theorem toy_pubOf_getD32 (tag : UInt8) (pubLen : Nat) (priv : Bytes) (h : 32 < pubLen) :
    (Toy.pubOf tag pubLen priv).getD 32 0 = 0x50 := by
  unfold Toy.pubOf
  rw [List.getD_eq_getElem?_getD,
    List.getElem?_append_right (by rw [toy_pubCore_length]; exact Nat.le_refl 32), toy_pubCore_length]
  obtain ⟨m, rfl⟩ : ∃ m, pubLen = 33 + m := ⟨pubLen - 33, by omega⟩
  have : 33 + m - 32 = m + 1 := by omega
  rw [this]
  simp [Toy.dhTail, List.range_succ_eq_map]

/-- The toy shared secret of `a` with the public key of `b`, in closed form. -/
theorem toy_dh_pubOf (tag : UInt8) (pubLen dhLen : Nat) (a b : Bytes) (h : 32 ≤ pubLen) :
    Toy.dh tag pubLen dhLen a (Toy.pubOf tag pubLen b) =
      some (xor (fit 32 a) (fit 32 b) ++ (xor (fit 32 a) (fit 32 b)).take (dhLen - 32)) := by
  unfold Toy.dh
  rw [if_neg (by rw [toy_pubOf_length tag pubLen b h]; omega)]
  have h2 : ¬ ((decide (pubLen > 32) && (Toy.pubOf tag pubLen b).getD 32 0 == 0xFF) = true) := by
    by_cases hp : 32 < pubLen
    · rw [toy_pubOf_getD32 tag pubLen b hp]; simp
    · have : ¬ pubLen > 32 := hp
      simp [this]
  rw [if_neg h2]
  simp only [toy_pubOf_take]
  rw [xor_xor_cancel _ _ (by rw [length_fit, toy_dhConst_length]; exact Nat.le_refl 32)]

theorem toy_dhComm (tag : UInt8) (pubLen dhLen : Nat) (a b : Bytes) (h : 32 ≤ pubLen) :
    Toy.dh tag pubLen dhLen a (Toy.pubOf tag pubLen b) =
      Toy.dh tag pubLen dhLen b (Toy.pubOf tag pubLen a) := by
  rw [toy_dh_pubOf _ _ _ _ _ h, toy_dh_pubOf _ _ _ _ _ h, xor_comm (fit 32 a)]

theorem toy_dh_length (tag : UInt8) (pubLen dhLen : Nat) (a p r : Bytes)
    (hp : 32 ≤ pubLen) (hd : 32 ≤ dhLen ∧ dhLen ≤ 64) (h : Toy.dh tag pubLen dhLen a p = some r) : r.length = dhLen := by
  unfold Toy.dh at h
  split at h
  · exact absurd h (by simp)
  · split at h
    · exact absurd h (by simp)
    · have hr := (Option.some.inj h).symm
      have hx : (xor (fit 32 a) (xor (p.take 32) (Toy.dhConst tag))).length = 32 := by
        rename_i h1 _
        rw [length_xor, length_xor, length_fit, List.length_take, toy_dhConst_length]
        omega
      rw [hr, List.length_append, List.length_take, hx]
      omega

end SnowVerif.C18
