/-
  C06, the repaired-code core: what a failing `_write_message` has logged (no payload
  encryption), and that two `_write_message` calls from the same state log compatible event
  lists as long as one of them fails (the failing call's log is a prefix of what any other call
  from that state logs).
-/
import SnowVerif.Lemmas.C06Write

namespace SnowVerif.C06
open SnowVerif SnowVerif.Model SnowVerif.Model.HS
set_option linter.unusedVariables false
set_option linter.unusedSimpArgs false

/-- Two lists one of which is a prefix of the other: they agree wherever both are defined. -/
def Compat {α : Type} (l1 l2 : List α) : Prop := l1 <+: l2 ∨ l2 <+: l1

theorem Compat.refl {α : Type} (l : List α) : Compat l l := Or.inl (List.prefix_refl l)
theorem Compat.symm {α : Type} {l1 l2 : List α} (h : Compat l1 l2) : Compat l2 l1 := Or.symm h

/-- Compatible lists have the same entry at every position both have. -/
theorem Compat.agree {α : Type} {l1 l2 : List α} (h : Compat l1 l2) (i : Nat) (x y : α)
    (h1 : l1[i]? = some x) (h2 : l2[i]? = some y) : x = y := by
  rcases h with ⟨t, ht⟩ | ⟨t, ht⟩
  · subst ht
    have hi : i < l1.length := by
      apply Classical.byContradiction; intro hc
      rw [List.getElem?_eq_none (by omega)] at h1; cases h1
    rw [List.getElem?_append_left hi, h1] at h2
    exact Option.some.inj h2
  · subst ht
    have hi : i < l2.length := by
      apply Classical.byContradiction; intro hc
      rw [List.getElem?_eq_none (by omega)] at h2; cases h2
    rw [List.getElem?_append_left hi, h2] at h1
    exact (Option.some.inj h1).symm

/-- The call passes the turn and phase guards of `_write_message`. -/
def Ready (hs : HS) : Prop := hs.myTurn = true ∧ hs.pos < hs.msgs.length

/-- The outcome and log of the token loop of the current message. -/
abbrev loopOf (S : Suite) (hs : HS) (cap : Nat) : Res Unit × WS := writeToks S cap (curToks hs) (w0 hs)

/-- **Structure of the log of `_write_message`.** Rejected by the turn/phase guards: nothing is
    logged. Otherwise: the log of the token loop followed by the log of the payload encryption;
    the latter is empty unless the loop succeeded, and empty whenever the call does not succeed
    (both size checks precede `encrypt_and_mix_hash`, whose own failures log nothing). -/
theorem writeInner_struct (S : Suite) (hs : HS) (p : Bytes) (cap : Nat) :
    (¬ Ready hs → (writeInner S hs p cap).2.ev = []) ∧
    (Ready hs → (writeInner S hs p cap).2.ev = (loopOf S hs cap).2.ev ++ payloadEv S hs p cap) ∧
    (Ready hs → (∀ n, (writeInner S hs p cap).1 ≠ .ok n) → payloadEv S hs p cap = []) ∧
    ((loopOf S hs cap).1 ≠ .ok () → payloadEv S hs p cap = []) ∧
    (∀ n, (writeInner S hs p cap).1 = .ok n → Ready hs ∧ (loopOf S hs cap).1 = .ok ()) := by
  have hev := writeToks_ev S cap (curToks hs) (w0 hs)
  simp only [List.nil_append] at hev
  have hG := (writeInner_G S hs p cap).1
  have hpay : (loopOf S hs cap).1 ≠ .ok () → payloadEv S hs p cap = [] := by
    intro h
    unfold payloadEv
    simp only
    all_goals
      cases hr : (writeToks S cap (curToks hs) (w0 hs)).1 with
      | ok u => cases u; exact absurd hr h
      | err e => rfl
      | panic q => rfl
  refine ⟨?_, ?_, ?_, hpay, ?_⟩
  · intro hnr
    rw [hG]
    unfold writeG
    by_cases c1 : (!hs.myTurn) = true
    · simp only [c1, ↓reduceIte, erase]
    · simp only [c1, ↓reduceIte, Bool.false_eq_true]
      by_cases c2 : hs.pos ≥ hs.msgs.length
      · simp only [c2, ↓reduceIte, erase]
      · exfalso; apply hnr; exact ⟨by simpa using c1, by omega⟩
  · intro hr
    rw [hG]
    unfold writeG
    have c1 : ¬ (!hs.myTurn) = true := by simp [hr.1]
    have c2 : ¬ hs.pos ≥ hs.msgs.length := by have := hr.2; omega
    simp only [c1, c2, ↓reduceIte, Bool.false_eq_true]
    rw [erase_append, erase_map_ev, ← hev]
  · intro hr hno
    have c1 : ¬ (!hs.myTurn) = true := by simp [hr.1]
    have c2 : ¬ hs.pos ≥ hs.msgs.length := by have := hr.2; omega
    unfold writeInner at hno
    unfold payloadEv
    simp only [c1, c2, ↓reduceIte, Bool.false_eq_true] at hno ⊢
    generalize hL : writeToks S cap (hs.msgs.getD hs.pos []) { hs := hs, acc := [], ev := [] } = L at hno ⊢
    cases hL1 : L.1 with
    | err e => rfl
    | panic q => rfl
    | ok u =>
      cases u
      simp only [hL1] at hno ⊢
      by_cases c3 : L.2.acc.length + p.length + 16 > cap
      · simp only [c3, ↓reduceIte]
      · simp only [c3, ↓reduceIte] at hno ⊢
        by_cases c4 : L.2.acc.length + p.length + (if L.2.hs.sym.hasKey = true then 16 else 0) > 65535
        · simp only [c4, ↓reduceIte]
        · simp only [c4, ↓reduceIte] at hno ⊢
          apply ((sym_encrypt_ev S L.2.hs.sym p (cap - L.2.acc.length)).2 ?_).1
          intro c hc
          rw [hc] at hno
          exact hno _ rfl
  · intro n hok
    unfold writeInner at hok
    simp only at hok
    by_cases c1 : (!hs.myTurn) = true
    · simp only [c1, ↓reduceIte] at hok; cases hok
    · simp only [c1, ↓reduceIte, Bool.false_eq_true] at hok
      by_cases c2 : hs.pos ≥ hs.msgs.length
      · simp only [c2, ↓reduceIte] at hok; cases hok
      · simp only [c2, ↓reduceIte] at hok
        refine ⟨⟨by simpa using c1, by omega⟩, ?_⟩
        show (writeToks S cap (hs.msgs.getD hs.pos []) { hs := hs, acc := [], ev := [] }).1 = .ok ()
        generalize hL : writeToks S cap (hs.msgs.getD hs.pos []) { hs := hs, acc := [], ev := [] } = L at hok ⊢
        cases hL1 : L.1 with
        | ok u => rfl
        | err e => simp only [hL1] at hok; cases hok
        | panic q => simp only [hL1] at hok; cases hok

/-- **(a) A `_write_message` that does not succeed has not encrypted the payload**: its log is
    the log of the token loop (or empty), every `enc` in it is the encryption of the local static
    public key made by an `s` token, and there are at most as many as the message has `s` tokens. -/
theorem writeInner_notok_no_payload (S : Suite) (hs : HS) (p : Bytes) (cap : Nat)
    (h : ∀ n, (writeInner S hs p cap).1 ≠ .ok n) :
    ((writeInner S hs p cap).2.ev = [] ∨ (writeInner S hs p cap).2.ev = (loopOf S hs cap).2.ev) ∧
    (∀ kk nn a pt, Event.enc kk nn a pt ∈ (writeInner S hs p cap).2.ev → pt = hs.s.val.pub ∧ Tok.s ∈ curToks hs) ∧
    encCount (writeInner S hs p cap).2.ev ≤ (curToks hs).count .s := by
  obtain ⟨t1, t2, t3, _, _⟩ := writeInner_struct S hs p cap
  have hev := writeToks_ev S cap (curToks hs) (w0 hs)
  simp only [List.nil_append] at hev
  by_cases hr : Ready hs
  · have e1 : (writeInner S hs p cap).2.ev = (loopOf S hs cap).2.ev := by
      rw [t2 hr, t3 hr h, List.append_nil]
    refine ⟨Or.inr e1, ?_, ?_⟩
    · intro kk nn a pt hm
      rw [e1, hev] at hm
      exact toksG_enc_is_s S cap _ _ kk nn a pt hm
    · rw [e1, hev]; exact toksG_encCount S cap _ _
  · rw [t1 hr]
    exact ⟨Or.inl rfl, by simp, by simp [encCount]⟩

/-! ### Two calls from the same state -/

theorem writeToks_cons_ok (S : Suite) (cap : Nat) (t : Tok) (ts : List Tok) (w : WS)
    (h : (writeTok S cap w t).1 = .ok ()) : writeToks S cap (t :: ts) w = writeToks S cap ts (writeTok S cap w t).2 := by
  rw [writeToks]; simp only [h]

theorem writeToks_cons_fail (S : Suite) (cap : Nat) (t : Tok) (ts : List Tok) (w : WS)
    (h : (writeTok S cap w t).1 ≠ .ok ()) : writeToks S cap (t :: ts) w = writeTok S cap w t := by
  rw [writeToks]
  cases hr : (writeTok S cap w t).1 with
  | ok u => cases u; exact absurd hr h
  | err e => simp only; rw [← hr]
  | panic q => simp only; rw [← hr]

theorem toUnit_ok {α : Type} (r : Res α) : r.toUnit = .ok () ↔ ∃ c, r = .ok c := by
  cases r <;> simp [Res.toUnit]

/-- `encrypt_and_mix_hash` succeeding with two output sizes does the same with both. -/
theorem sym_encrypt_two_caps (S : Suite) (st : Sym) (pt : Bytes) (a b : Nat)
    (ha : ∃ c, (st.encryptAndMixHash S pt a).1 = .ok c) (hb : ∃ c, (st.encryptAndMixHash S pt b).1 = .ok c) :
    st.encryptAndMixHash S pt a = st.encryptAndMixHash S pt b := by
  obtain ⟨ca, ha⟩ := ha
  obtain ⟨cb, hb⟩ := hb
  unfold Sym.encryptAndMixHash at ha hb ⊢
  by_cases hk : st.hasKey = true
  · simp only [hk, ↓reduceIte] at ha hb ⊢
    have : st.cs.encryptAd S st.h pt a = st.cs.encryptAd S st.h pt b := by
      unfold CipherState.encryptAd at ha hb ⊢
      by_cases c1 : (!st.cs.hasKey) = true
      · simp [c1] at ha
      · simp only [c1, ↓reduceIte, Bool.false_eq_true] at ha hb ⊢
        by_cases c2 : (st.cs.n == CipherState.nonceMax) = true
        · simp [c2] at ha
        · simp only [c2, ↓reduceIte, Bool.false_eq_true] at ha hb ⊢
          by_cases c3 : a < pt.length + 16
          · simp [c3] at ha
          · by_cases c4 : b < pt.length + 16
            · simp [c4] at hb
            · simp only [c3, c4, ↓reduceIte]
    rw [this]
  · simp only [hk, ↓reduceIte, Bool.false_eq_true] at ha hb ⊢
    by_cases c3 : a < pt.length
    · simp [c3] at ha
    · by_cases c4 : b < pt.length
      · simp [c4] at hb
      · simp only [c3, c4, ↓reduceIte]

/-- A token that succeeds with two buffer sizes does the same with both. -/
theorem writeTok_two_caps (S : Suite) (c1 c2 : Nat) (w : WS) (t : Tok)
    (h1 : (writeTok S c1 w t).1 = .ok ()) (h2 : (writeTok S c2 w t).1 = .ok ()) :
    (writeTok S c1 w t).2 = (writeTok S c2 w t).2 := by
  cases t with
  | e =>
    rw [writeTok_e_eq] at h1 h2 ⊢
    rw [writeTok_e_eq]
    by_cases g1 : w.acc.length + S.pubLen > c1
    · simp [g1] at h1
    · by_cases g2 : w.acc.length + S.pubLen > c2
      · simp [g2] at h2
      · simp only [g1, g2, ↓reduceIte]
  | s =>
    rw [writeTok_s_eq] at h1 h2 ⊢
    rw [writeTok_s_eq]
    by_cases hon : (!w.hs.s.on) = true
    · simp [hon] at h1
    · by_cases g1 : w.acc.length + S.pubLen + (if w.hs.sym.hasKey then 16 else 0) > c1
      · simp [hon, g1] at h1
      · by_cases g2 : w.acc.length + S.pubLen + (if w.hs.sym.hasKey then 16 else 0) > c2
        · simp [hon, g2] at h2
        · simp only [hon, g1, g2, ↓reduceIte, Bool.false_eq_true] at h1 h2 ⊢
          have := sym_encrypt_two_caps S w.hs.sym w.hs.s.val.pub (c1 - w.acc.length) (c2 - w.acc.length)
            ((toUnit_ok _).mp h1) ((toUnit_ok _).mp h2)
          rw [this]
  | psk n => rw [writeTok_psk_eq, writeTok_psk_eq]
  | ee => rw [writeTok_dh_eq S c1 w _ (by simp), writeTok_dh_eq S c2 w _ (by simp)]
  | es => rw [writeTok_dh_eq S c1 w _ (by simp), writeTok_dh_eq S c2 w _ (by simp)]
  | se => rw [writeTok_dh_eq S c1 w _ (by simp), writeTok_dh_eq S c2 w _ (by simp)]
  | ss => rw [writeTok_dh_eq S c1 w _ (by simp), writeTok_dh_eq S c2 w _ (by simp)]

theorem writeToks_ev_prefix (S : Suite) (cap : Nat) (ts : List Tok) (w : WS) : w.ev <+: (writeToks S cap ts w).2.ev :=
  ⟨_, (writeToks_ev S cap ts w).symm⟩

theorem writeTok_fail_ev (S : Suite) (cap : Nat) (w : WS) (t : Tok) (h : (writeTok S cap w t).1 ≠ .ok ()) :
    (writeTok S cap w t).2.ev = w.ev := by
  obtain ⟨h1, h2, _⟩ := writeTok_facts S cap w t
  rw [h1, h2 h, List.append_nil]

/-- **The token loop run from one state with two buffer sizes**: the two logs are compatible;
    a run that succeeds has logged an extension of what the other one logged; two runs that both
    succeed end in the same working state. -/
theorem writeToks_two_caps (S : Suite) (c1 c2 : Nat) (ts : List Tok) (w : WS) :
    Compat (writeToks S c1 ts w).2.ev (writeToks S c2 ts w).2.ev ∧
    ((writeToks S c1 ts w).1 = .ok () → (writeToks S c2 ts w).2.ev <+: (writeToks S c1 ts w).2.ev) ∧
    ((writeToks S c2 ts w).1 = .ok () → (writeToks S c1 ts w).2.ev <+: (writeToks S c2 ts w).2.ev) ∧
    ((writeToks S c1 ts w).1 = .ok () → (writeToks S c2 ts w).1 = .ok () →
      (writeToks S c1 ts w).2 = (writeToks S c2 ts w).2) := by
  induction ts generalizing w with
  | nil => exact ⟨Compat.refl _, fun _ => List.prefix_refl _, fun _ => List.prefix_refl _, fun _ _ => rfl⟩
  | cons t ts ih =>
    by_cases a : (writeTok S c1 w t).1 = .ok ()
    · by_cases b : (writeTok S c2 w t).1 = .ok ()
      · rw [writeToks_cons_ok S c1 t ts w a, writeToks_cons_ok S c2 t ts w b, writeTok_two_caps S c1 c2 w t a b]
        exact ih _
      · rw [writeToks_cons_ok S c1 t ts w a, writeToks_cons_fail S c2 t ts w b, writeTok_fail_ev S c2 w t b]
        have hp : w.ev <+: (writeToks S c1 ts (writeTok S c1 w t).2).2.ev :=
          List.IsPrefix.trans ⟨_, ((writeTok_facts S c1 w t).1).symm⟩ (writeToks_ev_prefix S c1 ts _)
        exact ⟨Or.inr hp, fun _ => hp, fun h => absurd h b, fun _ h => absurd h b⟩
    · by_cases b : (writeTok S c2 w t).1 = .ok ()
      · rw [writeToks_cons_fail S c1 t ts w a, writeToks_cons_ok S c2 t ts w b, writeTok_fail_ev S c1 w t a]
        have hp : w.ev <+: (writeToks S c2 ts (writeTok S c2 w t).2).2.ev :=
          List.IsPrefix.trans ⟨_, ((writeTok_facts S c2 w t).1).symm⟩ (writeToks_ev_prefix S c2 ts _)
        exact ⟨Or.inl hp, fun h => absurd h a, fun _ => hp, fun h _ => absurd h a⟩
      · rw [writeToks_cons_fail S c1 t ts w a, writeToks_cons_fail S c2 t ts w b, writeTok_fail_ev S c1 w t a,
          writeTok_fail_ev S c2 w t b]
        exact ⟨Compat.refl _, fun h => absurd h a, fun h => absurd h b, fun h _ => absurd h a⟩

/-- **Two `_write_message` calls from the same state, the first of which does not succeed**
    (any payloads, any buffer sizes): the two logs are compatible, and if the second call
    succeeds its log extends the first one's. -/
theorem writeInner_compat (S : Suite) (hs : HS) (p : Bytes) (cap : Nat) (p2 : Bytes) (cap2 : Nat)
    (h : ∀ n, (writeInner S hs p cap).1 ≠ .ok n) :
    Compat (writeInner S hs p cap).2.ev (writeInner S hs p2 cap2).2.ev ∧
    ((∃ n, (writeInner S hs p2 cap2).1 = .ok n) →
      (writeInner S hs p cap).2.ev <+: (writeInner S hs p2 cap2).2.ev) := by
  obtain ⟨a1, a2, a3, _, _⟩ := writeInner_struct S hs p cap
  obtain ⟨b1, b2, _, b4, b5⟩ := writeInner_struct S hs p2 cap2
  by_cases hr : Ready hs
  · have e1 : (writeInner S hs p cap).2.ev = (loopOf S hs cap).2.ev := by
      rw [a2 hr, a3 hr h, List.append_nil]
    obtain ⟨k1, _, k3, _⟩ := writeToks_two_caps S cap cap2 (curToks hs) (w0 hs)
    rw [e1, b2 hr]
    by_cases hl : (loopOf S hs cap2).1 = .ok ()
    · have hp : (loopOf S hs cap).2.ev <+: (loopOf S hs cap2).2.ev ++ payloadEv S hs p2 cap2 :=
        List.IsPrefix.trans (k3 hl) (List.prefix_append _ _)
      exact ⟨Or.inl hp, fun _ => hp⟩
    · rw [b4 hl, List.append_nil]
      refine ⟨k1, ?_⟩
      rintro ⟨n, hn⟩
      exact absurd (b5 n hn).2 hl
  · rw [a1 hr, b1 hr]
    exact ⟨Compat.refl _, fun _ => List.prefix_refl _⟩

end SnowVerif.C06
