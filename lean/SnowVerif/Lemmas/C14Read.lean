/-
  C14: the length invariant of `_read_message` (handshakestate.rs): each token consumes exactly
  the bytes `Framing.tokLen` predicts (or fails with `Input` when they are not there), `has_key`
  evolves as `Framing.tokKeyed` predicts, and the payload returned is what is left minus the tag.
-/
import SnowVerif.Lemmas.C14Write

open SnowVerif SnowVerif.Model SnowVerif.Framing
set_option linter.unusedVariables false
set_option linter.unusedSimpArgs false

namespace SnowVerif.Model.Sym

/-- What a successful `decrypt_and_mix_hash` implies. -/
theorem decrypt_ok (S : Suite) (st : Sym) (d : Bytes) (cap : Nat) (p : Bytes)
    (h : (st.decryptAndMixHash S d cap).1 = .ok p) :
    (st.hasKey = true → 16 ≤ d.length ∧ d.length - 16 ≤ cap ∧ S.dec st.cs.key st.cs.n st.h d = some p) ∧
    (st.hasKey = false → p = d ∧ d.length ≤ cap) := by
  unfold decryptAndMixHash at h
  cases hk : st.hasKey with
  | true =>
    simp only [hk, ↓reduceIte] at h
    refine ⟨fun _ => ?_, fun hc => by simp at hc⟩
    cases hr : st.cs.decryptAd S st.h d cap with
    | mk r rest =>
      obtain ⟨cs', buf, ev⟩ := rest
      rw [hr] at h
      simp only at h
      subst h
      obtain ⟨a, b, _, _, c, _⟩ := CipherState.decryptAd_ok hr
      exact ⟨a, b, c⟩
  | false =>
    simp only [hk, Bool.false_eq_true, ↓reduceIte] at h
    refine ⟨fun hc => by simp at hc, fun _ => ?_⟩
    split at h
    · simp at h
    · simp only [Res.ok.injEq] at h
      exact ⟨h.symm, by omega⟩

end SnowVerif.Model.Sym

namespace SnowVerif.Model.HS

theorem readTok_e_eq (S : Suite) (r : RS) :
    readTok S r .e =
      if r.ptr.length < S.pubLen then (.err .input, r)
      else (.ok (), { r with hs := { r.hs with re := { val := r.ptr.take S.pubLen, on := true },
                                               sym := (if r.hs.isPsk then
                                                         (r.hs.sym.mixHash S (r.ptr.take S.pubLen)).mixKey S (r.ptr.take S.pubLen)
                                                       else r.hs.sym.mixHash S (r.ptr.take S.pubLen)) },
                             ptr := r.ptr.drop S.pubLen }) := by
  unfold readTok; rfl

theorem readTok_psk_eq (S : Suite) (r : RS) (n : Nat) :
    readTok S r (.psk n) = ((pskStep S r.hs n).1, { r with hs := (pskStep S r.hs n).2 }) := by
  unfold readTok; rfl

theorem readTok_dh_eq (S : Suite) (r : RS) (t : Tok) (ht : t = .ee ∨ t = .es ∨ t = .se ∨ t = .ss) :
    readTok S r t = ((dhStep S r.hs t).1, { r with hs := (dhStep S r.hs t).2 }) := by
  rcases ht with rfl | rfl | rfl | rfl <;> (unfold readTok; rfl)

/-- The `Token::S` arm: outcome, remaining input, and `has_key`. -/
theorem readTok_s_facts (S : Suite) (r : RS) :
    (r.ptr.length < S.pubLen + (if r.hs.sym.hasKey then 16 else 0) → readTok S r .s = (.err .input, r)) ∧
    (¬ r.ptr.length < S.pubLen + (if r.hs.sym.hasKey then 16 else 0) →
      (readTok S r .s).2.ptr = r.ptr.drop (S.pubLen + (if r.hs.sym.hasKey then 16 else 0)) ∧
      (readTok S r .s).2.hs.sym.hasKey = r.hs.sym.hasKey) := by
  unfold readTok
  simp only
  constructor
  · intro h; simp only [h, ↓reduceIte]
  · intro h; simp only [h, ↓reduceIte, Sym.decrypt_hasKey, and_self]

/-- A token whose bytes are not all there fails with `Input`, leaving the state untouched. -/
theorem readTok_short (S : Suite) (r : RS) (t : Tok) (h : r.ptr.length < tokLen S t r.hs.sym.hasKey) :
    readTok S r t = (.err .input, r) := by
  cases t with
  | e => rw [readTok_e_eq]; simp only [tokLen] at h; simp only [h, ↓reduceIte]
  | s => exact (readTok_s_facts S r).1 h
  | psk n => simp [tokLen] at h
  | ee => simp [tokLen] at h
  | es => simp [tokLen] at h
  | se => simp [tokLen] at h
  | ss => simp [tokLen] at h

/-- One successful token of `_read_message` consumes exactly `tokLen` bytes. -/
theorem readTok_len (S : Suite) (r : RS) (t : Tok) (h : (readTok S r t).1 = .ok ()) :
    r.ptr.length = tokLen S t r.hs.sym.hasKey + (readTok S r t).2.ptr.length ∧
    (readTok S r t).2.hs.sym.hasKey = tokKeyed r.hs.isPsk t r.hs.sym.hasKey := by
  cases t with
  | e =>
    rw [readTok_e_eq] at h ⊢
    by_cases hc : r.ptr.length < S.pubLen
    · simp [hc] at h
    · simp only [hc, ↓reduceIte, List.length_drop, tokLen, tokKeyed]
      refine ⟨by omega, ?_⟩
      cases r.hs.isPsk <;> simp [Sym.mixKey, Sym.mixHash]
  | s =>
    by_cases hc : r.ptr.length < S.pubLen + (if r.hs.sym.hasKey then 16 else 0)
    · rw [(readTok_s_facts S r).1 hc] at h; simp at h
    · obtain ⟨h1, h2⟩ := (readTok_s_facts S r).2 hc
      rw [h1, h2]
      simp only [List.length_drop, tokLen, tokKeyed]
      exact ⟨by omega, trivial⟩
  | psk n =>
    rw [readTok_psk_eq]
    simp only [pskStep_hasKey, tokLen, tokKeyed, Nat.zero_add, and_self]
  | ee =>
    rw [readTok_dh_eq S r _ (by simp)] at h ⊢
    simp only [tokLen, tokKeyed, Nat.zero_add, true_and]
    exact dhStep_hasKey S r.hs _ h
  | es =>
    rw [readTok_dh_eq S r _ (by simp)] at h ⊢
    simp only [tokLen, tokKeyed, Nat.zero_add, true_and]
    exact dhStep_hasKey S r.hs _ h
  | se =>
    rw [readTok_dh_eq S r _ (by simp)] at h ⊢
    simp only [tokLen, tokKeyed, Nat.zero_add, true_and]
    exact dhStep_hasKey S r.hs _ h
  | ss =>
    rw [readTok_dh_eq S r _ (by simp)] at h ⊢
    simp only [tokLen, tokKeyed, Nat.zero_add, true_and]
    exact dhStep_hasKey S r.hs _ h

/-- **Loop invariant of `_read_message`.** When the token loop succeeds, it consumed exactly the
    fixed-field length `fieldsLen` predicts and `has_key` is the keyedness it predicts. -/
theorem readToks_len (S : Suite) (ts : List Tok) (r : RS) (h : (readToks S ts r).1 = .ok ()) :
    r.ptr.length = (fieldsLen S r.hs.isPsk ts r.hs.sym.hasKey).1 + (readToks S ts r).2.ptr.length ∧
    (readToks S ts r).2.hs.sym.hasKey = (fieldsLen S r.hs.isPsk ts r.hs.sym.hasKey).2 := by
  induction ts generalizing r with
  | nil => simp [readToks, fieldsLen]
  | cons t ts ih =>
    unfold readToks at h ⊢
    cases hr : (readTok S r t).1 with
    | ok u =>
      simp only [hr] at h ⊢
      have h1 := readTok_len S r t hr
      have h2 := ih (readTok S r t).2 h
      rw [(readTok_frame S r t).isPsk, h1.2] at h2
      simp only [fieldsLen]
      exact ⟨by omega, h2.2⟩
    | err e => simp [hr] at h
    | panic q => simp [hr] at h

theorem readToks_append (S : Suite) (a b : List Tok) (r : RS) :
    readToks S (a ++ b) r =
      match (readToks S a r).1 with
      | .ok () => readToks S b (readToks S a r).2
      | x => (x, (readToks S a r).2) := by
  induction a generalizing r with
  | nil => simp [readToks]
  | cons t a ih =>
    simp only [List.cons_append]
    rw [readToks, readToks]
    cases hr : (readTok S r t).1 with
    | ok u => simp only [ih]
    | err e => simp only
    | panic q => simp only

/-- **The field that runs out fails with `Input`.** If the tokens `a` before token `t` are
    processed successfully and the input left is shorter than the field of `t`, the token loop
    fails with `Input` (whatever follows). -/
theorem readToks_runs_out (S : Suite) (a b : List Tok) (t : Tok) (r : RS)
    (ha : (readToks S a r).1 = .ok ())
    (hshort : r.ptr.length < (fieldsLen S r.hs.isPsk (a ++ [t]) r.hs.sym.hasKey).1) :
    (readToks S (a ++ t :: b) r).1 = .err .input := by
  have hl := readToks_len S a r ha
  rw [fieldsLen_append] at hshort
  simp only [fieldsLen, Nat.add_zero] at hshort
  rw [← hl.2] at hshort
  have hs : (readToks S a r).2.ptr.length < tokLen S t (readToks S a r).2.hs.sym.hasKey := by omega
  rw [readToks_append]
  simp only [ha]
  rw [readToks, readTok_short S _ t hs]

theorem readInner_turn (S : Suite) (hs : HS) (m : Bytes) (cap : Nat) (p : Bytes)
    (h : (readInner S hs m cap).1 = .ok p) :
    m.length ≤ 65535 ∧ hs.myTurn = false ∧ hs.pos < hs.msgs.length := by
  have ht0 : m.length ≤ 65535 := by
    apply Classical.byContradiction
    intro hgt
    have hgt' : m.length > 65535 := by omega
    unfold readInner at h; simp [hgt'] at h
  have h0 : ¬ m.length > 65535 := by omega
  have ht1 : hs.myTurn = false := by
    cases ht : hs.myTurn with
    | false => rfl
    | true => unfold readInner at h; simp [h0, ht] at h
  refine ⟨ht0, ht1, ?_⟩
  apply Classical.byContradiction
  intro hge
  have hge' : hs.pos ≥ hs.msgs.length := by omega
  unfold readInner at h; simp [h0, ht1, hge'] at h

/-- **Length of a successful `_read_message`.** The message was at least as long as its fixed
    fields plus the payload tag, the payload returned is no longer than the rest (and fits the
    output buffer), exactly the rest under `DecLen`, and `has_key` is as predicted. -/
theorem readInner_ok (S : Suite) (hs : HS) (m : Bytes) (cap : Nat) (p : Bytes)
    (h : (readInner S hs m cap).1 = .ok p) :
    (fieldsLen S hs.isPsk (hs.msgs.getD hs.pos []) hs.sym.hasKey).1 +
      (if (fieldsLen S hs.isPsk (hs.msgs.getD hs.pos []) hs.sym.hasKey).2 then 16 else 0) ≤ m.length ∧
    p.length + (fieldsLen S hs.isPsk (hs.msgs.getD hs.pos []) hs.sym.hasKey).1 +
      (if (fieldsLen S hs.isPsk (hs.msgs.getD hs.pos []) hs.sym.hasKey).2 then 16 else 0) ≤ m.length ∧
    p.length ≤ cap ∧
    (S.DecLen → m.length = (fieldsLen S hs.isPsk (hs.msgs.getD hs.pos []) hs.sym.hasKey).1 + p.length +
      (if (fieldsLen S hs.isPsk (hs.msgs.getD hs.pos []) hs.sym.hasKey).2 then 16 else 0)) ∧
    (readInner S hs m cap).2.1.sym.hasKey = (fieldsLen S hs.isPsk (hs.msgs.getD hs.pos []) hs.sym.hasKey).2 := by
  obtain ⟨h0, ht, hp⟩ := readInner_turn S hs m cap p h
  have h0' : ¬ m.length > 65535 := by omega
  have hp' : ¬ hs.pos ≥ hs.msgs.length := by omega
  unfold readInner at h ⊢
  simp only [h0', ht, hp', Bool.false_eq_true, ↓reduceIte] at h ⊢
  have hl := readToks_len S (hs.msgs.getD hs.pos []) { hs := hs, ptr := m, ev := [] }
  generalize hW : readToks S (hs.msgs.getD hs.pos []) { hs := hs, ptr := m, ev := [] } = W at h hl ⊢
  obtain ⟨r, w⟩ := W
  simp only at h hl ⊢
  cases r with
  | err e => simp only [reduceCtorEq] at h
  | panic q => simp only [reduceCtorEq] at h
  | ok u =>
    have hl := hl rfl
    simp only at h ⊢
    cases hd : (w.hs.sym.decryptAndMixHash S w.ptr cap).1 with
    | err e => simp only [hd, reduceCtorEq] at h
    | panic q => simp only [hd, reduceCtorEq] at h
    | ok d =>
      simp only [hd, Res.ok.injEq] at h ⊢
      have hk : ∀ (c : Prop) [Decidable c] (x y : HS),
          (if c then x else y).sym.hasKey = if c then x.sym.hasKey else y.sym.hasKey := by
        intro c _ x y; split <;> rfl
      simp only [hk, ite_self, Sym.decrypt_hasKey] at h ⊢
      rw [← hl.2]
      obtain ⟨d1, d2⟩ := Sym.decrypt_ok S _ _ _ _ hd
      subst h
      cases hkey : w.hs.sym.hasKey with
      | true =>
        obtain ⟨a, b, c⟩ := d1 hkey
        simp only [↓reduceIte, List.length_take]
        refine ⟨by omega, by omega, by omega, ?_, trivial⟩
        intro hD
        have := hD _ _ _ _ _ c
        omega
      | false =>
        obtain ⟨a, b⟩ := d2 hkey
        subst a
        simp only [Bool.false_eq_true, ↓reduceIte, List.length_take, Nat.sub_zero, Nat.min_self, Nat.add_zero]
        refine ⟨by omega, by omega, by omega, ?_, trivial⟩
        intro _; omega

/-- A message that ends inside the field of token `t`, all earlier tokens `a` of the message
    having been processed successfully, makes `_read_message` fail with `Input`. -/
theorem readInner_runs_out (S : Suite) (hs : HS) (m : Bytes) (cap : Nat) (a b : List Tok) (t : Tok)
    (h0 : m.length ≤ 65535) (ht : hs.myTurn = false) (hp : hs.pos < hs.msgs.length)
    (htoks : hs.msgs.getD hs.pos [] = a ++ t :: b)
    (ha : (readToks S a { hs := hs, ptr := m, ev := [] }).1 = .ok ())
    (hshort : m.length < (fieldsLen S hs.isPsk (a ++ [t]) hs.sym.hasKey).1) :
    (readInner S hs m cap).1 = .err .input := by
  have h0' : ¬ m.length > 65535 := by omega
  have hp' : ¬ hs.pos ≥ hs.msgs.length := by omega
  have := readToks_runs_out S a b t { hs := hs, ptr := m, ev := [] } ha hshort
  unfold readInner
  simp only [h0', ht, hp', Bool.false_eq_true, ↓reduceIte, htoks, this]

end SnowVerif.Model.HS

namespace SnowVerif.Model.TS

/-- What a successful stateless `encrypt_ad` implies. -/
theorem stEncrypt_ok {S : Suite} {cs : CipherState} {n : UInt64} {p : Bytes} {cap : Nat} {c : Bytes} {ev : List Event}
    (h : TS.stEncrypt S cs n p cap = (.ok c, ev)) : p.length + 16 ≤ cap ∧ c = S.enc cs.key n [] p := by
  unfold TS.stEncrypt at h
  repeat' split at h
  all_goals simp_all

/-- What a successful stateless `decrypt_ad` implies. -/
theorem stDecrypt_ok {S : Suite} {cs : CipherState} {n : UInt64} {ct : Bytes} {cap : Nat} {p buf : Bytes} {ev : List Event}
    (h : TS.stDecrypt S cs n ct cap = (.ok p, buf, ev)) :
    16 ≤ ct.length ∧ ct.length - 16 ≤ cap ∧ S.dec cs.key n [] ct = some p := by
  unfold TS.stDecrypt at h
  repeat' split at h
  all_goals (simp at h)
  obtain ⟨rfl, _, _⟩ := h
  simp_all

end SnowVerif.Model.TS
