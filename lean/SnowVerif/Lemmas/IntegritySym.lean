/-
  Integrity, part 1: the SymmetricState operations of the specification propagate divergence.

  Everything here is about `Spec.SymmetricState` (`MixHash`, `MixKey`, `MixKeyAndHash`,
  `EncryptAndHash`, `DecryptAndHash`) and the witnesses of `Spec/Integrity.lean`.
-/
import SnowVerif.Spec.Integrity

set_option linter.unusedVariables false
set_option linter.unusedSimpArgs false

namespace SnowVerif.Spec.Integrity
open SnowVerif SnowVerif.Spec Bytes

variable {S : Suite}

/-! ### The two primitive facts -/

/-- Hashing `h ++ d` and `h' ++ d'` with `|h| = |h'|`: if the chaining values or the data differ,
    the digests differ, or the two inputs are a hash collision. -/
theorem hash_ne {h h' d d' : Bytes} (hl : h.length = h'.length) (hne : h ≠ h' ∨ d ≠ d') :
    S.hash (h ++ d) ≠ S.hash (h' ++ d') ∨ HashCollision S := by
  by_cases e : S.hash (h ++ d) = S.hash (h' ++ d')
  · right
    refine ⟨h ++ d, h' ++ d', ?_, e⟩
    intro e2
    have := List.append_inj e2 hl
    rcases hne with h1 | h1
    · exact h1 this.1
    · exact h1 this.2
  · left; exact e

/-- HKDF on different `(ck, ikm)` gives outputs whose components as used by Noise (new chaining
    key, cipher key of `MixKey`, cipher key of `MixKeyAndHash`) all differ, or a `KdfCoincidence`.
-/
theorem kdf_ne {ck ikm ck' ikm' : Bytes} (hne : ck ≠ ck' ∨ ikm ≠ ikm') :
    ((hkdf S ck ikm).1 ≠ (hkdf S ck' ikm').1 ∧
     (hkdf S ck ikm).2.1.take 32 ≠ (hkdf S ck' ikm').2.1.take 32 ∧
     (hkdf S ck ikm).2.2.take 32 ≠ (hkdf S ck' ikm').2.2.take 32) ∨ KdfCoincidence S := by
  have hp : (ck, ikm) ≠ (ck', ikm') := by
    intro e
    simp only [Prod.mk.injEq] at e
    rcases hne with h | h
    · exact h e.1
    · exact h e.2
  by_cases e1 : (hkdf S ck ikm).1 = (hkdf S ck' ikm').1
  · exact Or.inr ⟨ck, ikm, ck', ikm', hp, Or.inl e1⟩
  by_cases e3 : (hkdf S ck ikm).2.1.take 32 = (hkdf S ck' ikm').2.1.take 32
  · exact Or.inr ⟨ck, ikm, ck', ikm', hp, Or.inr (Or.inl e3)⟩
  by_cases e4 : (hkdf S ck ikm).2.2.take 32 = (hkdf S ck' ikm').2.2.take 32
  · exact Or.inr ⟨ck, ikm, ck', ikm', hp, Or.inr (Or.inr e4)⟩
  exact Or.inl ⟨e1, e3, e4⟩

/-! ### Divergence of two SymmetricStates -/

/-- `Div` on the SymmetricState level: `h` differ, or `ck` and `k` both differ. -/
def DivS (a b : SymmetricState) : Prop := a.h ≠ b.h ∨ (a.ck ≠ b.ck ∧ a.cs.k ≠ b.cs.k)

theorem div_iff {A B : HandshakeState} : Div A B ↔ DivS A.ss B.ss := Iff.rfl

theorem DivS.symm {a b : SymmetricState} (h : DivS a b) : DivS b a := by
  rcases h with h | ⟨h1, h2⟩
  · exact Or.inl (Ne.symm h)
  · exact Or.inr ⟨Ne.symm h1, Ne.symm h2⟩

theorem Div.symm {A B : HandshakeState} (h : Div A B) : Div B A := DivS.symm h

theorem HashCollision.coll (h : HashCollision S) : Coll S := Or.inl h
theorem KdfCoincidence.coll (h : KdfCoincidence S) : Coll S := Or.inr h

/-- A step that hashes data into `h` and leaves `ck`, `k` alone keeps `h`-divergence. -/
theorem hstep_h_ne {a b a' b' : SymmetricState} {d d' : Bytes}
    (hl : a.h.length = b.h.length)
    (ha : a'.h = S.hash (a.h ++ d)) (hb : b'.h = S.hash (b.h ++ d'))
    (hne : a.h ≠ b.h ∨ d ≠ d') : a'.h ≠ b'.h ∨ HashCollision S := by
  rw [ha, hb]; exact hash_ne hl hne

/-- A step that hashes data into `h` and leaves `ck`, `k` alone keeps divergence. -/
theorem hstep_div {a b a' b' : SymmetricState} {d d' : Bytes}
    (hl : a.h.length = b.h.length)
    (ha : a'.h = S.hash (a.h ++ d)) (hb : b'.h = S.hash (b.h ++ d'))
    (hack : a'.ck = a.ck) (hbck : b'.ck = b.ck) (hak : a'.cs.k = a.cs.k) (hbk : b'.cs.k = b.cs.k)
    (hd : DivS a b) : DivS a' b' ∨ Coll S := by
  rcases hd with h | h
  · rcases hstep_h_ne (S := S) hl ha hb (Or.inl h) with h1 | h1
    · exact Or.inl (Or.inl h1)
    · exact Or.inr h1.coll
  · left; right; rw [hack, hbck, hak, hbk]; exact h

open SymmetricState

@[simp] theorem mixHash_h (a : SymmetricState) (d : Bytes) : (a.mixHash S d).h = S.hash (a.h ++ d) := rfl
@[simp] theorem mixHash_ck (a : SymmetricState) (d : Bytes) : (a.mixHash S d).ck = a.ck := rfl
@[simp] theorem mixHash_cs (a : SymmetricState) (d : Bytes) : (a.mixHash S d).cs = a.cs := rfl
@[simp] theorem mixKey_h (a : SymmetricState) (d : Bytes) : (a.mixKey S d).h = a.h := rfl
@[simp] theorem mixKey_ck (a : SymmetricState) (d : Bytes) : (a.mixKey S d).ck = (hkdf S a.ck d).1 := rfl
@[simp] theorem mixKey_k (a : SymmetricState) (d : Bytes) :
    (a.mixKey S d).cs.k = some ((hkdf S a.ck d).2.1.take 32) := rfl
@[simp] theorem mixKeyAndHash_h (a : SymmetricState) (d : Bytes) :
    (a.mixKeyAndHash S d).h = S.hash (a.h ++ (hkdf S a.ck d).2.1) := rfl
@[simp] theorem mixKeyAndHash_ck (a : SymmetricState) (d : Bytes) :
    (a.mixKeyAndHash S d).ck = (hkdf S a.ck d).1 := rfl
@[simp] theorem mixKeyAndHash_k (a : SymmetricState) (d : Bytes) :
    (a.mixKeyAndHash S d).cs.k = some ((hkdf S a.ck d).2.2.take 32) := rfl

theorem encryptAndHash_h (a : SymmetricState) (p : Bytes) :
    (a.encryptAndHash S p).2.h = S.hash (a.h ++ (a.encryptAndHash S p).1) := by
  unfold encryptAndHash; split <;> rfl
theorem encryptAndHash_ck (a : SymmetricState) (p : Bytes) : (a.encryptAndHash S p).2.ck = a.ck := by
  unfold encryptAndHash; split <;> rfl
theorem encryptAndHash_k (a : SymmetricState) (p : Bytes) : (a.encryptAndHash S p).2.cs.k = a.cs.k := by
  unfold encryptAndHash; split <;> rfl
/-- The field `EncryptAndHash` emits: the AEAD ciphertext under `(k, n, h)` with a key, else the cleartext. -/
theorem encryptAndHash_out (a : SymmetricState) (p : Bytes) :
    (a.encryptAndHash S p).1 = match a.cs.k with
      | some k => S.enc k a.cs.n a.h p
      | none => p := by
  unfold encryptAndHash
  cases a.cs.k <;> rfl

theorem decryptAndHash_h {b b' : SymmetricState} {c p : Bytes} (h : b.decryptAndHash S c = some (p, b')) :
    b'.h = S.hash (b.h ++ c) := by
  unfold decryptAndHash at h
  split at h
  · split at h
    · simp only [Option.some.injEq, Prod.mk.injEq] at h; rw [← h.2]; rfl
    · simp at h
  · simp only [Option.some.injEq, Prod.mk.injEq] at h; rw [← h.2]; rfl
theorem decryptAndHash_ck {b b' : SymmetricState} {c p : Bytes} (h : b.decryptAndHash S c = some (p, b')) :
    b'.ck = b.ck := by
  unfold decryptAndHash at h
  split at h
  · split at h
    · simp only [Option.some.injEq, Prod.mk.injEq] at h; rw [← h.2]; rfl
    · simp at h
  · simp only [Option.some.injEq, Prod.mk.injEq] at h; rw [← h.2]; rfl
theorem decryptAndHash_k {b b' : SymmetricState} {c p : Bytes} (h : b.decryptAndHash S c = some (p, b')) :
    b'.cs.k = b.cs.k := by
  unfold decryptAndHash at h
  split at h
  · split at h
    · simp only [Option.some.injEq, Prod.mk.injEq] at h; rw [← h.2]; rfl
    · simp at h
  · simp only [Option.some.injEq, Prod.mk.injEq] at h; rw [← h.2]; rfl
/-- With a key, `DecryptAndHash` succeeds only if the AEAD accepts the field under `(k, n, h)`. -/
theorem decryptAndHash_keyed {b b' : SymmetricState} {c p k : Bytes} (hk : b.cs.k = some k)
    (h : b.decryptAndHash S c = some (p, b')) : S.dec k b.cs.n b.h c = some p := by
  unfold decryptAndHash at h
  rw [hk] at h
  simp only at h
  split at h
  · simp only [Option.some.injEq, Prod.mk.injEq] at h; rw [← h.1]; assumption
  · simp at h


/-! ### Each operation keeps divergence, whatever the data on either side -/

theorem mixHash_h_ne {a b : SymmetricState} (d d' : Bytes) (hl : a.h.length = b.h.length)
    (hne : a.h ≠ b.h ∨ d ≠ d') : (a.mixHash S d).h ≠ (b.mixHash S d').h ∨ HashCollision S :=
  hstep_h_ne hl rfl rfl hne

theorem mixHash_div {a b : SymmetricState} (d d' : Bytes) (hl : a.h.length = b.h.length)
    (hd : DivS a b) : DivS (a.mixHash S d) (b.mixHash S d') ∨ Coll S :=
  hstep_div hl rfl rfl rfl rfl rfl rfl hd

/-- `MixKey`: divergence persists; different inputs on equal chaining keys are not needed here. -/
theorem mixKey_div {a b : SymmetricState} (d d' : Bytes) (hd : DivS a b) :
    DivS (a.mixKey S d) (b.mixKey S d') ∨ Coll S := by
  rcases hd with h | ⟨h, _⟩
  · exact Or.inl (Or.inl h)
  · rcases kdf_ne (S := S) (ikm := d) (ikm' := d') (Or.inl h) with ⟨h1, h3, _⟩ | hc
    · left; right
      refine ⟨h1, ?_⟩
      simp only [mixKey_k, ne_eq, Option.some.injEq]; exact h3
    · exact Or.inr hc.coll

/-- `MixKeyAndHash`: divergence persists, and different input key material creates it. -/
theorem mixKeyAndHash_div {a b : SymmetricState} (d d' : Bytes) (hl : a.h.length = b.h.length)
    (hd : DivS a b ∨ d ≠ d') : DivS (a.mixKeyAndHash S d) (b.mixKeyAndHash S d') ∨ Coll S := by
  have key : (a.ck ≠ b.ck ∨ d ≠ d') → DivS (a.mixKeyAndHash S d) (b.mixKeyAndHash S d') ∨ Coll S := by
    intro h
    rcases kdf_ne (S := S) h with ⟨h1, _, h4⟩ | hc
    · left; right
      refine ⟨h1, ?_⟩
      simp only [mixKeyAndHash_k, ne_eq, Option.some.injEq]; exact h4
    · exact Or.inr hc.coll
  rcases hd with (h | ⟨h, _⟩) | h
  · rcases hash_ne (S := S) (d := (hkdf S a.ck d).2.1) (d' := (hkdf S b.ck d').2.1) hl (Or.inl h) with h1 | h1
    · exact Or.inl (Or.inl h1)
    · exact Or.inr h1.coll
  · exact key (Or.inl h)
  · exact key (Or.inr h)

theorem mixKeyAndHash_h_ne {a b : SymmetricState} (d d' : Bytes) (hl : a.h.length = b.h.length)
    (hne : a.h ≠ b.h) : (a.mixKeyAndHash S d).h ≠ (b.mixKeyAndHash S d').h ∨ HashCollision S :=
  hash_ne hl (Or.inl hne)

end SnowVerif.Spec.Integrity
