/-
  Integrity, part 8 (second sentence of C03): altering a field that the receiver processes under
  a key makes `ReadMessage` fail, or exhibits a forgery in the receiver's own AEAD context.

  "Position of a field" is expressed by splitting the message: `ReadMessage` consumes the message
  from the left, and what it does up to some token depends only on the bytes consumed so far
  (`readToks_prefix`).  So "m' agrees with m up to the start of the field and differs within the
  field" is written `m = c1 ++ c ++ rest`, `m' = c1 ++ c' ++ rest'` with `c' ≠ c`, where `c1` is
  what the tokens before the field consume and `c` is the field (for the payload: `c` is the rest
  of the message).
-/
import SnowVerif.Lemmas.IntegrityMain
set_option linter.unusedVariables false
set_option linter.unusedSimpArgs false

namespace SnowVerif.Spec.Integrity
open SnowVerif SnowVerif.Spec Bytes SymmetricState HandshakeState
variable {S : Suite}

/-- A forgery in one AEAD context: besides the genuine field `c`, a different `d` is accepted
    under the same key, nonce and associated data. -/
def Forgery (S : Suite) (c : Bytes) : Prop :=
  ∃ k n ad d p p', c ≠ d ∧ S.dec k n ad c = some p ∧ S.dec k n ad d = some p'

/-! ### Prefix determinism of `ReadMessage`'s token processing -/

/-- One token: the result depends only on the bytes the token consumes. -/
theorem readTok_prefix {R R1 : HandshakeState} {t : Tok} {msg rest : Bytes}
    (h : readTok S R msg t = some (R1, rest)) :
    ∃ c, msg = c ++ rest ∧ ∀ rest', readTok S R (c ++ rest') t = some (R1, rest') := by
  cases t
  case e =>
    simp only [readTok] at h
    split at h
    · simp at h
    · rename_i hlen
      simp only [Option.some.injEq, Prod.mk.injEq] at h
      obtain ⟨rfl, rfl⟩ := h
      refine ⟨msg.take S.pubLen, (List.take_append_drop _ _).symm, ?_⟩
      intro rest'
      have hl : (msg.take S.pubLen).length = S.pubLen := by simp only [List.length_take]; omega
      simp only [readTok, List.length_append, hl, List.take_left' hl, List.drop_left' hl]
      simp
  case s =>
    simp only [readTok] at h
    have hw : S.pubLen + (if R.hasKey = true then 16 else 0) = tokWidth S .s R.hasKey := rfl
    rw [hw] at h
    split at h
    · simp at h
    · rename_i hlen
      split at h
      · rename_i pk ss' hd
        simp only [Option.some.injEq, Prod.mk.injEq] at h
        obtain ⟨rfl, rfl⟩ := h
        refine ⟨msg.take (tokWidth S .s R.hasKey), (List.take_append_drop _ _).symm, ?_⟩
        intro rest'
        have hl : (msg.take (tokWidth S .s R.hasKey)).length = tokWidth S .s R.hasKey := by
          simp only [List.length_take]; omega
        simp only [readTok]
        rw [hw]
        simp only [List.length_append, hl, List.take_left' hl, List.drop_left' hl, hd]
        simp
      · simp at h
  case psk n =>
    simp only [readTok] at h ⊢
    cases hp : pskTok S R n <;> rw [hp] at h <;> simp at h
    obtain ⟨rfl, rfl⟩ := h
    exact ⟨[], rfl, fun rest' => by simp [readTok, hp]⟩
  all_goals
    simp only [readTok] at h ⊢
    cases hp : dhTok S R _ <;> rw [hp] at h <;> simp at h
    obtain ⟨rfl, rfl⟩ := h
    exact ⟨[], rfl, fun rest' => by simp [readTok, hp]⟩

/-- **Prefix determinism of `readToks`**: the tokens consume a prefix `c` of the message, and on
    any message that starts with `c` they produce the same state and leave the rest. -/
theorem readToks_prefix : ∀ (ts : List Tok) {R R1 : HandshakeState} {msg rem : Bytes},
    readToks S ts R msg = some (R1, rem) →
    ∃ c, msg = c ++ rem ∧ ∀ rem', readToks S ts R (c ++ rem') = some (R1, rem')
  | [], R, R1, msg, rem, h => by
    simp only [readToks, Option.some.injEq, Prod.mk.injEq] at h
    obtain ⟨rfl, rfl⟩ := h
    exact ⟨[], rfl, fun _ => rfl⟩
  | t :: ts, R, R1, msg, rem, h => by
    obtain ⟨Rm, rest, h1, h2⟩ := readToks_cons.1 h
    obtain ⟨c, hc, hc'⟩ := readTok_prefix h1
    obtain ⟨c2, hc2, hc2'⟩ := readToks_prefix ts h2
    refine ⟨c ++ c2, by rw [hc, hc2, List.append_assoc], ?_⟩
    intro rem'
    rw [List.append_assoc]
    exact readToks_cons.2 ⟨Rm, c2 ++ rem', hc' _, hc2' _⟩

/-- If two messages agree on the bytes the tokens consume, the resulting states agree. -/
theorem readToks_agree {ts : List Tok} {R R1 : HandshakeState} {c rem rem' : Bytes}
    (h : readToks S ts R (c ++ rem) = some (R1, rem)) : readToks S ts R (c ++ rem') = some (R1, rem') := by
  obtain ⟨c0, hc0, hall⟩ := readToks_prefix ts h
  have : c = c0 := List.append_cancel_right hc0
  rw [this]; exact hall _

theorem readToks_append : ∀ (t1 t2 : List Tok) (R : HandshakeState) (msg : Bytes),
    readToks S (t1 ++ t2) R msg =
      match readToks S t1 R msg with
      | none => none
      | some (Ra, r) => readToks S t2 Ra r
  | [], t2, R, msg => rfl
  | t :: t1, t2, R, msg => by
    simp only [List.cons_append, readToks]
    cases readTok S R msg t with
    | none => rfl
    | some x => exact readToks_append t1 t2 x.1 x.2

theorem readToks_hasKey : ∀ (ts : List Tok) {R R1 : HandshakeState} {msg rem : Bytes},
    readToks S ts R msg = some (R1, rem) →
    R1.hasKey = keyedAfter R.isPsk ts R.hasKey ∧ R1.isPsk = R.isPsk
  | [], R, R1, msg, rem, h => by
    simp only [readToks, Option.some.injEq, Prod.mk.injEq] at h
    obtain ⟨rfl, rfl⟩ := h
    exact ⟨rfl, rfl⟩
  | t :: ts, R, R1, msg, rem, h => by
    obtain ⟨Rm, rest, h1, h2⟩ := readToks_cons.1 h
    obtain ⟨c, -, -, sr, fr⟩ := readTok_view h1
    have kr : Rm.hasKey = tokKeyed R.isPsk t R.hasKey := sr.keyed
    obtain ⟨k2, i2⟩ := readToks_hasKey ts h2
    exact ⟨by rw [k2, kr, fr.isPsk]; rfl, i2.trans fr.isPsk⟩

/-! ### Alteration inside a keyed field -/

/-- `DecryptAndHash` of two different fields under a key: the second is rejected, or both
    are accepted in the same context (a forgery). -/
theorem decrypt_altered {a a' : SymmetricState} {c c' p : Bytes} (hk : a.cs.k.isSome = true)
    (h : a.decryptAndHash S c = some (p, a')) (hne : c' ≠ c) :
    a.decryptAndHash S c' = none ∨ Forgery S c := by
  obtain ⟨k, hk⟩ := Option.isSome_iff_exists.1 hk
  have hd := decryptAndHash_keyed hk h
  cases hd' : S.dec k a.cs.n a.h c' with
  | none => left; unfold decryptAndHash; rw [hk]; simp only [hd']
  | some p' => exact Or.inr ⟨k, a.cs.n, a.h, c', p, p', Ne.symm hne, hd, hd'⟩

/-- **Alteration of a keyed payload** (second sentence of C03, payload case).  The receiver `R`
    accepts the genuine message `m`; the payload of this message is processed under a key
    (`HasKey()` after the tokens of the message pattern `ts`); `m = c ++ rem` where `rem` is the
    payload field (what the tokens leave), and `m' = c ++ rem'` agrees with `m` before the payload
    and differs within it.  Then `ReadMessage(m')` fails, or the genuine payload field `rem` and
    `rem'` are both accepted in the receiver's AEAD context: a forgery. -/
theorem keyed_payload_alteration {R R1 R' : HandshakeState} {m m' c rem rem' p : Bytes}
    {ts : List Tok} {rest : List (List Tok)} {sp : Option (CipherState × CipherState)}
    (hmsgs : R.msgs = ts :: rest) (hacc : R.readMessage S m = some (p, R', sp))
    (hkeyed : keyedAfter R.isPsk ts R.hasKey = true)
    (hr : readToks S ts R m = some (R1, rem))
    (hm : m = c ++ rem) (hm' : m' = c ++ rem') (hne : rem' ≠ rem) :
    R.readMessage S m' = none ∨ Forgery S rem := by
  obtain ⟨ts0, rest0, R10, rem0, ss', hm0, hr0, hd0, -⟩ := readMessage_some hacc
  rw [hmsgs] at hm0
  simp only [List.cons.injEq] at hm0
  obtain ⟨rfl, rfl⟩ := hm0
  rw [hr] at hr0
  simp only [Option.some.injEq, Prod.mk.injEq] at hr0
  obtain ⟨rfl, rfl⟩ := hr0
  have hk1 : R1.hasKey = true := (readToks_hasKey ts hr).1.trans hkeyed
  have hr' : readToks S ts R m' = some (R1, rem') := by
    rw [hm'] ; rw [hm] at hr; exact readToks_agree hr
  rcases decrypt_altered hk1 hd0 hne with h | h
  · left
    unfold readMessage
    rw [hmsgs]
    simp only [hr', h]
  · exact Or.inr h

/-- **Alteration of a keyed `s` field** (second sentence of C03, static-key case).  The message
    pattern is `t1 ++ s :: t2`; the receiver `R` accepts the genuine message
    `m = c1 ++ c ++ rest0`, where `c1` is what the tokens `t1` consume and `c` is the `s` field,
    which is processed under a key (`HasKey()` after `t1`, so `|c| = DHLEN + 16`);
    `m' = c1 ++ c' ++ rest0'` agrees with `m` before the field, and differs within the field
    (`|c'| = |c|`, `c' ≠ c`; anything may follow).  Then `ReadMessage(m')` fails, or `c` and `c'`
    are both accepted in the receiver's AEAD context: a forgery. -/
theorem keyed_field_alteration {R Ra R' : HandshakeState} {m m' c1 c c' rest0 rest0' p : Bytes}
    {t1 t2 : List Tok} {rest : List (List Tok)} {sp : Option (CipherState × CipherState)}
    (hmsgs : R.msgs = (t1 ++ Tok.s :: t2) :: rest) (hacc : R.readMessage S m = some (p, R', sp))
    (hkeyed : keyedAfter R.isPsk t1 R.hasKey = true)
    (hm : m = c1 ++ (c ++ rest0)) (hr : readToks S t1 R m = some (Ra, c ++ rest0))
    (hc : c.length = S.pubLen + 16)
    (hm' : m' = c1 ++ (c' ++ rest0')) (hc' : c'.length = c.length) (hne : c' ≠ c) :
    R.readMessage S m' = none ∨ Forgery S c := by
  have hka : Ra.hasKey = true := (readToks_hasKey t1 hr).1.trans hkeyed
  have hr' : readToks S t1 R m' = some (Ra, c' ++ rest0') := by
    rw [hm']; rw [hm] at hr; exact readToks_agree hr
  -- the genuine `s` field was accepted
  obtain ⟨ts0, rest1, R10, rem0, ss', hm0, hr0, hd0, -⟩ := readMessage_some hacc
  rw [hmsgs] at hm0
  simp only [List.cons.injEq] at hm0
  obtain ⟨rfl, rfl⟩ := hm0
  rw [readToks_append, hr] at hr0
  simp only at hr0
  obtain ⟨Rb, restb, hs, -⟩ := readToks_cons.1 hr0
  have hlen : ∀ x y : Bytes, x.length = S.pubLen + 16 →
      readTok S Ra (x ++ y) .s =
        match Ra.ss.decryptAndHash S x with
        | some (pk, ss') => some ({ Ra with rs := some pk, ss := ss' }, y)
        | none => none := by
    intro x y hx
    simp only [readTok, hka, if_true, List.length_append, hx, List.take_left' hx, List.drop_left' hx]
    rw [if_neg (by omega)]
    cases decryptAndHash S Ra.ss x <;> rfl
  rw [hlen c rest0 hc] at hs
  cases hdc : Ra.ss.decryptAndHash S c with
  | none => rw [hdc] at hs; simp at hs
  | some r =>
    obtain ⟨pk, ssb⟩ := r
    rcases decrypt_altered hka hdc hne with h | h
    · left
      unfold readMessage
      rw [hmsgs]
      simp only
      rw [readToks_append, hr']
      simp only [readToks]
      rw [hlen c' rest0' (hc'.trans hc), h]
    · exact Or.inr h

end SnowVerif.Spec.Integrity
