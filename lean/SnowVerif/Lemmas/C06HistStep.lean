/-
  C06 over histories, Stage 3, one step of a history.

  Fix a key `k`, a nonce `n` and the data `(a1, p1)` that was encrypted under `(k, n)` by some
  earlier call.  Two state predicates describe what that earlier encryption means for the
  current state `y`, as long as `k` was not installed again by a KDF:
  * `P1st`: the earlier call failed and was rolled back; `k` is installed, the session is at the
    same message, and `(a1, p1)` is the `t`-th static-key field of that message counted from the
    current nonce: a retry will encrypt exactly the same data under `(k, n)`;
  * `Qst`: if `k` is still the tracked key, the nonce has moved past `n`.
  `step_event`: in a state satisfying one of them, every encryption under `(k, n)` made by the next
  call encrypts `(a1, p1)` again, or follows a KDF installation of `k` made by that call.
  `step_rel`: the next call installs `k` by a KDF, or leaves a state satisfying one of them again.
  `step_first`: the call that made the first encryption leaves such a state (or installs `k`).
-/
import SnowVerif.Lemmas.C06HistCall

namespace SnowVerif.C06
open SnowVerif SnowVerif.Model SnowVerif.Model.HS SnowVerif.Framing
open SnowVerif.Theorems.C11 (Op step run NoPanic)
set_option linter.unusedVariables false
set_option linter.unusedSimpArgs false

/-! ### Positions in the log of one call -/

theorem restoreMark_get {α : Type} (r : Res α) (hs' : HS) (i : Nat) (x : GEv) :
    (restoreMark r hs')[i]? ≠ some (HEv.g x) := by
  cases r with
  | ok a => simp [restoreMark]
  | panic q => simp [restoreMark]
  | err e =>
    cases i with
    | zero => simp [restoreMark]
    | succ i => simp [restoreMark]

theorem restoreMark_not_start {α : Type} (r : Res α) (hs' : HS) (i : Nat) :
    (restoreMark r hs')[i]? ≠ some HEv.callStart := by
  cases r with
  | ok a => simp [restoreMark]
  | panic q => simp [restoreMark]
  | err e =>
    cases i with
    | zero => simp [restoreMark]
    | succ i => simp [restoreMark]

/-- Shape shared by the logs of reads and writes. -/
theorem markG_get (G : List GEv) (rm : List HEv) (hrm : ∀ (i : Nat) (x : GEv), rm[i]? ≠ some (HEv.g x)) (j : Nat) (x : GEv)
    (h : (HEv.callStart :: (G.map .g ++ rm))[j]? = some (HEv.g x)) : ∃ j', j = j' + 1 ∧ G[j']? = some x := by
  cases j with
  | zero => simp at h
  | succ j =>
    refine ⟨j, rfl, ?_⟩
    simp only [List.getElem?_cons_succ] at h
    by_cases c : j < (G.map HEv.g).length
    · rw [List.getElem?_append_left c, List.getElem?_map] at h
      cases hg : G[j]? with
      | none => rw [hg] at h; simp at h
      | some y => rw [hg] at h; simp only [Option.map_some, Option.some.injEq, HEv.g.injEq] at h; rw [h]
    · rw [List.getElem?_append_right (by omega)] at h
      exact absurd h (hrm _ _)

theorem markG_put (G : List GEv) (rm : List HEv) (j : Nat) (x : GEv) (h : G[j]? = some x) :
    (HEv.callStart :: (G.map .g ++ rm))[j + 1]? = some (HEv.g x) := by
  have hj : j < G.length := by
    apply Classical.byContradiction; intro hc
    rw [List.getElem?_eq_none (by omega)] at h; cases h
  simp only [List.getElem?_cons_succ]
  rw [List.getElem?_append_left (by simpa using hj), List.getElem?_map, h]
  rfl

/-- Every position of a call's log after the first is not a call mark. -/
theorem callG_start (S : Suite) (hs : HS) (op : Op) :
    (callG S hs op)[0]? = some HEv.callStart ∧ ∀ c : Nat, 0 < c → (callG S hs op)[c]? ≠ some HEv.callStart := by
  have key : ∀ (G : List GEv) (rm : List HEv), (∀ i : Nat, rm[i]? ≠ some HEv.callStart) → ∀ c : Nat, 0 < c →
      (HEv.callStart :: (G.map .g ++ rm))[c]? ≠ some HEv.callStart := by
    intro G rm hrm c hc
    cases c with
    | zero => omega
    | succ c =>
      simp only [List.getElem?_cons_succ]
      by_cases c1 : c < (G.map HEv.g).length
      · rw [List.getElem?_append_left c1, List.getElem?_map]
        cases G[c]? <;> simp
      · rw [List.getElem?_append_right (by omega)]
        exact hrm _
  cases op with
  | write p cap => exact ⟨rfl, key _ _ (restoreMark_not_start _ _)⟩
  | read m cap => exact ⟨rfl, key _ _ (restoreMark_not_start _ _)⟩
  | setPsk loc k =>
    refine ⟨rfl, fun c hc => ?_⟩
    cases c with
    | zero => omega
    | succ c => simp [callG]

theorem callG_length_pos (S : Suite) (hs : HS) (op : Op) : 0 < (callG S hs op).length := by
  cases op <;> simp [callG]

/-- The `g` entries of a call's log are the entries of the call's ghost log, shifted by one. -/
theorem callG_get (S : Suite) (hs : HS) (op : Op) (j : Nat) (x : GEv) (h : (callG S hs op)[j]? = some (HEv.g x)) :
    ∃ j', j = j' + 1 ∧
      ((∃ p cap, op = .write p cap ∧ (writeG S hs p cap)[j']? = some x) ∨
       (∃ m cap, op = .read m cap ∧ (readG S hs m cap)[j']? = some x)) := by
  cases op with
  | write p cap =>
    obtain ⟨j', h1, h2⟩ := markG_get _ _ (restoreMark_get _ _) j x h
    exact ⟨j', h1, Or.inl ⟨p, cap, rfl, h2⟩⟩
  | read m cap =>
    obtain ⟨j', h1, h2⟩ := markG_get _ _ (restoreMark_get _ _) j x h
    exact ⟨j', h1, Or.inr ⟨m, cap, rfl, h2⟩⟩
  | setPsk loc k =>
    cases j with
    | zero => simp [callG] at h
    | succ j => simp [callG] at h

theorem readG_noEnc (S : Suite) (hs : HS) (m : Bytes) (cap : Nat) (j : Nat) (k : Bytes) (n : UInt64) (a p : Bytes) :
    (readG S hs m cap)[j]? ≠ some (GEv.ev (.enc k n a p)) := by
  intro h
  have h1 : GEv.ev (.enc k n a p) ∈ readG S hs m cap := List.mem_of_getElem? h
  have h2 : Event.enc k n a p ∈ erase (readG S hs m cap) := by
    have : ∀ g : List GEv, GEv.ev (.enc k n a p) ∈ g → Event.enc k n a p ∈ erase g := by
      intro g
      induction g with
      | nil => intro hm; cases hm
      | cons x g ih =>
        intro hm
        rcases List.mem_cons.mp hm with rfl | hm'
        · simp [erase]
        · cases x with
          | install kk nn => simp only [erase]; exact ih hm'
          | ev e => simp only [erase]; exact List.mem_cons_of_mem _ (ih hm')
    exact this _ h1
  rw [← (readInner_G S hs m cap).1] at h2
  exact readInner_no_enc S hs m cap k n a p h2

/-- An encryption in a call's log comes from a write. -/
theorem callG_enc (S : Suite) (hs : HS) (op : Op) (j : Nat) (k : Bytes) (n : UInt64) (a p : Bytes)
    (h : (callG S hs op)[j]? = some (HEv.g (.ev (.enc k n a p)))) :
    ∃ j' pl cap, j = j' + 1 ∧ op = .write pl cap ∧ (writeG S hs pl cap)[j']? = some (GEv.ev (.enc k n a p)) := by
  obtain ⟨j', h1, h2⟩ := callG_get S hs op j _ h
  rcases h2 with ⟨pl, cap, rfl, h3⟩ | ⟨m, cap, rfl, h3⟩
  · exact ⟨j', pl, cap, h1, rfl, h3⟩
  · exact absurd h3 (readG_noEnc S hs m cap j' k n a p)

theorem callG_put_write (S : Suite) (hs : HS) (p : Bytes) (cap : Nat) (j : Nat) (x : GEv)
    (h : (writeG S hs p cap)[j]? = some x) : (callG S hs (.write p cap))[j + 1]? = some (HEv.g x) :=
  markG_put _ _ j x h

theorem callG_put_read (S : Suite) (hs : HS) (m : Bytes) (cap : Nat) (j : Nat) (x : GEv)
    (h : (readG S hs m cap)[j]? = some x) : (callG S hs (.read m cap))[j + 1]? = some (HEv.g x) :=
  markG_put _ _ j x h

/-! ### The state a call leaves -/

/-- A `write_message` that does not panic: either `_write_message` succeeded and its symmetric
    state is kept, or it failed and (reachable-state invariant) the symmetric state is restored:
    tracked key, `has_key`, hash and chaining key as before, the cipher as before when a key was
    installed; the static key, the pattern, the position and the turn are never touched. -/
theorem write_step_cases (S : Suite) (hs : HS) (p : Bytes) (cap : Nat) (inv : SymInv hs.sym)
    (np : (hs.writeMessage S p cap).1.isPanic = false) :
    (∃ n, (writeInner S hs p cap).1 = .ok n ∧ (hs.writeMessage S p cap).1 = .ok n ∧
      (hs.writeMessage S p cap).2.1.sym = (writeInner S hs p cap).2.hs.sym) ∨
    (∃ e, (hs.writeMessage S p cap).1 = .err e ∧ (∀ n, (writeInner S hs p cap).1 ≠ .ok n) ∧
      (hs.writeMessage S p cap).2.1.sym.k = hs.sym.k ∧
      (∀ key, hs.sym.k = some key → (hs.writeMessage S p cap).2.1.sym = hs.sym) ∧
      (hs.writeMessage S p cap).2.1.s = hs.s ∧ (hs.writeMessage S p cap).2.1.isPsk = hs.isPsk ∧
      (hs.writeMessage S p cap).2.1.msgs = hs.msgs ∧ (hs.writeMessage S p cap).2.1.pos = hs.pos ∧
      (hs.writeMessage S p cap).2.1.myTurn = hs.myTurn) := by
  have hf := writeInner_frame S hs p cap
  simp only at hf
  obtain ⟨f1, f2, f3, f4, f5, f6, f7, f8, f9, f10, f11⟩ := hf
  have hres := Theorems.C06.writeMessage_res S hs p cap
  rcases writeMessage_sym_cases S hs p cap with ⟨n, h1, h2⟩ | ⟨q, h1, h2⟩ | ⟨e, h1, h2⟩
  · exact Or.inl ⟨n, by rw [← hres, h1], h1, h2⟩
  · rw [h1] at np; simp [Res.isPanic] at np
  · right
    have hrf := Theorems.C06.restore_facts (writeInner S hs p cap).2.hs.sym hs.sym inv
    refine ⟨e, h1, (fun n hc => by rw [← hres, h1] at hc; cases hc), (by rw [h2]; exact hrf.2.2.2.1), ?_, ?_⟩
    · intro key hk
      rw [h2]
      have hcs := hrf.2.2.2.2.1 key hk
      generalize (writeInner S hs p cap).2.hs.sym.restore hs.sym.checkpoint = r at hrf hcs ⊢
      obtain ⟨r1, r2, r3, r4, _⟩ := hrf
      cases r; cases hh : hs.sym
      simp_all
    · have hr : (writeInner S hs p cap).1 = .err e := by rw [← hres, h1]
      unfold writeMessage
      simp only [hr]
      cases hon : hs.e.on <;> simp [f2, f6, f7, f5, f9]

theorem read_step_cases (S : Suite) (hs : HS) (m : Bytes) (cap : Nat) (inv : SymInv hs.sym)
    (np : (hs.readMessage S m cap).1.isPanic = false) :
    (∃ pl, (readInner S hs m cap).1 = .ok pl ∧ (hs.readMessage S m cap).1 = .ok pl ∧
      (hs.readMessage S m cap).2.1.sym = (readInner S hs m cap).2.1.sym) ∨
    (∃ e, (hs.readMessage S m cap).1 = .err e ∧
      (hs.readMessage S m cap).2.1.sym.k = hs.sym.k ∧
      (∀ key, hs.sym.k = some key → (hs.readMessage S m cap).2.1.sym = hs.sym)) := by
  have hres := readMessage_res S hs m cap
  rcases readMessage_sym_cases S hs m cap with ⟨n, h1, h2⟩ | ⟨q, h1, h2⟩ | ⟨e, h1, h2⟩
  · exact Or.inl ⟨n, by rw [← hres, h1], h1, h2⟩
  · rw [h1] at np; simp [Res.isPanic] at np
  · right
    have hrf := Theorems.C06.restore_facts (readInner S hs m cap).2.1.sym hs.sym inv
    refine ⟨e, h1, (by rw [h2]; exact hrf.2.2.2.1), ?_⟩
    intro key hk
    rw [h2]
    have hcs := hrf.2.2.2.2.1 key hk
    generalize (readInner S hs m cap).2.1.sym.restore hs.sym.checkpoint = r at hrf hcs ⊢
    obtain ⟨r1, r2, r3, r4, _⟩ := hrf
    cases r; cases hh : hs.sym
    simp_all

theorem setPsk_frame (hs : HS) (loc : Nat) (key : Bytes) :
    (hs.setPsk loc key).2.sym = hs.sym ∧ (hs.setPsk loc key).2.s = hs.s ∧ (hs.setPsk loc key).2.isPsk = hs.isPsk ∧
    (hs.setPsk loc key).2.msgs = hs.msgs ∧ (hs.setPsk loc key).2.pos = hs.pos ∧
    (hs.setPsk loc key).2.myTurn = hs.myTurn := by
  unfold setPsk
  split <;> exact ⟨rfl, rfl, rfl, rfl, rfl, rfl⟩

theorem step_inv (S : Suite) (hs : HS) (op : Op) (h : SymInv hs.sym) : SymInv (step S hs op).sym := by
  cases op with
  | write p cap => exact writeMessage_inv S hs p cap h
  | read m cap => exact readMessage_inv S hs m cap h
  | setPsk loc key => exact setPsk_inv hs loc key h

/-- A read attempted while it is this party's turn to write fails and changes nothing. -/
theorem read_myTurn (S : Suite) (hs : HS) (m : Bytes) (cap : Nat) (inv : SymInv hs.sym) (ht : hs.myTurn = true) :
    (hs.readMessage S m cap).2.1 = hs := by
  by_cases hl : m.length ≤ 65535
  · rw [Theorems.C11.read_on_turn S hs m cap inv hl ht]
  · rw [Theorems.C11.read_oversize S hs m cap inv (by omega)]

/-! ### The two state predicates -/

/-- The encryption of `(a1, p1)` under `(k, n)` was rolled back: `k` is installed and tracked, it
    is this party's turn to write, and `(a1, p1)` is what the `t`-th static-key field of the current
    message encrypts, `t` counted from the current nonce. -/
structure P1st (S : Suite) (k : Bytes) (n : UInt64) (a1 p1 : Bytes) (y : HS) : Prop where
  keyed : y.sym.hasKey = true
  key : y.sym.k = some k
  turn : y.myTurn = true
  idx : ∃ t, t < sPre (curToks y) ∧ n.toNat = y.sym.cs.n.toNat + t ∧
    a1 = (sChain S y.sym y.s.val.pub t).h ∧ p1 = y.s.val.pub

theorem P1st.transfer {S : Suite} {k : Bytes} {n : UInt64} {a1 p1 : Bytes} {y y' : HS} (h : P1st S k n a1 p1 y)
    (hsym : y'.sym = y.sym) (hs : y'.s = y.s) (hmsgs : y'.msgs = y.msgs) (hpos : y'.pos = y.pos)
    (hturn : y'.myTurn = y.myTurn) : P1st S k n a1 p1 y' := by
  obtain ⟨h1, h2, h3, t, h4⟩ := h
  refine ⟨by rw [hsym]; exact h1, by rw [hsym]; exact h2, by rw [hturn]; exact h3, t, ?_⟩
  have hc : curToks y' = curToks y := by
    show y'.msgs.getD y'.pos [] = y.msgs.getD y.pos []
    rw [hmsgs, hpos]
  rw [hsym, hs, hc]
  exact h4

/-- If `k` is (still) the tracked key, the nonce is past `n`. -/
def Qst (k : Bytes) (n : UInt64) (y : HS) : Prop := y.sym.k = some k → n.toNat < y.sym.cs.n.toNat

/-- In a keyed state satisfying the invariant the tracked key is the cipher's key. -/
theorem tracked_key (y : HS) (inv : SymInv y.sym) (hk : y.sym.hasKey = true) : y.sym.k = some y.sym.cs.key := by
  have h1 := inv.2 hk
  cases hkk : y.sym.k with
  | none => rw [hkk] at h1; cases h1
  | some key => rw [(inv.1 key hkk).1]

theorem mem_install_pos (G : List GEv) (k : Bytes) (nn : UInt64) (h : GEv.install k nn ∈ G) :
    ∃ m : Nat, G[m]? = some (GEv.install k nn) := List.getElem?_of_mem h

/-! ### `step_event` -/

/-- **The next call re-encrypts the same data or installs the key first.** -/
theorem step_event (S : Suite) (y : HS) (inv : SymInv y.sym) (hp : EAE y) (op : Op)
    (k : Bytes) (n : UInt64) (a1 p1 : Bytes) (hrel : P1st S k n a1 p1 y ∨ Qst k n y)
    (j : Nat) (a2 p2 : Bytes) (hj : (callG S y op)[j]? = some (HEv.g (.ev (.enc k n a2 p2)))) :
    (a1 = a2 ∧ p1 = p2) ∨ ∃ m : Nat, m < j ∧ (callG S y op)[m]? = some (HEv.g (.install k 0)) := by
  obtain ⟨j', pl, cap, rfl, rfl, hg⟩ := callG_enc S y op j k n a2 p2 hj
  have hd := (writeInner_G S y pl cap).2
  rcases hd.key_at' j' k n a2 p2 hg with ⟨m, nn, hm, hgm⟩ | ⟨hno, hk, hlow⟩
  · right
    have hz := (writeG_install S y pl cap k nn (List.mem_of_getElem? hgm)).1
    subst hz
    exact ⟨m + 1, by omega, callG_put_write S y pl cap m _ hgm⟩
  · have hpre := preEnc_get _ j' k n a2 p2 hg hno
    obtain ⟨hkeyed, _, hne, t, ht, hcase⟩ := write_pre S y pl cap hp k n a2 p2 hpre
    rcases hrel with h1 | hq
    · obtain ⟨_, _, _, t', ht1, ht2, ht3, ht4⟩ := h1
      have htt : t = t' := by omega
      subst htt
      rcases hcase with ⟨_, c2, c3⟩ | ⟨c1, _⟩
      · exact Or.inl ⟨ht3.trans c2.symm, ht4.trans c3.symm⟩
      · omega
    · exfalso
      have hkk := tracked_key y inv hkeyed
      rw [← hk] at hkk
      have := hq hkk
      omega

/-! ### `step_rel` -/

theorem no_install_pos (G : List GEv) (k : Bytes) (hno : ¬ ∃ m : Nat, G[m]? = some (GEv.install k 0))
    (hz : ∀ nn, GEv.install k nn ∈ G → nn = 0) : ∀ nn, GEv.install k nn ∉ G := by
  intro nn hm
  have := hz nn hm
  subst this
  exact hno (List.getElem?_of_mem hm)

/-- **The next call installs `k` by a KDF, or leaves a state of the same kind.** -/
theorem step_rel (S : Suite) (y : HS) (inv : SymInv y.sym) (hp : EAE y) (op : Op) (np : NoPanic S y op)
    (k : Bytes) (n : UInt64) (a1 p1 : Bytes) (hrel : P1st S k n a1 p1 y ∨ Qst k n y) :
    (∃ m : Nat, (callG S y op)[m]? = some (HEv.g (.install k 0))) ∨
    (P1st S k n a1 p1 (step S y op) ∨ Qst k n (step S y op)) := by
  have inv' := step_inv S y op inv
  cases op with
  | setPsk loc key =>
    right
    obtain ⟨f1, f2, f3, f4, f5, f6⟩ := setPsk_frame y loc key
    rcases hrel with h1 | hq
    · exact Or.inl (h1.transfer f1 f2 f4 f5 f6)
    · right; simp only [Qst, step, f1]; exact hq
  | write pl cap =>
    simp only [NoPanic] at np
    simp only [step] at inv' ⊢
    by_cases hex : ∃ m : Nat, (writeG S y pl cap)[m]? = some (GEv.install k 0)
    · obtain ⟨m, hm⟩ := hex
      exact Or.inl ⟨m + 1, callG_put_write S y pl cap m _ hm⟩
    · right
      have hnok := no_install_pos _ k hex (fun nn hm => (writeG_install S y pl cap k nn hm).1)
      have hd := (writeInner_G S y pl cap).2
      rcases write_step_cases S y pl cap inv np with ⟨nr, hok, _, hsym⟩ | ⟨e, _, hnot, hk', hsame, f1, f2, f3, f4, f5⟩
      · -- success without a KDF installation of `k`: the nonce has moved on
        right
        intro hkk
        rw [hsym] at hkk inv' ⊢
        have hkey : (writeInner S y pl cap).2.hs.sym.cs.key = k := (inv'.1 k hkk).1
        rw [hkey] at hd
        obtain ⟨hni, hk0, hn0⟩ := hd.no_install_end hnok
        have hkf := (writeInner_noInst S y pl cap hni).1
        rw [hkk] at hkf
        rcases hrel with h1 | hq
        · obtain ⟨g1, g2, g3, t, t1, t2, _⟩ := h1
          have := write_ok_advance S y pl cap hp g1 nr hok hni
          omega
        · have := hq hkf.symm
          omega
      · rcases hrel with h1 | hq
        · left
          exact h1.transfer (hsame k h1.key) f1 f3 f4 f5
        · right
          intro hkk
          rw [hk'] at hkk
          rw [hsame k hkk]
          exact hq hkk
  | read m cap =>
    simp only [NoPanic] at np
    simp only [step] at inv' ⊢
    rcases hrel with h1 | hq
    · right; left
      rw [read_myTurn S y m cap inv h1.turn]
      exact h1
    · by_cases hex : ∃ i : Nat, (readG S y m cap)[i]? = some (GEv.install k 0)
      · obtain ⟨i, hi⟩ := hex
        exact Or.inl ⟨i + 1, callG_put_read S y m cap i _ hi⟩
      · right; right
        have hnok := no_install_pos _ k hex (fun nn hm => (readG_install S y m cap k nn hm).1)
        obtain ⟨_, hd, hkfr⟩ := readInner_G S y m cap
        rcases read_step_cases S y m cap inv np with ⟨pl, hok, _, hsym⟩ | ⟨e, _, hk', hsame⟩
        · intro hkk
          rw [hsym] at hkk inv' ⊢
          have hkey : (readInner S y m cap).2.1.sym.cs.key = k := (inv'.1 k hkk).1
          rw [hkey] at hd
          obtain ⟨hni, hk0, hn0⟩ := hd.no_install_end hnok
          have hkf := (hkfr hni).1
          rw [hkk] at hkf
          have := hq hkf.symm
          omega
        · intro hkk
          rw [hk'] at hkk
          rw [hsame k hkk]
          exact hq hkk

/-! ### `step_first` -/

/-- **The call that encrypted `(a1, p1)` under `(k, n)` installs `k` by a KDF (somewhere in the
    call), or leaves a state satisfying `P1st` (it failed: rolled back) or `Qst` (it succeeded). -/
theorem step_first (S : Suite) (x : HS) (inv : SymInv x.sym) (hp : EAE x) (op : Op) (np : NoPanic S x op)
    (k : Bytes) (n : UInt64) (a1 p1 : Bytes) (i : Nat)
    (hi : (callG S x op)[i]? = some (HEv.g (.ev (.enc k n a1 p1)))) :
    (∃ m : Nat, (callG S x op)[m]? = some (HEv.g (.install k 0))) ∨
    (P1st S k n a1 p1 (step S x op) ∨ Qst k n (step S x op)) := by
  have inv' := step_inv S x op inv
  obtain ⟨i', pl, cap, rfl, rfl, hg⟩ := callG_enc S x op i k n a1 p1 hi
  simp only [NoPanic] at np
  simp only [step] at inv' ⊢
  by_cases hex : ∃ m : Nat, (writeG S x pl cap)[m]? = some (GEv.install k 0)
  · obtain ⟨m, hm⟩ := hex
    exact Or.inl ⟨m + 1, callG_put_write S x pl cap m _ hm⟩
  · right
    have hnok := no_install_pos _ k hex (fun nn hm => (writeG_install S x pl cap k nn hm).1)
    have hd := (writeInner_G S x pl cap).2
    rcases hd.key_at' i' k n a1 p1 hg with ⟨m, nn, _, hgm⟩ | ⟨hno, hk, _⟩
    · exact absurd (List.mem_of_getElem? hgm) (hnok nn)
    · have hpre := preEnc_get _ i' k n a1 p1 hg hno
      obtain ⟨hkeyed, _, hne, t, ht, hcase⟩ := write_pre S x pl cap hp k n a1 p1 hpre
      have hkk := tracked_key x inv hkeyed
      rw [← hk] at hkk
      rcases write_step_cases S x pl cap inv np with ⟨nr, hok, _, hsym⟩ | ⟨e, _, hnot, hk', hsame, f1, f2, f3, f4, f5⟩
      · right
        intro hk2
        rw [hsym] at hk2 inv' ⊢
        have hkey : (writeInner S x pl cap).2.hs.sym.cs.key = k := (inv'.1 k hk2).1
        exact hd.end_after i' k n a1 p1 hg hne (fun nn hm => hnok nn (List.mem_of_mem_drop hm)) hkey
      · left
        rcases hcase with ⟨c1, c2, c3⟩ | ⟨_, ⟨nr, hok⟩⟩
        · have hs' := hsame k hkk
          refine ⟨by rw [hs']; exact hkeyed, by rw [hs']; exact hkk, ?_, t, ?_⟩
          · rw [f5]
            -- the call logged an event, so it passed the turn guard
            rcases writeG_ready S x pl cap with h0 | ⟨hr, _⟩
            · rw [h0] at hg; simp at hg
            · exact hr.1
          · have hc : curToks (x.writeMessage S pl cap).2.1 = curToks x := by
              show (x.writeMessage S pl cap).2.1.msgs.getD (x.writeMessage S pl cap).2.1.pos [] = x.msgs.getD x.pos []
              rw [f3, f4]
            rw [hs', f1, hc]
            exact ⟨c1, ht, c2, c3⟩
        · exact absurd hok (hnot nr)

/-! ### Two encryptions of one call -/

/-- Two `enc` entries of one call's log under the same (key, nonce) encrypt the same data, or a
    KDF installation of that key lies strictly between them. -/
theorem call_no_reuse (S : Suite) (hs : HS) (op : Op) (i j : Nat) (hij : i < j)
    (k : Bytes) (n : UInt64) (a1 p1 a2 p2 : Bytes)
    (hi : (callG S hs op)[i]? = some (HEv.g (.ev (.enc k n a1 p1))))
    (hj : (callG S hs op)[j]? = some (HEv.g (.ev (.enc k n a2 p2)))) :
    (a1 = a2 ∧ p1 = p2) ∨ ∃ m : Nat, i < m ∧ m < j ∧ (callG S hs op)[m]? = some (HEv.g (.install k 0)) := by
  obtain ⟨i', pl, cap, rfl, rfl, hgi⟩ := callG_enc S hs op i k n a1 p1 hi
  obtain ⟨j', pl', cap', rfl, heq, hgj⟩ := callG_enc S hs _ _ k n a2 p2 hj
  simp only [Op.write.injEq] at heq
  obtain ⟨rfl, rfl⟩ := heq
  have hd := (writeInner_G S hs pl cap).2
  rcases hd.no_reuse i' j' (by omega) k n a1 p1 a2 p2 hgi hgj with hl | ⟨m, nn, h1, h2, hgm⟩
  · exact Or.inl hl
  · right
    have hz := (writeG_install S hs pl cap k nn (List.mem_of_getElem? hgm)).1
    subst hz
    exact ⟨m + 1, by omega, by omega, callG_put_write S hs pl cap m _ hgm⟩

end SnowVerif.C06
