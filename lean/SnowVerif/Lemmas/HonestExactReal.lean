/-
  `C18Real.real_honest_handshake` (honest handshake for the real X25519 suites, `DhComm` the only
  hypothesis about the primitives) with the EXACT size conditions (audit finding F3).
-/
import SnowVerif.Lemmas.C18RealHonest
import SnowVerif.Theorems.C02Exact

namespace SnowVerif.Theorems.C18Real
open SnowVerif SnowVerif.Bytes SnowVerif.C18 SnowVerif.C18Real
open SnowVerif.Model SnowVerif.Model.HS SnowVerif.Model.TS SnowVerif.Theorems.C04 SnowVerif.Theorems.C02
set_option linter.unusedVariables false

/-- **C02 (honest handshake, exact sizes) for the real X25519 suites.**  Statement of
    `real_honest_handshake` with `PlanOkExact` (threaded from the initiator's `is_psk` and
    `has_key`) in place of `PlanOk`: with X25519 (pubLen 32) every payload up to the one that
    makes the message 65535 bytes long is covered. -/
theorem real_honest_handshake_exact (cb : Real.Backend) (csel : Nat) (hb : Real.Backend) (hsel : Nat)
    (hDC : (x25519Suite cb csel hb hsel).DhComm)
    (inst : Inst) (hv : Spec.valid inst = true) (k0 : Spec.Keys) (hk0 : preKeys inst = some k0)
    (A B : HS) (hc : Consistent (x25519Suite cb csel hb hsel) inst k0 A B)
    (hsmall : totalFields inst.msgs < 2 ^ 64 - 1)
    (plan : List (Bytes × Nat × Nat))
    (hplan : PlanOkExact (x25519Suite cb csel hb hsel) A.isPsk A.sym.hasKey inst.msgs plan) :
    ∃ A' B' kf, exchange (x25519Suite cb csel hb hsel) true A B plan = some (A', B') ∧
      Sync (x25519Suite cb csel hb hsel) kf A' B' ∧
      A'.isHandshakeFinished = true ∧ B'.isHandshakeFinished = true ∧
      A'.getHandshakeHash = B'.getHandshakeHash ∧
      ∃ ta tb, TS.ofHandshake (x25519Suite cb csel hb hsel) A' = .ok ta ∧
        TS.ofHandshake (x25519Suite cb csel hb hsel) B' = .ok tb ∧ Paired ta tb ∧
        ta.sendCs.hasKey = true ∧ ta.recvCs.hasKey = true ∧ tb.sendCs.hasKey = true ∧ tb.recvCs.hasKey = true ∧
        ta.sendCs.n = 0 ∧ ta.recvCs.n = 0 ∧ tb.sendCs.n = 0 ∧ tb.recvCs.n = 0 ∧
        ta.initiator = true ∧ tb.initiator = false :=
  have hc' := cipherImpl_isStreamMac cb csel
  C02Exact.honest_handshake_exact (x25519Suite cb csel hb hsel)
    (mkSuite_encLen _ cb _ _ hc') (mkSuite_decEnc _ cb _ _ hc')
    (fun a => x25519_pubLen a) (fun a => x25519_validPriv a) hDC (fun a b => x25519_dh_isSome a _)
    inst hv k0 hk0 A B hc hsmall plan hplan

end SnowVerif.Theorems.C18Real
