/-
  C06 with attempts, part 1 (abstract): the merged history log of TWO endpoints whose calls
  interleave in any order, failing calls included, and the no-reuse theorem for it.

  A merged history is a list of tagged calls `(side, op)`: `side = true` is a call on the first
  endpoint of the pair, `side = false` a call on the second; `op : C11.Op` is a `write_message` /
  `read_message` / `set_psk` call with arbitrary arguments.  `mhistG` is the merged history log:
  the concatenation, in real-time order, of the history logs (`callG`, Lemmas/C06Hist.lean) of
  the calls: per call a `callStart` mark, the call's ghost log (events and KDF installation
  markers), and a `restore key n` mark when the call returned an error.

  The single-endpoint argument (Lemmas/C06HistStep.lean, C06HistMain.lean) carries a state
  predicate (`P1st ∨ Qst`) from call to call of ONE handshake state.  Here it is carried by the
  *leader*: the endpoint that made the last successful call (initially: the one whose turn it is
  to write).  The other endpoint, the *follower*, is never on turn, hence never encrypts; when a
  call of the follower succeeds it is the `read_message` of the leader's message, after which its
  symmetric state is the leader's (`SymEq`) and it becomes the leader.  `MOk` records exactly
  these side conditions along a merged history; Lemmas/C06AttemptsRun.lean shows that an honest
  exchange with arbitrary failing calls in between satisfies them.
-/
import SnowVerif.Lemmas.C06HistInst

namespace SnowVerif.C06
open SnowVerif SnowVerif.Model SnowVerif.Model.HS SnowVerif.Framing
open SnowVerif.Theorems.C11 (Op step run NoPanic)
set_option linter.unusedVariables false
set_option linter.unusedSimpArgs false

/-! ### Pairs of endpoints and merged histories -/

/-- A call on one of the two endpoints: `(true, op)` on the first, `(false, op)` on the second. -/
abbrev MOp := Bool × Op

/-- The endpoint of the pair with tag `s`. -/
def pget (P : HS × HS) : Bool → HS
  | true => P.1
  | false => P.2

/-- Replace the endpoint with tag `s`. -/
def pset (P : HS × HS) (s : Bool) (x : HS) : HS × HS :=
  match s with
  | true => (x, P.2)
  | false => (P.1, x)

theorem pget_pset_same (P : HS × HS) (s : Bool) (x : HS) : pget (pset P s x) s = x := by
  cases s <;> rfl

theorem pget_pset_other (P : HS × HS) (s s' : Bool) (x : HS) (h : s' ≠ s) : pget (pset P s x) s' = pget P s' := by
  cases s <;> cases s' <;> first | rfl | exact absurd rfl h

theorem bool_ne_not {s l : Bool} (h : s ≠ l) : s = !l := by
  cases s <;> cases l <;> first | rfl | exact absurd rfl h

/-- One call of a merged history. -/
def mstep (S : Suite) (P : HS × HS) (o : MOp) : HS × HS := pset P o.1 (step S (pget P o.1) o.2)

/-- The pair of states after a merged history. -/
def mrun (S : Suite) : HS × HS → List MOp → HS × HS
  | P, [] => P
  | P, o :: ops => mrun S (mstep S P o) ops

/-- **The merged history log**: the history logs of the calls, in order. -/
def mhistG (S : Suite) : HS × HS → List MOp → List HEv
  | _, [] => []
  | P, o :: ops => callG S (pget P o.1) o.2 ++ mhistG S (mstep S P o) ops

/-- **The merged real log**: the event lists the calls returned (failed calls included), in order. -/
def mhistEv (S : Suite) : HS × HS → List MOp → List Event
  | _, [] => []
  | P, o :: ops => callEv S (pget P o.1) o.2 ++ mhistEv S (mstep S P o) ops

theorem mrun_append (S : Suite) (P : HS × HS) (l1 l2 : List MOp) :
    mrun S P (l1 ++ l2) = mrun S (mrun S P l1) l2 := by
  induction l1 generalizing P with
  | nil => rfl
  | cons o l ih => simp only [List.cons_append, mrun, ih]

theorem mhistG_append (S : Suite) (P : HS × HS) (l1 l2 : List MOp) :
    mhistG S P (l1 ++ l2) = mhistG S P l1 ++ mhistG S (mrun S P l1) l2 := by
  induction l1 generalizing P with
  | nil => rfl
  | cons o l ih => simp only [List.cons_append, mhistG, mrun, ih, List.append_assoc]

theorem mhistEv_append (S : Suite) (P : HS × HS) (l1 l2 : List MOp) :
    mhistEv S P (l1 ++ l2) = mhistEv S P l1 ++ mhistEv S (mrun S P l1) l2 := by
  induction l1 generalizing P with
  | nil => rfl
  | cons o l ih => simp only [List.cons_append, mhistEv, mrun, ih, List.append_assoc]

/-- **Erasing the marks of the merged history log gives exactly the merged real log.** -/
theorem mhist_erase (S : Suite) (P : HS × HS) (ops : List MOp) : herase (mhistG S P ops) = mhistEv S P ops := by
  induction ops generalizing P with
  | nil => rfl
  | cons o ops ih => simp only [mhistG, mhistEv, herase_append, callG_erase, ih]

/-- Every KDF installation marker of the merged history log is an HKDF output installed with nonce 0. -/
theorem mhistG_install (S : Suite) (P : HS × HS) (ops : List MOp) (key : Bytes) (nn : UInt64)
    (h : HEv.g (GEv.install key nn) ∈ mhistG S P ops) : nn = 0 ∧ ∃ ck, IsKdfKey S ck key := by
  induction ops generalizing P with
  | nil => simp [mhistG] at h
  | cons o ops ih =>
    simp only [mhistG, List.mem_append] at h
    rcases h with h | h
    · exact callG_install S _ _ key nn h
    · exact ih _ h

theorem pget_inv {P : HS × HS} (h1 : SymInv P.1.sym) (h2 : SymInv P.2.sym) (s : Bool) : SymInv (pget P s).sym := by
  cases s
  · exact h2
  · exact h1

theorem mstep_inv (S : Suite) (P : HS × HS) (o : MOp) (h1 : SymInv P.1.sym) (h2 : SymInv P.2.sym) :
    SymInv (mstep S P o).1.sym ∧ SymInv (mstep S P o).2.sym := by
  obtain ⟨s, op⟩ := o
  cases s
  · exact ⟨h1, step_inv S P.2 op h2⟩
  · exact ⟨step_inv S P.1 op h1, h2⟩

/-! ### Outcomes of calls, leader and follower -/

/-- The call returns `Ok`. -/
def callOk (S : Suite) (hs : HS) : Op → Bool
  | .write p cap => (hs.writeMessage S p cap).1.isOk
  | .read m cap => (hs.readMessage S m cap).1.isOk
  | .setPsk loc key => (hs.setPsk loc key).1.isOk

/-- An outcome that is an error (not `Ok`, not a panic). -/
def resIsErr {α : Type} : Res α → Bool
  | .err _ => true
  | _ => false

/-- The call returns an error. -/
def callErr (S : Suite) (hs : HS) : Op → Bool
  | .write p cap => resIsErr (hs.writeMessage S p cap).1
  | .read m cap => resIsErr (hs.readMessage S m cap).1
  | .setPsk loc key => resIsErr (hs.setPsk loc key).1

theorem resIsErr_notOk {α : Type} (r : Res α) (h : resIsErr r = true) : r.isOk = false ∧ r.isPanic = false := by
  cases r <;> simp [resIsErr, Res.isOk, Res.isPanic] at h ⊢

theorem callErr_notOk (S : Suite) (hs : HS) (op : Op) (h : callErr S hs op = true) : callOk S hs op = false := by
  cases op <;> exact (resIsErr_notOk _ h).1

theorem callErr_noPanic (S : Suite) (hs : HS) (op : Op) (h : callErr S hs op = true) : NoPanic S hs op := by
  cases op with
  | write p cap => exact (resIsErr_notOk _ h).2
  | read m cap => exact (resIsErr_notOk _ h).2
  | setPsk loc key => trivial

theorem callOk_noPanic (S : Suite) (hs : HS) (op : Op) (h : callOk S hs op = true) : NoPanic S hs op := by
  cases op with
  | write p cap =>
    simp only [callOk] at h
    simp only [NoPanic]
    cases hr : (hs.writeMessage S p cap).1 <;> simp [hr, Res.isOk, Res.isPanic] at h ⊢
  | read m cap =>
    simp only [callOk] at h
    simp only [NoPanic]
    cases hr : (hs.readMessage S m cap).1 <;> simp [hr, Res.isOk, Res.isPanic] at h ⊢
  | setPsk loc key => trivial

/-- The leader after a call: a successful call of the follower makes it the leader. -/
def mlead (S : Suite) (P : HS × HS) (l : Bool) (o : MOp) : Bool :=
  if o.1 != l && callOk S (pget P o.1) o.2 then o.1 else l

theorem mlead_same (S : Suite) (P : HS × HS) (l : Bool) (op : Op) : mlead S P l (l, op) = l := by
  simp [mlead]

theorem mlead_ok (S : Suite) (P : HS × HS) (l s : Bool) (op : Op) (h : callOk S (pget P s) op = true) :
    mlead S P l (s, op) = s := by
  simp only [mlead, h, Bool.and_true]
  cases s <;> cases l <;> rfl

theorem mlead_notOk (S : Suite) (P : HS × HS) (l s : Bool) (op : Op) (h : callOk S (pget P s) op = false) :
    mlead S P l (s, op) = l := by
  simp [mlead, h]

/-- The leader after a merged history. -/
def mleadRun (S : Suite) : HS × HS → Bool → List MOp → Bool
  | _, l, [] => l
  | P, l, o :: ops => mleadRun S (mstep S P o) (mlead S P l o) ops

theorem mleadRun_append (S : Suite) (P : HS × HS) (l : Bool) (l1 l2 : List MOp) :
    mleadRun S P l (l1 ++ l2) = mleadRun S (mrun S P l1) (mleadRun S P l l1) l2 := by
  induction l1 generalizing P l with
  | nil => rfl
  | cons o l1 ih => simp only [List.cons_append, mleadRun, mrun, ih]

/-- **Side conditions along a merged history** with leader `l`: for every call `(s, op)` made in a
    pair state `P`,
    * the calling endpoint's current message passes the Stage 2 scan (`EAE`) and the call does not panic;
    * the follower is not on turn;
    * if the caller is the follower and the call succeeds, then the leader is not on turn either
      (it has written its message) and the call leaves the caller with the leader's symmetric state
      (up to the cipher of an unkeyed state, `SymEq`): it was the `read_message` of the leader's
      message.  The caller is the leader from then on. -/
def MOk (S : Suite) : HS × HS → Bool → List MOp → Prop
  | _, _, [] => True
  | P, l, o :: ops =>
    EAE (pget P o.1) ∧ NoPanic S (pget P o.1) o.2 ∧ (pget P (!l)).myTurn = false ∧
    (o.1 ≠ l → callOk S (pget P o.1) o.2 = true →
      (pget P l).myTurn = false ∧ SymEq (step S (pget P o.1) o.2).sym (pget P l).sym) ∧
    MOk S (mstep S P o) (mlead S P l o) ops

theorem MOk_append (S : Suite) (P : HS × HS) (l : Bool) (l1 l2 : List MOp) :
    MOk S P l (l1 ++ l2) ↔ MOk S P l l1 ∧ MOk S (mrun S P l1) (mleadRun S P l l1) l2 := by
  induction l1 generalizing P l with
  | nil => simp [MOk, mrun, mleadRun]
  | cons o l1 ih =>
    simp only [List.cons_append, MOk, mrun, mleadRun, ih]
    constructor
    · rintro ⟨h1, h2, h3, h4, h5, h6⟩; exact ⟨⟨h1, h2, h3, h4, h5⟩, h6⟩
    · rintro ⟨⟨h1, h2, h3, h4, h5⟩, h6⟩; exact ⟨h1, h2, h3, h4, h5, h6⟩

/-! ### A call made off turn encrypts nothing -/

theorem callG_noEnc_offTurn (S : Suite) (hs : HS) (ht : hs.myTurn = false) (op : Op) (j : Nat)
    (k : Bytes) (n : UInt64) (a p : Bytes) : (callG S hs op)[j]? ≠ some (HEv.g (.ev (.enc k n a p))) := by
  intro h
  obtain ⟨j', pl, cap, _, _, hg⟩ := callG_enc S hs op j k n a p h
  have : writeG S hs pl cap = [] := by unfold writeG; simp [ht]
  rw [this] at hg
  simp at hg

theorem Qst_of_symEq {k : Bytes} {n : UInt64} {x y : HS} (h : SymEq y.sym x.sym) (hq : Qst k n x) : Qst k n y := by
  intro hk
  obtain ⟨_, _, _, h4, h5⟩ := h
  have hkx : x.sym.k = some k := by rw [← h4]; exact hk
  have hcs : y.sym.cs = x.sym.cs := h5 (by rw [hk]; simp)
  rw [hcs]
  exact hq hkx

/-! ### The induction over the merged history -/

/-- **Across calls of both endpoints.** From a pair state whose leader satisfies `P1st` or `Qst`
    for `(k, n, a1, p1)`, every later encryption under `(k, n)` in the merged history, by whichever
    endpoint, encrypts `(a1, p1)`, or a KDF installation of `k` precedes it. -/
theorem mcross (S : Suite) (k : Bytes) (n : UInt64) (a1 p1 : Bytes) (ops : List MOp) :
    ∀ (P : HS × HS) (l : Bool), SymInv P.1.sym → SymInv P.2.sym → MOk S P l ops →
    (P1st S k n a1 p1 (pget P l) ∨ Qst k n (pget P l)) →
    ∀ (j : Nat) (a2 p2 : Bytes), (mhistG S P ops)[j]? = some (HEv.g (.ev (.enc k n a2 p2))) →
      (a1 = a2 ∧ p1 = p2) ∨ ∃ m : Nat, m < j ∧ (mhistG S P ops)[m]? = some (HEv.g (.install k 0)) := by
  induction ops with
  | nil => intro P l _ _ _ _ j a2 p2 hj; simp [mhistG] at hj
  | cons o ops ih =>
    intro P l i1 i2 hok hrel j a2 p2 hj
    obtain ⟨s, op⟩ := o
    obtain ⟨hp, np, hfol, hsync, hok'⟩ := hok
    simp only at hp np hsync
    simp only [mhistG] at hj ⊢
    obtain ⟨i1', i2'⟩ := mstep_inv S P (s, op) i1 i2
    have inv := pget_inv i1 i2 s
    -- the tail, once the relation is re-established for the new leader
    have tail : (P1st S k n a1 p1 (pget (mstep S P (s, op)) (mlead S P l (s, op))) ∨
          Qst k n (pget (mstep S P (s, op)) (mlead S P l (s, op)))) →
        (callG S (pget P s) op).length ≤ j →
        (a1 = a2 ∧ p1 = p2) ∨ ∃ m : Nat, m < j ∧
          (callG S (pget P s) op ++ mhistG S (mstep S P (s, op)) ops)[m]? = some (HEv.g (.install k 0)) := by
      intro hrel' hjl
      rw [get_append_right' _ _ j hjl] at hj
      rcases ih _ _ i1' i2' hok' hrel' _ a2 p2 hj with hl | ⟨m, hm, hg⟩
      · exact Or.inl hl
      · refine Or.inr ⟨m + (callG S (pget P s) op).length, by omega, ?_⟩
        rw [get_append_shift]; exact hg
    by_cases hsl : s = l
    · -- a call of the leader
      subst hsl
      by_cases hjl : j < (callG S (pget P s) op).length
      · rw [get_append_left' _ _ j hjl] at hj
        rcases step_event S (pget P s) inv hp op k n a1 p1 hrel j a2 p2 hj with hl | ⟨m, hm, hg⟩
        · exact Or.inl hl
        · exact Or.inr ⟨m, hm, by rw [get_append_left' _ _ m (by omega)]; exact hg⟩
      · rcases step_rel S (pget P s) inv hp op np k n a1 p1 hrel with ⟨m, hg⟩ | hrel'
        · have hml := get_lt_of_some hg
          exact Or.inr ⟨m, by omega, by rw [get_append_left' _ _ m hml]; exact hg⟩
        · apply tail _ (by omega)
          rw [mlead_same]
          simp only [mstep, pget_pset_same]
          exact hrel'
    · -- a call of the follower: it is off turn
      have hsn := bool_ne_not hsl
      have hoff : (pget P s).myTurn = false := by rw [hsn]; exact hfol
      by_cases hjl : j < (callG S (pget P s) op).length
      · rw [get_append_left' _ _ j hjl] at hj
        exact absurd hj (callG_noEnc_offTurn S _ hoff op j k n a2 p2)
      · apply tail _ (by omega)
        cases hc : callOk S (pget P s) op with
        | true =>
          obtain ⟨hlt, hse⟩ := hsync hsl hc
          rw [mlead_ok S P l s op hc]
          simp only [mstep, pget_pset_same]
          right
          rcases hrel with h1 | hq
          · have := h1.turn; rw [hlt] at this; cases this
          · exact Qst_of_symEq hse hq
        | false =>
          rw [mlead_notOk S P l s op hc]
          simp only [mstep]
          rw [pget_pset_other _ _ _ _ (fun h => hsl h.symm)]
          exact hrel

/-- **The no-reuse theorem on the merged history log of two endpoints.** -/
theorem mhist_no_reuse_log (S : Suite) (ops : List MOp) :
    ∀ (P : HS × HS) (l : Bool), SymInv P.1.sym → SymInv P.2.sym → MOk S P l ops →
    ∀ (i j : Nat), i < j → ∀ (k : Bytes) (n : UInt64) (a1 p1 a2 p2 : Bytes),
      (mhistG S P ops)[i]? = some (HEv.g (.ev (.enc k n a1 p1))) →
      (mhistG S P ops)[j]? = some (HEv.g (.ev (.enc k n a2 p2))) →
      (a1 = a2 ∧ p1 = p2) ∨
      ∃ c m : Nat, c ≤ i ∧ (mhistG S P ops)[c]? = some HEv.callStart ∧
        (∀ c' : Nat, c < c' → c' ≤ i → (mhistG S P ops)[c']? ≠ some HEv.callStart) ∧
        c ≤ m ∧ m < j ∧ (mhistG S P ops)[m]? = some (HEv.g (.install k 0)) := by
  induction ops with
  | nil => intro P l _ _ _ i j _ k n a1 p1 a2 p2 hi; simp [mhistG] at hi
  | cons o ops ih =>
    intro P l i1 i2 hok i j hij k n a1 p1 a2 p2 hi hj
    obtain ⟨s, op⟩ := o
    obtain ⟨hp, np, hfol, hsync, hok'⟩ := hok
    simp only at hp np hsync
    simp only [mhistG] at hi hj ⊢
    obtain ⟨i1', i2'⟩ := mstep_inv S P (s, op) i1 i2
    have inv := pget_inv i1 i2 s
    have hL := callG_length_pos S (pget P s) op
    by_cases hil : i < (callG S (pget P s) op).length
    · rw [get_append_left' _ _ i hil] at hi
      -- the first encryption is made by this call: the caller is the leader
      have hsl : s = l := by
        apply Classical.byContradiction
        intro hsl
        have hoff : (pget P s).myTurn = false := by rw [bool_ne_not hsl]; exact hfol
        exact callG_noEnc_offTurn S _ hoff op i k n a1 p1 hi
      subst hsl
      have hstart := callG_start S (pget P s) op
      have hc0 : (callG S (pget P s) op ++ mhistG S (mstep S P (s, op)) ops)[0]? = some HEv.callStart := by
        rw [get_append_left' _ _ 0 hL]; exact hstart.1
      have hcn : ∀ c' : Nat, 0 < c' → c' ≤ i →
          (callG S (pget P s) op ++ mhistG S (mstep S P (s, op)) ops)[c']? ≠ some HEv.callStart := by
        intro c' h1 h2
        rw [get_append_left' _ _ c' (by omega)]
        exact hstart.2 c' h1
      by_cases hjl : j < (callG S (pget P s) op).length
      · rw [get_append_left' _ _ j hjl] at hj
        rcases call_no_reuse S (pget P s) op i j hij k n a1 p1 a2 p2 hi hj with hl | ⟨m, h1, h2, hg⟩
        · exact Or.inl hl
        · exact Or.inr ⟨0, m, Nat.zero_le _, hc0, hcn, Nat.zero_le _, h2,
            by rw [get_append_left' _ _ m (by omega)]; exact hg⟩
      · rw [get_append_right' _ _ j (by omega)] at hj
        rcases step_first S (pget P s) inv hp op np k n a1 p1 i hi with ⟨m, hg⟩ | hrel
        · have hml := get_lt_of_some hg
          exact Or.inr ⟨0, m, Nat.zero_le _, hc0, hcn, Nat.zero_le _, by omega,
            by rw [get_append_left' _ _ m hml]; exact hg⟩
        · have hrel' : P1st S k n a1 p1 (pget (mstep S P (s, op)) (mlead S P s (s, op))) ∨
              Qst k n (pget (mstep S P (s, op)) (mlead S P s (s, op))) := by
            rw [mlead_same]
            simp only [mstep, pget_pset_same]
            exact hrel
          rcases mcross S k n a1 p1 ops _ _ i1' i2' hok' hrel' _ a2 p2 hj with hl | ⟨m, hm, hg⟩
          · exact Or.inl hl
          · exact Or.inr ⟨0, m + (callG S (pget P s) op).length, Nat.zero_le _, hc0, hcn, Nat.zero_le _, by omega,
              by rw [get_append_shift]; exact hg⟩
    · rw [get_append_right' _ _ i (by omega)] at hi
      rw [get_append_right' _ _ j (by omega)] at hj
      rcases ih _ _ i1' i2' hok' _ _ (by omega) k n a1 p1 a2 p2 hi hj with
        hl | ⟨c, m, h1, h2, h3, h4, h5, h6⟩
      · exact Or.inl hl
      · refine Or.inr ⟨c + (callG S (pget P s) op).length, m + (callG S (pget P s) op).length, by omega, ?_, ?_,
          by omega, by omega, ?_⟩
        · rw [get_append_shift]; exact h2
        · intro c' g1 g2
          rw [get_append_right' _ _ c' (by omega)]
          exact h3 _ (by omega) (by omega)
        · rw [get_append_shift]; exact h6

end SnowVerif.C06
