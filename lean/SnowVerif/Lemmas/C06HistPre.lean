/-
  C06 over histories, Stage 3, one call: the encryptions a `write_message` call makes *before its
  first key installation* (`preEnc` of its ghost log).

  Under the table fact of Stage 2 (`encAfterE` for the current message and the current
  keyedness) these are a function of the start state only, not of the payload, the buffer size
  or the random source: the message's token list starts with a run of `s` tokens (`sPre`), the
  encryptions before the first installation are those of the first `m` of them,
  `sEv 0, ..., sEv (m-1)` (`sChain`: the symmetric state after `t` static-key fields), plus — only
  when the message consists of `s` tokens alone and the call succeeds — the payload at index
  `sPre`.  In an un-keyed state there are none.
-/
import SnowVerif.Lemmas.C06HistRead
import SnowVerif.Lemmas.C06HistTable
import SnowVerif.Lemmas.C06Retry

namespace SnowVerif.C06
open SnowVerif SnowVerif.Model SnowVerif.Model.HS SnowVerif.Framing
set_option linter.unusedVariables false
set_option linter.unusedSimpArgs false

/-! ### `preEnc`: the encryptions before the first installation marker -/

def preEnc : List GEv → List Event
  | [] => []
  | .install _ _ :: _ => []
  | .ev (.enc k n a p) :: g => .enc k n a p :: preEnc g
  | .ev _ :: g => preEnc g

theorem preEnc_map_ev_append (l : List Event) (g : List GEv) (h : NoEnc l) : preEnc (l.map .ev ++ g) = preEnc g := by
  induction l with
  | nil => rfl
  | cons x l ih =>
    have h' : NoEnc l := fun kk nn a p hm => h kk nn a p (List.mem_cons_of_mem _ hm)
    cases x with
    | enc kk nn a p => exact absurd List.mem_cons_self (h kk nn a p)
    | dec a b c d f => simp only [List.map_cons, List.cons_append, preEnc]; exact ih h'
    | rng d => simp only [List.map_cons, List.cons_append, preEnc]; exact ih h'

theorem preEnc_install (l : List Event) (k : Bytes) (n : UInt64) (g : List GEv) (h : NoEnc l) :
    preEnc (l.map .ev ++ GEv.install k n :: g) = [] := by
  rw [preEnc_map_ev_append l _ h]; rfl

theorem preEnc_map_ev_noEnc (l : List Event) (h : NoEnc l) : preEnc (l.map .ev) = [] := by
  have := preEnc_map_ev_append l [] h
  simpa [preEnc] using this

theorem preEnc_append_noInst (g1 g2 : List GEv) (h : NoInst g1) : preEnc (g1 ++ g2) = preEnc g1 ++ preEnc g2 := by
  induction g1 with
  | nil => rfl
  | cons x g ih =>
    have h' : NoInst g := fun y hy => h y (List.mem_cons_of_mem _ hy)
    cases x with
    | install k n => have := h _ List.mem_cons_self; simp [GEv.isInst] at this
    | ev e =>
      cases e with
      | enc kk nn a p => simp only [List.cons_append, preEnc, ih h']
      | dec a b c d f => simp only [List.cons_append, preEnc, ih h']
      | rng d => simp only [List.cons_append, preEnc, ih h']

theorem preEnc_append_inst (g1 g2 : List GEv) (h : ¬ NoInst g1) : preEnc (g1 ++ g2) = preEnc g1 := by
  induction g1 with
  | nil => exact absurd NoInst.nil h
  | cons x g ih =>
    cases x with
    | install k n => rfl
    | ev e =>
      have h' : ¬ NoInst g := by
        intro hg
        apply h
        intro y hy
        rcases List.mem_cons.mp hy with rfl | hy
        · rfl
        · exact hg y hy
      cases e with
      | enc kk nn a p => simp only [List.cons_append, preEnc, ih h']
      | dec a b c d f => simp only [List.cons_append, preEnc, ih h']
      | rng d => simp only [List.cons_append, preEnc, ih h']

/-- An `enc` entry with nothing installed before it is one of the `preEnc` events. -/
theorem preEnc_get (g : List GEv) (j : Nat) (k : Bytes) (n : UInt64) (a p : Bytes)
    (hj : g[j]? = some (GEv.ev (.enc k n a p))) (hno : NoInst (g.take j)) : Event.enc k n a p ∈ preEnc g := by
  induction g generalizing j with
  | nil => simp at hj
  | cons x g ih =>
    cases j with
    | zero =>
      simp only [List.getElem?_cons_zero, Option.some.injEq] at hj
      subst hj
      exact List.mem_cons_self
    | succ j =>
      simp only [List.getElem?_cons_succ] at hj
      simp only [List.take_succ_cons] at hno
      have hno' : NoInst (g.take j) := fun y hy => hno y (List.mem_cons_of_mem _ hy)
      have := ih j hj hno'
      cases x with
      | install kk nn => have := hno _ List.mem_cons_self; simp [GEv.isInst] at this
      | ev e =>
        cases e with
        | enc kk nn a' p' => exact List.mem_cons_of_mem _ this
        | dec a' b c d f => exact this
        | rng d => exact this

/-! ### The chain of static-key fields -/

/-- The symmetric state after a successful keyed `encrypt_and_mix_hash(pt)`. -/
def symAfterEnc (S : Suite) (st : Sym) (pt : Bytes) : Sym :=
  Sym.mixHash S { st with cs := { st.cs with n := st.cs.n + 1 } } (S.enc st.cs.key st.cs.n st.h pt)

/-- The symmetric state after `t` successful keyed encryptions of `pub`. -/
def sChain (S : Suite) (st : Sym) (pub : Bytes) : Nat → Sym
  | 0 => st
  | t + 1 => sChain S (symAfterEnc S st pub) pub t

/-- The event the `t`-th of these encryptions logs. -/
def sEv (S : Suite) (st : Sym) (pub : Bytes) (t : Nat) : Event :=
  .enc (sChain S st pub t).cs.key (sChain S st pub t).cs.n (sChain S st pub t).h pub

theorem sChain_key (S : Suite) (st : Sym) (pub : Bytes) (t : Nat) :
    (sChain S st pub t).cs.key = st.cs.key ∧ (sChain S st pub t).hasKey = st.hasKey ∧ (sChain S st pub t).k = st.k := by
  induction t generalizing st with
  | zero => exact ⟨rfl, rfl, rfl⟩
  | succ t ih =>
    have := ih (symAfterEnc S st pub)
    simp only [sChain]
    exact ⟨this.1, this.2.1, this.2.2⟩

/-- As long as the counter does not reach the reserved value, it counts the encryptions. -/
theorem sChain_n (S : Suite) (st : Sym) (pub : Bytes) (t : Nat)
    (h : ∀ t', t' < t → (sChain S st pub t').cs.n ≠ MAXN) :
    (sChain S st pub t).cs.n.toNat = st.cs.n.toNat + t := by
  induction t generalizing st with
  | zero => rfl
  | succ t ih =>
    have h0 : st.cs.n ≠ MAXN := h 0 (by omega)
    have := ih (symAfterEnc S st pub) (fun t' ht' => h (t' + 1) (by omega))
    simp only [sChain]
    rw [this]
    simp only [symAfterEnc, Sym.mixHash]
    rw [succ_toNat _ h0]
    omega

/-- Length of the leading run of `s` tokens. -/
def sPre : List Tok → Nat
  | .s :: ts => sPre ts + 1
  | _ => 0

theorem sPre_le (ts : List Tok) : sPre ts ≤ ts.length := by
  induction ts with
  | nil => exact Nat.le_refl _
  | cons t ts ih => cases t <;> simp [sPre] <;> omega

/-! ### `encrypt_and_mix_hash`, keyed and un-keyed -/

theorem sym_encrypt_keyed (S : Suite) (st : Sym) (pt : Bytes) (cap : Nat) (hk : st.hasKey = true) :
    (st.cs.n ≠ MAXN ∧ (st.encryptAndMixHash S pt cap).1 = .ok (S.enc st.cs.key st.cs.n st.h pt) ∧
      (st.encryptAndMixHash S pt cap).2.1 = symAfterEnc S st pt ∧
      (st.encryptAndMixHash S pt cap).2.2 = [.enc st.cs.key st.cs.n st.h pt]) ∨
    ((∀ c, (st.encryptAndMixHash S pt cap).1 ≠ .ok c) ∧ (st.encryptAndMixHash S pt cap).2.2 = []) := by
  unfold Sym.encryptAndMixHash
  simp only [hk, ↓reduceIte]
  rcases encryptAd_cases S st.cs st.h pt cap with ⟨hn, h1, h2, h3⟩ | ⟨h1, h2, h3⟩
  · left
    refine ⟨hn, h1, ?_, h3⟩
    rw [h1, h2]
    simp only [symAfterEnc, Sym.mixHash, hk]
  · right; exact ⟨h1, h3⟩

theorem sym_encrypt_unkeyed (S : Suite) (st : Sym) (pt : Bytes) (cap : Nat) (hk : st.hasKey = false) :
    (st.encryptAndMixHash S pt cap).2.2 = [] := by
  unfold Sym.encryptAndMixHash
  simp only [hk, Bool.false_eq_true, ↓reduceIte]
  split <;> rfl

/-! ### The token loop -/

theorem toksG_cons_ok (S : Suite) (cap : Nat) (t : Tok) (ts : List Tok) (w : WS)
    (h : (writeTok S cap w t).1 = .ok ()) :
    toksG S cap (t :: ts) w = tokG S cap w t ++ toksG S cap ts (writeTok S cap w t).2 := by
  rw [toksG]; simp only [h]

theorem toksG_cons_fail (S : Suite) (cap : Nat) (t : Tok) (ts : List Tok) (w : WS)
    (h : (writeTok S cap w t).1 ≠ .ok ()) : toksG S cap (t :: ts) w = [] := by
  have hev : tokEv S cap w t = [] := (writeTok_facts S cap w t).2.1 h
  have htg : tokG S cap w t = [] := by
    rcases tokG_cases S cap w t with ⟨⟨_, hok⟩, _⟩ | ⟨_, he⟩
    · exact absurd hok h
    · rw [he, hev]; rfl
  rw [toksG, htg]
  cases hr : (writeTok S cap w t).1 with
  | ok u => cases u; exact absurd hr h
  | err e => rfl
  | panic q => rfl

theorem tokEv_noEnc (S : Suite) (cap : Nat) (w : WS) (t : Tok) (h : t ≠ .s) : NoEnc (tokEv S cap w t) :=
  (writeTok_facts S cap w t).2.2.1 h

/-- **Quiet until an installation.** In an un-keyed state, or once an `e` was processed in a keyed
    state, a token loop whose remaining tokens pass the scan encrypts nothing before its first
    key installation; and if it succeeds without any installation the state was un-keyed. -/
theorem toksG_quiet (S : Suite) (cap : Nat) (ts : List Tok) (w : WS) (seen : Bool)
    (hp : encAfterE w.hs.isPsk ts w.hs.sym.hasKey seen = true)
    (hq : w.hs.sym.hasKey = false ∨ seen = true) :
    preEnc (toksG S cap ts w) = [] ∧
    ((writeToks S cap ts w).1 = .ok () → NoInst (toksG S cap ts w) → w.hs.sym.hasKey = false) := by
  induction ts generalizing w seen with
  | nil =>
    refine ⟨rfl, fun _ _ => ?_⟩
    simp only [encAfterE] at hp
    rcases hq with hq | hq
    · exact hq
    · subst hq; simpa using hp
  | cons t ts ih =>
    by_cases hok : (writeTok S cap w t).1 = .ok ()
    · rw [toksG_cons_ok S cap t ts w hok, writeToks_cons_ok S cap t ts w hok]
      have hfr := writeTok_frame S cap w t
      have hkey := writeTok_keyed S cap w t hok
      simp only [encAfterE, Bool.and_eq_true] at hp
      obtain ⟨hp1, hp2⟩ := hp
      rcases tokG_cases S cap w t with ⟨⟨hinst, _⟩, he⟩ | ⟨hc, he⟩
      · -- an installing token that succeeded: the marker comes first
        have hts : t ≠ .s := by intro h; subst h; simp [installsTok] at hinst
        rw [he, List.append_assoc]
        refine ⟨by simpa using preEnc_install _ _ _ _ (tokEv_noEnc S cap w t hts), fun _ hn => ?_⟩
        have := hn _ (List.mem_append_right _ (List.mem_append_left _ List.mem_cons_self))
        simp [GEv.isInst] at this
      · have hni : installsTok w.hs.isPsk t = false := by
          rcases hc with hc | hc
          · exact hc
          · exact absurd hok hc
        rw [he]
        cases t with
        | s =>
          -- keyed and seen is excluded by the scan: the state is un-keyed
          have hk : w.hs.sym.hasKey = false := by
            rcases hq with hq | hq
            · exact hq
            · subst hq; simpa using hp1
          have hev : tokEv S cap w .s = [] := by
            have h0 := (writeTok_facts S cap w .s).1
            rw [writeTok_s_eq] at h0 hok
            by_cases c1 : (!w.hs.s.on) = true
            · simp [c1] at hok
            · by_cases c2 : w.acc.length + S.pubLen + (if w.hs.sym.hasKey = true then 16 else 0) > cap
              · simp [c1, c2] at hok
              · simp only [c1, c2, ↓reduceIte, Bool.false_eq_true] at h0
                have h0' := List.append_cancel_left h0
                rw [← h0']
                exact sym_encrypt_unkeyed S _ _ _ hk
          rw [hev]
          simp only [List.map_nil, List.nil_append]
          have := ih (writeTok S cap w .s).2 (seenAfter w.hs.isPsk .s seen)
            (by rw [hfr.isPsk, hkey]; exact hp2) (Or.inl (by rw [hkey, hk]; rfl))
          exact ⟨this.1, fun h1 h2 => hk⟩
        | e =>
          simp only [installsTok] at hni
          have hseen : seenAfter w.hs.isPsk .e seen = true := by simp [seenAfter, hni]
          have hk' : tokKeyed w.hs.isPsk .e w.hs.sym.hasKey = w.hs.sym.hasKey := by simp [tokKeyed, hni]
          rw [hseen] at hp2
          have := ih (writeTok S cap w .e).2 true
            (by rw [hfr.isPsk, hkey]; exact hp2) (Or.inr rfl)
          rw [preEnc_map_ev_append _ _ (tokEv_noEnc S cap w .e (by simp))]
          refine ⟨this.1, fun h1 h2 => ?_⟩
          have := this.2 h1 h2.right
          rw [hkey, hk'] at this
          exact this
        | psk n => simp [installsTok] at hni
        | ee => simp [installsTok] at hni
        | es => simp [installsTok] at hni
        | se => simp [installsTok] at hni
        | ss => simp [installsTok] at hni
    · rw [toksG_cons_fail S cap t ts w hok, writeToks_cons_fail S cap t ts w hok]
      exact ⟨rfl, fun h => absurd h hok⟩

/-- **The encryptions before the first installation, keyed state, no `e` seen yet**: they are the
    first `m ≤ sPre` events of the static-key chain of the start state; the counter does not reach
    the reserved value before them; and if the loop succeeds without any installation the token
    list consists of `s` tokens only and the loop ends in the chain state `sChain _ _ (length)`. -/
theorem toksG_pre (S : Suite) (cap : Nat) (ts : List Tok) (w : WS)
    (hp : encAfterE w.hs.isPsk ts true false = true) (hk : w.hs.sym.hasKey = true) :
    ∃ m, m ≤ sPre ts ∧
      preEnc (toksG S cap ts w) = (List.range m).map (sEv S w.hs.sym w.hs.s.val.pub) ∧
      (∀ t, t < m → (sChain S w.hs.sym w.hs.s.val.pub t).cs.n ≠ MAXN) ∧
      ((writeToks S cap ts w).1 = .ok () → NoInst (toksG S cap ts w) →
        m = ts.length ∧ sPre ts = ts.length ∧
        (writeToks S cap ts w).2.hs.sym = sChain S w.hs.sym w.hs.s.val.pub ts.length) := by
  induction ts generalizing w with
  | nil => exact ⟨0, Nat.le_refl _, rfl, fun t ht => absurd ht (by omega), fun _ _ => ⟨rfl, rfl, rfl⟩⟩
  | cons t ts ih =>
    by_cases hok : (writeTok S cap w t).1 = .ok ()
    · rw [toksG_cons_ok S cap t ts w hok, writeToks_cons_ok S cap t ts w hok]
      have hfr := writeTok_frame S cap w t
      have hkey := writeTok_keyed S cap w t hok
      simp only [encAfterE, Bool.and_eq_true] at hp
      obtain ⟨_, hp2⟩ := hp
      rcases tokG_cases S cap w t with ⟨⟨hinst, _⟩, he⟩ | ⟨hc, he⟩
      · have hts : t ≠ .s := by intro h; subst h; simp [installsTok] at hinst
        rw [he, List.append_assoc]
        refine ⟨0, Nat.zero_le _, by simpa using preEnc_install _ _ _ _ (tokEv_noEnc S cap w t hts),
          fun t ht => absurd ht (by omega), fun _ hn => ?_⟩
        have := hn _ (List.mem_append_right _ (List.mem_append_left _ List.mem_cons_self))
        simp [GEv.isInst] at this
      · have hni : installsTok w.hs.isPsk t = false := by
          rcases hc with hc | hc
          · exact hc
          · exact absurd hok hc
        rw [he]
        cases t with
        | s =>
          -- a successful keyed `s`: the head of the chain
          have h0 := (writeTok_facts S cap w .s).1
          rw [writeTok_s_eq] at h0 hok
          have hsym : (writeTok S cap w .s).2.hs.sym = symAfterEnc S w.hs.sym w.hs.s.val.pub ∧
              tokEv S cap w .s = [.enc w.hs.sym.cs.key w.hs.sym.cs.n w.hs.sym.h w.hs.s.val.pub] ∧
              w.hs.sym.cs.n ≠ MAXN := by
            rw [writeTok_s_eq]
            by_cases c1 : (!w.hs.s.on) = true
            · simp [c1] at hok
            · by_cases c2 : w.acc.length + S.pubLen + (if w.hs.sym.hasKey = true then 16 else 0) > cap
              · simp [c1, c2] at hok
              · simp only [c1, c2, ↓reduceIte, Bool.false_eq_true] at h0 hok ⊢
                have h0' := List.append_cancel_left h0
                rcases sym_encrypt_keyed S w.hs.sym w.hs.s.val.pub (cap - w.acc.length) hk with
                  ⟨hn, _, a2, a3⟩ | ⟨b1, _⟩
                · exact ⟨a2, by rw [← h0', a3], hn⟩
                · obtain ⟨c, hc⟩ := (toUnit_ok _).mp hok
                  exact absurd hc (b1 c)
          obtain ⟨hs1, hs2, hs3⟩ := hsym
          have hk' : (writeTok S cap w .s).2.hs.sym.hasKey = true := by rw [hkey]; simpa [tokKeyed] using hk
          obtain ⟨m, hm1, hm2, hm3, hm4⟩ := ih (writeTok S cap w .s).2
            (by rw [hfr.isPsk]; simpa [tokKeyed, seenAfter] using hp2) hk'
          rw [hfr.s, hs1] at hm2 hm3 hm4
          refine ⟨m + 1, by simp only [sPre]; omega, ?_, ?_, ?_⟩
          · rw [hs2]
            simp only [List.map_cons, List.map_nil, List.cons_append, List.nil_append, preEnc, hm2]
            rw [List.range_succ_eq_map, List.map_cons, List.map_map]
            rfl
          · intro t ht
            cases t with
            | zero => exact hs3
            | succ t => exact hm3 t (by omega)
          · intro h1 h2
            obtain ⟨e1, e2, e3⟩ := hm4 h1 h2.right
            refine ⟨by simp only [List.length_cons]; omega, by simp only [sPre, List.length_cons]; omega, ?_⟩
            rw [e3]; rfl
        | e =>
          simp only [installsTok] at hni
          have hseen : seenAfter w.hs.isPsk .e false = true := by simp [seenAfter, hni]
          have hk' : (writeTok S cap w .e).2.hs.sym.hasKey = true := by rw [hkey]; simp [tokKeyed, hk]
          rw [hseen] at hp2
          have hq := toksG_quiet S cap ts (writeTok S cap w .e).2 true
            (by rw [hfr.isPsk, hk']; simpa [tokKeyed, hk] using hp2) (Or.inr rfl)
          rw [preEnc_map_ev_append _ _ (tokEv_noEnc S cap w .e (by simp))]
          refine ⟨0, Nat.zero_le _, hq.1, fun t ht => absurd ht (by omega), fun h1 h2 => ?_⟩
          have := hq.2 h1 h2.right
          rw [hk'] at this
          cases this
        | psk n => simp [installsTok] at hni
        | ee => simp [installsTok] at hni
        | es => simp [installsTok] at hni
        | se => simp [installsTok] at hni
        | ss => simp [installsTok] at hni
    · rw [toksG_cons_fail S cap t ts w hok, writeToks_cons_fail S cap t ts w hok]
      exact ⟨0, Nat.zero_le _, rfl, fun t ht => absurd ht (by omega), fun h => absurd h hok⟩

end SnowVerif.C06
