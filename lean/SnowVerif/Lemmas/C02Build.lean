/-
  C02, builder part: facts about the states `Model.build` returns that are needed to show that two
  matching configurations yield `C02.Consistent` parties.

  * table facts (complete enumeration of `Generated.Pattern`): the specification's key record after
    the pre-messages is exactly what the prerequisite table `need_known_remote_pubkey` says; a
    non-empty pre-message means the key is demanded; the base messages have at most 28 fields;
  * `premix` (the pre-message `mix_hash` loop) depends on the key only if the pre-message is non-empty;
  * `StaticsOk` from the prerequisite check, through the modifier loop (which adds only `psk` tokens);
  * `totalFields` of the token lists `handshakeTokens` returns.
-/
import SnowVerif.Theorems.C02
import SnowVerif.Theorems.C12

namespace SnowVerif.Lemmas.C02Build
open SnowVerif SnowVerif.Model SnowVerif.Model.HS SnowVerif.Generated SnowVerif.Bytes
open SnowVerif.Lemmas.C12 SnowVerif.Theorems
set_option linter.unusedVariables false
set_option linter.unusedSimpArgs false

/-! ### Table facts -/

/-- The key record after both pre-messages of a table pattern: no ephemeral key is pre-shared, the
    initiator's static key is pre-shared iff the responder's builder demands a remote static key
    (`need_known_remote_pubkey(responder)`), and symmetrically. -/
theorem preKeys_table (p : Pattern) :
    C02.preKeys p.tokens =
      some { iS := needKnownRemote p false, rS := needKnownRemote p true } := by
  cases p <;> decide

/-- A non-empty pre-message of the responder means the initiator must know the responder's static
    key, and symmetrically. -/
theorem pre_nonempty_table (p : Pattern) :
    (p.tokens.preR ≠ [] → needKnownRemote p true = true) ∧
    (p.tokens.preI ≠ [] → needKnownRemote p false = true) := by
  cases p <;> decide

/-- The base table: at most 28 "fields" (tokens plus one payload per message) per pattern. -/
theorem totalFields_table (p : Pattern) : totalFields p.tokens.msgs ≤ 28 := by
  cases p <;> decide

/-! ### The modifier loop -/

/-- The instance `handshakeTokens` returns: pre-messages of the table, messages in both closed
    forms (the model's `withPsks` and the specification's `placed`). -/
theorem inst_forms (p : Pattern) (mods : List Modifier) (inst : Inst)
    (h : handshakeTokens p mods = .ok inst) :
    inst = withPsks p.tokens mods ∧ inst = Spec.placed p.tokens mods ∧
    inst.preI = p.tokens.preI ∧ inst.preR = p.tokens.preR := by
  have h1 : inst = withPsks p.tokens mods := by
    unfold handshakeTokens at h
    exact ((C12.applyModifiers_ok_iff _ _ _ (base_shape p).2.2.1).mp h).2
  have h2 : inst = Spec.placed p.tokens mods := ((C01Patterns.handshakeTokens_ok_iff p mods inst).mp h).2
  refine ⟨h1, h2, ?_, ?_⟩ <;> rw [h1] <;> rfl

/-- The key record after the pre-messages, for every instance `handshakeTokens` returns. -/
theorem preKeys_inst (p : Pattern) (mods : List Modifier) (inst : Inst)
    (h : handshakeTokens p mods = .ok inst) :
    C02.preKeys inst = some { iS := needKnownRemote p false, rS := needKnownRemote p true } := by
  obtain ⟨_, _, h1, h2⟩ := inst_forms p mods inst h
  rw [← preKeys_table p]
  unfold C02.preKeys
  rw [h1, h2]

/-- Each accepted modifier adds exactly one token. -/
theorem totalFields_modify (f : List Tok → List Tok) (hf : ∀ m, (f m).length = m.length + 1) :
    ∀ (ms : List (List Tok)) (i : Nat), i < ms.length →
      totalFields (ms.modify i f) = totalFields ms + 1 := by
  intro ms
  induction ms with
  | nil => intro i hi; simp at hi
  | cons m ms ih =>
    intro i hi
    cases i with
    | zero => simp only [List.modify_zero_cons, totalFields, hf]; omega
    | succ j =>
      simp only [List.modify_succ_cons, totalFields]
      rw [ih j (by simpa using hi)]; omega

/-- The modifier loop adds exactly one token per modifier. -/
theorem totalFields_applyModifiers (mods : List Modifier) :
    ∀ (i i' : Inst), applyModifiers i mods = .ok i' →
      totalFields i'.msgs = totalFields i.msgs + mods.length := by
  induction mods with
  | nil => intro i i' h; simp only [applyModifiers, Res.ok.injEq] at h; subst h; simp
  | cons m rest ih =>
    intro i i' h
    cases m with
    | fallback => simp [applyModifiers] at h
    | psk n =>
      simp only [applyModifiers, applyPsk_eq] at h
      by_cases hn : n - 1 < i.msgs.length
      · simp only [hn, ↓reduceIte] at h
        rw [ih _ _ h]
        simp only
        rw [totalFields_modify _ (by intro m; split <;> simp) _ _ hn]
        simp only [List.length_cons]; omega
      · simp [hn] at h

/-- **Number of fields of any instance `handshakeTokens` returns**: those of the table pattern
    (at most 28) plus one per modifier. -/
theorem totalFields_inst (p : Pattern) (mods : List Modifier) (inst : Inst)
    (h : handshakeTokens p mods = .ok inst) :
    totalFields inst.msgs = totalFields p.tokens.msgs + mods.length ∧
    totalFields inst.msgs ≤ 28 + mods.length := by
  have h1 := totalFields_applyModifiers mods _ _ h
  have h2 := totalFields_table p
  exact ⟨h1, by omega⟩

/-- Every `psk n` token of the instance was put there by a `psk n` modifier. -/
theorem psk_tok_from_mod (p : Pattern) (mods : List Modifier) (inst : Inst)
    (h : handshakeTokens p mods = .ok inst) (m : List Tok) (hm : m ∈ inst.msgs) (n : Nat)
    (hn : Tok.psk n ∈ m) : Modifier.psk n ∈ mods := by
  obtain ⟨h1, _, _, _⟩ := inst_forms p mods inst h
  subst h1
  have hno := (base_shape p).2.2.2.2
  obtain ⟨i, hi, rfl⟩ := List.mem_iff_getElem.mp hm
  have hi' : i < p.tokens.msgs.length := by simpa using hi
  rw [withPsks_getElem p.tokens mods i hi'] at hn
  simp only [List.mem_append] at hn
  rcases hn with (hn | hn) | hn
  · unfold frontToks at hn
    split at hn
    · simp only [List.mem_replicate, Tok.psk.injEq] at hn
      obtain ⟨hc, rfl⟩ := hn
      exact List.count_pos_iff.mp (Nat.pos_of_ne_zero hc)
    · simp at hn
  · exact absurd hn (hno _ (List.getElem_mem hi') n)
  · simp only [backToks, List.mem_replicate, Tok.psk.injEq] at hn
    obtain ⟨hc, rfl⟩ := hn
    exact List.count_pos_iff.mp (Nat.pos_of_ne_zero hc)

/-! ### Static keys are there wherever a party sends `s` -/

/-- If the initiator (`aOn`) / the responder (`bOn`) has a static key whenever `s` occurs in a
    message it writes (messages numbered from `i`), the `StaticsOk` premise of the honest-run
    theorem holds. -/
theorem staticsOk_of_writesS (aOn bOn : Bool) :
    ∀ (ms : List (List Tok)) (i : Nat),
      (writesS true i ms = true → aOn = true) → (writesS false i ms = true → bOn = true) →
      StaticsOk (i % 2 == 0) ms aOn bOn := by
  intro ms
  induction ms with
  | nil => intro i _ _; cases (i % 2 == 0) <;> simp [StaticsOk]
  | cons m ms ih =>
    intro i ha hb
    have ih' := ih (i + 1)
      (fun h => ha (by simp only [writesS, h, Bool.or_true]))
      (fun h => hb (by simp only [writesS, h, Bool.or_true]))
    cases hpar : (i % 2 == 0) with
    | true =>
      have hn : ((i + 1) % 2 == 0) = false := by
        simp only [beq_iff_eq] at hpar; simp only [beq_eq_false_iff_ne]; omega
      rw [hn] at ih'
      simp only [StaticsOk]
      refine ⟨fun hs => ha ?_, ih'⟩
      have hc : m.contains Tok.s = true := by simpa using hs
      simp only [writesS, writes, hpar, hasS, hc, beq_self_eq_true, Bool.and_self, Bool.true_or]
    | false =>
      have hn : ((i + 1) % 2 == 0) = true := by
        simp only [beq_eq_false_iff_ne] at hpar; simp only [beq_iff_eq]; omega
      rw [hn] at ih'
      simp only [StaticsOk]
      refine ⟨fun hs => hb ?_, ih'⟩
      have hc : m.contains Tok.s = true := by simpa using hs
      simp only [writesS, writes, hpar, hasS, hc, beq_self_eq_true, Bool.and_self, Bool.true_or]

/-- The tokens the modifiers add to a message are `psk` tokens, never `s`. -/
theorem mem_s_placeMsg (mods : List Modifier) (k : Nat) (m : List Tok) :
    Tok.s ∈ Spec.placeMsg mods k m ↔ Tok.s ∈ m := by
  unfold Spec.placeMsg
  split <;> simp [List.mem_append, List.mem_replicate]

/-- The modifiers add only `psk` tokens: who has to send `s` when is unchanged. -/
theorem staticsOk_placeFrom (mods : List Modifier) (aOn bOn : Bool) :
    ∀ (ms : List (List Tok)) (k : Nat) (ini : Bool),
      StaticsOk ini (Spec.placeFrom mods k ms) aOn bOn ↔ StaticsOk ini ms aOn bOn := by
  intro ms
  induction ms with
  | nil => intro k ini; cases ini <;> simp [Spec.placeFrom, StaticsOk]
  | cons m ms ih =>
    intro k ini
    cases ini <;> simp only [Spec.placeFrom, StaticsOk, mem_s_placeMsg, ih]

/-- **Wherever a message of the instance makes a party send `s`, that party's builder demanded
    the local static key** (so a successful `build` has it). -/
theorem staticsOk_inst (p : Pattern) (mods : List Modifier) (inst : Inst)
    (h : handshakeTokens p mods = .ok inst) (aOn bOn : Bool)
    (ha : needsLocalStatic p true = true → aOn = true)
    (hb : needsLocalStatic p false = true → bOn = true) :
    StaticsOk true inst.msgs aOn bOn := by
  obtain ⟨_, h2, _, _⟩ := inst_forms p mods inst h
  subst h2
  show StaticsOk true (Spec.placeFrom mods 0 p.tokens.msgs) aOn bOn
  rw [staticsOk_placeFrom]
  refine staticsOk_of_writesS aOn bOn p.tokens.msgs 0 (fun hw => ha ?_) (fun hw => hb ?_)
  · rw [(prereq_tables_eq_derived p true).1]; simp only [derivedNeedsLocalStatic, hw, Bool.or_true]
  · rw [(prereq_tables_eq_derived p false).1]; simp only [derivedNeedsLocalStatic, hw, Bool.or_true]

/-! ### The pre-message loop -/

/-- The pre-message loop depends on the key only if the pre-message is non-empty. -/
theorem premix_congr (S : Suite) (k1 k2 : Bytes) (toks : List Tok) (sym : Sym)
    (h : toks ≠ [] → k1 = k2) : premix S k1 toks sym = premix S k2 toks sym := by
  cases toks with
  | nil => rfl
  | cons t ts => rw [h (by simp)]

/-- What `build` checked, for a successful `build`: the state is `builtState`, and both
    prerequisite checks passed. -/
theorem build_ok_facts (S : Suite) (av : Avail) (c : BuildCfg) (hs : HS) (h : build S av c = .ok hs) :
    hs = builtState S c ∧
    (needsLocalStatic c.pattern c.initiator = true → c.s.isSome = true) ∧
    (needKnownRemote c.pattern c.initiator = true → c.rs.isSome = true) := by
  refine ⟨build_ok_state S av c hs h, ?_, ?_⟩
  · rcases build_classify S av c with h' | h' | h' | h' | h' | h' | h' | h' | h' | h'
    all_goals first | exact h'.1 | (rw [h] at h'; exact absurd h'.2 (by simp))
  · rcases build_classify S av c with h' | h' | h' | h' | h' | h' | h' | h' | h' | h'
    all_goals first | exact h'.2.1 | (rw [h] at h'; first | exact absurd h'.2 (by simp) | exact absurd h'.2.2 (by simp))

/-! ### Pre-shared static keys -/

/-- A party built with static key `k` and a peer built with `rs = pubOf k`: the peer holds the
    party's public key. -/
theorem keyOk_built (S : Suite) (c1 c2 : BuildCfg) (k : Bytes) (h1 : c1.s = some k)
    (h2 : c2.rs = some (S.pubOf k)) : KeyOk S (builtS S c1) (builtRs S c2) := by
  unfold builtS builtRs
  rw [h1, h2]
  exact ⟨rfl, rfl, rfl, rfl⟩

/-- `rs[..pub_len]` of a correctly pre-shared key is the whole public key. -/
theorem take_of_keyOk (S : Suite) (hPL : S.PubLen) (kp : Toggle KeyPair) (peer : Toggle Bytes)
    (h : KeyOk S kp peer) : peer.val.take S.pubLen = kp.val.pub := by
  have hl : kp.val.pub.length = S.pubLen := by rw [h.pub]; exact hPL _
  rw [h.val, ← hl, List.take_length]

/-- The symmetric state of a built party is in its initial key-less condition. -/
theorem symInv_built (S : Suite) (c : BuildCfg) : SymInv (builtState S c).sym := by
  obtain ⟨_, _, h3, h4⟩ := premixBoth_fields S c (builtS S c).val.pub ((builtRs S c).val.take S.pubLen)
  unfold SymInv
  show (∀ key, (premixBoth S c _ _).k = some key → _) ∧ ((premixBoth S c _ _).hasKey = true → _)
  rw [h3, h4]
  simp

/-- `PartyOk` of a built party: a supplied static key and a fixed ephemeral key carry the public
    key derived from the private key (a static key that was not supplied is off). -/
theorem partyOk_built (S : Suite) (c : BuildCfg) : PartyOk S (builtState S c) := by
  refine ⟨symInv_built S c, ?_, ?_⟩
  · show (builtS S c).on = true → (builtS S c).val.pub = S.pubOf (builtS S c).val.priv
    unfold builtS; cases c.s <;> simp
  · show c.eFixed.isSome = true → (builtE S c).val.pub = S.pubOf (builtE S c).val.priv
    unfold builtE; cases c.eFixed <;> simp

end SnowVerif.Lemmas.C02Build
