/-
  Noise revision 34, section 7.3 "Handshake pattern validity" and section 9
  "Pre-shared symmetric keys" (placement of the `psk` token by the `pskN`
  modifiers, section 9.4, and the validity rule for `psk`, section 9.3), as decidable
  predicates / functions on pattern instances `Inst`.

  Messages alternate, the initiator writes the first one (`msgs[0]`, "message 1").

  What is implemented (all four rules of 7.3, plus 9.3):

    (1) DH only between keys that are there: `ee/es/se/ss` may occur only when the two
        public keys involved (first letter: the initiator's `e`/`s`, second letter: the
        responder's) have been sent in an earlier token or pre-shared in a pre-message.
    (2) Nobody sends its `e` or its `s` twice (pre-messages included).
    (3) Each of `ee, es, se, ss` occurs at most once.
    (4) After a DH with its own static key a party must not call ENCRYPT unless it has also
        done the corresponding DH with its own ephemeral key:
          initiator: `se` needs `ee`, `ss` needs `es`;
          responder: `es` needs `ee`, `ss` needs `se`.
        Checked wherever the sender encrypts: at every `s` token it sends, at the payload at
        the end of every message it sends, and for the transport payloads after the handshake
        (for both parties, except that after a one-message (one-way) pattern only the initiator
        ever sends).
    (9.3) A party may not send encrypted data (an `s` token, a handshake payload, a transport
        payload) after a `psk` token has been processed unless it has sent an `e` token in this
        handshake (before or after the `psk`).
  plus the shape facts: pre-messages are one of `[]`, `e`, `s`, `e, s`; between 1 and 4 messages.
-/
import SnowVerif.Tok

namespace SnowVerif
namespace Spec

/-! ## Section 7.3, rules 1 to 4 -/

/-- What has happened so far in a pattern: which public keys have been sent or pre-shared
    (`iE`: the initiator's ephemeral, `iS`: the initiator's static, `rE`, `rS`: the responder's),
    and which DHs have been performed. -/
structure Keys where
  iE : Bool := false
  iS : Bool := false
  rE : Bool := false
  rS : Bool := false
  ee : Bool := false
  es : Bool := false
  se : Bool := false
  ss : Bool := false
  deriving DecidableEq, Repr

namespace Keys

/-- Rule 4: may this party call ENCRYPT now? -/
def mayEncrypt (initiator : Bool) (k : Keys) : Bool :=
  if initiator then (!k.se || k.ee) && (!k.ss || k.es)
  else (!k.es || k.ee) && (!k.ss || k.se)

/-- One token sent by the initiator (`initiator = true`) or the responder; `none` = a rule is
    violated. `psk` tokens do not concern rules 1 to 4. -/
def step (initiator : Bool) (k : Keys) : Tok → Option Keys
  | .e =>
    if initiator then (if k.iE then none else some { k with iE := true })              -- rule 2
    else (if k.rE then none else some { k with rE := true })
  | .s =>
    if !k.mayEncrypt initiator then none                                              -- rule 4
    else if initiator then (if k.iS then none else some { k with iS := true })         -- rule 2
    else (if k.rS then none else some { k with rS := true })
  | .ee => if k.iE && k.rE && !k.ee then some { k with ee := true } else none          -- rules 1, 3
  | .es => if k.iE && k.rS && !k.es then some { k with es := true } else none
  | .se => if k.iS && k.rE && !k.se then some { k with se := true } else none
  | .ss => if k.iS && k.rS && !k.ss then some { k with ss := true } else none
  | .psk _ => some k

/-- A token list (a pre-message, or the tokens of a message) sent by one party. -/
def runToks (initiator : Bool) : Keys → List Tok → Option Keys
  | k, [] => some k
  | k, t :: ts => (k.step initiator t).bind fun k' => runToks initiator k' ts

/-- A message: its tokens, then the (possibly encrypted) payload. -/
def runMsg (initiator : Bool) (k : Keys) (m : List Tok) : Option Keys :=
  (k.runToks initiator m).bind fun k' => if k'.mayEncrypt initiator then some k' else none

/-- The messages, senders alternating. -/
def runMsgs : Bool → Keys → List (List Tok) → Option Keys
  | _, k, [] => some k
  | initiator, k, m :: ms => (k.runMsg initiator m).bind fun k' => runMsgs (!initiator) k' ms

end Keys

/-- "pre-message patterns: `e`, `s`, `e, s`, or empty" (section 7.1). -/
def premsgOk (l : List Tok) : Bool :=
  l == [] || l == [.e] || l == [.s] || l == [.e, .s]

/-- Rules 1 to 4 of section 7.3 for a whole pattern, transport phase included. -/
def dhRules (i : Inst) : Bool :=
  premsgOk i.preI && premsgOk i.preR &&
  match (((Keys.runToks true {} i.preI).bind fun k => Keys.runToks false k i.preR).bind
          fun k => Keys.runMsgs true k i.msgs) with
  | none => false
  | some k => k.mayEncrypt true && (i.msgs.length < 2 || k.mayEncrypt false)

/-! ## Section 9.3: validity rule for `psk` -/

/-- Has a `psk` token been processed; has the initiator / the responder sent an `e` token. -/
structure PskSt where
  psk : Bool := false
  eI : Bool := false
  eR : Bool := false
  deriving DecidableEq, Repr

namespace PskSt

def mayEncrypt (initiator : Bool) (st : PskSt) : Bool :=
  !st.psk || (if initiator then st.eI else st.eR)

def sentE (initiator : Bool) (st : PskSt) : PskSt :=
  if initiator then { st with eI := true } else { st with eR := true }

/-- The tokens of one message, then its payload. -/
def runMsg (initiator : Bool) : PskSt → List Tok → Option PskSt
  | st, [] => if st.mayEncrypt initiator then some st else none          -- the payload
  | st, .e :: ts => runMsg initiator (st.sentE initiator) ts
  | st, .s :: ts => if st.mayEncrypt initiator then runMsg initiator st ts else none
  | st, .psk _ :: ts => runMsg initiator { st with psk := true } ts
  | st, _ :: ts => runMsg initiator st ts

def runMsgs : Bool → PskSt → List (List Tok) → Option PskSt
  | _, st, [] => some st
  | initiator, st, m :: ms => (st.runMsg initiator m).bind fun st' => runMsgs (!initiator) st' ms

end PskSt

/-- Section 9.3 for a whole pattern, transport phase included. -/
def pskRule (i : Inst) : Bool :=
  match PskSt.runMsgs true {} i.msgs with
  | none => false
  | some st => st.mayEncrypt true && (i.msgs.length < 2 || st.mayEncrypt false)

/-! ## Validity -/

/-- A pattern (possibly with `psk` tokens) is valid. -/
def valid (i : Inst) : Bool :=
  decide (1 ≤ i.msgs.length) && decide (i.msgs.length ≤ 4) && dhRules i && pskRule i

/-- Prop form. -/
def Valid (i : Inst) : Prop := valid i = true

instance (i : Inst) : Decidable (Valid i) := by unfold Valid; infer_instance

def isPsk : Tok → Bool
  | .psk _ => true
  | _ => false

/-- An unmodified pattern: no `psk` token anywhere. -/
def noPsk (i : Inst) : Bool := i.msgs.all fun m => m.all fun t => !isPsk t

/-- Every message up to the second one starts with the sender's `e`
    (true of all 38 patterns of revision 34; not a rule of section 7.3). -/
def startsWithE (i : Inst) : Bool :=
  (i.msgs.take 2).all fun m => m.head? == some .e

/-! ## Section 9.4: the `pskN` modifiers

  "`psk0` places a `psk` token at the beginning of the first handshake message; `psk1` places
  a `psk` token at the end of the first handshake message; `psk2` ... at the end of the second
  handshake message", and so on.  A `pskN` with `N` larger than the number of messages has no
  place to go. The token carries its `N` (as in snow), which selects the key. -/

/-- Append `t` to message number `k` (0-based) if there is one. -/
def appendAt : List (List Tok) → Nat → Tok → Option (List (List Tok))
  | [], _, _ => none
  | m :: ms, 0, t => some ((m ++ [t]) :: ms)
  | m :: ms, k + 1, t => (appendAt ms k t).map (m :: ·)

/-- One `pskN` modifier. -/
def applyPsk (i : Inst) : Nat → Option Inst
  | 0 =>
    match i.msgs with
    | [] => none
    | m :: ms => some { i with msgs := (Tok.psk 0 :: m) :: ms }
  | n + 1 => (appendAt i.msgs n (.psk (n + 1))).map fun ms => { i with msgs := ms }

/-- A list of modifiers; only `pskN` are defined here (the `fallback` modifier of section 10
    belongs to compound protocols, which neither this table nor snow has). -/
def applyModifiers (i : Inst) : List Modifier → Option Inst
  | [] => some i
  | .psk n :: rest => (applyPsk i n).bind fun i' => applyModifiers i' rest
  | .fallback :: _ => none

/-- Does `pskN` have a place in a pattern of `len` messages? -/
def fits (len n : Nat) : Bool := decide (1 ≤ len) && decide (n ≤ len)

/-- All modifiers are `pskN` that have a place. -/
def allFit (len : Nat) (mods : List Modifier) : Bool :=
  mods.all fun m => match m with | .psk n => fits len n | .fallback => false

/-! ### The same placement in closed form (independent of the order of the modifiers) -/

/-- Message number `k` (0-based) after all modifiers: one `psk0` in front of message 0 per
    `psk0` modifier, one `psk(k+1)` at the end per `psk(k+1)` modifier. -/
def placeMsg (mods : List Modifier) (k : Nat) (m : List Tok) : List Tok :=
  (if k = 0 then List.replicate (mods.count (.psk 0)) (Tok.psk 0) else []) ++ m ++
    List.replicate (mods.count (.psk (k + 1))) (Tok.psk (k + 1))

def placeFrom (mods : List Modifier) : Nat → List (List Tok) → List (List Tok)
  | _, [] => []
  | k, m :: ms => placeMsg mods k m :: placeFrom mods (k + 1) ms

def placed (i : Inst) (mods : List Modifier) : Inst :=
  { i with msgs := placeFrom mods 0 i.msgs }

end Spec
end SnowVerif
