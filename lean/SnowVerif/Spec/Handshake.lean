/-
  Transcription of the Noise Protocol Framework specification, revision 34, section 5.3
  (the HandshakeState object: `Initialize`, `WriteMessage`, `ReadMessage`) together with the
  `psk` token and the psk-mode treatment of `e` of section 9.2, as pure functions over values:
  no buffers, no capacities, no checkpoints, no continuation after an error.

  Independent of `Model.*` (it only uses the suite, the token type and `Spec/Crypto.lean`).

  Conventions.
  * `none` is the specification's "signals an error" (a DH/decryption failure, a key or psk the
    pattern needs and the party does not have, a message that ends inside a field), after which
    the specification defines no continuation.
  * `GENERATE_KEYPAIR()` is the only non-deterministic step of the specification; the key pair it
    returns is a parameter (`eph`) of `writeMessage`.
  * `DHLEN` is `S.pubLen` (public keys and DH outputs have the same length in Noise; only the
    length of a transmitted public key matters here).
  * The parenthetical "(which must be empty)" on `e`, `re`, `rs` is a property of valid patterns
    (section 7.3: a party sends each of its keys at most once), not an error the functions
    signal; it is not checked here.
  * snow supports several pre-shared keys: the token `psk n` uses the `n`-th configured key
    (the specification's text has a single `psk`; its `pskN` modifiers place the token, see
    `Spec/Validity.lean`).
-/
import SnowVerif.Spec.Crypto
import SnowVerif.Tok

namespace SnowVerif.Spec
open SnowVerif Bytes

/-- A DH key pair (section 4.1): private key and public key. -/
structure KeyPair where
  priv : Bytes
  pub  : Bytes
  deriving DecidableEq, Repr

/-- Section 5.3: the variables of a HandshakeState. `msgs` is `message_patterns` (the message
    patterns not yet processed); `psks`/`isPsk` are the pre-shared keys and "this is a PSK
    handshake" of section 9. -/
structure HandshakeState where
  ss        : SymmetricState
  s         : Option KeyPair
  e         : Option KeyPair
  rs        : Option Bytes
  re        : Option Bytes
  initiator : Bool
  msgs      : List (List Tok)
  psks      : List (Option Bytes)
  isPsk     : Bool
  deriving DecidableEq, Repr

namespace HandshakeState

/-- `HasKey()` of the embedded CipherState. -/
def hasKey (hs : HandshakeState) : Bool := hs.ss.cs.k.isSome

/-! ### `Initialize` -/

/-- The public keys a pre-message pattern lists, in order, given the public keys (`s`, `e`) of
    the party the pre-message belongs to; `none` if a listed key is not available (or the token
    is not a pre-message token). The flag says whether the key is an ephemeral one. -/
def preKeys (s e : Option Bytes) : List Tok → Option (List (Bytes × Bool))
  | [] => some []
  | t :: ts =>
    let k : Option (Bytes × Bool) :=
      match t with
      | .s => s.map fun x => (x, false)
      | .e => e.map fun x => (x, true)
      | _ => none
    match k, preKeys s e ts with
    | some x, some xs => some (x :: xs)
    | _, _ => none

/-- "Calls `MixHash()` once for each public key listed in the pre-messages"; section 9.2: in a
    PSK handshake the `MixHash(e.public_key)` of an `e` token, pre-messages included, is followed
    by `MixKey(e.public_key)`. -/
def mixPre (S : Suite) (isPsk : Bool) (ss : SymmetricState) : List (Bytes × Bool) → SymmetricState
  | [] => ss
  | (k, isE) :: ks =>
    let ss1 := ss.mixHash S k
    mixPre S isPsk (if isE && isPsk then ss1.mixKey S k else ss1) ks

/-- `Initialize(handshake_pattern, initiator, prologue, s, e, rs, re)` (`initialize` is a Lean keyword):
    `InitializeSymmetric(protocol_name)`, `MixHash(prologue)`, then `MixHash` of each pre-message
    public key, the initiator's pre-message first, each in the listed order. -/
def init (S : Suite) (name prologue : Bytes) (pattern : Inst) (isPsk : Bool) (initiator : Bool)
    (s e : Option KeyPair) (rs re : Option Bytes) (psks : List (Option Bytes)) : Option HandshakeState :=
  let ss0 := (SymmetricState.init S name).mixHash S prologue
  let own := (s.map (·.pub), e.map (·.pub))
  let peer := (rs, re)
  let ini := if initiator then own else peer
  let rsp := if initiator then peer else own
  match preKeys ini.1 ini.2 pattern.preI, preKeys rsp.1 rsp.2 pattern.preR with
  | some a, some b =>
    some { ss := mixPre S isPsk (mixPre S isPsk ss0 a) b, s := s, e := e, rs := rs, re := re,
           initiator := initiator, msgs := pattern.msgs, psks := psks, isPsk := isPsk }
  | _, _ => none

/-! ### Tokens common to `WriteMessage` and `ReadMessage` -/

/-- The operands of the DH of a token: `ee`: `DH(e, re)`; `es`: `DH(e, rs)` if initiator,
    `DH(s, re)` if responder; `se`: `DH(s, re)` if initiator, `DH(e, rs)` if responder;
    `ss`: `DH(s, rs)`. -/
def dhOperands (hs : HandshakeState) : Tok → Option (Option KeyPair × Option Bytes)
  | .ee => some (hs.e, hs.re)
  | .es => some (if hs.initiator then (hs.e, hs.rs) else (hs.s, hs.re))
  | .se => some (if hs.initiator then (hs.s, hs.re) else (hs.e, hs.rs))
  | .ss => some (hs.s, hs.rs)
  | _ => none

/-- `DH(key_pair, public_key)` for a DH token; `none` if an operand is missing or the DH
    function signals an error. -/
def dh (S : Suite) (hs : HandshakeState) (t : Tok) : Option Bytes :=
  match dhOperands hs t with
  | some (some kp, some pk) => S.dh kp.priv pk
  | _ => none

/-- `ee`, `es`, `se`, `ss`: `MixKey(DH(...))`. -/
def dhTok (S : Suite) (hs : HandshakeState) (t : Tok) : Option HandshakeState :=
  match dh S hs t with
  | some out => some { hs with ss := hs.ss.mixKey S out }
  | none => none

/-- `psk` (section 9.2): `MixKeyAndHash(psk)`. -/
def pskTok (S : Suite) (hs : HandshakeState) (n : Nat) : Option HandshakeState :=
  match hs.psks.getD n none with
  | some psk => some { hs with ss := hs.ss.mixKeyAndHash S psk }
  | none => none

/-- `MixHash(e.public_key)`, in a PSK handshake followed by `MixKey(e.public_key)`. -/
def mixE (S : Suite) (hs : HandshakeState) (pub : Bytes) : SymmetricState :=
  let ss1 := hs.ss.mixHash S pub
  if hs.isPsk then ss1.mixKey S pub else ss1

/-! ### `WriteMessage` -/

/-- One token of `WriteMessage`: the bytes appended to the buffer and the new state. -/
def writeTok (S : Suite) (eph : KeyPair) (hs : HandshakeState) : Tok → Option (Bytes × HandshakeState)
  | .e => some (eph.pub, { hs with e := some eph, ss := mixE S hs eph.pub })
  | .s =>
    match hs.s with
    | some kp =>
      let r := hs.ss.encryptAndHash S kp.pub
      some (r.1, { hs with ss := r.2 })
    | none => none
  | .psk n => (pskTok S hs n).map fun hs' => ([], hs')
  | t => (dhTok S hs t).map fun hs' => ([], hs')

/-- "sequentially processes each token from the message pattern". -/
def writeToks (S : Suite) (eph : KeyPair) : List Tok → HandshakeState → Option (Bytes × HandshakeState)
  | [], hs => some ([], hs)
  | t :: ts, hs =>
    match writeTok S eph hs t with
    | none => none
    | some (b, hs1) =>
      match writeToks S eph ts hs1 with
      | none => none
      | some (bs, hs2) => some (b ++ bs, hs2)

/-- `WriteMessage(payload, message_buffer)`: fetch and delete the next message pattern, process
    its tokens, append `EncryptAndHash(payload)`; if there are no more message patterns, also
    return `Split()`. Result: the message, the new state, the pair of CipherStates if any. -/
def writeMessage (S : Suite) (hs : HandshakeState) (payload : Bytes) (eph : KeyPair) :
    Option (Bytes × HandshakeState × Option (CipherState × CipherState)) :=
  match hs.msgs with
  | [] => none
  | m :: rest =>
    match writeToks S eph m hs with
    | none => none
    | some (buf, hs1) =>
      let r := hs1.ss.encryptAndHash S payload
      some (buf ++ r.1, { hs1 with ss := r.2, msgs := rest },
            if rest.isEmpty then some (r.2.split S) else none)

/-- `HasKey()` at the moment `WriteMessage` processes the payload ("is the payload encrypted"). -/
def writePayloadEncrypted (S : Suite) (hs : HandshakeState) (eph : KeyPair) : Option Bool :=
  match hs.msgs with
  | [] => none
  | m :: _ => (writeToks S eph m hs).map fun r => r.2.hasKey

/-! ### `ReadMessage` -/

/-- One token of `ReadMessage` on the unread rest of the message: the new state and the rest. -/
def readTok (S : Suite) (hs : HandshakeState) (msg : Bytes) : Tok → Option (HandshakeState × Bytes)
  | .e =>
    if msg.length < S.pubLen then none
    else
      let re := msg.take S.pubLen
      some ({ hs with re := some re, ss := mixE S hs re }, msg.drop S.pubLen)
  | .s =>
    let len := S.pubLen + (if hs.hasKey then 16 else 0)
    if msg.length < len then none
    else
      match hs.ss.decryptAndHash S (msg.take len) with
      | some (pk, ss') => some ({ hs with rs := some pk, ss := ss' }, msg.drop len)
      | none => none
  | .psk n => (pskTok S hs n).map fun hs' => (hs', msg)
  | t => (dhTok S hs t).map fun hs' => (hs', msg)

def readToks (S : Suite) : List Tok → HandshakeState → Bytes → Option (HandshakeState × Bytes)
  | [], hs, msg => some (hs, msg)
  | t :: ts, hs, msg =>
    match readTok S hs msg t with
    | none => none
    | some (hs1, rest) => readToks S ts hs1 rest

/-- `ReadMessage(message, payload_buffer)`: fetch and delete the next message pattern, process
    its tokens, `DecryptAndHash()` the remaining bytes; if there are no more message patterns,
    also return `Split()`. Result: the payload, the new state, the pair of CipherStates if any. -/
def readMessage (S : Suite) (hs : HandshakeState) (msg : Bytes) :
    Option (Bytes × HandshakeState × Option (CipherState × CipherState)) :=
  match hs.msgs with
  | [] => none
  | m :: rest =>
    match readToks S m hs msg with
    | none => none
    | some (hs1, rem) =>
      match hs1.ss.decryptAndHash S rem with
      | none => none
      | some (payload, ss') =>
        some (payload, { hs1 with ss := ss', msgs := rest },
              if rest.isEmpty then some (ss'.split S) else none)

end HandshakeState

/-! ### Transport messages (section 5.1 `EncryptWithAd` / `DecryptWithAd` with empty `ad`) -/

namespace CipherState

/-- `EncryptWithAd(ad, plaintext)`: `ENCRYPT(k, n++, ad, plaintext)` if `k` is non-empty,
    otherwise the plaintext. -/
def encryptWithAd (S : Suite) (cs : CipherState) (ad pt : Bytes) : Bytes × CipherState :=
  match cs.k with
  | some k => (S.enc k cs.n ad pt, { cs with n := cs.n + 1 })
  | none => (pt, cs)

/-- `DecryptWithAd(ad, ciphertext)`; `none` on authentication failure (`n` is then not
    incremented, and the specification defines no continuation). -/
def decryptWithAd (S : Suite) (cs : CipherState) (ad ct : Bytes) : Option (Bytes × CipherState) :=
  match cs.k with
  | some k =>
    match S.dec k cs.n ad ct with
    | some p => some (p, { cs with n := cs.n + 1 })
    | none => none
  | none => some (ct, cs)

/-- `Rekey()`: `k = REKEY(k)`. -/
def rekey (S : Suite) (cs : CipherState) : CipherState :=
  { cs with k := cs.k.map (Spec.rekey S) }

end CipherState
end SnowVerif.Spec
