/-
  The handshake patterns of the Noise Protocol Framework, revision 34, written
  from the SPECIFICATION (not from snow's table):

    * section 7.4  one-way patterns            N K X
    * section 7.5  fundamental interactive     NN KN NK KK NX KX XN IN XK IK XX IX
    * section 7.6  deferred                    NK1 NX1 X1N X1K XK1 X1K1 X1X XX1 X1X1
                                               K1N K1K KK1 K1K1 K1X KX1 K1X1
                                               I1N I1K IK1 I1K1 I1X IX1 I1X1

  The table is keyed by the pattern NAME (a `String`), so it does not mention
  snow's `Generated.Pattern` type at all.

  Two independent descriptions are given:

    1. `Spec.table`: the 38 listings typed in, in the order of the specification.
    2. `Spec.genOneway` / `Spec.gen`: a generator that builds the listing from the
       MEANING of the letters of the name (section 7.5: N = no static key,
       K = static key known to the peer via a pre-message, X = static key
       transmitted, I = static key transmitted immediately; section 7.6: a `1`
       after a letter defers that party's authentication DH to the next message).

  `Theorems/C01Patterns.lean` proves that 1 and 2 agree (so a typing slip in 1 or a
  misunderstanding in 2 is caught by Lean), and that snow's table equals 1.
-/
import SnowVerif.Tok

namespace SnowVerif
namespace Spec

/-! ## 1. The listings of sections 7.4, 7.5, 7.6, typed in

  Notation of the specification:
  ```
  XK:
    <- s          pre-message of the responder      (`preR`)
    ...
    -> e, es      message 1, initiator to responder (`msgs[0]`)
    <- e, ee      message 2, responder to initiator (`msgs[1]`)
    -> s, se      message 3                         (`msgs[2]`)
  ```
  `-> s` before the dots is the initiator's pre-message (`preI`). -/

/-- One row: `(name, pre-message of the initiator, pre-message of the responder, messages)`. -/
def row (name : String) (preI preR : List Tok) (msgs : List (List Tok)) : String × Inst :=
  (name, { preI := preI, preR := preR, msgs := msgs })

open Tok in
/-- The 38 handshake patterns of Noise revision 34, in the order of the specification. -/
def table : List (String × Inst) := [
  -- 7.4 one-way patterns
  row "N"    []  [s] [[e, es]],
  row "K"    [s] [s] [[e, es, ss]],
  row "X"    []  [s] [[e, es, s, ss]],
  -- 7.5 fundamental interactive patterns
  row "NN"   []  []  [[e], [e, ee]],
  row "KN"   [s] []  [[e], [e, ee, se]],
  row "NK"   []  [s] [[e, es], [e, ee]],
  row "KK"   [s] [s] [[e, es, ss], [e, ee, se]],
  row "NX"   []  []  [[e], [e, ee, s, es]],
  row "KX"   [s] []  [[e], [e, ee, se, s, es]],
  row "XN"   []  []  [[e], [e, ee], [s, se]],
  row "IN"   []  []  [[e, s], [e, ee, se]],
  row "XK"   []  [s] [[e, es], [e, ee], [s, se]],
  row "IK"   []  [s] [[e, es, s, ss], [e, ee, se]],
  row "XX"   []  []  [[e], [e, ee, s, es], [s, se]],
  row "IX"   []  []  [[e, s], [e, ee, se, s, es]],
  -- 7.6 deferred patterns
  row "NK1"  []  [s] [[e], [e, ee, es]],
  row "NX1"  []  []  [[e], [e, ee, s], [es]],
  row "X1N"  []  []  [[e], [e, ee], [s], [se]],
  row "X1K"  []  [s] [[e, es], [e, ee], [s], [se]],
  row "XK1"  []  [s] [[e], [e, ee, es], [s, se]],
  row "X1K1" []  [s] [[e], [e, ee, es], [s], [se]],
  row "X1X"  []  []  [[e], [e, ee, s, es], [s], [se]],
  row "XX1"  []  []  [[e], [e, ee, s], [es, s, se]],
  row "X1X1" []  []  [[e], [e, ee, s], [es, s], [se]],
  row "K1N"  [s] []  [[e], [e, ee], [se]],
  row "K1K"  [s] [s] [[e, es], [e, ee], [se]],
  row "KK1"  [s] [s] [[e], [e, ee, se, es]],
  row "K1K1" [s] [s] [[e], [e, ee, es], [se]],
  row "K1X"  [s] []  [[e], [e, ee, s, es], [se]],
  row "KX1"  [s] []  [[e], [e, ee, se, s], [es]],
  row "K1X1" [s] []  [[e], [e, ee, s], [se, es]],
  row "I1N"  []  []  [[e, s], [e, ee], [se]],
  row "I1K"  []  [s] [[e, es, s], [e, ee], [se]],
  row "IK1"  []  [s] [[e, s], [e, ee, se, es]],
  row "I1K1" []  [s] [[e, s], [e, ee, es], [se]],
  row "I1X"  []  []  [[e, s], [e, ee, s, es], [se]],
  row "IX1"  []  []  [[e, s], [e, ee, se, s], [es]],
  row "I1X1" []  []  [[e, s], [e, ee, s], [se, es]]
]

/-- The specification's handshake pattern of that name: pre-messages and message token lists;
    `none` when revision 34 defines no (unmodified) pattern of that name. -/
def pattern (name : String) : Option Inst := table.lookup name

/-- The names of the patterns the specification defines. -/
def names : List String := table.map (·.1)

/-! ## 2. The same patterns generated from the meaning of their names -/

/-- First letter of an interactive pattern name: the initiator's static key. -/
inductive IStatic
  | N  -- no static key for the initiator
  | K  -- static key of the initiator known to the responder (pre-message `-> s`)
  | X  -- static key of the initiator transmitted to the responder (in message 3)
  | I  -- static key of the initiator transmitted immediately (in message 1)
  deriving DecidableEq, Repr

/-- Second letter of an interactive pattern name: the responder's static key. -/
inductive RStatic
  | N  -- no static key for the responder
  | K  -- static key of the responder known to the initiator (pre-message `<- s`)
  | X  -- static key of the responder transmitted to the initiator (in message 2)
  deriving DecidableEq, Repr

/-- An interactive pattern name `a[1]b[1]`. -/
structure Shape where
  a  : IStatic
  da : Bool      -- `1` after the first letter: the initiator's authentication DH (`se`) is deferred
  b  : RStatic
  db : Bool      -- `1` after the second letter: the responder's authentication DH (`es`) is deferred
  deriving DecidableEq, Repr

namespace Shape

/-- Only an existing static key can have its DH deferred: there is no `N1`. -/
def wellNamed (s : Shape) : Bool :=
  (s.a != .N || !s.da) && (s.b != .N || !s.db)

def name (s : Shape) : String :=
  (match s.a with | .N => "N" | .K => "K" | .X => "X" | .I => "I") ++ (if s.da then "1" else "") ++
  (match s.b with | .N => "N" | .K => "K" | .X => "X") ++ (if s.db then "1" else "")

/-- Number of the message (1-based; 0 = pre-message) by whose start/within which the initiator's
    static public key is available to the responder. -/
def availSI : IStatic → Option Nat
  | .N => none | .K => some 0 | .I => some 1 | .X => some 3

/-- The same for the responder's static public key. -/
def availSR : RStatic → Option Nat
  | .N => none | .K => some 0 | .X => some 2

/-- The message in which each DH is performed.  The ephemeral keys are sent at the start of
    message 1 (initiator) and message 2 (responder).  A DH is performed in the first message in
    which both public keys involved are available, one message later if it is deferred.
    `ss` is only performed when both static keys are available in message 1, and never in a
    deferred pattern. -/
def dhAt (s : Shape) : Tok → Option Nat
  | .ee => some 2
  | .se => (availSI s.a).map fun k => max k 2 + (if s.da then 1 else 0)   -- initiator's s, responder's e
  | .es => (availSR s.b).map fun k => max k 1 + (if s.db then 1 else 0)   -- initiator's e, responder's s
  | .ss => if (s.a == .K || s.a == .I) && s.b == .K && !s.da && !s.db then some 1 else none
  | _ => none

/-- Does message `k` transmit its sender's static key? -/
def sendsS (s : Shape) (k : Nat) : Bool :=
  if k % 2 == 1 then (s.a == .I && k == 1) || (s.a == .X && k == 3) else (s.b == .X && k == 2)

/-- Does this DH involve the static key of the initiator / of the responder? -/
def usesStaticOf (initiator : Bool) : Tok → Bool
  | .se => initiator | .es => !initiator | .ss => true | _ => false

/-- Message number `k` (1-based): the ephemeral key (messages 1 and 2), then the DHs of this
    message that do not need a static key transmitted in this very message (in the order
    `ee, se, es, ss`), then the static key if it is transmitted here, then the DHs that need it. -/
def message (s : Shape) (k : Nat) : List Tok :=
  let ini := k % 2 == 1
  let here := [Tok.ee, .se, .es, .ss].filter fun d => dhAt s d == some k
  let fresh := fun d => sendsS s k && usesStaticOf ini d
  (if k ≤ 2 then [Tok.e] else []) ++ here.filter (fun d => !fresh d)
    ++ (if sendsS s k then [Tok.s] else []) ++ here.filter fresh

end Shape

/-- The interactive pattern with that name, built from the meaning of the name. -/
def gen (s : Shape) : Inst :=
  { preI := if s.a == .K then [.s] else []
    preR := if s.b == .K then [.s] else []
    msgs := ([1, 2, 3, 4].map s.message).takeWhile fun m => !m.isEmpty }

/-- First (only) letter of a one-way pattern name: the sender's static key
    (section 7.4: N = none, K = known to the recipient, X = transmitted to the recipient). -/
inductive OStatic | N | K | X
  deriving DecidableEq, Repr

def OStatic.name : OStatic → String
  | .N => "N" | .K => "K" | .X => "X"

/-- One-way patterns: the recipient's static key is always known to the sender (`<- s`); one
    message `e, es`, then the sender's static key if it is transmitted, then `ss` if the sender
    has a static key. -/
def genOneway (a : OStatic) : Inst :=
  { preI := if a == .K then [.s] else []
    preR := [.s]
    msgs := [[.e, .es] ++ (if a == .X then [.s] else []) ++ (if a != .N then [.ss] else [])] }

def allShapes : List Shape :=
  [IStatic.N, .K, .X, .I].flatMap fun a => [false, true].flatMap fun da =>
    [RStatic.N, .K, .X].flatMap fun b => [false, true].map fun db => ⟨a, da, b, db⟩

/-- Everything the generator produces: 3 one-way and 35 interactive patterns. -/
def genTable : List (String × Inst) :=
  [OStatic.N, .K, .X].map (fun a => (a.name, genOneway a)) ++
  (allShapes.filter Shape.wellNamed).map (fun s => (s.name, gen s))

/-! ## 3. Cross-check used for the deferred patterns (section 7.6)

  "The deferred pattern performs the same DHs as its fundamental counterpart, except `ss`." -/

/-- The fundamental pattern name of a deferred pattern name: drop the `1`s. -/
def fundamentalName (name : String) : String :=
  String.ofList (name.toList.filter (· != '1'))

def isDh : Tok → Bool
  | .ee | .es | .se | .ss => true
  | _ => false

/-- The DH tokens other than `ss`, in the fixed order `ee, es, se`. -/
def dhSetNoSs (i : Inst) : List Tok :=
  [Tok.ee, .es, .se].filter fun d => i.msgs.flatten.contains d

/-- The public keys each side transmits (or pre-shares). -/
def keysSent (i : Inst) : List Tok × List Tok × List Tok :=
  (i.preI, i.preR, i.msgs.flatten.filter fun t => t == .e || t == .s)

end Spec
end SnowVerif
