/-
  Transcription of the Noise Protocol Framework specification, revision 34,
  sections 4 (crypto functions) and 5.1-5.2 (CipherState, SymmetricState), as
  pure functions over an abstract suite.  Independent of `Model.*`.
-/
import SnowVerif.Suite

namespace SnowVerif.Spec
open SnowVerif Bytes

/-- RFC 2104 HMAC over the suite's hash: `H((K0 ^ opad) || H((K0 ^ ipad) || text))`, where `K0`
    is the key zero-padded to the block length (keys longer than a block are not used by Noise). -/
def hmac (S : Suite) (key data : Bytes) : Bytes :=
  let k0 := padTo S.blockLen key
  let ipad := k0.map (· ^^^ 0x36)
  let opad := k0.map (· ^^^ 0x5c)
  S.hash (opad ++ S.hash (ipad ++ data))

/-- Section 4.3 `HKDF(chaining_key, input_key_material, num_outputs)`, three outputs. -/
def hkdf (S : Suite) (ck ikm : Bytes) : Bytes × Bytes × Bytes :=
  let tempKey := hmac S ck ikm
  let o1 := hmac S tempKey [0x01]
  let o2 := hmac S tempKey (o1 ++ [0x02])
  let o3 := hmac S tempKey (o2 ++ [0x03])
  (o1, o2, o3)

/-- Section 4.2 `REKEY(k)`: the first 32 bytes of `ENCRYPT(k, 2^64-1, zerolen, zeros)`. -/
def rekey (S : Suite) (k : Bytes) : Bytes :=
  (S.enc k 0xFFFFFFFFFFFFFFFF [] (zeros 32)).take 32

/-- Section 5.1 CipherState: `k` (empty = `none`) and `n`. -/
structure CipherState where
  k : Option Bytes
  n : UInt64
  deriving DecidableEq, Repr

/-- Section 5.2 SymmetricState. -/
structure SymmetricState where
  cs : CipherState
  ck : Bytes
  h  : Bytes
  deriving DecidableEq, Repr

namespace SymmetricState

/-- `InitializeSymmetric(protocol_name)`. -/
def init (S : Suite) (name : Bytes) : SymmetricState :=
  let h := if name.length ≤ S.hashLen then padTo S.hashLen name else S.hash name
  { cs := { k := none, n := 0 }, ck := h, h := h }

def mixKey (S : Suite) (st : SymmetricState) (ikm : Bytes) : SymmetricState :=
  let o := hkdf S st.ck ikm
  { st with ck := o.1, cs := { k := some (o.2.1.take 32), n := 0 } }

def mixHash (S : Suite) (st : SymmetricState) (data : Bytes) : SymmetricState :=
  { st with h := S.hash (st.h ++ data) }

def mixKeyAndHash (S : Suite) (st : SymmetricState) (ikm : Bytes) : SymmetricState :=
  let o := hkdf S st.ck ikm
  let st1 := mixHash S { st with ck := o.1 } o.2.1
  { st1 with cs := { k := some (o.2.2.take 32), n := 0 } }

/-- `EncryptAndHash(plaintext)` (error-free path: nonce not exhausted). -/
def encryptAndHash (S : Suite) (st : SymmetricState) (pt : Bytes) : Bytes × SymmetricState :=
  match st.cs.k with
  | some k =>
    let c := S.enc k st.cs.n st.h pt
    (c, mixHash S { st with cs := { st.cs with n := st.cs.n + 1 } } c)
  | none => (pt, mixHash S st pt)

/-- `DecryptAndHash(ciphertext)`; `none` when authentication fails. -/
def decryptAndHash (S : Suite) (st : SymmetricState) (ct : Bytes) : Option (Bytes × SymmetricState) :=
  match st.cs.k with
  | some k =>
    match S.dec k st.cs.n st.h ct with
    | some p => some (p, mixHash S { st with cs := { st.cs with n := st.cs.n + 1 } } ct)
    | none => none
  | none => some (ct, mixHash S st ct)

/-- `Split()`: two CipherStates from `HKDF(ck, zerolen, 2)`. -/
def split (S : Suite) (st : SymmetricState) : CipherState × CipherState :=
  let o := hkdf S st.ck []
  ({ k := some (o.1.take 32), n := 0 }, { k := some (o.2.1.take 32), n := 0 })

end SymmetricState
end SnowVerif.Spec
