/-
  Definitions for the end-to-end integrity / agreement statements (C03, C08), on the
  *specification* (`Spec.HandshakeState`); the theorems are in `Lemmas/Integrity*.lean`, and
  `Theorems/C03.lean` / `C08.lean` carry them to the model of snow through the C01 refinement.

  The statements are reductions with explicit witnesses (DESIGN.md 3.3): "every call succeeded"
  implies that the run exhibits one of
    * `HashCollision`   two different hash inputs with one digest,
    * `KdfCoincidence`  two different (chaining key, input key material) pairs for which the same
                        output component of HKDF (new chaining key, or the 32-byte cipher key of
                        `MixKey` resp. `MixKeyAndHash`) coincides,
    * `AeadCollision`   one ciphertext that is the encryption of something under two different
                        contexts (key, nonce, associated data).
-/
import SnowVerif.Spec.Handshake

namespace SnowVerif.Spec.Integrity
open SnowVerif SnowVerif.Spec Bytes

def HashCollision (S : Suite) : Prop := ∃ x y, x ≠ y ∧ S.hash x = S.hash y

def KdfCoincidence (S : Suite) : Prop :=
  ∃ ck ikm ck' ikm', (ck, ikm) ≠ (ck', ikm') ∧
    ((hkdf S ck ikm).1 = (hkdf S ck' ikm').1 ∨
     (hkdf S ck ikm).2.1.take 32 = (hkdf S ck' ikm').2.1.take 32 ∨
     (hkdf S ck ikm).2.2.take 32 = (hkdf S ck' ikm').2.2.take 32)

def AeadCollision (S : Suite) : Prop :=
  ∃ k n ad p k' n' ad' p', (k, n, ad) ≠ (k', n', ad') ∧ S.enc k n ad p = S.enc k' n' ad' p'

/-- Collision-type witnesses of the hash and the KDF. -/
def Coll (S : Suite) : Prop := HashCollision S ∨ KdfCoincidence S

/-- The two parties' symmetric states have diverged: the transcript hashes differ, or chaining
    key and cipher key both differ. -/
def Div (A B : HandshakeState) : Prop :=
  A.ss.h ≠ B.ss.h ∨ (A.ss.ck ≠ B.ss.ck ∧ A.ss.cs.k ≠ B.ss.cs.k)

/-- What the statements need of a pair of parties at a message boundary (nothing about keys
    agreeing): same remaining message patterns, same psk mode, same `HasKey()`, transcript hashes
    of `HASHLEN` bytes, static public keys of `DHLEN` bytes. -/
structure Pre (S : Suite) (A B : HandshakeState) : Prop where
  msgs : A.msgs = B.msgs
  isPsk : A.isPsk = B.isPsk
  hasKey : A.hasKey = B.hasKey
  hA : A.ss.h.length = S.hashLen
  hB : B.ss.h.length = S.hashLen
  sA : ∀ kp, A.s = some kp → kp.pub.length = S.pubLen
  sB : ∀ kp, B.s = some kp → kp.pub.length = S.pubLen

/-- One message of a run: the writer's payload and the ephemeral key pair it uses if the message
    pattern has an `e` token; `deliver = none`: the message is delivered unmodified,
    `deliver = some m'`: `m'` is delivered in its place. -/
structure Step where
  payload : Bytes
  eph : KeyPair
  deliver : Option Bytes

/-- What happened to one message: the genuine message and the bytes delivered. -/
structure Sent where
  genuine : Bytes
  delivered : Bytes

def Sent.altered (x : Sent) : Prop := x.delivered ≠ x.genuine

/-- A run of alternating messages in which every call succeeds (`none` otherwise): `aWrites` says
    whether `A` writes the next message. Returns the final states and what was sent. -/
def run (S : Suite) : Bool → HandshakeState → HandshakeState → List Step →
    Option (HandshakeState × HandshakeState × List Sent)
  | _, A, B, [] => some (A, B, [])
  | true, A, B, st :: rest =>
    match A.writeMessage S st.payload st.eph with
    | none => none
    | some (m, A', _) =>
      match B.readMessage S (st.deliver.getD m) with
      | none => none
      | some (_, B', _) =>
        (run S false A' B' rest).map fun r => (r.1, r.2.1, ⟨m, st.deliver.getD m⟩ :: r.2.2)
  | false, A, B, st :: rest =>
    match B.writeMessage S st.payload st.eph with
    | none => none
    | some (m, B', _) =>
      match A.readMessage S (st.deliver.getD m) with
      | none => none
      | some (_, A', _) =>
        (run S true A' B' rest).map fun r => (r.1, r.2.1, ⟨m, st.deliver.getD m⟩ :: r.2.2)

/-- The two parties disagree on a pre-shared key that a `psk` token of the remaining messages
    uses. -/
def PskMismatch (A B : HandshakeState) : Prop :=
  ∃ m ∈ A.msgs, ∃ n, Tok.psk n ∈ m ∧ A.psks.getD n none ≠ B.psks.getD n none

/-- `HasKey()` after a token list (as a function of the tokens only). -/
def tokKeyed (isPsk : Bool) (t : Tok) (k : Bool) : Bool :=
  match t with
  | .e => k || isPsk
  | .s => k
  | _ => true

def keyedAfter (isPsk : Bool) : List Tok → Bool → Bool
  | [], k => k
  | t :: ts, k => keyedAfter isPsk ts (tokKeyed isPsk t k)

/-- The payload of the last remaining message is processed under a key. -/
def LastKeyed (A : HandshakeState) : Prop :=
  keyedAfter A.isPsk A.msgs.flatten A.hasKey = true

end SnowVerif.Spec.Integrity
