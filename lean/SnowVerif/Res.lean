/-
  Outcomes of API calls: `ok`, `err` (mirrors `snow::Error`), `panic` (a Rust
  panic site: out-of-range slice, `copy_from_slice` length mismatch, `unwrap`,
  failed `assert!`).
-/
namespace SnowVerif

inductive PatternProblem
  | tooFewParameters | tooManyParameters | unsupportedHandshakeType
  | unsupportedBaseType | unsupportedHashType | unsupportedDhType
  | unsupportedCipherType | invalidPsk | duplicateModifier | unsupportedModifier
  deriving DecidableEq, Repr

inductive InitStage
  | validateKeyLengths | validatePskLengths | validateCipherTypes
  | getRngImpl | getDhImpl | getCipherImpl | getHashImpl
  | validatePskPosition | parameterOverwrite
  deriving DecidableEq, Repr

inductive Prerequisite
  | localPrivateKey | remotePublicKey
  deriving DecidableEq, Repr

inductive StateProblem
  | missingKeyMaterial | missingPsk | notTurnToWrite | notTurnToRead
  | handshakeNotFinished | handshakeAlreadyFinished | oneWay | exhausted
  deriving DecidableEq, Repr

inductive Err
  | pattern (p : PatternProblem)
  | init (i : InitStage)
  | prereq (p : Prerequisite)
  | state (s : StateProblem)
  | input
  | dh
  | decrypt
  deriving DecidableEq, Repr

inductive Res (α : Type)
  | ok (a : α)
  | err (e : Err)
  | panic (site : String)
  deriving DecidableEq, Repr

namespace Res

def isOk {α} : Res α → Bool
  | ok _ => true
  | _ => false

def isPanic {α} : Res α → Bool
  | panic _ => true
  | _ => false

/-- Forget the value. -/
def toUnit {α} : Res α → Res Unit
  | ok _ => ok ()
  | err e => err e
  | panic s => panic s

def map {α β} (f : α → β) : Res α → Res β
  | ok a => ok (f a)
  | err e => err e
  | panic s => panic s

end Res

def PatternProblem.toStr : PatternProblem → String
  | .tooFewParameters => "TooFewParameters"
  | .tooManyParameters => "TooManyParameters"
  | .unsupportedHandshakeType => "UnsupportedHandshakeType"
  | .unsupportedBaseType => "UnsupportedBaseType"
  | .unsupportedHashType => "UnsupportedHashType"
  | .unsupportedDhType => "UnsupportedDhType"
  | .unsupportedCipherType => "UnsupportedCipherType"
  | .invalidPsk => "InvalidPsk"
  | .duplicateModifier => "DuplicateModifier"
  | .unsupportedModifier => "UnsupportedModifier"

def InitStage.toStr : InitStage → String
  | .validateKeyLengths => "ValidateKeyLengths"
  | .validatePskLengths => "ValidatePskLengths"
  | .validateCipherTypes => "ValidateCipherTypes"
  | .getRngImpl => "GetRngImpl"
  | .getDhImpl => "GetDhImpl"
  | .getCipherImpl => "GetCipherImpl"
  | .getHashImpl => "GetHashImpl"
  | .validatePskPosition => "ValidatePskPosition"
  | .parameterOverwrite => "ParameterOverwrite"

def Prerequisite.toStr : Prerequisite → String
  | .localPrivateKey => "LocalPrivateKey"
  | .remotePublicKey => "RemotePublicKey"

def StateProblem.toStr : StateProblem → String
  | .missingKeyMaterial => "MissingKeyMaterial"
  | .missingPsk => "MissingPsk"
  | .notTurnToWrite => "NotTurnToWrite"
  | .notTurnToRead => "NotTurnToRead"
  | .handshakeNotFinished => "HandshakeNotFinished"
  | .handshakeAlreadyFinished => "HandshakeAlreadyFinished"
  | .oneWay => "OneWay"
  | .exhausted => "Exhausted"

/-- Same text as Rust's `{:?}` of `snow::Error`. -/
def Err.toStr : Err → String
  | .pattern p => s!"Pattern({p.toStr})"
  | .init i => s!"Init({i.toStr})"
  | .prereq p => s!"Prereq({p.toStr})"
  | .state s => s!"State({s.toStr})"
  | .input => "Input"
  | .dh => "Dh"
  | .decrypt => "Decrypt"

end SnowVerif
