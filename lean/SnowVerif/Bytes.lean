/-
  Bytes: byte strings as `List UInt8`, little/big-endian u64, xor, hex.
  Core Lean only (this file is linked into the driver executable).
-/
namespace SnowVerif

abbrev Bytes := List UInt8

namespace Bytes

def zeros (n : Nat) : Bytes := List.replicate n 0

/-- `n` as 8 little-endian bytes (`u64::to_le_bytes`). -/
def le64 (n : UInt64) : Bytes :=
  (List.range 8).map fun i => (n >>> (8 * i.toUInt64)).toUInt8

/-- `n` as 8 big-endian bytes (`u64::to_be_bytes`). -/
def be64 (n : UInt64) : Bytes := (le64 n).reverse

/-- Nat as 8 little-endian bytes (used for lengths; values < 2^64). -/
def natLe64 (n : Nat) : Bytes := le64 n.toUInt64

def xor (a b : Bytes) : Bytes := List.zipWith (· ^^^ ·) a b

/-- Pad with zeros on the right to length `n` (no truncation). -/
def padTo (n : Nat) (b : Bytes) : Bytes := b ++ zeros (n - b.length)

/-- First `n` bytes of `b` viewed inside a zeroed array of at least `n` bytes
    (`arr[..n]` where `arr` is a zeroed array into which `b` was copied). -/
def fit (n : Nat) (b : Bytes) : Bytes := (b ++ zeros n).take n

def hexDigit (n : Nat) : Char :=
  if n < 10 then Char.ofNat (48 + n) else Char.ofNat (87 + n)

def toHex (b : Bytes) : String :=
  if b.isEmpty then "-" else
  String.ofList (b.flatMap fun x => [hexDigit (x.toNat / 16), hexDigit (x.toNat % 16)])

def hexVal (c : Char) : Option Nat :=
  if '0' ≤ c ∧ c ≤ '9' then some (c.toNat - 48)
  else if 'a' ≤ c ∧ c ≤ 'f' then some (c.toNat - 87)
  else if 'A' ≤ c ∧ c ≤ 'F' then some (c.toNat - 55)
  else none

def ofHexChars : List Char → Option Bytes
  | [] => some []
  | [_] => none
  | a :: b :: rest =>
    match hexVal a, hexVal b, ofHexChars rest with
    | some x, some y, some r => some (UInt8.ofNat (16 * x + y) :: r)
    | _, _, _ => none

def ofHex (s : String) : Option Bytes :=
  if s == "-" then some [] else ofHexChars s.toList

def ofString (s : String) : Bytes := s.toUTF8.toList

end Bytes
end SnowVerif
