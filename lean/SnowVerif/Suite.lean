/-
  The crypto suite the model is parameterised by, and the laws (one `Prop`
  each) that theorems may assume about it.  The bodies of the real primitives
  (sha2, blake2, chacha20poly1305, aes-gcm, curve25519-dalek, p256, ring) are
  *parameters* of the model, not verified code.
-/
import SnowVerif.Bytes
import SnowVerif.Res

namespace SnowVerif

structure Suite where
  hashLen  : Nat
  blockLen : Nat
  /-- `reset; input*; result` = hash of the concatenation of the inputs. -/
  hash     : Bytes → Bytes
  pubLen   : Nat
  privLen  : Nat
  dhLen    : Nat
  /-- `Dh::set`/`Dh::generate` panic on a private key for which this is false
      (P-256: scalar not in [1, n-1]); always true for 25519. -/
  validPriv : Bytes → Bool
  pubOf    : Bytes → Bytes
  /-- `Dh::dh(priv, pub)`; `none` is `Err(Error::Dh)`. `pub` is the first
      `pubLen` bytes of the key array the handshake passes. -/
  dh       : Bytes → Bytes → Option Bytes
  /-- `Cipher::encrypt(nonce, ad, pt)` under `key` = ciphertext ++ 16-byte tag. -/
  enc      : Bytes → UInt64 → Bytes → Bytes → Bytes
  /-- `Cipher::decrypt`; `none` is `Err(Error::Decrypt)`. -/
  dec      : Bytes → UInt64 → Bytes → Bytes → Option Bytes
  /-- Prefix of the caller's output buffer a *failed* decrypt overwrites,
      as a function of the ciphertext and the buffer capacity. -/
  decFailBuf : Bytes → Nat → Bytes
  /-- Prefix of the output buffer a *successful* decrypt overwrites
      (ciphertext, plaintext, capacity); always starts with the plaintext. -/
  decOkBuf : Bytes → Bytes → Nat → Bytes
  dhName : String
  cipherName : String
  hashName : String

namespace Suite

variable (S : Suite)

def HashLen : Prop := ∀ d, (S.hash d).length = S.hashLen
/-- Size side conditions: what snow's fixed-size arrays require. -/
def Sizes : Prop := 32 ≤ S.hashLen ∧ S.hashLen ≤ 64 ∧ 64 ≤ S.blockLen ∧ S.blockLen ≤ 128
def EncLen : Prop := ∀ k n ad p, (S.enc k n ad p).length = p.length + 16
def DecEnc : Prop := ∀ k n ad p, S.dec k n ad (S.enc k n ad p) = some p
/-- A deterministic AEAD accepts only the encryption of what it returns. -/
def DecSound : Prop := ∀ k n ad c p, S.dec k n ad c = some p → c = S.enc k n ad p
def DhComm : Prop := ∀ a b, S.dh a (S.pubOf b) = S.dh b (S.pubOf a)
def DhTotal : Prop := ∀ a b, (S.dh a (S.pubOf b)).isSome
def PubLen : Prop := ∀ a, (S.pubOf a).length = S.pubLen
def DhLen : Prop := ∀ a p r, S.dh a p = some r → r.length = S.dhLen
def PrivTotal : Prop := ∀ a, S.validPriv a = true
def OkBufPrefix : Prop := ∀ c p cap, p <+: S.decOkBuf c p cap

end Suite
end SnowVerif
