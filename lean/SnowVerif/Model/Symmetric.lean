/-
  Model of `types.rs` (default HMAC / HKDF / REKEY), `cipherstate.rs` and
  `symmetricstate.rs`.

  Conventions (DESIGN.md section 3.2): a Rust `&mut [u8]` output is modelled by
  its capacity `cap` and the bytes written from offset 0 (all writes in snow are
  sequential); `h`/`ck` are the `hash_len` live bytes of the 64-byte arrays;
  every call returns the successor state on *every* outcome; ghost events log
  each AEAD call.
-/
import SnowVerif.Suite

namespace SnowVerif
open Bytes

/-- Ghost events: every AEAD call and RNG draw made during an API call. -/
inductive Event
  | enc (key : Bytes) (n : UInt64) (ad pt : Bytes)
  | dec (key : Bytes) (n : UInt64) (ad ct : Bytes) (accepted : Bool)
  | rng (drawn : Bytes)
  deriving DecidableEq, Repr

namespace Model

/-! ### types.rs: HMAC, HKDF, REKEY as snow computes them -/

/-- `ipad[..block_len]` / `opad[..block_len]` after the key has been xored in. -/
def hmacPad (c : UInt8) (key : Bytes) (n : Nat) : Bytes :=
  (List.range n).map fun i => c ^^^ key.getD i 0

def hmac (S : Suite) (key data : Bytes) : Bytes :=
  S.hash (hmacPad 0x5c key S.blockLen ++ S.hash (hmacPad 0x36 key S.blockLen ++ data))

/-- `temp_key` is passed to `hmac` as the whole 64-byte array. -/
def hkdfTemp (S : Suite) (ck ikm : Bytes) : Bytes := fit 64 (hmac S ck ikm)

def hkdf2 (S : Suite) (ck ikm : Bytes) : Bytes × Bytes :=
  let tk := hkdfTemp S ck ikm
  let o1 := hmac S tk [1]
  let o2 := hmac S tk (o1 ++ [2])
  (o1, o2)

def hkdf3 (S : Suite) (ck ikm : Bytes) : Bytes × Bytes × Bytes :=
  let tk := hkdfTemp S ck ikm
  let o1 := hmac S tk [1]
  let o2 := hmac S tk (o1 ++ [2])
  let o3 := hmac S tk (o2 ++ [3])
  (o1, o2, o3)

/-- `cipher_key.copy_from_slice(&out[..CIPHERKEYLEN])` on a zeroed 64-byte array. -/
def key32 (b : Bytes) : Bytes := fit 32 b

/-- `Cipher::rekey`: first 32 bytes of `ENCRYPT(k, 2^64-1, "", 0^32)`. -/
def rekeyKey (S : Suite) (key : Bytes) : Bytes :=
  (S.enc key 0xFFFFFFFFFFFFFFFF [] (zeros 32)).take 32

/-! ### cipherstate.rs -/

structure CipherState where
  key    : Bytes
  n      : UInt64
  hasKey : Bool
  deriving DecidableEq, Repr

namespace CipherState

def new : CipherState := { key := zeros 32, n := 0, hasKey := false }

def set (_cs : CipherState) (key : Bytes) (n : UInt64) : CipherState :=
  { key := key, n := n, hasKey := true }

def nonceMax : UInt64 := 0xFFFFFFFFFFFFFFFF

/-- `encrypt_ad`. Returns the outcome (the bytes written to `out`), the new
    state and the ghost events. `cap` is `out.len()`. -/
def encryptAd (S : Suite) (cs : CipherState) (ad pt : Bytes) (cap : Nat) :
    Res Bytes × CipherState × List Event :=
  if !cs.hasKey then (.err (.state .missingKeyMaterial), cs, [])
  else if cs.n == nonceMax then (.err (.state .exhausted), cs, [])
  else if cap < pt.length + 16 then (.panic "Cipher::encrypt: out too small", cs, [])
  else (.ok (S.enc cs.key cs.n ad pt), { cs with n := cs.n + 1 }, [.enc cs.key cs.n ad pt])

/-- `decrypt_ad`. Additionally returns the prefix of `out` that was overwritten. -/
def decryptAd (S : Suite) (cs : CipherState) (ad ct : Bytes) (cap : Nat) :
    Res Bytes × CipherState × Bytes × List Event :=
  if ct.length < 16 || cap < ct.length - 16 then (.err .decrypt, cs, [], [])
  else if !cs.hasKey then (.err (.state .missingKeyMaterial), cs, [], [])
  else if cs.n == nonceMax then (.err (.state .exhausted), cs, [], [])
  else match S.dec cs.key cs.n ad ct with
    | none => (.err .decrypt, cs, S.decFailBuf ct cap, [.dec cs.key cs.n ad ct false])
    | some p => (.ok p, { cs with n := cs.n + 1 }, S.decOkBuf ct p cap,
                 [.dec cs.key cs.n ad ct true])

def rekey (S : Suite) (cs : CipherState) : CipherState × List Event :=
  ({ cs with key := rekeyKey S cs.key }, [.enc cs.key nonceMax [] (zeros 32)])

def rekeyManually (cs : CipherState) (key : Bytes) : CipherState := { cs with key := key }

end CipherState

/-! ### symmetricstate.rs -/

structure Sym where
  cs     : CipherState
  h      : Bytes
  ck     : Bytes
  hasKey : Bool
  /-- `inner.k`: the key currently installed in the handshake cipher, if any. -/
  k      : Option Bytes
  deriving DecidableEq, Repr

/-- What `checkpoint()` captures (`inner` with `n` set to the cipher's nonce). -/
structure SymCheckpoint where
  h      : Bytes
  ck     : Bytes
  hasKey : Bool
  k      : Option Bytes
  n      : UInt64
  deriving DecidableEq, Repr

namespace Sym

def mixHash (S : Suite) (st : Sym) (data : Bytes) : Sym :=
  { st with h := S.hash (st.h ++ data) }

/-- `SymmetricState::new` then `initialize(name)`. -/
def init (S : Suite) (name : Bytes) : Sym :=
  let h := if name.length ≤ S.hashLen then padTo S.hashLen name else S.hash name
  { cs := CipherState.new, h := h, ck := h, hasKey := false, k := none }

def mixKey (S : Suite) (st : Sym) (data : Bytes) : Sym :=
  let o := hkdf2 S st.ck data
  let key := key32 o.2
  { st with ck := o.1, cs := st.cs.set key 0, k := some key, hasKey := true }

def mixKeyAndHash (S : Suite) (st : Sym) (data : Bytes) : Sym :=
  let o := hkdf3 S st.ck data
  let key := key32 o.2.2
  let st1 := mixHash S { st with ck := o.1 } o.2.1
  { st1 with cs := st1.cs.set key 0, k := some key }

/-- The bytes of an `ok` outcome, `[]` otherwise. -/
def okBytes : Res Bytes → Bytes
  | .ok b => b
  | _ => []

/-- `encrypt_and_mix_hash(plaintext, out)` with `out.len() = cap`.
    Returns the outcome (the bytes written), the successor state and the events. -/
def encryptAndMixHash (S : Suite) (st : Sym) (pt : Bytes) (cap : Nat) :
    Res Bytes × Sym × List Event :=
  if st.hasKey then
    let r := st.cs.encryptAd S st.h pt cap
    (r.1,
     (match r.1 with
      | .ok ct => mixHash S { st with cs := r.2.1 } ct
      | _ => { st with cs := r.2.1 }),
     r.2.2)
  else if cap < pt.length then (.panic "copy_slices!(plaintext, out)", st, [])
  else (.ok pt, mixHash S st pt, [])

/-- `decrypt_and_mix_hash(data, out)` with `out.len() = cap`; also the prefix of
    `out` that was overwritten. -/
def decryptAndMixHash (S : Suite) (st : Sym) (data : Bytes) (cap : Nat) :
    Res Bytes × Sym × Bytes × List Event :=
  if st.hasKey then
    let r := st.cs.decryptAd S st.h data cap
    (r.1,
     (match r.1 with
      | .ok _ => mixHash S { st with cs := r.2.1 } data
      | _ => { st with cs := r.2.1 }),
     r.2.2.1, r.2.2.2)
  else if cap < data.length then (.err .decrypt, st, [], [])
  else (.ok data, mixHash S st data, data, [])

/-- `split`: the two transport cipher states. -/
def split (S : Suite) (st : Sym) : CipherState × CipherState :=
  let o := hkdf2 S st.ck []
  (CipherState.new.set (key32 o.1) 0, CipherState.new.set (key32 o.2) 0)

def checkpoint (st : Sym) : SymCheckpoint :=
  { h := st.h, ck := st.ck, hasKey := st.hasKey, k := st.k, n := st.cs.n }

def restore (st : Sym) (c : SymCheckpoint) : Sym :=
  { st with
    h := c.h, ck := c.ck, hasKey := c.hasKey, k := c.k,
    cs := match c.k with
          | some key => st.cs.set key c.n
          | none => st.cs }

end Sym
end Model
end SnowVerif
