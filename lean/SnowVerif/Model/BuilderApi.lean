/-
  The rest of `builder.rs`: the builder's setters (`psk`, `local_private_key`,
  `fixed_ephemeral_key_for_testing_only`, `prologue`, `remote_public_key`) with their
  `ParameterOverwrite` / `ValidatePskPosition` errors, and `generate_keypair`.
  `Model/Builder.lean` models `build` on a finished configuration (`BuildCfg`); this file models
  how a configuration comes about through the public API, so that well-formedness conditions of a
  `BuildCfg` (ten psk slots) are consequences, not assumptions.
-/
import SnowVerif.Model.Builder

namespace SnowVerif.Model
open SnowVerif Bytes Generated

/-- One setter call. The psk key is a `&[u8; 32]` in Rust (length fixed by the type). -/
inductive Setter
  | psk (loc : Nat) (key : Bytes)
  | localPrivateKey (k : Bytes)
  | fixedEphemeral (k : Bytes)
  | prologue (p : Bytes)
  | remotePublicKey (k : Bytes)
  deriving DecidableEq, Repr

/-- The fields of `Builder` that the setters write (`Builder::with_resolver` starts from `new`). -/
structure BuilderSt where
  s      : Option Bytes
  eFixed : Option Bytes
  rs     : Option Bytes
  plog   : Option Bytes
  psks   : List (Option Bytes)
  deriving DecidableEq, Repr

/-- `Builder::with_resolver`: nothing set, `psks: [None; 10]`. -/
def BuilderSt.new : BuilderSt :=
  { s := none, eFixed := none, rs := none, plog := none, psks := List.replicate 10 none }

/-- One setter: the checks are the code's, in the code's order. -/
def BuilderSt.apply (b : BuilderSt) : Setter → Res BuilderSt
  | .psk loc key =>
    if loc ≥ 10 then .err (.init .validatePskPosition)
    else if (b.psks.getD loc none).isSome then .err (.init .parameterOverwrite)
    else .ok { b with psks := b.psks.set loc (some key) }
  | .localPrivateKey k =>
    if b.s.isSome then .err (.init .parameterOverwrite) else .ok { b with s := some k }
  | .fixedEphemeral k => .ok { b with eFixed := some k }
  | .prologue p =>
    if b.plog.isSome then .err (.init .parameterOverwrite) else .ok { b with plog := some p }
  | .remotePublicKey k =>
    if b.rs.isSome then .err (.init .parameterOverwrite) else .ok { b with rs := some k }

/-- A chain of setter calls (`?` after each fallible one): stops at the first error. -/
def BuilderSt.configure : BuilderSt → List Setter → Res BuilderSt
  | b, [] => .ok b
  | b, x :: xs =>
    match b.apply x with
    | .ok b' => b'.configure xs
    | .err e => .err e
    | .panic p => .panic p

/-- The configuration `build` works on: a missing prologue is the empty one. -/
def BuilderSt.toCfg (b : BuilderSt) (pattern : Pattern) (mods : List Modifier) (name : Bytes) (initiator : Bool)
    (rng : Bytes) : BuildCfg :=
  { pattern := pattern, mods := mods, name := name, initiator := initiator, s := b.s, eFixed := b.eFixed,
    rs := b.rs, psks := b.psks, prologue := b.plog.getD [], rng := rng }

/-- `Builder::generate_keypair`: resolve the RNG, resolve the DH, `Dh::generate` (draws `priv_len`
    bytes; panics if the DH rejects them: P-256, see KF1), return (private, public). -/
def generateKeypair (S : Suite) (av : Avail) (rng : Bytes) : Res (Bytes × Bytes) :=
  if !av.rng then .err (.init .getRngImpl)
  else if !av.dh then .err (.init .getDhImpl)
  else
    let d := (rngDraw rng S.privLen).1
    if S.validPriv d then .ok (d, S.pubOf d) else .panic "Dh::generate: invalid private key"

end SnowVerif.Model
