/-
  Model of `transportstate.rs` and `stateless_transportstate.rs`.
-/
import SnowVerif.Model.Handshake

namespace SnowVerif
namespace Model
open Bytes

structure TS where
  cs1       : CipherState      -- cipherstates.0: initiator's sending key
  cs2       : CipherState      -- cipherstates.1: responder's sending key
  oneway    : Bool
  pubLen    : Nat
  rs        : Toggle Bytes
  initiator : Bool
  deriving DecidableEq, Repr

namespace TS

/-- `TransportState::new` / `StatelessTransportState::new` (both keep the same data;
    the stateless cipher states simply have no nonce field). -/
def ofHandshake (S : Suite) (hs : HS) : Res TS :=
  if !hs.isHandshakeFinished then .err (.state .handshakeNotFinished)
  else .ok { cs1 := hs.cs1, cs2 := hs.cs2, oneway := hs.oneway, pubLen := S.pubLen,
             rs := hs.rs, initiator := hs.initiator }

def getRemoteStatic (ts : TS) : Option Bytes :=
  if ts.rs.on then some (ts.rs.val.take ts.pubLen) else none

/-- `TransportState::write_message(payload, message)`, `message.len() = cap`. -/
def writeMessage (S : Suite) (ts : TS) (payload : Bytes) (cap : Nat) :
    Res Bytes × TS × List Event :=
  if !ts.initiator && ts.oneway then (.err (.state .oneWay), ts, [])
  else if payload.length + 16 > 65535 || payload.length + 16 > cap then (.err .input, ts, [])
  else if ts.initiator then
    match ts.cs1.encryptAd S [] payload cap with
    | (r, cs', ev) => (r, { ts with cs1 := cs' }, ev)
  else
    match ts.cs2.encryptAd S [] payload cap with
    | (r, cs', ev) => (r, { ts with cs2 := cs' }, ev)

/-- `TransportState::read_message(message, payload)`, `payload.len() = cap`. -/
def readMessage (S : Suite) (ts : TS) (msg : Bytes) (cap : Nat) :
    Res Bytes × TS × Bytes × List Event :=
  if msg.length > 65535 then (.err .input, ts, [], [])
  else if ts.initiator && ts.oneway then (.err (.state .oneWay), ts, [], [])
  else if ts.initiator then
    match ts.cs2.decryptAd S [] msg cap with
    | (r, cs', buf, ev) => (r, { ts with cs2 := cs' }, buf, ev)
  else
    match ts.cs1.decryptAd S [] msg cap with
    | (r, cs', buf, ev) => (r, { ts with cs1 := cs' }, buf, ev)

def rekeyInitiator (S : Suite) (ts : TS) : TS × List Event :=
  let r := ts.cs1.rekey S
  ({ ts with cs1 := r.1 }, r.2)

def rekeyResponder (S : Suite) (ts : TS) : TS × List Event :=
  let r := ts.cs2.rekey S
  ({ ts with cs2 := r.1 }, r.2)

def rekeyOutgoing (S : Suite) (ts : TS) : TS × List Event :=
  if ts.initiator then ts.rekeyInitiator S else ts.rekeyResponder S

def rekeyIncoming (S : Suite) (ts : TS) : TS × List Event :=
  if ts.initiator then ts.rekeyResponder S else ts.rekeyInitiator S

/-- `rekey_manually(initiator, responder)`. -/
def rekeyManually (ts : TS) (ki kr : Option Bytes) : TS :=
  let ts1 := match ki with
    | some k => { ts with cs1 := ts.cs1.rekeyManually k }
    | none => ts
  match kr with
  | some k => { ts1 with cs2 := ts1.cs2.rekeyManually k }
  | none => ts1

def setReceivingNonce (ts : TS) (n : UInt64) : TS :=
  if ts.initiator then { ts with cs2 := { ts.cs2 with n := n } }
  else { ts with cs1 := { ts.cs1 with n := n } }

/-- Hook `verif_set_sending_nonce`. -/
def setSendingNonce (ts : TS) (n : UInt64) : TS :=
  if ts.initiator then { ts with cs1 := { ts.cs1 with n := n } }
  else { ts with cs2 := { ts.cs2 with n := n } }

def receivingNonce (ts : TS) : UInt64 := if ts.initiator then ts.cs2.n else ts.cs1.n
def sendingNonce (ts : TS) : UInt64 := if ts.initiator then ts.cs1.n else ts.cs2.n

/-! ### Stateless mode: same data, the nonce is an argument and the state is read-only -/

/-- `StatelessCipherState::encrypt_ad`. -/
def stEncrypt (S : Suite) (cs : CipherState) (n : UInt64) (pt : Bytes) (cap : Nat) :
    Res Bytes × List Event :=
  if !cs.hasKey then (.err (.state .missingKeyMaterial), [])
  else if n == CipherState.nonceMax then (.err (.state .exhausted), [])
  else if cap < pt.length + 16 then (.panic "Cipher::encrypt: out too small", [])
  else (.ok (S.enc cs.key n [] pt), [.enc cs.key n [] pt])

/-- `StatelessCipherState::decrypt_ad`. -/
def stDecrypt (S : Suite) (cs : CipherState) (n : UInt64) (ct : Bytes) (cap : Nat) :
    Res Bytes × Bytes × List Event :=
  if ct.length < 16 || cap < ct.length - 16 then (.err .decrypt, [], [])
  else if !cs.hasKey then (.err (.state .missingKeyMaterial), [], [])
  else if n == CipherState.nonceMax then (.err (.state .exhausted), [], [])
  else match S.dec cs.key n [] ct with
    | none => (.err .decrypt, S.decFailBuf ct cap, [.dec cs.key n [] ct false])
    | some p => (.ok p, S.decOkBuf ct p cap, [.dec cs.key n [] ct true])

/-- `StatelessTransportState::write_message(nonce, payload, message)`: no state is returned. -/
def stWrite (S : Suite) (ts : TS) (n : UInt64) (payload : Bytes) (cap : Nat) :
    Res Bytes × List Event :=
  if !ts.initiator && ts.oneway then (.err (.state .oneWay), [])
  else if payload.length + 16 > 65535 || payload.length + 16 > cap then (.err .input, [])
  else stEncrypt S (if ts.initiator then ts.cs1 else ts.cs2) n payload cap

/-- `StatelessTransportState::read_message(nonce, message, payload)`. -/
def stRead (S : Suite) (ts : TS) (n : UInt64) (msg : Bytes) (cap : Nat) :
    Res Bytes × Bytes × List Event :=
  if msg.length > 65535 then (.err .input, [], [])
  else if ts.initiator && ts.oneway then (.err (.state .oneWay), [], [])
  else stDecrypt S (if ts.initiator then ts.cs2 else ts.cs1) n msg cap

end TS
end Model
end SnowVerif
