/-
  Model of `handshakestate.rs` (without `hfs`), as of the repaired tree:
  `write_message` / `read_message` with checkpoint + restore, `_write_message`,
  `_read_message`, `dh`, `set_psk`, the getters.
-/
import SnowVerif.Model.Symmetric
import SnowVerif.Tok

namespace SnowVerif
namespace Model
open Bytes

/-- `Toggle<T>`: the inner value exists even when off. -/
structure Toggle (α : Type) where
  val : α
  on  : Bool
  deriving DecidableEq, Repr

/-- A `Box<dyn Dh>`: private key and the public key derived from it. -/
structure KeyPair where
  priv : Bytes
  pub  : Bytes
  deriving DecidableEq, Repr

/-- Scripted random source: the remaining stream; draws past the end yield zeros. -/
def rngDraw (rng : Bytes) (n : Nat) : Bytes × Bytes :=
  (fit n rng, rng.drop n)

structure HS where
  sym       : Sym
  cs1       : CipherState          -- cipherstates.0 (initiator -> responder)
  cs2       : CipherState          -- cipherstates.1 (responder -> initiator)
  s         : Toggle KeyPair
  e         : Toggle KeyPair
  fixedE    : Bool
  rs        : Toggle Bytes         -- first `pubLen` bytes of the array
  re        : Toggle Bytes
  initiator : Bool
  isPsk     : Bool                 -- params.handshake.is_psk()
  oneway    : Bool                 -- params.handshake.pattern.is_oneway()
  psks      : List (Option Bytes)  -- 10 slots
  myTurn    : Bool
  msgs      : List (List Tok)      -- message_patterns
  pos       : Nat                  -- pattern_position
  rng       : Bytes
  deriving DecidableEq, Repr

/-- Working state of one `_write_message`: session, bytes written so far, events. -/
structure WS where
  hs  : HS
  acc : Bytes
  ev  : List Event
  deriving Repr

/-- Working state of one `_read_message`: session, unread rest of the message, events. -/
structure RS where
  hs  : HS
  ptr : Bytes
  ev  : List Event
  deriving Repr

namespace HS

/-- `HandshakeState::dh(token)`. -/
def dh (S : Suite) (hs : HS) (t : Tok) : Res Bytes :=
  let sel : Option (Toggle KeyPair × Toggle Bytes) :=
    match t, hs.initiator with
    | .ee, _ => some (hs.e, hs.re)
    | .ss, _ => some (hs.s, hs.rs)
    | .se, true | .es, false => some (hs.s, hs.re)
    | .es, true | .se, false => some (hs.e, hs.rs)
    | _, _ => none
  match sel with
  | none => .panic "dh: not a DH token"
  | some (k, r) =>
    if !(k.on && r.on) then .err (.state .missingKeyMaterial)
    else match S.dh k.val.priv r.val with
      | none => .err .dh
      | some out => .ok out

/-- The `Token::Psk(n)` arm (same in read and write). -/
def pskStep (S : Suite) (hs : HS) (n : Nat) : Res Unit × HS :=
  if n < 10 then
    match hs.psks.getD n none with
    | some psk => (.ok (), { hs with sym := hs.sym.mixKeyAndHash S psk })
    | none => (.err (.state .missingPsk), hs)
  else (.panic "psks[n] out of range", hs)

/-- The `Token::Dh(t)` arm (same in read and write). -/
def dhStep (S : Suite) (hs : HS) (t : Tok) : Res Unit × HS :=
  match hs.dh S t with
  | .ok out => (.ok (), { hs with sym := hs.sym.mixKey S out })
  | .err e => (.err e, hs)
  | .panic p => (.panic p, hs)

/-- One token of `_write_message`; `cap` is `message.len()`. -/
def writeTok (S : Suite) (cap : Nat) (w : WS) (t : Tok) : Res Unit × WS :=
  let hs := w.hs
  match t with
  | .e =>
    if w.acc.length + S.pubLen > cap then (.err .input, w)
    else
      -- `self.e.generate(rng)` unless the testing-only fixed ephemeral is set
      let gen : Option (KeyPair × Bytes × List Event) :=
        if hs.fixedE then some (hs.e.val, hs.rng, [])
        else
          let d := rngDraw hs.rng S.privLen
          if S.validPriv d.1 then some ({ priv := d.1, pub := S.pubOf d.1 }, d.2, [.rng d.1])
          else none
      match gen with
      | none => (.panic "Dh::generate: invalid private key", w)
      | some (kp, rng', ev) =>
        let sym1 := hs.sym.mixHash S kp.pub
        let sym2 := if hs.isPsk then sym1.mixKey S kp.pub else sym1
        (.ok (), { hs := { hs with e := { val := kp, on := true }, rng := rng', sym := sym2 },
                   acc := w.acc ++ kp.pub, ev := w.ev ++ ev })
  | .s =>
    if !hs.s.on then (.err (.state .missingKeyMaterial), w)
    else if w.acc.length + S.pubLen + (if hs.sym.hasKey then 16 else 0) > cap then (.err .input, w)
    else
      let r := hs.sym.encryptAndMixHash S hs.s.val.pub (cap - w.acc.length)
      (r.1.toUnit, { hs := { hs with sym := r.2.1 }, acc := w.acc ++ Sym.okBytes r.1, ev := w.ev ++ r.2.2 })
  | .psk n => ((pskStep S hs n).1, { w with hs := (pskStep S hs n).2 })
  | t => ((dhStep S hs t).1, { w with hs := (dhStep S hs t).2 })

def writeToks (S : Suite) (cap : Nat) : List Tok → WS → Res Unit × WS
  | [], w => (.ok (), w)
  | t :: ts, w =>
    match (writeTok S cap w t).1 with
    | .ok () => writeToks S cap ts (writeTok S cap w t).2
    | r => (r, (writeTok S cap w t).2)

/-- `_write_message(payload, message)` with `message.len() = cap`.
    Returns the outcome, the session, the bytes written so far and the events. -/
def writeInner (S : Suite) (hs : HS) (payload : Bytes) (cap : Nat) : Res Nat × WS :=
  let w0 : WS := { hs := hs, acc := [], ev := [] }
  if !hs.myTurn then (.err (.state .notTurnToWrite), w0)
  else if hs.pos ≥ hs.msgs.length then (.err (.state .handshakeAlreadyFinished), w0)
  else
    let w := (writeToks S cap (hs.msgs.getD hs.pos []) w0).2
    match (writeToks S cap (hs.msgs.getD hs.pos []) w0).1 with
    | .err e => (.err e, w)
    | .panic p => (.panic p, w)
    | .ok () =>
      if w.acc.length + payload.length + 16 > cap then (.err .input, w)
      else if w.acc.length + payload.length + (if w.hs.sym.hasKey then 16 else 0) > 65535 then
        (.err .input, w)
      else
        let r := w.hs.sym.encryptAndMixHash S payload (cap - w.acc.length)
        let hs1 := { w.hs with sym := r.2.1 }
        match r.1 with
        | .err e => (.err e, { w with hs := hs1, ev := w.ev ++ r.2.2 })
        | .panic p => (.panic p, { w with hs := hs1, ev := w.ev ++ r.2.2 })
        | .ok ct =>
          let hs2 :=
            if hs1.pos == hs1.msgs.length - 1 then
              { hs1 with cs1 := (hs1.sym.split S).1, cs2 := (hs1.sym.split S).2 }
            else hs1
          (.ok (w.acc.length + ct.length), { hs := hs2, acc := w.acc ++ ct, ev := w.ev ++ r.2.2 })

/-- `write_message`: checkpoint, `_write_message`, advance or restore. -/
def writeMessage (S : Suite) (hs : HS) (payload : Bytes) (cap : Nat) :
    Res Nat × HS × Bytes × List Event :=
  let cp := hs.sym.checkpoint
  let eWasOn := hs.e.on
  let w := (writeInner S hs payload cap).2
  match (writeInner S hs payload cap).1 with
  | .ok n => (.ok n, { w.hs with pos := w.hs.pos + 1, myTurn := false }, w.acc, w.ev)
  | .err e =>
    let hs1 := { w.hs with sym := w.hs.sym.restore cp }
    let hs2 := if !eWasOn then { hs1 with e := { hs1.e with on := false } } else hs1
    (.err e, hs2, w.acc, w.ev)
  | .panic p => (.panic p, w.hs, w.acc, w.ev)

/-- One token of `_read_message`. -/
def readTok (S : Suite) (r : RS) (t : Tok) : Res Unit × RS :=
  let hs := r.hs
  match t with
  | .e =>
    if r.ptr.length < S.pubLen then (.err .input, r)
    else
      let re := r.ptr.take S.pubLen
      let sym1 := hs.sym.mixHash S re
      let sym2 := if hs.isPsk then sym1.mixKey S re else sym1
      (.ok (), { r with hs := { hs with re := { val := re, on := true }, sym := sym2 },
                        ptr := r.ptr.drop S.pubLen })
  | .s =>
    let len := S.pubLen + (if hs.sym.hasKey then 16 else 0)
    if r.ptr.length < len then (.err .input, r)
    else
      let d := hs.sym.decryptAndMixHash S (r.ptr.take len) S.pubLen
      -- ok: the decrypted key is enabled; err: the ciphertext bytes the failed decrypt left in `rs`
      let rs' : Toggle Bytes :=
        match d.1 with
        | .ok p => { val := p, on := true }
        | .err _ => { hs.rs with val := d.2.2.1 ++ hs.rs.val.drop d.2.2.1.length }
        | .panic _ => hs.rs
      (d.1.toUnit, { hs := { hs with sym := d.2.1, rs := rs' }, ptr := r.ptr.drop len, ev := r.ev ++ d.2.2.2 })
  | .psk n => ((pskStep S hs n).1, { r with hs := (pskStep S hs n).2 })
  | t => ((dhStep S hs t).1, { r with hs := (dhStep S hs t).2 })

def readToks (S : Suite) : List Tok → RS → Res Unit × RS
  | [], r => (.ok (), r)
  | t :: ts, r =>
    match (readTok S r t).1 with
    | .ok () => readToks S ts (readTok S r t).2
    | x => (x, (readTok S r t).2)

/-- `_read_message(message, payload)` with `payload.len() = cap`. Returns the
    outcome (the payload), the session, the overwritten prefix of `payload`, events. -/
def readInner (S : Suite) (hs : HS) (msg : Bytes) (cap : Nat) :
    Res Bytes × HS × Bytes × List Event :=
  if msg.length > 65535 then (.err .input, hs, [], [])
  else if hs.myTurn then (.err (.state .notTurnToRead), hs, [], [])
  else if hs.pos ≥ hs.msgs.length then (.err (.state .handshakeAlreadyFinished), hs, [], [])
  else
    let last := hs.pos == hs.msgs.length - 1
    let r := (readToks S (hs.msgs.getD hs.pos []) { hs := hs, ptr := msg, ev := [] }).2
    match (readToks S (hs.msgs.getD hs.pos []) { hs := hs, ptr := msg, ev := [] }).1 with
    | .err e => (.err e, r.hs, [], r.ev)
    | .panic p => (.panic p, r.hs, [], r.ev)
    | .ok () =>
      let d := r.hs.sym.decryptAndMixHash S r.ptr cap
      let hs1 := { r.hs with sym := d.2.1 }
      match d.1 with
      | .err e => (.err e, hs1, d.2.2.1, r.ev ++ d.2.2.2)
      | .panic p => (.panic p, hs1, d.2.2.1, r.ev ++ d.2.2.2)
      | .ok p =>
        let hs2 :=
          if last then { hs1 with cs1 := (hs1.sym.split S).1, cs2 := (hs1.sym.split S).2 }
          else hs1
        -- `payload_len = ptr.len() - if has_key { TAGLEN } else { 0 }`
        (.ok (p.take (r.ptr.length - (if hs2.sym.hasKey then 16 else 0))), hs2, d.2.2.1, r.ev ++ d.2.2.2)

/-- `read_message`: checkpoint, `_read_message`, advance or restore. -/
def readMessage (S : Suite) (hs : HS) (msg : Bytes) (cap : Nat) :
    Res Bytes × HS × Bytes × List Event :=
  let cp := hs.sym.checkpoint
  let x := readInner S hs msg cap
  match x.1 with
  | .ok p => (.ok p, { x.2.1 with pos := x.2.1.pos + 1, myTurn := true }, x.2.2.1, x.2.2.2)
  | .err e =>
    (.err e, { x.2.1 with sym := x.2.1.sym.restore cp, rs := hs.rs, re := hs.re }, x.2.2.1, x.2.2.2)
  | .panic p => (.panic p, x.2.1, x.2.2.1, x.2.2.2)

/-- `set_psk(location, key)`. -/
def setPsk (hs : HS) (loc : Nat) (key : Bytes) : Res Unit × HS :=
  if key.length != 32 || hs.psks.length ≤ loc then (.err .input, hs)
  else (.ok (), { hs with psks := hs.psks.set loc (some key) })

def getRemoteStatic (S : Suite) (hs : HS) : Option Bytes :=
  if hs.rs.on then some (hs.rs.val.take S.pubLen) else none

def getHandshakeHash (hs : HS) : Bytes := hs.sym.h

/-- `dangerously_get_raw_split()` (cargo feature `risky-raw-split`): `split_raw` runs
    `HKDF(ck, zerolen, 2)` into two zeroed 64-byte arrays and the first `CIPHERKEYLEN` bytes of
    each are returned. Callable at any time; the state is not touched (`&mut self` is only needed
    for the hasher). -/
def rawSplit (S : Suite) (hs : HS) : Bytes × Bytes :=
  let o := hkdf2 S hs.sym.ck []
  (key32 o.1, key32 o.2)
def isInitiator (hs : HS) : Bool := hs.initiator
def isHandshakeFinished (hs : HS) : Bool := hs.pos == hs.msgs.length
def isMyTurn (hs : HS) : Bool := hs.myTurn
def wasWritePayloadEncrypted (hs : HS) : Bool := hs.sym.hasKey

end HS
end Model
end SnowVerif
