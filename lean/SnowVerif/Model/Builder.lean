/-
  Model of the token half of `params/patterns.rs` (`HandshakeTokens::try_from`:
  table lookup + `apply_psk_modifier`), of `builder.rs` (`Builder::build`) and of
  `HandshakeState::new`.
-/
import SnowVerif.Model.Params
import SnowVerif.Model.Transport

namespace SnowVerif
namespace Model
open Bytes Generated

/-- `apply_psk_modifier(patterns, n)`. -/
def applyPsk (inst : Inst) (n : Nat) : Res Inst :=
  let idx := n - 1
  if idx < inst.msgs.length then
    .ok { inst with msgs := inst.msgs.modify idx fun toks =>
            if n == 0 then Tok.psk n :: toks else toks ++ [Tok.psk n] }
  else .err (.pattern .invalidPsk)

/-- The `for modifier in &handshake.modifiers.list` loop. -/
def applyModifiers (inst : Inst) : List Modifier → Res Inst
  | [] => .ok inst
  | .psk n :: rest =>
    (match applyPsk inst n with
     | .ok inst' => applyModifiers inst' rest
     | .err e => .err e
     | .panic p => .panic p)
  | .fallback :: _ => .err (.pattern .unsupportedModifier)

/-- `HandshakeTokens::try_from(&HandshakeChoice)`. -/
def handshakeTokens (p : Pattern) (mods : List Modifier) : Res Inst :=
  applyModifiers p.tokens mods

/-- `HandshakeChoice::is_psk`. -/
def isPskMods (mods : List Modifier) : Bool :=
  mods.any fun m => match m with | .psk _ => true | .fallback => false

/-- What the resolver returns for the four `resolve_*` calls of this name. -/
structure Avail where
  rng : Bool
  dh : Bool
  cipher : Bool
  hash : Bool
  deriving DecidableEq, Repr

/-- A configured `Builder` plus the role. `psks` has 10 slots (each set slot is a
    `&[u8; 32]`). -/
structure BuildCfg where
  pattern   : Pattern
  mods      : List Modifier
  name      : Bytes
  initiator : Bool
  s         : Option Bytes
  eFixed    : Option Bytes
  rs        : Option Bytes
  psks      : List (Option Bytes)
  prologue  : Bytes
  rng       : Bytes
  deriving Repr

def needsLocalStatic (p : Pattern) (initiator : Bool) : Bool :=
  if initiator then p.needsLocalStaticI else p.needsLocalStaticR

def needKnownRemote (p : Pattern) (initiator : Bool) : Bool :=
  if initiator then p.needKnownRemoteI else p.needKnownRemoteR

/-- The pre-message loops of `HandshakeState::new`: `mine` selects the local key
    pairs (`pubkey()`), otherwise the remote arrays (`[..pub_len]`). -/
def mixPremsg (S : Suite) (mine : Bool) (s e : Toggle KeyPair) (rs re : Toggle Bytes) :
    List Tok → Sym → Res Sym
  | [], sym => .ok sym
  | t :: ts, sym =>
    let key : Res Bytes :=
      match t, mine with
      | .s, true => if s.on then .ok s.val.pub else .err (.state .missingKeyMaterial)
      | .e, true => if e.on then .ok e.val.pub else .err (.state .missingKeyMaterial)
      | .s, false => if rs.on then .ok (rs.val.take S.pubLen) else .err (.state .missingKeyMaterial)
      | .e, false => if re.on then .ok (re.val.take S.pubLen) else .err (.state .missingKeyMaterial)
      | _, _ => .panic "unreachable!() premessage token"
    match key with
    | .ok k => mixPremsg S mine s e rs re ts (sym.mixHash S k)
    | .err x => .err x
    | .panic p => .panic p

/-- `Builder::build(initiator)` followed by `HandshakeState::new`. -/
def build (S : Suite) (av : Avail) (c : BuildCfg) : Res HS :=
  if c.s.isNone && needsLocalStatic c.pattern c.initiator then .err (.prereq .localPrivateKey)
  else if c.rs.isNone && needKnownRemote c.pattern c.initiator then .err (.prereq .remotePublicKey)
  else if !av.rng then .err (.init .getRngImpl)
  else if !av.cipher then .err (.init .getCipherImpl)
  else if !av.hash then .err (.init .getHashImpl)
  else if !av.dh then .err (.init .getDhImpl)
  else if (match c.s with | some k => k.length != S.privLen | none => false)
       || (match c.eFixed with | some k => k.length != S.privLen | none => false)
       || (match c.rs with | some k => k.length != S.pubLen | none => false) then
    .err (.init .validateKeyLengths)
  else if (match c.s with | some k => !S.validPriv k | none => false)
       || (match c.eFixed with | some k => !S.validPriv k | none => false) then
    .panic "Dh::set: invalid private key"
  else if (match c.rs with | some v => decide (v.length > MAXDHLEN) | none => false) then
    .panic "rs_buf[..v.len()]"
  else
    let zkp : KeyPair := { priv := zeros S.privLen, pub := zeros S.pubLen }
    let s : Toggle KeyPair := match c.s with
      | some k => { val := { priv := k, pub := S.pubOf k }, on := true }
      | none => { val := zkp, on := false }
    let e : Toggle KeyPair := match c.eFixed with
      | some k => { val := { priv := k, pub := S.pubOf k }, on := false }
      | none => { val := zkp, on := false }
    let rs : Toggle Bytes := match c.rs with
      | some v => { val := v, on := true }
      | none => { val := zeros S.pubLen, on := false }
    let re : Toggle Bytes := { val := zeros S.pubLen, on := false }
    -- HandshakeState::new
    if s.on && rs.on && S.pubLen > MAXDHLEN then .err (.init .validateKeyLengths)
    else match handshakeTokens c.pattern c.mods with
    | .err x => .err x
    | .panic p => .panic p
    | .ok inst =>
      let sym0 := (Sym.init S c.name).mixHash S c.prologue
      let pre : Res Sym :=
        if c.initiator then
          match mixPremsg S true s e rs re inst.preI sym0 with
          | .ok sym1 => mixPremsg S false s e rs re inst.preR sym1
          | x => x
        else
          match mixPremsg S false s e rs re inst.preI sym0 with
          | .ok sym1 => mixPremsg S true s e rs re inst.preR sym1
          | x => x
      match pre with
      | .err x => .err x
      | .panic p => .panic p
      | .ok sym =>
        .ok { sym := sym, cs1 := CipherState.new, cs2 := CipherState.new,
              s := s, e := e, fixedE := c.eFixed.isSome, rs := rs, re := re,
              initiator := c.initiator, isPsk := isPskMods c.mods,
              oneway := c.pattern.isOneway, psks := c.psks,
              myTurn := c.initiator, msgs := inst.msgs, pos := 0, rng := c.rng }

end Model
end SnowVerif
