/-
  Model of `params/mod.rs` and the parsing half of `params/patterns.rs`
  (`FromStr` for `NoiseParams`, `HandshakeChoice`, `HandshakeModifierList`,
  `HandshakeModifier`, the primitive choices), without `hfs`.

  A protocol name is the UTF-8 byte string of a Rust `&str`.  All slicing the
  Rust code does (`s[..i]` after `is_char_boundary(i)`, `s[3..]` after
  `starts_with("psk")`) is modelled on bytes.
-/
import SnowVerif.Res
import SnowVerif.Bytes
import SnowVerif.Generated.Tables

namespace SnowVerif
namespace Model
open Generated (Pattern)

inductive DhChoice | c25519 | c448 | p256
  deriving DecidableEq, Repr
inductive CipherChoice | chachaPoly | xchachaPoly | aesGcm
  deriving DecidableEq, Repr
inductive HashChoice | sha256 | sha512 | blake2s | blake2b
  deriving DecidableEq, Repr

/-- Which optional primitive names this build of snow knows (`cfg(feature = ..)`). -/
structure Features where
  p256 : Bool
  xchacha : Bool
  deriving DecidableEq, Repr

structure Params where
  name    : Bytes
  pattern : Pattern
  mods    : List Modifier
  dh      : DhChoice
  cipher  : CipherChoice
  hash    : HashChoice
  deriving DecidableEq, Repr

/-- `str::split(sep)` on bytes: always at least one piece. -/
def splitBy (sep : UInt8) : Bytes → List Bytes
  | [] => [[]]
  | b :: rest =>
    match splitBy sep rest with
    | [] => [[]]
    | h :: t => if b == sep then [] :: h :: t else (b :: h) :: t

def str (s : String) : Bytes := s.toUTF8.toList

def parseBase (s : Bytes) : Res Unit :=
  if s == str "Noise" then .ok () else .err (.pattern .unsupportedBaseType)

def parseDh (f : Features) (s : Bytes) : Res DhChoice :=
  if s == str "25519" then .ok .c25519
  else if s == str "448" then .ok .c448
  else if f.p256 && s == str "P256" then .ok .p256
  else .err (.pattern .unsupportedDhType)

def parseCipher (f : Features) (s : Bytes) : Res CipherChoice :=
  if s == str "ChaChaPoly" then .ok .chachaPoly
  else if f.xchacha && s == str "XChaChaPoly" then .ok .xchachaPoly
  else if s == str "AESGCM" then .ok .aesGcm
  else .err (.pattern .unsupportedCipherType)

def parseHash (s : Bytes) : Res HashChoice :=
  if s == str "SHA256" then .ok .sha256
  else if s == str "SHA512" then .ok .sha512
  else if s == str "BLAKE2s" then .ok .blake2s
  else if s == str "BLAKE2b" then .ok .blake2b
  else .err (.pattern .unsupportedHashType)

/-- `HandshakePattern::from_str`: exact match with a table name. -/
def parsePattern (s : Bytes) : Option Pattern :=
  Generated.allPatterns.find? fun p => str p.name == s

/-- `str::is_char_boundary(i)` for `1 ≤ i`. -/
def isCharBoundary (s : Bytes) (i : Nat) : Bool :=
  i == s.length || (i < s.length && (s.getD i 0 &&& 0xC0) != 0x80)

/-- One iteration of the `for i in (1..=4).rev()` loop. -/
def tryPrefix (s : Bytes) (i : Nat) : Option (Pattern × Bytes) :=
  if s.length > i - 1 && isCharBoundary s i then
    match parsePattern (s.take i) with
    | some p => some (p, s.drop i)
    | none => none
  else none

/-- `HandshakeChoice::parse_pattern_and_modifier`. -/
def parsePatternAndModifier (s : Bytes) : Res (Pattern × Bytes) :=
  match tryPrefix s 4 with
  | some r => .ok r
  | none =>
  match tryPrefix s 3 with
  | some r => .ok r
  | none =>
  match tryPrefix s 2 with
  | some r => .ok r
  | none =>
  match tryPrefix s 1 with
  | some r => .ok r
  | none => .err (.pattern .unsupportedHandshakeType)

def isDigit (b : UInt8) : Bool := 48 ≤ b && b ≤ 57

/-- Value of a non-empty all-digit byte string, `none` when it exceeds 255
    (`u8::from_str` without sign; the `+` sign cannot occur inside a modifier). -/
def parseU8 (s : Bytes) : Option Nat :=
  if s.isEmpty || !s.all isDigit then none
  else
    let v := s.foldl (fun a b => 10 * a + (b.toNat - 48)) 0
    if v ≤ 255 then some v else none

/-- `HandshakeModifier::from_str`. -/
def parseModifier (s : Bytes) : Res Modifier :=
  if (str "psk").isPrefixOf s then
    match parseU8 (s.drop 3) with
    | some n => .ok (.psk n)
    | none => .err (.pattern .invalidPsk)
  else if s == str "fallback" then .ok .fallback
  else .err (.pattern .unsupportedModifier)

/-- `u8::from_str` as the standard library defines it: an optional leading `+`, then digits. -/
def parseU8Signed (s : Bytes) : Option Nat :=
  match s with
  | 43 :: rest => parseU8 rest
  | _ => parseU8 s

/-- `HandshakeModifier::from_str` called DIRECTLY on an arbitrary string (`"psk+1".parse::<HandshakeModifier>()`
    is `Psk(1)`). Inside a protocol name the modifier items are what lies between `+` separators, so
    they contain no `+` and this function coincides with `parseModifier` there
    (`C13.parseModifierDirect_eq`). -/
def parseModifierDirect (s : Bytes) : Res Modifier :=
  if (str "psk").isPrefixOf s then
    match parseU8Signed (s.drop 3) with
    | some n => .ok (.psk n)
    | none => .err (.pattern .invalidPsk)
  else if s == str "fallback" then .ok .fallback
  else .err (.pattern .unsupportedModifier)

def parseModifierItems : List Bytes → List Modifier → Res (List Modifier)
  | [], acc => .ok acc
  | m :: rest, acc =>
    match parseModifier m with
    | .ok x => if acc.contains x then .err (.pattern .duplicateModifier)
               else parseModifierItems rest (acc ++ [x])
    | .err e => .err e
    | .panic p => .panic p

/-- `HandshakeModifierList::from_str`. -/
def parseModifiers (s : Bytes) : Res (List Modifier) :=
  if s.isEmpty then .ok [] else parseModifierItems (splitBy 43 s) []

/-- `HandshakeChoice::from_str`. -/
def parseHandshake (s : Bytes) : Res (Pattern × List Modifier) :=
  match parsePatternAndModifier s with
  | .ok (p, rest) =>
    (match parseModifiers rest with
     | .ok ms => .ok (p, ms)
     | .err e => .err e
     | .panic q => .panic q)
  | .err e => .err e
  | .panic q => .panic q

/-- `NoiseParams::from_str` (non-`hfs`). -/
def parse (f : Features) (s : Bytes) : Res Params :=
  match splitBy 95 s with
  | [] => .panic "split yields no piece"
  | p0 :: r0 =>
    match parseBase p0 with
    | .err e => .err e
    | .panic q => .panic q
    | .ok () =>
    match r0 with
    | [] => .err (.pattern .tooFewParameters)
    | p1 :: r1 =>
    match parseHandshake p1 with
    | .err e => .err e
    | .panic q => .panic q
    | .ok (pat, mods) =>
    match r1 with
    | [] => .err (.pattern .tooFewParameters)
    | p2 :: r2 =>
    match parseDh f p2 with
    | .err e => .err e
    | .panic q => .panic q
    | .ok dh =>
    match r2 with
    | [] => .err (.pattern .tooFewParameters)
    | p3 :: r3 =>
    match parseCipher f p3 with
    | .err e => .err e
    | .panic q => .panic q
    | .ok ci =>
    match r3 with
    | [] => .err (.pattern .tooFewParameters)
    | p4 :: r4 =>
    match parseHash p4 with
    | .err e => .err e
    | .panic q => .panic q
    | .ok ha =>
    match r4 with
    | [] => .ok { name := s, pattern := pat, mods := mods, dh := dh, cipher := ci, hash := ha }
    | _ :: _ => .err (.pattern .tooManyParameters)

def DhChoice.toStr : DhChoice → String
  | .c25519 => "Curve25519" | .c448 => "Curve448" | .p256 => "P256"
def CipherChoice.toStr : CipherChoice → String
  | .chachaPoly => "ChaChaPoly" | .xchachaPoly => "XChaChaPoly" | .aesGcm => "AESGCM"
def HashChoice.toStr : HashChoice → String
  | .sha256 => "SHA256" | .sha512 => "SHA512" | .blake2s => "Blake2s" | .blake2b => "Blake2b"

end Model
end SnowVerif
