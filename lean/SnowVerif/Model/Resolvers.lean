/-
  Model of `resolvers/mod.rs`: resolver expressions built from the built-in
  resolvers (tables regenerated from the code), stub resolvers lacking one kind,
  and `FallbackResolver`.
-/
import SnowVerif.Generated.Tables

namespace SnowVerif.Model

/-- Which implementation family a primitive comes from. -/
inductive Backend | toy | default | ring
  deriving DecidableEq, Repr

/-- Resolver expressions of the line protocol: a leaf resolver or `FallbackResolver::new(a, b)`. -/
inductive RExpr
  | leaf (name : String)
  | fb (preferred fallback : RExpr)
  deriving Repr, Inhabited

/-- What a leaf resolver returns for `resolve_<kind>(choice)`: `none` or the backend providing it. -/
def leafProvides (leaf kind choice : String) : Option Backend :=
  match leaf with
  | "toy" => some .toy
  | "toy-norng" => if kind == "rng" then none else some .toy
  | "toy-nodh" => if kind == "dh" then none else some .toy
  | "toy-nocipher" => if kind == "cipher" then none else some .toy
  | "toy-nohash" => if kind == "hash" then none else some .toy
  | "none" => none
  | "mark1" | "mark2" => some .toy
  | "default" | "ring" =>
    match Generated.resolverRows.find? fun r => r.resolver == leaf && r.kind == kind && r.choice == choice with
    | some row => if row.available then some (if leaf == "ring" then .ring else .default) else none
    | none => none
  | _ => none

/-- `FallbackResolver::resolve_*`: `preferred.resolve(..).or_else(|| fallback.resolve(..))`. -/
def provides : RExpr → String → String → Option Backend
  | .leaf l, k, c => leafProvides l k c
  | .fb a b, k, c =>
    match provides a k c with
    | some x => some x
    | none => provides b k c

/-- Which random source a resolver expression yields: the mark of the first leaf that provides an
    RNG ("" for the unmarked OS sources). -/
def leafMark (leaf : String) : String :=
  if leaf == "mark1" then "01" else if leaf == "mark2" then "02" else ""

def rngMark : RExpr → Option String
  | .leaf l => (leafProvides l "rng" "-").map fun _ => leafMark l
  | .fb a b =>
    match rngMark a with
    | some m => some m
    | none => rngMark b

end SnowVerif.Model
