/-
  Model of `resolvers/mod.rs`: resolver expressions built from the built-in
  resolvers (tables regenerated from the code), stub resolvers lacking one kind,
  and `FallbackResolver`.
-/
import SnowVerif.Generated.Tables

namespace SnowVerif.Model

/-- Which implementation family a primitive comes from. -/
inductive Backend | toy | default | ring
  deriving DecidableEq, Repr

/-- Resolver expressions of the line protocol: a leaf resolver or `FallbackResolver::new(a, b)`. -/
inductive RExpr
  | leaf (name : String)
  | fb (preferred fallback : RExpr)
  deriving Repr, Inhabited

/-- What a leaf resolver returns for `resolve_<kind>(choice)`: `none` or the backend providing it. -/
def leafProvides (leaf kind choice : String) : Option Backend :=
  match leaf with
  | "toy" => some .toy
  | "toy-norng" => if kind == "rng" then none else some .toy
  | "toy-nodh" => if kind == "dh" then none else some .toy
  | "toy-nocipher" => if kind == "cipher" then none else some .toy
  | "toy-nohash" => if kind == "hash" then none else some .toy
  | "none" => none
  | "default" | "ring" =>
    match Generated.resolverRows.find? fun r => r.resolver == leaf && r.kind == kind && r.choice == choice with
    | some row => if row.available then some (if leaf == "ring" then .ring else .default) else none
    | none => none
  | _ => none

/-- `FallbackResolver::resolve_*`: `preferred.resolve(..).or_else(|| fallback.resolve(..))`. -/
def provides : RExpr → String → String → Option Backend
  | .leaf l, k, c => leafProvides l k c
  | .fb a b, k, c =>
    match provides a k c with
    | some x => some x
    | none => provides b k c

end SnowVerif.Model
