/-
  Handshake tokens and pattern instances (`params/patterns.rs`: `Token`,
  `DhToken`, `HandshakeTokens`), without the `hfs` feature.
-/
namespace SnowVerif

inductive Tok
  | e | s | ee | es | se | ss
  | psk (n : Nat)
  deriving DecidableEq, Repr, Inhabited

def Tok.toStr : Tok → String
  | .e => "e" | .s => "s" | .ee => "ee" | .es => "es" | .se => "se" | .ss => "ss"
  | .psk n => s!"psk{n}"

/-- `HandshakeTokens`: both pre-message token lists and the message token lists. -/
structure Inst where
  preI : List Tok
  preR : List Tok
  msgs : List (List Tok)
  deriving DecidableEq, Repr, Inhabited

/-- `HandshakeModifier` (no `hfs`). -/
inductive Modifier
  | psk (n : Nat)
  | fallback
  deriving DecidableEq, Repr

def Modifier.toStr : Modifier → String
  | .psk n => s!"psk{n}"
  | .fallback => "fallback"

end SnowVerif
