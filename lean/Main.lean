/-
  Line-protocol driver: executes an operation script on the model and prints one
  canonical result line per operation (same format as harness/src/exec.rs).
-/
import SnowVerif.Model.Builder
import SnowVerif.Model.BuilderApi
import SnowVerif.Model.Resolvers
import SnowVerif.Crypto.Real
import SnowVerif.Spec.Validity
import SnowVerif.Spec.Handshake
import SnowVerif.Spec.Patterns

open SnowVerif SnowVerif.Model SnowVerif.Bytes

namespace Drv

def hex (b : Bytes) : String := toHex b

def unhex (s : String) : Bytes := (ofHex s).getD []

def optBytes (s : String) : Option Bytes := if s == "none" then none else ofHex s

def optHex : Option Bytes → String
  | some b => hex b
  | none => "none"

def fnv (b : Bytes) : UInt64 :=
  b.foldl (fun h x => (h ^^^ x.toUInt64) * 0x100000001b3) 0xcbf29ce484222325

def hex64 (v : UInt64) : String :=
  String.ofList ((List.range 16).map fun i => hexDigit ((v >>> (4 * (15 - i)).toUInt64).toNat % 16))

def dig (b : Bytes) : String := s!"{b.length}.{hex64 (fnv b)}"

def fmtEvent : Event → String
  | .enc k n ad pt => s!"enc:{hex k}:{n.toNat}:{dig ad}:{dig pt}"
  | .dec k n ad ct ok => s!"dec:{hex k}:{n.toNat}:{dig ad}:{dig ct}:{if ok then 1 else 0}"
  | .rng b => s!"rng:{hex b}"

def fmtEvents (evs : List Event) : String :=
  if evs.isEmpty then "-" else ",".intercalate (evs.map fmtEvent)

/-- Trailing fill bytes (0xA5) stripped. -/
def strip (b : Bytes) : Bytes := (b.reverse.dropWhile (· == 0xA5)).reverse

def b01 (b : Bool) : String := if b then "1" else "0"

/-! ### resolver expressions -/

/-- Split `a,b` at the top-level comma. -/
def splitTop (cs : List Char) : Option (List Char × List Char) :=
  let rec go (depth : Nat) (acc : List Char) : List Char → Option (List Char × List Char)
    | [] => none
    | c :: rest =>
      if c == '(' then go (depth + 1) (c :: acc) rest
      else if c == ')' then go (depth - 1) (c :: acc) rest
      else if c == ',' && depth == 0 then some (acc.reverse, rest)
      else go depth (c :: acc) rest
  go 0 [] cs

def parseRExpr (fuel : Nat) (s : String) : Option RExpr :=
  match fuel with
  | 0 => none
  | fuel + 1 =>
    if s.startsWith "fb(" && s.endsWith ")" then
      let inner := (s.toList.drop 3).dropLast
      match splitTop inner with
      | some (a, b) =>
        match parseRExpr fuel (String.ofList a), parseRExpr fuel (String.ofList b) with
        | some x, some y => some (.fb x y)
        | _, _ => none
      | none => none
    else some (.leaf (if s == "new" then "default" else s))

def toReal : Backend → Real.Backend
  | .toy => .toy
  | .default => .default
  | .ring => .ring

def dhSel (c : String) : Nat := if c == "Curve25519" then 0 else if c == "Curve448" then 1 else 2
def cipherSel (c : String) : Nat := if c == "ChaChaPoly" then 0 else if c == "XChaChaPoly" then 1 else 2
def hashSel (c : String) : Nat :=
  if c == "SHA256" then 0 else if c == "SHA512" then 1 else if c == "Blake2s" then 2 else 3

/-- A ring leaf asked for a DH falls through to toy shapes; never used because ring has no DH. -/
def suiteFor (e : RExpr) (p : Params) : Suite × Avail :=
  let dc := p.dh.toStr
  let cc := p.cipher.toStr
  let hc := p.hash.toStr
  let db := provides e "dh" dc
  let cb := provides e "cipher" cc
  let hb := provides e "hash" hc
  let rb := provides e "rng" "-"
  let d := Real.dhImpl (toReal (db.getD .toy)) (dhSel dc)
  let c := Real.cipherImpl (toReal (cb.getD .toy)) (cipherSel cc)
  let h := Real.hashImpl (toReal (hb.getD .toy)) (hashSel hc)
  (Real.mkSuite d (toReal (cb.getD .toy)) c h,
   { rng := rb.isSome, dh := db.isSome, cipher := cb.isSome, hash := hb.isSome })

def resolveLine (e : RExpr) (kind choice : String) : String :=
  match provides e kind choice with
  | none => "none"
  | some b0 =>
    let b := toReal b0
    match kind with
    | "rng" =>
      (match rngMark e with
       | some m => if m == "" then "some" else s!"some mark={m}"
       | none => "none")
    | "dh" =>
      let d := Real.dhImpl b (dhSel choice)
      s!"some name={d.name} a={d.pubLen} b={d.privLen} c={d.dhLen}"
    | "hash" =>
      let h := Real.hashImpl b (hashSel choice)
      s!"some name={h.name} a={h.hashLen} b={h.blockLen} c=0"
    | "cipher" =>
      let c := Real.cipherImpl b (cipherSel choice)
      s!"some name={c.name} a=0 b=0 c=0"
    | _ => "badkind"

/-! ### sessions -/

inductive Sess
  | hs (S : Suite) (st : HS)
  | ts (S : Suite) (st : TS)
  | sts (S : Suite) (st : TS)
  | dead

structure St where
  feats : Features := { p256 := true, xchacha := true }
  sess : List (Nat × Sess) := []

def St.get (st : St) (sid : Nat) : Option Sess := (st.sess.find? (·.1 == sid)).map (·.2)
def St.put (st : St) (sid : Nat) (s : Sess) : St :=
  { st with sess := (sid, s) :: st.sess.filter (·.1 != sid) }
def St.del (st : St) (sid : Nat) : St := { st with sess := st.sess.filter (·.1 != sid) }

def kv (parts : List String) (key : String) : String :=
  match parts.find? (·.startsWith (key ++ "=")) with
  | some p => (p.drop (key.length + 1)).toString
  | none => "none"

def fmtToks (ts : List Tok) : String := ",".intercalate (ts.map Tok.toStr)

def fmtInst (i : Inst) : String :=
  s!"ok pre_i=[{fmtToks i.preI}] pre_r=[{fmtToks i.preR}] msgs=[{"|".intercalate (i.msgs.map fmtToks)}]"

def showRes {α} (r : Res α) (f : α → String) : String :=
  match r with
  | .ok a => "ok " ++ f a
  | .err e => s!"err {e.toStr}"
  | .panic _ => "panic"

def parseMods (s : String) : List Modifier :=
  if s == "-" then [] else
  (s.splitOn ",").map fun m =>
    if m == "fallback" then Modifier.fallback else Modifier.psk ((m.drop 3).toString.toNat!)

def fmtMods (ms : List Modifier) : String :=
  if ms.isEmpty then "-" else ",".intercalate (ms.map Modifier.toStr)

def resBuf {α} (r : Res α) (okStr : α → String) (buf : Bytes) (ev : List Event) : String :=
  match r with
  | .ok a => s!"ok {okStr a} buf={hex (strip buf)} ev={fmtEvents ev}"
  | .err e => s!"err {e.toStr} buf={hex (strip buf)} ev={fmtEvents ev}"
  | .panic _ => "panic"

/-- What a wrapper may leave in the caller's buffer when authentication fails without revealing
    anything: the C19 theorems hold for EVERY `decFailBuf` (it is a function of the ciphertext and
    the capacity only, the key does not occur). The instance of the backend in use comes first in
    the printed list; the others are the remaining plaintext-free shapes (copy of the ciphertext
    body; body zeroed, with or without the tag behind it; nothing written), accepted by the
    correspondence so that a harmless change of that behaviour does not break the tie. -/
def failVariants : List (Bytes → Nat → Bytes) :=
  [ fun ct _ => ct.take (ct.length - 16),
    fun ct cap => if cap ≥ ct.length then Bytes.zeros (ct.length - 16) ++ ct.drop (ct.length - 16) else [],
    fun ct cap => if cap ≥ ct.length then Bytes.zeros (ct.length - 16) ++ ct.drop (ct.length - 16) else Bytes.zeros (ct.length - 16),
    fun ct _ => Bytes.zeros (ct.length - 16),
    fun _ _ => [] ]

def altBufs (actual : Bytes) (alts : List Bytes) : String :=
  let a := hex (strip actual)
  let others := ((alts.map fun b => hex (strip b)).filter (· != a)).eraseDups
  "|".intercalate (a :: others)

/-- `resBuf` for reads: on an error the buffer field lists the acceptable alternatives. -/
def resBufR {α} (r : Res α) (okStr : α → String) (buf : Bytes) (ev : List Event) (alts : Unit → List Bytes) : String :=
  match r with
  | .err e => s!"err {e.toStr} buf={altBufs buf (alts ())} ev={fmtEvents ev}"
  | _ => resBuf r okStr buf ev

def isUtf8 (b : Bytes) : Bool := (String.fromUTF8? (ByteArray.mk b.toArray)).isSome

def primLine (parts : List String) : String :=
  let arg (i : Nat) : String := parts.getD i ""
  match parseRExpr 8 (arg 1) with
  | none => "badexpr"
  | some e =>
    let kind := arg 2
    match kind with
    | "hash" | "hmac" | "hkdf" | "hmacseq" | "hashseq" =>
      (match provides e "hash" (arg 3) with
       | none => "none"
       | some b0 =>
         let b := toReal b0
         let h := Real.hashImpl b (hashSel (arg 3))
         let S := Real.mkSuite (Real.dhImpl .toy 0) .toy (Real.cipherImpl .toy 0) h
         if kind == "hash" then s!"ok {hex (h.hash (unhex (arg 4)))}"
         else if kind == "hashseq" then
           -- pending input on the implementation's hash object is discarded by reset() and invisible to hmac / hkdf
           let data := unhex (arg 5)
           let key := unhex (arg 6)
           let o := hkdf3 S (key.take h.hashLen) data
           -- ... and input in pieces is input of the concatenation (pending ++ data ++ key, fed as three pieces,
           -- with a result() read in the middle that must not disturb the object)
           let pend := unhex (arg 4)
           s!"ok {hex (h.hash data)} {hex (hmac S key data)} {hex o.1} {hex o.2.1} {hex (h.hash (pend ++ data))} {hex (h.hash (pend ++ data ++ key))}"
         else if kind == "hmacseq" then
           -- several HMACs on ONE hash object of the implementation: the function has no memory
           let outs := ((arg 4).splitOn ",").map fun kd =>
             match kd.splitOn ":" with
             | [k, d] => hex (hmac S (unhex k) (unhex d))
             | _ => "?"
           "ok " ++ ",".intercalate outs
         else if kind == "hmac" then s!"ok {hex (hmac S (unhex (arg 4)) (unhex (arg 5)))}"
         else
           let n := (arg 6).toNat!
           let o := hkdf3 S (unhex (arg 4)) (unhex (arg 5))
           s!"ok {hex o.1} {if n ≥ 2 then hex o.2.1 else "-"} {if n ≥ 3 then hex o.2.2 else "-"}")
    | "enc" | "dec" | "rekey" =>
      (match provides e "cipher" (arg 3) with
       | none => "none"
       | some b0 =>
         let b := toReal b0
         let c := Real.cipherImpl b (cipherSel (arg 3))
         let key := unhex (arg 4)
         if kind == "enc" then
           s!"ok {hex (c.enc key (arg 5).toNat!.toUInt64 (unhex (arg 6)) (unhex (arg 7)))}"
         else if kind == "dec" then
           let ct := unhex (arg 7)
           let cap := (arg 8).toNat!
           match c.dec key (arg 5).toNat!.toUInt64 (unhex (arg 6)) ct with
           | some p => s!"ok {hex p} buf={hex (strip (Real.okBuf b ct p cap))}"
           | none => s!"err Decrypt buf={altBufs (Real.failBuf b ct cap) (failVariants.map fun v => v ct cap)}"
         else
           let S := Real.mkSuite (Real.dhImpl .toy 0) b c (Real.hashImpl .toy 0)
           s!"ok {hex (c.enc (rekeyKey S key) 0 [] (zeros 16))}")
    | "pub" | "dh" =>
      (match provides e "dh" (arg 3) with
       | none => "none"
       | some b0 =>
         let b := toReal b0
         let d := Real.dhImpl b (dhSel (arg 3))
         let k := unhex (arg 4)
         if !d.validPriv k then "panic"
         else if kind == "pub" then s!"ok {hex (d.pubOf k)} priv={hex (fit 32 k)}"
         else match d.dh k ((unhex (arg 5)).take d.pubLen) with
           | some o => s!"ok {hex o}"
           | none => "err Dh")
    | "dhseq" =>
      -- one Dh object given two keys in a row: the key pair and the DH are those of the last key
      (match provides e "dh" (arg 3) with
       | none => "none"
       | some b0 =>
         let b := toReal b0
         let d := Real.dhImpl b (dhSel (arg 3))
         let one := fun (k : Bytes) =>
           if !d.validPriv k then "panic"
           else s!"{hex (d.pubOf k)} " ++ (match d.dh k ((unhex (arg 6)).take d.pubLen) with
             | some o => hex o
             | none => "errDh")
         s!"ok {one (unhex (arg 5))} {hex (d.pubOf (unhex (arg 5)))} " ++ (match d.dh (unhex (arg 5)) ((unhex (arg 6)).take d.pubLen) with
             | some o => hex o
             | none => "errDh"))
    | _ => "badop"


/-! ### `specvec`: one published test vector executed on the *specification* (`Spec.*`) with the
    Lean reference primitives. Independent of the model of snow and of snow itself. -/

def optKp (S : Suite) (s : String) : Option Spec.KeyPair :=
  (optBytes s).map fun k => { priv := k, pub := S.pubOf k }

def specPsks (mods : List Modifier) (s : String) : List (Option Bytes) :=
  let keys : List Bytes := if s == "none" then [] else (s.splitOn ",").map unhex
  let slots : List Nat := mods.filterMap fun m => match m with | .psk n => some n | _ => none
  let pairs := slots.zip keys
  (List.range 10).map fun i => (pairs.find? (·.1 == i)).map (·.2)

/-- Handshake phase: returns messages consumed, the two final states and the split. -/
def specHs (S : Suite) (ie re : Spec.KeyPair) :
    Nat → Nat → Spec.HandshakeState → Spec.HandshakeState → List (Bytes × Bytes) →
    Except String (Nat × Spec.HandshakeState × Spec.HandshakeState × Option (Spec.CipherState × Spec.CipherState))
  | 0, _, _, _, _ => .error "fuel"
  | fuel + 1, i, hi, hr, msgs =>
    if hi.msgs.isEmpty then .ok (i, hi, hr, none) else
    match msgs with
    | [] => .error s!"vector ends before the handshake does (message {i})"
    | (pl, ct) :: rest =>
      let iSends := i % 2 == 0
      let w := if iSends then hi else hr
      let r := if iSends then hr else hi
      match Spec.HandshakeState.writeMessage S w pl (if iSends then ie else re) with
      | none => .error s!"spec WriteMessage undefined at message {i}"
      | some (out, w', sp) =>
        if out != ct then .error s!"message {i}: spec writes {hex out}, vector has {hex ct}" else
        match Spec.HandshakeState.readMessage S r ct with
        | none => .error s!"spec ReadMessage undefined at message {i}"
        | some (pl', r', sp') =>
          if pl' != pl then .error s!"message {i}: spec reads {hex pl'}, vector has {hex pl}" else
          if sp != sp' then .error s!"message {i}: the two parties split differently" else
          let hi' := if iSends then w' else r'
          let hr' := if iSends then r' else w'
          match sp with
          | some pr => .ok (i + 1, hi', hr', some pr)
          | none => specHs S ie re fuel (i + 1) hi' hr' rest

def specTransport (S : Suite) (oneway : Bool) :
    Nat → Spec.CipherState → Spec.CipherState → List (Bytes × Bytes) → Except String Nat
  | i, _, _, [] => .ok i
  | i, c1, c2, (pl, ct) :: rest =>
    let iSends := oneway || i % 2 == 0
    let c := if iSends then c1 else c2
    let (out, c') := Spec.CipherState.encryptWithAd S c [] pl
    if out != ct then .error s!"transport message {i}: spec writes {hex out}, vector has {hex ct}" else
    match Spec.CipherState.decryptWithAd S c [] ct with
    | none => .error s!"transport message {i}: spec DecryptWithAd fails"
    | some (pl', _) =>
      if pl' != pl then .error s!"transport message {i}: spec reads {hex pl'}" else
      if iSends then specTransport S oneway (i + 1) c' c2 rest else specTransport S oneway (i + 1) c1 c' rest

def specVec (parts : List String) : String :=
  let g := kv parts
  let d := Real.dhImpl .default (dhSel (if g "dh" == "25519" then "Curve25519" else g "dh"))
  let cname := g "cipher"
  let c := Real.cipherImpl .default (if cname == "ChaChaPoly" then 0 else if cname == "XChaChaPoly" then 1 else 2)
  let hname := g "hash"
  let h := Real.hashImpl .default
    (if hname == "SHA256" then 0 else if hname == "SHA512" then 1 else if hname == "BLAKE2s" then 2 else 3)
  let S := Real.mkSuite d .default c h
  let mods := parseMods (g "mods")
  match Spec.pattern (g "pat") with
  | none => s!"skip unknown pattern {g "pat"}"
  | some base =>
    match Spec.applyModifiers base mods with
    | none => "skip modifiers have no place"
    | some inst =>
      let isPsk := mods.any fun m => match m with | .psk _ => true | _ => false
      let name := unhex (g "name")
      let pro (k : String) : Bytes := if g k == "-" then [] else unhex (g k)
      let hi := Spec.HandshakeState.init S name (pro "ipro") inst isPsk true (optKp S (g "is")) none
        (optBytes (g "irs")) none (specPsks mods (g "ipsks"))
      let hr := Spec.HandshakeState.init S name (pro "rpro") inst isPsk false (optKp S (g "rs")) none
        (optBytes (g "rrs")) none (specPsks mods (g "rpsks"))
      match hi, hr with
      | some hi, some hr =>
        let msgs : List (Bytes × Bytes) := ((g "msgs").splitOn ";").map fun m =>
          match m.splitOn ":" with
          | [a, b] => ((if a == "-" then [] else unhex a), (if b == "-" then [] else unhex b))
          | _ => ([], [])
        let ie := (optKp S (g "ie")).getD ⟨[], []⟩
        let re := (optKp S (g "re")).getD ⟨[], []⟩
        match specHs S ie re 16 0 hi hr msgs with
        | .error e => s!"mismatch {e}"
        | .ok (n, hi', hr', sp) =>
          match sp with
          | none => "mismatch handshake did not split"
          | some (c1, c2) =>
            if hi'.ss.h != hr'.ss.h then "mismatch parties disagree on h" else
            if g "hh" != "none" && hex hi'.ss.h != g "hh" then s!"mismatch handshake hash {hex hi'.ss.h}" else
            match specTransport S (inst.msgs.length == 1) n c1 c2 (msgs.drop n) with
            | .error e => s!"mismatch {e}"
            | .ok total => s!"ok messages={total} hs={n} hh={if g "hh" == "none" then "absent" else "checked"}"
      | _, _ => "mismatch Initialize undefined (pre-message key missing)"

/-- Execute one operation line. -/
def step (st : St) (line : String) : St × String :=
  let parts := line.splitOn " "
  let arg (i : Nat) : String := parts.getD i ""
  let nat (i : Nat) : Nat := (arg i).toNat!
  match arg 0 with
  | "features" =>
    ({ st with feats := { p256 := kv parts "p256" == "1", xchacha := kv parts "xchacha" == "1" } }, line)
  | "parse" =>
    let name := unhex (arg 1)
    if !isUtf8 name then (st, "notutf8") else
    (match parse st.feats name with
     | .ok p => (st, s!"ok pattern={p.pattern.name} mods={fmtMods p.mods} dh={p.dh.toStr} cipher={p.cipher.toStr} hash={p.hash.toStr} name={hex p.name} psk={b01 (p.mods.any (fun m => match m with | .psk _ => true | _ => false))} fb={b01 (p.mods.contains .fallback)}")
     | .err e => (st, s!"err {e.toStr}")
     | .panic _ => (st, "panic"))
  | "parse_part" =>
    -- the individual FromStr impls (BaseChoice, DHChoice, CipherChoice, HashChoice, HandshakePattern,
    -- HandshakeModifier, HandshakeModifierList, HandshakeChoice) called directly
    let t := unhex (arg 2)
    if !isUtf8 t then (st, "notutf8") else
    (st, match arg 1 with
      | "base" => showRes (parseBase t) (fun _ => "Noise")
      | "dh" => showRes (parseDh st.feats t) DhChoice.toStr
      | "cipher" => showRes (parseCipher st.feats t) CipherChoice.toStr
      | "hash" => showRes (parseHash t) HashChoice.toStr
      | "pattern" =>
        (match parsePattern t with
         | some p => s!"ok {p.name}"
         | none => "err Pattern(UnsupportedHandshakeType)")
      | "modifier" => showRes (parseModifierDirect t) Modifier.toStr
      | "modlist" => showRes (parseModifiers t) fmtMods
      | "handshake" => showRes (parseHandshake t) (fun pm =>
          s!"{pm.1.name} {fmtMods pm.2} psk={b01 (pm.2.any (fun m => match m with | .psk _ => true | _ => false))} fb={b01 (pm.2.contains .fallback)}")
      | _ => "ok badkind")
  | "tokens" =>
    (match Generated.allPatterns[nat 1]? with
     | none => (st, "nopattern")
     | some p =>
       match handshakeTokens p (parseMods (arg 2)) with
       | .ok i => (st, fmtInst i)
       | .err e => (st, s!"err {e.toStr}")
       | .panic _ => (st, "panic"))
  | "build" =>
    let sid := nat 1
    let name := unhex (arg 3)
    (match parse st.feats name with
     | .err e => (st, s!"err {e.toStr}")
     | .panic _ => (st, "panic")
     | .ok p =>
       match parseRExpr 8 (kv parts "res") with
       | none => (st, "badexpr")
       | some e =>
         let (S, av) := suiteFor e p
         let pskStr := kv parts "psks"
         let pskPairs : List (Nat × Bytes) :=
           if pskStr == "none" then [] else
           (pskStr.splitOn ",").map fun x =>
             match x.splitOn ":" with
             | [i, k] => (i.toNat!, unhex k)
             | _ => (99, [])
         if pskPairs.any (·.1 ≥ 10) then (st, "err Init(ValidatePskPosition)") else
         let psks : List (Option Bytes) :=
           (List.range 10).map fun i => (pskPairs.find? (·.1 == i)).map (·.2)
         let cfg : BuildCfg :=
           { pattern := p.pattern
             -- `mods=`: NoiseParams.handshake.modifiers.list replaced by a hand-built list after parsing
             mods := (if parts.any (·.startsWith "mods=") then parseMods (kv parts "mods") else p.mods)
             -- `alias=x<hex>`: NoiseParams.name replaced by a free-form string after parsing
             name := (if (kv parts "alias").startsWith "x" then unhex ((kv parts "alias").drop 1).toString else p.name)
             initiator := arg 2 == "i"
             s := optBytes (kv parts "s"), eFixed := optBytes (kv parts "e"), rs := optBytes (kv parts "rs")
             psks := psks, prologue := (optBytes (kv parts "pro")).getD [], rng := unhex (kv parts "rng") }
         match build S av cfg with
         | .ok hs => (st.put sid (.hs S hs), "ok")
         | .err x =>
           -- C12 asks for "a descriptive error at build time", not for a particular one when several
           -- things are wrong at once: after the error the code reports (first), every other error
           -- whose own condition holds for this configuration is listed as an acceptable alternative
           let alts : List String :=
             (if cfg.s.isNone && needsLocalStatic cfg.pattern cfg.initiator then ["Prereq(LocalPrivateKey)"] else []) ++
             (if cfg.rs.isNone && needKnownRemote cfg.pattern cfg.initiator then ["Prereq(RemotePublicKey)"] else []) ++
             (if !av.rng then ["Init(GetRngImpl)"] else []) ++ (if !av.cipher then ["Init(GetCipherImpl)"] else []) ++
             (if !av.hash then ["Init(GetHashImpl)"] else []) ++ (if !av.dh then ["Init(GetDhImpl)"] else []) ++
             (match handshakeTokens cfg.pattern cfg.mods with
              | .err y => [y.toStr]
              | _ => [])
           let others := (alts.filter (· != x.toStr)).eraseDups
           (st, "err " ++ String.intercalate "|" (x.toStr :: others))
         | .panic _ => (st, "panic"))
  | "hs_write" =>
    (match st.get (nat 1) with
     | some (.hs S hs) =>
       let (r, hs', acc, ev) := hs.writeMessage S (unhex (arg 2)) (nat 3)
       (st.put (nat 1) (.hs S hs'), resBuf r (fun n => toString n) acc ev)
     | _ => (st, "nosession"))
  | "hs_read" =>
    (match st.get (nat 1) with
     | some (.hs S hs) =>
       let (r, hs', buf, ev) := hs.readMessage S (unhex (arg 2)) (nat 3)
       (st.put (nat 1) (.hs S hs'), resBufR r hex buf ev
          (fun _ => failVariants.map fun v => (hs.readMessage { S with decFailBuf := v } (unhex (arg 2)) (nat 3)).2.2.1))
     | _ => (st, "nosession"))
  | "set_psk" =>
    (match st.get (nat 1) with
     | some (.hs S hs) =>
       (match hs.setPsk (nat 2) (unhex (arg 3)) with
        | (.ok (), hs') => (st.put (nat 1) (.hs S hs'), "ok")
        | (.err e, _) => (st, s!"err {e.toStr}")
        | (.panic _, _) => (st, "panic"))
     | _ => (st, "nosession"))
  | "query" =>
    (match st.get (nat 1) with
     | some (.hs S hs) =>
       (st, s!"hs turn={b01 hs.isMyTurn} fin={b01 hs.isHandshakeFinished} init={b01 hs.isInitiator} enc={b01 hs.wasWritePayloadEncrypted} hh={hex hs.getHandshakeHash} rs={optHex (hs.getRemoteStatic S)}")
     | some (.ts _ ts) =>
       (st, s!"ts init={b01 ts.initiator} rs={optHex ts.getRemoteStatic} rn={ts.receivingNonce.toNat} sn={ts.sendingNonce.toNat}")
     | some (.sts _ ts) => (st, s!"sts init={b01 ts.initiator} rs={optHex ts.getRemoteStatic}")
     | _ => (st, "nosession"))
  | "raw_split" =>
    (match st.get (nat 1) with
     | some (.hs S hs) => (st, s!"ok {hex (hs.rawSplit S).1} {hex (hs.rawSplit S).2}")
     | _ => (st, "nosession"))
  | "to_transport" | "to_stateless" | "to_transport_tf" | "to_stateless_tf" =>   -- `_tf`: through the TryFrom impls
    (match st.get (nat 1) with
     | some (.hs S hs) =>
       (match TS.ofHandshake S hs with
        | .ok ts => (st.put (nat 1) (if arg 0 == "to_stateless" || arg 0 == "to_stateless_tf" then .sts S ts else .ts S ts), "ok")
        | .err e => (st.put (nat 1) .dead, s!"err {e.toStr}")
        | .panic _ => (st, "panic"))
     | _ => (st, "nosession"))
  | "t_write" =>
    (match st.get (nat 1) with
     | some (.ts S ts) =>
       let (r, ts', ev) := ts.writeMessage S (unhex (arg 2)) (nat 3)
       let acc := match r with | .ok c => c | _ => []
       (st.put (nat 1) (.ts S ts'), resBuf r (fun c => toString c.length) acc ev)
     | _ => (st, "nosession"))
  | "t_read" =>
    (match st.get (nat 1) with
     | some (.ts S ts) =>
       let (r, ts', buf, ev) := ts.readMessage S (unhex (arg 2)) (nat 3)
       (st.put (nat 1) (.ts S ts'), resBufR r hex buf ev
          (fun _ => failVariants.map fun v => (ts.readMessage { S with decFailBuf := v } (unhex (arg 2)) (nat 3)).2.2.1))
     | _ => (st, "nosession"))
  | "st_write" =>
    (match st.get (nat 1) with
     | some (.sts S ts) =>
       let (r, ev) := ts.stWrite S (nat 2).toUInt64 (unhex (arg 3)) (nat 4)
       let acc := match r with | .ok c => c | _ => []
       (st, resBuf r (fun c => toString c.length) acc ev)
     | _ => (st, "nosession"))
  | "st_read" =>
    (match st.get (nat 1) with
     | some (.sts S ts) =>
       let (r, buf, ev) := ts.stRead S (nat 2).toUInt64 (unhex (arg 3)) (nat 4)
       (st, resBufR r hex buf ev
          (fun _ => failVariants.map fun v => (ts.stRead { S with decFailBuf := v } (nat 2).toUInt64 (unhex (arg 3)) (nat 4)).2.1))
     | _ => (st, "nosession"))
  | "rekey" =>
    let f (S : Suite) (ts : TS) : Option (TS × List Event) :=
      if arg 2 == "out" then some (ts.rekeyOutgoing S)
      else if arg 2 == "in" then some (ts.rekeyIncoming S) else none
    (match st.get (nat 1) with
     | some (.ts S ts) =>
       (match f S ts with
        | some (ts', ev) => (st.put (nat 1) (.ts S ts'), s!"ok ev={fmtEvents ev}")
        | none => (st, "nosession"))
     | some (.sts S ts) =>
       (match f S ts with
        | some (ts', ev) => (st.put (nat 1) (.sts S ts'), s!"ok ev={fmtEvents ev}")
        | none => (st, "nosession"))
     | _ => (st, "nosession"))
  | "rekey_manual" | "rekey_manual_d" =>   -- `_d`: rekey_initiator_manually / rekey_responder_manually called directly
    (match st.get (nat 1) with
     | some (.ts S ts) => (st.put (nat 1) (.ts S (ts.rekeyManually (optBytes (arg 2)) (optBytes (arg 3)))), "ok")
     | some (.sts S ts) => (st.put (nat 1) (.sts S (ts.rekeyManually (optBytes (arg 2)) (optBytes (arg 3)))), "ok")
     | _ => (st, "nosession"))
  | "set_recv_nonce" =>
    (match st.get (nat 1) with
     | some (.ts S ts) => (st.put (nat 1) (.ts S (ts.setReceivingNonce (nat 2).toUInt64)), "ok")
     | _ => (st, "nosession"))
  | "set_send_nonce" =>
    (match st.get (nat 1) with
     | some (.ts S ts) => (st.put (nat 1) (.ts S (ts.setSendingNonce (nat 2).toUInt64)), "ok")
     | _ => (st, "nosession"))
  | "drop" => (st.del (nat 1), "ok")
  | "resolve" | "resolve_on" =>
    -- `resolve_on` asks one long-lived resolver instance; the model's resolvers are values, so the answer is
    -- the same function of (expression, kind, choice)
    (match parseRExpr 8 (arg 1) with
     | some e => (st, resolveLine e (arg 2) (arg 3))
     | none => (st, "badexpr"))
  | "setters" =>
    let spec := arg 1
    let items : List Setter :=
      if spec == "-" || spec == "" then [] else
      (spec.splitOn ",").filterMap fun it =>
        let f := it.splitOn ":"
        let unh (h : String) : Bytes := if h == "-" then [] else unhex h
        match f with
        | ["psk", loc, key] => some (.psk (loc.toNat?.getD 255) (Bytes.fit 32 (unh key)))
        | ["s", k] => some (.localPrivateKey (unh k))
        | ["e", k] => some (.fixedEphemeral (unh k))
        | ["pro", k] => some (.prologue (unh k))
        | ["rs", k] => some (.remotePublicKey (unh k))
        | _ => none
    (match BuilderSt.new.configure items with
     | .ok _ => (st, "ok")
     | .err e => (st, s!"err {e.toStr}")
     | .panic _ => (st, "panic"))
  | "genkey" =>
    let name := unhex (arg 2)
    (match parse st.feats name with
     | .err e => (st, s!"err {e.toStr}")
     | .panic _ => (st, "panic")
     | .ok p =>
       match parseRExpr 8 (arg 1) with
       | none => (st, "badexpr")
       | some e =>
         let (S, av) := suiteFor e p
         match generateKeypair S av (unhex (kv parts "rng")) with
         | .ok (sk, pk) => (st, s!"ok priv={hex sk} pub={hex pk}")
         | .err x => (st, s!"err {x.toStr}")
         | .panic _ => (st, "panic"))
  | "prim" => (st, primLine parts)
  | "specvec" => (st, specVec parts)
  | _ => (st, "badop")

/-- Sessions with an id >= 100 are built through `Builder::new` (snow's own default resolver, which the
    harness cannot wrap with its recording cipher): the implementation's lines carry no events, so the
    model's events are not printed for them either. -/
def quietize (line r : String) : String :=
  match line.splitOn " " with
  | _ :: sid :: _ =>
    if (sid.toNat?.getD 0) ≥ 100 then
      match r.splitOn " ev=" with
      | [a, _] => a ++ " ev=-"
      | _ => r
    else r
  | _ => r

partial def loop (h : IO.FS.Stream) (out : IO.FS.Stream) (st : St) : IO Unit := do
  let line ← h.getLine
  if line.isEmpty then return ()
  let l := (line.dropEndWhile (fun c => c == '\n' || c == '\r')).toString
  if l.isEmpty then loop h out st
  else if l.startsWith "# scenario" then
    out.putStrLn l
    loop h out { st with sess := [] }
  else if l.startsWith "#" then
    out.putStrLn l
    loop h out st
  else
    let (st', r) := step st l
    out.putStrLn (quietize l r)
    loop h out st'

end Drv

def main (args : List String) : IO UInt32 := do
  if args.contains "--selftest" then
    if SnowVerif.Real.selfTest then
      IO.println "selftest ok"
      return 0
    else
      IO.println "selftest FAILED"
      return 1
  let stdin ← IO.getStdin
  let stdout ← IO.getStdout
  Drv.loop stdin stdout {}
  return 0
