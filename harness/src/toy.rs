//! The toy suite (same definitions as lean/SnowVerif/Crypto/Toy.lean), a scripted
//! random source, recording wrappers and the resolvers built from them.  Everything goes
//! through snow's public `CryptoResolver` / `types::*` traits.

use snow::{
    params::{CipherChoice, DHChoice, HashChoice},
    resolvers::{BoxedCryptoResolver, CryptoResolver, DefaultResolver, FallbackResolver},
    types::{Cipher, Dh, Hash, Random},
    Error,
};
use std::sync::{Arc, Mutex};

pub fn mix(z0: u64) -> u64 {
    let z1 = (z0 ^ (z0 >> 30)).wrapping_mul(0xbf58476d1ce4e5b9);
    let z2 = (z1 ^ (z1 >> 27)).wrapping_mul(0x94d049bb133111eb);
    z2 ^ (z2 >> 31)
}

pub fn toy_hash(tag: u8, out_len: usize, data: &[u8]) -> Vec<u8> {
    let nl = out_len / 8;
    let mut lanes: Vec<u64> = (0..nl)
        .map(|i| mix(0x9e3779b97f4a7c15u64.wrapping_mul(i as u64 + 1).wrapping_add(tag as u64)))
        .collect();
    for (j, b) in data.iter().enumerate() {
        let i = j % nl;
        lanes[i] = mix(lanes[i] ^ (*b as u64) ^ ((j as u64) << 8));
    }
    let mut acc = mix(data.len() as u64 ^ 0xa5a5a5a5a5a5a5a5);
    for l in &lanes {
        acc = mix(acc ^ l);
    }
    let mut out = Vec::with_capacity(out_len);
    for (i, l) in lanes.iter().enumerate() {
        out.extend_from_slice(&mix(acc ^ l ^ i as u64).to_le_bytes());
    }
    out
}

fn dh_const(tag: u8) -> [u8; 32] {
    let mut c = [0u8; 32];
    for (i, x) in c.iter_mut().enumerate() {
        *x = 0x3C ^ (((i * 7) as u8).wrapping_add(tag));
    }
    c
}

pub fn toy_pub_of(tag: u8, pub_len: usize, privk: &[u8]) -> Vec<u8> {
    let c = dh_const(tag);
    let mut out = vec![0u8; pub_len];
    for i in 0..32 {
        out[i] = privk.get(i).copied().unwrap_or(0) ^ c[i];
    }
    for j in 0..pub_len - 32 {
        out[32 + j] = 0x50u8.wrapping_add(j as u8);
    }
    out
}

pub fn toy_dh(tag: u8, pub_len: usize, dh_len: usize, privk: &[u8], pubk: &[u8]) -> Option<Vec<u8>> {
    if pubk.len() < pub_len {
        return None;
    }
    if pub_len > 32 && pubk[32] == 0xFF {
        return None;
    }
    let c = dh_const(tag);
    let mut o = vec![0u8; 32];
    for i in 0..32 {
        o[i] = privk.get(i).copied().unwrap_or(0) ^ pubk[i] ^ c[i];
    }
    let ext: Vec<u8> = o[..dh_len - 32].to_vec();
    o.extend_from_slice(&ext);
    Some(o)
}

fn keystream(tag: u8, key: &[u8], n: u64, len: usize) -> Vec<u8> {
    let mut ks = Vec::with_capacity(len + 32);
    let mut i = 0u64;
    while ks.len() < len {
        let mut inp = Vec::with_capacity(64);
        inp.extend_from_slice(key);
        inp.extend_from_slice(&n.to_le_bytes());
        inp.extend_from_slice(&i.to_le_bytes());
        inp.push(0x4B);
        ks.extend_from_slice(&toy_hash(tag, 32, &inp));
        i += 1;
    }
    ks.truncate(len);
    ks
}

fn mac(tag: u8, key: &[u8], n: u64, ad: &[u8], ct: &[u8]) -> Vec<u8> {
    let mut inp = Vec::with_capacity(64 + ad.len() + ct.len());
    inp.extend_from_slice(key);
    inp.extend_from_slice(&n.to_le_bytes());
    inp.extend_from_slice(&(ad.len() as u64).to_le_bytes());
    inp.extend_from_slice(ad);
    inp.extend_from_slice(ct);
    inp.push(0x54);
    let mut h = toy_hash(tag, 32, &inp);
    h.truncate(16);
    h
}

pub fn toy_enc(tag: u8, key: &[u8], n: u64, ad: &[u8], pt: &[u8]) -> Vec<u8> {
    let ks = keystream(tag, key, n, pt.len());
    let mut ct: Vec<u8> = pt.iter().zip(ks.iter()).map(|(a, b)| a ^ b).collect();
    let t = mac(tag, key, n, ad, &ct);
    ct.extend_from_slice(&t);
    ct
}

pub fn toy_dec(tag: u8, key: &[u8], n: u64, ad: &[u8], c: &[u8]) -> Option<Vec<u8>> {
    if c.len() < 16 {
        return None;
    }
    let (body, t) = c.split_at(c.len() - 16);
    if t != mac(tag, key, n, ad, body).as_slice() {
        return None;
    }
    let ks = keystream(tag, key, n, body.len());
    Some(body.iter().zip(ks.iter()).map(|(a, b)| a ^ b).collect())
}

// ---------------------------------------------------------------- events

#[derive(Clone, Debug)]
pub enum Ev {
    Enc { key: Vec<u8>, n: u64, ad: Vec<u8>, pt: Vec<u8> },
    Dec { key: Vec<u8>, n: u64, ad: Vec<u8>, ct: Vec<u8>, ok: bool },
    Rng(Vec<u8>),
}

pub type Log = Arc<Mutex<Vec<Ev>>>;

pub fn new_log() -> Log {
    Arc::new(Mutex::new(Vec::new()))
}

// ---------------------------------------------------------------- scripted rng

pub struct ScriptedRng {
    stream: Vec<u8>,
    pos: usize,
    log: Log,
}

impl ScriptedRng {
    pub fn new(stream: Vec<u8>, log: Log) -> Self {
        Self { stream, pos: 0, log }
    }
}

impl rand_core::RngCore for ScriptedRng {
    fn next_u32(&mut self) -> u32 {
        let mut b = [0u8; 4];
        self.fill_bytes(&mut b);
        u32::from_le_bytes(b)
    }
    fn next_u64(&mut self) -> u64 {
        let mut b = [0u8; 8];
        self.fill_bytes(&mut b);
        u64::from_le_bytes(b)
    }
    fn fill_bytes(&mut self, dest: &mut [u8]) {
        for d in dest.iter_mut() {
            *d = if self.pos < self.stream.len() { self.stream[self.pos] } else { 0 };
            self.pos += 1;
        }
        self.log.lock().unwrap().push(Ev::Rng(dest.to_vec()));
    }
    fn try_fill_bytes(&mut self, dest: &mut [u8]) -> Result<(), rand_core::Error> {
        self.fill_bytes(dest);
        Ok(())
    }
}
impl rand_core::CryptoRng for ScriptedRng {}
impl Random for ScriptedRng {}

// ---------------------------------------------------------------- toy primitives as trait objects

pub struct ToyDh {
    tag: u8,
    name: &'static str,
    pub_len: usize,
    dh_len: usize,
    privkey: [u8; 32],
    pubkey: Vec<u8>,
}

impl ToyDh {
    pub fn new(sel: usize) -> Self {
        let (name, pub_len, dh_len) = match sel {
            0 => ("25519", 32, 32),
            1 => ("448", 56, 56),
            _ => ("P256", 65, 32),
        };
        Self { tag: 0x10 + sel as u8, name, pub_len, dh_len, privkey: [0; 32], pubkey: vec![0; pub_len] }
    }
}

impl Dh for ToyDh {
    fn name(&self) -> &'static str {
        self.name
    }
    fn pub_len(&self) -> usize {
        self.pub_len
    }
    fn priv_len(&self) -> usize {
        32
    }
    fn dh_len(&self) -> usize {
        self.dh_len
    }
    fn set(&mut self, privkey: &[u8]) {
        let mut b = [0u8; 32];
        b[..privkey.len()].copy_from_slice(privkey);
        self.privkey = b;
        self.pubkey = toy_pub_of(self.tag, self.pub_len, &b);
    }
    fn generate(&mut self, rng: &mut dyn Random) {
        let mut b = [0u8; 32];
        rng.fill_bytes(&mut b);
        self.privkey = b;
        self.pubkey = toy_pub_of(self.tag, self.pub_len, &b);
    }
    fn pubkey(&self) -> &[u8] {
        &self.pubkey
    }
    fn privkey(&self) -> &[u8] {
        &self.privkey
    }
    fn dh(&self, pubkey: &[u8], out: &mut [u8]) -> Result<(), Error> {
        match toy_dh(self.tag, self.pub_len, self.dh_len, &self.privkey, pubkey) {
            Some(o) => {
                out[..o.len()].copy_from_slice(&o);
                Ok(())
            },
            None => Err(Error::Dh),
        }
    }
}

pub struct ToyHash {
    tag: u8,
    name: &'static str,
    hash_len: usize,
    buf: Vec<u8>,
}

impl ToyHash {
    pub fn new(sel: usize) -> Self {
        let (name, hash_len) = match sel {
            0 => ("SHA256", 32),
            1 => ("SHA512", 64),
            2 => ("BLAKE2s", 32),
            _ => ("BLAKE2b", 64),
        };
        Self { tag: 0x30 + sel as u8, name, hash_len, buf: Vec::new() }
    }
}

impl Hash for ToyHash {
    fn name(&self) -> &'static str {
        self.name
    }
    fn block_len(&self) -> usize {
        2 * self.hash_len
    }
    fn hash_len(&self) -> usize {
        self.hash_len
    }
    fn reset(&mut self) {
        self.buf.clear();
    }
    fn input(&mut self, data: &[u8]) {
        self.buf.extend_from_slice(data);
    }
    fn result(&mut self, out: &mut [u8]) {
        let h = toy_hash(self.tag, self.hash_len, &self.buf);
        out[..h.len()].copy_from_slice(&h);
        self.buf.clear();
    }
}

pub struct ToyCipher {
    tag: u8,
    name: &'static str,
    key: [u8; 32],
}

impl ToyCipher {
    pub fn new(sel: usize) -> Self {
        let name = match sel {
            0 => "ChaChaPoly",
            1 => "XChaChaPoly",
            _ => "AESGCM",
        };
        Self { tag: 0x20 + sel as u8, name, key: [0; 32] }
    }
}

impl Cipher for ToyCipher {
    fn name(&self) -> &'static str {
        self.name
    }
    fn set(&mut self, key: &[u8; 32]) {
        self.key = *key;
    }
    fn encrypt(&self, nonce: u64, authtext: &[u8], plaintext: &[u8], out: &mut [u8]) -> usize {
        // same write pattern as the default wrappers: plaintext first, then in place, then the tag
        out[..plaintext.len()].copy_from_slice(plaintext);
        let c = toy_enc(self.tag, &self.key, nonce, authtext, plaintext);
        out[..plaintext.len()].copy_from_slice(&c[..plaintext.len()]);
        out[plaintext.len()..plaintext.len() + 16].copy_from_slice(&c[plaintext.len()..]);
        c.len()
    }
    fn decrypt(&self, nonce: u64, authtext: &[u8], ciphertext: &[u8], out: &mut [u8]) -> Result<usize, Error> {
        let message_len = ciphertext.len() - 16;
        out[..message_len].copy_from_slice(&ciphertext[..message_len]);
        match toy_dec(self.tag, &self.key, nonce, authtext, ciphertext) {
            Some(p) => {
                out[..message_len].copy_from_slice(&p);
                Ok(message_len)
            },
            None => Err(Error::Decrypt),
        }
    }
}

// ---------------------------------------------------------------- recording cipher

pub struct RecCipher {
    inner: Box<dyn Cipher>,
    key: [u8; 32],
    log: Log,
}

impl Cipher for RecCipher {
    fn name(&self) -> &'static str {
        self.inner.name()
    }
    fn set(&mut self, key: &[u8; 32]) {
        self.key = *key;
        self.inner.set(key);
    }
    fn encrypt(&self, nonce: u64, authtext: &[u8], plaintext: &[u8], out: &mut [u8]) -> usize {
        self.log.lock().unwrap().push(Ev::Enc {
            key: self.key.to_vec(),
            n: nonce,
            ad: authtext.to_vec(),
            pt: plaintext.to_vec(),
        });
        self.inner.encrypt(nonce, authtext, plaintext, out)
    }
    fn decrypt(&self, nonce: u64, authtext: &[u8], ciphertext: &[u8], out: &mut [u8]) -> Result<usize, Error> {
        let r = self.inner.decrypt(nonce, authtext, ciphertext, out);
        self.log.lock().unwrap().push(Ev::Dec {
            key: self.key.to_vec(),
            n: nonce,
            ad: authtext.to_vec(),
            ct: ciphertext.to_vec(),
            ok: r.is_ok(),
        });
        r
    }
    /// The wrapped cipher's OWN `rekey` is called (a backend may override the trait default of types.rs, and such an
    /// override must be exercised by sessions too). The logged event and the key used for later log entries are the ones
    /// the trait default produces (`ENCRYPT(k, 2^64-1, "", zeros32)[..32]`): if the backend derives something else, the
    /// following ciphertexts differ from the model's and from the peer's expectation.
    fn rekey(&mut self) {
        let zeros = [0u8; 32];
        let mut out = [0u8; 48];
        self.log.lock().unwrap().push(Ev::Enc { key: self.key.to_vec(), n: u64::MAX, ad: vec![], pt: zeros.to_vec() });
        self.inner.encrypt(u64::MAX, &[], &zeros, &mut out);
        self.key.copy_from_slice(&out[..32]);
        self.inner.rekey();
    }
}

// ---------------------------------------------------------------- resolvers

pub fn dh_sel(c: &DHChoice) -> usize {
    match c {
        DHChoice::Curve25519 => 0,
        DHChoice::Curve448 => 1,
        #[cfg(feature = "full")]
        DHChoice::P256 => 2,
    }
}
pub fn cipher_sel(c: &CipherChoice) -> usize {
    match c {
        CipherChoice::ChaChaPoly => 0,
        #[cfg(feature = "full")]
        CipherChoice::XChaChaPoly => 1,
        CipherChoice::AESGCM => 2,
    }
}
pub fn hash_sel(c: &HashChoice) -> usize {
    match c {
        HashChoice::SHA256 => 0,
        HashChoice::SHA512 => 1,
        HashChoice::Blake2s => 2,
        HashChoice::Blake2b => 3,
    }
}

/// Toy resolver with selectable availability.
pub struct ToyResolver {
    pub rng: bool,
    pub dh: bool,
    pub cipher: bool,
    pub hash: bool,
    /// non-zero: the random source of this resolver yields this byte forever (a recognisable source)
    pub mark: u8,
}

impl CryptoResolver for ToyResolver {
    fn resolve_rng(&self) -> Option<Box<dyn Random>> {
        // never used for real randomness: the session wrapper replaces it by the scripted source
        if self.rng { Some(Box::new(ScriptedRng::new(vec![self.mark; 64], new_log()))) } else { None }
    }
    fn resolve_dh(&self, choice: &DHChoice) -> Option<Box<dyn Dh>> {
        if self.dh { Some(Box::new(ToyDh::new(dh_sel(choice)))) } else { None }
    }
    fn resolve_hash(&self, choice: &HashChoice) -> Option<Box<dyn Hash>> {
        if self.hash { Some(Box::new(ToyHash::new(hash_sel(choice)))) } else { None }
    }
    fn resolve_cipher(&self, choice: &CipherChoice) -> Option<Box<dyn Cipher>> {
        if self.cipher { Some(Box::new(ToyCipher::new(cipher_sel(choice)))) } else { None }
    }
}

/// Wraps any resolver: scripted randomness (when a stream is given and the inner resolver
/// provides an rng at all) and recording ciphers.
pub struct SessionResolver {
    pub inner: BoxedCryptoResolver,
    pub rng_stream: Option<Vec<u8>>,
    pub log: Log,
}

impl CryptoResolver for SessionResolver {
    fn resolve_rng(&self) -> Option<Box<dyn Random>> {
        let r = self.inner.resolve_rng()?;
        match &self.rng_stream {
            Some(s) => Some(Box::new(ScriptedRng::new(s.clone(), self.log.clone()))),
            None => Some(r),
        }
    }
    fn resolve_dh(&self, choice: &DHChoice) -> Option<Box<dyn Dh>> {
        self.inner.resolve_dh(choice)
    }
    fn resolve_hash(&self, choice: &HashChoice) -> Option<Box<dyn Hash>> {
        self.inner.resolve_hash(choice)
    }
    fn resolve_cipher(&self, choice: &CipherChoice) -> Option<Box<dyn Cipher>> {
        let c = self.inner.resolve_cipher(choice)?;
        Some(Box::new(RecCipher { inner: c, key: [0; 32], log: self.log.clone() }))
    }
}

/// Resolver expressions: `toy`, `toy-norng`, `toy-nodh`, `toy-nocipher`, `toy-nohash`,
/// `none`, `default`, `ring`, `fb(<a>,<b>)`.
pub fn resolver_from_expr(e: &str) -> Option<BoxedCryptoResolver> {
    let t = |rng, dh, cipher, hash| -> Option<BoxedCryptoResolver> {
        Some(Box::new(ToyResolver { rng, dh, cipher, hash, mark: 0 }))
    };
    match e {
        "toy" => t(true, true, true, true),
        "toy-norng" => t(false, true, true, true),
        "toy-nodh" => t(true, false, true, true),
        "toy-nocipher" => t(true, true, false, true),
        "toy-nohash" => t(true, true, true, false),
        "none" => t(false, false, false, false),
        "mark1" => Some(Box::new(ToyResolver { rng: true, dh: true, cipher: true, hash: true, mark: 1 })),
        "mark2" => Some(Box::new(ToyResolver { rng: true, dh: true, cipher: true, hash: true, mark: 2 })),
        "default" => Some(Box::new(DefaultResolver)),
        #[cfg(feature = "full")]
        "ring" => Some(Box::new(snow::resolvers::RingResolver)),
        #[cfg(not(feature = "full"))]
        "ring" => None,
        _ => {
            let inner = e.strip_prefix("fb(")?.strip_suffix(')')?;
            // split at the top-level comma
            let mut depth = 0usize;
            for (i, ch) in inner.char_indices() {
                match ch {
                    '(' => depth += 1,
                    ')' => depth = depth.checked_sub(1)?,
                    ',' if depth == 0 => {
                        let a = resolver_from_expr(&inner[..i])?;
                        let b = resolver_from_expr(&inner[i + 1..])?;
                        return Some(Box::new(FallbackResolver::new(a, b)));
                    },
                    _ => {},
                }
            }
            None
        },
    }
}
